(* Correspondence driver: reads cases (one per line) on stdin, runs the extracted Coq models,
   prints one observation line per case in the same format as the Go harness. *)
open BinNums

let rec pos_of_int n =
  if n <= 1 then Coq_xH
  else if n land 1 = 0 then Coq_xO (pos_of_int (n lsr 1))
  else Coq_xI (pos_of_int (n lsr 1))
let n_of_int n = if n = 0 then N0 else Npos (pos_of_int n)
let rec int_of_pos = function
  | Coq_xH -> 1
  | Coq_xO p -> 2 * int_of_pos p
  | Coq_xI p -> 2 * int_of_pos p + 1
let int_of_n = function N0 -> 0 | Npos p -> int_of_pos p

let bytes_of_hex (h : string) : coq_N list =
  let n = Stdlib.String.length h / 2 in
  Stdlib.List.init n (fun i -> n_of_int (int_of_string ("0x" ^ Stdlib.String.sub h (2 * i) 2)))
let hex_of_bytes (b : coq_N list) : string =
  let buf = Buffer.create 64 in
  Stdlib.List.iter (fun c -> Buffer.add_string buf (Printf.sprintf "%02x" (int_of_n c))) b;
  Buffer.contents buf

let lex_case id src =
  match LexModel.tokenize (bytes_of_hex src) with
  | LexModel.LexOk ts ->
      let f (t : LexModel.token) =
        Printf.sprintf "%d:%s:%d:%d" (int_of_n (Tables.toktype_index t.LexModel.ty))
          (hex_of_bytes t.LexModel.coq_val) (int_of_n t.LexModel.row) (int_of_n t.LexModel.col) in
      Printf.printf "lex %s ok %s\n" id (Stdlib.String.concat " " (Stdlib.List.map f ts))
  | LexModel.LexErr -> Printf.printf "lex %s err\n" id
  | LexModel.LexFuel -> Printf.printf "lex %s fuel\n" id

let () =
  try
    while true do
      let line = input_line stdin in
      match Stdlib.String.split_on_char ' ' line with
      | ["lex"; id; src] -> lex_case id src
      | ["lex"; id] -> lex_case id ""
      | [] | [""] -> ()
      | k :: _ -> Printf.printf "unknown-case-kind %s\n" k
    done
  with End_of_file -> ()
