(* Correspondence driver: reads cases (one per line) on stdin, runs the extracted Coq models,
   prints one observation line per case in the same format as the Go harness. *)
open BinNums

let rec pos_of_int n =
  if n <= 1 then Coq_xH
  else if n land 1 = 0 then Coq_xO (pos_of_int (n lsr 1))
  else Coq_xI (pos_of_int (n lsr 1))
let n_of_int n = if n = 0 then N0 else Npos (pos_of_int n)
let rec int_of_pos = function
  | Coq_xH -> 1
  | Coq_xO p -> 2 * int_of_pos p
  | Coq_xI p -> 2 * int_of_pos p + 1
let int_of_n = function N0 -> 0 | Npos p -> int_of_pos p

let bytes_of_hex (h : string) : coq_N list =
  let n = Stdlib.String.length h / 2 in
  Stdlib.List.init n (fun i -> n_of_int (int_of_string ("0x" ^ Stdlib.String.sub h (2 * i) 2)))
let hex_of_bytes (b : coq_N list) : string =
  let buf = Buffer.create 64 in
  Stdlib.List.iter (fun c -> Buffer.add_string buf (Printf.sprintf "%02x" (int_of_n c))) b;
  Buffer.contents buf

let lex_case id src =
  match LexModel.tokenize (bytes_of_hex src) with
  | LexModel.LexOk ts ->
      let f (t : LexModel.token) =
        Printf.sprintf "%d:%s:%d:%d" (int_of_n (Tables.toktype_index t.LexModel.ty))
          (hex_of_bytes t.LexModel.coq_val) (int_of_n t.LexModel.row) (int_of_n t.LexModel.col) in
      Printf.printf "lex %s ok %s\n" id (Stdlib.String.concat " " (Stdlib.List.map f ts))
  | LexModel.LexErr -> Printf.printf "lex %s err\n" id
  | LexModel.LexFuel -> Printf.printf "lex %s fuel\n" id

(* ---- tsh ---- *)
let split_nonempty c s = Stdlib.List.filter (fun x -> x <> "") (Stdlib.String.split_on_char c s)

let tsh_case id argv fs infile rb rw =
  let args = Stdlib.List.map bytes_of_hex (split_nonempty ',' argv) in
  let entry e =
    if Stdlib.String.get e 0 = 'd' then (bytes_of_hex (Stdlib.String.sub e 1 (Stdlib.String.length e - 1)), Tsh.Dir)
    else begin
      let body = Stdlib.String.sub e 1 (Stdlib.String.length e - 1) in
      match Stdlib.String.index_opt body '.' with
      | Some i -> (bytes_of_hex (Stdlib.String.sub body 0 i),
                   Tsh.File (bytes_of_hex (Stdlib.String.sub body (i + 1) (Stdlib.String.length body - i - 1))))
      | None -> (bytes_of_hex body, Tsh.File [])
    end in
  let fs0 = (bytes_of_hex "2e", Tsh.Dir) :: Stdlib.List.map entry (split_nonempty ',' fs) in
  let inb = bytes_of_hex infile in
  let res r = if r = "" || Stdlib.String.get r 0 = 'e' then None else Some (bytes_of_hex (Stdlib.String.sub r 1 (Stdlib.String.length r - 1))) in
  let lib p t = if p = inb then (match t with Tsh.Bash -> res rb | Tsh.Batch -> res rw) else None in
  let (fs1, out) = Tsh.tsh lib fs0 args in
  let files = Stdlib.List.filter_map (fun (p, n) -> match n with Tsh.File c -> Some (hex_of_bytes p, hex_of_bytes c) | Tsh.Dir -> None) fs1 in
  (* sort by the decoded path, like the harness *)
  let unhex h = Stdlib.String.init (Stdlib.String.length h / 2) (fun i -> Char.chr (int_of_string ("0x" ^ Stdlib.String.sub h (2 * i) 2))) in
  let files = Stdlib.List.sort (fun (a, _) (b, _) -> compare (unhex a) (unhex b)) files in
  Printf.printf "tsh %s exit=%d %s\n" id (match out with Tsh.Exit0 -> 0 | Tsh.ExitPanic -> 1)
    (Stdlib.String.concat "," (Stdlib.List.map (fun (p, c) -> p ^ ":" ^ c) files))

let () =
  try
    while true do
      let line = input_line stdin in
      match Stdlib.String.split_on_char ' ' line with
      | ["lex"; id; src] -> lex_case id src
      | ["lex"; id] -> lex_case id ""
      | ["tsh"; id; argv; fs; infile; rb; rw] -> tsh_case id argv fs infile rb rw
      | [] | [""] -> ()
      | k :: _ -> Printf.printf "unknown-case-kind %s\n" k
    done
  with End_of_file -> ()
