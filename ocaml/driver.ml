(* Correspondence driver: reads cases (one per line) on stdin, runs the extracted Coq models,
   prints one observation line per case in the same format as the Go harness. *)
open BinNums

let rec pos_of_int n =
  if n <= 1 then Coq_xH
  else if n land 1 = 0 then Coq_xO (pos_of_int (n lsr 1))
  else Coq_xI (pos_of_int (n lsr 1))
let n_of_int n = if n = 0 then N0 else Npos (pos_of_int n)
let rec int_of_pos = function
  | Coq_xH -> 1
  | Coq_xO p -> 2 * int_of_pos p
  | Coq_xI p -> 2 * int_of_pos p + 1
let int_of_n = function N0 -> 0 | Npos p -> int_of_pos p

let bytes_of_hex (h : string) : coq_N list =
  let n = Stdlib.String.length h / 2 in
  Stdlib.List.init n (fun i -> n_of_int (int_of_string ("0x" ^ Stdlib.String.sub h (2 * i) 2)))
let hex_of_bytes (b : coq_N list) : string =
  let buf = Buffer.create 64 in
  Stdlib.List.iter (fun c -> Buffer.add_string buf (Printf.sprintf "%02x" (int_of_n c))) b;
  Buffer.contents buf

let lex_case id src =
  match LexModel.tokenize (bytes_of_hex src) with
  | LexModel.LexOk ts ->
      let f (t : LexModel.token) =
        Printf.sprintf "%d:%s:%d:%d" (int_of_n (Tables.toktype_index t.LexModel.ty))
          (hex_of_bytes t.LexModel.coq_val) (int_of_n t.LexModel.row) (int_of_n t.LexModel.col) in
      Printf.printf "lex %s ok %s\n" id (Stdlib.String.concat " " (Stdlib.List.map f ts))
  | LexModel.LexErr -> Printf.printf "lex %s err\n" id
  | LexModel.LexFuel -> Printf.printf "lex %s fuel\n" id

(* ---- tsh ---- *)
let split_nonempty c s = Stdlib.List.filter (fun x -> x <> "") (Stdlib.String.split_on_char c s)

let tsh_case id argv fs infile rb rw =
  let args = Stdlib.List.map bytes_of_hex (split_nonempty ',' argv) in
  let entry e =
    if Stdlib.String.get e 0 = 'd' then (bytes_of_hex (Stdlib.String.sub e 1 (Stdlib.String.length e - 1)), Tsh.Dir)
    else begin
      let body = Stdlib.String.sub e 1 (Stdlib.String.length e - 1) in
      match Stdlib.String.index_opt body '.' with
      | Some i -> (bytes_of_hex (Stdlib.String.sub body 0 i),
                   Tsh.File (bytes_of_hex (Stdlib.String.sub body (i + 1) (Stdlib.String.length body - i - 1))))
      | None -> (bytes_of_hex body, Tsh.File [])
    end in
  let fs0 = (bytes_of_hex "2e", Tsh.Dir) :: Stdlib.List.map entry (split_nonempty ',' fs) in
  let inb = bytes_of_hex infile in
  let res r = if r = "" || Stdlib.String.get r 0 = 'e' then None else Some (bytes_of_hex (Stdlib.String.sub r 1 (Stdlib.String.length r - 1))) in
  let lib p t = if p = inb then (match t with Tsh.Bash -> res rb | Tsh.Batch -> res rw) else None in
  let (fs1, out) = Tsh.tsh lib fs0 args in
  let files = Stdlib.List.filter_map (fun (p, n) -> match n with Tsh.File c -> Some (hex_of_bytes p, hex_of_bytes c) | Tsh.Dir -> None) fs1 in
  (* sort by the decoded path, like the harness *)
  let unhex h = Stdlib.String.init (Stdlib.String.length h / 2) (fun i -> Char.chr (int_of_string ("0x" ^ Stdlib.String.sub h (2 * i) 2))) in
  let files = Stdlib.List.sort (fun (a, _) (b, _) -> compare (unhex a) (unhex b)) files in
  Printf.printf "tsh %s exit=%d %s\n" id (match out with Tsh.Exit0 -> 0 | Tsh.ExitPanic -> 1)
    (Stdlib.String.concat "," (Stdlib.List.map (fun (p, c) -> p ^ ":" ^ c) files))

(* ---- programs: AST dump in the harness' S-expression syntax ---- *)
open Ast
let str_of_bytes (b : coq_N list) : string =
  let buf = Buffer.create 256 in
  Stdlib.List.iter (fun c -> Buffer.add_char buf (Char.chr (int_of_n c))) b;
  Buffer.contents buf
let sp = Stdlib.String.concat " "
let d_dt = function DUnknown -> "u" | DMultiple -> "m" | DBool -> "b" | DInt -> "i" | DString -> "s"
let d_vt t = (if t.is_slice then "[]" else "") ^ d_dt t.dt
let d_vts ts = "(" ^ sp (Stdlib.List.map d_vt ts) ^ ")"
let b01 b = if b then "1" else "0"
let d_var v = Printf.sprintf "(v %s %s %s %s)" (hex_of_bytes v.v_name) (d_vt v.v_type) (b01 v.v_global) (b01 v.v_public)
let d_vars vs = "(" ^ sp (Stdlib.List.map d_var vs) ^ ")"
let op_bin = function OpMul -> "2a" | OpDiv -> "2f" | OpMod -> "25" | OpAdd -> "2b" | OpSub -> "2d"
let op_cmp = function CEq -> "3d3d" | CNe -> "213d" | CLt -> "3c" | CLe -> "3c3d" | CGt -> "3e" | CGe -> "3e3d"
let op_log = function LAnd -> "2626" | LOr -> "7c7c"
let rec d_expr e =
  match e with
  | EBool b -> "(B " ^ b01 b ^ ")"
  | EInt z -> "(I " ^ str_of_bytes (Bytestr.dec_Z z) ^ ")"
  | EStr s -> "(S " ^ hex_of_bytes s ^ ")"
  | EUnary e -> "(U " ^ d_expr e ^ ")"
  | EBinary (l, op, r) -> Printf.sprintf "(Bin %s %s %s)" (op_bin op) (d_expr l) (d_expr r)
  | ECompare (l, op, r) -> Printf.sprintf "(Cmp %s %s %s)" (op_cmp op) (d_expr l) (d_expr r)
  | ELogical (l, op, r) -> Printf.sprintf "(Log %s %s %s)" (op_log op) (d_expr l) (d_expr r)
  | EVar v -> "(V " ^ d_var v ^ ")"
  | EGroup e -> "(G " ^ d_expr e ^ ")"
  | ECall (n, rets, args) -> Printf.sprintf "(Call %s %s %s)" (hex_of_bytes n) (d_vts rets) (d_exprs args)
  | EApp calls -> "(App " ^ sp (Stdlib.List.map (fun (n, args) -> Printf.sprintf "(%s %s)" (hex_of_bytes n) (d_exprs args)) calls) ^ ")"
  | ESliceInst (d, vals) -> Printf.sprintf "(SI []%s %s)" (d_dt d) (d_exprs vals)
  | ESliceEval (v, i, d) -> Printf.sprintf "(SE %s %s %s)" (d_expr v) (d_expr i) (d_dt d)
  | ESubscript (v, s, e) -> Printf.sprintf "(Sub %s %s %s)" (d_expr v) (d_expr s) (match e with Some x -> d_expr x | None -> "-")
  | ELen e -> "(Len " ^ d_expr e ^ ")"
  | EInput p -> "(In " ^ (match p with Some x -> d_expr x | None -> "-") ^ ")"
  | ECopy (d, s) -> Printf.sprintf "(Copy %s %s)" (d_var d) (d_expr s)
  | EItoa e -> "(Itoa " ^ d_expr e ^ ")"
  | EExists e -> "(Ex " ^ d_expr e ^ ")"
  | ERead e -> "(Rd " ^ d_expr e ^ ")"
and d_exprs es = "(" ^ sp (Stdlib.List.map d_expr es) ^ ")"
let rec d_stmt s =
  match s with
  | SVarDef (vs, vals) -> Printf.sprintf "(Def %s %s)" (d_vars vs) (d_exprs vals)
  | SVarDefCall (vs, c) -> Printf.sprintf "(DefC %s %s)" (d_vars vs) (d_expr c)
  | SAssign (vs, vals) -> Printf.sprintf "(Asg %s %s)" (d_vars vs) (d_exprs vals)
  | SAssignCall (vs, c) -> Printf.sprintf "(AsgC %s %s)" (d_vars vs) (d_expr c)
  | SSliceAssign (v, i, x) -> Printf.sprintf "(SA %s %s %s)" (d_var v) (d_expr i) (d_expr x)
  | SFunc (n, rets, ps, body, pub) -> Printf.sprintf "(Fn %s %s %s %s %s)" (hex_of_bytes n) (d_vts rets) (d_vars ps) (b01 pub) (d_stmts body)
  | SReturn vals -> "(Ret " ^ d_exprs vals ^ ")"
  | SIf (brs, els) ->
      Printf.sprintf "(If (%s) %s)" (sp (Stdlib.List.map (fun (c, b) -> Printf.sprintf "(%s %s)" (d_expr c) (d_stmts b)) brs)) (d_stmts els)
  | SFor (i, c, n, b) ->
      Printf.sprintf "(For %s %s %s %s)" (match i with Some x -> d_stmt x | None -> "-") (d_expr c)
        (match n with Some x -> d_stmt x | None -> "-") (d_stmts b)
  | SBreak -> "Brk"
  | SContinue -> "Cont"
  | SPrint es -> "(Pr " ^ d_exprs es ^ ")"
  | SPanic e -> "(Pan " ^ d_expr e ^ ")"
  | SWrite (p, d, a) -> Printf.sprintf "(Wr %s %s %s)" (d_expr p) (d_expr d) (d_expr a)
  | SExpr e -> "(X " ^ d_expr e ^ ")"
and d_stmts ss = "(" ^ sp (Stdlib.List.map d_stmt ss) ^ ")"

let env_of files stddir =
  let ent e =
    match Stdlib.String.split_on_char '.' e with
    | [p; c; pre] -> (bytes_of_hex p, { FrontModel.fe_content = bytes_of_hex c; FrontModel.fe_prefix = bytes_of_hex pre })
    | _ -> failwith "bad file entry" in
  { FrontModel.e_fs = Stdlib.List.map ent (split_nonempty ',' files); FrontModel.e_stddir = bytes_of_hex stddir }

let parse_case id main files stddir =
  match FrontModel.parse_main (env_of files stddir) (bytes_of_hex main) with
  | FrontModel.POk (body, _, _, _) -> Printf.printf "parse %s ok %s\n" id (d_stmts body)
  | FrontModel.PErr -> Printf.printf "parse %s err\n" id
  | FrontModel.PFuel -> Printf.printf "parse %s fuel\n" id

let emit_case id main files stddir =
  match FrontModel.parse_main (env_of files stddir) (bytes_of_hex main) with
  | FrontModel.POk (body, _, _, _) ->
      let (b, bsyn) = (match BashConv.emit_bash body with
               | Transpile.TOk (script, st) ->
                   ("ok:" ^ hex_of_bytes script,
                    if BashSyntax.well_formed (Stdlib.List.append st.BashConv.b_start st.BashConv.b_code) then "ok" else "bad")
               | Transpile.TErr -> ("err", "-")
               | Transpile.TPanic -> ("panic", "-")) in
      let (w, wsyn) = (match BatchConv.emit_batch body with
               | Transpile.TOk (script, st) ->
                   ("ok:" ^ hex_of_bytes script, if BatchSyntax.batch_wf (BatchSyntax.batch_lines st) then "ok" else "bad")
               | Transpile.TErr -> ("err", "-")
               | Transpile.TPanic -> ("panic", "-")) in
      Printf.printf "emit %s bash=%s batch=%s bashsyntax=%s batchsyntax=%s emits=%s\n" id b w bsyn wsyn
        (if BashFacts.emits_all body then "1" else "0")
  | FrontModel.PErr -> Printf.printf "emit %s bash=err batch=err bashsyntax=- batchsyntax=-\n" id
  | FrontModel.PFuel -> Printf.printf "emit %s bash=fuel batch=fuel\n" id

(* ---- reference semantics on the model's AST ---- *)
let rec nat_of_int n = if n <= 0 then Datatypes.O else Datatypes.S (nat_of_int (n - 1))
let z_to_string z = str_of_bytes (Bytestr.dec_Z z)
let run_fuel = nat_of_int 20000
let run_case_k kind id main files stddir =
  match FrontModel.parse_main (env_of files stddir) (bytes_of_hex main) with
  | FrontModel.POk (body, _, _, _) ->
      (* the flat shell model of the C01/C02 theorems on the model's own script: loops, and the script's functions as the call oracle *)
      let flat = (match BashConv.emit_bash body with
          | Transpile.TOk (_, st) ->
              (match FlatLoop.lrun (FlatLoop.call_of st.BashConv.b_code (nat_of_int 40)) [] (nat_of_int 60000) false [] [] st.BashConv.b_code with
               | Some (_, out) -> " flat=" ^ hex_of_bytes out
               | None -> "")
          | _ -> "") in
      (* the source semantics J of the simulation theorems, by its interpreter (Sem/JRun.v), when the program is in its fragment *)
      let flat = flat ^ (match JRun.jprogram (nat_of_int 20000) body with
          | Some out -> " jout=" ^ hex_of_bytes out ^ (if ProgramPreserve.program_static body then " jstatic=1" else " jstatic=0")
          | None -> "") in
      (match Src.run run_fuel [] [] body with
       | Src.Ran (out, status, _) -> Printf.printf "%s %s transpile=ok out=%s status=%s stderr=%s\n" kind id (hex_of_bytes out) (z_to_string status) flat
       | Src.RunUndef -> Printf.printf "%s %s undefined\n" kind id
       | Src.RunNoFuel -> Printf.printf "%s %s nofuel\n" kind id)
  | FrontModel.PErr -> Printf.printf "%s %s transpile=err\n" kind id
  | FrontModel.PFuel -> Printf.printf "%s %s transpile=fuel\n" kind id

let run_case id main files stddir = run_case_k "run" id main files stddir

(* ---- reference semantics with standard input and an initial file store (orun cases) ---- *)
let lines_of_text (t : string) : coq_N list list =
  (* "a\nb\n" -> [a; b];  a final piece without newline is a line too *)
  let parts = Stdlib.String.split_on_char '\n' t in
  let parts = (match Stdlib.List.rev parts with "" :: r -> Stdlib.List.rev r | _ -> parts) in
  Stdlib.List.map (fun l -> bytes_of_hex (Stdlib.String.concat "" (Stdlib.List.map (fun c -> Printf.sprintf "%02x" (Char.code c)) (Stdlib.List.of_seq (Stdlib.String.to_seq l))))) parts
let text_of_hex h = str_of_bytes (bytes_of_hex h)
let orun_case id main files stddir stdin prefiles =
  let stdin_lines = if stdin = "-" then [] else lines_of_text (text_of_hex stdin) in
  let pre = if prefiles = "-" then [] else
      Stdlib.List.map (fun e -> match Stdlib.String.split_on_char '.' e with
          | [n; c] -> (bytes_of_hex n, lines_of_text (text_of_hex c))
          | [n] -> (bytes_of_hex n, [])
          | _ -> failwith "bad prefile") (split_nonempty ',' prefiles) in
  match FrontModel.parse_main (env_of files stddir) (bytes_of_hex main) with
  | FrontModel.POk (body, _, _, _) ->
      (match Src.run run_fuel pre stdin_lines body with
       | Src.Ran (out, status, fs) ->
           let ents = Stdlib.List.sort compare (Stdlib.List.map (fun (n, ls) ->
               hex_of_bytes n ^ "." ^ hex_of_bytes (Stdlib.List.concat (Stdlib.List.map (fun l -> Stdlib.List.append l [bytes_of_hex "0a" |> Stdlib.List.hd]) ls))) fs) in
           Printf.printf "orun %s transpile=ok out=%s status=%s stderr= files=%s\n" id (hex_of_bytes out) (z_to_string status) (Stdlib.String.concat "," ents)
       | Src.RunUndef -> Printf.printf "orun %s undefined\n" id
       | Src.RunNoFuel -> Printf.printf "orun %s nofuel\n" id)
  | FrontModel.PErr -> Printf.printf "orun %s transpile=err\n" id
  | FrontModel.PFuel -> Printf.printf "orun %s transpile=fuel\n" id

(* ---- C15: the strings library (transliteration lib_f) and the Go specification (go_f) ---- *)
let z_of_int n = if n = 0 then Z0 else if n > 0 then Zpos (pos_of_int n) else Zneg (pos_of_int (-n))
let strlib_case id fname (fields : string list) =
  let fld i = (match Stdlib.List.nth_opt fields i with Some x -> x | None -> "") in
  let s i = bytes_of_hex (fld i) in
  let z i = z_of_int (int_of_string (fld i)) in
  let sl i = (let f = fld i in if f = "" then [] else if f = "-" then [[]] else Stdlib.List.map bytes_of_hex (Stdlib.String.split_on_char ',' f)) in
  let os b = hex_of_bytes b in
  let ob b = if b then "1" else "0" in
  let oz v = z_to_string v in
  let ol l = Printf.sprintf "n=%d:%s" (Stdlib.List.length l) (Stdlib.String.concat "," (Stdlib.List.map hex_of_bytes l)) in
  let opt f = function Some v -> f v | None -> "model-undefined" in
  let (l, g) = (match fname with
    | "Index" -> (opt oz (StrLib.lib_index (s 0) (s 1)), oz (GoStrings.go_index (s 0) (s 1)))
    | "Contains" -> (opt ob (StrLib.lib_contains (s 0) (s 1)), ob (GoStrings.go_contains (s 0) (s 1)))
    | "Join" -> (opt os (StrLib.lib_join (sl 0) (s 1)), os (GoStrings.go_join (sl 0) (s 1)))
    | "HasPrefix" -> (opt ob (StrLib.lib_has_prefix (s 0) (s 1)), ob (GoStrings.go_has_prefix (s 0) (s 1)))
    | "HasSuffix" -> (opt ob (StrLib.lib_has_suffix (s 0) (s 1)), ob (GoStrings.go_has_suffix (s 0) (s 1)))
    | "Count" -> (opt oz (StrLib.lib_count (s 0) (s 1)), oz (GoStrings.go_count (s 0) (s 1)))
    | "Split" -> (opt ol (StrLib.lib_split (s 0) (s 1)), ol (GoStrings.go_split (s 0) (s 1)))
    | "Repeat" -> (opt os (StrLib.lib_repeat (s 0) (z 1)), os (GoStrings.go_repeat (s 0) (z 1)))
    | "Replace" -> (opt os (StrLib.lib_replace (s 0) (s 1) (s 2) (z 3)), os (GoStrings.go_replace (s 0) (s 1) (s 2) (z 3)))
    | "ReplaceAll" -> (opt os (StrLib.lib_replace_all (s 0) (s 1) (s 2)), os (GoStrings.go_replace_all (s 0) (s 1) (s 2)))
    | "Cut" -> (opt (fun ((a, b), f) -> os a ^ "," ^ os b ^ "," ^ ob f) (StrLib.lib_cut (s 0) (s 1)),
                (let ((a, b), f) = GoStrings.go_cut (s 0) (s 1) in os a ^ "," ^ os b ^ "," ^ ob f))
    | "CutPrefix" -> (opt (fun (a, f) -> os a ^ "," ^ ob f) (StrLib.lib_cut_prefix (s 0) (s 1)), (let (a, f) = GoStrings.go_cut_prefix (s 0) (s 1) in os a ^ "," ^ ob f))
    | "CutSuffix" -> (opt (fun (a, f) -> os a ^ "," ^ ob f) (StrLib.lib_cut_suffix (s 0) (s 1)), (let (a, f) = GoStrings.go_cut_suffix (s 0) (s 1) in os a ^ "," ^ ob f))
    | "TrimPrefix" -> (opt os (StrLib.lib_trim_prefix (s 0) (s 1)), os (GoStrings.go_trim_prefix (s 0) (s 1)))
    | "TrimSuffix" -> (opt os (StrLib.lib_trim_suffix (s 0) (s 1)), os (GoStrings.go_trim_suffix (s 0) (s 1)))
    | "TrimLeft" -> (opt os (StrLib.lib_trim_left (s 0) (s 1)), os (GoStrings.go_trim_left (s 0) (s 1)))
    | "TrimRight" -> (opt os (StrLib.lib_trim_right (s 0) (s 1)), os (GoStrings.go_trim_right (s 0) (s 1)))
    | "Trim" -> (opt os (StrLib.lib_trim (s 0) (s 1)), os (GoStrings.go_trim (s 0) (s 1)))
    | "TrimSpace" -> (opt os (StrLib.lib_trim_space (s 0)), os (GoStrings.go_trim_space (s 0)))
    | _ -> ("bad-case", "bad-case")) in
  Printf.printf "strlib %s %s\ngospec %s %s\n" id l id g

(* ---- C05: the model's Batch script under the cmd.exe model, next to the reference semantics ---- *)
let cmd_fuel = nat_of_int 200000
let batrun_case id main files stddir =
  match FrontModel.parse_main (env_of files stddir) (bytes_of_hex main) with
  | FrontModel.POk (body, _, _, _) ->
      let spec = (match Src.run run_fuel [] [] body with
          | Src.Ran (out, status, _) -> Printf.sprintf "spec=ran specout=%s specstatus=%s" (hex_of_bytes out) (z_to_string status)
          | Src.RunUndef -> "spec=undefined"
          | Src.RunNoFuel -> "spec=nofuel") in
      (match BatchConv.emit_batch body with
       | Transpile.TOk (script, _) ->
           (match CmdModel.cmd_run cmd_fuel script with
            | CmdModel.CmdRan (out, status) -> Printf.printf "batrun %s cmd=ran out=%s status=%s %s\n" id (hex_of_bytes out) (z_to_string status) spec
            | CmdModel.CmdFuel -> Printf.printf "batrun %s cmd=fuel %s\n" id spec
            | CmdModel.CmdUnsupported -> Printf.printf "batrun %s cmd=unsupported %s\n" id spec)
       | _ -> Printf.printf "batrun %s cmd=noscript %s\n" id spec)
  | _ -> Printf.printf "batrun %s cmd=noparse\n" id

(* a given Batch script (the implementation's) under the cmd.exe model *)
let cmdrun_case id script =
  match CmdModel.cmd_run cmd_fuel (bytes_of_hex script) with
  | CmdModel.CmdRan (out, status) -> Printf.printf "cmdrun %s cmd=ran out=%s status=%s\n" id (hex_of_bytes out) (z_to_string status)
  | CmdModel.CmdFuel -> Printf.printf "cmdrun %s cmd=fuel\n" id
  | CmdModel.CmdUnsupported -> Printf.printf "cmdrun %s cmd=unsupported\n" id

(* ---- C10: the reference semantics of a program and of its renaming ---- *)
let ren_case id main filesa stddir filesb =
  let run files = (match FrontModel.parse_main (env_of files stddir) (bytes_of_hex main) with
      | FrontModel.POk (body, _, _, _) ->
          (match Src.run run_fuel [] [] body with
           | Src.Ran (out, status, _) -> Some (hex_of_bytes out ^ "/" ^ z_to_string status)
           | _ -> None)
      | _ -> None) in
  match run filesa, run filesb with
  | Some a, Some b -> Printf.printf "ren %s spec=%s\n" id (if a = b then "same" else "differ")
  | _, _ -> Printf.printf "ren %s spec=undefined\n" id

(* ---- C08: the model of double-quoted text ---- *)
let dq_case id env word =
  let e = Stdlib.List.map (fun p -> match Stdlib.String.split_on_char '.' p with
      | [n; v] -> (bytes_of_hex n, bytes_of_hex v) | [n] -> (bytes_of_hex n, []) | _ -> failwith "bad env") (split_nonempty ',' env) in
  match Words.dq e (bytes_of_hex (if word = "-" then "" else word)) with
  | Some w -> Printf.printf "dq %s some:%s\n" id (hex_of_bytes w)
  | None -> Printf.printf "dq %s none\n" id

(* ---- C17: the Bash-level file operations on a history ---- *)
let fsh_case id prefiles ops =
  let pre = if prefiles = "-" then [] else
      Stdlib.List.map (fun e -> match Stdlib.String.split_on_char '.' e with
          | [n; c] -> (bytes_of_hex n, bytes_of_hex c) | [n] -> (bytes_of_hex n, []) | _ -> failwith "bad prefile") (split_nonempty ',' prefiles) in
  let opl = Stdlib.List.map (fun o -> match Stdlib.String.split_on_char '.' o with
      | ["w"; p; c; a] -> FsSem.OWrite (bytes_of_hex p, bytes_of_hex c, a = "1")
      | ["w"; p; c; a; _] -> FsSem.OWrite (bytes_of_hex p, bytes_of_hex c, a = "1")
      | ["r"; p] -> FsSem.ORead (bytes_of_hex p)
      | ["r"; p; _] -> FsSem.ORead (bytes_of_hex p)
      | ["e"; p] -> FsSem.OExists (bytes_of_hex p)
      | _ -> failwith "bad fs op") (split_nonempty ',' ops) in
  let (fs, outs) = FsSem.run_sh pre opl in
  let buf = Buffer.create 64 in
  let tags = Stdlib.List.map (fun o -> match Stdlib.String.split_on_char '.' o with ["r"; _; _] -> "rk" | ["w"; _; _; _; _] -> "wk" | _ -> "") (split_nonempty ',' ops) in
  let tagr = ref tags in
  Stdlib.List.iter2 (fun o out ->
      let tg = (match !tagr with t :: r -> tagr := r; t | [] -> "") in
      match o, out with
      | FsSem.OWrite _, _ when tg = "wk" -> Buffer.add_string buf "k\n"
      | FsSem.ORead _, Some v when tg = "rk" -> Buffer.add_string buf (str_of_bytes v ^ " k\n")
      | FsSem.ORead _, Some v -> Buffer.add_string buf ("<" ^ str_of_bytes v ^ ">\n")
      | FsSem.OExists _, Some v -> Buffer.add_string buf (str_of_bytes v ^ "\n")
      | _, _ -> ()) opl outs;
  let hexs (t : string) = Stdlib.String.concat "" (Stdlib.List.map (fun c -> Printf.sprintf "%02x" (Char.code c)) (Stdlib.List.of_seq (Stdlib.String.to_seq t))) in
  let ents = Stdlib.List.sort compare (Stdlib.List.map (fun (n, c) -> hex_of_bytes n ^ "." ^ hex_of_bytes c) fs) in
  Printf.printf "fsh %s transpile=ok out=%s status=0 stderr= files=%s\n" id (hexs (Buffer.contents buf)) (Stdlib.String.concat "," ents)

(* ---- C18: the argument vector of the first probe call of the model's script ---- *)
let argv_case id main files stddir stdin =
  match FrontModel.parse_main (env_of files stddir) (bytes_of_hex main) with
  | FrontModel.POk (body, _, _, _) ->
      (match BashConv.emit_bash body with
       | Transpile.TOk (_, st) ->
           let stdin_lines = if stdin = "-" then [] else lines_of_text (text_of_hex stdin) in
           (match AppArgs.first_probe [] stdin_lines st.BashConv.b_code with
            | Some ws ->
                (* the probe program consumes a leading --exit=N itself *)
                let ws = (match ws with w :: r when (let t = str_of_bytes w in Stdlib.String.length t > 7 && Stdlib.String.sub t 0 7 = "--exit=") -> r | _ -> ws) in
                Printf.printf "argv %s argv=%d:%s\n" id (Stdlib.List.length ws) (Stdlib.String.concat "," (Stdlib.List.map hex_of_bytes ws))
            | None -> Printf.printf "argv %s argv=none\n" id)
       | _ -> Printf.printf "argv %s argv=noscript\n" id)
  | _ -> Printf.printf "argv %s argv=noparse\n" id

(* ---- histories of Transpile calls on one transpiler object ---- *)
let hist_case id ops stddir progs =
  let plist = Stdlib.List.map (fun p ->
      match Stdlib.String.index_opt p '|' with
      | Some i -> (Stdlib.String.sub p 0 i, Stdlib.String.sub p (i + 1) (Stdlib.String.length p - i - 1))
      | None -> (p, "")) (Stdlib.String.split_on_char ';' progs) in
  let calls = Stdlib.List.map (fun op ->
      match Stdlib.String.split_on_char ':' op with
      | [pi; t] ->
          let (main, files) = Stdlib.List.nth plist (int_of_string pi) in
          { Pipeline.c_env = env_of files stddir; Pipeline.c_path = bytes_of_hex main;
            Pipeline.c_target = (if t = "b" then Pipeline.TBash else Pipeline.TBatch) }
      | _ -> failwith "bad op") (split_nonempty ',' ops) in
  let res = Pipeline.run_history None calls in
  let show = function
    | Pipeline.Script s -> Digest.to_hex (Digest.string (str_of_bytes s))
    | Pipeline.Failed -> "err"
    | Pipeline.Crashed -> "panic"
    | Pipeline.OutOfFuel -> "fuel" in
  Printf.printf "hist %s calls=%s\n" id (Stdlib.String.concat "," (Stdlib.List.map show res))

let () =
  try
    while true do
      let line = input_line stdin in
      match Stdlib.String.split_on_char ' ' line with
      | ["lex"; id; src] -> lex_case id src
      | ["lex"; id] -> lex_case id ""
      | ["tsh"; id; argv; fs; infile; rb; rw] -> tsh_case id argv fs infile rb rw
      | ["parse"; id; main; files; stddir] -> parse_case id main files stddir
      | ["emit"; id; main; files; stddir] -> emit_case id main files stddir
      | ["run"; id; main; files; stddir] -> run_case id main files stddir
      | ["lrun"; id; main; files; stddir] -> run_case_k "lrun" id main files stddir
      | "strlib" :: id :: fname :: fields -> strlib_case id fname fields
      | ["batrun"; id; main; files; stddir] -> batrun_case id main files stddir
      | ["cmdrun"; id; script] -> cmdrun_case id script
      | ["ren"; id; main; filesa; stddir; filesb] -> ren_case id main filesa stddir filesb
      | ["dq"; id; env; word] -> dq_case id env word
      | "fsh" :: id :: _ :: _ :: _ :: _ :: prefiles :: ops :: _ -> fsh_case id prefiles ops
      | "argv" :: id :: main :: files :: stddir :: stdin :: _ -> argv_case id main files stddir stdin
      | "orun" :: id :: main :: files :: stddir :: stdin :: prefiles :: _ -> orun_case id main files stddir stdin prefiles
      | ["hist"; id; ops; stddir; progs] -> hist_case id ops stddir progs
      | [] | [""] -> ()
      | k :: _ -> Printf.printf "unknown-case-kind %s\n" k
    done
  with End_of_file -> ()
