#!/usr/bin/env python3
"""Regenerate the matrix table of DESIGN.md section 10.6 from seeded/MATRIX.tsv and seeded/*/meta.json."""
import json, re, sys
V = "/verif"
rows = []
for line in open(V + "/seeded/MATRIX.tsv"):
    f = line.rstrip("\n").split("\t")
    if len(f) < 5:
        continue
    m, prop, rc, viol, secs = f[:5]
    what = f[5] if len(f) > 5 else ""
    try:
        summ = json.load(open("%s/seeded/%s/meta.json" % (V, m))).get("summary", "")
    except Exception:
        summ = ""
    summ = summ.replace("|", "/").replace("\n", " ")
    if len(summ) > 170:
        summ = summ[:170] + "…"
    what = re.sub(r"^what: property oracle failed at stage ", "oracle at: ", what)
    what = re.sub(r"^what fails: ", "", what).replace("|", "/")
    rows.append("| %s | %s | %s, %s | %s |" % (m, summ, rc, viol, what[:150]))
table = "| change | what it does (from the author's summary) | quick check of its property | found by |\n|---|---|---|---|\n" + "\n".join(rows) + "\n"
p = V + "/DESIGN.md"
s = open(p).read()
i = s.index("| change | what it does (from the author's summary)")
j = i
lines = s[i:].split("\n")
k = 0
while k < len(lines) and lines[k].startswith("|"):
    k += 1
end = i + len("\n".join(lines[:k])) + 1
s = s[:i] + table + s[end:]
open(p, "w").write(s)
print("rows", len(rows))
