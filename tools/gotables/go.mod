module verif/gotables

go 1.22
