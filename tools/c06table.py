#!/usr/bin/env python3
"""C06 table: (typed position) x (offered type) x (context) programs with the verdict Go's typing rules and
the README's builtin signatures prescribe.  Writes
   --coq FILE     coq/gen/C06Table.v   (entries as Coq data for the vm_compute theorem)
   --cases DIR    cases.txt / expect.txt / meta.json in the harness' stream format
Every entry is one well-formed program with exactly one typed position filled by an expression of the
offered type."""
import sys, hashlib, json, os

PRELUDE = '''func v() {
\tprint("v")
}
func two() (int, int) {
\treturn 1, 2
}
func fint(a int) int {
\treturn a
}
func fboo(a bool) bool {
\treturn a
}
func fstr(a string) string {
\treturn a
}
func flen(a []int) int {
\treturn len(a)
}
xi := 1
xb := true
xs := "a"
li := []int{1, 2}
lb := []bool{true}
ls := []string{"a"}
'''

OFFERED = [  # (type name, expression): the eight offered types of the property
    ("int", "(xi + 2)"), ("bool", "xb"), ("string", "\"lit\""), ("[]int", "li"), ("[]bool", "lb"), ("[]string", "[]string{\"q\"}"),
    ("novalue", "v()"), ("multi", "two()"),
]

ANY_SCALAR = {"int", "bool", "string"}
# (position id, statement template with {E}, set of accepted types, finding class or None)
POSITIONS = [
    ("not-operand", "print(!{E})", {"bool"}),
    ("add-left-int", "print({E} + 1)", {"int"}),
    ("add-right-int", "print(1 + {E})", {"int"}),
    ("add-left-string", "print({E} + \"z\")", {"string"}),
    ("add-right-string", "print(\"z\" + {E})", {"string"}),
    ("sub-left", "print({E} - 1)", {"int"}),
    ("mul-right", "print(2 * {E})", {"int"}),
    ("mod-left", "print({E} % 2)", {"int"}),
    ("eq-left-int", "print({E} == 1)", {"int"}),
    ("eq-right-bool", "print(true == {E})", {"bool"}),
    ("ne-left-string", "print({E} != \"q\")", {"string"}),
    ("lt-left", "print({E} < 3)", {"int"}),
    ("ge-right", "print(3 >= {E})", {"int"}),
    ("and-left", "print({E} && true)", {"bool"}),
    ("and-right", "print(true && {E})", {"bool"}),
    ("or-left", "print({E} || false)", {"bool"}),
    ("or-right", "print(false || {E})", {"bool"}),
    ("arg-int", "print(fint({E}))", {"int"}),
    ("arg-bool", "print(fboo({E}))", {"bool"}),
    ("arg-string", "print(fstr({E}))", {"string"}),
    ("arg-slice", "print(flen({E}))", {"[]int"}),
    ("elem-int", "print(len([]int{{{E}}}))", {"int"}),
    ("elem-string", "print(len([]string{{{E}}}))", {"string"}),
    ("elem-bool", "print(len([]bool{{{E}}}))", {"bool"}),
    ("slice-index", "print(li[{E}])", {"int"}),
    ("string-index", "print(xs[{E}])", {"int"}),
    ("string-range-start", "print(xs[{E}:1])", {"int"}),
    ("string-range-end", "print(xs[0:{E}])", {"int"}),
    ("len-arg", "print(len({E}))", {"string", "[]int", "[]bool", "[]string"}),
    ("itoa-arg", "print(itoa({E}))", {"int"}),
    ("exists-arg", "print(exists({E}))", {"string"}),
    ("read-arg", "print(read({E}))", {"string"}),
    ("input-prompt", "ans := input({E})\nprint(ans)", {"string"}),
    ("copy-src", "print(copy(li, {E}))", {"[]int"}),
    ("var-typed-int", "var nv int = {E}\nprint(nv)", {"int"}),
    ("var-typed-string", "var nv string = {E}\nprint(nv)", {"string"}),
    ("var-typed-slice", "var nv []int = {E}\nprint(len(nv))", {"[]int"}),
    ("assign-int", "xi = {E}", {"int"}),
    ("assign-bool", "xb = {E}", {"bool"}),
    ("assign-slice", "li = {E}", {"[]int"}),
    ("compound-int", "xi += {E}", {"int"}),
    ("compound-string", "xs += {E}", {"string"}),
    ("slice-store-index", "li[{E}] = 5", {"int"}),
    ("slice-store-value", "li[0] = {E}", {"int"}),
    ("slice-store-value-string", "ls[0] = {E}", {"string"}),
    ("if-condition", "if {E} {{\n\tprint(1)\n}}", {"bool"}),
    ("elseif-condition", "if false {{\n\tprint(1)\n}} else if {E} {{\n\tprint(2)\n}}", {"bool"}),
    ("for-condition", "for {E} {{\n\tbreak\n}}", {"bool"}),
    ("for3-condition", "for q := 0; {E}; q++ {{\n\tbreak\n}}", {"bool"}),
    ("case-int", "switch xi {{\ncase {E}:\n\tprint(1)\n}}", {"int"}),
    ("case-string", "switch xs {{\ncase {E}:\n\tprint(1)\n}}", {"string"}),
    ("switch-tag-vs-int-case", "switch {E} {{\ncase 1:\n\tprint(1)\n}}", {"int"}),
    ("range-operand", "for ri, rv := range {E} {{\n\tprint(ri)\n}}", {"string", "[]int", "[]bool", "[]string"}),
    ("write-path", "write({E}, \"d\")", {"string"}),
    ("write-data", "write(\"p.txt\", {E})", {"string"}),
    ("write-append", "write(\"p.txt\", \"d\", {E})", {"bool"}),
    ("print-arg", "print({E})", {"int", "bool", "string", "[]int", "[]bool", "[]string", "multi"}),
    ("multi-define-second", "ma, mb := 1, {E}\nprint(ma)", {"int", "bool", "string", "[]int", "[]bool", "[]string"}),
]

# positions inside a function returning int: the returned value (last statement and nested)
RETURN_POSITIONS = [
    ("return-value", "func rr() int {{\n\treturn {E}\n}}\nprint(rr())", {"int"}, None),
    ("return-value-nested", "func rr() int {{\n\tif xb {{\n\t\treturn {E}\n\t}}\n\treturn 0\n}}\nprint(rr())", {"int"}, "nested-return-unchecked"),
    ("return-from-void", "func rr() {{\n\treturn {E}\n}}\nrr()", set(), None),
]

CONTEXTS = [
    ("top", "{S}\n"),
    ("function", "func ctx() {{\n{SI}\n}}\nctx()\n"),
    ("if-body", "if xb {{\n{SI}\n}}\n"),
    ("for-body", "for w := 0; w < 1; w++ {{\n{SI}\n}}\n"),
    ("switch-body", "switch 1 {{\ncase 1:\n{SI}\n}}\n"),
]


def indent(s):
    return "\n".join("\t" + l for l in s.split("\n"))


def entries():
    """(position, offered type, context, tail, accepted, finding); the program is PRELUDE + tail"""
    out = []
    for pid, tmpl, ok in POSITIONS:
        for tname, expr in OFFERED:
            stmt = tmpl.format(E=expr)
            for cname, ctx in CONTEXTS:
                tail = ctx.format(S=stmt, SI=indent(stmt))
                accept = tname in ok
                finding = None
                if pid == "multi-define-second" and tname == "multi":
                    accept = False
                    finding = "multi-value-last-in-list"
                if pid == "print-arg" and tname == "novalue":
                    accept = False
                out.append((pid, tname, cname, tail, accept, finding))
    # call arity, also for functions declared without a parameter list
    np = "func np int {\n\treturn 1\n}\nfunc nv {\n\tprint(1)\n}\n"
    for pid, stmt, accept in [
        ("arity-too-many", "print(fint(1, 2))", False), ("arity-too-few", "print(fint())", False), ("arity-exact", "print(fint(1))", True),
        ("arity-noparens-args", np + "print(np(1))", False), ("arity-noparens-two-args", np + "print(np(1, \"x\"))", False),
        ("arity-noparens-none", np + "print(np())", True), ("arity-noparens-void-args", np + "nv(true)", False),
        ("arity-noparens-void-none", np + "nv()", True), ("arity-noparens-void-call-arg", np + "nv(v())", False),
        ("arity-builtin-len-two", "print(len(xs, xs))", False), ("arity-builtin-itoa-none", "print(itoa())", False),
        ("arity-builtin-copy-one", "print(copy(li))", False), ("arity-builtin-write-one", "write(\"p\")", False),
        ("arity-builtin-write-four", "write(\"p\", \"d\", true, true)", False), ("arity-builtin-input-two", "qq := input(\"a\", \"b\")\nprint(qq)", False),
        # a program call has no signature, but an argument must still be a value
        ("program-arg-string", "@echo(xs)", True), ("program-arg-call", "@echo(fstr(\"a\"))", True),
        ("program-arg-novalue", "@echo(v())", False), ("program-arg-novalue-second", "@echo(\"a\", v())", False),
        ("program-arg-novalue-piped", "@echo(\"a\") | @cat(v())", False),
        ("program-arg-novalue-captured", "po, pe, pc := @echo(v())\nprint(po, pe, pc)", False),
    ]:
        for cname, ctx in CONTEXTS:
            if stmt.startswith("func") and cname != "top":
                continue
            out.append((pid, "-", cname, ctx.format(S=stmt, SI=indent(stmt)), accept, None))
    for pid, tmpl, ok, finding in RETURN_POSITIONS:
        for tname, expr in OFFERED:
            tail = tmpl.format(E=expr) + "\n"
            accept = tname in ok
            out.append((pid, tname, "top", tail, accept, None if accept else finding))
    return out


def coq_string(s):
    return '"' + s.replace('"', '""') + '"'


def main():
    args = sys.argv[1:]
    ents = entries()
    if "--coq" in args:
        path = args[args.index("--coq") + 1]
        with open(path, "w") as f:
            f.write("(* GENERATED by tools/c06table.py -- do not edit.  (source, accepted by the typing rules, finding class or empty) *)\n")
            f.write("From Verif Require Import Base.Bytestr.\nOpen Scope N_scope.\n\n")
            f.write("Definition c06_prelude : bytes := bs %s.\n\n" % coq_string(PRELUDE))
            f.write("(* (program tail after the prelude, accepted by the typing rules, finding class or empty) *)\n")
            f.write("Definition c06_table : list (bytes * bool * bytes) :=\n  [ ")
            for i, (pid, t, c, tail, acc, fnd) in enumerate(ents):
                f.write(("  ; " if i else "") + "(bs %s, %s, bs %s)\n" % (coq_string(tail), "true" if acc else "false", coq_string(fnd or "")))
            f.write("  ].\n")
    if "--cases" in args:
        d = args[args.index("--cases") + 1]
        std = args[args.index("--std") + 1] if "--std" in args else "/verif/.build/std"
        os.makedirs(d, exist_ok=True)
        hx = lambda b: b.encode().hex() if isinstance(b, str) else b.hex()
        with open(d + "/cases.txt", "w") as fc, open(d + "/expect.txt", "w") as fe:
            for i, (pid, t, c, tail, acc, fnd) in enumerate(ents):
                src = PRELUDE + tail
                prefix = "i" + hashlib.sha256(src.encode()).hexdigest()[:7]
                cid = "%d#%s" % (i, fnd) if fnd else str(i)
                fc.write("emit %s %s %s.%s.%s %s\n" % (cid, hx("/V/main.tsh"), hx("/V/main.tsh"), hx(src), hx(prefix), hx(std)))
                fe.write("emit %s %s\n" % (cid, "accept" if acc else "reject"))
        kinds = {}
        for pid, t, c, src, acc, fnd in ents:
            kinds[pid] = kinds.get(pid, 0) + 1
        json.dump({"cases": len(ents), "positions": len(kinds), "offered": len(OFFERED), "contexts": len(CONTEXTS),
                   "accepting_entries": sum(1 for e in ents if e[4])}, open(d + "/meta.json", "w"))
    print(len(ents), "entries")


if __name__ == "__main__":
    main()
