#!/usr/bin/env python3
"""C07 table: (definition site, use site) pairs over block structures and every placement of
break / continue / return / func, with the verdict lexical scoping prescribes.
   --coq FILE     coq/gen/C07Table.v
   --cases DIR    harness stream directory (cases.txt, expect.txt, meta.json)"""
import sys, hashlib, json, os

def blocks():
    """(id, source, accept)"""
    E = []
    def add(i, src, ok): E.append((i, src if src.endswith("\n") else src + "\n", ok))
    # --- variables: definition to end of block
    add("use-after-def", "x := 1\nprint(x)", True)
    add("use-before-def", "print(x)\nx := 1", False)
    add("assign-before-def", "x = 2\nx := 1", False)
    add("compound-undefined", "x += 1", False)
    add("incdec-undefined", "x++", False)
    add("outer-in-if", "x := 1\nif true {\n\tprint(x)\n}", True)
    add("outer-in-else", "x := 1\nif false {\n\tprint(0)\n} else {\n\tprint(x)\n}", True)
    add("outer-in-for", "x := 1\nfor i := 0; i < 1; i++ {\n\tprint(x)\n}", True)
    add("outer-in-nested", "x := 1\nfor i := 0; i < 1; i++ {\n\tif true {\n\t\tswitch 1 {\n\t\tcase 1:\n\t\t\tprint(x)\n\t\t}\n\t}\n}", True)
    add("outer-written-in-block", "x := 1\nif true {\n\tx = 2\n}\nprint(x)", True)
    add("if-body-after", "if true {\n\tx := 1\n}\nprint(x)", False)
    add("else-body-after", "if false {\n\tprint(0)\n} else {\n\tx := 1\n}\nprint(x)", False)
    add("for-body-after", "for i := 0; i < 1; i++ {\n\tx := 1\n}\nprint(x)", False)
    add("case-body-after", "switch 1 {\ncase 1:\n\tx := 1\n}\nprint(x)", False)
    add("default-body-after", "switch 2 {\ncase 1:\n\tprint(0)\ndefault:\n\tx := 1\n}\nprint(x)", False)
    add("if-to-else", "if true {\n\tx := 1\n} else {\n\tprint(x)\n}", False)
    add("if-to-elseif-cond", "if true {\n\tx := true\n} else if x {\n\tprint(1)\n}", False)
    add("case-to-case", "switch 1 {\ncase 1:\n\tx := 1\ncase 2:\n\tprint(x)\n}", False)
    add("case-to-default", "switch 1 {\ncase 1:\n\tx := 1\ndefault:\n\tprint(x)\n}", False)
    add("if-to-next-if", "if true {\n\tx := 1\n}\nif true {\n\tprint(x)\n}", False)
    add("loop-to-next-loop", "for i := 0; i < 1; i++ {\n\tx := 1\n}\nfor j := 0; j < 1; j++ {\n\tprint(x)\n}", False)
    add("same-name-sibling-blocks", "if true {\n\tx := 1\n\tprint(x)\n}\nif true {\n\tx := \"s\"\n\tprint(x)\n}", True)
    add("same-name-sibling-cases", "switch 1 {\ncase 1:\n\tx := 1\n\tprint(x)\ncase 2:\n\tx := 2\n\tprint(x)\n}", True)
    add("same-name-after-block", "if true {\n\tx := 1\n\tprint(x)\n}\nx := 2\nprint(x)", True)
    # --- loop headers
    add("for-var-in-body", "for i := 0; i < 2; i++ {\n\tprint(i)\n}", True)
    add("for-var-in-cond-and-incr", "for i := 0; i < 2; i += 1 {\n\tprint(1)\n}", True)
    add("for-var-after-loop", "for i := 0; i < 2; i++ {\n\tprint(1)\n}\nprint(i)", False)
    add("two-loops-same-var", "for i := 0; i < 2; i++ {\n\tprint(i)\n}\nfor i := 0; i < 2; i++ {\n\tprint(i)\n}", True)
    add("range-vars-in-body", "s := []int{1}\nfor i, v := range s {\n\tprint(i, v)\n}", True)
    add("range-index-after", "s := []int{1}\nfor i, v := range s {\n\tprint(v)\n}\nprint(i)", False)
    add("range-value-after", "s := []int{1}\nfor i, v := range s {\n\tprint(i)\n}\nprint(v)", False)
    add("range-var-clashes-outer", "i := 5\ns := []int{1}\nfor i, v := range s {\n\tprint(v)\n}", False)
    add("for-var-clashes-outer", "i := 5\nfor i := 0; i < 1; i++ {\n\tprint(1)\n}", False)
    # --- redefinition in a visible scope
    add("redefine-same-block", "x := 1\nx := 2", False)
    add("redefine-var-var", "var x int\nvar x int", False)
    add("redefine-inner-block", "x := 1\nif true {\n\tx := 2\n\tprint(x)\n}", False)
    add("redefine-in-loop-body", "x := 1\nfor i := 0; i < 1; i++ {\n\tvar x int\n\tprint(x)\n}", False)
    add("redefine-multi-all-old", "a, b := 1, 2\na, b := 3, 4", False)
    add("redefine-multi-one-new", "a := 1\na, b := 3, 4\nprint(a, b)", True)
    add("redefine-multi-var-keyword", "a := 1\nvar a, b int = 3, 4", False)
    # --- functions and parameters
    add("param-in-body", "func f(p int) int {\n\treturn p + 1\n}\nprint(f(1))", True)
    add("param-outside", "func f(p int) int {\n\treturn p\n}\nprint(p)", False)
    add("param-in-other-function", "func f(p int) int {\n\treturn p\n}\nfunc g() int {\n\treturn p\n}\nprint(g())", False)
    add("local-in-other-function", "func f() int {\n\ty := 1\n\treturn y\n}\nfunc g() int {\n\treturn y\n}\nprint(g())", False)
    add("local-outside", "func f() int {\n\ty := 1\n\treturn y\n}\nprint(y)", False)
    add("same-names-two-functions", "func f(p int) int {\n\ty := p\n\treturn y\n}\nfunc g(p int) int {\n\ty := p * 2\n\treturn y\n}\nprint(f(1), g(1))", True)
    add("global-before-function", "g := 1\nfunc f() int {\n\treturn g\n}\nprint(f())", True)
    add("global-written-in-function", "g := 1\nfunc f() {\n\tg = 2\n\tg += 1\n\tg++\n}\nf()\nprint(g)", True)
    add("global-after-function", "func f() int {\n\treturn g\n}\ng := 1\nprint(f())", False)
    add("caller-block-local-invisible", "func f() int {\n\treturn y\n}\nif true {\n\ty := 1\n\tprint(f())\n}", False)
    add("block-local-before-function-invisible", "if true {\n\ty := 1\n\tprint(y)\n}\nfunc f() int {\n\treturn y\n}\nprint(f())", False)
    add("param-same-as-global", "g := 1\nfunc f(g int) int {\n\treturn g\n}\nprint(f(2))", False)
    add("local-same-as-global", "g := 1\nfunc f() int {\n\tg := 2\n\treturn g\n}\nprint(f())", False)
    add("local-same-as-param", "func f(p int) int {\n\tp := 2\n\treturn p\n}\nprint(f(1))", False)
    add("duplicate-parameter", "func f(p int, p int) int {\n\treturn p\n}\nprint(f(1, 2))", False)
    add("duplicate-parameter-types-differ", "func f(p int, p string) int {\n\treturn 1\n}\nprint(f(1, \"a\"))", False)
    add("later-global-same-name-as-param", "func f(p int) int {\n\treturn p\n}\np := 5\nprint(f(p))", True)
    add("call-before-definition", "print(f())\nfunc f() int {\n\treturn 1\n}", False)
    add("call-after-definition", "func f() int {\n\treturn 1\n}\nprint(f())", True)
    add("call-undefined", "print(nope())", False)
    add("call-in-earlier-function-body", "func a() int {\n\treturn b()\n}\nfunc b() int {\n\treturn 1\n}\nprint(a())", False)
    add("recursion", "func r(n int) int {\n\treturn r(n)\n}\nprint(r(1))", False)
    add("duplicate-function", "func f() int {\n\treturn 1\n}\nfunc f() int {\n\treturn 2\n}\nprint(f())", False)
    add("function-and-variable-same-name", "f := 1\nfunc f() int {\n\treturn 2\n}\nprint(f)", True)
    add("func-in-if", "if true {\n\tfunc f() int {\n\t\treturn 1\n\t}\n}", False)
    add("func-in-for", "for i := 0; i < 1; i++ {\n\tfunc f() {\n\t\tprint(1)\n\t}\n}", False)
    add("func-in-func", "func f() {\n\tfunc g() {\n\t\tprint(1)\n\t}\n}\nf()", False)
    add("func-in-switch", "switch 1 {\ncase 1:\n\tfunc f() {\n\t\tprint(1)\n\t}\n}", False)
    # --- break / continue
    add("break-top-level", "break", False)
    add("continue-top-level", "continue", False)
    add("break-in-if-no-loop", "if true {\n\tbreak\n}", False)
    add("continue-in-if-no-loop", "if true {\n\tcontinue\n}", False)
    add("break-in-switch-no-loop", "switch 1 {\ncase 1:\n\tbreak\n}", False)
    add("break-in-function-no-loop", "func f() {\n\tbreak\n}\nf()", False)
    add("continue-in-function-called-from-loop", "func f() {\n\tcontinue\n}\nfor i := 0; i < 1; i++ {\n\tf()\n}", False)
    add("break-in-for", "for {\n\tbreak\n}", True)
    add("continue-in-for", "for i := 0; i < 2; i++ {\n\tcontinue\n}", True)
    add("break-in-if-in-for", "for i := 0; i < 2; i++ {\n\tif i == 1 {\n\t\tbreak\n\t}\n}", True)
    add("continue-in-else-in-for", "for i := 0; i < 2; i++ {\n\tif i == 1 {\n\t\tprint(1)\n\t} else {\n\t\tcontinue\n\t}\n}", True)
    add("break-in-range", "for i := range \"ab\" {\n\tbreak\n}", True)
    add("continue-in-switch-in-for", "for i := 0; i < 2; i++ {\n\tswitch i {\n\tcase 0:\n\t\tcontinue\n\t}\n}", True)
    add("break-in-for-in-function", "func f() {\n\tfor {\n\t\tbreak\n\t}\n}\nf()", True)
    add("break-after-loop", "for i := 0; i < 1; i++ {\n\tprint(1)\n}\nbreak", False)
    # --- return
    add("return-top-level", "return 1", False)
    add("return-in-if-top-level", "if true {\n\treturn 1\n}", False)
    add("return-in-for-top-level", "for {\n\treturn 1\n}", False)
    add("return-in-function", "func f() int {\n\treturn 1\n}\nprint(f())", True)
    add("return-nested-in-function", "func f(c bool) int {\n\tif c {\n\t\treturn 1\n\t}\n\tfor i := 0; i < 1; i++ {\n\t\treturn 2\n\t}\n\treturn 3\n}\nprint(f(true))", True)
    add("missing-return", "func f() int {\n\tx := 1\n}\nprint(f())", False)
    add("return-only-in-if", "func f(c bool) int {\n\tif c {\n\t\treturn 1\n\t}\n}\nprint(f(true))", False)
    add("return-only-in-loop", "func f() int {\n\tfor i := 0; i < 1; i++ {\n\t\treturn 1\n\t}\n}\nprint(f())", False)
    add("return-not-last", "func f() int {\n\treturn 1\n\tprint(2)\n}\nprint(f())", False)
    add("empty-body-with-return-type", "func f() int {\n}\nprint(f())", False)
    add("void-function-no-return", "func f() {\n\tprint(1)\n}\nf()", True)
    add("return-count-too-few", "func f() (int, int) {\n\treturn 1\n}\na, b := f()", False)
    add("return-count-too-many", "func f() int {\n\treturn 1, 2\n}\nprint(f())", False)
    return E

LIB = "var Shared int = 3\nvar hidden int = 4\nfunc Pub() int {\n\treturn hidden + Shared\n}\nfunc priv() int {\n\treturn 1\n}\n"

def import_entries():
    """(id, main source, extra files, accept): import boundaries"""
    return [
        ("import-public-function", "import m \"lib.tsh\"\nprint(m.Pub())\n", {"lib.tsh": LIB}, True),
        ("import-private-function", "import m \"lib.tsh\"\nprint(m.priv())\n", {"lib.tsh": LIB}, False),
        ("import-unknown-alias", "import m \"lib.tsh\"\nprint(q.Pub())\n", {"lib.tsh": LIB}, False),
        ("import-without-alias-prefix", "import m \"lib.tsh\"\nprint(Pub())\n", {"lib.tsh": LIB}, False),
        ("import-local-needs-alias", "import \"lib.tsh\"\nprint(1)\n", {"lib.tsh": LIB}, False),
        ("import-duplicate-alias", "import (\n\tm \"lib.tsh\"\n\tm \"lib2.tsh\"\n)\nprint(m.Pub())\n", {"lib.tsh": LIB, "lib2.tsh": "func Other() int {\n\treturn 2\n}\n"}, False),
        ("import-same-public-name-two-files", "import (\n\ta \"lib.tsh\"\n\tb \"lib2.tsh\"\n)\nprint(a.Pub(), b.Pub())\n", {"lib.tsh": LIB, "lib2.tsh": "func Pub() int {\n\treturn 9\n}\n"}, True),
        ("import-main-function-same-name", "import a \"lib.tsh\"\nfunc Pub() int {\n\treturn 5\n}\nprint(a.Pub(), Pub())\n", {"lib.tsh": LIB}, True),
        ("import-missing-file", "import a \"nothere.tsh\"\nprint(1)\n", {}, False),
    ]

def coq_string(s):
    return '"' + s.replace('"', '""') + '"'

def main():
    args = sys.argv[1:]
    ents = blocks()
    if "--coq" in args:
        path = args[args.index("--coq") + 1]
        with open(path, "w") as f:
            f.write("(* GENERATED by tools/c07table.py -- do not edit.  (program, accepted by lexical scoping, finding class or empty) *)\n")
            f.write("From Verif Require Import Base.Bytestr.\nOpen Scope N_scope.\n\n")
            f.write("Definition c07_table : list (bytes * bool * bytes) :=\n  [ ")
            for i, (pid, src, acc) in enumerate(ents):
                f.write(("  ; " if i else "") + "(bs %s, %s, bs \"\") (* %s *)\n" % (coq_string(src), "true" if acc else "false", pid))
            f.write("  ].\n")
    if "--cases" in args:
        d = args[args.index("--cases") + 1]
        std = args[args.index("--std") + 1] if "--std" in args else "/verif/.build/std"
        os.makedirs(d, exist_ok=True)
        hx = lambda b: b.encode().hex()
        with open(d + "/cases.txt", "w") as fc, open(d + "/expect.txt", "w") as fe:
            for i, (pid, src, acc) in enumerate(ents):
                prefix = "i" + hashlib.sha256(src.encode()).hexdigest()[:7]
                cid = "%d#%s" % (i, pid)
                fc.write("emit %s %s %s.%s.%s %s\n" % (cid, hx("/V/main.tsh"), hx("/V/main.tsh"), hx(src), hx(prefix), hx(std)))
                fe.write("emit %s %s\n" % (cid, "accept" if acc else "reject"))
            for j, (pid, src, files, acc) in enumerate(import_entries()):
                cid = "%d#%s" % (len(ents) + j, pid)
                allf = dict(files); allf["main.tsh"] = src
                ent = ",".join("%s.%s.%s" % (hx("/V/" + n), hx(c), hx("i" + hashlib.sha256(c.encode()).hexdigest()[:7])) for n, c in sorted(allf.items()))
                fc.write("emit %s %s %s %s\n" % (cid, hx("/V/main.tsh"), ent, hx(std)))
                fe.write("emit %s %s\n" % (cid, "accept" if acc else "reject"))
            base = len(ents) + len(import_entries())
            for i, (pid, src, acc) in enumerate(ents):      # the same program as an imported file: scoping must not depend on the file prefix
                cid = "%d#imported-%s" % (base + i, pid)
                allf = {"main.tsh": "import m \"lib.tsh\"\nprint(1)\n", "lib.tsh": src}
                ent = ",".join("%s.%s.%s" % (hx("/V/" + n), hx(c), hx("i" + hashlib.sha256(c.encode()).hexdigest()[:7])) for n, c in sorted(allf.items()))
                fc.write("emit %s %s %s %s\n" % (cid, hx("/V/main.tsh"), ent, hx(std)))
                fe.write("emit %s %s\n" % (cid, "accept" if acc else "reject"))
        json.dump({"cases": 2 * len(ents) + len(import_entries()), "accepting_entries": sum(1 for e in ents if e[2])}, open(d + "/meta.json", "w"))
    print(len(ents), "entries")

if __name__ == "__main__":
    main()
