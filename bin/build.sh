#!/bin/bash
# Rebuild everything the checks need from /repo's current working tree and /verif's sources:
#   tables (gotables) -> Coq (.vo, full build) -> extraction -> OCaml driver -> Go harness.
# Serialised with flock; idempotent (make / dune / go caches).
set -u
export GOFLAGS=-mod=mod GOPROXY=off GOSUMDB=off GOTOOLCHAIN=local CGO_ENABLED=0
V=/verif
B=$V/.build
mkdir -p $B
exec 9>$B/.lock
flock 9
log=$B/build.log
: > $log
fail() { echo "BUILD-FAILED stage=$1" ; tail -40 $log; exit 3; }

# 1. table translator
( cd $V/tools/gotables && go build -o $B/gotables.new . && mv -f $B/gotables.new $B/gotables ) >>$log 2>&1 || fail gotables-build
$B/gotables /repo $B/Tables.v.new >>$log 2>&1 || { echo "BUILD-FAILED stage=gotables"; cat $log; exit 4; }
cmp -s $B/Tables.v.new $V/coq/gen/Tables.v || cp $B/Tables.v.new $V/coq/gen/Tables.v

# 1b. the C06 typing table (deterministic generator)
python3 $V/tools/c06table.py --coq $B/C06Table.v.new >>$log 2>&1 || fail c06table
cmp -s $B/C06Table.v.new $V/coq/gen/C06Table.v || cp $B/C06Table.v.new $V/coq/gen/C06Table.v

python3 $V/tools/c07table.py --coq $B/C07Table.v.new >>$log 2>&1 || fail c07table
cmp -s $B/C07Table.v.new $V/coq/gen/C07Table.v || cp $B/C07Table.v.new $V/coq/gen/C07Table.v

# 2. Coq (full .vo build)
( cd $V/coq && { [ -f Makefile ] && [ Makefile -nt _CoqProject ] || coq_makefile -f _CoqProject -o Makefile; } && timeout 2400 make -j16 ) >>$log 2>&1 || { echo "BUILD-FAILED stage=coq"; grep -B2 -A12 "Error" $log | head -60; exit 5; }

# 3. extraction + OCaml driver
mkdir -p $V/ocaml/extracted
if [ ! -f $B/extract.stamp ] || [ $V/coq/Extract/Extract.v -nt $B/extract.stamp ] || [ -n "$(find $V/coq -name '*.vo' -newer $B/extract.stamp | head -1)" ]; then
  ( cd $V/ocaml/extracted && find . -name '*.ml' -delete && find . -name '*.mli' -delete && timeout 600 coqc -Q $V/coq Verif $V/coq/Extract/Extract.v ) >>$log 2>&1 || fail extraction
  touch $B/extract.stamp
fi
( cd $V/ocaml && timeout 900 dune build ./driver.exe ) >>$log 2>&1 || fail ocaml
cmp -s $V/ocaml/_build/default/driver.exe $B/driver || { cp -f $V/ocaml/_build/default/driver.exe $B/driver.new && mv -f $B/driver.new $B/driver; }

# 4. Go harness against the current /repo
( cd $V/harness && cp /repo/go.sum . && go build -o $B/harness.new . ) >>$log 2>&1 || { echo "BUILD-FAILED stage=harness"; tail -30 $log; exit 6; }
cmp -s $B/harness.new $B/harness && rm -f $B/harness.new || mv -f $B/harness.new $B/harness
# the real CLI, for C19
( cd /repo && go build -o $B/tsh.new . ) >>$log 2>&1 || { echo "BUILD-FAILED stage=tsh"; tail -30 $log; exit 7; }
cmp -s $B/tsh.new $B/tsh && rm -f $B/tsh.new || mv -f $B/tsh.new $B/tsh
mkdir -p $B/std
for f in /repo/std/*.tsh; do cmp -s $f $B/std/$(basename $f) || { cp $f $B/std/.$(basename $f).tmp && mv $B/std/.$(basename $f).tmp $B/std/$(basename $f); }; done
echo BUILD-OK
