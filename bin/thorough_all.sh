#!/bin/bash
# every thorough check once, sequentially; results in /tmp/thorough.tsv
cd /verif
: > /tmp/thorough.tsv
for p in "$@"; do
  s=$(date +%s); bin/check $p --tier thorough > /tmp/thorough.$p.out 2>&1; rc=$?; e=$(date +%s)
  echo -e "$p\trc=$rc\t$((e-s))s\tviol=$(grep -c '^VIOLATION' /tmp/thorough.$p.out)\tknown=$(grep -c '^KNOWN' /tmp/thorough.$p.out)" >> /tmp/thorough.tsv
done
