#!/bin/bash
# usage: bin/mutant.sh <patch.diff> <property-id>...   -- apply to /repo, run the quick checks, revert
p=$1; shift
git -C /repo apply $p || { echo "patch does not apply"; exit 2; }
for id in "$@"; do
  /verif/bin/check $id --tier quick > /tmp/mutant.$id.out 2>&1; rc=$?
  echo "== $id rc=$rc: $(grep -c '^VIOLATION' /tmp/mutant.$id.out) violation lines; first: $(grep -m1 '^VIOLATION' /tmp/mutant.$id.out)"
done
git -C /repo checkout -- .
