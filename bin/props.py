"""Per-property configuration of bin/check: streams, oracles, signatures, evidence texts."""
import hashlib, json

TRUSTED_BASE = [
    "Coq 8.16.1 kernel (coqc; coqchk in the thorough tier); vm_compute used for finite facts; no native_compute",
    "axioms: none (Print Assumptions under every property theorem must say 'Closed under the global context')",
    "extraction: ExtrOcamlBasic only, no Extract Constant; OCaml 4.13.1 and ocaml/driver.ml (I/O glue)",
    "tools/gotables (go/ast translator of the lexer tables into coq/gen/Tables.v, re-run on every check)",
    "hand-written Gallina models of the Go code: trusted only as far as the correspondence stage exercises them",
    "Go harness generators (harness/*.go) compute the specification-side expectation independently of the models",
]


def hexs(h):
    try:
        return bytes.fromhex(h).decode("utf-8", "backslashreplace")
    except Exception:
        return h


def tag_of(key):
    cid = key[1]
    return cid.split("#", 1)[1] if "#" in cid else ""


def compare(ctx, s, stage, signature_of, describe, nontrivial):
    """Generic correspondence + oracle comparison for one stream run.
    signature_of(key, s) -> signature dict for a property failure on that case."""
    cases, impl, model, expect = s["cases"], s["impl"], s["model"], s["expect"]
    corr = [k for k in cases if impl.get(k) != model.get(k)]
    fails = [k for k in expect if impl.get(k) != expect[k]]
    ctx.cov["evaluations"] = ctx.cov.get("evaluations", 0) + len(cases)
    ctx.cov["traces_validated_against_impl"] = ctx.cov.get("traces_validated_against_impl", 0) + len(cases)
    ctx.cov.setdefault("stages_compared", []).append(stage)
    ctx.cov["correspondence_mismatches"] = ctx.cov.get("correspondence_mismatches", 0) + len(corr)
    ctx.cov["oracle_checked"] = ctx.cov.get("oracle_checked", 0) + len(expect)
    seen = set()
    for k in cases:
        if nontrivial(k, s):
            seen.add(hashlib.sha1(cases[k].encode()).hexdigest())
    ctx.cov["distinct_nontrivial"] = ctx.cov.get("distinct_nontrivial", 0) + len(seen)
    new_violation = False
    reported = 0
    for k in fails:
        sig = signature_of(k, s)
        body = "stage: %s\ncase: %s %s\ninput: %s\nexpected: %s\nimplementation: %s\nmodel: %s\nreplay: %s\n" % (
            stage, k[0], k[1], describe(k, s), expect[k], impl.get(k), model.get(k),
            "printf '%%s\\n' '%s %s %s' > /tmp/case.txt && /verif/.build/harness run /tmp/case.txt /dev/stdout" % (k[0], k[1], cases[k]))
        if reported < 5 or sig:
            if ctx.failing(sig, "property oracle failed at stage " + stage, body):
                new_violation = True
                reported += 1
    if corr and not new_violation:
        # the model no longer describes the code; no failing input for the property was found
        only_model_wrong = [k for k in corr if k in expect and impl.get(k) == expect[k]]
        k = corr[0]
        known_only = all((k2 in fails) for k2 in corr)   # every mismatch is an already classified (known) failing input
        if not known_only:
            ctx.violation("correspondence broken at stage %s: %d of %d cases differ (model vs implementation); "
                          "%d of them still meet the specification-side expectation\nfirst differing case: %s %s\ninput: %s\nimplementation: %s\nmodel: %s\n"
                          "theorems that no longer speak about this code: coq/Properties/%s.v\n" % (
                              stage, len(corr), len(cases), len(only_model_wrong), k[0], k[1], describe(k, s), impl.get(k), model.get(k), ctx.pid),
                          found_input=False)
    return corr, fails


# ---------------------------------------------------------------- C11
def run_c11(ctx, ck):
    n = 4000 if ctx.tier == "quick" else 120000
    s = ck.run_stream(ctx, "lex", n)

    def sig(k, s):
        t = tag_of(k)
        return {"class": t} if t else {}

    def describe(k, s):
        return repr(hexs(s["cases"][k]))

    def nontrivial(k, s):
        e = s["expect"].get(k)
        return e is not None and (e == "err" or e.count(" ") >= 4)

    compare(ctx, s, "lexer tokens (type, value, row, column)", sig, describe, nontrivial)
    ctx.cov["distribution"] = s["meta"]
    ks = [k for k in s["expect"]][:400]
    for k in ks[::100]:
        ctx.samples.append({"source": hexs(s["cases"][k]), "tokens": s["impl"].get(k, "")[:300]})


# ---------------------------------------------------------------- C19
def run_c19(ctx, ck):
    n = 250 if ctx.tier == "quick" else 4000
    s = ck.run_stream(ctx, "tsh", n)

    def unf(field):
        return [hexs(x) for x in field.split(",") if x]

    def describe(k, s):
        f = s["cases"][k].split(" ")
        return "argv=%r fs=%r" % (unf(f[0]), [e[0] + ":" + hexs(e[1:].split(".")[0]) for e in f[1].split(",") if e])

    def sig(k, s):
        return {}

    def nontrivial(k, s):
        return True

    compare(ctx, s, "tsh binary: exit class and resulting directory tree", sig, describe, nontrivial)
    ctx.cov["distribution"] = s["meta"]
    for k in list(s["cases"])[:3]:
        ctx.samples.append({"case": describe(k, s), "observed": s["impl"].get(k, "")[:200]})


PROPS = {
    "C19": {
        "run": run_c19,
        "rule": "argument vectors over -i/-o/-t (short and long forms, shuffled pair order, repeated targets, dangling option, unknown option/target, "
                "missing/dir input, missing/file output dir, pre-existing output), input names with several dots/none/blanks/subdirectory, accepted and "
                "rejected programs; every case is a distinct history executed by the real tsh binary in a scratch directory; all are non-trivial",
        "assumptions": ["the library result passed to the model is what transpiler.Transpile returns in-process with a fresh converter",
                        "paths are relative, without trailing separators (join_out/base/stem model filepath.Join/Base/Ext on that shape)"],
        "trusted": ["coq/Cli/Tsh.v mirrors tsh.go; the abstract file system (association list) stands for the OS"],
    },
    "C11": {
        "run": run_c11,
        "rule": "token sequences (identifiers incl. trueish/nilx/format, keywords, bools, numbers, interpreted/raw strings with escapes, "
                "UTF-8 and newlines, every operator) rendered with blanks, tabs, line/block comments, LF or CRLF between them; plus named "
                "lexical errors and random bytes; non-trivial = a rendered sequence with at least 4 tokens or an expected error; distinct by source hash",
        "assumptions": ["Go regexp/strconv semantics as transcribed in coq/Lex/LexModel.v", "generator's adjacency rule (safeAdjacent) is a sound under-approximation of sep_ok"],
        "trusted": ["coq/Lex/LexSpec.v (token grammar, render, positions) is the specification a reader must accept"],
    },
}
