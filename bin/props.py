"""Per-property configuration of bin/check: streams, oracles, signatures, evidence texts."""
import hashlib, json, os

TRUSTED_BASE = [
    "Coq 8.16.1 kernel (coqc; coqchk in the thorough tier); vm_compute used for finite facts; no native_compute",
    "axioms: none (Print Assumptions under every property theorem must say 'Closed under the global context')",
    "extraction: ExtrOcamlBasic only, no Extract Constant; OCaml 4.13.1 and ocaml/driver.ml (I/O glue)",
    "tools/gotables (go/ast translator of the lexer tables into coq/gen/Tables.v, re-run on every check)",
    "hand-written Gallina models of the Go code: trusted only as far as the correspondence stage exercises them",
    "Go harness generators (harness/*.go) compute the specification-side expectation independently of the models",
]


def hexs(h):
    try:
        return bytes.fromhex(h).decode("utf-8", "backslashreplace")
    except Exception:
        return h


def tag_of(key):
    cid = key[1]
    return cid.split("#", 1)[1] if "#" in cid else ""


IGNORED_KEYS = set()
FLAT_STATS = {}


def obs_equal(kind, a, b):
    """model observations may carry fewer key=value tokens than the implementation's (same keys are compared)"""
    if a == b:
        return True
    if kind == "argv" and b is not None and b.startswith("argv=no"):
        return True                      # the word model does not cover this argument list
    if kind in ("emit", "hist", "run", "lrun", "orun", "fsh", "argv") and a is not None and b is not None and "=" in b:
        akeys = [t.split("=", 1)[0] for t in a.split(" ") if "=" in t]
        bkeys = [t.split("=", 1)[0] for t in b.split(" ") if "=" in t]
        at = [t for t in a.split(" ") if t.split("=", 1)[0] in bkeys and t.split("=", 1)[0] not in IGNORED_KEYS]
        bt = [t for t in b.split(" ") if t.split("=", 1)[0] in akeys and t.split("=", 1)[0] not in IGNORED_KEYS]
        return at == bt
    return False


def prog_source(case_body):
    """main source text of a program case (parse/emit kinds)"""
    try:
        f = case_body.split(" ")
        main = bytes.fromhex(f[0]).decode()
        for e in f[1].split(","):
            p = e.split(".")
            if bytes.fromhex(p[0]).decode() == main:
                return bytes.fromhex(p[1]).decode("utf-8", "backslashreplace")
        return "(main file missing) " + ", ".join(bytes.fromhex(e.split(".")[0]).decode() for e in f[1].split(",") if e)
    except Exception as ex:
        return "(undecodable case: %s)" % ex


def prog_files(case_body):
    out = {}
    try:
        for e in case_body.split(" ")[1].split(","):
            if e:
                p = e.split(".")
                out[bytes.fromhex(p[0]).decode()] = bytes.fromhex(p[1]).decode("utf-8", "backslashreplace")
    except Exception:
        pass
    return out


def compare(ctx, s, stage, signature_of, describe, nontrivial, oracle=None):
    """Generic correspondence + oracle comparison for one stream run.
    oracle(key, s) -> None (holds) | text (what fails); default: implementation == expectation.
    signature_of(key, s) -> signature dict for a property failure on that case."""
    cases, impl, model, expect = s["cases"], s["impl"], s["model"], s["expect"]
    # "run" cases: the driver prints the reference semantics' verdict there (a specification, not a model of the code)
    corr = [k for k in cases if k[0] not in ("run", "lrun", "orun", "ren", "batrun") and not obs_equal(k[0], impl.get(k), model.get(k))]
    if oracle is None:
        fails = [(k, "expected %s" % expect[k]) for k in expect if impl.get(k) != expect[k]]
        checked = len(expect)
    else:
        fails = []
        checked = 0
        for k in cases:
            r = oracle(k, s)
            if r is not False:
                checked += 1
            if r:
                fails.append((k, r))
    ctx.cov["evaluations"] = ctx.cov.get("evaluations", 0) + len(cases)
    ctx.cov["traces_validated_against_impl"] = ctx.cov.get("traces_validated_against_impl", 0) + len(cases)
    ctx.cov.setdefault("stages_compared", []).append(stage)
    ctx.cov["correspondence_mismatches"] = ctx.cov.get("correspondence_mismatches", 0) + len(corr)
    ctx.cov["oracle_checked"] = ctx.cov.get("oracle_checked", 0) + checked
    seen = set()
    for k in cases:
        if nontrivial(k, s):
            seen.add(hashlib.sha1(cases[k].encode()).hexdigest())
    ctx.cov["distinct_nontrivial"] = ctx.cov.get("distinct_nontrivial", 0) + len(seen)
    new_violation = False
    reported = 0
    failkeys = set()
    for k, what in fails:
        failkeys.add(k)
        sig = signature_of(k, s)
        body = "stage: %s\ncase: %s %s\ninput: %s\nwhat fails: %s\nimplementation: %s\nmodel: %s\nreplay: %s\n" % (
            stage, k[0], k[1], describe(k, s), what, (impl.get(k) or "")[:3000], (model.get(k) or "")[:3000],
            "printf '%%s\\n' '%s %s %s' > /tmp/case.txt && /verif/.build/harness run /tmp/case.txt /dev/stdout" % (k[0], k[1], cases[k][:20000]))
        if reported < 5 or sig:
            if ctx.failing(sig, "property oracle failed at stage " + stage, body):
                new_violation = True
                reported += 1
    unexplained = [k for k in corr if k not in failkeys]
    if unexplained and not new_violation:
        k = unexplained[0]
        ctx.violation("correspondence broken at stage %s: %d of %d cases differ (model vs implementation) without a failing input for the property\n"
                      "first differing case: %s %s\ninput: %s\nimplementation: %s\nmodel: %s\n"
                      "the model no longer describes this code, so the theorems of coq/Properties/%s.v no longer speak about it\n" % (
                          stage, len(unexplained), len(cases), k[0], k[1], describe(k, s), (impl.get(k) or "")[:3000], (model.get(k) or "")[:3000], ctx.pid),
                      found_input=False)
    return corr, fails


def describe_prog(k, s):
    return repr(prog_source(s["cases"][k])[:1500])


# ---------------------------------------------------------------- C11
def run_c11(ctx, ck):
    n = 4000 if ctx.tier == "quick" else 120000
    s = ck.run_stream(ctx, "lex", n)

    def sig(k, s):
        t = tag_of(k)
        return {"class": t} if t else {}

    def describe(k, s):
        return repr(hexs(s["cases"][k]))

    def nontrivial(k, s):
        e = s["expect"].get(k)
        return e is not None and (e == "err" or e.count(" ") >= 4)

    compare(ctx, s, "lexer tokens (type, value, row, column)", sig, describe, nontrivial)
    ctx.cov["distribution"] = s["meta"]
    ks = [k for k in s["expect"]][:400]
    for k in ks[::100]:
        ctx.samples.append({"source": hexs(s["cases"][k]), "tokens": s["impl"].get(k, "")[:300]})


# ---------------------------------------------------------------- C19
def run_c19(ctx, ck):
    n = 250 if ctx.tier == "quick" else 4000
    s = ck.run_stream(ctx, "tsh", n)

    def unf(field):
        return [hexs(x) for x in field.split(",") if x]

    def describe(k, s):
        f = s["cases"][k].split(" ")
        return "argv=%r fs=%r" % (unf(f[0]), [e[0] + ":" + hexs(e[1:].split(".")[0]) for e in f[1].split(",") if e])

    def sig(k, s):
        return {}

    def nontrivial(k, s):
        return True

    compare(ctx, s, "tsh binary: exit class and resulting directory tree", sig, describe, nontrivial)
    ctx.cov["distribution"] = s["meta"]
    for k in list(s["cases"])[:3]:
        ctx.samples.append({"case": describe(k, s), "observed": s["impl"].get(k, "")[:200]})


# ---------------------------------------------------------------- C13
BAD_VERDICTS = ("panic", "timeout", "err-empty", "err-with-script", "fuel")


def totality_oracle(k, s):
    o = s["impl"].get(k)
    if o is None:
        return "no observation"
    if k[0] == "parse":
        v = o.split(" ", 1)[0]
        return None if v in ("ok", "err") else "parser verdict %s" % v
    if k[0] == "emit":
        for t in o.split(" "):
            key, v = t.split("=", 1)
            if key not in ("bash", "batch"):
                continue
            if not (v == "err" or v.startswith("ok:")):
                return "%s target: %s" % (key, v)
        return None
    return False


def run_c13(ctx, ck):
    n = 1500 if ctx.tier == "quick" else 40000
    for name, cnt in (("fuzz", n), ("suite", 0)):
        s = ck.run_stream(ctx, name, cnt)
        compare(ctx, s, "%s stream: parser verdict + AST, Bash and Batch script bytes" % name, lambda k, s: {}, describe_prog,
                lambda k, s: True, oracle=totality_oracle)
        ctx.cov.setdefault("distribution", {}).update(s["meta"])
        verdicts = {}
        for k, o in s["impl"].items():
            if k[0] == "parse":
                v = o.split(" ", 1)[0]
                verdicts[v] = verdicts.get(v, 0) + 1
        ctx.cov.setdefault("verdicts", {})[name] = verdicts
        for k in list(s["cases"])[:2]:
            ctx.samples.append({"source": prog_source(s["cases"][k])[:400], "observed": s["impl"].get(k, "")[:120]})


# ---------------------------------------------------------------- C12
def run_c12(ctx, ck):
    n = 60 if ctx.tier == "quick" else 1500
    s = ck.run_stream(ctx, "layout", n)
    groups = {}
    for k in s["cases"]:
        gid = k[1].split("#")[1].split(".")[0]
        groups.setdefault(gid, []).append(k)

    def oracle(k, s):
        gid = k[1].split("#")[1].split(".")[0]
        ref = groups[gid][0]
        if k == ref:
            return None
        a, b = s["impl"].get(ref), s["impl"].get(k)
        if a != b:
            return "layout variant differs from variant 0 of its group: %s... vs %s..." % ((a or "")[:80], (b or "")[:80])
        return None

    def sig(k, s):
        t = k[1].split("#")
        return {"class": t[2]} if len(t) > 2 else {}

    compare(ctx, s, "layout groups: verdict and script bytes of every re-layout equal those of the original", sig, describe_prog,
            lambda k, s: (s["impl"].get(k) or "").startswith("bash=ok"), oracle=oracle)
    ctx.cov["groups"] = len(groups)
    ctx.cov["distribution"] = s["meta"]
    ks = list(s["cases"])
    for k in ks[1:3]:
        ctx.samples.append({"layout_variant": prog_source(s["cases"][k])[:400]})


# ---------------------------------------------------------------- C09 (first part)
def run_c09(ctx, ck):
    n = 150 if ctx.tier == "quick" else 6000
    s = ck.run_stream(ctx, "imports", n)
    compare(ctx, s, "import graphs: parser verdict + AST, script bytes, Bash run", lambda k, s: sig_from_expect(k, s), describe_files,
            lambda k, s: (s["impl"].get(k) or "").startswith("ok") or "ok:" in (s["impl"].get(k) or ""))
    ctx.cov["distribution"] = s["meta"]
    for k in list(s["cases"])[:2]:
        ctx.samples.append({"files": prog_files(s["cases"][k]), "observed": s["impl"].get(k, "")[:200]})


def describe_files(k, s):
    return json.dumps(prog_files(s["cases"][k]))[:3000]


def sig_from_expect(k, s):
    t = k[1].split("#")
    return {"class": t[1]} if len(t) > 1 else {}


# ---------------------------------------------------------------- C01-C04, C16: generated safe programs
def sem_oracle(k, s):
    """run cases: the implementation's script under real Bash against the reference semantics (driver's Src.run)"""
    if k[0] != "run":
        return False
    spec = s["model"].get(k) or ""
    if not spec.startswith("transpile="):
        return False                      # undefined behaviour or fuel: nothing prescribed
    o = s["impl"].get(k) or ""
    fl = toks(spec).get("flat")
    if fl is not None:
        FLAT_STATS["defined"] = FLAT_STATS.get("defined", 0) + 1
        if toks(o).get("status") == "0" and toks(o).get("out") != fl:
            return "the flat shell model of the C01/C02 theorems (Sem/FlatLoop.v) prints %r, /bin/bash prints %r" % (hexs(fl)[:300], hexs(toks(o).get("out", ""))[:300])
    jo = toks(spec).get("jout")
    if jo is not None:
        FLAT_STATS["jdefined"] = FLAT_STATS.get("jdefined", 0) + 1
        if toks(spec).get("jstatic") == "1":
            # every hypothesis of the whole-program theorem (C01_program_preserved) holds: its conclusion is about the flat machine
            FLAT_STATS["theorem"] = FLAT_STATS.get("theorem", 0) + 1
            if fl is None or fl != jo:
                return "the whole-program theorem applies (interpreter answer %r, names checked) but the flat shell machine prints %r" % (hexs(jo)[:300], hexs(fl or "")[:300])
        if toks(spec).get("status") == "0" and toks(spec).get("out") != jo:
            return "the source semantics J of the simulation theorems (Sem/JRun.v) prints %r, the reference semantics Sem/Src.v prints %r" % (hexs(jo)[:300], hexs(toks(spec).get("out", ""))[:300])
    if obs_equal("run", o, spec):
        return None
    return "Bash run differs from the reference semantics: expected %s" % spec[:600]


def syntax_oracle(k, s):
    if k[0] != "emit":
        return False
    o = s["impl"].get(k) or ""
    d = dict(t.split("=", 1) for t in o.split(" ") if "=" in t)
    if d.get("bash", "").startswith("ok:") and d.get("bashsyntax") != "ok":
        return "bash -n rejects the emitted script"
    if d.get("batch", "").startswith("ok:") and d.get("batchsyntax") != "ok":
        return "Batch script is malformed: %s" % d.get("batchsyntax")
    if d.get("bash", "").startswith("ok:") != d.get("batch", "").startswith("ok:"):
        return "the two targets disagree on acceptance"
    return None


def decode_run(o):
    d = dict(t.split("=", 1) for t in (o or "").split(" ") if "=" in t)
    for key in ("out", "stderr"):
        if key in d:
            d[key] = hexs(d[key])
    return d


def run_sem(ctx, ck, streams, oracles, quick_n, thorough_n):
    for name in streams:
        n = quick_n if ctx.tier == "quick" else thorough_n
        run_sem_round(ctx, ck, name, oracles, n, 0)
        # The model no longer matches the code but no failing input yet: search harder (more programs, new seeds).
        rounds = 0
        while rounds < 3 and any(sfx for _, sfx in ctx.violations) and not any(not sfx for _, sfx in ctx.violations):
            rounds += 1
            ctx.notes.append("correspondence broke without a failing input: escalation round %d with %d programs" % (rounds, n * 4 * rounds))
            before = len(ctx.violations)
            run_sem_round(ctx, ck, name, oracles, n * 4 * rounds, 1000 * rounds)
            if any(not sfx for _, sfx in ctx.violations[before:]):
                # a concrete failing input was found: drop the input-less reports
                ctx.violations = [v for v in ctx.violations if not v[1]]
                break
            ctx.violations = ctx.violations[:before]


def run_sem_round(ctx, ck, name, oracles, n, seed_off):
    if True:
        s = ck.run_stream(ctx, name, n, seed_off=seed_off)

        def oracle(k, s):
            res = False
            for o in oracles:
                r = o(k, s)
                if r:
                    return r
                if r is None:
                    res = None
            return res

        compare(ctx, s, "%s: script bytes (model) and Bash execution (reference semantics)" % name, lambda k, s: {}, describe_prog,
                lambda k, s: k[0] == "run" and (s["impl"].get(k) or "").startswith("transpile=ok out="), oracle=oracle)
        ctx.cov.setdefault("distribution", {}).update(s["meta"])
        und = sum(1 for k in s["cases"] if k[0] == "run" and not (s["model"].get(k) or "").startswith("transpile="))
        ctx.cov["spec_undefined_or_nofuel"] = ctx.cov.get("spec_undefined_or_nofuel", 0) + und
        for k in [k for k in s["cases"] if k[0] == "run"][:2]:
            ctx.samples.append({"source": prog_source(s["cases"][k])[:600], "bash_run": decode_run(s["impl"].get(k))})


def run_c01(ctx, ck):
    IGNORED_KEYS.add("flat"); IGNORED_KEYS.add("jout"); IGNORED_KEYS.add("jstatic")
    run_sem(ctx, ck, ["sem-scalar"], [sem_oracle], 1500, 10000)
    ctx.cov["flat_shell_model_validated_against_bash"] = FLAT_STATS.get("defined", 0)
    ctx.cov["source_semantics_J_validated_against_reference"] = FLAT_STATS.get("jdefined", 0)
    ctx.cov["programs_on_which_every_hypothesis_of_the_whole_program_theorem_holds"] = FLAT_STATS.get("theorem", 0)


def run_c02(ctx, ck):
    IGNORED_KEYS.add("flat"); IGNORED_KEYS.add("jout"); IGNORED_KEYS.add("jstatic")
    run_sem(ctx, ck, ["sem-funcs"], [sem_oracle], 1200, 8000)
    ctx.cov["flat_shell_model_with_call_oracle_validated_against_bash"] = FLAT_STATS.get("defined", 0)
    ctx.cov["source_semantics_J_validated_against_reference"] = FLAT_STATS.get("jdefined", 0)
    ctx.cov["programs_on_which_every_hypothesis_of_the_whole_program_theorem_holds"] = FLAT_STATS.get("theorem", 0)


def locale_oracle(k, s):
    """strings with non-ASCII bytes: the script under the C locale (run) and under a UTF-8 locale (lrun) against the
    reference semantics, which counts bytes as Go does"""
    if k[0] not in ("run", "lrun"):
        return False
    spec = s["model"].get(k) or ""
    if not spec.startswith("transpile=ok"):
        return False
    o = s["impl"].get(k) or ""
    if obs_equal(k[0], o, spec):
        return None
    return "string operations under LC_ALL=%s differ from Go's byte semantics: expected %s" % ("C.UTF-8" if k[0] == "lrun" else "C", spec[:300])


def run_c03(ctx, ck):
    IGNORED_KEYS.add("flat"); IGNORED_KEYS.add("jout"); IGNORED_KEYS.add("jstatic")
    run_sem(ctx, ck, ["sem-slices"], [sem_oracle], 1200, 8000)
    s = ck.run_stream(ctx, "strings-locale", 1)

    def sig(k, s_):
        t = k[1].split("#")
        return {"class": t[1]} if len(t) > 1 else {}

    compare(ctx, s, "strings with non-ASCII bytes under the C locale and under a UTF-8 locale against the reference semantics (bytes, as in Go)",
            sig, describe_prog, lambda k, s_: k[0] in ("run", "lrun"), oracle=locale_oracle)
    ctx.cov.setdefault("distribution", {}).update(s["meta"])
    ctx.cov["flat_shell_model_with_call_oracle_validated_against_bash"] = FLAT_STATS.get("defined", 0)
    ctx.cov["source_semantics_J_validated_against_reference"] = FLAT_STATS.get("jdefined", 0)
    ctx.cov["programs_on_which_every_hypothesis_of_the_whole_program_theorem_holds"] = FLAT_STATS.get("theorem", 0)


def run_c04(ctx, ck):
    run_sem(ctx, ck, ["sem-effects"], [sem_oracle], 1200, 8000)


def run_c16(ctx, ck):
    run_sem(ctx, ck, ["sem-all", "suite"], [syntax_oracle], 400, 6000)
    si = ck.run_stream(ctx, "imports", 80 if ctx.tier == "quick" else 3000)
    compare(ctx, si, "import graphs: every called label/function must be contained", lambda k, s: {}, describe_files,
            lambda k, s: "ok:" in (s["impl"].get(k) or ""), oracle=syntax_oracle)
    s = ck.run_stream(ctx, "fuzz", 600 if ctx.tier == "quick" else 20000)
    compare(ctx, s, "fuzz: accepted near-miss programs must be well-formed too", lambda k, s: {}, describe_prog,
            lambda k, s: "ok:" in (s["impl"].get(k) or ""), oracle=syntax_oracle)
    sb = ck.run_stream(ctx, "blocks", 1)
    compare(ctx, sb, "blocks: every kind of block with every kind of sole statement (dropped values, declarations, nothing)", lambda k, s: {}, describe_prog,
            lambda k, s: "ok:" in (s["impl"].get(k) or ""), oracle=syntax_oracle)
    ctx.cov.setdefault("distribution", {}).update(sb["meta"])


# ---------------------------------------------------------------- C06
def verdict_of_emit(o):
    d = dict(t.split("=", 1) for t in (o or "").split(" ") if "=" in t)
    b, w = d.get("bash", ""), d.get("batch", "")
    if b.startswith("ok:") and w.startswith("ok:"):
        return "accept"
    if b == "err" and w == "err":
        return "reject"
    return "mixed(%s/%s)" % (b[:12], w[:12])


def accept_oracle(k, s):
    e = s["expect"].get(k)
    if e is None:
        return False
    v = verdict_of_emit(s["impl"].get(k))
    if v == e:
        return None
    return "typing rules say %s, the implementation says %s" % (e, v)


def run_c06(ctx, ck):
    import subprocess
    IGNORED_KEYS.update({"bashsyntax", "batchsyntax"})      # quoting of literals is C08/C16's business, not typing's
    d = ctx.work + "/c06table"
    subprocess.run(["python3", "/verif/tools/c06table.py", "--cases", d, "--std", "/verif/.build/std"], check=True, stdout=subprocess.DEVNULL)
    s = ck.run_cases_dir(ctx, d)
    compare(ctx, s, "typing table: 58 positions x 8 offered types x 5 contexts, both targets", sig_from_expect, describe_prog,
            lambda k, s: True, oracle=accept_oracle)
    ctx.cov["table"] = s["meta"]
    ctx.cov["exhaustive"] = True
    n = 400 if ctx.tier == "quick" else 20000
    s2 = ck.run_stream(ctx, "typed-mutants", n)
    compare(ctx, s2, "generated programs, 1 in 6 with one typed position corrupted", sig_from_expect, describe_prog,
            lambda k, s: True, oracle=accept_oracle)
    ctx.cov.setdefault("distribution", {}).update(s2["meta"])
    for k in list(s["cases"])[:1] + list(s2["cases"])[:1]:
        ctx.samples.append({"source": prog_source(s["cases"].get(k) or s2["cases"].get(k))[-300:], "verdict": verdict_of_emit((s["impl"].get(k) or s2["impl"].get(k)))})


# ---------------------------------------------------------------- C07
def run_c07(ctx, ck):
    import subprocess
    IGNORED_KEYS.update({"bashsyntax", "batchsyntax"})
    d = ctx.work + "/c07table"
    subprocess.run(["python3", "/verif/tools/c07table.py", "--cases", d, "--std", "/verif/.build/std"], check=True, stdout=subprocess.DEVNULL)
    s = ck.run_cases_dir(ctx, d)
    compare(ctx, s, "scoping table: (definition site, use site) pairs, placements of break/continue/return/func, import boundaries", lambda k, s: {},
            describe_files, lambda k, s: True, oracle=accept_oracle)
    ctx.cov["table"] = s["meta"]
    ctx.cov["exhaustive"] = True
    n = 400 if ctx.tier == "quick" else 20000
    s2 = ck.run_stream(ctx, "typed-mutants", n, seed_off=7)
    compare(ctx, s2, "generated programs, some with one name moved out of scope / one construct misplaced", lambda k, s: {}, describe_prog,
            lambda k, s: True, oracle=accept_oracle)
    s3 = ck.run_stream(ctx, "fuzz", 300 if ctx.tier == "quick" else 10000, seed_off=7)
    compare(ctx, s3, "fuzz (import graphs with private/undefined names): verdicts and AST equal to the model's", lambda k, s: {}, describe_files,
            lambda k, s: True, oracle=totality_oracle)
    ctx.cov.setdefault("distribution", {}).update(s2["meta"])
    for k in list(s["cases"])[:2]:
        ctx.samples.append({"entry": k[1], "source": prog_source(s["cases"][k])[:300], "verdict": verdict_of_emit(s["impl"].get(k))})


# ---------------------------------------------------------------- C08, C17, C18: what goes in must come out
def toks(o):
    return dict(t.split("=", 1) for t in (o or "").split(" ") if "=" in t)


def orun_oracle(k, s):
    """expectation (computed by the generator from the meaning of the program) and, where the reference
    semantics is defined, its verdict -- both against the implementation's script under /bin/bash"""
    if k[0] not in ("orun", "argv"):
        return False
    e = s["expect"].get(k)
    if e is None:
        return False
    o, w = toks(s["impl"].get(k)), toks(e)
    bad = [x for x in w if o.get(x) != w[x]]
    if bad:
        d = []
        for x in bad[:3]:
            try:
                d.append("%s: expected %r, got %r" % (x, hexs(w[x])[:200] if x in ("out", "stderr") else w[x][:200], hexs(o.get(x, ""))[:200] if x in ("out", "stderr") else o.get(x, "")[:200]))
            except Exception:
                d.append("%s differs" % x)
        return "; ".join(d)
    if k[0] == "orun":
        spec = s["model"].get(k) or ""
        if spec.startswith("transpile=ok"):
            st = toks(spec)
            for x in ("out", "status", "files"):
                if x in st and x in o and st[x] != o[x]:
                    return "Bash run differs from the reference semantics on %s" % x
    return None


def describe_orun(k, s):
    f = s["cases"][k].split(" ")
    d = {"program": prog_source(s["cases"][k])[:1500]}
    if len(f) > 3 and f[3] != "-":
        d["stdin"] = hexs(f[3])
    if len(f) > 4 and f[4] != "-":
        d["files_before"] = {hexs(e.split(".")[0]): hexs(e.split(".")[1]) if "." in e else "" for e in f[4].split(",") if e}
    return json.dumps(d)


C08_LITERAL_CLASSES = ("quote", "dollar", "backquote", "backslash")
C08_SUBST_PATHS = ("slice-store", "slice-literal", "range", "write")


def sig_c08(k, s):
    t = k[1].split("#", 1)
    if len(t) < 2:
        return {}
    path, origin, cls = t[1].split("/")
    if origin == "literal" and cls in C08_LITERAL_CLASSES:
        return {"origin": "literal", "class": cls}
    if cls == "newline-trailing" and (origin in ("file", "command") or path in C08_SUBST_PATHS):
        return {"class": "newline-trailing", "through": "command-substitution"}
    return {"path": path, "origin": origin, "class": cls}


def run_dqwords(ctx, ck, n):
    s = ck.run_stream(ctx, "dqwords", n)
    # the model of double-quoted text against /bin/bash, wherever the model is defined
    bad = [k for k in s["cases"] if (s["model"].get(k) or "").startswith("some:") and s["model"][k] != s["impl"].get(k)]
    ctx.cov["bash_word_model_cases"] = len(s["cases"])
    ctx.cov["bash_word_model_defined"] = sum(1 for k in s["cases"] if (s["model"].get(k) or "").startswith("some:"))
    ctx.cov["evaluations"] = ctx.cov.get("evaluations", 0) + len(s["cases"])
    if bad:
        k = bad[0]
        f = s["cases"][k].split(" ")
        ctx.violation("the model of double-quoted text (coq/Sem/Words.v: dq) disagrees with /bin/bash on %d of %d words\nfirst: word %r env %s\nmodel %s\nbash %s\n"
                      "the C08/C18 theorems are stated over this model, so they no longer speak about the shell that runs the scripts\n" % (
                          len(bad), len(s["cases"]), hexs(f[1]) if f[1] != "-" else "", f[0], s["model"][k], s["impl"].get(k)), found_input=False)


def run_c08(ctx, ck):
    IGNORED_KEYS.update({"bashsyntax", "batchsyntax"})
    run_dqwords(ctx, ck, 3000 if ctx.tier == "quick" else 40000)
    s = ck.run_stream(ctx, "opaque", 2200 if ctx.tier == "quick" else 0)
    compare(ctx, s, "opacity sweep: (character class x position) x 13 data paths x 4 origins, script bytes (model) and Bash run (expectation, reference semantics)",
            sig_c08, describe_orun, lambda k, s: k[0] == "orun", oracle=orun_oracle)
    ctx.cov["distribution"] = s["meta"]
    ctx.cov["exhaustive"] = ctx.tier != "quick"
    ks = [k for k in s["cases"] if k[0] == "orun"]
    for k in ks[:: max(1, len(ks) // 3)][:3]:
        ctx.samples.append({"case": k[1], "program": prog_source(s["cases"][k])[:300], "observed": decode_run(s["impl"].get(k))})


def run_c17(ctx, ck):
    IGNORED_KEYS.update({"bashsyntax", "batchsyntax"})
    s = ck.run_stream(ctx, "fsops", 500 if ctx.tier == "quick" else 12000)
    compare(ctx, s, "write/append/read/exists histories: script bytes (model), Bash run against the expectation, the reference semantics and the Bash-level model of the three operations",
            sig_from_expect, describe_orun, lambda k, s: k[0] == "orun", oracle=orun_oracle)
    ctx.cov["distribution"] = s["meta"]
    ks = [k for k in s["cases"] if k[0] == "orun"]
    for k in ks[:2]:
        ctx.samples.append({"case": k[1], "program": prog_source(s["cases"][k])[:400], "observed": decode_run(s["impl"].get(k))})
    # the contents also travel the C08 write path
    s2 = ck.run_stream(ctx, "opaque", 600 if ctx.tier == "quick" else 0, seed_off=17)
    sub = {k: v for k, v in s2["cases"].items() if "#write/" in k[1]}
    s2 = dict(s2, cases=sub, expect={k: v for k, v in s2["expect"].items() if k in sub})
    compare(ctx, s2, "every character class written to and read back from a file (the write path of the C08 sweep)", sig_c08, describe_orun,
            lambda k, s: k[0] == "orun", oracle=orun_oracle)


def sig_c18(k, s):
    t = k[1].split("#", 1)
    if len(t) < 2:
        return {}
    p = t[1].split("/")
    return {"origin": p[0], "class": p[1]}


def run_c18(ctx, ck):
    IGNORED_KEYS.update({"bashsyntax", "batchsyntax"})
    run_dqwords(ctx, ck, 1500 if ctx.tier == "quick" else 20000)
    s = ck.run_stream(ctx, "appcalls", 900 if ctx.tier == "quick" else 25000)
    compare(ctx, s, "probe calls: 0..5 arguments (one special), pipelines 1..3, exit statuses, captured or not: script bytes (model), argument vector (word model) and Bash run (expectation)",
            sig_c18, describe_orun, lambda k, s: k[0] == "orun", oracle=orun_oracle)
    ctx.cov["distribution"] = s["meta"]
    ctx.cov["argv_model_defined"] = sum(1 for k in s["cases"] if k[0] == "argv" and not (s["model"].get(k) or "").startswith("argv=no"))
    ks = [k for k in s["cases"] if k[0] == "orun"]
    for k in ks[:2]:
        ctx.samples.append({"case": k[1], "program": prog_source(s["cases"][k])[:300], "observed": decode_run(s["impl"].get(k))})


# ---------------------------------------------------------------- C05
def run_c05(ctx, ck):
    import re
    IGNORED_KEYS.update({"bashsyntax", "batchsyntax"})
    s = ck.run_stream(ctx, "sem-batch", 250 if ctx.tier == "quick" else 6000)
    stats = {"decided": 0, "spec_undefined": 0, "cmd_unsupported": 0, "cmd_fuel": 0, "beyond_32_bit": 0, "scripts_differing_from_model": 0}
    # second pass: the IMPLEMENTATION's Batch script under the cmd.exe model (the first pass ran the model's script)
    import subprocess
    d2 = s["dir"] + "-cmdrun"
    os.makedirs(d2, exist_ok=True)
    with open(d2 + "/cases.txt", "w") as f:
        for k in s["cases"]:
            if k[0] == "batrun":
                bat = toks(s["impl"].get(k)).get("bat", "-")
                if bat != "-":
                    f.write("cmdrun %s %s\n" % (k[1], bat))
    ck.run_driver(d2 + "/cases.txt", d2 + "/model.txt")
    implrun = {}
    for l in open(d2 + "/model.txt"):
        p = l.rstrip("\n").split(" ", 2)
        if len(p) == 3 and p[0] == "cmdrun":
            implrun[p[1]] = toks(p[2])

    def oracle(k, s_):
        if k[0] != "batrun":
            return False
        mo = toks(s_["model"].get(k))
        io = toks(s_["impl"].get(k))
        ir = implrun.get(k[1])
        if ir is not None:
            if (ir.get("cmd"), ir.get("out"), ir.get("status")) != (mo.get("cmd"), mo.get("out"), mo.get("status")):
                stats["scripts_differing_from_model"] += 1
            mo = dict(mo, cmd=ir.get("cmd"), out=ir.get("out"), status=ir.get("status"))   # decide on the implementation's script
        if mo.get("spec") != "ran":
            stats["spec_undefined"] += 1
            return False
        if mo.get("cmd") == "fuel":
            stats["cmd_fuel"] += 1
            return "the Batch script does not end within 200000 commands under the cmd.exe model, the reference semantics ends and prints %r" % hexs(mo.get("specout", ""))[:300]
        if mo.get("cmd") != "ran":
            stats["cmd_unsupported"] += 1
            return False
        spec_out = hexs(mo.get("specout", ""))
        if re.search(r"[0-9]{10,}", spec_out) or re.search(r"[0-9]{10,}", hexs(mo.get("out", ""))):
            stats["beyond_32_bit"] += 1
            return False                              # the property is about 32-bit integers
        stats["decided"] += 1
        if (mo.get("out"), mo.get("status")) != (mo.get("specout"), mo.get("specstatus")):
            return "the Batch script under the cmd.exe model prints %r (exit %s), the reference semantics %r (exit %s)" % (
                hexs(mo.get("out", ""))[:400], mo.get("status"), spec_out[:400], mo.get("specstatus"))
        if io.get("out") is not None and (io.get("out"), io.get("status")) != (mo.get("out"), mo.get("status")):
            return "the Batch script under the cmd.exe model prints %r (exit %s), the Bash script under /bin/bash %r (exit %s)" % (
                hexs(mo.get("out", ""))[:400], mo.get("status"), hexs(io.get("out", ""))[:400], io.get("status"))
        return None

    def sig(k, s_):
        mo = toks(s_["model"].get(k))
        ir = implrun.get(k[1])
        if ir is not None and ir.get("out") is not None:
            mo = dict(mo, out=ir.get("out"))
        out, spec = hexs(mo.get("out", "")), hexs(mo.get("specout", ""))
        src = prog_source(s_["cases"][k])
        if "func " in src and "panic(" in src and out.startswith(spec) and len(out) > len(spec) and spec.rstrip("\n").split("\n")[-1].startswith("panic: "):
            return {"class": "panic-in-function"}
        return {}

    # batrun: the implementation side is the Bash run, the driver side the cmd.exe model: both are decided by the oracle
    compare(ctx, s, "generated and targeted programs: Batch script bytes (model = implementation), the script under the cmd.exe model against the reference semantics and the Bash run",
            sig, describe_prog, lambda k, s_: k[0] == "batrun", oracle=oracle)
    ctx.cov["distribution"] = s["meta"]
    ctx.cov["cmd_model_runs"] = stats
    ks = [k for k in s["cases"] if k[0] == "batrun"]
    for k in ks[:2]:
        ctx.samples.append({"program": prog_source(s["cases"][k])[:400], "cmd_model": {x: (hexs(v) if x in ("out", "specout") else v) for x, v in toks(s["model"].get(k)).items()}})


# ---------------------------------------------------------------- C10
def run_c10(ctx, ck):
    IGNORED_KEYS.update({"bashsyntax", "batchsyntax"})
    s = ck.run_stream(ctx, "rename", 420 if ctx.tier == "quick" else 8000)

    def sig(k, s):
        t = k[1].split("#", 1)
        if len(t) < 2:
            return {}
        kind, cls = t[1].split("/")
        return {"kind": kind, "class": cls}

    def oracle(k, s):
        if k[0] != "ren":
            return False
        o = toks(s["impl"].get(k))
        v = o.get("verdict")
        if v == "original-rejected":
            return False                       # nothing to compare
        if (s["model"].get(k) or "") == "spec=differ":
            return False                       # the renaming changed the meaning of the source: generator's fault, not counted
        if v in ("same", "rejected"):
            return None
        return "renamed program behaves differently: verdict=%s original prints %r (status %s), renamed prints %r (status %s, stderr %r)" % (
            v, hexs(o.get("outA", ""))[:300], o.get("statusA"), hexs(o.get("outB", ""))[:300], o.get("statusB"), hexs(o.get("stderrB", ""))[:200])

    def describe(k, s):
        f = s["cases"][k].split(" ")
        if k[0] != "ren":
            return describe_prog(k, s)
        def src(files):
            for e in files.split(","):
                p = e.split(".")
                if len(p) > 1:
                    return bytes.fromhex(p[1]).decode("utf-8", "backslashreplace")
            return ""
        return json.dumps({"original": src(f[1])[:1200], "renamed": src(f[3])[:1200]})

    # ren cases are an oracle on the implementation; the driver's line is the reference semantics of both sources
    cases = s["cases"]
    compare(ctx, s, "renamings of generated programs into ordinary names and into every class of back-end / shell names: script bytes (model) of both versions, both executed",
            sig, describe, lambda k, s_: k[0] == "ren", oracle=oracle)
    corr_skip = {k for k in cases if k[0] == "ren"}
    spec = {k: s["model"].get(k) for k in corr_skip}
    ctx.cov["distribution"] = s["meta"]
    ctx.cov["spec_same"] = sum(1 for k in corr_skip if spec.get(k) == "spec=same")
    ctx.cov["spec_differ_not_counted"] = sum(1 for k in corr_skip if spec.get(k) == "spec=differ")
    ks = [k for k in cases if k[0] == "ren"]
    for k in ks[:2]:
        ctx.samples.append({"case": k[1], "observed": (s["impl"].get(k) or "")[:200]})


# ---------------------------------------------------------------- C15
def run_c15(ctx, ck):
    import re
    # 1. the transliteration must still quote the library source, function by function, line for line and in order
    src = [l.strip() for l in open("/repo/std/strings.tsh").read().splitlines()]
    src = [l for l in src if l and not l.startswith("//")]
    model_text = open("/verif/coq/Lib/StrLib.v").read()
    funcs, cur = {}, None
    for l in src:
        m = re.match(r"func ([A-Za-z]+)\(", l)
        if m:
            cur = m.group(1)
            funcs[cur] = []
        if cur:
            funcs[cur].append(l)
    changed, missing = [], []
    for name, lines in funcs.items():
        pos = model_text.find(lines[0])
        ok = pos >= 0
        for l in lines:
            i = model_text.find(l, pos) if ok else -1
            if i < 0:
                ok = False
                missing.append(l)
                break
            pos = i + len(l)
        if not ok:
            changed.append(name)
    # functions that call a changed function are affected too
    affected = set(changed)
    grew = True
    while grew:
        grew = False
        for name, lines in funcs.items():
            if name not in affected and any(re.search(r"\b%s\(" % c, l) for c in affected for l in lines[1:]):
                affected.add(name)
                grew = True
    ctx.cov["library_source_lines"] = len(src)
    ctx.cov["library_functions_quoted_in_model"] = len(funcs) - len(changed)
    n = 2000 if ctx.tier == "quick" else 0
    s = ck.run_stream(ctx, "strlib", n)

    def describe(k, s):
        f = s["cases"][k].split(" ")
        return "%s(%s)" % (f[0], ", ".join(repr(hexs(x)) if re.fullmatch(r"([0-9a-f]{2})*", x) else x for x in f[1:]))

    def sig(k, s):
        return {}

    compare(ctx, s, "std/strings compiled and run under /bin/bash against Go's strings (expectation) and against the transliteration lib_f (model)",
            sig, describe, lambda k, s: True)
    # 2. the specification go_f against Go's own functions
    bad = [k for k in s["cases"] if s["model"].get(("gospec", k[1])) != s["expect"].get(k)]
    ctx.cov["go_spec_validated_cases"] = len(s["cases"]) - len(bad)
    if bad:
        k = bad[0]
        ctx.violation("the specification go_f (coq/Lib/GoStrings.v) disagrees with Go's strings package on %d of %d argument tuples\nfirst: %s\nGo: %s\nspec: %s\n"
                      "the C15 theorems are stated against this specification\n" % (len(bad), len(s["cases"]), describe(k, s), s["expect"].get(k), s["model"].get(("gospec", k[1]))),
                      found_input=False)
    if missing and not ctx.violations:
        # the source changed but the sampled tuples show no difference: enumerate the affected functions exhaustively
        s2 = ck.run_stream(ctx, "strlib", 0, seed_off=1, extra_env={"STRLIB_FUNCS": ",".join(sorted(changed))})
        compare(ctx, s2, "exhaustive argument space of the functions whose source changed (%s)" % ",".join(sorted(changed)), sig, describe, lambda k, s: True)
        callers = sorted(affected - set(changed))
        if callers and not ctx.violations:
            s3 = ck.run_stream(ctx, "strlib", 3000 * len(callers), seed_off=2, extra_env={"STRLIB_FUNCS": ",".join(callers)})
            compare(ctx, s3, "callers of the changed functions (%s), 3000 tuples each" % ",".join(callers), sig, describe, lambda k, s: True)
    if missing and not ctx.violations:
        ctx.violation("std/strings.tsh changed: the functions %s are no longer quoted line for line by the transliteration coq/Lib/StrLib.v, e.g. %r\n"
                      "no behavioural difference was found, also not on the exhaustive argument space of these functions\n" % (",".join(changed), missing[0]), found_input=False)
    ctx.cov["distribution"] = s["meta"]
    for k in list(s["cases"])[:3]:
        ctx.samples.append({"call": describe(k, s), "observed": s["impl"].get(k), "go": s["expect"].get(k)})


# ---------------------------------------------------------------- C14
def run_c14(ctx, ck):
    n = 40 if ctx.tier == "quick" else 1500
    s = ck.run_stream(ctx, "history", n)

    def oracle(k, s):
        o = s["impl"].get(k) or ""
        d = dict(t.split("=", 1) for t in o.split(" ") if "=" in t)
        if d.get("fresh") != "1":
            return "two fresh processes returned different text than the in-process history"
        if d.get("relocated") != "1":
            return "a relocated copy of the sources gave different text"
        ops = s["cases"][k].split(" ")[0].split(",")
        res = d.get("calls", "").split(",")
        seen = {}
        for op, r in zip(ops, res):
            if op in seen and seen[op] != r:
                return "call %s returned different results within one history" % op
            seen[op] = r
        return None

    def describe(k, s):
        return "ops=%s over %d programs" % (s["cases"][k].split(" ")[0], s["cases"][k].count(";") + 1)

    compare(ctx, s, "histories of Transpile calls on one transpiler object (md5 of every returned script)", lambda k, s: {}, describe,
            lambda k, s: True, oracle=oracle)
    for k in list(s["cases"])[:3]:
        ctx.samples.append({"history": describe(k, s), "observed": s["impl"].get(k, "")[:200]})


SEM_RULE = ("type-directed generated programs (harness/proggen.go, Safe mode: accepted, terminating, defined behaviour), depth 2-5, 2-6 statements per "
            "block, all statement and expression forms of the fragment; each program is transpiled by the implementation, its script bytes compared "
            "with the model's, executed under /bin/bash and compared (stdout, status, empty stderr) with the reference semantics Sem/Src.v run on "
            "the model's AST; non-trivial = accepted and executed programs; distinct by source hash. Fragment: ")
SEM_TRUST = ["coq/Sem/Src.v is the specification of program meaning (validated on the 124 accepted suite programs and thousands of generated ones against real Bash)",
             "the generator's notion of 'defined behaviour' (harness/proggen.go) bounds what is explored"]

PROPS = {
    "C05": {"run": run_c05,
            "rule": "13 targeted programs (two-digit slice lengths and indices, assignment inside a slice, sequential and nested loops with break/continue, loops in "
                    "functions called from loops, if/else-if chains, multi-digit comparisons, 32-bit arithmetic near the limit, panic) plus generated accepted programs over "
                    "scalars, functions, slices and strings (depth 2-5); every Batch script is executed by the extracted cmd.exe model; non-trivial = decided (reference semantics "
                    "defined, model supports the script, all printed integers below 10 digits)",
            "trusted": ["Cmd/CmdModel.v IS NOT VALIDATED AGAINST cmd.exe (none in the sandbox): it encodes the documented rules and agrees with an independent Python model "
                        "(seeded/C05-m1/cmdmodel.py) on 1518 emitted scripts; a defect shared by both models would go unnoticed",
                        "the 32-bit restriction is approximated by discarding runs that print an integer of 10 or more digits"],
            "assumptions": ["cmd.exe behaves as Cmd/CmdModel.v says for the emitted subset"]},
    "C10": {"run": run_c10,
            "rule": "generated accepted programs (and 5 hand-written ones) x injective renamings: one or two identifiers into a class of names "
                    "(13 classes: ordinary, helper variables, return registers, loop flags, dynamic slice names, helper scratch, helper routines, mangled locals, "
                    "underscore names, shell builtins, shell keywords, environment variables, case variants), all others into fresh ordinary names; both versions run under /bin/bash",
            "trusted": ["the renamer (harness/renamestream.go) preserves the meaning of the source: checked on every case by the reference semantics of both versions"],
            "assumptions": ["Batch half (case folding) is covered by script-byte correspondence only: cmd.exe cannot run here"]},
    "C15": {"run": run_c15,
            "rule": "argument tuples over strings of length 0-4 (0-5 for TrimSpace) on the alphabet {a, b, blank}, counts -2..4, slices of 0-4 elements; quick: 2000 distinct tuples "
                    "spread over the 19 functions with short/empty arguments dense; thorough: every function's space exhaustively below 60000 tuples, 20000 samples above",
            "trusted": ["Lib/GoStrings.v is a specification of Go's strings functions (validated against the real functions on every run)",
                        "Lib/StrLib.v mirrors std/strings.tsh (source lines checked, behaviour compared with the compiled library on every run)"],
            "assumptions": ["ASCII arguments; values without trailing newline in slice elements (C08 known finding)"]},
    "C08": {"run": run_c08,
            "rule": "quick: every (data path, origin, character class) triple with at least one content (2200 programs); thorough: the whole sweep "
                    "(97 characters x 4 positions + 65 special strings) x 13 paths x 4 origins, each executed under /bin/bash with a canary "
                    "file that only executed data could create; plus random double-quoted words against the Bash word model",
            "trusted": ["Sem/Words.v dq is a model of Bash's double-quote expansion (validated on every run by the dqwords stream)",
                        "the expected output of a sweep program is computed by the generator (harness/opaquestream.go)"],
            "assumptions": ["printable ASCII plus newline and tab; NUL and bytes above 127 are not generated"]},
    "C17": {"run": run_c17,
            "rule": "random histories (3-10 operations + final exists of every path) over 2-3 paths and 3-4 contents, one special path or content per case, "
                    "half of them inside a function, values arriving through standard input or as literals; plus the write path of the C08 sweep",
            "trusted": ["Sem/FsSem.v sh_step is a model of printf/cat/test on files (validated on every run: fsh cases)",
                        "expected outputs are computed by the generator's own line store"],
            "assumptions": ["directories of the paths exist; no concurrent writers"]},
    "C18": {"run": run_c18,
            "rule": "random probe invocations: 0-5 arguments of which one is drawn from the C08 contents (literal or computed), pipelines of length 1-3 "
                    "through a line-wrapping filter, exit statuses 0,1,2,7,42,127,200,255 on the last command, captured or direct, top level or in a function",
            "trusted": ["Sem/AppArgs.v arg_words is a model of Bash's handling of one rendered argument (validated on every run: argv cases)",
                        "the probe and filter programs (harness/opaquestream.go)"],
            "assumptions": ["Batch half (_ach helper) is covered only by script-byte correspondence with the model"]},
    "C07": {"run": run_c07,
            "rule": "EXHAUSTIVE table (tools/c07table.py): 96 single-file programs pairing a definition site with a use site over sibling/nested blocks, loop headers, "
                    "function boundaries, every placement of break/continue/return/func, redefinitions, call-before-definition, plus 9 import-boundary programs; "
                    "generated programs with a misplaced name/construct; fuzzed import graphs; every entry distinct and non-trivial",
            "trusted": ["tools/c07table.py encodes lexical scoping (accept iff the use is inside the scope of its definition)"],
            "assumptions": ["Go's terminating-statement analysis is not demanded: a value-returning function must end in return"]},
    "C06": {"run": run_c06,
            "rule": "EXHAUSTIVE table (tools/c06table.py): 58 typed positions x 8 offered types x 5 contexts + arities, program-call arguments and returned values = 2425 single-position programs with "
                    "the verdict Go's rules / the README signatures prescribe, each through both converters; plus generated programs (unsafe mode) of which "
                    "about 15% have exactly one position corrupted; distinct and non-trivial = every entry",
            "trusted": ["tools/c06table.py encodes the typing rules (accept iff offered type is allowed at the position)"],
            "assumptions": ["string ordering, the argument type of panic, slice equality, print of slices are unspecified and not demanded"]},
    "C01": {"run": run_c01, "rule": SEM_RULE + "scalars, operators, all control flow, print/itoa/panic", "trusted": SEM_TRUST,
            "assumptions": ["real Bash 5.2 of this sandbox is the interpreter"]},
    "C02": {"run": run_c02, "rule": SEM_RULE + "functions of any arity, multi-value returns, nested calls, shared identifier pools, globals written in functions, swaps",
            "trusted": SEM_TRUST, "assumptions": ["real Bash 5.2 of this sandbox is the interpreter"]},
    "C03": {"run": run_c03, "rule": SEM_RULE + "slices (aliasing, growth, copy, range) and strings (subscripts, concatenation, range, len)",
            "trusted": SEM_TRUST, "assumptions": ["real Bash 5.2 of this sandbox is the interpreter"]},
    "C04": {"run": run_c04, "rule": SEM_RULE + "functions with side effects (prints, global updates) at operand positions of every statement kind",
            "trusted": SEM_TRUST, "assumptions": ["real Bash 5.2 of this sandbox is the interpreter"]},
    "C16": {"run": run_c16,
            "rule": "generated programs over the whole language (depth 3-5), the suite's programs and accepted near-miss programs of the fuzz stream; every emitted Bash "
                    "script through the real `bash -n`, every Batch script through a structural checker (parentheses, labels, goto/call targets, helpers "
                    "iff used, loop jumps inside their loop); the Coq checkers run on the model's lines and must agree; non-trivial = accepted programs",
            "trusted": ["Back/BashSyntax.v is the model of what bash -n demands (validated against bash -n on every case)",
                        "harness/syntaxcheck.go and Back/BatchSyntax.v state the Batch well-formedness conditions"],
            "assumptions": ["cmd.exe itself is not available; Batch well-formedness is structural"]},
    "C14": {
        "run": run_c14,
        "rule": "histories of 5-10 Transpile calls over 2-4 programs (suite programs, some invalid, and generated import graphs) and both targets on ONE "
                "transpiler object; each history repeated in two fresh processes (new map seeds) and from a second scratch directory; results compared "
                "call by call with the pure model; every history is distinct and non-trivial",
        "assumptions": ["process-level nondeterminism (map iteration seeds) is sampled by fresh processes, not modelled"],
        "trusted": ["coq/Back/Pipeline.v: the transpiler object carries only the converter of the current call"],
    },
    "C09": {
        "run": run_c09,
        "rule": "acyclic import graphs of 2-6 small modules (chains, diamonds, the same file under two aliases, std + local, a sub-directory), each module "
                "with public/private functions and globals, module state, optional top-level code; expected stdout follows from the meaning of modules "
                "(each initialised once, aliases share state); the emitted Bash script is executed; non-trivial = accepted programs",
        "assumptions": ["expected output is computed by the generator from the module semantics (harness/importsstream.go)"],
        "trusted": ["coq/Front/FrontModel.v import handling mirrors evaluateImports/cleanProgram (byte-exact script correspondence)"],
    },
    "C13": {
        "run": run_c13,
        "rule": "token-level edits (delete/duplicate/swap/replace/insert, 1-2 edits) and truncations of the suite's programs, random token/byte soup, "
                "missing main file, import graphs over up to 4 files with cycles, self imports, missing files, repeated and missing aliases, std; "
                "plus every program of the pinned suite; each case through the parser and both converters under recover() and a 10 s watchdog; "
                "non-trivial = every case (all are adversarial or real programs); distinct by case hash",
        "assumptions": ["termination of the Go code is observed (watchdog), not proved; the model's fuel is checked never to run out on the same inputs"],
        "trusted": ["coq/Front/FrontModel.v, coq/Back/*.v mirror parser.go, transpiler.go and both converters (byte-exact correspondence on every case)"],
    },
    "C12": {
        "run": run_c12,
        "rule": "groups of 8 layouts of one program (suite programs, 20% of them made invalid by one token edit, plus import/switch-heavy samples): LF/CRLF, "
                "indentation, trailing blanks, blank/comment-only/block-comment lines at line breaks, blanks or block comments around punctuation, final newline, "
                "leading lines; all variants of a group must give the same verdict and byte-identical Bash and Batch scripts; non-trivial = accepted variants",
        "assumptions": ["re-layouts never glue or split tokens (the mutator only touches separators next to punctuation and existing line breaks)"],
        "trusted": ["the newline normalisation at the start of parser.parse is mirrored by Front/Squeeze.v"],
    },
    "C19": {
        "run": run_c19,
        "rule": "argument vectors over -i/-o/-t (short and long forms, shuffled pair order, repeated targets, dangling option, unknown option/target, "
                "missing/dir input, missing/file output dir, pre-existing output), input names with several dots/none/blanks/subdirectory, accepted and "
                "rejected programs; every case is a distinct history executed by the real tsh binary in a scratch directory; all are non-trivial",
        "assumptions": ["the library result passed to the model is what transpiler.Transpile returns in-process with a fresh converter",
                        "paths are relative, without trailing separators (join_out/base/stem model filepath.Join/Base/Ext on that shape)"],
        "trusted": ["coq/Cli/Tsh.v mirrors tsh.go; the abstract file system (association list) stands for the OS"],
    },
    "C11": {
        "run": run_c11,
        "rule": "token sequences (identifiers incl. trueish/nilx/format, keywords, bools, numbers, interpreted/raw strings with escapes, "
                "UTF-8 and newlines, every operator) rendered with blanks, tabs, line/block comments, LF or CRLF between them; plus named "
                "lexical errors and random bytes; non-trivial = a rendered sequence with at least 4 tokens or an expected error; distinct by source hash",
        "assumptions": ["Go regexp/strconv semantics as transcribed in coq/Lex/LexModel.v", "generator's adjacency rule (safeAdjacent) is a sound under-approximation of sep_ok"],
        "trusted": ["coq/Lex/LexSpec.v (token grammar, render, positions) is the specification a reader must accept"],
    },
}
