NOTES = ("All checks: bin/check <id> rebuilds tables/Coq/OCaml/Go from the current /repo, re-checks the property theorems "
         "(Print Assumptions), runs the correspondence streams (implementation vs extracted model) and the specification-side oracle. "
         "known_findings.json lists recorded defects; DESIGN.md explains everything.")
CLAIMED = {
 "C11": {
  "text": "Round-trip theorem for the lexer model over ALL item sequences (types, Go-unquoted values, row/column), error theorems, "
          "termination, CRLF; the model is Gallina mirroring lexer.go with tables regenerated from the source, tied to the code by "
          "byte-exact token-list correspondence on generated sources and an independent Go-side expectation.",
  "ref": "DESIGN.md section 5/C11",
  "note": "Trusted: Coq kernel, LexSpec.v as the grammar, gotables, extraction+driver, Go regexp/strconv semantics as transcribed; "
          "the model is only as good as the correspondence exercises it. Known: numeric escapes are rejected (finding).",
  "technique": "Coq proof (round trip by induction over item lists) + model/implementation correspondence",
 },
}
NOT_CLAIMED = {}
