NOTES = ("All checks: bin/check <id> rebuilds tables/Coq/OCaml/Go from the current /repo, re-checks the property theorems "
         "(Print Assumptions), runs the correspondence streams (implementation vs extracted model) and the specification-side oracle. "
         "known_findings.json lists recorded defects; DESIGN.md explains everything.")
CLAIMED = {
 "C11": {
  "text": "Round-trip theorem for the lexer model over ALL item sequences (types, Go-unquoted values, row/column), error theorems, "
          "termination, CRLF; the model is Gallina mirroring lexer.go with tables regenerated from the source, tied to the code by "
          "byte-exact token-list correspondence on generated sources and an independent Go-side expectation.",
  "ref": "DESIGN.md section 5/C11",
  "note": "Trusted: Coq kernel, LexSpec.v as the grammar, gotables, extraction+driver, Go regexp/strconv semantics as transcribed; "
          "the model is only as good as the correspondence exercises it. Known: numeric escapes are rejected (finding).",
  "technique": "Coq proof (round trip by induction over item lists) + model/implementation correspondence",
 },
}
CLAIMED["C19"] = {
  "text": "Theorems over ALL argument vectors, file systems and libraries for the model of tsh.go: success writes exactly the library's bytes to "
          "D/<stem>.<ext> per target and nothing else, bad options / failing targets exit non-zero leaving the failing target's file untouched, "
          "target order and repetition are irrelevant. Tied to the code by running the real binary on generated argument vectors and comparing "
          "exit class and directory tree with the extracted model and with a Go-side oracle.",
  "ref": "DESIGN.md section 5/C19",
  "note": "Trusted: Coq kernel; Cli/Tsh.v as mirror of tsh.go (checked by correspondence only); OS file system abstracted as a map; library passed as parameter. "
          "Input named like an output file is overwritten (hypothesis of C19_nothing_else_touched).",
  "technique": "Coq proof over an abstract file system + binary-level correspondence",
}
NOT_CLAIMED = {}
