NOTES = ("All checks: bin/check <id> rebuilds tables/Coq/OCaml/Go from the current /repo, re-checks the property theorems "
         "(Print Assumptions), runs the correspondence streams (implementation vs extracted model) and the specification-side oracle. "
         "known_findings.json lists recorded defects; DESIGN.md explains everything.")
CLAIMED = {
 "C11": {
  "text": "Round-trip theorem for the lexer model over ALL item sequences (types, Go-unquoted values, row/column), error theorems, "
          "termination, CRLF; the model is Gallina mirroring lexer.go with tables regenerated from the source, tied to the code by "
          "byte-exact token-list correspondence on generated sources and an independent Go-side expectation.",
  "ref": "DESIGN.md section 5/C11",
  "note": "Trusted: Coq kernel, LexSpec.v as the grammar, gotables, extraction+driver, Go regexp/strconv semantics as transcribed; "
          "the model is only as good as the correspondence exercises it. Known: numeric escapes are rejected (finding).",
  "technique": "Coq proof (round trip by induction over item lists) + model/implementation correspondence",
 },
}
CLAIMED["C19"] = {
  "text": "Theorems over ALL argument vectors, file systems and libraries for the model of tsh.go: success writes exactly the library's bytes to "
          "D/<stem>.<ext> per target and nothing else, bad options / failing targets exit non-zero leaving the failing target's file untouched, "
          "target order and repetition are irrelevant. Tied to the code by running the real binary on generated argument vectors and comparing "
          "exit class and directory tree with the extracted model and with a Go-side oracle.",
  "ref": "DESIGN.md section 5/C19",
  "note": "Trusted: Coq kernel; Cli/Tsh.v as mirror of tsh.go (checked by correspondence only); OS file system abstracted as a map; library passed as parameter. "
          "Input named like an output file is overwritten (hypothesis of C19_nothing_else_touched).",
  "technique": "Coq proof over an abstract file system + binary-level correspondence",
}
CLAIMED["C13"] = {
  "text": "Model-side theorems: the lexer terminates on every byte string, the pipeline returns a script xor a failure, missing files and lexical errors "
          "are failures; the parser/converter models carry explicit fuel and panic outcomes whose absence is CHECKED (not proved) on adversarial inputs: "
          "token edits, truncations, byte soup, all kinds of import graphs incl. cycles - implementation under recover() and a watchdog, verdict, AST and "
          "script bytes equal to the model's.",
  "ref": "DESIGN.md section 5/C13",
  "note": "PARTIAL: C13_full_statement (fuel adequacy of the parser model, no converter panic) is stated, not proved; termination of the Go code itself is observed, not proved.",
  "technique": "Coq proof (lexer totality, outcome shape) + adversarial model/implementation correspondence",
}
CLAIMED["C12"] = {
  "text": "Theorems: two renderings of one token sequence (any blanks, comments, blank/comment-only lines, CRLF, final newline) give the parser the same "
          "normalised token list; the pipeline depends on the main file only through that list, hence same verdict and byte-identical scripts. "
          "Metamorphic correspondence: 8 layouts per program through the implementation and the model.",
  "ref": "DESIGN.md section 5/C12",
  "note": "Rests on the fix that collapses newline runs before parsing. Known finding: 'a-1' lexes differently from 'a - 1'.",
  "technique": "Coq proof (lexer round trip + token normalisation) + metamorphic correspondence",
}
CLAIMED["C14"] = {
  "text": "Theorem: any history of calls on one transpiler object returns, call by call, the pure function of (sources, target). Checked against the "
          "implementation in-process, in fresh processes and from a relocated tree, and against the model.",
  "ref": "DESIGN.md section 5/C14",
  "note": "PARTIAL on the runtime side: Go map seeds/process state are sampled, not modelled.",
  "technique": "Coq proof over a state machine of calls + history correspondence",
}
CLAIMED["C09"] = {
  "text": "Theorems: the used-function closure contains everything reachable in the recorded call graph, cleanProgram never drops a reachable definition "
          "or any other statement, merging call graphs of imports loses no edge. Import graphs with known module semantics are transpiled by the "
          "implementation and executed under Bash; AST/script bytes equal the model's.",
  "ref": "DESIGN.md section 5/C09",
  "note": "Known finding: a file reached along several import paths/aliases has its top-level code and private globals duplicated. "
          "The alias/prefix part of the property is checked by execution, the theorems cover the removal part.",
  "technique": "Coq proof (reachability closure) + execution of generated module graphs",
}
NOT_CLAIMED = {}
