NOTES = ("All checks: bin/check <id> rebuilds tables/Coq/OCaml/Go from the current /repo, re-checks the property theorems "
         "(Print Assumptions), runs the correspondence streams (implementation vs extracted model) and the specification-side oracle. "
         "known_findings.json lists recorded defects; DESIGN.md explains everything.")
CLAIMED = {
 "C11": {
  "text": "Round-trip theorem for the lexer model over ALL item sequences (types, Go-unquoted values, row/column), error theorems, "
          "termination, CRLF; the model is Gallina mirroring lexer.go with tables regenerated from the source, tied to the code by "
          "byte-exact token-list correspondence on generated sources and an independent Go-side expectation.",
  "ref": "DESIGN.md section 5/C11",
  "note": "Trusted: Coq kernel, LexSpec.v as the grammar, gotables, extraction+driver, Go regexp/strconv semantics as transcribed; "
          "the model is only as good as the correspondence exercises it. Known: numeric escapes are rejected (finding).",
  "technique": "Coq proof (round trip by induction over item lists) + model/implementation correspondence",
 },
}
CLAIMED["C19"] = {
  "text": "Theorems over ALL argument vectors, file systems and libraries for the model of tsh.go: success writes exactly the library's bytes to "
          "D/<stem>.<ext> per target and nothing else, bad options / failing targets exit non-zero leaving the failing target's file untouched, "
          "target order and repetition are irrelevant. Tied to the code by running the real binary on generated argument vectors and comparing "
          "exit class and directory tree with the extracted model and with a Go-side oracle.",
  "ref": "DESIGN.md section 5/C19",
  "note": "Trusted: Coq kernel; Cli/Tsh.v as mirror of tsh.go (checked by correspondence only); OS file system abstracted as a map; library passed as parameter. "
          "Input named like an output file is overwritten (hypothesis of C19_nothing_else_touched).",
  "technique": "Coq proof over an abstract file system + binary-level correspondence",
}
CLAIMED["C13"] = {
  "text": "Model-side theorems: the lexer terminates on every byte string, the pipeline returns a script xor a failure, missing files and lexical errors "
          "are failures; the parser/converter models carry explicit fuel and panic outcomes whose absence is CHECKED (not proved) on adversarial inputs: "
          "token edits, truncations, byte soup, all kinds of import graphs incl. cycles - implementation under recover() and a watchdog, verdict, AST and "
          "script bytes equal to the model's.",
  "ref": "DESIGN.md section 5/C13",
  "note": "PARTIAL: C13_full_statement (fuel adequacy of the parser model, no converter panic) is stated, not proved; termination of the Go code itself is observed, not proved.",
  "technique": "Coq proof (lexer totality, outcome shape) + adversarial model/implementation correspondence",
}
CLAIMED["C12"] = {
  "text": "Theorems: two renderings of one token sequence (any blanks, comments, blank/comment-only lines, CRLF, final newline) give the parser the same "
          "normalised token list; the pipeline depends on the main file only through that list, hence same verdict and byte-identical scripts. "
          "Metamorphic correspondence: 8 layouts per program through the implementation and the model.",
  "ref": "DESIGN.md section 5/C12",
  "note": "Rests on the fix that collapses newline runs before parsing. Known finding: 'a-1' lexes differently from 'a - 1'.",
  "technique": "Coq proof (lexer round trip + token normalisation) + metamorphic correspondence",
}
CLAIMED["C14"] = {
  "text": "Theorem: any history of calls on one transpiler object returns, call by call, the pure function of (sources, target). Checked against the "
          "implementation in-process, in fresh processes and from a relocated tree, and against the model.",
  "ref": "DESIGN.md section 5/C14",
  "note": "PARTIAL on the runtime side: Go map seeds/process state are sampled, not modelled.",
  "technique": "Coq proof over a state machine of calls + history correspondence",
}
CLAIMED["C09"] = {
  "text": "Theorems: the used-function closure contains everything reachable in the recorded call graph, cleanProgram never drops a reachable definition "
          "or any other statement, merging call graphs of imports loses no edge. Import graphs with known module semantics are transpiled by the "
          "implementation and executed under Bash; AST/script bytes equal the model's.",
  "ref": "DESIGN.md section 5/C09",
  "note": "Known finding: a file reached along several import paths/aliases has its top-level code and private globals duplicated. "
          "The alias/prefix part of the property is checked by execution, the theorems cover the removal part.",
  "technique": "Coq proof (reachability closure) + execution of generated module graphs",
}
CLAIMED["C01"] = {
  "text": "Theorems: (1) for ALL call-free scalar expressions (any depth and operator mix, all int64 values) the Bash lines the converter emits compute the "
          "expression's source value in the shell semantics, touching only fresh helpers; (2) simulation for every terminating program of assignments, "
          "simultaneous assignments, prints, if/else-if/else, three-clause and condition-only loops, break, continue and call statements at any nesting depth: the "
          "emitted lines, run by the flat shell machine (Sem/FlatLoop.v), print what the source prints and leave the environment representing the final source "
          "environment; (2b) whole programs end to end (C01_program_preserved): if the extracted interpreter of the source semantics answers out and a decidable "
          "name/fragment check holds, the emitted script run by the flat shell machine prints out - every hypothesis is a computation, evaluated on every generated program; "
          "(3) literal printing/reading round trip, int64 reference arithmetic, script structure. Each simulation theorem has an Example establishing "
          "all its hypotheses for a concrete program. Everything else (slices, strings as sequences, calls as operands, panic) is decided by executing generated "
          "programs: implementation script under /bin/bash vs the reference semantics, script bytes vs the model, flat machine vs /bin/bash.",
  "ref": "DESIGN.md section 10.2 and 5/C01",
  "note": "PARTIAL: the theorems cover the fragment named above; Sem/BashSem.v, Sem/FlatLoop.v (shell semantics of the emitted line templates) and Sem/Src.v are "
          "specifications validated against real Bash on every run.",
  "technique": "Coq proof (semantic preservation by simulation: expressions, statements, conditionals, loops) + execution against a reference interpreter",
}
CLAIMED["C02"] = {
  "text": "Theorems: frame mangling f<k>_<name> is injective and k is fresh per function, globals keep their name, call lines appear in evaluation order; "
          "a function definition (body of the C01 fragment, return anywhere incl. inside branches and loops, or no result) refines the source call: arguments bound in order, globals in place, caller's locals untouched "
          "whatever the names, all returned values in the return registers in order; all functions of a script refine the source calls at every nesting depth "
          "(the script's own lines as call oracle); call statements x = f(..), x, y = f(..), f(..) and simultaneous assignment x, y = y, x are preserved. "
          "Calls as operands/arguments and slices by reference are decided by executing generated programs against Sem/Src.v.",
  "ref": "DESIGN.md section 10.2 and 5/C02",
  "note": "PARTIAL: see the fragment above. Known defects are listed in known_findings.json.",
  "technique": "Coq proof (name isolation, call order, simulation of function definitions and call sites) + execution against a reference interpreter",
}
CLAIMED["C03"] = {
  "text": "Theorems on the reference semantics (17): element assignment grows and zero-fills exactly as stated; copy stores src[i] at every i < len(src) and keeps the tail of a longer destination; a store through a slice id is what every holder of the id reads, no other slice and nothing but the heap changes, new slices get fresh ids; substrings have Go's meaning (whole string, single byte, adjacent substrings concatenate, cut of a concatenation); emitted structure. "
          "Slice/string behaviour of the emitted script decided by executing generated programs (aliasing, growth, copy, range, subscripts) against Sem/Src.v.",
  "ref": "DESIGN.md section 5/C03",
  "note": "PARTIAL: the shell-side representation of slices (eval, _dv<n>) is tested, not proved.",
  "technique": "Coq proof (specification lemmas) + execution against a reference interpreter",
}
CLAIMED["C04"] = {
  "text": "Theorem for ALL programs: the function-call lines of the emitted Bash script are exactly the calls of the program, each once, in the prescribed "
          "order (operands left to right, arguments before calls, both sides of && and ||, all conditions of an if-chain before any branch, "
          "init/increment/condition/body for loops). The trace of side effects is checked by executing programs with effectful functions at operand positions.",
  "ref": "DESIGN.md section 5/C04",
  "note": "The theorem is syntactic (order of emission); that the shell runs lines in order is part of the trusted shell semantics.",
  "technique": "Coq proof by induction over the transpiler traversal + execution traces",
}
CLAIMED["C16"] = {
  "text": "Theorem for ALL programs (Bash): the emitted script is well nested - if/elif/else/fi, while/done, function braces - and every compound list is "
          "non-empty, i.e. passes the syntax checker that models bash -n; validated against the real bash -n on every generated script. Batch: the "
          "structural conditions (parentheses, unique/defined labels, helpers iff used, loop jumps inside the loop) are checked on every emitted script "
          "by two independent checkers (Go on the implementation's text, Coq on the model's lines).",
  "ref": "DESIGN.md section 5/C16",
  "note": "PARTIAL for Batch: the checker is run per script, no theorem over all programs. The Bash theorem assumes every statement emits a command (emits_all), "
          "which is checked on every accepted program.",
  "technique": "Coq proof (stack-machine syntax checker, induction over the traversal) + bash -n / structural validation",
}
CLAIMED["C06"] = {
  "text": "Theorem (bound = the table): for each of the 2425 entries of the position x offered-type x context table the model of the whole pipeline accepts "
          "for both targets exactly when the typing rules allow it, and rejects for both otherwise - decided inside Coq by vm_compute and lifted with "
          "forallb_forall; the recorded findings are stated as C06_known_refuted. The same table and generated single-position mutants are run through "
          "the implementation (both converters) and must agree with the rules and with the model.",
  "ref": "DESIGN.md section 5/C06",
  "note": "PARTIAL: the general soundness statement over all programs is not proved (finite table + sampling). Known findings: nested return of a wrong "
          "type, multi-value call as last of several values.",
  "technique": "Coq proof by exhaustive computation over a stated finite table + implementation run of the same table",
}
CLAIMED["C07"] = {
  "text": "Theorems for every context and token continuation: break/continue without an enclosing loop, return outside a function, func below top level and "
          "an undefined variable are parser errors; the 96-entry scoping table is decided inside Coq on the model of the whole pipeline (bound = the table). "
          "The table (plus import-boundary programs), generated misplacements and fuzzed import graphs run through the implementation and must agree "
          "with lexical scoping and with the model.",
  "ref": "DESIGN.md section 5/C07",
  "note": "PARTIAL: the general soundness/completeness statement over all programs is not proved.",
  "technique": "Coq proof (one-step parser lemmas + exhaustive table by computation) + implementation run of the same table",
}
CLAIMED["C08"] = {
  "text": "Theorems over a model of Bash's double-quote expansion (validated against /bin/bash each run): a value held in a variable arrives unchanged in every "
          "double-quoted word whatever bytes it holds; text embedded in eval strings is scanned exactly once; literals are spliced as they stand, hence opaque exactly "
          "when they avoid the four characters Bash interprets (the rest is refuted and recorded). The full character x position x path x origin sweep runs through "
          "the implementation and /bin/bash with a canary for executed data.",
  "ref": "DESIGN.md section 5/C08",
  "note": "PARTIAL: the statement over all programs and paths is not proved; literals with dollar, backquote, quote, backslash and values ending in a newline are known findings.",
  "technique": "Coq proof (word-level opacity over a Bash expansion model) + exhaustive sweep through the implementation under /bin/bash",
}
CLAIMED["C17"] = {
  "text": "Refinement theorem for every history: the emitted printf/cat/test lines implement the reference line store (same returned values, related file contents) "
          "for contents that are non-empty and do not end in a newline; clause theorems (write-read, append, other paths untouched, exists); the excluded corner is "
          "refuted. Random histories with special paths and contents run through the implementation, /bin/bash and real files, compared with the generator's line store, "
          "the reference semantics and the Bash-level model.",
  "ref": "DESIGN.md section 5/C17",
  "note": "PARTIAL: the step from script lines to sh_step is by correspondence (fsh cases), not by proof.",
  "technique": "Coq proof (refinement over operation histories) + history correspondence on the real file system",
}
CLAIMED["C18"] = {
  "text": "Theorem over a model of Bash's treatment of a rendered argument: for computed values (any bytes) and for literals made of ordinary word characters or neutral text "
          "with a blank, the program receives exactly n words with exactly the given bytes; outside that class the quoting heuristic is refuted (empty literal, "
          "metacharacters, globs: known findings). Probe program runs decide arguments, pipelines, capture and exit status on generated calls.",
  "ref": "DESIGN.md section 5/C18",
  "note": "PARTIAL: pipes, capture and status are decided by runs only; Batch half by script-byte correspondence only.",
  "technique": "Coq proof (argument vector exactness over a Bash word model) + probe-program runs through the implementation",
}
CLAIMED["C15"] = {
  "text": "19 theorems, one per library function, for all arguments: the loop-by-loop transliteration of std/strings.tsh (with the Bash substring semantics) returns what the "
          "specification of the Go function returns (Repeat: non-negative counts). Each run ties the transliteration to the compiled library under /bin/bash and the "
          "specification to Go's real strings package on the same tuples, and checks that the library source is still the one quoted in the model.",
  "ref": "DESIGN.md section 5/C15",
  "note": "The step from the library source to the transliteration is by line-for-line quotation plus behavioural correspondence, not by proof.",
  "technique": "Coq proof (library transliteration = Go specification, all inputs) + differential runs against Go's strings and the compiled library",
}
CLAIMED["C10"] = {
  "text": "Theorems: every name the Bash converter creates lies in a decidable reserved class, mangling is injective, helpers are distinct, so an identifier outside the class "
          "is never captured; the front end accepts names inside the class and capture changes behaviour (refuted with a computed witness; known findings by class). "
          "Generated programs are renamed into ordinary and into every class of reserved / shell names and both versions are executed; the renamer itself is checked by "
          "the reference semantics.",
  "ref": "DESIGN.md section 5/C10",
  "note": "PARTIAL: renaming-commutation of the whole pipeline is not proved; shell builtins/keywords/environment names and the Batch case folding are outside the model.",
  "technique": "Coq proof (reserved-name class, non-capture) + renamed-program runs through the implementation under /bin/bash",
}
CLAIMED["C05"] = {
  "text": "An executable Gallina model of cmd.exe for the emitted subset (extracted) runs the Batch script of targeted and generated programs; its output and exit status must equal "
          "the reference semantics and the Bash run. Theorems about the model's building blocks: 32-bit set /A agrees with the reference arithmetic, IF on printed integers is "
          "numeric (and string-wise on quoted operands: the repaired slice-helper defect), unique labels are found from everywhere, printed integers are read back exactly. "
          "Batch script bytes are identical between model and implementation on every case.",
  "ref": "DESIGN.md section 10.2 / C05",
  "note": "PARTIAL and weaker than the other claims: the cmd.exe model cannot be validated against the real interpreter here; no whole-program preservation theorem.",
  "technique": "Coq model of cmd.exe (extracted) run on emitted scripts against the reference semantics + theorems on its arithmetic, comparison and label search",
}
NOT_CLAIMED = {}
