#!/bin/bash
# Run the repository's pinned test suite (guard off); print a pass/fail summary.
export GOFLAGS=-mod=mod GOPROXY=off GOSUMDB=off GOTOOLCHAIN=local
cd /repo && go test -vet=off -count=1 -timeout 25m ./... 2>&1 | tail -${1:-15}
