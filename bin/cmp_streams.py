#!/usr/bin/env python3
"""debug helper: cmp_streams.py <dir>  -- compares impl.txt and model.txt of a stream directory"""
import sys
d=sys.argv[1]
def rd(p):
    r={}
    for l in open(p):
        q=l.rstrip('\n').split(' ',2)
        r[(q[0],q[1])]=q[2] if len(q)>2 else ''
    return r
impl=rd(d+'/impl.txt'); model=rd(d+'/model.txt'); cases=rd(d+'/cases.txt')
bad=[]
for k in impl:
    a=impl[k]; b=model.get(k,'')
    if k[0]=='emit':
        ak=[x.split('=')[0] for x in a.split(' ')]; bk=[x.split('=')[0] for x in b.split(' ')]
        at=[t for t in a.split(' ') if t.split('=')[0] in bk]; bt=[t for t in b.split(' ') if t.split('=')[0] in ak]
        if at!=bt: bad.append(k)
    elif a!=b: bad.append(k)
print(len(impl),"cases; mismatch",len(bad))
for k in bad[:int(sys.argv[2]) if len(sys.argv)>2 else 3]:
    f=cases[k].split(' ')
    try:
        src=bytes.fromhex(f[1].split(',')[0].split('.')[1]).decode('utf8','replace')
    except Exception: src=cases[k][:200]
    print("----",k); print(src[:1500])
    if k[0]=='emit':
        for key in ('bash','batch'):
            a=[t for t in impl[k].split(' ') if t.startswith(key+'=')]; b=[t for t in model.get(k,'').split(' ') if t.startswith(key+'=')]
            if not b or a==b: continue
            a=a[0][len(key)+1:]; b=b[0][len(key)+1:]
            if a.startswith('ok:') and b.startswith('ok:'):
                A=bytes.fromhex(a[3:]).decode('utf8','replace').replace('\r','').split('\n'); B=bytes.fromhex(b[3:]).decode('utf8','replace').replace('\r','').split('\n')
                for i,(x,y) in enumerate(zip(A,B)):
                    if x!=y: print(key,i,"IMPL :",x); print(key,i,"MODEL:",y); break
                print(key,"lines",len(A),len(B))
            else: print(key,"IMPL",a[:100],"MODEL",b[:100])
    else:
        print("IMPL ",impl[k][:600]); print("MODEL",model.get(k,'')[:600])
