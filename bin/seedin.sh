#!/bin/bash
# usage: bin/seedin.sh <scratch-worktree> <change-id> <property>  -- confirm a sub-agent's change in its worktree (suite passes with it,
# demonstration fails with it and passes without it, patch applies to /repo), store it under seeded/<change-id>, remove the worktree
export GOFLAGS=-mod=mod GOPROXY=off GOSUMDB=off GOTOOLCHAIN=local
wt=$1; id=$2; prop=$3
cd $wt || exit 2
go test -vet=off -count=1 ./... > /tmp/seedin.suite 2>&1; suite=$?
bash _seed/demo.sh > /tmp/seedin.with 2>&1; with=$?
git stash push -q -- lexer parser transpiler converters tsh.go std 2>/dev/null
bash _seed/demo.sh > /tmp/seedin.without 2>&1; without=$?
git stash pop -q
git -C /repo apply --check $wt/_seed/patch.diff; applies=$?
echo "suite=$suite demo_with=$with demo_without=$without applies=$applies"
if [ $suite -eq 0 ] && [ $with -ne 0 ] && [ $without -eq 0 ] && [ $applies -eq 0 ]; then
  mkdir -p /verif/seeded/$id
  rm -rf _seed/tsh _seed/out* _seed/actual* _seed/*.log
  cp -r _seed/. /verif/seeded/$id/
  echo "stored /verif/seeded/$id"
fi
cd /; git -C /repo worktree remove --force $wt; rm -rf $wt
