#!/usr/bin/env python3
"""Regenerates MANIFEST.json from bin/manifest_data.py (claimed checks) and properties.jsonl."""
import json, sys
sys.path.insert(0, "/verif/bin")
import manifest_data as md
ids = [json.loads(l)["id"] for l in open("/verif/properties.jsonl")]
checks = []
for pid in ids:
    if pid in md.CLAIMED:
        c = md.CLAIMED[pid]
        checks.append({
            "property_id": pid,
            "quick_cmd": "bin/check %s --tier quick" % pid,
            "thorough_cmd": "bin/check %s --tier thorough" % pid,
            "evidence_file": "/verif/evidence/%s.json" % pid,
            "replay_cmd_template": "bin/check %s --replay {path}" % pid,
            "engine": "coq-model+correspondence",
            "level_claimed": {"category": "proof", "text": c["text"], "design_ref": c["ref"]},
            "level_note": c["note"],
            "technique": c["technique"],
        })
na = [{"property_id": p, "reason": md.NOT_CLAIMED.get(p, "not built yet in this round: no model, theorem or correspondence stream exists for it so far")} for p in ids if p not in md.CLAIMED]
m = {
    "version": 1,
    "setup_cmd": "bin/build.sh",
    "hooks": {"guard": "verif", "enable": "no hook is needed: the harness is an external Go module with replace github.com/monstermichl/typeshell => /repo (go build, no tags)",
              "baseline_off_cmd": "bin/suite.sh", "source_commits": [], "add_only": True},
    "engines": [{"name": "coq-model+correspondence", "path": "/verif/coq, /verif/harness, /verif/ocaml, /verif/bin/check",
                 "serves_properties": sorted(md.CLAIMED), "kind_free_text": "Coq 8.16 models and theorems; models extracted to OCaml and run against the Go implementation on generated cases (correspondence), property oracle from the specification side"}],
    "checks": checks,
    "not_applicable": na,
    "notes": md.NOTES,
}
json.dump(m, open("/verif/MANIFEST.json", "w"), indent=1)
print("claimed:", sorted(md.CLAIMED))
