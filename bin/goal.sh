#!/bin/bash
# usage: goal.sh <file.v> <line>  -- prints the proof state just before <line>
f=$1; n=$2
d=$(dirname $f); b=$(basename $f .v)
head -n $((n-1)) $f > $d/_Scratch_$b.v
echo "Show. " >> $d/_Scratch_$b.v
cd /verif/coq && coqc -Q . Verif ${d#/verif/coq/}/_Scratch_$b.v 2>&1 | head -${3:-60}
rm -f $d/_Scratch_$b.* $d/._Scratch_$b.aux
