#!/bin/bash
# usage: bin/matrix.sh [mutant-dir-names...]   -- every seeded change against the quick check of its property
# (applies the patch to /repo, runs the check, reverts); writes seeded/MATRIX.tsv
cd /verif
out=seeded/MATRIX.tsv
[ $# -eq 0 ] && { set -- $(ls seeded | grep -E '^C[0-9]+-m[0-9]+$'); : > $out; }
for m in "$@"; do
  p=${m%%-*}
  if ! git -C /repo apply /verif/seeded/$m/patch.diff 2>/dev/null; then echo -e "$m\t$p\tpatch-does-not-apply\t-\t-" >> $out; continue; fi
  t0=$(date +%s)
  /verif/bin/check $p --tier quick > /tmp/matrix.$m.out 2>&1; rc=$?
  t1=$(date +%s)
  git -C /repo checkout -- .
  nv=$(grep -c '^VIOLATION' /tmp/matrix.$m.out)
  nf=$(grep '^VIOLATION' /tmp/matrix.$m.out | grep -vc 'no-failing-input-found')
  first=$(grep -m1 '^VIOLATION' /tmp/matrix.$m.out | sed 's/.*replay=//')
  what=""
  [ -n "$first" ] && what=$(grep -m1 -E '^(what fails|what|correspondence broken|proof obligation|build failed|the )' ${first%% *} 2>/dev/null | cut -c1-160)
  echo -e "$m\t$p\trc=$rc\tviolations=$nv with-failing-input=$nf\t$((t1-t0))s\t$what" >> $out
done
git -C /repo status --short | grep -v '^??' | head -3
