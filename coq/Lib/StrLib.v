(* C15 -- TRANSLITERATION of /repo/std/strings.tsh (as of /repo commit 4ed72b6)
   into Gallina.

   Every library function [F] becomes [lib_f] with the same parameters and an
   [option] result.  The text of each definition follows the source line by
   line: same variables, same loop conditions, same order of tests, same calls
   between library functions.  The source is quoted in front of each function.

   How the constructs of the source are rendered
   ---------------------------------------------
   * string = [bytes], int = [Z], bool = [bool], []string = [list bytes],
     several results = a tuple.
   * [len(s)] = [zlen s];  [a + b] on strings = [a ++ b];  [a == b] on strings
     = [beq a b] (Bash: [ "$a" == "$b" ], a literal comparison inside [ ]).
   * [s[lo:hi]], [s[lo:]], [s[:hi]], [s[i]] = [tsh_sub] (below), which
     reproduces what the emitted Bash does, out-of-range and negative indexes
     included.  It is partial: [None] where Bash reports
     "substring expression < 0".
   * A loop is a [Fixpoint] on a fuel argument [nat] over the variables the
     loop changes; [break] / falling out of the loop returns the values of
     those variables.  Fuel exhausted = [None].  The caller passes the fuel;
     the bound is stated where it is passed.  (StrLibFacts.v shows that [None]
     never comes out for the fuel passed.)
   * [&&] and [||] evaluate both operands in the emitted Bash; the operands in
     this library have no effects and cannot fail, so [&&]/[||] on [bool] is
     exact.  The same holds for the condition of an [else if], which the
     emitted Bash computes before the first [if] is tested.
   * [x, y := F(..)] inside a loop body assigns the EXISTING variable of the
     enclosing function when there is one (TrimLeft: [s, cut := CutPrefix(s, ..)]
     updates the parameter [s]; in Go it would declare a fresh one).  Checked on
     the emitted script: the assignment goes to [f6_s], the parameter.
   * [elems[i] = x] on a slice = [slice_set]; [elems[i]] = [slice_get].
     NOT modelled: the emitted Bash reads a slice element through a command
     substitution  $(eval "printf '%s' \"\${name[i]}\"") , which drops the
     trailing newlines of the element (see NOTES.md); element reads are exact
     here.  Only Join reads slice elements.

   See NOTES.md for what was observed on the real scripts. *)
From Verif Require Import Base.Bytestr Lib.GoStrings.
From Coq Require Import ZArith.

Local Notation "' x <- e ;; k" :=
  (match e with Some x => k | None => None end)
  (at level 200, x pattern, e at level 100, k at level 200, right associativity).

(* ------------------------------------------------------------------ *)
(* Substrings                                                           *)

(* The parser turns
       s[lo:hi]  into  StringSubscript{s, lo, hi-1}
       s[lo:]    into  StringSubscript{s, lo, len(s)-1}
       s[:hi]    into  StringSubscript{s, 0,  hi-1}
       s[i]      into  StringSubscript{s, i,  <none>}  -> the converter gets (i, i)
   and the Bash converter emits   _ssh "<s>" <start> <end>   with

       _ssh() {
       _ls=$((${2}))
       _ll=$(((${3}-${2})+1))
       _ret="${1:${_ls}:${_ll}}"
       }

   so the value is ${s:lo:L} with L = hi - lo  (hi = len(s) for s[lo:],
   hi = i + 1 for s[i]).  Bash (subst.c, verify_substring_values) evaluates
   ${s:offset:length} on a scalar like this, n = length of s:
     1. a negative offset counts from the end: start = offset + n;
        if then start < 0 or start > n the result is the EMPTY STRING (no
        message), whatever the length is;
     2. length >= 0: the result is s[start .. min(start+length, n));
     3. length < 0: it is an offset from the end, end = n + length; if end < 0
        or end < start Bash prints "substring expression < 0", the expansion
        fails and the whole top-level command is abandoned ([None] here);
        otherwise the result is s[start .. end).
   (The text "${1:${_ls}..." is not mistaken for the ${1:-default} form: the
   character after the colon is '$'.)
   Confirmed against Bash 5.2 for all strings "", a, ab, abc, abcd and all
   lo, hi in -7..7 (1125 cases; 136 of them fail). *)
Definition tsh_sub (s : bytes) (lo : Z) (hi : option Z) : option bytes :=
  let n := zlen s in
  let h := match hi with Some h => h | None => n end in
  let L := (h - lo)%Z in
  let start := if (lo <? 0)%Z then (lo + n)%Z else lo in
  if ((start <? 0) || (n <? start))%Z then Some []
  else if (0 <=? L)%Z then Some (firstn (Z.to_nat L) (skipn (Z.to_nat start) s))
  else
    let e := (n + L)%Z in
    if ((e <? 0) || (e <? start))%Z then None
    else Some (firstn (Z.to_nat (e - start)) (skipn (Z.to_nat start) s)).

(* s[i]: the one-byte string at i, or "" when i is outside the string *)
Definition tsh_at (s : bytes) (i : Z) : option bytes := tsh_sub s i (Some (i + 1)%Z).

(* ------------------------------------------------------------------ *)
(* Slices                                                               *)

(* elems[i] (read).  An index outside the slice does not occur in this
   library; it is [None] here. *)
Definition slice_get (elems : list bytes) (i : Z) : option bytes :=
  if (i <? 0)%Z then None else nth_error elems (Z.to_nat i).

(* elems[i] = v  (the converter's helper _sah): positions from the current
   length up to i-1 are filled with the default value "", then position i is
   written.  So i = length appends.  Negative i: [None]. *)
Definition slice_set (elems : list bytes) (i : Z) (v : bytes) : option (list bytes) :=
  if (i <? 0)%Z then None
  else
    let k := Z.to_nat i in
    if (k <? length elems)%nat then Some (firstn k elems ++ v :: skipn (S k) elems)
    else Some (elems ++ repeat [] (k - length elems) ++ [v]).

(* ------------------------------------------------------------------ *)
(* Index

   func Index(s string, substr string) int {
       sul := len(substr)
       ind := -1
       if sul == 0 {
           return 0
       }
       for i := 0; i < len(s); i++ {
           j := 0
           for ; j < sul; j++ {
               si := i + j
               char := s[si]
               if s[i+j] != substr[j] {
                   break
               }
           }
           if j == sul {
               ind = i
               break
           }
       }
       return ind
   }
   Note: s[i+j] is read beyond the end of s when a proper prefix of substr
   matches at the end of s (Index("ab","bc") reads s[2]); Bash yields "". *)

(* inner loop; result: the value of j after the loop *)
Fixpoint index_inner (fuel : nat) (s substr : bytes) (sul i j : Z) : option Z :=
  match fuel with
  | O => None
  | S fuel' =>
      if (j <? sul)%Z then
        let si := (i + j)%Z in
        'char <- tsh_at s si;;
        'a <- tsh_at s (i + j)%Z;;
        'b <- tsh_at substr j;;
        if negb (beq a b) then Some j                           (* break *)
        else index_inner fuel' s substr sul i (j + 1)%Z         (* j++ *)
      else Some j
  end.

(* outer loop; result: the value of ind after the loop *)
Fixpoint index_outer (fuel : nat) (s substr : bytes) (sul i ind : Z) : option Z :=
  match fuel with
  | O => None
  | S fuel' =>
      if (i <? zlen s)%Z then
        let j := 0%Z in
        (* j runs from 0 to at most sul: sul + 1 tests *)
        'j <- index_inner (S (length substr)) s substr sul i j;;
        if (j =? sul)%Z then
          let ind := i in Some ind                              (* break *)
        else index_outer fuel' s substr sul (i + 1)%Z ind       (* i++ *)
      else Some ind
  end.

Definition lib_index (s substr : bytes) : option Z :=
  let sul := zlen substr in
  let ind := (-1)%Z in
  if (sul =? 0)%Z then Some 0%Z
  else
    (* i runs from 0 to at most len(s): len(s) + 1 tests *)
    'ind <- index_outer (S (length s)) s substr sul 0%Z ind;;
    Some ind.

(* ------------------------------------------------------------------ *)
(* func Contains(s string, substr string) bool {
       return Index(s, substr) >= 0
   } *)
Definition lib_contains (s substr : bytes) : option bool :=
  'r <- lib_index s substr;;
  Some (r >=? 0)%Z.

(* ------------------------------------------------------------------ *)
(* func Join(elems []string, sep string) string {
       s := ""
       l := len(elems)
       for i := 0; i < l; i++ {
           s = s + elems[i]
           if i < (l - 1) {
               s = s + sep
           }
       }
       return s
   } *)
Fixpoint join_loop (fuel : nat) (elems : list bytes) (sep : bytes) (l i : Z) (s : bytes)
  : option bytes :=
  match fuel with
  | O => None
  | S fuel' =>
      if (i <? l)%Z then
        'e <- slice_get elems i;;
        let s := s ++ e in
        let s := if (i <? l - 1)%Z then s ++ sep else s in
        join_loop fuel' elems sep l (i + 1)%Z s
      else Some s
  end.

Definition lib_join (elems : list bytes) (sep : bytes) : option bytes :=
  let s := [] in
  let l := Z.of_nat (length elems) in
  join_loop (S (length elems)) elems sep l 0%Z s.

(* ------------------------------------------------------------------ *)
(* func HasPrefix(s string, prefix string) bool {
       l := len(prefix)
       if len(s) >= l {
           return s[:l] == prefix
       }
       return false
   } *)
Definition lib_has_prefix (s prefix : bytes) : option bool :=
  let l := zlen prefix in
  if (zlen s >=? l)%Z then
    'x <- tsh_sub s 0%Z (Some l);;
    Some (beq x prefix)
  else Some false.

(* ------------------------------------------------------------------ *)
(* func HasSuffix(s string, suffix string) bool {
       l := len(suffix)
       if l == 0 {
           return true
       }
       if len(s) >= l {
           l *= -1
           return s[l:] == suffix
       }
       return false
   } *)
Definition lib_has_suffix (s suffix : bytes) : option bool :=
  let l := zlen suffix in
  if (l =? 0)%Z then Some true
  else if (zlen s >=? l)%Z then
    let l := (l * -1)%Z in
    'x <- tsh_sub s l None;;
    Some (beq x suffix)
  else Some false.

(* ------------------------------------------------------------------ *)
(* func Count(s string, substr string) int {
       lenS := len(s)
       lenSub := len(substr)
       if lenSub == 0 {
           return lenS + 1
       }
       c := 0
       for i := 0; i < lenS; {
           if HasPrefix(s[i:], substr) {
               c++
               i += lenSub
           } else {
               i++
           }
       }
       return c
   } *)
Fixpoint count_loop (fuel : nat) (s substr : bytes) (lenS lenSub i c : Z) : option Z :=
  match fuel with
  | O => None
  | S fuel' =>
      if (i <? lenS)%Z then
        'x <- tsh_sub s i None;;
        'hp <- lib_has_prefix x substr;;
        if hp then count_loop fuel' s substr lenS lenSub (i + lenSub)%Z (c + 1)%Z
        else count_loop fuel' s substr lenS lenSub (i + 1)%Z c
      else Some c
  end.

Definition lib_count (s substr : bytes) : option Z :=
  let lenS := zlen s in
  let lenSub := zlen substr in
  if (lenSub =? 0)%Z then Some (lenS + 1)%Z
  else
    let c := 0%Z in
    (* lenSub >= 1 here, so i grows by at least 1 per round *)
    count_loop (S (length s)) s substr lenS lenSub 0%Z c.

(* ------------------------------------------------------------------ *)
(* func Split(s string, sep string) []string {
       sLen := len(s)
       sepLen := len(sep)
       elems := []string{}
       if sLen > 0 || sepLen > 0 {
           startI := 0
           endI := 0
           elIndex := 0
           boundary := len(s)
           if sLen > 0 {
               boundary -= sepLen
           }
           for endI <= boundary {
               if s[endI:endI+sepLen] == sep {
                   sepEmpty := sepLen == 0
                   if sepEmpty {
                       endI++
                   }
                   if !sepEmpty || endI <= boundary {
                       elems[elIndex] = s[startI:endI]
                       endI += sepLen
                       startI = endI
                   }
                   elIndex++
               } else {
                   endI++
               }
           }
           if sepLen > 0 {
               elems[elIndex] = s[startI:]
           }
       }
       return elems
   } *)
(* the loop; result: startI, elIndex and elems after the loop *)
Fixpoint split_loop (fuel : nat) (s sep : bytes) (sepLen boundary startI endI elIndex : Z)
  (elems : list bytes) : option (Z * Z * list bytes) :=
  match fuel with
  | O => None
  | S fuel' =>
      if (endI <=? boundary)%Z then
        'x <- tsh_sub s endI (Some (endI + sepLen)%Z);;
        if beq x sep then
          let sepEmpty := (sepLen =? 0)%Z in
          let endI := if sepEmpty then (endI + 1)%Z else endI in
          if negb sepEmpty || (endI <=? boundary)%Z then
            'y <- tsh_sub s startI (Some endI);;
            'elems <- slice_set elems elIndex y;;
            let endI := (endI + sepLen)%Z in
            let startI := endI in
            let elIndex := (elIndex + 1)%Z in
            split_loop fuel' s sep sepLen boundary startI endI elIndex elems
          else
            let elIndex := (elIndex + 1)%Z in
            split_loop fuel' s sep sepLen boundary startI endI elIndex elems
        else
          split_loop fuel' s sep sepLen boundary startI (endI + 1)%Z elIndex elems
      else Some (startI, elIndex, elems)
  end.

Definition lib_split (s sep : bytes) : option (list bytes) :=
  let sLen := zlen s in
  let sepLen := zlen sep in
  let elems : list bytes := [] in
  if ((sLen >? 0) || (sepLen >? 0))%Z then
    let startI := 0%Z in
    let endI := 0%Z in
    let elIndex := 0%Z in
    let boundary := zlen s in
    let boundary := if (sLen >? 0)%Z then (boundary - sepLen)%Z else boundary in
    (* endI grows by at least 1 per round and the loop stops above boundary <= len(s) *)
    '(startI, elIndex, elems) <-
       split_loop (S (S (length s))) s sep sepLen boundary startI endI elIndex elems;;
    if (sepLen >? 0)%Z then
      'y <- tsh_sub s startI None;;
      'elems <- slice_set elems elIndex y;;
      Some elems
    else Some elems
  else Some elems.

(* ------------------------------------------------------------------ *)
(* func Repeat(s string, count int) string {
       new := ""
       for i := 0; i < count; i++ {
           new += s
       }
       return new
   } *)
Fixpoint repeat_loop (fuel : nat) (s : bytes) (count i : Z) (new : bytes) : option bytes :=
  match fuel with
  | O => None
  | S fuel' =>
      if (i <? count)%Z then repeat_loop fuel' s count (i + 1)%Z (new ++ s)
      else Some new
  end.

Definition lib_repeat (s : bytes) (count : Z) : option bytes :=
  let new := [] in
  repeat_loop (S (Z.to_nat count)) s count 0%Z new.

(* ------------------------------------------------------------------ *)
(* func Replace(s string, old string, new string, n int) string {
       res := ""
       rep := 0
       i := 0
       lenOld := len(old)
       lenNew := len(new)
       if lenOld == 0 && n != 0 {
           res = new
           rep++
       }
       for i < len(s) && (rep < n || n < 0) {
           c := s[i]
           if lenOld == 0 {
               res += c + new
               i++
           } else if HasPrefix(s[i:], old) {
               res += new
               i += lenOld
           } else {
               res += c
               i++
               continue
           }
           rep++
       }
       return res + s[i:]
   } *)
Fixpoint replace_loop (fuel : nat) (s old new : bytes) (n lenOld : Z) (res : bytes) (rep i : Z)
  : option (bytes * Z) :=                                       (* res and i after the loop *)
  match fuel with
  | O => None
  | S fuel' =>
      if ((i <? zlen s) && ((rep <? n) || (n <? 0)))%Z then
        'c <- tsh_at s i;;
        if (lenOld =? 0)%Z then
          replace_loop fuel' s old new n lenOld (res ++ (c ++ new)) (rep + 1)%Z (i + 1)%Z
        else
          'x <- tsh_sub s i None;;
          'hp <- lib_has_prefix x old;;
          if hp then
            replace_loop fuel' s old new n lenOld (res ++ new) (rep + 1)%Z (i + lenOld)%Z
          else
            replace_loop fuel' s old new n lenOld (res ++ c) rep (i + 1)%Z     (* continue *)
      else Some (res, i)
  end.

Definition lib_replace (s old new : bytes) (n : Z) : option bytes :=
  let res : bytes := [] in
  let rep := 0%Z in
  let i := 0%Z in
  let lenOld := zlen old in
  let lenNew := zlen new in
  let '(res, rep) :=
    if (lenOld =? 0)%Z && negb (n =? 0)%Z then (new, (rep + 1)%Z) else (res, rep) in
  (* i grows by at least 1 per round (lenOld >= 1 in the middle branch) *)
  '(res, i) <- replace_loop (S (length s)) s old new n lenOld res rep i;;
  'x <- tsh_sub s i None;;
  Some (res ++ x).

(* ------------------------------------------------------------------ *)
(* func ReplaceAll(s string, old string, new string) string {
       return Replace(s, old, new, -1)
   } *)
Definition lib_replace_all (s old new : bytes) : option bytes :=
  lib_replace s old new (-1)%Z.

(* ------------------------------------------------------------------ *)
(* func CutPrefix(s string, prefix string) (string, bool) {
       if HasPrefix(s, prefix) {
           return s[len(prefix):], true
       }
       return s, false
   } *)
Definition lib_cut_prefix (s prefix : bytes) : option (bytes * bool) :=
  'hp <- lib_has_prefix s prefix;;
  if hp then
    'x <- tsh_sub s (zlen prefix) None;;
    Some (x, true)
  else Some (s, false).

(* ------------------------------------------------------------------ *)
(* func CutSuffix(s string, suffix string) (string, bool) {
       if HasSuffix(s, suffix) {
           return s[0 : len(s)-len(suffix)], true
       }
       return s, false
   } *)
Definition lib_cut_suffix (s suffix : bytes) : option (bytes * bool) :=
  'hs <- lib_has_suffix s suffix;;
  if hs then
    'x <- tsh_sub s 0%Z (Some (zlen s - zlen suffix)%Z);;
    Some (x, true)
  else Some (s, false).

(* ------------------------------------------------------------------ *)
(* func Cut(s string, sep string) (string, string, bool) {
       i := Index(s, sep)
       if i >= 0 {
           return s[0:i], s[i+len(sep):], true
       }
       return s, "", false
   } *)
Definition lib_cut (s sep : bytes) : option (bytes * bytes * bool) :=
  'i <- lib_index s sep;;
  if (i >=? 0)%Z then
    'x <- tsh_sub s 0%Z (Some i);;
    'y <- tsh_sub s (i + zlen sep)%Z None;;
    Some (x, y, true)
  else Some (s, [], false).

(* ------------------------------------------------------------------ *)
(* func TrimPrefix(s string, prefix string) string {
       s, c := CutPrefix(s, prefix)
       return s
   }
   func TrimSuffix(s string, suffix string) string {
       s, c := CutSuffix(s, suffix)
       return s
   } *)
Definition lib_trim_prefix (s prefix : bytes) : option bytes :=
  '(s, c) <- lib_cut_prefix s prefix;;
  Some s.

Definition lib_trim_suffix (s suffix : bytes) : option bytes :=
  '(s, c) <- lib_cut_suffix s suffix;;
  Some s.

(* ------------------------------------------------------------------ *)
(* func TrimLeft(s string, cutset string) string {
       lenCS := len(cutset)
       if len(s) > 0 && lenCS > 0 {
           for {
               trimmed := false
               for i := 0; i < lenCS; i++ {
                   lenS := len(s)
                   s, cut := CutPrefix(s, cutset[i])
                   if cut {
                       trimmed = true
                   }
               }
               if !trimmed {
                   break
               }
           }
       }
       return s
   }
   TrimRight is the same text with CutSuffix.  The two are written once here,
   with the cutting function as a parameter. *)
Section TrimLoops.
  Variable cutfn : bytes -> bytes -> option (bytes * bool).

  (* inner loop; result: s and trimmed after the loop *)
  Fixpoint trim_inner (fuel : nat) (cutset : bytes) (lenCS i : Z) (s : bytes) (trimmed : bool)
    : option (bytes * bool) :=
    match fuel with
    | O => None
    | S fuel' =>
        if (i <? lenCS)%Z then
          let lenS := zlen s in
          'ci <- tsh_at cutset i;;
          '(s, cut) <- cutfn s ci;;
          let trimmed := if cut then true else trimmed in
          trim_inner fuel' cutset lenCS (i + 1)%Z s trimmed
        else Some (s, trimmed)
    end.

  (* outer loop [for { ... }]; result: s after the loop *)
  Fixpoint trim_outer (fuel : nat) (cutset : bytes) (lenCS : Z) (s : bytes) : option bytes :=
    match fuel with
    | O => None
    | S fuel' =>
        let trimmed := false in
        (* i runs from 0 to lenCS: lenCS + 1 tests *)
        '(s, trimmed) <- trim_inner (S (length cutset)) cutset lenCS 0%Z s trimmed;;
        if negb trimmed then Some s                             (* break *)
        else trim_outer fuel' cutset lenCS s
    end.

  Definition trim_with (s cutset : bytes) : option bytes :=
    let lenCS := zlen cutset in
    if ((zlen s >? 0) && (lenCS >? 0))%Z then
      (* every round but the last removes at least one byte of s *)
      trim_outer (S (length s)) cutset lenCS s
    else Some s.
End TrimLoops.

Definition lib_trim_left (s cutset : bytes) : option bytes := trim_with lib_cut_prefix s cutset.

(* func TrimRight(s string, cutset string) string {
       lenCS := len(cutset)
       if len(s) > 0 && lenCS > 0 {
           for {
               trimmed := false
               for i := 0; i < lenCS; i++ {
                   lenS := len(s)
                   s, cut := CutSuffix(s, cutset[i])
                   if cut {
                       trimmed = true
                   }
               }
               if !trimmed {
                   break
               }
           }
       }
       return s
   } *)
Definition lib_trim_right (s cutset : bytes) : option bytes := trim_with lib_cut_suffix s cutset.

(* ------------------------------------------------------------------ *)
(* func Trim(s string, cutset string) string {
       return TrimRight(TrimLeft(s, cutset), cutset)
   } *)
Definition lib_trim (s cutset : bytes) : option bytes :=
  'x <- lib_trim_left s cutset;;
  lib_trim_right x cutset.

(* ------------------------------------------------------------------ *)
(* func TrimSpace(s string) string {
       return Trim(s, "\t\n\v\f\r ")
   }
   The lexer turns the escapes into the bytes 9, 10, 11, 12, 13 and the emitted
   script contains these bytes literally between double quotes. *)
Definition lib_trim_space (s : bytes) : option bytes :=
  lib_trim s [9; 10; 11; 12; 13; 32].
