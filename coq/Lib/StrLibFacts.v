(* C15 -- the transliterated library (StrLib.v) returns what Go's strings
   package returns (GoStrings.v), for ALL arguments.

   Each theorem has the form   lib_f args = Some (go_f args) ;  in particular
   the fuel passed inside lib_f always suffices and no substring expression of
   the library fails in Bash.  Exceptions, where the library differs from Go
   (see NOTES.md): Replace with old = "" and n = 0, and Split. *)
From Verif Require Import Base.Bytestr Lib.GoStrings Lib.StrLib.
From Coq Require Import ZArith ZifyBool ZifyNat.

(* ------------------------------------------------------------------ *)
(* Lists                                                                *)

Lemma skipn_cons_inv (i : nat) (s : bytes) c t :
  skipn i s = c :: t -> skipn (S i) s = t /\ (i < length s)%nat.
Proof.
  revert s. induction i as [|i IH]; intros s H.
  - cbn [skipn] in H. subst s. split; [reflexivity|cbn [length]; lia].
  - destruct s as [|x s]; [discriminate|]. cbn [skipn] in H.
    destruct (IH s H) as [H1 H2]. split; [exact H1|cbn [length]; lia].
Qed.

Lemma skipn_nil_inv (i : nat) (s : bytes) : skipn i s = [] -> (length s <= i)%nat.
Proof.
  revert s. induction i as [|i IH]; intros s H.
  - cbn [skipn] in H. subst s. cbn [length]. lia.
  - destruct s as [|x s]; [cbn [length]; lia|]. cbn [skipn] in H.
    specialize (IH s H). cbn [length]. lia.
Qed.

Lemma skipn_skipn_add (i j : nat) (s : bytes) : skipn j (skipn i s) = skipn (i + j) s.
Proof.
  revert s. induction i as [|i IH]; intros s; [reflexivity|].
  destruct s as [|x s]; [rewrite !skipn_nil; reflexivity|]. cbn [skipn Nat.add]. apply IH.
Qed.

Lemma skipn_app_exact (a b : bytes) : skipn (length a) (a ++ b) = b.
Proof. induction a as [|x a IH]; [reflexivity|exact IH]. Qed.

Lemma firstn_app_exact (a b : bytes) : firstn (length a) (a ++ b) = a.
Proof. induction a as [|x a IH]; [destruct b; reflexivity|cbn [length firstn app]; f_equal; exact IH]. Qed.

(* ------------------------------------------------------------------ *)
(* Substrings that stay inside the string                               *)

Lemma zlen_nonneg s : (0 <= zlen s)%Z.
Proof. unfold zlen. lia. Qed.

(* deciding the integer tests of [tsh_sub] from the hypotheses *)
Ltac ztest b v :=
  replace b with v by (unfold zlen in *; cbn [length] in *; lia); cbv iota; cbn [orb andb].

(* s[lo:hi] with 0 <= lo <= hi and lo <= len(s) *)
Lemma tsh_sub_mid s lo hi :
  (0 <= lo <= hi)%Z -> (lo <= zlen s)%Z ->
  tsh_sub s lo (Some hi) = Some (firstn (Z.to_nat (hi - lo)) (skipn (Z.to_nat lo) s)).
Proof.
  intros H1 H2. unfold tsh_sub. cbv zeta.
  ztest (lo <? 0)%Z false. ztest (lo <? 0)%Z false. ztest (zlen s <? lo)%Z false.
  ztest (0 <=? hi - lo)%Z true. reflexivity.
Qed.

(* s[:hi] *)
Lemma tsh_sub_prefix s hi :
  (0 <= hi)%Z -> tsh_sub s 0%Z (Some hi) = Some (firstn (Z.to_nat hi) s).
Proof.
  intros H. rewrite tsh_sub_mid by (pose proof (zlen_nonneg s); lia).
  rewrite Z.sub_0_r. reflexivity.
Qed.

(* s[lo:] with 0 <= lo <= len(s) *)
Lemma tsh_sub_from s lo :
  (0 <= lo <= zlen s)%Z -> tsh_sub s lo None = Some (skipn (Z.to_nat lo) s).
Proof.
  intros H. unfold tsh_sub. cbv zeta.
  ztest (lo <? 0)%Z false. ztest (lo <? 0)%Z false. ztest (zlen s <? lo)%Z false.
  ztest (0 <=? zlen s - lo)%Z true.
  f_equal. apply firstn_all2. rewrite skipn_length. unfold zlen in *. lia.
Qed.

(* s[-l:] with 0 < l <= len(s): the last l bytes *)
Lemma tsh_sub_last s l :
  (0 < l <= zlen s)%Z ->
  tsh_sub s (l * -1)%Z None = Some (skipn (length s - Z.to_nat l) s).
Proof.
  intros H. unfold tsh_sub. cbv zeta.
  ztest (l * -1 <? 0)%Z true. ztest (l * -1 + zlen s <? 0)%Z false.
  ztest (zlen s <? l * -1 + zlen s)%Z false.
  ztest (0 <=? zlen s - l * -1)%Z true.
  replace (Z.to_nat (l * -1 + zlen s)) with (length s - Z.to_nat l)%nat by (unfold zlen in *; lia).
  f_equal. apply firstn_all2. rewrite skipn_length. unfold zlen in *. lia.
Qed.

(* s[i] for 0 <= i, also beyond the end: the first byte of s[i:], if any *)
Lemma tsh_at_nonneg s i :
  (0 <= i)%Z -> tsh_at s i = Some (firstn 1 (skipn (Z.to_nat i) s)).
Proof.
  intros H. unfold tsh_at, tsh_sub. cbv zeta.
  ztest (i <? 0)%Z false. ztest (i <? 0)%Z false.
  destruct (Z.ltb_spec (zlen s) i) as [Hm|Hm].
  - rewrite skipn_all2 by (unfold zlen in *; lia). reflexivity.
  - ztest (0 <=? i + 1 - i)%Z true.
    replace (i + 1 - i)%Z with 1%Z by lia. reflexivity.
Qed.

(* ------------------------------------------------------------------ *)
(* Prefixes and suffixes                                                *)

Lemma has_prefix_length p s : has_prefix p s = true -> (length p <= length s)%nat.
Proof.
  intros H. apply has_prefix_true in H as [r Hr]. subst s. rewrite app_length. lia.
Qed.

Lemma has_prefix_firstn p s : has_prefix p s = beq (firstn (length p) s) p.
Proof.
  unfold has_prefix. revert s. induction p as [|x p IH]; intros s; [reflexivity|].
  destruct s as [|y s]; [reflexivity|]. cbn [strip_prefix length firstn beq].
  rewrite (N.eqb_sym y x). destruct (x =? y); [apply IH|reflexivity].
Qed.

Lemma strip_prefix_skipn p s r : strip_prefix p s = Some r -> skipn (length p) s = r.
Proof. intros H. apply strip_prefix_some in H. subst s. apply skipn_app_exact. Qed.

Lemma has_prefix_strip p s :
  has_prefix p s = true -> strip_prefix p s = Some (skipn (length p) s).
Proof.
  unfold has_prefix. destruct (strip_prefix p s) as [r|] eqn:E; [|discriminate].
  intros _. rewrite (strip_prefix_skipn _ _ _ E). reflexivity.
Qed.

Lemma has_prefix_false_strip p s : has_prefix p s = false -> strip_prefix p s = None.
Proof. unfold has_prefix. destruct (strip_prefix p s); [discriminate|reflexivity]. Qed.

Theorem lib_has_prefix_correct s prefix :
  lib_has_prefix s prefix = Some (go_has_prefix s prefix).
Proof.
  unfold lib_has_prefix, go_has_prefix.
  destruct (Z.geb_spec (zlen s) (zlen prefix)) as [H|H].
  - rewrite tsh_sub_prefix by apply zlen_nonneg.
    unfold zlen. rewrite Nat2Z.id. rewrite has_prefix_firstn. reflexivity.
  - destruct (has_prefix prefix s) eqn:E; [|reflexivity].
    apply has_prefix_length in E. unfold zlen in H. lia.
Qed.

Theorem lib_has_suffix_correct s suffix :
  lib_has_suffix s suffix = Some (go_has_suffix s suffix).
Proof.
  unfold lib_has_suffix, go_has_suffix.
  destruct (Z.eqb_spec (zlen suffix) 0) as [H0|H0].
  - destruct suffix as [|x r]; [|unfold zlen in H0; cbn [length] in H0; lia].
    cbn [length]. rewrite Nat.sub_0_r, skipn_all. reflexivity.
  - destruct (Z.geb_spec (zlen s) (zlen suffix)) as [H|H].
    + rewrite tsh_sub_last by (pose proof (zlen_nonneg suffix); lia).
      unfold zlen in *. rewrite Nat2Z.id.
      replace (length suffix <=? length s)%nat with true by (symmetry; apply Nat.leb_le; lia).
      reflexivity.
    + replace (length suffix <=? length s)%nat with false
        by (symmetry; apply Nat.leb_gt; unfold zlen in H; lia).
      reflexivity.
Qed.

Theorem lib_cut_prefix_correct s prefix :
  lib_cut_prefix s prefix = Some (go_cut_prefix s prefix).
Proof.
  unfold lib_cut_prefix, go_cut_prefix. rewrite lib_has_prefix_correct. unfold go_has_prefix.
  destruct (has_prefix prefix s) eqn:E.
  - pose proof (has_prefix_length _ _ E) as Hl.
    rewrite tsh_sub_from by (unfold zlen; lia).
    rewrite (has_prefix_strip _ _ E). unfold zlen. rewrite Nat2Z.id. reflexivity.
  - rewrite (has_prefix_false_strip _ _ E). reflexivity.
Qed.

Theorem lib_cut_suffix_correct s suffix :
  lib_cut_suffix s suffix = Some (go_cut_suffix s suffix).
Proof.
  unfold lib_cut_suffix, go_cut_suffix. rewrite lib_has_suffix_correct.
  destruct (go_has_suffix s suffix) eqn:E; [|reflexivity].
  apply go_has_suffix_true in E as [a Ha].
  assert (Hl : (length suffix <= length s)%nat) by (subst s; rewrite app_length; lia).
  rewrite tsh_sub_prefix by (unfold zlen; lia).
  unfold zlen. replace (Z.to_nat (Z.of_nat (length s) - Z.of_nat (length suffix)))
    with (length s - length suffix)%nat by lia.
  reflexivity.
Qed.

Theorem lib_trim_prefix_correct s prefix :
  lib_trim_prefix s prefix = Some (go_trim_prefix s prefix).
Proof.
  unfold lib_trim_prefix, go_trim_prefix. rewrite lib_cut_prefix_correct.
  destruct (go_cut_prefix s prefix) as [r c]. reflexivity.
Qed.

Theorem lib_trim_suffix_correct s suffix :
  lib_trim_suffix s suffix = Some (go_trim_suffix s suffix).
Proof.
  unfold lib_trim_suffix, go_trim_suffix. rewrite lib_cut_suffix_correct.
  destruct (go_cut_suffix s suffix) as [r c]. reflexivity.
Qed.

(* ------------------------------------------------------------------ *)
(* Repeat                                                               *)

Lemma repeat_loop_spec s count :
  forall (k fuel : nat) (i : Z) (new : bytes),
    (0 <= i)%Z -> (i + Z.of_nat k = count)%Z -> (k < fuel)%nat ->
    repeat_loop fuel s count i new = Some (new ++ concat (repeat s k)).
Proof.
  induction k as [|k IH]; intros fuel i new Hi Hk Hf.
  - destruct fuel as [|fuel]; [lia|]. cbn [repeat_loop].
    ztest (i <? count)%Z false. cbn [repeat concat]. rewrite app_nil_r. reflexivity.
  - destruct fuel as [|fuel]; [lia|]. cbn [repeat_loop].
    ztest (i <? count)%Z true. rewrite (IH fuel (i + 1)%Z) by lia.
    cbn [repeat concat]. rewrite app_assoc. reflexivity.
Qed.

Theorem lib_repeat_correct s count :
  (0 <= count)%Z -> lib_repeat s count = Some (go_repeat s count).
Proof.
  intros H. unfold lib_repeat, go_repeat.
  rewrite (repeat_loop_spec s count (Z.to_nat count)) by lia. reflexivity.
Qed.

(* ------------------------------------------------------------------ *)
(* Join                                                                 *)

Lemma join_loop_spec sep :
  forall (rest pre : list bytes) (fuel : nat) (acc : bytes),
    (length rest < fuel)%nat ->
    join_loop fuel (pre ++ rest) sep (Z.of_nat (length (pre ++ rest))) (Z.of_nat (length pre)) acc
    = Some (acc ++ join sep rest).
Proof.
  induction rest as [|e rest IH]; intros pre fuel acc Hf.
  - destruct fuel as [|fuel]; [lia|]. cbn [join_loop].
    rewrite app_nil_r. rewrite Z.ltb_irrefl. cbn [join]. rewrite app_nil_r. reflexivity.
  - destruct fuel as [|fuel]; [cbn [length] in Hf; lia|]. cbn [join_loop].
    assert (Hlen : length (pre ++ e :: rest) = (length pre + S (length rest))%nat)
      by (rewrite app_length; reflexivity).
    ztest (Z.of_nat (length pre) <? Z.of_nat (length (pre ++ e :: rest)))%Z true.
    unfold slice_get. ztest (Z.of_nat (length pre) <? 0)%Z false.
    rewrite Nat2Z.id. rewrite nth_error_app2 by lia. rewrite Nat.sub_diag. cbn [nth_error].
    replace (pre ++ e :: rest) with ((pre ++ [e]) ++ rest) by (rewrite <- app_assoc; reflexivity).
    replace (Z.of_nat (length pre) + 1)%Z with (Z.of_nat (length (pre ++ [e])))
      by (rewrite app_length; cbn [length]; lia).
    assert (Hlen2 : length ((pre ++ [e]) ++ rest) = (length pre + S (length rest))%nat)
      by (rewrite !app_length; cbn [length]; lia).
    destruct rest as [|e2 rest]; cbn [length] in Hlen2.
    + ztest (Z.of_nat (length pre) <? Z.of_nat (length ((pre ++ [e]) ++ [])) - 1)%Z false.
      rewrite IH by (cbn [length] in *; lia). cbn [join]. rewrite app_nil_r. reflexivity.
    + ztest (Z.of_nat (length pre) <? Z.of_nat (length ((pre ++ [e]) ++ e2 :: rest)) - 1)%Z true.
      rewrite IH by (cbn [length] in *; lia).
      change (join sep (e :: e2 :: rest)) with (e ++ sep ++ join sep (e2 :: rest)).
      rewrite <- !app_assoc. reflexivity.
Qed.

Theorem lib_join_correct elems sep :
  lib_join elems sep = Some (go_join elems sep).
Proof.
  unfold lib_join, go_join.
  exact (join_loop_spec sep elems [] (S (length elems)) [] (Nat.lt_succ_diag_r _)).
Qed.

(* ------------------------------------------------------------------ *)
(* Index, Contains, Cut                                                 *)

Lemma has_prefix_nil s : has_prefix [] s = true.
Proof. reflexivity. Qed.

Lemma has_prefix_cons_nil d p : has_prefix (d :: p) [] = false.
Proof. reflexivity. Qed.

Lemma has_prefix_cons d p c t :
  has_prefix (d :: p) (c :: t) = (c =? d) && has_prefix p t.
Proof.
  unfold has_prefix. cbn [strip_prefix]. rewrite (N.eqb_sym c d).
  destruct (d =? c); reflexivity.
Qed.

(* the inner loop compares substr[j:] with s[i+j:] and stops at the first
   difference; it gets to j = sul exactly when substr[j:] is a prefix there *)
Lemma index_inner_spec s substr (i : nat) :
  forall (p pre : bytes) (fuel : nat),
    substr = pre ++ p -> (length p < fuel)%nat ->
    exists j' : Z,
      index_inner fuel s substr (zlen substr) (Z.of_nat i) (Z.of_nat (length pre)) = Some j' /\
      (j' =? zlen substr)%Z = has_prefix p (skipn (i + length pre) s).
Proof.
  induction p as [|d p IH]; intros pre fuel Hsub Hf.
  - destruct fuel as [|fuel]; [lia|]. cbn [index_inner].
    rewrite app_nil_r in Hsub. subst pre. unfold zlen at 1. rewrite Z.ltb_irrefl.
    exists (Z.of_nat (length substr)). split; [reflexivity|].
    unfold zlen. rewrite Z.eqb_refl. reflexivity.
  - destruct fuel as [|fuel]; [lia|]. cbn [index_inner].
    assert (Hlen : length substr = (length pre + S (length p))%nat)
      by (subst substr; rewrite app_length; reflexivity).
    ztest (Z.of_nat (length pre) <? zlen substr)%Z true.
    rewrite (tsh_at_nonneg s) by lia. rewrite (tsh_at_nonneg substr) by lia.
    replace (Z.to_nat (Z.of_nat i + Z.of_nat (length pre))) with (i + length pre)%nat by lia.
    rewrite Nat2Z.id. cbv iota beta.
    replace (skipn (length pre) substr) with (d :: p) by (subst substr; rewrite skipn_app_exact; reflexivity).
    destruct (skipn (i + length pre) s) as [|c t] eqn:Et.
    + cbn [firstn beq negb]. exists (Z.of_nat (length pre)). split; [reflexivity|].
      rewrite has_prefix_cons_nil. unfold zlen. lia.
    + cbn [firstn beq]. rewrite andb_true_r. rewrite has_prefix_cons.
      destruct (c =? d) eqn:Ecd; cbn [negb andb].
      * destruct (skipn_cons_inv _ _ _ _ Et) as [Et' _].
        destruct (IH (pre ++ [d]) fuel) as [j' [Hj1 Hj2]].
        { rewrite <- app_assoc. exact Hsub. }
        { cbn [length] in Hf. lia. }
        rewrite app_length in Hj1, Hj2. cbn [length] in Hj1, Hj2.
        replace (Z.of_nat (length pre + 1)) with (Z.of_nat (length pre) + 1)%Z in Hj1 by lia.
        replace (i + (length pre + 1))%nat with (S (i + length pre)) in Hj2 by lia.
        rewrite Et' in Hj2. exists j'. split; assumption.
      * exists (Z.of_nat (length pre)). split; [reflexivity|]. unfold zlen. lia.
Qed.

Lemma index_outer_spec s substr :
  substr <> [] ->
  forall (t : bytes) (i fuel : nat),
    skipn i s = t -> (length t < fuel)%nat ->
    index_outer fuel s substr (zlen substr) (Z.of_nat i) (-1)%Z
    = Some (match index_nat t substr with Some k => Z.of_nat (i + k) | None => (-1)%Z end).
Proof.
  intros Hne. induction t as [|c t IH]; intros i fuel Ht Hf.
  - destruct fuel as [|fuel]; [lia|]. cbn [index_outer].
    apply skipn_nil_inv in Ht. ztest (Z.of_nat i <? zlen s)%Z false.
    cbn [index_nat]. destruct substr as [|d p]; [congruence|]. rewrite has_prefix_cons_nil. reflexivity.
  - destruct fuel as [|fuel]; [lia|]. cbn [index_outer].
    destruct (skipn_cons_inv _ _ _ _ Ht) as [Ht' Hi].
    ztest (Z.of_nat i <? zlen s)%Z true.
    destruct (index_inner_spec s substr i substr [] (S (length substr)) eq_refl (Nat.lt_succ_diag_r _))
      as [j' [Hj1 Hj2]].
    cbn [length] in Hj1, Hj2. change (Z.of_nat 0) with 0%Z in Hj1. rewrite Hj1. cbv iota beta.
    rewrite Nat.add_0_r, Ht in Hj2. rewrite Hj2. cbn [index_nat].
    destruct (has_prefix substr (c :: t)).
    + rewrite Nat.add_0_r. reflexivity.
    + replace (Z.of_nat i + 1)%Z with (Z.of_nat (S i)) by lia.
      rewrite (IH (S i) fuel Ht') by (cbn [length] in Hf; lia).
      destruct (index_nat t substr) as [k|]; cbn [option_map]; [|reflexivity].
      f_equal. lia.
Qed.

Theorem lib_index_correct s substr :
  lib_index s substr = Some (go_index s substr).
Proof.
  unfold lib_index, go_index.
  destruct (Z.eqb_spec (zlen substr) 0) as [H0|H0].
  - destruct substr as [|x r]; [|unfold zlen in H0; cbn [length] in H0; lia].
    destruct s; reflexivity.
  - assert (Hne : substr <> []) by (intros E; subst substr; apply H0; reflexivity).
    change 0%Z with (Z.of_nat 0).
    rewrite (index_outer_spec s substr Hne s 0 (S (length s)) eq_refl (Nat.lt_succ_diag_r _)).
    destruct (index_nat s substr); reflexivity.
Qed.

Theorem lib_contains_correct s substr :
  lib_contains s substr = Some (go_contains s substr).
Proof.
  unfold lib_contains, go_contains. rewrite lib_index_correct. unfold go_index.
  destruct (index_nat s substr) as [k|]; f_equal; lia.
Qed.

Theorem lib_cut_correct s sep :
  lib_cut s sep = Some (go_cut s sep).
Proof.
  unfold lib_cut, go_cut. rewrite lib_index_correct. unfold go_index.
  rewrite find_first_index.
  destruct (find_first sep s) as [[b a]|] eqn:E; cbn [option_map fst].
  - apply find_first_some in E. ztest (Z.of_nat (length b) >=? 0)%Z true.
    rewrite tsh_sub_prefix by lia. rewrite Nat2Z.id.
    rewrite tsh_sub_from by (subst s; unfold zlen; rewrite !app_length; lia).
    unfold zlen. replace (Z.to_nat (Z.of_nat (length b) + Z.of_nat (length sep)))
      with (length b + length sep)%nat by lia.
    subst s. rewrite firstn_app_exact.
    rewrite <- skipn_skipn_add, !skipn_app_exact. reflexivity.
  - reflexivity.
Qed.

(* ------------------------------------------------------------------ *)
(* Scanning with find_first: what happens at one position               *)

Lemma find_first_match sub s :
  has_prefix sub s = true -> find_first sub s = Some ([], skipn (length sub) s).
Proof.
  intros H. apply has_prefix_strip in H. destruct s as [|c r]; cbn [find_first]; rewrite H; reflexivity.
Qed.

Lemma find_first_skip sub c r :
  has_prefix sub (c :: r) = false ->
  find_first sub (c :: r) =
  match find_first sub r with Some (b, a) => Some (c :: b, a) | None => None end.
Proof. intros H. apply has_prefix_false_strip in H. cbn [find_first]. rewrite H. reflexivity. Qed.

Lemma find_first_nil sub : sub <> [] -> find_first sub [] = None.
Proof. intros H. destruct sub as [|d p]; [congruence|reflexivity]. Qed.

Lemma find_first_length sub s b a :
  find_first sub s = Some (b, a) -> length s = (length b + length sub + length a)%nat.
Proof. intros H. apply find_first_some in H. subst s. rewrite !app_length. lia. Qed.

(* ------------------------------------------------------------------ *)
(* Count                                                                *)

Lemma count_matches_fuel sub :
  sub <> [] ->
  forall (k1 k2 : nat) (s : bytes),
    (length s <= k1)%nat -> (length s <= k2)%nat ->
    count_matches k1 sub s = count_matches k2 sub s.
Proof.
  intros Hne. assert (Hl : (0 < length sub)%nat) by (destruct sub; [congruence|cbn [length]; lia]).
  induction k1 as [|k1 IH]; intros k2 s H1 H2.
  - destruct s as [|x s]; [|cbn [length] in H1; lia].
    destruct k2 as [|k2]; [reflexivity|]. cbn [count_matches]. rewrite find_first_nil by exact Hne. reflexivity.
  - destruct k2 as [|k2].
    + destruct s as [|x s]; [|cbn [length] in H2; lia].
      cbn [count_matches]. rewrite find_first_nil by exact Hne. reflexivity.
    + cbn [count_matches]. destruct (find_first sub s) as [[b a]|] eqn:E; [|reflexivity].
      apply find_first_length in E. f_equal. apply IH; lia.
Qed.

Lemma count_matches_S k sub s :
  count_matches (S k) sub s =
  match find_first sub s with None => O | Some (_, a) => S (count_matches k sub a) end.
Proof. reflexivity. Qed.

Lemma count_skip sub x r :
  sub <> [] -> has_prefix sub (x :: r) = false ->
  count_matches (S (length r)) sub (x :: r) = count_matches (length r) sub r.
Proof.
  intros Hne E. assert (Hl : (0 < length sub)%nat) by (destruct sub; [congruence|cbn [length]; lia]).
  rewrite count_matches_S, find_first_skip by exact E.
  destruct (find_first sub r) as [[b a]|] eqn:F.
  - pose proof (find_first_length _ _ _ _ F) as Hlen.
    destruct (length r) as [|m] eqn:El; [lia|]. rewrite (count_matches_S m sub r), F. f_equal.
    apply count_matches_fuel; [exact Hne|lia|lia].
  - destruct (length r) as [|m]; [reflexivity|]. rewrite (count_matches_S m sub r), F. reflexivity.
Qed.

Lemma count_loop_spec s substr :
  substr <> [] ->
  forall (fuel i : nat) (t : bytes) (c : Z),
    skipn i s = t -> (length t < fuel)%nat ->
    count_loop fuel s substr (zlen s) (zlen substr) (Z.of_nat i) c
    = Some (c + Z.of_nat (count_matches (length t) substr t))%Z.
Proof.
  intros Hne. assert (Hl : (0 < length substr)%nat) by (destruct substr; [congruence|cbn [length]; lia]).
  induction fuel as [|fuel IH]; intros i t c Ht Hf; [lia|]. cbn [count_loop].
  destruct t as [|x r].
  - apply skipn_nil_inv in Ht. ztest (Z.of_nat i <? zlen s)%Z false.
    cbn [length count_matches]. f_equal. lia.
  - destruct (skipn_cons_inv _ _ _ _ Ht) as [Ht' Hi].
    ztest (Z.of_nat i <? zlen s)%Z true.
    rewrite tsh_sub_from by (unfold zlen; lia). rewrite Nat2Z.id, Ht.
    rewrite lib_has_prefix_correct. unfold go_has_prefix. cbv iota beta.
    change (length (x :: r)) with (S (length r)).
    destruct (has_prefix substr (x :: r)) eqn:E.
    + rewrite count_matches_S, (find_first_match _ _ E).
      pose proof (has_prefix_length _ _ E) as Hle.
      assert (Hrl : length (skipn (length substr) (x :: r)) = (length (x :: r) - length substr)%nat)
        by apply skipn_length.
      cbn [length] in Hle, Hrl, Hf.
      replace (Z.of_nat i + zlen substr)%Z with (Z.of_nat (i + length substr)) by (unfold zlen; lia).
      rewrite (IH (i + length substr)%nat (skipn (length substr) (x :: r))).
      * f_equal. rewrite (count_matches_fuel substr Hne (length r) (length (skipn (length substr) (x :: r)))) by lia. lia.
      * rewrite <- Ht. apply eq_sym, skipn_skipn_add.
      * lia.
    + rewrite (count_skip _ _ _ Hne E).
      replace (Z.of_nat i + 1)%Z with (Z.of_nat (S i)) by lia.
      apply (IH (S i) r c Ht'). cbn [length] in Hf. lia.
Qed.

Theorem lib_count_correct s substr :
  lib_count s substr = Some (go_count s substr).
Proof.
  unfold lib_count, go_count.
  destruct substr as [|d p]; [reflexivity|].
  ztest (zlen (d :: p) =? 0)%Z false.
  change 0%Z with (Z.of_nat 0) at 1.
  rewrite (count_loop_spec s (d :: p) ltac:(discriminate) (S (length s)) 0 s 0%Z eq_refl (Nat.lt_succ_diag_r _)).
  reflexivity.
Qed.

(* ------------------------------------------------------------------ *)
(* TrimLeft, TrimRight, Trim, TrimSpace                                 *)

(* CutPrefix with a one-byte prefix *)
Definition cut1 (c : N) (s : bytes) : bytes * bool :=
  match s with
  | x :: r => if x =? c then (r, true) else (s, false)
  | [] => ([], false)
  end.

(* one round of the inner loop over the bytes [cs] of the cutset *)
Fixpoint pass (cs : bytes) (s : bytes) (tr : bool) : bytes * bool :=
  match cs with
  | [] => (s, tr)
  | c :: cs' => let '(s', cut) := cut1 c s in pass cs' s' (if cut then true else tr)
  end.

Lemma drop_while_head_out cutset t :
  (forall c, In c cutset -> hd_is c t = false) -> drop_while (in_cutset cutset) t = t.
Proof.
  intros H. destruct t as [|x t]; [reflexivity|]. cbn [drop_while]. unfold in_cutset.
  destruct (existsb (N.eqb x) cutset) eqn:E; [|reflexivity].
  apply existsb_exists in E as [c [Hin Heq]]. specialize (H c Hin). cbn [hd_is] in H. congruence.
Qed.

Lemma pass_spec cutset :
  forall (cs s : bytes) (tr : bool),
    (forall c, In c cs -> in_cutset cutset c = true) ->
    let '(r, b) := pass cs s tr in
    drop_while (in_cutset cutset) r = drop_while (in_cutset cutset) s /\
    (b = false -> tr = false /\ r = s /\ forall c, In c cs -> hd_is c s = false) /\
    (b = true -> tr = false -> (length r < length s)%nat) /\
    (length r <= length s)%nat.
Proof.
  induction cs as [|c cs IH]; intros s tr Hin; cbn [pass].
  - split; [reflexivity|]. split; [|split; [intros H1 H2; congruence|lia]].
    intros H. split; [exact H|]. split; [reflexivity|]. intros c [].
  - assert (Hc : in_cutset cutset c = true) by (apply Hin; left; reflexivity).
    assert (Hin' : forall c0, In c0 cs -> in_cutset cutset c0 = true)
      by (intros c0 H0; apply Hin; right; exact H0).
    unfold cut1. destruct s as [|x r0].
    + specialize (IH [] tr Hin'). destruct (pass cs [] tr) as [r b].
      destruct IH as [I1 [I2 [I3 I4]]]. split; [exact I1|]. split; [|split; assumption].
      intros Hb. destruct (I2 Hb) as [J1 [J2 J3]]. split; [exact J1|]. split; [exact J2|].
      intros c0 _. reflexivity.
    + destruct (x =? c) eqn:Exc.
      * apply N.eqb_eq in Exc. subst x.
        specialize (IH r0 true Hin'). destruct (pass cs r0 true) as [r b].
        destruct IH as [I1 [I2 [I3 I4]]]. cbn [drop_while length]. rewrite Hc.
        split; [exact I1|]. split; [|split; [intros; lia|lia]].
        intros Hb. destruct (I2 Hb) as [J1 _]. discriminate.
      * specialize (IH (x :: r0) tr Hin'). destruct (pass cs (x :: r0) tr) as [r b].
        destruct IH as [I1 [I2 [I3 I4]]]. split; [exact I1|]. split; [|split; assumption].
        intros Hb. destruct (I2 Hb) as [J1 [J2 J3]]. split; [exact J1|]. split; [exact J2|].
        intros c0 [H0|H0]; [subst c0; cbn [hd_is]; exact Exc|apply J3; exact H0].
Qed.

Section TrimFacts.
  Variable cutfn : bytes -> bytes -> option (bytes * bool).
  Variable view : bytes -> bytes.
  Hypothesis view_invol : forall s, view (view s) = s.
  Hypothesis view_length : forall s, length (view s) = length s.
  Hypothesis cutfn_one :
    forall s c, cutfn s [c] = Some (let '(r, b) := cut1 c (view s) in (view r, b)).

  Lemma trim_inner_spec cutset :
    forall (cs pre : bytes) (fuel : nat) (s : bytes) (tr : bool),
      cutset = pre ++ cs -> (length cs < fuel)%nat ->
      trim_inner cutfn fuel cutset (zlen cutset) (Z.of_nat (length pre)) s tr
      = Some (let '(r, b) := pass cs (view s) tr in (view r, b)).
  Proof.
    induction cs as [|c cs IH]; intros pre fuel s tr Hcs Hf.
    - destruct fuel as [|fuel]; [lia|]. cbn [trim_inner pass].
      rewrite app_nil_r in Hcs. subst pre. unfold zlen. rewrite Z.ltb_irrefl.
      rewrite view_invol. reflexivity.
    - destruct fuel as [|fuel]; [lia|]. cbn [trim_inner pass].
      assert (Hlen : length cutset = (length pre + S (length cs))%nat)
        by (subst cutset; rewrite app_length; reflexivity).
      ztest (Z.of_nat (length pre) <? zlen cutset)%Z true.
      rewrite tsh_at_nonneg by lia. rewrite Nat2Z.id.
      replace (skipn (length pre) cutset) with (c :: cs)
        by (subst cutset; rewrite skipn_app_exact; reflexivity).
      cbn [firstn]. cbv iota beta. rewrite cutfn_one.
      destruct (cut1 c (view s)) as [r b]. cbv iota beta.
      replace (Z.of_nat (length pre) + 1)%Z with (Z.of_nat (length (pre ++ [c])))
        by (rewrite app_length; cbn [length]; lia).
      rewrite (IH (pre ++ [c]) fuel (view r) (if b then true else tr)).
      + rewrite view_invol. reflexivity.
      + rewrite <- app_assoc. exact Hcs.
      + cbn [length] in Hf. lia.
  Qed.

  Lemma trim_outer_spec cutset :
    forall (fuel : nat) (s : bytes),
      (length s < fuel)%nat ->
      trim_outer cutfn fuel cutset (zlen cutset) s
      = Some (view (drop_while (in_cutset cutset) (view s))).
  Proof.
    induction fuel as [|fuel IH]; intros s Hf; [lia|]. cbn [trim_outer].
    change 0%Z with (Z.of_nat (length (@nil N))).
    rewrite (trim_inner_spec cutset cutset [] (S (length cutset)) s false eq_refl (Nat.lt_succ_diag_r _)).
    pose proof (pass_spec cutset cutset (view s) false) as Hp.
    destruct (pass cutset (view s) false) as [r b]. cbv iota beta.
    destruct Hp as [P1 [P2 [P3 P4]]].
    { intros c Hc. unfold in_cutset. apply existsb_exists. exists c. split; [exact Hc|apply N.eqb_refl]. }
    destruct b; cbn [negb].
    - rewrite IH.
      + rewrite view_invol, P1. reflexivity.
      + rewrite view_length. specialize (P3 eq_refl eq_refl). rewrite view_length in P3. lia.
    - destruct (P2 eq_refl) as [_ [Hr Hh]]. subst r.
      rewrite (drop_while_head_out _ _ Hh). reflexivity.
  Qed.

  Lemma trim_with_spec s cutset :
    trim_with cutfn s cutset = Some (view (drop_while (in_cutset cutset) (view s))).
  Proof.
    unfold trim_with.
    destruct (Z.gtb_spec (zlen s) 0) as [Hs|Hs]; cbn [andb].
    - destruct (Z.gtb_spec (zlen cutset) 0) as [Hc|Hc].
      + apply trim_outer_spec. lia.
      + destruct cutset as [|c cs]; [|unfold zlen in Hc; cbn [length] in Hc; lia].
        rewrite drop_while_head_out by (intros c []). rewrite view_invol. reflexivity.
    - destruct s as [|x s]; [|unfold zlen in Hs; cbn [length] in Hs; lia].
      assert (Hv : view [] = []).
      { pose proof (view_length []) as Hl. destruct (view []); [reflexivity|discriminate]. }
      rewrite Hv. cbn [drop_while]. rewrite Hv. reflexivity.
  Qed.
End TrimFacts.

Lemma go_cut_prefix_one s c : go_cut_prefix s [c] = cut1 c s.
Proof.
  unfold go_cut_prefix, cut1. destruct s as [|x r]; [reflexivity|].
  cbn [strip_prefix]. rewrite (N.eqb_sym c x). destruct (x =? c); reflexivity.
Qed.

Lemma go_cut_suffix_rev s p :
  go_cut_suffix s p = let '(r, b) := go_cut_prefix (rev s) (rev p) in (rev r, b).
Proof.
  unfold go_cut_suffix, go_cut_prefix.
  destruct (go_has_suffix s p) eqn:E.
  - apply go_has_suffix_true in E as [a Ha]. subst s.
    rewrite rev_app_distr, strip_prefix_app, rev_involutive.
    rewrite app_length. replace (length a + length p - length p)%nat with (length a) by lia.
    rewrite firstn_app_exact. reflexivity.
  - destruct (strip_prefix (rev p) (rev s)) as [r|] eqn:F; [|rewrite rev_involutive; reflexivity].
    apply strip_prefix_some in F.
    assert (Hs : go_has_suffix s p = true).
    { apply go_has_suffix_true. exists (rev r).
      rewrite <- (rev_involutive s), F, rev_app_distr, rev_involutive. reflexivity. }
    congruence.
Qed.

Theorem lib_trim_left_correct s cutset :
  lib_trim_left s cutset = Some (go_trim_left s cutset).
Proof.
  unfold lib_trim_left, go_trim_left.
  apply (trim_with_spec lib_cut_prefix (fun x => x)); try reflexivity.
  intros s0 c. rewrite lib_cut_prefix_correct, go_cut_prefix_one.
  destruct (cut1 c s0); reflexivity.
Qed.

Theorem lib_trim_right_correct s cutset :
  lib_trim_right s cutset = Some (go_trim_right s cutset).
Proof.
  unfold lib_trim_right, go_trim_right, drop_while_end.
  apply (trim_with_spec lib_cut_suffix (@rev N)).
  - apply rev_involutive.
  - apply rev_length.
  - intros s0 c. rewrite lib_cut_suffix_correct, go_cut_suffix_rev.
    change (rev [c]) with [c]. rewrite go_cut_prefix_one. reflexivity.
Qed.

Theorem lib_trim_correct s cutset :
  lib_trim s cutset = Some (go_trim s cutset).
Proof.
  unfold lib_trim, go_trim. rewrite lib_trim_left_correct. apply lib_trim_right_correct.
Qed.

Lemma drop_while_ext (p q : N -> bool) s :
  (forall c, p c = q c) -> drop_while p s = drop_while q s.
Proof.
  intros H. induction s as [|c r IH]; [reflexivity|]. cbn [drop_while]. rewrite H, IH. reflexivity.
Qed.

Theorem lib_trim_space_correct s :
  lib_trim_space s = Some (go_trim_space s).
Proof.
  unfold lib_trim_space. rewrite lib_trim_correct.
  unfold go_trim, go_trim_space, go_trim_right, go_trim_left, drop_while_end.
  assert (H : forall c, in_cutset [9; 10; 11; 12; 13; 32] c = is_go_space c).
  { intros c. unfold in_cutset, is_go_space. cbn [existsb]. rewrite orb_false_r.
    rewrite !orb_assoc. reflexivity. }
  rewrite (drop_while_ext _ _ s H).
  rewrite (drop_while_ext _ _ (rev (drop_while is_go_space s)) H). reflexivity.
Qed.

(* ------------------------------------------------------------------ *)
(* Replace, ReplaceAll                                                  *)

(* old = "": what the loop still has to produce at the rest [t] of s when [k]
   replacements are left *)
Definition rest_empty (k : nat) (new t : bytes) : bytes :=
  match t with [] => [] | c :: r => c :: replace_empty k new r end.

Lemma replace_loop_empty s new n :
  forall (t : bytes) (i fuel : nat) (res : bytes) (rep : Z) (k : nat),
    skipn i s = t -> (i <= length s)%nat -> (length t < fuel)%nat ->
    ((n < 0)%Z /\ (length t <= k)%nat) \/ ((0 <= n)%Z /\ k = Z.to_nat (n - rep)) ->
    exists (res' : bytes) (i' : nat),
      replace_loop fuel s [] new n 0%Z res rep (Z.of_nat i) = Some (res', Z.of_nat i') /\
      (i' <= length s)%nat /\
      res' ++ skipn i' s = res ++ rest_empty k new t.
Proof.
  induction t as [|c r IH]; intros i fuel res rep k Ht Hi Hf Hk.
  - destruct fuel as [|fuel]; [lia|]. cbn [replace_loop].
    apply skipn_nil_inv in Ht as Hge. ztest (Z.of_nat i <? zlen s)%Z false.
    exists res, i. split; [reflexivity|]. split; [exact Hi|]. rewrite Ht. reflexivity.
  - destruct fuel as [|fuel]; [lia|]. cbn [replace_loop].
    destruct (skipn_cons_inv _ _ _ _ Ht) as [Ht' Hlt].
    ztest (Z.of_nat i <? zlen s)%Z true.
    destruct ((rep <? n)%Z || (n <? 0)%Z) eqn:Ec.
    + rewrite tsh_at_nonneg by lia. rewrite Nat2Z.id, Ht. cbn [firstn]. cbv iota beta.
      change (0 =? 0)%Z with true. cbv iota.
      assert (Hk' : exists k', k = S k').
      { destruct k as [|k']; [|exists k'; reflexivity]. exfalso.
        destruct Hk as [[H1 H2]|[H1 H2]]; [cbn [length] in H2; lia|lia]. }
      destruct Hk' as [k' ->].
      replace (Z.of_nat i + 1)%Z with (Z.of_nat (S i)) by lia.
      destruct (IH (S i) fuel (res ++ [c] ++ new) (rep + 1)%Z k' Ht') as [res' [i' [L1 [L2 L3]]]].
      { lia. } { cbn [length] in Hf. lia. }
      { destruct Hk as [[H1 H2]|[H1 H2]]; [left; cbn [length] in H2; lia|right; lia]. }
      exists res', i'. split; [exact L1|]. split; [exact L2|]. rewrite L3.
      unfold rest_empty at 2. cbn [replace_empty]. fold (rest_empty k' new r).
      rewrite <- !app_assoc. reflexivity.
    + assert (k = 0)%nat by (destruct Hk as [[H1 H2]|[H1 H2]]; lia). subst k.
      exists res, i. split; [reflexivity|]. split; [exact Hi|]. rewrite Ht. reflexivity.
Qed.

Lemma replace_matches_nil k old new : old <> [] -> replace_matches k old new [] = [].
Proof. intros H. destruct k as [|k]; [reflexivity|]. cbn [replace_matches]. rewrite find_first_nil by exact H. reflexivity. Qed.

Lemma replace_skip k old new c r :
  has_prefix old (c :: r) = false ->
  replace_matches k old new (c :: r) = c :: replace_matches k old new r.
Proof.
  intros E. destruct k as [|k]; [reflexivity|]. cbn [replace_matches].
  rewrite (find_first_skip _ _ _ E). destruct (find_first old r) as [[b a]|]; reflexivity.
Qed.

Lemma replace_loop_nonempty s old new n :
  old <> [] ->
  forall (fuel i : nat) (t res : bytes) (rep : Z) (k : nat),
    skipn i s = t -> (i <= length s)%nat -> (length t < fuel)%nat ->
    ((n < 0)%Z /\ (length t <= k)%nat) \/ ((0 <= n)%Z /\ k = Z.to_nat (n - rep)) ->
    exists (res' : bytes) (i' : nat),
      replace_loop fuel s old new n (zlen old) res rep (Z.of_nat i) = Some (res', Z.of_nat i') /\
      (i' <= length s)%nat /\
      res' ++ skipn i' s = res ++ replace_matches k old new t.
Proof.
  intros Hne. assert (Hl : (0 < length old)%nat) by (destruct old; [congruence|cbn [length]; lia]).
  induction fuel as [|fuel IH]; intros i t res rep k Ht Hi Hf Hk; [lia|]. cbn [replace_loop].
  destruct t as [|c r].
  - apply skipn_nil_inv in Ht as Hge. ztest (Z.of_nat i <? zlen s)%Z false.
    exists res, i. split; [reflexivity|]. split; [exact Hi|]. rewrite Ht.
    rewrite replace_matches_nil by exact Hne. reflexivity.
  - destruct (skipn_cons_inv _ _ _ _ Ht) as [Ht' Hlt].
    ztest (Z.of_nat i <? zlen s)%Z true.
    destruct ((rep <? n)%Z || (n <? 0)%Z) eqn:Ec.
    + rewrite tsh_at_nonneg by lia. rewrite Nat2Z.id, Ht. cbn [firstn]. cbv iota beta.
      ztest (zlen old =? 0)%Z false.
      rewrite tsh_sub_from by (unfold zlen; lia). rewrite Nat2Z.id, Ht.
      rewrite lib_has_prefix_correct. unfold go_has_prefix. cbv iota beta.
      assert (Hk' : exists k', k = S k').
      { destruct k as [|k']; [|exists k'; reflexivity]. exfalso.
        destruct Hk as [[H1 H2]|[H1 H2]]; [cbn [length] in H2; lia|lia]. }
      destruct Hk' as [k' ->].
      destruct (has_prefix old (c :: r)) eqn:E.
      * pose proof (has_prefix_length _ _ E) as Hle.
        assert (Hrl : length (skipn (length old) (c :: r)) = (length (c :: r) - length old)%nat)
          by apply skipn_length.
        assert (Hsl : length (c :: r) = (length s - i)%nat) by (rewrite <- Ht; apply skipn_length).
        cbn [length] in Hle, Hrl, Hf, Hsl.
        replace (Z.of_nat i + zlen old)%Z with (Z.of_nat (i + length old)) by (unfold zlen; lia).
        destruct (IH (i + length old)%nat (skipn (length old) (c :: r)) (res ++ new) (rep + 1)%Z k')
          as [res' [i' [L1 [L2 L3]]]].
        { rewrite <- Ht. apply eq_sym, skipn_skipn_add. } { lia. } { lia. }
        { destruct Hk as [[H1 H2]|[H1 H2]]; [left; cbn [length] in H2; lia|right; lia]. }
        exists res', i'. split; [exact L1|]. split; [exact L2|]. rewrite L3.
        cbn [replace_matches]. rewrite (find_first_match _ _ E). cbn [app].
        rewrite <- app_assoc. reflexivity.
      * replace (Z.of_nat i + 1)%Z with (Z.of_nat (S i)) by lia.
        destruct (IH (S i) r (res ++ [c]) rep (S k') Ht') as [res' [i' [L1 [L2 L3]]]].
        { lia. } { cbn [length] in Hf. lia. }
        { destruct Hk as [[H1 H2]|[H1 H2]]; [left; cbn [length] in H2; lia|right; lia]. }
        exists res', i'. split; [exact L1|]. split; [exact L2|]. rewrite L3.
        rewrite (replace_skip _ _ _ _ _ E). rewrite <- app_assoc. reflexivity.
    + assert (k = 0)%nat by (destruct Hk as [[H1 H2]|[H1 H2]]; lia). subst k.
      exists res, i. split; [reflexivity|]. split; [exact Hi|]. rewrite Ht. reflexivity.
Qed.

Theorem lib_replace_correct s old new n :
  lib_replace s old new n = Some (go_replace s old new n).
Proof.
  unfold lib_replace, go_replace. cbv zeta.
  destruct old as [|d p].
  - change (zlen []) with 0%Z. change (0 =? 0)%Z with true. cbn [andb].
    destruct (Z.eqb_spec n 0) as [Hn|Hn]; cbn [negb].
    + subst n. change (0 <? 0)%Z with false. cbv iota. change (Z.to_nat 0) with 0%nat.
     
      destruct (replace_loop_empty s new 0%Z s 0 (S (length s)) [] 0%Z 0%nat eq_refl)
        as [res' [i' [L1 [L2 L3]]]]; [lia|lia|right; lia|].
      change (Z.of_nat 0) with 0%Z in L1. rewrite L1. cbv iota beta.
      rewrite tsh_sub_from by (unfold zlen; lia). rewrite Nat2Z.id, L3.
      destruct s; reflexivity.
    + change (0 + 1)%Z with 1%Z.
      set (k := if (n <? 0)%Z then S (length s) else Z.to_nat n).
      assert (Hk : exists k', k = S k' /\
                 (((n < 0)%Z /\ (length s <= k')%nat) \/ ((0 <= n)%Z /\ k' = Z.to_nat (n - 1)))).
      { unfold k. destruct (Z.ltb_spec n 0) as [H|H].
        - exists (length s). split; [reflexivity|left; lia].
        - exists (Z.to_nat (n - 1)). split; [lia|right; lia]. }
      destruct Hk as [k' [-> Hk']].
      destruct (replace_loop_empty s new n s 0 (S (length s)) new 1%Z k' eq_refl)
        as [res' [i' [L1 [L2 L3]]]]; [lia|lia|exact Hk'|].
      change (Z.of_nat 0) with 0%Z in L1. rewrite L1. cbv iota beta.
      rewrite tsh_sub_from by (unfold zlen; lia). rewrite Nat2Z.id, L3.
      destruct s; reflexivity.
  - ztest (zlen (d :: p) =? 0)%Z false.
   
    set (k := if (n <? 0)%Z then S (length s) else Z.to_nat n).
    destruct (replace_loop_nonempty s (d :: p) new n ltac:(discriminate) (S (length s)) 0 s [] 0%Z k eq_refl)
      as [res' [i' [L1 [L2 L3]]]]; [lia|lia| |].
    { unfold k. destruct (Z.ltb_spec n 0) as [H|H]; [left; lia|right; split; [lia|f_equal; lia]]. }
    change (Z.of_nat 0) with 0%Z in L1. rewrite L1. cbv iota beta.
    rewrite tsh_sub_from by (unfold zlen; lia). rewrite Nat2Z.id, L3. reflexivity.
Qed.

Theorem lib_replace_all_correct s old new :
  lib_replace_all s old new = Some (go_replace_all s old new).
Proof. apply lib_replace_correct. Qed.

(* ------------------------------------------------------------------ *)
(* Split                                                                *)

Lemma slice_set_append (elems : list bytes) v :
  slice_set elems (Z.of_nat (length elems)) v = Some (elems ++ [v]).
Proof.
  unfold slice_set. ztest (Z.of_nat (length elems) <? 0)%Z false.
  rewrite Nat2Z.id, Nat.ltb_irrefl, Nat.sub_diag. reflexivity.
Qed.

(* sep = "": one element per byte *)
Lemma split_loop_empty s :
  forall (t : bytes) (e fuel : nat) (elems : list bytes),
    skipn e s = t -> (e <= length s)%nat -> (S (length t) < fuel)%nat -> length elems = e ->
    exists (st ei : Z),
      split_loop fuel s [] 0%Z (zlen s) (Z.of_nat e) (Z.of_nat e) (Z.of_nat e) elems
      = Some (st, ei, elems ++ map (fun c => [c]) t).
Proof.
  induction t as [|c r IH]; intros e fuel elems Ht He Hf Hl.
  - destruct fuel as [|fuel]; [lia|]. cbn [split_loop].
    apply skipn_nil_inv in Ht as Hge.
    ztest (Z.of_nat e <=? zlen s)%Z true.
    rewrite tsh_sub_mid by (unfold zlen; lia).
    replace (Z.to_nat (Z.of_nat e + 0 - Z.of_nat e)) with 0%nat by lia. cbn [firstn beq]. cbv iota beta.
    change (0 =? 0)%Z with true. cbv iota. cbn [negb orb].
    ztest (Z.of_nat e + 1 <=? zlen s)%Z false.
    destruct fuel as [|fuel]; [cbn [length] in Hf; lia|]. cbn [split_loop].
    ztest (Z.of_nat e + 1 <=? zlen s)%Z false.
    eexists. eexists. cbn [map]. rewrite app_nil_r. reflexivity.
  - destruct fuel as [|fuel]; [lia|]. cbn [split_loop].
    destruct (skipn_cons_inv _ _ _ _ Ht) as [Ht' Hlt].
    ztest (Z.of_nat e <=? zlen s)%Z true.
    rewrite tsh_sub_mid by (unfold zlen; lia).
    replace (Z.to_nat (Z.of_nat e + 0 - Z.of_nat e)) with 0%nat by lia. cbn [firstn beq]. cbv iota beta.
    change (0 =? 0)%Z with true. cbv iota. cbn [negb orb].
    ztest (Z.of_nat e + 1 <=? zlen s)%Z true.
    rewrite tsh_sub_mid by (unfold zlen; lia).
    replace (Z.to_nat (Z.of_nat e + 1 - Z.of_nat e)) with 1%nat by lia.
    rewrite Nat2Z.id, Ht. cbn [firstn]. cbv iota beta.
    replace (slice_set elems (Z.of_nat e) [c]) with (Some (elems ++ [[c]]))
      by (rewrite <- Hl; symmetry; apply slice_set_append).
    cbv iota beta.
    rewrite Z.add_0_r. replace (Z.of_nat e + 1)%Z with (Z.of_nat (S e)) by lia.
    destruct (IH (S e) fuel (elems ++ [[c]]) Ht') as [st [ei L]].
    { lia. } { cbn [length] in Hf. lia. } { rewrite app_length. cbn [length]. lia. }
    exists st, ei. rewrite L. cbn [map]. rewrite <- app_assoc. reflexivity.
Qed.

Lemma split_matches_fuel sep :
  sep <> [] ->
  forall (k1 k2 : nat) (s : bytes),
    (length s <= k1)%nat -> (length s <= k2)%nat ->
    split_matches k1 sep s = split_matches k2 sep s.
Proof.
  intros Hne. assert (Hl : (0 < length sep)%nat) by (destruct sep; [congruence|cbn [length]; lia]).
  induction k1 as [|k1 IH]; intros k2 s H1 H2.
  - destruct s as [|x s]; [|cbn [length] in H1; lia].
    destruct k2 as [|k2]; [reflexivity|]. cbn [split_matches]. rewrite find_first_nil by exact Hne. reflexivity.
  - destruct k2 as [|k2].
    + destruct s as [|x s]; [|cbn [length] in H2; lia].
      cbn [split_matches]. rewrite find_first_nil by exact Hne. reflexivity.
    + cbn [split_matches]. destruct (find_first sep s) as [[b a]|] eqn:E; [|reflexivity].
      apply find_first_length in E. f_equal. apply IH; lia.
Qed.

(* the split of u ++ t when no occurrence of sep starts inside u *)
Definition tailsplit (sep u t : bytes) : list bytes :=
  match find_first sep t with
  | None => [u ++ t]
  | Some (b, a) => (u ++ b) :: split_matches (length a) sep a
  end.

Lemma split_unfold sep t :
  sep <> [] -> split_matches (length t) sep t = tailsplit sep [] t.
Proof.
  intros Hne. assert (Hl : (0 < length sep)%nat) by (destruct sep; [congruence|cbn [length]; lia]).
  unfold tailsplit. destruct (length t) as [|m] eqn:El.
  - destruct t; [|discriminate]. cbn [split_matches]. rewrite find_first_nil by exact Hne. reflexivity.
  - cbn [split_matches]. destruct (find_first sep t) as [[b a]|] eqn:E; [|reflexivity].
    apply find_first_length in E. cbn [app]. f_equal.
    apply split_matches_fuel; [exact Hne|lia|lia].
Qed.

Lemma find_first_short sep t : (length t < length sep)%nat -> find_first sep t = None.
Proof.
  intros H. destruct (find_first sep t) as [[b a]|] eqn:E; [|reflexivity].
  apply find_first_length in E. lia.
Qed.

Lemma firstn_S_skipn (n : nat) (w : bytes) c r :
  skipn n w = c :: r -> firstn (S n) w = firstn n w ++ [c].
Proof.
  revert w. induction n as [|n IH]; intros w H.
  - cbn [skipn] in H. subst w. reflexivity.
  - destruct w as [|x w]; [discriminate|]. cbn [skipn] in H.
    change (firstn (S (S n)) (x :: w)) with (x :: firstn (S n) w).
    rewrite (IH w H). reflexivity.
Qed.

Lemma split_loop_nonempty s sep :
  sep <> [] ->
  forall (fuel e a : nat) (elems : list bytes) (t : bytes),
    skipn e s = t -> (a <= e)%nat -> (e <= length s)%nat -> (length t < fuel)%nat ->
    exists (a' : nat) (elems' : list bytes),
      split_loop fuel s sep (zlen sep) (zlen s - zlen sep)%Z
                 (Z.of_nat a) (Z.of_nat e) (Z.of_nat (length elems)) elems
      = Some (Z.of_nat a', Z.of_nat (length elems'), elems') /\
      (a' <= length s)%nat /\
      elems' ++ [skipn a' s] = elems ++ tailsplit sep (firstn (e - a) (skipn a s)) t.
Proof.
  intros Hne. assert (Hl : (0 < length sep)%nat) by (destruct sep; [congruence|cbn [length]; lia]).
  induction fuel as [|fuel IH]; intros e a elems t Ht Hae He Hf; [lia|]. cbn [split_loop].
  assert (Htl : length t = (length s - e)%nat) by (rewrite <- Ht; apply skipn_length).
  assert (Hu : firstn (e - a) (skipn a s) ++ t = skipn a s).
  { rewrite <- Ht. replace e with (a + (e - a))%nat at 2 by lia.
    rewrite <- skipn_skipn_add. apply firstn_skipn. }
  destruct (Z.leb_spec (Z.of_nat e) (zlen s - zlen sep)) as [Hb|Hb].
  - (* a separator still fits *)
    assert (Hfit : (length sep <= length t)%nat) by (unfold zlen in Hb; lia).
    rewrite tsh_sub_mid by (unfold zlen; lia).
    replace (Z.to_nat (Z.of_nat e + zlen sep - Z.of_nat e)) with (length sep) by (unfold zlen; lia).
    rewrite Nat2Z.id, Ht. rewrite <- has_prefix_firstn. cbv iota beta.
    destruct t as [|c r]; [cbn [length] in Hfit; lia|].
    destruct (has_prefix sep (c :: r)) eqn:E.
    + ztest (zlen sep =? 0)%Z false.
      rewrite tsh_sub_mid by (unfold zlen; lia).
      replace (Z.to_nat (Z.of_nat e - Z.of_nat a)) with (e - a)%nat by lia. rewrite Nat2Z.id.
      cbv iota beta. rewrite slice_set_append. cbv iota beta.
      set (u := firstn (e - a) (skipn a s)) in *.
      replace (Z.of_nat e + zlen sep)%Z with (Z.of_nat (e + length sep)) by (unfold zlen; lia).
      replace (Z.of_nat (length elems) + 1)%Z with (Z.of_nat (length (elems ++ [u])))
        by (rewrite app_length; cbn [length]; lia).
      assert (Hrl : length (skipn (length sep) (c :: r)) = (length (c :: r) - length sep)%nat)
        by apply skipn_length.
      destruct (IH (e + length sep)%nat (e + length sep)%nat (elems ++ [u]) (skipn (length sep) (c :: r)))
        as [a' [elems' [L1 [L2 L3]]]].
      { rewrite <- Ht. apply eq_sym, skipn_skipn_add. } { lia. } { lia. } { lia. }
      exists a', elems'. split; [exact L1|]. split; [exact L2|]. rewrite L3.
      rewrite Nat.sub_diag. cbn [firstn].
      rewrite <- (split_unfold sep _ Hne).
      unfold tailsplit at 1. rewrite (find_first_match _ _ E). rewrite app_nil_r.
      rewrite <- app_assoc. reflexivity.
    + destruct (skipn_cons_inv _ _ _ _ Ht) as [Ht' Hlt].
      replace (Z.of_nat e + 1)%Z with (Z.of_nat (S e)) by lia.
      destruct (IH (S e) a elems r Ht') as [a' [elems' [L1 [L2 L3]]]].
      { lia. } { lia. } { cbn [length] in Hf. lia. }
      exists a', elems'. split; [exact L1|]. split; [exact L2|]. rewrite L3. f_equal.
      replace (S e - a)%nat with (S (e - a)) by lia.
      assert (Hsk : skipn (e - a) (skipn a s) = c :: r).
      { rewrite skipn_skipn_add. replace (a + (e - a))%nat with e by lia. exact Ht. }
      rewrite (firstn_S_skipn _ _ _ _ Hsk).
      unfold tailsplit. rewrite (find_first_skip _ _ _ E).
      destruct (find_first sep r) as [[b a0]|]; rewrite <- app_assoc; reflexivity.
  - (* no separator fits any more *)
    exists a, elems. split; [reflexivity|]. split; [lia|].
    unfold tailsplit. rewrite find_first_short by (unfold zlen in Hb; lia).
    rewrite Hu. reflexivity.
Qed.

Theorem lib_split_correct s sep :
  lib_split s sep = Some (go_split s sep).
Proof.
  unfold lib_split, go_split. cbv zeta.
  destruct sep as [|d p].
  - (* sep = "" *)
    change (zlen []) with 0%Z. change (0 >? 0)%Z with false. rewrite orb_false_r.
    destruct (Nat.eq_dec (length s) 0) as [Hz|Hnz].
    { apply length_zero_iff_nil in Hz. subst s. reflexivity. }
    ztest (zlen s >? 0)%Z true. rewrite Z.sub_0_r.
    destruct (split_loop_empty s s 0 (S (S (length s))) [] eq_refl) as [st [ei L]];
      [lia|lia|reflexivity|].
    change (Z.of_nat 0) with 0%Z in L. rewrite L. reflexivity.
  - (* sep <> "" *)
    assert (Hne : d :: p <> []) by discriminate.
    ztest (zlen (d :: p) >? 0)%Z true. rewrite orb_true_r.
    destruct (Nat.eq_dec (length s) 0) as [Hz|Hnz].
    + (* s = "": the loop looks once at position 0 *)
      apply length_zero_iff_nil in Hz. subst s.
      change (zlen []) with 0%Z. change (0 >? 0)%Z with false. cbv iota.
      cbn [length split_loop]. change (0 <=? 0)%Z with true. cbv iota.
      rewrite tsh_sub_mid by (unfold zlen; cbn [length]; lia).
      cbn [skipn]. rewrite firstn_nil. cbv iota beta. cbn [beq].
      change (0 + 1 <=? 0)%Z with false. cbv iota beta.
      reflexivity.
    + ztest (zlen s >? 0)%Z true.
      destruct (split_loop_nonempty s (d :: p) Hne (S (S (length s))) 0 0 [] s eq_refl)
        as [a' [elems' [L1 [L2 L3]]]]; [lia|lia|lia|].
      change (Z.of_nat 0) with 0%Z in L1. change (Z.of_nat (length (@nil bytes))) with 0%Z in L1.
      rewrite L1. cbv iota beta.
      rewrite tsh_sub_from by (unfold zlen; lia). rewrite Nat2Z.id. cbv iota beta.
      rewrite slice_set_append. cbv iota beta. f_equal. refine (eq_trans L3 _). cbn [app Nat.sub firstn].
      rewrite <- (split_unfold (d :: p) s Hne). reflexivity.
Qed.

(* ------------------------------------------------------------------ *)
(* Concrete evaluations of both sides (the right-hand values are what the
   real Go functions print for these arguments) *)

Example ex_index :
  lib_index (bs "chicken") (bs "ken") = Some 4%Z /\ go_index (bs "chicken") (bs "ken") = 4%Z /\
  lib_index (bs "ab") (bs "bc") = Some (-1)%Z /\ go_index (bs "ab") (bs "bc") = (-1)%Z /\
  lib_index [] [] = Some 0%Z /\ go_index [] [] = 0%Z.
Proof. vm_compute. repeat split; reflexivity. Qed.

Example ex_contains :
  lib_contains (bs "seafood") (bs "foo") = Some true /\ go_contains (bs "seafood") (bs "foo") = true /\
  lib_contains (bs "seafood") (bs "bar") = Some false /\ go_contains (bs "seafood") (bs "bar") = false /\
  lib_contains [] [] = Some true /\ go_contains [] [] = true.
Proof. vm_compute. repeat split; reflexivity. Qed.

Example ex_join :
  lib_join [bs "foo"; bs "bar"; bs "baz"] (bs ", ") = Some (bs "foo, bar, baz") /\
  go_join [bs "foo"; bs "bar"; bs "baz"] (bs ", ") = bs "foo, bar, baz" /\
  lib_join [] (bs ",") = Some [] /\ go_join [] (bs ",") = [].
Proof. vm_compute. repeat split; reflexivity. Qed.

Example ex_has_prefix :
  lib_has_prefix (bs "Gopher") (bs "Go") = Some true /\ go_has_prefix (bs "Gopher") (bs "Go") = true /\
  lib_has_prefix (bs "Gopher") (bs "C") = Some false /\ go_has_prefix (bs "Gopher") (bs "C") = false /\
  lib_has_prefix (bs "Go") (bs "Gopher") = Some false /\ go_has_prefix (bs "Go") (bs "Gopher") = false.
Proof. vm_compute. repeat split; reflexivity. Qed.

Example ex_has_suffix :
  lib_has_suffix (bs "Amigo") (bs "go") = Some true /\ go_has_suffix (bs "Amigo") (bs "go") = true /\
  lib_has_suffix (bs "Amigo") (bs "Ami") = Some false /\ go_has_suffix (bs "Amigo") (bs "Ami") = false /\
  lib_has_suffix (bs "Amigo") [] = Some true /\ go_has_suffix (bs "Amigo") [] = true.
Proof. vm_compute. repeat split; reflexivity. Qed.

Example ex_count :
  lib_count (bs "cheese") (bs "e") = Some 3%Z /\ go_count (bs "cheese") (bs "e") = 3%Z /\
  lib_count (bs "five") [] = Some 5%Z /\ go_count (bs "five") [] = 5%Z /\
  lib_count (bs "aaaaa") (bs "aa") = Some 2%Z /\ go_count (bs "aaaaa") (bs "aa") = 2%Z.
Proof. vm_compute. repeat split; reflexivity. Qed.

Example ex_split :
  lib_split (bs "a,b,c") (bs ",") = Some [bs "a"; bs "b"; bs "c"] /\
  go_split (bs "a,b,c") (bs ",") = [bs "a"; bs "b"; bs "c"] /\
  lib_split (bs "a man a plan a canal panama") (bs "a ") =
    Some [[]; bs "man "; bs "plan "; bs "canal panama"] /\
  go_split (bs "a man a plan a canal panama") (bs "a ") =
    [[]; bs "man "; bs "plan "; bs "canal panama"] /\
  lib_split (bs " xyz ") [] = Some [bs " "; bs "x"; bs "y"; bs "z"; bs " "] /\
  go_split (bs " xyz ") [] = [bs " "; bs "x"; bs "y"; bs "z"; bs " "] /\
  lib_split [] (bs "Bernardo O'Higgins") = Some [[]] /\ go_split [] (bs "Bernardo O'Higgins") = [[]] /\
  lib_split (bs "abab") (bs "ab") = Some [[]; []; []] /\ go_split (bs "abab") (bs "ab") = [[]; []; []] /\
  lib_split [] [] = Some [] /\ go_split [] [] = [].
Proof. vm_compute. repeat split; reflexivity. Qed.

Example ex_repeat :
  lib_repeat (bs "na") 2 = Some (bs "nana") /\ go_repeat (bs "na") 2 = bs "nana" /\
  lib_repeat (bs "na") 0 = Some [] /\ go_repeat (bs "na") 0 = [].
Proof. vm_compute. repeat split; reflexivity. Qed.

Example ex_replace :
  lib_replace (bs "oink oink oink") (bs "k") (bs "ky") 2 = Some (bs "oinky oinky oink") /\
  go_replace (bs "oink oink oink") (bs "k") (bs "ky") 2 = bs "oinky oinky oink" /\
  lib_replace (bs "oink oink oink") (bs "oink") (bs "moo") (-1) = Some (bs "moo moo moo") /\
  go_replace (bs "oink oink oink") (bs "oink") (bs "moo") (-1) = bs "moo moo moo" /\
  lib_replace (bs "ab") [] (bs "-") (-1) = Some (bs "-a-b-") /\ go_replace (bs "ab") [] (bs "-") (-1) = bs "-a-b-" /\
  lib_replace (bs "ab") [] (bs "-") 2 = Some (bs "-a-b") /\ go_replace (bs "ab") [] (bs "-") 2 = bs "-a-b" /\
  lib_replace (bs "ab") [] (bs "-") 0 = Some (bs "ab") /\ go_replace (bs "ab") [] (bs "-") 0 = bs "ab" /\
  lib_replace (bs "aaaa") (bs "aa") (bs "b") (-1) = Some (bs "bb") /\ go_replace (bs "aaaa") (bs "aa") (bs "b") (-1) = bs "bb".
Proof. vm_compute. repeat split; reflexivity. Qed.

Example ex_replace_all :
  lib_replace_all (bs "oink oink oink") (bs "oink") (bs "moo") = Some (bs "moo moo moo") /\
  go_replace_all (bs "oink oink oink") (bs "oink") (bs "moo") = bs "moo moo moo".
Proof. vm_compute. repeat split; reflexivity. Qed.

Example ex_cut :
  lib_cut (bs "Gopher") (bs "ph") = Some (bs "Go", bs "er", true) /\ go_cut (bs "Gopher") (bs "ph") = (bs "Go", bs "er", true) /\
  lib_cut (bs "Gopher") (bs "Badger") = Some (bs "Gopher", [], false) /\ go_cut (bs "Gopher") (bs "Badger") = (bs "Gopher", [], false) /\
  lib_cut [] [] = Some ([], [], true) /\ go_cut [] [] = ([], [], true).
Proof. vm_compute. repeat split; reflexivity. Qed.

Example ex_cut_prefix :
  lib_cut_prefix (bs "Gopher") (bs "Go") = Some (bs "pher", true) /\ go_cut_prefix (bs "Gopher") (bs "Go") = (bs "pher", true) /\
  lib_cut_prefix (bs "Gopher") (bs "ph") = Some (bs "Gopher", false) /\ go_cut_prefix (bs "Gopher") (bs "ph") = (bs "Gopher", false).
Proof. vm_compute. repeat split; reflexivity. Qed.

Example ex_cut_suffix :
  lib_cut_suffix (bs "Gopher") (bs "er") = Some (bs "Goph", true) /\ go_cut_suffix (bs "Gopher") (bs "er") = (bs "Goph", true) /\
  lib_cut_suffix (bs "Gopher") (bs "Go") = Some (bs "Gopher", false) /\ go_cut_suffix (bs "Gopher") (bs "Go") = (bs "Gopher", false).
Proof. vm_compute. repeat split; reflexivity. Qed.

Example ex_trim_prefix_suffix :
  lib_trim_prefix (bs "xxhixx") (bs "xx") = Some (bs "hixx") /\ go_trim_prefix (bs "xxhixx") (bs "xx") = bs "hixx" /\
  lib_trim_suffix (bs "xxhixx") (bs "xx") = Some (bs "xxhi") /\ go_trim_suffix (bs "xxhixx") (bs "xx") = bs "xxhi".
Proof. vm_compute. repeat split; reflexivity. Qed.

Example ex_trim :
  lib_trim_left (bs "!!Hello, Gophers!!") (bs "!") = Some (bs "Hello, Gophers!!") /\
  go_trim_left (bs "!!Hello, Gophers!!") (bs "!") = bs "Hello, Gophers!!" /\
  lib_trim_right (bs "!!Hello, Gophers!!") (bs "!") = Some (bs "!!Hello, Gophers") /\
  go_trim_right (bs "!!Hello, Gophers!!") (bs "!") = bs "!!Hello, Gophers" /\
  lib_trim (bs "abcba") (bs "ba") = Some (bs "c") /\ go_trim (bs "abcba") (bs "ba") = bs "c" /\
  lib_trim_space [32; 9; 10; 72; 105; 32; 33; 13; 10; 11; 12] = Some [72; 105; 32; 33] /\
  go_trim_space [32; 9; 10; 72; 105; 32; 33; 13; 10; 11; 12] = [72; 105; 32; 33].
Proof. vm_compute. repeat split; reflexivity. Qed.

(* ------------------------------------------------------------------ *)
Print Assumptions lib_index_correct.
Print Assumptions lib_contains_correct.
Print Assumptions lib_join_correct.
Print Assumptions lib_has_prefix_correct.
Print Assumptions lib_has_suffix_correct.
Print Assumptions lib_count_correct.
Print Assumptions lib_split_correct.
Print Assumptions lib_repeat_correct.
Print Assumptions lib_replace_correct.
Print Assumptions lib_replace_all_correct.
Print Assumptions lib_cut_correct.
Print Assumptions lib_cut_prefix_correct.
Print Assumptions lib_cut_suffix_correct.
Print Assumptions lib_trim_prefix_correct.
Print Assumptions lib_trim_suffix_correct.
Print Assumptions lib_trim_left_correct.
Print Assumptions lib_trim_right_correct.
Print Assumptions lib_trim_correct.
Print Assumptions lib_trim_space_correct.
