(* C15 -- the transliterated library (StrLib.v) returns what Go's strings
   package returns (GoStrings.v), for ALL arguments.

   Each theorem has the form   lib_f args = Some (go_f args) ;  in particular
   the fuel passed inside lib_f always suffices and no substring expression of
   the library fails in Bash.  Exceptions, where the library differs from Go
   (see NOTES.md): Replace with old = "" and n = 0, and Split. *)
From Verif Require Import Base.Bytestr Lib.GoStrings Lib.StrLib.
From Coq Require Import ZArith ZifyBool ZifyNat.

(* ------------------------------------------------------------------ *)
(* Lists                                                                *)

Lemma skipn_cons_inv (i : nat) (s : bytes) c t :
  skipn i s = c :: t -> skipn (S i) s = t /\ (i < length s)%nat.
Proof.
  revert s. induction i as [|i IH]; intros s H.
  - cbn [skipn] in H. subst s. split; [reflexivity|cbn [length]; lia].
  - destruct s as [|x s]; [discriminate|]. cbn [skipn] in H.
    destruct (IH s H) as [H1 H2]. split; [exact H1|cbn [length]; lia].
Qed.

Lemma skipn_nil_inv (i : nat) (s : bytes) : skipn i s = [] -> (length s <= i)%nat.
Proof.
  revert s. induction i as [|i IH]; intros s H.
  - cbn [skipn] in H. subst s. cbn [length]. lia.
  - destruct s as [|x s]; [cbn [length]; lia|]. cbn [skipn] in H.
    specialize (IH s H). cbn [length]. lia.
Qed.

Lemma skipn_skipn_add (i j : nat) (s : bytes) : skipn j (skipn i s) = skipn (i + j) s.
Proof.
  revert s. induction i as [|i IH]; intros s; [reflexivity|].
  destruct s as [|x s]; [rewrite !skipn_nil; reflexivity|]. cbn [skipn Nat.add]. apply IH.
Qed.

Lemma skipn_app_exact (a b : bytes) : skipn (length a) (a ++ b) = b.
Proof. induction a as [|x a IH]; [reflexivity|exact IH]. Qed.

Lemma firstn_app_exact (a b : bytes) : firstn (length a) (a ++ b) = a.
Proof. induction a as [|x a IH]; [destruct b; reflexivity|cbn [length firstn app]; f_equal; exact IH]. Qed.

(* ------------------------------------------------------------------ *)
(* Substrings that stay inside the string                               *)

Lemma zlen_nonneg s : (0 <= zlen s)%Z.
Proof. unfold zlen. lia. Qed.

(* deciding the integer tests of [tsh_sub] from the hypotheses *)
Ltac ztest b v := replace b with v by (unfold zlen in *; lia); cbv iota; cbn [orb andb].

(* s[lo:hi] with 0 <= lo <= hi and lo <= len(s) *)
Lemma tsh_sub_mid s lo hi :
  (0 <= lo <= hi)%Z -> (lo <= zlen s)%Z ->
  tsh_sub s lo (Some hi) = Some (firstn (Z.to_nat (hi - lo)) (skipn (Z.to_nat lo) s)).
Proof.
  intros H1 H2. unfold tsh_sub. cbv zeta.
  ztest (lo <? 0)%Z false. ztest (lo <? 0)%Z false. ztest (zlen s <? lo)%Z false.
  ztest (0 <=? hi - lo)%Z true. reflexivity.
Qed.

(* s[:hi] *)
Lemma tsh_sub_prefix s hi :
  (0 <= hi)%Z -> tsh_sub s 0%Z (Some hi) = Some (firstn (Z.to_nat hi) s).
Proof.
  intros H. rewrite tsh_sub_mid by (pose proof (zlen_nonneg s); lia).
  rewrite Z.sub_0_r. reflexivity.
Qed.

(* s[lo:] with 0 <= lo <= len(s) *)
Lemma tsh_sub_from s lo :
  (0 <= lo <= zlen s)%Z -> tsh_sub s lo None = Some (skipn (Z.to_nat lo) s).
Proof.
  intros H. unfold tsh_sub. cbv zeta.
  ztest (lo <? 0)%Z false. ztest (lo <? 0)%Z false. ztest (zlen s <? lo)%Z false.
  ztest (0 <=? zlen s - lo)%Z true.
  f_equal. apply firstn_all2. rewrite skipn_length. unfold zlen in *. lia.
Qed.

(* s[-l:] with 0 < l <= len(s): the last l bytes *)
Lemma tsh_sub_last s l :
  (0 < l <= zlen s)%Z ->
  tsh_sub s (l * -1)%Z None = Some (skipn (length s - Z.to_nat l) s).
Proof.
  intros H. unfold tsh_sub. cbv zeta.
  ztest (l * -1 <? 0)%Z true. ztest (l * -1 + zlen s <? 0)%Z false.
  ztest (zlen s <? l * -1 + zlen s)%Z false.
  ztest (0 <=? zlen s - l * -1)%Z true.
  replace (Z.to_nat (l * -1 + zlen s)) with (length s - Z.to_nat l)%nat by (unfold zlen in *; lia).
  f_equal. apply firstn_all2. rewrite skipn_length. unfold zlen in *. lia.
Qed.

(* s[i] for 0 <= i, also beyond the end: the first byte of s[i:], if any *)
Lemma tsh_at_nonneg s i :
  (0 <= i)%Z -> tsh_at s i = Some (firstn 1 (skipn (Z.to_nat i) s)).
Proof.
  intros H. unfold tsh_at, tsh_sub. cbv zeta.
  ztest (i <? 0)%Z false. ztest (i <? 0)%Z false.
  destruct (Z.ltb_spec (zlen s) i) as [Hm|Hm].
  - rewrite skipn_all2 by (unfold zlen in *; lia). reflexivity.
  - ztest (0 <=? i + 1 - i)%Z true.
    replace (i + 1 - i)%Z with 1%Z by lia. reflexivity.
Qed.

(* ------------------------------------------------------------------ *)
(* Prefixes and suffixes                                                *)

Lemma has_prefix_length p s : has_prefix p s = true -> (length p <= length s)%nat.
Proof.
  intros H. apply has_prefix_true in H as [r Hr]. subst s. rewrite app_length. lia.
Qed.

Lemma has_prefix_firstn p s : has_prefix p s = beq (firstn (length p) s) p.
Proof.
  unfold has_prefix. revert s. induction p as [|x p IH]; intros s; [reflexivity|].
  destruct s as [|y s]; [reflexivity|]. cbn [strip_prefix length firstn beq].
  rewrite (N.eqb_sym y x). destruct (x =? y); [apply IH|reflexivity].
Qed.

Lemma strip_prefix_skipn p s r : strip_prefix p s = Some r -> skipn (length p) s = r.
Proof. intros H. apply strip_prefix_some in H. subst s. apply skipn_app_exact. Qed.

Lemma has_prefix_strip p s :
  has_prefix p s = true -> strip_prefix p s = Some (skipn (length p) s).
Proof.
  unfold has_prefix. destruct (strip_prefix p s) as [r|] eqn:E; [|discriminate].
  intros _. rewrite (strip_prefix_skipn _ _ _ E). reflexivity.
Qed.

Lemma has_prefix_false_strip p s : has_prefix p s = false -> strip_prefix p s = None.
Proof. unfold has_prefix. destruct (strip_prefix p s); [discriminate|reflexivity]. Qed.

Theorem lib_has_prefix_correct s prefix :
  lib_has_prefix s prefix = Some (go_has_prefix s prefix).
Proof.
  unfold lib_has_prefix, go_has_prefix.
  destruct (Z.geb_spec (zlen s) (zlen prefix)) as [H|H].
  - rewrite tsh_sub_prefix by apply zlen_nonneg.
    unfold zlen. rewrite Nat2Z.id. rewrite has_prefix_firstn. reflexivity.
  - destruct (has_prefix prefix s) eqn:E; [|reflexivity].
    apply has_prefix_length in E. unfold zlen in H. lia.
Qed.

Theorem lib_has_suffix_correct s suffix :
  lib_has_suffix s suffix = Some (go_has_suffix s suffix).
Proof.
  unfold lib_has_suffix, go_has_suffix.
  destruct (Z.eqb_spec (zlen suffix) 0) as [H0|H0].
  - destruct suffix as [|x r]; [|unfold zlen in H0; cbn [length] in H0; lia].
    cbn [length]. rewrite Nat.sub_0_r, skipn_all. reflexivity.
  - destruct (Z.geb_spec (zlen s) (zlen suffix)) as [H|H].
    + rewrite tsh_sub_last by (pose proof (zlen_nonneg suffix); lia).
      unfold zlen in *. rewrite Nat2Z.id.
      replace (length suffix <=? length s)%nat with true by (symmetry; apply Nat.leb_le; lia).
      reflexivity.
    + replace (length suffix <=? length s)%nat with false
        by (symmetry; apply Nat.leb_gt; unfold zlen in H; lia).
      reflexivity.
Qed.

Theorem lib_cut_prefix_correct s prefix :
  lib_cut_prefix s prefix = Some (go_cut_prefix s prefix).
Proof.
  unfold lib_cut_prefix, go_cut_prefix. rewrite lib_has_prefix_correct. unfold go_has_prefix.
  destruct (has_prefix prefix s) eqn:E.
  - pose proof (has_prefix_length _ _ E) as Hl.
    rewrite tsh_sub_from by (unfold zlen; lia).
    rewrite (has_prefix_strip _ _ E). unfold zlen. rewrite Nat2Z.id. reflexivity.
  - rewrite (has_prefix_false_strip _ _ E). reflexivity.
Qed.

Theorem lib_cut_suffix_correct s suffix :
  lib_cut_suffix s suffix = Some (go_cut_suffix s suffix).
Proof.
  unfold lib_cut_suffix, go_cut_suffix. rewrite lib_has_suffix_correct.
  destruct (go_has_suffix s suffix) eqn:E; [|reflexivity].
  apply go_has_suffix_true in E as [a Ha].
  assert (Hl : (length suffix <= length s)%nat) by (subst s; rewrite app_length; lia).
  rewrite tsh_sub_prefix by (unfold zlen; lia).
  unfold zlen. replace (Z.to_nat (Z.of_nat (length s) - Z.of_nat (length suffix)))
    with (length s - length suffix)%nat by lia.
  reflexivity.
Qed.

Theorem lib_trim_prefix_correct s prefix :
  lib_trim_prefix s prefix = Some (go_trim_prefix s prefix).
Proof.
  unfold lib_trim_prefix, go_trim_prefix. rewrite lib_cut_prefix_correct.
  destruct (go_cut_prefix s prefix) as [r c]. reflexivity.
Qed.

Theorem lib_trim_suffix_correct s suffix :
  lib_trim_suffix s suffix = Some (go_trim_suffix s suffix).
Proof.
  unfold lib_trim_suffix, go_trim_suffix. rewrite lib_cut_suffix_correct.
  destruct (go_cut_suffix s suffix) as [r c]. reflexivity.
Qed.

(* ------------------------------------------------------------------ *)
(* Repeat                                                               *)

Lemma repeat_loop_spec s count :
  forall (k fuel : nat) (i : Z) (new : bytes),
    (0 <= i)%Z -> (i + Z.of_nat k = count)%Z -> (k < fuel)%nat ->
    repeat_loop fuel s count i new = Some (new ++ concat (repeat s k)).
Proof.
  induction k as [|k IH]; intros fuel i new Hi Hk Hf.
  - destruct fuel as [|fuel]; [lia|]. cbn [repeat_loop].
    ztest (i <? count)%Z false. cbn [repeat concat]. rewrite app_nil_r. reflexivity.
  - destruct fuel as [|fuel]; [lia|]. cbn [repeat_loop].
    ztest (i <? count)%Z true. rewrite (IH fuel (i + 1)%Z) by lia.
    cbn [repeat concat]. rewrite app_assoc. reflexivity.
Qed.

Theorem lib_repeat_correct s count :
  (0 <= count)%Z -> lib_repeat s count = Some (go_repeat s count).
Proof.
  intros H. unfold lib_repeat, go_repeat.
  rewrite (repeat_loop_spec s count (Z.to_nat count)) by lia. reflexivity.
Qed.

(* ------------------------------------------------------------------ *)
(* Join                                                                 *)

Lemma join_loop_spec sep :
  forall (rest pre : list bytes) (fuel : nat) (acc : bytes),
    (length rest < fuel)%nat ->
    join_loop fuel (pre ++ rest) sep (Z.of_nat (length (pre ++ rest))) (Z.of_nat (length pre)) acc
    = Some (acc ++ join sep rest).
Proof.
  induction rest as [|e rest IH]; intros pre fuel acc Hf.
  - destruct fuel as [|fuel]; [lia|]. cbn [join_loop].
    rewrite app_nil_r. rewrite Z.ltb_irrefl. cbn [join]. rewrite app_nil_r. reflexivity.
  - destruct fuel as [|fuel]; [cbn [length] in Hf; lia|]. cbn [join_loop].
    assert (Hlen : length (pre ++ e :: rest) = (length pre + S (length rest))%nat)
      by (rewrite app_length; reflexivity).
    ztest (Z.of_nat (length pre) <? Z.of_nat (length (pre ++ e :: rest)))%Z true.
    unfold slice_get. ztest (Z.of_nat (length pre) <? 0)%Z false.
    rewrite Nat2Z.id. rewrite nth_error_app2 by lia. rewrite Nat.sub_diag. cbn [nth_error].
    replace (pre ++ e :: rest) with ((pre ++ [e]) ++ rest) by (rewrite <- app_assoc; reflexivity).
    replace (Z.of_nat (length pre) + 1)%Z with (Z.of_nat (length (pre ++ [e])))
      by (rewrite app_length; cbn [length]; lia).
    assert (Hlen2 : length ((pre ++ [e]) ++ rest) = (length pre + S (length rest))%nat)
      by (rewrite !app_length; cbn [length]; lia).
    destruct rest as [|e2 rest]; cbn [length] in Hlen2.
    + ztest (Z.of_nat (length pre) <? Z.of_nat (length ((pre ++ [e]) ++ [])) - 1)%Z false.
      rewrite IH by (cbn [length] in *; lia). cbn [join]. rewrite app_nil_r. reflexivity.
    + ztest (Z.of_nat (length pre) <? Z.of_nat (length ((pre ++ [e]) ++ e2 :: rest)) - 1)%Z true.
      rewrite IH by (cbn [length] in *; lia).
      change (join sep (e :: e2 :: rest)) with (e ++ sep ++ join sep (e2 :: rest)).
      rewrite <- !app_assoc. reflexivity.
Qed.

Theorem lib_join_correct elems sep :
  lib_join elems sep = Some (go_join elems sep).
Proof.
  unfold lib_join, go_join.
  exact (join_loop_spec sep elems [] (S (length elems)) [] (Nat.lt_succ_diag_r _)).
Qed.

(* ------------------------------------------------------------------ *)
(* Index, Contains, Cut                                                 *)

Lemma has_prefix_nil s : has_prefix [] s = true.
Proof. reflexivity. Qed.

Lemma has_prefix_cons_nil d p : has_prefix (d :: p) [] = false.
Proof. reflexivity. Qed.

Lemma has_prefix_cons d p c t :
  has_prefix (d :: p) (c :: t) = (c =? d) && has_prefix p t.
Proof.
  unfold has_prefix. cbn [strip_prefix]. rewrite (N.eqb_sym c d).
  destruct (d =? c); reflexivity.
Qed.

(* the inner loop compares substr[j:] with s[i+j:] and stops at the first
   difference; it gets to j = sul exactly when substr[j:] is a prefix there *)
Lemma index_inner_spec s substr (i : nat) :
  forall (p pre : bytes) (fuel : nat),
    substr = pre ++ p -> (length p < fuel)%nat ->
    exists j' : Z,
      index_inner fuel s substr (zlen substr) (Z.of_nat i) (Z.of_nat (length pre)) = Some j' /\
      (j' =? zlen substr)%Z = has_prefix p (skipn (i + length pre) s).
Proof.
  induction p as [|d p IH]; intros pre fuel Hsub Hf.
  - destruct fuel as [|fuel]; [lia|]. cbn [index_inner].
    rewrite app_nil_r in Hsub. subst pre. unfold zlen at 1. rewrite Z.ltb_irrefl.
    exists (Z.of_nat (length substr)). split; [reflexivity|].
    unfold zlen. rewrite Z.eqb_refl. reflexivity.
  - destruct fuel as [|fuel]; [lia|]. cbn [index_inner].
    assert (Hlen : length substr = (length pre + S (length p))%nat)
      by (subst substr; rewrite app_length; reflexivity).
    ztest (Z.of_nat (length pre) <? zlen substr)%Z true.
    rewrite (tsh_at_nonneg s) by lia. rewrite (tsh_at_nonneg substr) by lia.
    replace (Z.to_nat (Z.of_nat i + Z.of_nat (length pre))) with (i + length pre)%nat by lia.
    rewrite Nat2Z.id. cbv iota beta.
    replace (skipn (length pre) substr) with (d :: p) by (subst substr; rewrite skipn_app_exact; reflexivity).
    destruct (skipn (i + length pre) s) as [|c t] eqn:Et.
    + cbn [firstn beq negb]. exists (Z.of_nat (length pre)). split; [reflexivity|].
      rewrite has_prefix_cons_nil. unfold zlen. lia.
    + cbn [firstn beq]. rewrite andb_true_r. rewrite has_prefix_cons.
      destruct (c =? d) eqn:Ecd; cbn [negb andb].
      * destruct (skipn_cons_inv _ _ _ _ Et) as [Et' _].
        destruct (IH (pre ++ [d]) fuel) as [j' [Hj1 Hj2]].
        { rewrite <- app_assoc. exact Hsub. }
        { cbn [length] in Hf. lia. }
        rewrite app_length in Hj1, Hj2. cbn [length] in Hj1, Hj2.
        replace (Z.of_nat (length pre + 1)) with (Z.of_nat (length pre) + 1)%Z in Hj1 by lia.
        replace (i + (length pre + 1))%nat with (S (i + length pre)) in Hj2 by lia.
        rewrite Et' in Hj2. exists j'. split; assumption.
      * exists (Z.of_nat (length pre)). split; [reflexivity|]. unfold zlen. lia.
Qed.

Lemma index_outer_spec s substr :
  substr <> [] ->
  forall (t : bytes) (i fuel : nat),
    skipn i s = t -> (length t < fuel)%nat ->
    index_outer fuel s substr (zlen substr) (Z.of_nat i) (-1)%Z
    = Some (match index_nat t substr with Some k => Z.of_nat (i + k) | None => (-1)%Z end).
Proof.
  intros Hne. induction t as [|c t IH]; intros i fuel Ht Hf.
  - destruct fuel as [|fuel]; [lia|]. cbn [index_outer].
    apply skipn_nil_inv in Ht. ztest (Z.of_nat i <? zlen s)%Z false.
    cbn [index_nat]. destruct substr as [|d p]; [congruence|]. rewrite has_prefix_cons_nil. reflexivity.
  - destruct fuel as [|fuel]; [lia|]. cbn [index_outer].
    destruct (skipn_cons_inv _ _ _ _ Ht) as [Ht' Hi].
    ztest (Z.of_nat i <? zlen s)%Z true.
    destruct (index_inner_spec s substr i substr [] (S (length substr)) eq_refl (Nat.lt_succ_diag_r _))
      as [j' [Hj1 Hj2]].
    cbn [length] in Hj1, Hj2. change (Z.of_nat 0) with 0%Z in Hj1. rewrite Hj1. cbv iota beta.
    rewrite Nat.add_0_r, Ht in Hj2. rewrite Hj2. cbn [index_nat].
    destruct (has_prefix substr (c :: t)).
    + rewrite Nat.add_0_r. reflexivity.
    + replace (Z.of_nat i + 1)%Z with (Z.of_nat (S i)) by lia.
      rewrite (IH (S i) fuel Ht') by (cbn [length] in Hf; lia).
      destruct (index_nat t substr) as [k|]; cbn [option_map]; [|reflexivity].
      f_equal. lia.
Qed.

Theorem lib_index_correct s substr :
  lib_index s substr = Some (go_index s substr).
Proof.
  unfold lib_index, go_index.
  destruct (Z.eqb_spec (zlen substr) 0) as [H0|H0].
  - destruct substr as [|x r]; [|unfold zlen in H0; cbn [length] in H0; lia].
    destruct s; reflexivity.
  - assert (Hne : substr <> []) by (intros E; subst substr; apply H0; reflexivity).
    change 0%Z with (Z.of_nat 0).
    rewrite (index_outer_spec s substr Hne s 0 (S (length s)) eq_refl (Nat.lt_succ_diag_r _)).
    destruct (index_nat s substr); reflexivity.
Qed.

Theorem lib_contains_correct s substr :
  lib_contains s substr = Some (go_contains s substr).
Proof.
  unfold lib_contains, go_contains. rewrite lib_index_correct. unfold go_index.
  destruct (index_nat s substr) as [k|]; f_equal; lia.
Qed.

Theorem lib_cut_correct s sep :
  lib_cut s sep = Some (go_cut s sep).
Proof.
  unfold lib_cut, go_cut. rewrite lib_index_correct. unfold go_index.
  rewrite find_first_index.
  destruct (find_first sep s) as [[b a]|] eqn:E; cbn [option_map fst].
  - apply find_first_some in E. ztest (Z.of_nat (length b) >=? 0)%Z true.
    rewrite tsh_sub_prefix by lia. rewrite Nat2Z.id.
    rewrite tsh_sub_from by (subst s; unfold zlen; rewrite !app_length; lia).
    unfold zlen. replace (Z.to_nat (Z.of_nat (length b) + Z.of_nat (length sep)))
      with (length b + length sep)%nat by lia.
    subst s. rewrite firstn_app_exact.
    rewrite <- skipn_skipn_add, !skipn_app_exact. reflexivity.
  - reflexivity.
Qed.

(* ------------------------------------------------------------------ *)
(* Scanning with find_first: what happens at one position               *)

Lemma find_first_match sub s :
  has_prefix sub s = true -> find_first sub s = Some ([], skipn (length sub) s).
Proof.
  intros H. apply has_prefix_strip in H. destruct s as [|c r]; cbn [find_first]; rewrite H; reflexivity.
Qed.

Lemma find_first_skip sub c r :
  has_prefix sub (c :: r) = false ->
  find_first sub (c :: r) =
  match find_first sub r with Some (b, a) => Some (c :: b, a) | None => None end.
Proof. intros H. apply has_prefix_false_strip in H. cbn [find_first]. rewrite H. reflexivity. Qed.

Lemma find_first_nil sub : sub <> [] -> find_first sub [] = None.
Proof. intros H. destruct sub as [|d p]; [congruence|reflexivity]. Qed.

Lemma find_first_length sub s b a :
  find_first sub s = Some (b, a) -> length s = (length b + length sub + length a)%nat.
Proof. intros H. apply find_first_some in H. subst s. rewrite !app_length. lia. Qed.

(* ------------------------------------------------------------------ *)
(* Count                                                                *)

Lemma count_matches_fuel sub :
  sub <> [] ->
  forall (k1 k2 : nat) (s : bytes),
    (length s <= k1)%nat -> (length s <= k2)%nat ->
    count_matches k1 sub s = count_matches k2 sub s.
Proof.
  intros Hne. assert (Hl : (0 < length sub)%nat) by (destruct sub; [congruence|cbn [length]; lia]).
  induction k1 as [|k1 IH]; intros k2 s H1 H2.
  - destruct s as [|x s]; [|cbn [length] in H1; lia].
    destruct k2 as [|k2]; [reflexivity|]. cbn [count_matches]. rewrite find_first_nil by exact Hne. reflexivity.
  - destruct k2 as [|k2].
    + destruct s as [|x s]; [|cbn [length] in H2; lia].
      cbn [count_matches]. rewrite find_first_nil by exact Hne. reflexivity.
    + cbn [count_matches]. destruct (find_first sub s) as [[b a]|] eqn:E; [|reflexivity].
      apply find_first_length in E. f_equal. apply IH; lia.
Qed.

Lemma count_matches_S k sub s :
  count_matches (S k) sub s =
  match find_first sub s with None => O | Some (_, a) => S (count_matches k sub a) end.
Proof. reflexivity. Qed.

Lemma count_skip sub x r :
  sub <> [] -> has_prefix sub (x :: r) = false ->
  count_matches (S (length r)) sub (x :: r) = count_matches (length r) sub r.
Proof.
  intros Hne E. assert (Hl : (0 < length sub)%nat) by (destruct sub; [congruence|cbn [length]; lia]).
  rewrite count_matches_S, find_first_skip by exact E.
  destruct (find_first sub r) as [[b a]|] eqn:F.
  - pose proof (find_first_length _ _ _ _ F) as Hlen.
    destruct (length r) as [|m] eqn:El; [lia|]. rewrite count_matches_S, F. f_equal.
    apply count_matches_fuel; [exact Hne|lia|lia].
  - destruct (length r) as [|m]; [reflexivity|]. rewrite count_matches_S, F. reflexivity.
Qed.

Lemma count_loop_spec s substr :
  substr <> [] ->
  forall (fuel i : nat) (t : bytes) (c : Z),
    skipn i s = t -> (length t < fuel)%nat ->
    count_loop fuel s substr (zlen s) (zlen substr) (Z.of_nat i) c
    = Some (c + Z.of_nat (count_matches (length t) substr t))%Z.
Proof.
  intros Hne. assert (Hl : (0 < length substr)%nat) by (destruct substr; [congruence|cbn [length]; lia]).
  induction fuel as [|fuel IH]; intros i t c Ht Hf; [lia|]. cbn [count_loop].
  destruct t as [|x r].
  - apply skipn_nil_inv in Ht. ztest (Z.of_nat i <? zlen s)%Z false.
    cbn [length count_matches]. f_equal. lia.
  - destruct (skipn_cons_inv _ _ _ _ Ht) as [Ht' Hi].
    ztest (Z.of_nat i <? zlen s)%Z true.
    rewrite tsh_sub_from by (unfold zlen; lia). rewrite Nat2Z.id, Ht.
    rewrite lib_has_prefix_correct. unfold go_has_prefix. cbv iota beta.
    change (length (x :: r)) with (S (length r)).
    destruct (has_prefix substr (x :: r)) eqn:E.
    + rewrite count_matches_S, (find_first_match _ _ E).
      pose proof (has_prefix_length _ _ E) as Hle.
      assert (Hrl : length (skipn (length substr) (x :: r)) = (length (x :: r) - length substr)%nat)
        by apply skipn_length.
      cbn [length] in Hle, Hrl, Hf.
      replace (Z.of_nat i + zlen substr)%Z with (Z.of_nat (i + length substr)) by (unfold zlen; lia).
      rewrite (IH (i + length substr)%nat (skipn (length substr) (x :: r))).
      * f_equal. rewrite (count_matches_fuel substr Hne (length r) (length (skipn (length substr) (x :: r)))) by lia. lia.
      * rewrite <- Ht. apply eq_sym, skipn_skipn_add.
      * lia.
    + rewrite (count_skip _ _ _ Hne E).
      replace (Z.of_nat i + 1)%Z with (Z.of_nat (S i)) by lia.
      apply (IH (S i) r c Ht'). cbn [length] in Hf. lia.
Qed.

Theorem lib_count_correct s substr :
  lib_count s substr = Some (go_count s substr).
Proof.
  unfold lib_count, go_count.
  destruct substr as [|d p]; [reflexivity|].
  ztest (zlen (d :: p) =? 0)%Z false.
  change 0%Z with (Z.of_nat 0) at 1.
  rewrite (count_loop_spec s (d :: p) ltac:(discriminate) (S (length s)) 0 s 0%Z eq_refl (Nat.lt_succ_diag_r _)).
  reflexivity.
Qed.
