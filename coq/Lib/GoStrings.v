(* C15 -- SPECIFICATION of the functions of Go's package [strings] that
   TypeShell's bundled std/strings.tsh re-implements, over ASCII byte strings.

   Strings are [bytes] (lists of N, see Base/Bytestr.v), []string is
   [list bytes], int is Z, multiple results are tuples.

   Everything here is meant to be read against the Go documentation / the Go
   source (strings/strings.go), not against TypeShell.  For ASCII input a
   "UTF-8 sequence" / "Unicode code point" of the Go documentation is one byte.
   The values of these definitions were compared with the real Go functions
   on some 40 000 small inputs (see NOTES.md, "validation").

   The three scanning functions Count, Split, Replace follow Go's own
   implementation: find the leftmost occurrence with Index, consume it,
   continue behind it ([find_first]).  The recursion behind a match is not
   structural, so they carry a counter; its initial value is justified where
   it is chosen. *)
From Verif Require Import Base.Bytestr.
From Coq Require Import ZArith.

Definition zlen (s : bytes) : Z := Z.of_nat (length s).

(* ------------------------------------------------------------------ *)
(* HasPrefix, HasSuffix                                                 *)

(* func HasPrefix(s, prefix string) bool
     return len(s) >= len(prefix) && s[:len(prefix)] == prefix *)
Definition go_has_prefix (s prefix : bytes) : bool := has_prefix prefix s.

(* func HasSuffix(s, suffix string) bool
     return len(s) >= len(suffix) && s[len(s)-len(suffix):] == suffix *)
Definition go_has_suffix (s suffix : bytes) : bool :=
  (length suffix <=? length s)%nat && beq (skipn (length s - length suffix) s) suffix.

(* ------------------------------------------------------------------ *)
(* Index, Contains                                                      *)

(* "Index returns the index of the first instance of substr in s, or -1 if
   substr is not present in s."  Position 0 is tried first, then the same
   question for the tail, one further to the right. *)
Fixpoint index_nat (s substr : bytes) : option nat :=
  if has_prefix substr s then Some O
  else match s with
       | [] => None
       | _ :: r => option_map S (index_nat r substr)
       end.

Definition go_index (s substr : bytes) : Z :=
  match index_nat s substr with Some i => Z.of_nat i | None => (-1)%Z end.

(* func Contains(s, substr string) bool { return Index(s, substr) >= 0 } *)
Definition go_contains (s substr : bytes) : bool :=
  match index_nat s substr with Some _ => true | None => false end.

(* The leftmost occurrence of [sub] in [s], as the text before it and the
   text behind it:  s = before ++ sub ++ after. *)
Fixpoint find_first (sub s : bytes) : option (bytes * bytes) :=
  match strip_prefix sub s with
  | Some after => Some ([], after)
  | None =>
      match s with
      | [] => None
      | c :: r =>
          match find_first sub r with
          | Some (before, after) => Some (c :: before, after)
          | None => None
          end
      end
  end.

(* ------------------------------------------------------------------ *)
(* Join, Repeat                                                         *)

(* "Join concatenates the elements of its first argument to create a single
   string. The separator string sep is placed between elements." *)
Definition go_join (elems : list bytes) (sep : bytes) : bytes := join sep elems.

(* "Repeat returns a new string consisting of count copies of the string s.
   It panics if count is negative": only meaningful for 0 <= count. *)
Definition go_repeat (s : bytes) (count : Z) : bytes :=
  concat (repeat s (Z.to_nat count)).

(* ------------------------------------------------------------------ *)
(* Count                                                                *)

(* "Count counts the number of non-overlapping instances of substr in s.
   If substr is an empty string, Count returns 1 + the number of Unicode code
   points in s."
   Go:  for { i := Index(s, substr); if i == -1 { return n }; n++; s = s[i+len(substr):] }
   [k] bounds the number of matches still possible. *)
Fixpoint count_matches (k : nat) (sub s : bytes) : nat :=
  match k with
  | O => O
  | S k' =>
      match find_first sub s with
      | None => O
      | Some (_, after) => S (count_matches k' sub after)
      end
  end.

(* a non-empty [substr] cannot occur more than [length s] times *)
Definition go_count (s substr : bytes) : Z :=
  match substr with
  | [] => (zlen s + 1)%Z
  | _ :: _ => Z.of_nat (count_matches (length s) substr s)
  end.

(* ------------------------------------------------------------------ *)
(* Split                                                                *)

(* "Split slices s into all substrings separated by sep and returns a slice of
   the substrings between those separators.
   If s does not contain sep and sep is not empty, Split returns a slice of
   length 1 whose only element is s.
   If sep is empty, Split splits after each UTF-8 sequence.  If both s and sep
   are empty, Split returns an empty slice."
   Go (genericSplit with n < 0, sep <> ""):
     for i < n { m := Index(s, sep); if m < 0 { break }; a[i] = s[:m]; s = s[m+len(sep):]; i++ }
     a[i] = s *)
Fixpoint split_matches (k : nat) (sep s : bytes) : list bytes :=
  match k with
  | O => [s]
  | S k' =>
      match find_first sep s with
      | None => [s]
      | Some (before, after) => before :: split_matches k' sep after
      end
  end.

(* With a non-empty [sep] every match consumes a byte, so after [length s]
   matches nothing is left to search. *)
Definition go_split (s sep : bytes) : list bytes :=
  match sep with
  | [] => map (fun c => [c]) s          (* explode; [] for the empty string *)
  | _ :: _ => split_matches (length s) sep s
  end.

(* ------------------------------------------------------------------ *)
(* Replace, ReplaceAll                                                  *)

(* "Replace returns a copy of the string s with the first n non-overlapping
   instances of old replaced by new.  If old is empty, it matches at the
   beginning of the string and after each UTF-8 sequence, yielding up to k+1
   replacements for a k-rune string.  If n < 0, there is no limit on the
   number of replacements." *)

(* [old] non-empty: at most [k] replacements, left to right *)
Fixpoint replace_matches (k : nat) (old new s : bytes) : bytes :=
  match k with
  | O => s
  | S k' =>
      match find_first old s with
      | None => s
      | Some (before, after) => before ++ new ++ replace_matches k' old new after
      end
  end.

(* [old] empty: [new] goes in front of the string and behind every byte, as long
   as the budget [k] lasts *)
Fixpoint replace_empty (k : nat) (new s : bytes) : bytes :=
  match k with
  | O => s
  | S k' =>
      new ++ match s with
             | [] => []
             | c :: r => c :: replace_empty k' new r
             end
  end.

(* There are never more than [length s + 1] places to replace, so that number
   stands for "no limit". *)
Definition go_replace (s old new : bytes) (n : Z) : bytes :=
  let k := if (n <? 0)%Z then S (length s) else Z.to_nat n in
  match old with
  | [] => replace_empty k new s
  | _ :: _ => replace_matches k old new s
  end.

(* func ReplaceAll(s, old, new string) string { return Replace(s, old, new, -1) } *)
Definition go_replace_all (s old new : bytes) : bytes := go_replace s old new (-1)%Z.

(* ------------------------------------------------------------------ *)
(* Cut, CutPrefix, CutSuffix, TrimPrefix, TrimSuffix                    *)

(* "Cut slices s around the first instance of sep, returning the text before
   and after sep. The found result reports whether sep appears in s. If sep
   does not appear in s, cut returns s, "", false." *)
Definition go_cut (s sep : bytes) : bytes * bytes * bool :=
  match find_first sep s with
  | Some (before, after) => (before, after, true)
  | None => (s, [], false)
  end.

(* "CutPrefix returns s without the provided leading prefix string and reports
   whether it found the prefix. If s doesn't start with prefix, CutPrefix
   returns s, false. If prefix is the empty string, CutPrefix returns s, true." *)
Definition go_cut_prefix (s prefix : bytes) : bytes * bool :=
  match strip_prefix prefix s with
  | Some rest => (rest, true)
  | None => (s, false)
  end.

(* func CutSuffix: if !HasSuffix(s, suffix) { return s, false }
                   return s[:len(s)-len(suffix)], true *)
Definition go_cut_suffix (s suffix : bytes) : bytes * bool :=
  if go_has_suffix s suffix then (firstn (length s - length suffix) s, true)
  else (s, false).

(* "TrimPrefix returns s without the provided leading prefix string. If s
   doesn't start with prefix, s is returned unchanged."  Same for the suffix. *)
Definition go_trim_prefix (s prefix : bytes) : bytes := fst (go_cut_prefix s prefix).
Definition go_trim_suffix (s suffix : bytes) : bytes := fst (go_cut_suffix s suffix).

(* ------------------------------------------------------------------ *)
(* TrimLeft, TrimRight, Trim, TrimSpace                                 *)

Fixpoint drop_while (p : N -> bool) (s : bytes) : bytes :=
  match s with
  | [] => []
  | c :: r => if p c then drop_while p r else s
  end.

Definition drop_while_end (p : N -> bool) (s : bytes) : bytes :=
  rev (drop_while p (rev s)).

(* membership of a byte in a cutset *)
Definition in_cutset (cutset : bytes) (c : N) : bool := existsb (N.eqb c) cutset.

(* "TrimLeft returns a slice of the string s with all leading Unicode code
   points contained in cutset removed."  TrimRight: trailing.  Trim: both. *)
Definition go_trim_left (s cutset : bytes) : bytes := drop_while (in_cutset cutset) s.
Definition go_trim_right (s cutset : bytes) : bytes := drop_while_end (in_cutset cutset) s.
Definition go_trim (s cutset : bytes) : bytes :=
  go_trim_right (go_trim_left s cutset) cutset.

(* "TrimSpace returns a slice of the string s, with all leading and trailing
   white space removed, as defined by Unicode."  For ASCII bytes Go's table is
     var asciiSpace = [256]uint8{'\t': 1, '\n': 1, '\v': 1, '\f': 1, '\r': 1, ' ': 1} *)
Definition is_go_space (c : N) : bool :=
  (c =? 9) || (c =? 10) || (c =? 11) || (c =? 12) || (c =? 13) || (c =? 32).

Definition go_trim_space (s : bytes) : bytes :=
  drop_while_end is_go_space (drop_while is_go_space s).

(* ------------------------------------------------------------------ *)
(* Sanity lemmas: the auxiliary definitions mean what their comments say. *)

Lemma has_prefix_true p s : has_prefix p s = true <-> exists r, s = p ++ r.
Proof.
  unfold has_prefix. split.
  - destruct (strip_prefix p s) as [r|] eqn:E; [|discriminate]. intros _.
    exists r. apply strip_prefix_some. exact E.
  - intros [r Hr]. subst s. rewrite strip_prefix_app. reflexivity.
Qed.

(* find_first really cuts around an occurrence ... *)
Lemma find_first_some sub s b a :
  find_first sub s = Some (b, a) -> s = b ++ sub ++ a.
Proof.
  revert b a. induction s as [|c r IH]; intros b a H; cbn [find_first] in H.
  - destruct (strip_prefix sub []) as [x|] eqn:E; [|discriminate].
    inversion H; subst. apply strip_prefix_some in E. exact E.
  - destruct (strip_prefix sub (c :: r)) as [x|] eqn:E.
    + inversion H; subst. apply strip_prefix_some in E. exact E.
    + destruct (find_first sub r) as [[b' a']|] eqn:F; [|discriminate].
      inversion H; subst. cbn [app]. f_equal. apply IH. reflexivity.
Qed.

(* ... the leftmost one, the one Index reports ... *)
Lemma find_first_index sub s :
  index_nat s sub = option_map (fun ba => length (fst ba)) (find_first sub s).
Proof.
  induction s as [|c r IH]; cbn [index_nat find_first]; unfold has_prefix.
  - destruct (strip_prefix sub []); reflexivity.
  - destruct (strip_prefix sub (c :: r)); [reflexivity|].
    rewrite IH. destruct (find_first sub r) as [[b a]|]; reflexivity.
Qed.

(* ... and Index returns a position where substr occurs, no earlier one does. *)
Lemma index_nat_some s sub i :
  index_nat s sub = Some i ->
  has_prefix sub (skipn i s) = true /\
  forall j, (j < i)%nat -> has_prefix sub (skipn j s) = false.
Proof.
  revert i. induction s as [|c r IH]; intros i H; cbn [index_nat] in H.
  - destruct (has_prefix sub []) eqn:E; [|discriminate]. inversion H; subst.
    split; [exact E|]. intros j Hj. lia.
  - destruct (has_prefix sub (c :: r)) eqn:E.
    + inversion H; subst. split; [exact E|]. intros j Hj. lia.
    + destruct (index_nat r sub) as [i'|] eqn:F; [|discriminate].
      cbn [option_map] in H. inversion H; subst.
      destruct (IH i' eq_refl) as [H1 H2]. split; [exact H1|].
      intros [|j] Hj; [exact E|]. apply H2. lia.
Qed.

Lemma index_nat_none s sub :
  index_nat s sub = None -> forall j, has_prefix sub (skipn j s) = false.
Proof.
  induction s as [|c r IH]; intros H j; cbn [index_nat] in H.
  - destruct (has_prefix sub []) eqn:E; [discriminate|]. destruct j; exact E.
  - destruct (has_prefix sub (c :: r)) eqn:E; [discriminate|].
    destruct (index_nat r sub) as [i'|] eqn:F; [discriminate|].
    destruct j as [|j]; [exact E|]. apply IH. reflexivity.
Qed.

Lemma go_has_suffix_true s suffix :
  go_has_suffix s suffix = true <-> exists a, s = a ++ suffix.
Proof.
  unfold go_has_suffix. rewrite andb_true_iff, beq_eq, Nat.leb_le. split.
  - intros [Hl He]. exists (firstn (length s - length suffix) s).
    pose proof (firstn_skipn (length s - length suffix) s) as Hfs.
    rewrite He in Hfs. symmetry. exact Hfs.
  - intros [a Ha]. subst s. rewrite app_length. split; [lia|].
    replace (length a + length suffix - length suffix)%nat with (length a) by lia.
    rewrite skipn_app, skipn_all, Nat.sub_diag. reflexivity.
Qed.
