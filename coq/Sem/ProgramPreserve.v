(* Whole programs (C01/C02 capstone): definitions and top-level statements in order.  If the interpreter of the source
   semantics (Sem/JRun.v: jprogram, with its name checks) answers for a program, the emitted script - run by the flat shell
   machine with the script's own functions as call oracle - prints exactly that. *)
From Verif Require Import Base.Bytestr Base.DecFacts Front.Ast Front.AstInd Back.BashLines Back.Transpile Back.BashConv Back.BashFacts
  Back.NameFacts Back.TraverseInv Back.BatchLabels Sem.Src Sem.SrcFacts Sem.BashSem Sem.ExprPreserve Sem.Words Sem.StmtPreserve Sem.FlatSem Sem.IfPreserve
  Sem.FlatLoop Sem.LoopPreserve Sem.CallPreserve Sem.JRun.
From Coq Require Import ZArith Lia Bool.
Open Scope N_scope.

(* ---- braces: every  name() {  has a number of its own, closing braces match ---- *)
Definition is_open (l : line) : bool := match l with LFuncOpen _ => true | _ => false end.
Definition is_closeb (l : line) : bool := match l with LClose => true | _ => false end.
Definition n_open (ls : list line) : nat := length (filter is_open ls).
Definition n_close (ls : list line) : nat := length (filter is_closeb ls).
Definition braces (s : bstate) : Prop :=
  n_open (b_code s) = b_func_counter s /\ (n_close (b_code s) + b_funcs s = b_func_counter s)%nat.

Lemma n_open_app a b : n_open (a ++ b) = (n_open a + n_open b)%nat.
Proof. unfold n_open. rewrite filter_app, app_length. reflexivity. Qed.
Lemma n_close_app a b : n_close (a ++ b) = (n_close a + n_close b)%nat.
Proof. unfold n_close. rewrite filter_app, app_length. reflexivity. Qed.

Lemma br_line l s : is_open l = false -> is_closeb l = false -> braces s -> braces (add_line l s).
Proof.
  intros Ho Hc [A B]. unfold braces. cbn [add_line b_code b_funcs b_func_counter]. rewrite n_open_app, n_close_app.
  unfold n_open, n_close in *. cbn [filter]. rewrite Ho, Hc. cbn [length]. split; lia.
Qed.

Lemma br_flags a b c s : braces s -> braces (set_flags a b c s).
Proof. intro H. exact H. Qed.

Lemma br_helper mk s : braces s -> braces (snd (helper_assign mk s)).
Proof. intros [A B]. unfold helper_assign, next_helper. cbn [snd]. unfold braces. cbn [add_line b_code b_funcs b_func_counter].
  rewrite n_open_app, n_close_app. unfold n_open, n_close in *. cbn [filter is_open is_closeb length]. split; lia. Qed.

Lemma br_fold_params (ps : list bytes) : forall (acc : bstate * nat), braces (fst acc) ->
  braces (fst (fold_left (fun (acc : bstate * nat) p => let '(st, i) := acc in (add_line (LLocalParam (var_name st p false) i) st, S i)) ps acc)).
Proof. induction ps as [|p r IH]; intros [st i] H; [exact H|]. cbn [fold_left]. apply IH. cbn [fst] in *. apply br_line; [reflexivity|reflexivity|exact H]. Qed.

Lemma br_fold_return (vs : list atom) : forall (acc : bstate * nat), braces (fst acc) ->
  braces (fst (fold_left (fun (acc : bstate * nat) v => let '(st, i) := acc in (add_line (LAssign (var_name st (rv_name i) true) (RAtom v)) st, S i)) vs acc)).
Proof. induction vs as [|p r IH]; intros [st i] H; [exact H|]. cbn [fold_left]. apply IH. cbn [fst] in *. apply br_line; [reflexivity|reflexivity|exact H]. Qed.

Lemma br_fold_rets (rets : list vtype) : forall (acc : list atom * bstate * nat), braces (snd (fst acc)) ->
  braces (snd (fst (fold_left (fun (acc : list atom * bstate * nat) (_ : vtype) =>
                                  let '(vs, st, i) := acc in
                                  let '(h, st') := helper_assign (RAtom (ARef (rv_name i))) st in
                                  (vs ++ [h], st', S i)) rets acc))).
Proof.
  induction rets as [|t r IH]; intros [[vs st] i] H; [exact H|]. cbn [fold_left].
  destruct (helper_assign (RAtom (ARef (rv_name i))) st) as [h st'] eqn:E. apply IH. cbn [fst snd] in *.
  pose proof (br_helper (RAtom (ARef (rv_name i))) st H) as Hh. rewrite E in Hh. exact Hh.
Qed.

Ltac br_lines := repeat (first [assumption | apply br_flags | apply br_line; [reflexivity|reflexivity|]]).

Lemma br_stmt st : forall s u s', braces s -> t_stmt bash_conv st s = TOk u s' -> braces s'.
Proof.
  intros s u s' I0 H.
  refine (t_stmt_preserves bash_conv braces (fun _ => true) _ _ _ _ _ _ _ _ _ _ _ _ _ _ _ _ _ _ _ _ _ _ _ _ _ _ _ _ _ _ _ _ _ _ _ _ st (names_ok_true st) s u s' I0 H);
    clear; cbn [bash_conv cv_string cv_var_definition cv_slice_assignment cv_func_start cv_func_end cv_return cv_if_start cv_if_end
                cv_elseif_start cv_else_start cv_for_start cv_for_incr_start cv_for_incr_end cv_for_condition cv_for_end cv_break cv_continue
                cv_print cv_panic cv_write_file cv_nop cv_unary cv_binary cv_comparison cv_logical cv_slice_instantiation cv_slice_evaluation
                cv_slice_len cv_string_subscript cv_string_len cv_func_call cv_app_call cv_input cv_copy cv_exists cv_read_file].
  all: try (intros; cbn [snd]; br_lines; fail).
  all: try (intros; match goal with H : _ = TOk _ _ |- _ => inversion H; subst; br_lines end; fail).
  all: try (intros; cbn [snd]; match goal with |- braces (snd (helper_assign ?mk ?st)) => apply br_helper; br_lines end; fail).
  - (* func_start *) intros n ps rs s _ [A B]. apply (br_fold_params ps (_, 1%nat)). cbn [fst]. unfold braces.
    cbn [add_line b_code b_funcs b_func_counter]. rewrite n_open_app, n_close_app. unfold n_open, n_close in *. cbn [filter is_open is_closeb length]. split; lia.
  - (* func_end *) intros s u s' [A B] H. destruct (b_funcs s) eqn:Ef; [discriminate|]. inversion H; subst. unfold braces.
    cbn [add_line b_code b_funcs b_func_counter]. rewrite n_open_app, n_close_app. unfold n_open, n_close in *. cbn [filter is_open is_closeb length]. split; lia.
  - (* return *) intros vs s u s' I H. inversion H; subst. apply br_line; [reflexivity|reflexivity|]. apply (br_fold_return vs (s, 0%nat)). exact I.
  - (* for_incr_start *) intros s u s' I H. destruct (current_flag s); [|discriminate]. inversion H; subst. br_lines.
  - (* for_incr_end *) intros s u s' I H. destruct (current_flag s); [|discriminate]. inversion H; subst. br_lines.
  - (* for_end *) intros s u s' [A B] H. destruct (b_fors s); [discriminate|]. inversion H; subst. unfold braces.
    cbn [add_line b_code b_funcs b_func_counter]. rewrite n_open_app, n_close_app. unfold n_open, n_close in *. cbn [filter is_open is_closeb length]. split; lia.
  - (* binary *) intros l op r t s v s' I H. destruct (is_slice t); [discriminate|]. destruct (dt t); try discriminate.
    + destruct (helper_assign _ s) as [h s1] eqn:E. inversion H; subst. pose proof (br_helper (RArith l op r) s I) as Hh. rewrite E in Hh. exact Hh.
    + destruct op; try discriminate. destruct (helper_assign _ s) as [h s1] eqn:E. inversion H; subst. pose proof (br_helper (RConcat l r) s I) as Hh. rewrite E in Hh. exact Hh.
  - (* comparison *) intros l op r t s v s' I H. destruct (cmp_text t op) as [o|]; [|discriminate].
    destruct (helper_assign _ s) as [h s1] eqn:E. inversion H; subst. pose proof (br_helper (RCompare l o r) s I) as Hh. rewrite E in Hh. exact Hh.
  - (* slice_instantiation *) intros vs s I. destruct (helper_assign RNewSlice (add_line LDvcIncr s)) as [h s1] eqn:E. cbn [snd].
    assert (braces (add_line LDvcIncr s)) as I1 by (apply br_line; [reflexivity|reflexivity|exact I]).
    pose proof (br_helper RNewSlice (add_line LDvcIncr s) I1) as Hh. rewrite E in Hh. cbn [snd] in Hh.
    destruct vs; [exact Hh|]. br_lines.
  - (* func_call *) intros n vs rs u s I. destruct u; [|cbn [snd]; br_lines].
    assert (braces (add_line (LCall n vs) s)) as I1 by (apply br_line; [reflexivity|reflexivity|exact I]).
    pose proof (br_fold_rets rs ([], add_line (LCall n vs) s, 0%nat) I1) as Hh.
    destruct (fold_left _ rs ([], add_line (LCall n vs) s, 0%nat)) as [[vals s2] k0]. exact Hh.
  - (* app_call *) intros cs u s I. destruct u; cbn [snd]; br_lines.
Qed.

Lemma br_go : forall body s u s', braces s -> go_fix body s = TOk u s' -> braces s'.
Proof.
  induction body as [|x r IH]; intros s u s' I H; [mr H; exact I|].
  cbn [go_fix] in H. mb H as u1 s1 H1 H2. exact (IH s1 u s' (br_stmt x s u1 s1 I H1) H2).
Qed.

Lemma body_no_brace sf sr X : braces sf -> braces sr -> cext sf sr X -> n_close X = 0%nat /\ n_open X = 0%nat.
Proof.
  intros [A B] [A' B'] E. rewrite (cx_code _ _ _ E), n_open_app in A'. rewrite (cx_code _ _ _ E), n_close_app in B'.
  rewrite (cx_funcs _ _ _ E) in B'. rewrite (cx_fcnt _ _ _ E) in A', B'. split; lia.
Qed.

Lemma skip_close_here : forall X rest, n_close X = 0%nat -> skip_close (X ++ LClose :: rest) = Some rest.
Proof.
  induction X as [|l r IH]; intros rest H; [reflexivity|].
  unfold n_close in H. cbn [filter] in H. destruct (is_closeb l) eqn:El; [discriminate|]. cbn [app].
  destruct l; try discriminate; cbn [skip_close]; apply IH; exact H.
Qed.

Lemma param_lines_no_close cf : forall names i, n_close (param_lines cf names i) = 0%nat.
Proof. induction names as [|n r IH]; intro i; [reflexivity|]. cbn [param_lines]. unfold n_close in *. cbn [filter is_closeb]. apply IH. Qed.

(* ---- names: decidable conditions under which no variable of the program meets a name of the converter ---- *)
Definition pre (p n : bytes) : bool := beq p (firstn (length p) n).
Fixpoint after_digits (r : bytes) : bool :=
  match r with c :: t => if is_digit c then after_digits t else N.eqb c 95 | [] => false end.
Definition mangled_like (n : bytes) : bool := match n with 102 :: c :: t => is_digit c && after_digits (c :: t) | _ => false end.

Lemma after_digits_app : forall ds t, forallb is_digit ds = true -> after_digits (ds ++ 95 :: t) = true.
Proof.
  induction ds as [|d r IH]; intros t H; [reflexivity|]. cbn [forallb] in H. apply andb_true_iff in H as [Hd Hr].
  cbn [app after_digits]. rewrite Hd. exact (IH t Hr).
Qed.

Lemma mangled_is_like c y : mangled_like (mangled c y) = true.
Proof.
  unfold mangled, dec_nat. pose proof (dec_N_digits (N.of_nat c)) as Hd. pose proof (dec_N_nonempty (N.of_nat c)) as Hn.
  destruct (dec_N (N.of_nat c)) as [|d ds] eqn:E; [contradiction|].
  change (bs "f" ++ (d :: ds) ++ bs "_" ++ y) with (102 :: d :: (ds ++ 95 :: y)). unfold mangled_like.
  cbn [forallb] in Hd. apply andb_true_iff in Hd as [H1 H2]. rewrite H1. cbn [andb after_digits]. rewrite H1. exact (after_digits_app ds y H2).
Qed.

Definition plain_ok (n : bytes) : bool :=
  negb (pre (bs "_h") n) && negb (pre (bs "_fv") n) && negb (pre (bs "_rv") n) && negb (pre (bs "_ma") n) && negb (mangled_like n) &&
  forallb is_word n && name_ok n.

Lemma pre_app p t : pre p (p ++ t) = true.
Proof. unfold pre. rewrite firstn_app, Nat.sub_diag, firstn_all. cbn [firstn]. rewrite app_nil_r. apply beq_refl. Qed.

Lemma plain_parts n : plain_ok n = true ->
  pre (bs "_h") n = false /\ pre (bs "_fv") n = false /\ pre (bs "_rv") n = false /\ pre (bs "_ma") n = false /\ mangled_like n = false /\
  forallb is_word n = true /\ name_ok n = true.
Proof.
  unfold plain_ok. intro H. apply andb_true_iff in H as [H H7]. apply andb_true_iff in H as [H H6]. apply andb_true_iff in H as [H H5].
  apply andb_true_iff in H as [H H4]. apply andb_true_iff in H as [H H3]. apply andb_true_iff in H as [H1 H2].
  rewrite negb_true_iff in H1, H2, H3, H4, H5. repeat split; assumption.
Qed.

Lemma plain_not_mangled n c y : plain_ok n = true -> n <> mangled c y.
Proof. intros H Heq. destruct (plain_parts n H) as (_ & _ & _ & _ & M & _). subst n. rewrite mangled_is_like in M. discriminate. Qed.
Lemma plain_not_fname n k : plain_ok n = true -> n <> fname k.
Proof. intros H Heq. destruct (plain_parts n H) as (_ & M & _). subst n. unfold fname in M. rewrite pre_app in M. discriminate. Qed.
Lemma plain_not_rv n i : plain_ok n = true -> n <> rv_name i.
Proof. intros H Heq. destruct (plain_parts n H) as (_ & _ & M & _). subst n. unfold rv_name in M. rewrite pre_app in M. discriminate. Qed.
Lemma plain_not_ma n i : plain_ok n = true -> n <> ma_name i.
Proof. intros H Heq. destruct (plain_parts n H) as (_ & _ & _ & M & _). subst n. unfold ma_name in M. rewrite pre_app in M. discriminate. Qed.
Lemma plain_not_h n k : plain_ok n = true -> n <> bs "_h" ++ dec_nat k.
Proof. intros H Heq. destruct (plain_parts n H) as (M & _). subst n. rewrite pre_app in M. discriminate. Qed.
Lemma plain_fine n : plain_ok n = true -> atom_ok (ARef n) = true.
Proof. intros H. destruct (plain_parts n H) as (_ & _ & _ & _ & _ & W & N0). unfold atom_ok. rewrite W, N0. reflexivity. Qed.

Lemma toplevel_names s : b_funcs s = 0%nat ->
  (forall x, user_name s x = v_name x) /\ (forall k, helper_name s k = bs "_h" ++ dec_nat k) /\ (forall i, ma_var s i = ma_name i).
Proof. intro H. repeat split; intros; unfold user_name, helper_name, ma_var; apply var_name_toplevel; exact H. Qed.

Definition names_plain (XS : list var) : bool := forallb (fun x => plain_ok (v_name x)) XS.
Definition inj_top (G : list var) : bool :=
  forallb (fun y => forallb (fun z => negb (beq (v_name y) (v_name z)) || same_var y z) G) G.
Definition inj_fun (XS : list var) : bool :=
  forallb (fun y => forallb (fun z => negb (Bool.eqb (v_global y) (v_global z) && beq (v_name y) (v_name z)) || same_var y z) XS) XS.

Lemma names_plain_in XS x : names_plain XS = true -> In x XS -> plain_ok (v_name x) = true.
Proof. unfold names_plain. intros H Hx. rewrite forallb_forall in H. exact (H x Hx). Qed.

(* at top level *)
Lemma top_ctx s G mlo : b_funcs s = 0%nat -> names_plain G = true -> inj_top G = true ->
  (forall x, In x G -> var_fine s x) /\ hygienic s G /\ names_inj s G /\ fresh_flags (b_for_counter s) mlo G s.
Proof.
  intros Hf Hp Hi. destruct (toplevel_names s Hf) as (Hu & Hh & Hm).
  split; [intros x Hx; unfold var_fine; rewrite Hu; exact (plain_fine _ (names_plain_in G x Hp Hx))|].
  split; [intros x k Hx; rewrite Hu, Hh; exact (plain_not_h _ k (names_plain_in G x Hp Hx))|].
  split.
  { intros y z Hy Hz Heq. rewrite !Hu in Heq. unfold inj_top in Hi. rewrite forallb_forall in Hi. specialize (Hi y Hy).
    rewrite forallb_forall in Hi. specialize (Hi z Hz). rewrite Heq, beq_refl in Hi. exact Hi. }
  split; [intros x k Hx; rewrite Hu; exact (plain_not_fname _ k (names_plain_in G x Hp Hx))|].
  split; [intros x i Hx; rewrite Hu; exact (plain_not_rv _ i (names_plain_in G x Hp Hx))|].
  split; [apply le_n|].
  split; [intros x c y Hx _; rewrite Hu; exact (plain_not_mangled _ c y (names_plain_in G x Hp Hx))|].
  intros x i Hx. rewrite Hu, Hm. exact (plain_not_ma _ i (names_plain_in G x Hp Hx)).
Qed.

(* inside a function *)
Lemma user_name_in_fun sf x : (0 < b_funcs sf)%nat -> user_name sf x = if v_global x then v_name x else mangled (b_func_counter sf) (v_name x).
Proof. intro H. unfold user_name. destruct (v_global x); [apply var_name_global|apply var_name_local; exact H]. Qed.

Lemma mangled_fine c n : forallb is_word n = true -> atom_ok (ARef (mangled c n)) = true.
Proof.
  intro H. unfold atom_ok, mangled. apply andb_true_iff. split; [|reflexivity].
  rewrite !forallb_app, H. unfold dec_nat. rewrite (digits_word _ (dec_N_digits _)). reflexivity.
Qed.

Lemma mangled_not_fname c n k : mangled c n <> fname k.
Proof. unfold mangled, fname. intro H. cbn in H. inversion H. Qed.
Lemma mangled_not_rv c n i : mangled c n <> rv_name i.
Proof. unfold mangled, rv_name. intro H. cbn in H. inversion H. Qed.

Lemma fun_ctx sf XS : (0 < b_funcs sf)%nat -> names_plain XS = true -> inj_fun XS = true ->
  (forall x, In x XS -> var_fine sf x) /\ hygienic sf XS /\ names_inj sf XS /\ fresh_flags (b_for_counter sf) (b_func_counter sf) XS sf.
Proof.
  intros Hf Hp Hi. set (cf := b_func_counter sf).
  assert (forall x, In x XS -> plain_ok (v_name x) = true) as P by (intros x Hx; exact (names_plain_in XS x Hp Hx)).
  split.
  { intros x Hx. unfold var_fine. rewrite (user_name_in_fun sf x Hf). destruct (v_global x); [exact (plain_fine _ (P x Hx))|].
    destruct (plain_parts _ (P x Hx)) as (_ & _ & _ & _ & _ & W & _). exact (mangled_fine _ _ W). }
  split.
  { intros x k Hx. rewrite (user_name_in_fun sf x Hf), (helper_name_local sf k Hf). destruct (v_global x).
    - exact (plain_not_mangled _ _ _ (P x Hx)).
    - intro Heq. apply mangled_inj in Heq as [_ Hn]. exact (plain_not_h _ k (P x Hx) Hn). }
  split.
  { intros y z Hy Hz Heq. rewrite (user_name_in_fun sf y Hf), (user_name_in_fun sf z Hf) in Heq.
    unfold inj_fun in Hi. rewrite forallb_forall in Hi. specialize (Hi y Hy). rewrite forallb_forall in Hi. specialize (Hi z Hz).
    destruct (v_global y) eqn:Gy, (v_global z) eqn:Gz.
    - rewrite Heq, beq_refl in Hi. exact Hi.
    - exfalso. exact (plain_not_mangled _ _ _ (P y Hy) Heq).
    - exfalso. exact (plain_not_mangled _ _ _ (P z Hz) (eq_sym Heq)).
    - apply mangled_inj in Heq as [_ Hn]. rewrite Hn, beq_refl in Hi. exact Hi. }
  split.
  { intros x k Hx. rewrite (user_name_in_fun sf x Hf). destruct (v_global x); [exact (plain_not_fname _ k (P x Hx))|apply mangled_not_fname]. }
  split.
  { intros x i Hx. rewrite (user_name_in_fun sf x Hf). destruct (v_global x); [exact (plain_not_rv _ i (P x Hx))|apply mangled_not_rv]. }
  split; [apply le_n|].
  split.
  { intros x c y Hx Hc. rewrite (user_name_in_fun sf x Hf). destruct (v_global x); [exact (plain_not_mangled _ c y (P x Hx))|].
    intro Heq. apply mangled_inj in Heq as [Hcc _]. fold cf in Hc. lia. }
  intros x i Hx. rewrite (user_name_in_fun sf x Hf). unfold ma_var. rewrite (var_name_local sf _ Hf). destruct (v_global x).
  - exact (plain_not_mangled _ _ _ (P x Hx)).
  - intro Heq. apply mangled_inj in Heq as [_ Hn]. exact (plain_not_ma _ i (P x Hx) Hn).
Qed.

(* ---- the translation of a definition ---- *)
Lemma func_decompose f rets params x body pub s s' :
  t_stmt bash_conv (SFunc f rets params (x :: body) pub) s = TOk tt s' -> frag2_all (x :: body) = true ->
  let sf := cv_func_start bstate atom bash_conv f (map v_name params) rets s in
  exists sr X, go_fix (x :: body) sf = TOk tt sr /\ cext sf sr X /\
    b_code s' = b_code s ++ [LFuncOpen f] ++ param_lines (S (b_func_counter s)) (map v_name params) 1 ++ X ++ [LClose] /\
    b_funcs sf = S (b_funcs s) /\ b_func_counter sf = S (b_func_counter s) /\ b_for_counter sf = b_for_counter s /\
    b_funcs s' = b_funcs s /\ b_func_counter s' = S (b_func_counter s) /\ b_for_counter s' = b_for_counter sr.
Proof.
  intros H Hfrag. cbv zeta. set (sf := cv_func_start bstate atom bash_conv f (map v_name params) rets s).
  destruct (func_start_lines f (map v_name params) rets s) as (A & B & C & D). fold sf in A, B, C, D.
  cbn [t_stmt] in H. mb H as u0 s1 H0 H1. mu H0. subst s1. fold sf in H1. mb H1 as u1 sr H1 H2. destruct u1.
  change (go_fix (x :: body) sf = TOk tt sr) in H1.
  destruct (go_e3 (x :: body) (all_e3 _) Hfrag sf tt sr H1) as (X & E & _ & _).
  rewrite bash_func_end in H2. pose proof (cx_funcs _ _ _ E) as Hfs. rewrite B in Hfs. rewrite Hfs in H2. cbv zeta in H2. inversion H2; subst s'; clear H2.
  exists sr, X. split; [exact H1|]. split; [exact E|].
  cbn [add_line b_code b_funcs b_func_counter b_for_counter]. rewrite (cx_code _ _ _ E), A, (cx_fcnt _ _ _ E), C. rewrite <- !app_assoc.
  repeat split; try assumption; reflexivity.
Qed.

Lemma br_func_start f names rets s : braces s -> braces (cv_func_start bstate atom bash_conv f names rets s).
Proof.
  intros [A B]. unfold bash_conv. cbn [cv_func_start]. apply (br_fold_params names (_, 1%nat)). cbn [fst]. unfold braces.
  cbn [add_line b_code b_funcs b_func_counter]. rewrite n_open_app, n_close_app. unfold n_open, n_close in *. cbn [filter is_open is_closeb length]. split; lia.
Qed.

Lemma no_open_in X n : n_open X = 0%nat -> ~ In (LFuncOpen n) X.
Proof.
  induction X as [|l r IH]; intros H Hin; [destruct Hin|]. unfold n_open in H. cbn [filter] in H.
  destruct Hin as [->|Hin]; [cbn [is_open] in H; discriminate|]. destruct (is_open l); [discriminate|]. exact (IH H Hin).
Qed.

Lemma param_lines_no_open cf : forall names i, n_open (param_lines cf names i) = 0%nat.
Proof. induction names as [|n r IH]; intro i; [reflexivity|]. cbn [param_lines]. unfold n_open in *. cbn [filter is_open]. apply IH. Qed.

(* ---- static conditions on the items of a program ---- *)
Definition fun_vars (G : list var) (params : list var) (body : list stmt) : list var :=
  G ++ filter (fun x => negb (v_global x)) (params ++ stmts_vars body).

Definition item_static (G : list var) (names : list bytes) (st : stmt) : bool :=
  match st with
  | SFunc f rets params (x :: body) pub =>
      frag2_all (x :: body) && names_plain (fun_vars G params (x :: body)) && inj_fun (fun_vars G params (x :: body)) &&
      forallb (fun p => negb (v_global p)) params && negb (existsb (beq f) names)
  | SFunc _ _ _ [] _ => false
  | _ => frag2 st
  end.

Fixpoint items_static (G : list var) (names : list bytes) (items : list stmt) : bool :=
  match items with
  | [] => true
  | st :: r => item_static G names st &&
               items_static G (match st with SFunc f _ _ _ _ => names ++ [f] | _ => names end) r
  end.

(* the items only append code *)
Lemma items_code_ext G : forall items names s s_end, items_static G names items = true -> go_fix items s = TOk tt s_end ->
  exists Xr, b_code s_end = b_code s ++ Xr.
Proof.
  induction items as [|st r IH]; intros names s s_end Hs H; [mr H; exists []; rewrite app_nil_r; reflexivity|].
  cbn [items_static] in Hs. apply andb_true_iff in Hs as [H1 H2]. cbn [go_fix] in H. mb H as u1 s1 Ht Hr. destruct u1.
  destruct (IH _ s1 s_end H2 Hr) as (Xr & Er).
  assert (exists X1, b_code s1 = b_code s ++ X1) as (X1 & E1).
  { destruct st; try (destruct (frag2_e3 _ H1 s tt s1 Ht) as (X & E & _ & _); exists X; exact (cx_code _ _ _ E)).
    cbn [item_static] in H1. destruct body as [|x body]; [discriminate|]. ands H1.
    destruct (func_decompose name rets params x body public s s1 Ht H1) as (sr & X & _ & _ & Ec & _). eexists. exact Ec. }
  exists (X1 ++ Xr). rewrite Er, E1, app_assoc. reflexivity.
Qed.

(* ---- the induction over the items of a program ---- *)
Definition nonfunc (st : stmt) : Prop := match st with SFunc _ _ _ _ _ => False | _ => True end.

Lemma jtop_stmt_eq fuel G st r s defs sg acc : nonfunc st ->
  jtop fuel G (st :: r) s defs sg acc =
  match st_of (t_stmt bash_conv st s) with
  | Some s' =>
      match jrun fuel G (jcall_at defs fuel 40 (b_for_counter s) (S (b_func_counter s)) G) (Prog [st]) sg with
      | Some (sg', o, SN) => jtop fuel G r s' defs sg' (acc ++ o)
      | _ => None
      end
  | None => None
  end.
Proof. destruct st; try reflexivity; intros []. Qed.

Lemma static_stmt_eq G names st r : nonfunc st -> items_static G names (st :: r) = frag2 st && items_static G names r.
Proof. destruct st; try reflexivity; intros []. Qed.

Lemma st_of_ok (r : tres bstate unit) s : st_of r = Some s -> r = TOk tt s.
Proof. destruct r as [u s0| |]; try discriminate. destruct u. intro H. inversion H. reflexivity. Qed.

Section Items.
Variable fuel : nat.
Variable G : list var.
Variable script : list line.
Hypothesis Hplain : names_plain G = true.
Hypothesis Hinj : inj_top G = true.

Definition items_goal (items : list stmt) : Prop :=
  forall s defs sg acc out s_end b,
  jtop fuel G items s defs sg acc = Some out ->
  items_static G (map fd_name defs) items = true ->
  go_fix items s = TOk tt s_end -> script = b_code s_end ->
  b_funcs s = 0%nat -> braces s -> represents sg b s G -> env_ok sg ->
  (forall n, In (LFuncOpen n) (b_code s) -> In n (map fd_name defs)) ->
  (forall F, In F defs -> fun_ok script F) ->
  exists Xr b' o, b_code s_end = b_code s ++ Xr /\ out = acc ++ o /\ lruns (call_of script 40) [] b [] Xr (b', o).

Lemma items_nil : items_goal [].
Proof.
  intros s defs sg acc out s_end b H _ Hg _ _ _ _ _ _ _. cbn [jtop] in H. inversion H; subst. mr Hg.
  exists [], b, []. rewrite !app_nil_r. split; [reflexivity|]. split; [reflexivity|]. exists 1%nat. reflexivity.
Qed.

Lemma items_stmt st r : nonfunc st -> items_goal r -> items_goal (st :: r).
Proof.
  intros Hnf IH s defs sg acc out s_end b H Hst Hg Hscr Hf0 Hbr Hrep Henv Hopen Hok.
  rewrite (jtop_stmt_eq fuel G st r s defs sg acc Hnf) in H. rewrite (static_stmt_eq G _ st r Hnf) in Hst. apply andb_true_iff in Hst as [Hfr Hsr].
  destruct (st_of (t_stmt bash_conv st s)) as [s1|] eqn:Et; [|discriminate]. apply st_of_ok in Et.
  set (klo := b_for_counter s) in *. set (mlo := S (b_func_counter s)) in *.
  destruct (jrun fuel G (jcall_at defs fuel 40 klo mlo G) (Prog [st]) sg) as [[[sg' o] g]|] eqn:Ej; [|discriminate]. destruct g; try discriminate.
  cbn [go_fix] in Hg. unfold mbind in Hg. rewrite Et in Hg. change (go_fix r s1 = TOk tt s_end) in Hg.
  pose proof (jrun_program_sound defs fuel 40 klo mlo G [st] sg sg' o Ej Henv) as HJ.
  destruct (top_ctx s G mlo Hf0 Hplain Hinj) as (Fine & Hy & Inj & Fresh).
  pose proof (mkCtx G sg b s Fine Hrep Hy Inj) as Hctx.
  pose proof (calls_refined defs script Hok 40 klo mlo) as Hcall.
  assert (frag2_all [st] = true) as Hfa by (cbn [frag2_all]; rewrite Hfr; reflexivity).
  destruct (J_sim (call_of script 40) [] (call_of_mono script 40) klo mlo (scall_at defs 40 klo mlo) Hcall G (Prog [st]) sg sg' o SN HJ Henv
              s tt s1 b (go_single st s s1 Et) Hfa Henv Hctx Fresh) as (X & b1 & Ex & C1 & U1 & Rg & Hk).
  pose proof (br_stmt st s tt s1 Hbr Et) as Hbr1.
  destruct (body_no_brace s s1 X Hbr Hbr1 Ex) as [_ Hno].
  destruct (IH s1 defs sg' (acc ++ o) out s_end b1 H Hsr Hg Hscr) as (Xr & b' & o' & Ec & Eo & Hrun).
  { rewrite (cx_funcs _ _ _ Ex). exact Hf0. }
  { exact Hbr1. }
  { exact (c_rep _ _ _ _ C1). }
  { exact (J_env _ _ _ _ _ _ _ HJ Henv). }
  { intros n Hin. rewrite (cx_code _ _ _ Ex) in Hin. apply in_app_or in Hin as [Hin|Hin]; [exact (Hopen n Hin)|]. exfalso. exact (no_open_in X n Hno Hin). }
  { exact Hok. }
  exists (X ++ Xr), b', (o ++ o'). split; [rewrite Ec, (cx_code _ _ _ Ex), app_assoc; reflexivity|].
  split; [rewrite Eo, app_assoc; reflexivity|].
  exact (Hk [] Xr (b', o') Hrun).
Qed.

Lemma items_func f rets params body pub r : items_goal r -> items_goal (SFunc f rets params body pub :: r).
Proof.
  intros IH s defs sg acc out s_end b H Hst Hg Hscr Hf0 Hbr Hrep Henv Hopen Hok.
  cbn [items_static item_static] in Hst. destruct body as [|x body]; [discriminate|].
  apply andb_true_iff in Hst as [Hit Hsr]. apply andb_true_iff in Hit as [Hit Hnew]. apply andb_true_iff in Hit as [Hit Hpar].
  apply andb_true_iff in Hit as [Hit Hinjf]. apply andb_true_iff in Hit as [Hfrag Hplf].
  cbn [go_fix] in Hg. mb Hg as u1 s1 Ht Hr. destruct u1.
  set (sf := cv_func_start bstate atom bash_conv f (map v_name params) rets s) in *.
  destruct (func_decompose f rets params x body pub s s1 Ht Hfrag) as (sr & X & Hgo & Ex & Ec & B & C & D & B1 & C1 & D1). fold sf in Hgo, Ex, B, C, D.
  cbn [jtop] in H. fold sf in H. rewrite Hgo, Ht in H. cbn [st_of] in H.
  set (vars := fun_vars G params (x :: body)) in *.
  set (F := mkFdef f params (x :: body) vars sf sr) in *.
  change (jtop fuel G r s1 (defs ++ [F]) sg acc = Some out) in H.
  destruct (items_code_ext G r _ s1 s_end Hsr Hr) as (Xrest & Erest).
  set (P := param_lines (S (b_func_counter s)) (map v_name params) 1) in *.
  pose proof (br_func_start f (map v_name params) rets s Hbr) as Hbrf. fold sf in Hbrf.
  pose proof (br_go (x :: body) sf tt sr Hbrf Hgo) as Hbrr.
  destruct (body_no_brace sf sr X Hbrf Hbrr Ex) as [HcX HoX].
  assert ((0 < b_funcs sf)%nat) as Hfun by (rewrite B; lia).
  assert (forall n, In (LFuncOpen n) (b_code s) -> n <> f) as Hnof.
  { intros n Hin Heq. subst n. specialize (Hopen f Hin). apply negb_true_iff in Hnew.
    assert (existsb (beq f) (map fd_name defs) = true) as Hex by (apply existsb_exists; exists f; split; [exact Hopen|apply beq_refl]).
    rewrite Hex in Hnew. discriminate. }
  assert (fun_ok script F) as HokF.
  { unfold fun_ok. cbn [F fd_sf fd_sr fd_vars fd_params fd_body fd_name]. unfold fd_num. cbn [fd_sf].
    destruct (fun_ctx sf vars Hfun Hplf Hinjf) as (Fi & Hy & Inj & Fr).
    split; [exact Hfun|]. split; [exact Fi|]. split; [exact Hy|]. split; [exact Inj|]. split; [exact Fr|].
    split.
    { intros p Hp. rewrite forallb_forall in Hpar. pose proof (Hpar p Hp) as Hg0. apply negb_true_iff in Hg0. split; [exact Hg0|].
      unfold vars, fun_vars. apply in_or_app. right. apply filter_In. split; [apply in_or_app; left; exact Hp|rewrite Hg0; reflexivity]. }
    split; [exact Hgo|]. split; [exact Hfrag|].
    exists X, Xrest. split; [exact (cx_code _ _ _ Ex)|].
    rewrite Hscr, Erest, Ec. cbn [F fd_sf]. rewrite C. fold P. rewrite <- !app_assoc. cbn [app]. exact (find_def_app f (b_code s) _ Hnof). }
  destruct (IH s1 (defs ++ [F]) sg acc out s_end b H) as (Xr & b' & o & Ecr & Eo & Hrun).
  { rewrite map_app. cbn [map F fd_name]. exact Hsr. }
  { exact Hr. }
  { exact Hscr. }
  { rewrite B1. exact Hf0. }
  { exact (br_stmt _ s tt s1 Hbr Ht). }
  { destruct (toplevel_names s Hf0) as (Hu & _). destruct (toplevel_names s1 ltac:(rewrite B1; exact Hf0)) as (Hu1 & _).
    intros y w Hy Hw. rewrite Hu1, <- Hu. exact (Hrep y w Hy Hw). }
  { exact Henv. }
  { intros n Hin. rewrite map_app. cbn [map F fd_name]. apply in_or_app. rewrite Ec in Hin.
    apply in_app_or in Hin as [Hin|Hin]; [left; exact (Hopen n Hin)|].
    cbn [app] in Hin. destruct Hin as [Heq|Hin]; [right; left; inversion Heq; reflexivity|]. exfalso.
    apply in_app_or in Hin as [Hin|Hin]; [exact (no_open_in _ n (param_lines_no_open _ _ _) Hin)|].
    apply in_app_or in Hin as [Hin|Hin]; [exact (no_open_in X n HoX Hin)|]. destruct Hin as [Heq|[]]. discriminate Heq. }
  { intros F0 HF0. apply in_app_or in HF0 as [HF0|[<-|[]]]; [exact (Hok F0 HF0)|exact HokF]. }
  exists (([LFuncOpen f] ++ P ++ X ++ [LClose]) ++ Xr), b', o.
  split; [rewrite Ecr, Ec; fold P; rewrite <- !app_assoc; reflexivity|]. split; [exact Eo|].
  destruct Hrun as [n Hn]. exists (S n). rewrite <- !app_assoc. cbn [app lrun].
  assert (skip_close (P ++ X ++ LClose :: Xr) = Some Xr) as Hsk.
  { rewrite app_assoc. apply skip_close_here. rewrite n_close_app. unfold P. rewrite param_lines_no_close, HcX. reflexivity. }
  rewrite Hsk. exact Hn.
Qed.

Theorem items_all : forall items, items_goal items.
Proof.
  induction items as [|st r IH]; [apply items_nil|].
  destruct st; try (apply items_stmt; [exact I|exact IH]). apply items_func. exact IH.
Qed.
End Items.

(* ---- whole programs ---- *)
Definition program_static (body : list stmt) : bool :=
  names_plain (prog_vars body) && inj_top (prog_vars body) && items_static (prog_vars body) [] body.

Lemma emit_bash_go body script st : emit_bash body = TOk script st ->
  exists s, go_fix body (cv_program_start bstate atom bash_conv b_init) = TOk tt s /\ b_code st = b_code s.
Proof.
  unfold emit_bash, transpile_program. intro He.
  match type of He with match ?r with _ => _ end = _ => change r with (go_fix body (cv_program_start bstate atom bash_conv b_init)) in He end.
  destruct (go_fix body (cv_program_start bstate atom bash_conv b_init)) as [u s| |]; try discriminate. destruct u.
  exists s. split; [reflexivity|]. injection He as _ Hst. subst st. reflexivity.
Qed.

(* If the interpreter of the source semantics answers out for a program whose names avoid the converter's (program_static:
   a decidable check), then the script the converter emits for it, run by the flat shell machine with the script's own
   functions as the call oracle, terminates and prints out. *)
Theorem program_preserved fuel body out script st :
  jprogram fuel body = Some out -> program_static body = true -> emit_bash body = TOk script st ->
  exists b', lruns (call_of (b_code st) 40) [] [] [] (b_code st) (b', out).
Proof.
  intros Hj Hs He. unfold program_static in Hs. apply andb_true_iff in Hs as [Hs Hit]. apply andb_true_iff in Hs as [Hp Hi].
  destruct (emit_bash_go body script st He) as (s & Eg & Ecode). rewrite Ecode.
  unfold jprogram in Hj.
  destruct (items_all fuel (prog_vars body) (b_code s) Hp Hi body _ [] (fun _ => None) [] out s [] Hj Hit Eg eq_refl) as (Xr & b' & o & Ec & Eo & Hrun).
  - reflexivity.
  - split; reflexivity.
  - intros x v _ Hv. discriminate Hv.
  - intros x v Hv. discriminate Hv.
  - intros n Hin. destruct Hin.
  - intros F HF. destruct HF.
  - exists b'. cbn [app] in Eo. subst o. assert (Xr = b_code s) as EX by (rewrite Ec; reflexivity). rewrite <- EX at 2. exact Hrun.
Qed.
