(* What Bash makes of the text between two double quotes (its expansion rules for that context), and
   what that means for the words the converter emits: variable references deliver the value of the
   variable whatever it contains (a value is never scanned again), text embedded in an eval string is
   scanned exactly once, and string LITERALS are opaque exactly when they avoid the four characters
   Bash interprets inside double quotes.  The function dq_go is a model of Bash; it is validated
   against /bin/bash by the dqwords stream of the C08 check. *)
From Verif Require Import Base.Bytestr Back.BashLines Sem.BashSem.
Open Scope N_scope.

Inductive dmode := DPlain | DName (acc : bytes).     (* acc: the name read so far, reversed *)

(* the characters a backslash escapes inside double quotes: dollar, backquote, double quote, backslash *)
Definition dq_escapable (c : N) : bool := (c =? 36) || (c =? 96) || (c =? 34) || (c =? 92).

(* after an unescaped dollar these start an expansion: a name, or one of the special parameter characters *)
Definition dollar_active (c : N) : bool :=
  is_word c || (c =? 36) || (c =? 40) || (c =? 63) || (c =? 33) || (c =? 35) || (c =? 42) || (c =? 64) || (c =? 45) || (c =? 91).

(* a parameter name: an identifier, or digits only (positional parameter) *)
Definition name_ok (n : bytes) : bool :=
  match n with
  | [] => false
  | c :: _ => negb (is_digit c) || forallb is_digit n
  end.

(* None: outside the modelled fragment (command substitution, other expansion forms, unbalanced quote) *)
Fixpoint dq_go (e : shenv) (t : bytes) (m : dmode) : option bytes :=
  match t with
  | [] => match m with DPlain => Some [] | DName _ => None end
  | c :: r =>
      match m with
      | DName acc =>
          if c =? 125 then (if name_ok (rev acc) then option_map (app (sh_get (rev acc) e)) (dq_go e r DPlain) else None)
          else if is_word c then dq_go e r (DName (c :: acc)) else None
      | DPlain =>
          if c =? 92 then
            match r with
            | c2 :: r2 => if dq_escapable c2 then option_map (cons c2) (dq_go e r2 DPlain)
                          else if c2 =? 10 then dq_go e r2 DPlain
                          else option_map (fun x => 92 :: c2 :: x) (dq_go e r2 DPlain)
            | [] => None
            end
          else if c =? 36 then
            match r with
            | c2 :: r2 => if c2 =? 123 then dq_go e r2 (DName [])
                          else if dollar_active c2 then None
                          else option_map (cons 36) (dq_go e r DPlain)
            | [] => Some [36]
            end
          else if (c =? 96) || (c =? 34) then None
          else option_map (cons c) (dq_go e r DPlain)
      end
  end.

Definition dq (e : shenv) (t : bytes) : option bytes := dq_go e t DPlain.

(* the four characters Bash interprets inside double quotes *)
Definition dq_special (c : N) : bool := (c =? 36) || (c =? 96) || (c =? 34) || (c =? 92).
Definition neutral (t : bytes) : bool := forallb (fun c => negb (dq_special c)) t.

Lemma option_map_app (a b : bytes) (o : option bytes) :
  option_map (app a) (option_map (app b) o) = option_map (app (a ++ b)) o.
Proof. destruct o as [x|]; simpl; [rewrite app_assoc; reflexivity|reflexivity]. Qed.

Lemma option_map_cons_app (c : N) (a : bytes) (o : option bytes) :
  option_map (cons c) (option_map (app a) o) = option_map (app (c :: a)) o.
Proof. destruct o as [x|]; reflexivity. Qed.

Lemma option_map_nil (o : option bytes) : option_map (app []) o = o.
Proof. destruct o; reflexivity. Qed.

(* neutral text stands for itself *)
Lemma dq_neutral e t r : neutral t = true -> dq_go e (t ++ r) DPlain = option_map (app t) (dq_go e r DPlain).
Proof.
  induction t as [|c t IH]; intro H; [simpl; rewrite option_map_nil; reflexivity|].
  simpl in H. apply andb_true_iff in H as [Hc Ht]. unfold dq_special in Hc.
  apply negb_true_iff in Hc. repeat (apply orb_false_iff in Hc as [Hc ?]).
  cbn [app dq_go]. replace (c =? 92) with false by (symmetry; assumption).
  replace (c =? 36) with false by (symmetry; assumption).
  replace (c =? 96) with false by (symmetry; assumption).
  replace (c =? 34) with false by (symmetry; assumption). cbn [orb].
  rewrite (IH Ht). apply option_map_cons_app.
Qed.

Lemma is_word_not_brace c : is_word c = true -> (c =? 125) = false.
Proof. intro H. destruct (c =? 125) eqn:E; [|reflexivity]. apply N.eqb_eq in E. subst. discriminate. Qed.

Lemma dq_name_rest e n : forall acc r, forallb is_word n = true ->
  dq_go e (n ++ 125 :: r) (DName acc) =
  if name_ok (rev acc ++ n) then option_map (app (sh_get (rev acc ++ n) e)) (dq_go e r DPlain) else None.
Proof.
  induction n as [|c n IH]; intros acc r H.
  - cbn [app dq_go]. rewrite N.eqb_refl, app_nil_r. reflexivity.
  - simpl in H. apply andb_true_iff in H as [Hc Hn]. cbn [app dq_go].
    rewrite (is_word_not_brace c Hc), Hc. rewrite (IH (c :: acc) r Hn). cbn [rev]. rewrite <- app_assoc. reflexivity.
Qed.

(* ${n} delivers the value of n, whatever bytes it holds, and the scan continues AFTER the reference *)
Lemma dq_ref e n r : forallb is_word n = true -> name_ok n = true ->
  dq_go e (render_atom (ARef n) ++ r) DPlain = option_map (app (sh_get n e)) (dq_go e r DPlain).
Proof.
  intros Hw Hn. unfold render_atom. change (bs "${") with [36; 123]. change (bs "}") with [125].
  rewrite <- app_assoc. cbn [app]. rewrite <- app_assoc. cbn [app dq_go].
  change (36 =? 92) with false. change (36 =? 36) with true. change (123 =? 123) with true. cbn iota.
  rewrite (dq_name_rest e n [] r Hw). cbn [rev app]. rewrite Hn. reflexivity.
Qed.

Definition atom_ok (a : atom) : bool :=
  match a with
  | ALit t => neutral t
  | ARef n => forallb is_word n && name_ok n
  end.

(* A word made of neutral literal text and variable references: the references are replaced by the
   values, nothing else happens -- for EVERY content of the variables. *)
Theorem dq_atoms e l : forall r, forallb atom_ok l = true ->
  dq_go e (concat (map render_atom l) ++ r) DPlain = option_map (app (concat (map (atom_text e) l))) (dq_go e r DPlain).
Proof.
  induction l as [|a l IH]; intros r H; [simpl; rewrite option_map_nil; reflexivity|].
  simpl in H. apply andb_true_iff in H as [Ha Hl]. cbn [map concat]. rewrite <- app_assoc.
  destruct a as [t|n].
  - cbn [render_atom atom_text]. simpl in Ha. rewrite (dq_neutral e t _ Ha), (IH r Hl). apply option_map_app.
  - simpl in Ha. apply andb_true_iff in Ha as [Hw Hn]. rewrite (dq_ref e n _ Hw Hn), (IH r Hl). cbn [atom_text]. apply option_map_app.
Qed.

Corollary dq_word e l : forallb atom_ok l = true -> dq e (concat (map render_atom l)) = Some (concat (map (atom_text e) l)).
Proof. intro H. unfold dq. rewrite <- (app_nil_r (concat (map render_atom l))). rewrite (dq_atoms e l [] H). simpl. rewrite app_nil_r. reflexivity. Qed.

(* ---- text embedded in an eval string ---- *)

Definition no_esc (w : bytes) : bool := forallb (fun c => negb ((c =? 92) || (c =? 96) || (c =? 34))) w.

(* deferExpansion: the first scan gives the text back unchanged, references included *)
Lemma dq_defer e w : forall r, no_esc w = true -> dq_go e (defer_exp w ++ r) DPlain = option_map (app w) (dq_go e r DPlain).
Proof.
  induction w as [|c w IH]; intros r H; [simpl; rewrite option_map_nil; reflexivity|].
  simpl in H. apply andb_true_iff in H as [Hc Hw]. apply negb_true_iff in Hc. repeat (apply orb_false_iff in Hc as [Hc ?]).
  cbn [defer_exp]. destruct (c =? 36) eqn:E.
  - apply N.eqb_eq in E. subst c. cbn [app dq_go]. change (92 =? 92) with true. cbn iota.
    change (dq_escapable 36) with true. cbn iota. rewrite (IH r Hw). apply option_map_cons_app.
  - cbn [app dq_go]. replace (c =? 92) with false by (symmetry; assumption). rewrite E.
    replace (c =? 96) with false by (symmetry; assumption). replace (c =? 34) with false by (symmetry; assumption).
    cbn [orb]. rewrite (IH r Hw). apply option_map_cons_app.
Qed.

Lemma dq_bq e r : dq_go e (bq ++ r) DPlain = option_map (cons 34) (dq_go e r DPlain).
Proof. reflexivity. Qed.

Lemma render_atom_no_esc a : atom_ok a = true -> no_esc (render_atom a) = true.
Proof.
  destruct a as [t|n]; intro H.
  - cbn [atom_ok render_atom] in *. unfold neutral in H. unfold no_esc. rewrite forallb_forall in *. intros c Hc. specialize (H c Hc).
    unfold dq_special in H. apply negb_true_iff in H. apply negb_true_iff.
    repeat (apply orb_false_iff in H as [H ?]). repeat (apply orb_false_iff; split); assumption.
  - cbn [atom_ok] in H. apply andb_true_iff in H as [Hw _]. unfold render_atom. change (bs "${") with [36; 123]. change (bs "}") with [125].
    unfold no_esc. rewrite !forallb_app. apply andb_true_iff. split; [reflexivity|]. apply andb_true_iff. split; [|reflexivity].
    rewrite forallb_forall in *. intros c Hc. specialize (Hw c Hc). apply negb_true_iff.
    destruct (c =? 92) eqn:E1; [apply N.eqb_eq in E1; subst; discriminate|].
    destruct (c =? 96) eqn:E2; [apply N.eqb_eq in E2; subst; discriminate|].
    destruct (c =? 34) eqn:E3; [apply N.eqb_eq in E3; subst; discriminate|]. reflexivity.
Qed.

(* an escaped quote, the deferred value, an escaped quote -- inside an eval string: after the first scan the eval'ed command contains the
   ORIGINAL quoted word -- the reference, not the value *)
Theorem dq_eval_quoted e a r : atom_ok a = true ->
  dq_go e (bq ++ defer_exp (render_atom a) ++ bq ++ r) DPlain
  = option_map (app (q ++ render_atom a ++ q)) (dq_go e r DPlain).
Proof.
  intro H. rewrite dq_bq. rewrite (dq_defer e _ _ (render_atom_no_esc a H)). rewrite dq_bq.
  destruct (dq_go e r DPlain) as [x|]; [|reflexivity]. simpl. unfold q. rewrite <- app_assoc. reflexivity.
Qed.

(* and the second scan (by eval) of that quoted word expands it once *)
Theorem eval_scans_once e a : atom_ok a = true -> dq e (render_atom a) = Some (atom_text e a).
Proof. intro H. generalize (dq_word e [a]). cbn [map concat]. rewrite !app_nil_r. intro G. apply G. simpl. rewrite H. reflexivity. Qed.

(* ---- string literals are spliced raw: not opaque ---- *)
Theorem literal_not_opaque :
  exists t, dq [] t <> Some t /\ (exists t2, dq [(bs "HOME", bs "/root")] t2 = Some (bs "/root") /\ t2 = bs "${HOME}").
Proof. exists (bs "a\\b"). split; [vm_compute; discriminate|]. exists (bs "${HOME}"). split; reflexivity. Qed.

(* non-vacuity: a value full of special characters comes out of a reference unchanged *)
Example dq_sample :
  dq [(bs "v", bs "q""d$HOME`x`\n*  -e $(touch X)")] (bs "<${v}>") = Some (bs "<q""d$HOME`x`\n*  -e $(touch X)>").
Proof. vm_compute. reflexivity. Qed.
