(* An executable interpreter for the source semantics J of the simulation theorems, and its soundness: whatever jrun
   computes has a J derivation.  The interpreter is extracted and compared, on every generated program of the fragment,
   with the reference semantics Sem/Src.v (which is itself compared with /bin/bash runs of the implementation's script):
   so the source semantics of the theorems is tied to the validated reference. *)
From Verif Require Import Base.Bytestr Front.Ast Back.BashLines Back.Transpile Back.BashConv Back.BashFacts
  Sem.Src Sem.SrcFacts Sem.BashSem Sem.ExprPreserve Sem.Words Sem.StmtPreserve Sem.FlatSem Sem.IfPreserve Sem.FlatLoop Sem.LoopPreserve Sem.CallPreserve.
From Coq Require Import ZArith Lia Bool.
Open Scope N_scope.

(* ---- decidable versions of the side conditions ---- *)
Definition var_eqb (x y : var) : bool :=
  beq (v_name x) (v_name y) && vtype_eqb (v_type x) (v_type y) && Bool.eqb (v_global x) (v_global y) && Bool.eqb (v_public x) (v_public y).

Lemma var_eqb_eq x y : var_eqb x y = true -> x = y.
Proof.
  unfold var_eqb. intro H. apply andb_true_iff in H as [H H4]. apply andb_true_iff in H as [H H3]. apply andb_true_iff in H as [H1 H2].
  apply beq_eq in H1. apply Bool.eqb_prop in H3. apply Bool.eqb_prop in H4.
  unfold vtype_eqb in H2. apply andb_true_iff in H2 as [Hd Hs]. apply dtype_eqb_eq in Hd. apply Bool.eqb_prop in Hs.
  destruct x as [n1 [d1 s1] g1 p1], y as [n2 [d2 s2] g2 p2]. cbn in *. subst. reflexivity.
Qed.

Fixpoint inb (x : var) (l : list var) : bool := match l with [] => false | y :: r => var_eqb x y || inb x r end.
Lemma inb_In x l : inb x l = true -> In x l.
Proof.
  induction l as [|y r IH]; intro H; [discriminate|]. cbn [inb] in H. apply orb_true_iff in H as [H|H].
  - left. symmetry. exact (var_eqb_eq x y H).
  - right. exact (IH H).
Qed.

Definition in64b (z : Z) : bool := (int64_min <=? z)%Z && (z <=? int64_max)%Z.
Lemma in64b_ok z : in64b z = true -> (int64_min <= z <= int64_max)%Z.
Proof. unfold in64b. intro H. apply andb_true_iff in H as [A B]. apply Z.leb_le in A. apply Z.leb_le in B. split; assumption. Qed.

Fixpoint lits_okb (e : expr) : bool :=
  match e with
  | EInt z => in64b z
  | EGroup x | EUnary x | EItoa x | ELen x => lits_okb x
  | EBinary l _ r | ECompare l _ r | ELogical l _ r => lits_okb l && lits_okb r
  | _ => true
  end.
Lemma lits_okb_ok : forall e, lits_okb e = true -> lits_ok e.
Proof.
  fix IH 1. intros e. destruct e; cbn [lits_okb lits_ok]; intro H; try exact I.
  - apply in64b_ok. exact H.
  - apply IH. exact H.
  - apply andb_true_iff in H as [A B]. split; apply IH; assumption.
  - apply andb_true_iff in H as [A B]. split; apply IH; assumption.
  - apply andb_true_iff in H as [A B]. split; apply IH; assumption.
  - apply IH. exact H.
  - apply IH. exact H.
  - apply IH. exact H.
Qed.

Definition sideb (XS : list var) (e : expr) : bool := lits_okb e && lits_neutral e && forallb (fun x => inb x XS) (vars_of e).
Lemma sideb_ok XS e : sideb XS e = true -> side XS e.
Proof.
  unfold sideb, side. intro H. apply andb_true_iff in H as [H C]. apply andb_true_iff in H as [A B].
  split; [apply lits_okb_ok; exact A|]. split; [exact B|]. intros x Hx. rewrite forallb_forall in C. exact (inb_In x XS (C x Hx)).
Qed.
Lemma sidesb_ok XS es : forallb (sideb XS) es = true -> forall e, In e es -> side XS e.
Proof. intros H e He. rewrite forallb_forall in H. exact (sideb_ok XS e (H e He)). Qed.

Definition in_rangeb (v : value) : bool := match v with VInt z => in64b z | _ => true end.
Definition typedb (v : value) (x : var) : bool := dtype_eqb (vkind v) (dt (v_type x)) && negb (is_slice (v_type x)) && in_rangeb v.
Lemma typedb_ok sg x v : env_ok sg -> typedb v x = true -> env_ok (supd sg x v).
Proof.
  unfold typedb. intros He H. apply andb_true_iff in H as [H C]. apply andb_true_iff in H as [A B].
  apply env_ok_supd; [exact He|exact (dtype_eqb_eq _ _ A)|apply negb_true_iff in B; exact B|].
  destruct v; try exact I. apply in64b_ok. exact C.
Qed.

Fixpoint typed_all (vals : list value) (xs : list var) : bool :=
  match vals, xs with v :: vr, x :: xr => typedb v x && typed_all vr xr | [], [] => true | _, _ => false end.
Lemma typed_all_ok : forall xs vals sg, env_ok sg -> typed_all vals xs = true -> env_ok (assign_all sg xs vals) /\ length vals = length xs.
Proof.
  induction xs as [|x xr IH]; intros vals sg He H; destruct vals as [|v vr]; try discriminate; [split; [exact He|reflexivity]|].
  cbn [typed_all] in H. apply andb_true_iff in H as [A B]. cbn [assign_all length].
  destruct (IH vr (supd sg x v) (typedb_ok sg x v He A) B) as [E L]. split; [exact E|rewrite L; reflexivity].
Qed.

Fixpoint bools_of (vals : list value) : option (list bool) :=
  match vals with
  | [] => Some []
  | VBool b :: r => match bools_of r with Some bs => Some (b :: bs) | None => None end
  | _ => None
  end.
Lemma bools_of_ok : forall vals bs, bools_of vals = Some bs -> vals = map VBool bs.
Proof.
  induction vals as [|v r IH]; intros bs H; cbn [bools_of] in H; [inversion H; reflexivity|].
  destruct v; try discriminate. destruct (bools_of r) as [bs0|] eqn:E; [|discriminate]. inversion H; subst. cbn [map]. rewrite (IH bs0 eq_refl). reflexivity.
Qed.

Definition is_SN (g : sig) : bool := match g with SN => true | _ => false end.

(* ---- the interpreter ---- *)
Definition jres := (senv * bytes * sig)%type.
Definition jcall_t := bytes -> list value -> senv -> option (list value * senv * bytes).

Section Step.
Variable XS : list var.
Variable jc : jcall_t.
Variable rec : code -> senv -> option jres.

Definition then_rest (r : list stmt) (sg : senv) (pre : bytes) : option jres :=
  match rec (Prog r) sg with Some (sg', out, g) => Some (sg', pre ++ out, g) | None => None end.

Definition j_assign_step (xs : list var) (es : list expr) (r : list stmt) (sg : senv) : option jres :=
  match xs, es with
  | [x], [e] =>
      if pure e && sideb XS e && inb x XS then
        match peval sg e with
        | Some v => if typedb v x then rec (Prog r) (supd sg x v) else None
        | None => None
        end
      else None
  | _, _ =>
      if forallb pure es && forallb (sideb XS) es && forallb (fun x => inb x XS) xs && (2 <=? length xs)%nat && Nat.eqb (length es) (length xs) then
        match pevals sg es with
        | Some vals => if typed_all vals xs then rec (Prog r) (assign_all sg xs vals) else None
        | None => None
        end
      else None
  end.

Definition j_call_step (xs : list var) (call : expr) (r : list stmt) (sg : senv) : option jres :=
  match call with
  | ECall fn rets args =>
      if forallb pure args && forallb (sideb XS) args && forallb (fun x => inb x XS) xs && Nat.eqb (length rets) (length xs) then
        match pevals sg args with
        | Some vals =>
            match jc fn vals sg with
            | Some (rvals, sg1, o) => if typed_all rvals xs then then_rest r (assign_all sg1 xs rvals) o else None
            | None => None
            end
        | None => None
        end
      else None
  | _ => None
  end.

Definition jstep (c : code) (sg : senv) : option jres :=
  match c with
  | Prog [] => Some (sg, [], SN)
  | Prog (st :: r) =>
      match st with
      | SAssign xs es => j_assign_step xs es r sg
      | SVarDef xs es => j_assign_step xs es r sg
      | SAssignCall xs call => j_call_step xs call r sg
      | SVarDefCall xs call => j_call_step xs call r sg
      | SPrint es =>
          if forallb pure es && forallb (sideb XS) es then
            match pevals sg es with Some vals => then_rest r sg (join [32] (map text vals) ++ [10]) | None => None end
          else None
      | SExpr (ECall fn rets args) =>
          if forallb pure args && forallb (sideb XS) args then
            match pevals sg args with
            | Some vals => match jc fn vals sg with Some (rvals, sg1, o) => then_rest r sg1 o | None => None end
            | None => None
            end
          else None
      | SReturn es =>
          if forallb pure es && forallb (sideb XS) es && frag2_all r then
            match pevals sg es with Some rvals => Some (sg, [], SR rvals) | None => None end
          else None
      | SBreak => if frag2_all r then Some (sg, [], SB) else None
      | SContinue => if frag2_all r then Some (sg, [], SC) else None
      | SIf ((c0, b0) :: elifs) els =>
          if frag2 st && forallb (fun cb => sideb XS (fst cb)) ((c0, b0) :: elifs) then
            match pevals sg (c0 :: map fst elifs) with
            | Some vals =>
                match bools_of vals with
                | Some bools =>
                    match rec (Prog (pick bools (b0 :: map snd elifs) els)) sg with
                    | Some (sgm, outm, g) =>
                        if is_SN g then then_rest r sgm outm
                        else if frag2_all r then Some (sgm, outm, g) else None
                    | None => None
                    end
                | None => None
                end
            | None => None
            end
          else None
      | SFor init cond incr body =>
          if frag2 st && sideb XS cond then
            match rec (Prog (opt_list init)) sg with
            | Some (sg1, o1, SN) =>
                match rec (Loop true cond incr body) sg1 with
                | Some (sg2, o2, SN) => then_rest r sg2 (o1 ++ o2)
                | Some (sg2, o2, SR rv) => if frag2_all r then Some (sg2, o1 ++ o2, SR rv) else None
                | _ => None
                end
            | _ => None
            end
          else None
      | _ => None
      end
  | Loop first cond incr body =>
      match rec (Prog (incr_of first incr)) sg with
      | Some (sg1, o1, SN) =>
          match peval sg1 cond with
          | Some (VBool false) => Some (sg1, o1, SN)
          | Some (VBool true) =>
              match rec (Prog body) sg1 with
              | Some (sg2, o2, SB) => Some (sg2, o1 ++ o2, SN)
              | Some (sg2, o2, SR rv) => Some (sg2, o1 ++ o2, SR rv)
              | Some (sg2, o2, _) =>
                  match rec (Loop false cond incr body) sg2 with
                  | Some (sg3, o3, g3) => Some (sg3, o1 ++ o2 ++ o3, g3)
                  | None => None
                  end
              | None => None
              end
          | _ => None
          end
      | _ => None
      end
  end.
End Step.

Fixpoint jrun (fuel : nat) (XS : list var) (jc : jcall_t) (c : code) (sg : senv) : option jres :=
  match fuel with O => None | S f => jstep XS jc (jrun f XS jc) c sg end.

(* ---- soundness ---- *)
Ltac cnd H := lazymatch type of H with (if ?c then _ else _) = Some _ => let E := fresh "E" in destruct c eqn:E; [|discriminate H] end.
Ltac opn H := lazymatch type of H with match ?o with Some _ => _ | None => _ end = Some _ => let E := fresh "E" in destruct o eqn:E; [|discriminate H] end.
Ltac opn3 H a b c := lazymatch type of H with match ?o with Some _ => _ | None => _ end = Some _ => let E := fresh "E" in destruct o as [[[a b] c]|] eqn:E; [|discriminate H] end.
Ltac opv H v := lazymatch type of H with match ?o with Some _ => _ | None => _ end = Some _ => let E := fresh "E" in destruct o as [v|] eqn:E; [|discriminate H] end.
Ltac ands E := repeat match type of E with (_ && _) = true => let A := fresh "A" in apply andb_true_iff in E as [E A] end.

Section Sound.
Variable scall : list var -> bytes -> list value -> senv -> list value -> senv -> bytes -> Prop.
Variable XS : list var.
Variable jc : jcall_t.
Hypothesis Hjc : forall f vals sg rvals sg1 o, jc f vals sg = Some (rvals, sg1, o) -> env_ok sg -> scall XS f vals sg rvals sg1 o /\ env_ok sg1.

Definition JJ (c : code) (sg : senv) (r : jres) : Prop := match r with (sg', out, g) => J scall XS c sg sg' out g end.

Section OneStep.
Variable rec : code -> senv -> option jres.
Hypothesis Hrec : forall c sg r, rec c sg = Some r -> env_ok sg -> JJ c sg r.

Lemma then_rest_sound r sg pre res : then_rest rec r sg pre = Some res -> env_ok sg ->
  exists sg' out g, res = (sg', pre ++ out, g) /\ J scall XS (Prog r) sg sg' out g.
Proof.
  unfold then_rest. intros H He. destruct (rec (Prog r) sg) as [[[sg' out] g]|] eqn:Er; [|discriminate]. inversion H; subst.
  exists sg', out, g. split; [reflexivity|exact (Hrec _ _ _ Er He)].
Qed.

Lemma inb_all xs : forallb (fun x => inb x XS) xs = true -> forall x, In x xs -> In x XS.
Proof. intros H x Hx. rewrite forallb_forall in H. exact (inb_In x XS (H x Hx)). Qed.

Lemma assign_step_sound (defn : bool) xs es r sg res :
  j_assign_step XS rec xs es r sg = Some res -> env_ok sg ->
  JJ (Prog ((if defn then SVarDef xs es else SAssign xs es) :: r)) sg res.
Proof.
  intros H He. unfold j_assign_step in H.
  assert (forall (multi : (if forallb pure es && forallb (sideb XS) es && forallb (fun x => inb x XS) xs && (2 <=? length xs)%nat && Nat.eqb (length es) (length xs)
                           then match pevals sg es with Some vals => if typed_all vals xs then rec (Prog r) (assign_all sg xs vals) else None | None => None end
                           else None) = Some res), JJ (Prog ((if defn then SVarDef xs es else SAssign xs es) :: r)) sg res) as Multi.
  { intro M. cnd M. opn M. cnd M. ands E. apply Nat.eqb_eq in A. apply Nat.leb_le in A0.
    destruct (typed_all_ok xs l sg He E1) as [Henv Hlen]. pose proof (Hrec _ _ _ M Henv) as HJ. destruct res as [[sg' out] g]. cbn [JJ] in *.
    destruct defn; [apply (j_define_multi scall XS sg xs es l r sg' out g)|apply (j_assign_multi scall XS sg xs es l r sg' out g)];
      try assumption; try (apply sidesb_ok; assumption); try (apply inb_all; assumption). }
  destruct xs as [|x [|x2 xr]]; [exact (Multi H)| |exact (Multi H)].
  destruct es as [|e [|e2 er]]; [exact (Multi H)| |exact (Multi H)].
  cnd H. opn H. cnd H. ands E. pose proof (typedb_ok sg x v He E1) as Henv. pose proof (Hrec _ _ _ H Henv) as HJ.
  destruct res as [[sg' out] g]. cbn [JJ] in *.
  destruct defn; [apply (j_define scall XS sg x e v r sg' out g)|apply (j_assign scall XS sg x e v r sg' out g)];
    try assumption; try (apply sideb_ok; assumption); try (apply inb_In; assumption).
Qed.

Lemma call_step_sound (defn : bool) xs call r sg res :
  j_call_step XS jc rec xs call r sg = Some res -> env_ok sg ->
  JJ (Prog ((if defn then SVarDefCall xs call else SAssignCall xs call) :: r)) sg res.
Proof.
  intros H He. unfold j_call_step in H. destruct call; try discriminate.
  cnd H. opv H l. opn3 H rvals sg1 o. cnd H. ands E.
  apply Nat.eqb_eq in A. destruct (Hjc _ _ _ _ _ _ E1 He) as [Hsc He1].
  destruct (typed_all_ok xs rvals sg1 He1 E2) as [Henv Hlen].
  destruct (then_rest_sound _ _ _ _ H Henv) as (sg' & out & g & -> & HJ). cbn [JJ].
  destruct defn; [apply (j_call_define_multi scall XS sg xs name rets args l rvals sg1 o r sg' out g)
                 |apply (j_call_assign_multi scall XS sg xs name rets args l rvals sg1 o r sg' out g)];
    try assumption; try (apply sidesb_ok; assumption); try (apply inb_all; assumption).
Qed.

Lemma jstep_sound c sg res : jstep XS jc rec c sg = Some res -> env_ok sg -> JJ c sg res.
Proof.
  intros H He. destruct c as [body|first cond incr body].
  - destruct body as [|st r]; [cbn [jstep] in H; inversion H; subst; cbn [JJ]; apply j_nil|].
    destruct st; cbn [jstep] in H; try discriminate.
    + exact (assign_step_sound true vars vals r sg res H He).
    + exact (call_step_sound true vars call r sg res H He).
    + exact (assign_step_sound false vars vals r sg res H He).
    + exact (call_step_sound false vars call r sg res H He).
    + (* SReturn *) cnd H. opv H l. ands E. inversion H; subst. cbn [JJ].
      apply j_return; try assumption. apply sidesb_ok. assumption.
    + (* SIf *) destruct branches as [|[c0 b0] elifs]; [discriminate|].
      cnd H. opv H l. opv H l0. opn3 H sgm outm g. ands E.
      pose proof (bools_of_ok _ _ E1) as ->.
      assert (forall cb, In cb ((c0, b0) :: elifs) -> side XS (fst cb)) as Hsides
        by (intros cb Hcb; rewrite forallb_forall in A; exact (sideb_ok XS (fst cb) (A cb Hcb))).
      pose proof (Hrec _ _ _ E2 He) as HJb. cbn [JJ] in HJb.
      destruct (is_SN g) eqn:Eg.
      * destruct g; try discriminate. pose proof (J_env _ _ _ _ _ _ _ HJb He) as Hem.
        destruct (then_rest_sound _ _ _ _ H Hem) as (sg' & out & g' & -> & HJ). cbn [JJ].
        exact (j_if_next scall XS sg c0 b0 elifs els l0 sgm outm r sg' out g' E Hsides E0 HJb HJ).
      * cnd H. inversion H; subst. cbn [JJ].
        apply (j_if_stop scall XS sg c0 b0 elifs els l0 sgm outm r g E Hsides E0 HJb); [|exact E3].
        intro Hg. subst g. discriminate.
    + (* SFor *) cnd H. ands E. opn3 H sg1 o1 g1. destruct g1; try discriminate.
      pose proof (Hrec _ _ _ E0 He) as HJi. cbn [JJ] in HJi. pose proof (J_env _ _ _ _ _ _ _ HJi He) as He1.
      opn3 H sg2 o2 g2. pose proof (Hrec _ _ _ E1 He1) as HJl. cbn [JJ] in HJl.
      pose proof (J_env _ _ _ _ _ _ _ HJl He1) as He2.
      destruct g2; try discriminate.
      * destruct (then_rest_sound _ _ _ _ H He2) as (sg' & out & g' & -> & HJ). cbn [JJ]. rewrite <- app_assoc.
        exact (j_for scall XS sg init cond incr body sg1 o1 sg2 o2 r sg' out g' E (sideb_ok _ _ A) HJi HJl HJ).
      * cnd H. inversion H; subst. cbn [JJ].
        exact (j_for_return scall XS sg init cond incr body sg1 o1 sg2 o2 rvals r E (sideb_ok _ _ A) E2 HJi HJl).
    + (* SBreak *) cnd H. inversion H; subst. cbn [JJ]. apply j_break. exact E.
    + (* SContinue *) cnd H. inversion H; subst. cbn [JJ]. apply j_continue. exact E.
    + (* SPrint *) cnd H. opv H l. ands E.
      destruct (then_rest_sound _ _ _ _ H He) as (sg' & out & g' & -> & HJ). cbn [JJ]. rewrite <- app_assoc.
      apply j_print; try assumption. apply sidesb_ok. assumption.
    + (* SExpr *) destruct e; try discriminate. cnd H. opv H l. opn3 H rvals sg1 o. ands E.
      destruct (Hjc _ _ _ _ _ _ E1 He) as [Hsc He1].
      destruct (then_rest_sound _ _ _ _ H He1) as (sg' & out & g' & -> & HJ). cbn [JJ].
      apply (j_call_stmt scall XS sg name rets args l rvals sg1 o r sg' out g'); try assumption. apply sidesb_ok. assumption.
  - cbn [jstep] in H. opn3 H sg1 o1 g1. destruct g1; try discriminate.
    pose proof (Hrec _ _ _ E He) as HJi. cbn [JJ] in HJi. pose proof (J_env _ _ _ _ _ _ _ HJi He) as He1.
    opv H v. destruct v; try discriminate. destruct b.
    + opn3 H sg2 o2 gb. pose proof (Hrec _ _ _ E1 He1) as HJb. cbn [JJ] in HJb.
      pose proof (J_env _ _ _ _ _ _ _ HJb He1) as He2.
      destruct gb.
      * opn3 H sg3 o3 g3. inversion H; subst. cbn [JJ].
        exact (l_next scall XS first cond incr body sg sg1 o1 sg2 o2 SN sg3 o3 g3 HJi E0 HJb (or_introl eq_refl) (Hrec _ _ _ E2 He2)).
      * inversion H; subst. cbn [JJ]. exact (l_break scall XS first cond incr body sg sg1 o1 sg2 o2 HJi E0 HJb).
      * opn3 H sg3 o3 g3. inversion H; subst. cbn [JJ].
        exact (l_next scall XS first cond incr body sg sg1 o1 sg2 o2 SC sg3 o3 g3 HJi E0 HJb (or_intror eq_refl) (Hrec _ _ _ E2 He2)).
      * inversion H; subst. cbn [JJ]. exact (l_return scall XS first cond incr body sg sg1 o1 sg2 o2 rvals HJi E0 HJb).
    + inversion H; subst. cbn [JJ]. exact (l_exit scall XS first cond incr body sg sg1 o1 HJi E0).
Qed.
End OneStep.

(* whatever the interpreter computes has a derivation *)
Theorem jrun_sound : forall fuel c sg res, jrun fuel XS jc c sg = Some res -> env_ok sg -> JJ c sg res.
Proof.
  induction fuel as [|f IH]; intros c sg res H He; [discriminate|].
  cbn [jrun] in H. exact (jstep_sound (jrun f XS jc) IH c sg res H He).
Qed.
End Sound.

(* ---- calls: the functions of the program ---- *)
Lemma env_ok_globals sg : env_ok sg -> env_ok (globals_of sg).
Proof. intros H y w Hw. unfold globals_of in Hw. destruct (v_global y); [exact (H y w Hw)|discriminate]. Qed.
Lemma env_ok_leave sg sgl : env_ok sg -> env_ok sgl -> env_ok (leave sg sgl).
Proof. intros H1 H2 y w Hw. unfold leave in Hw. destruct (v_global y); [exact (H2 y w Hw)|exact (H1 y w Hw)]. Qed.

Lemma bind_assign_all : forall ps vals sg, bind ps vals sg = assign_all sg ps vals.
Proof. induction ps as [|p pr IH]; intros vals sg; destruct vals as [|v vr]; try reflexivity. cbn [bind assign_all]. apply IH. Qed.

(* the caller's globals are exactly the callee's *)
Definition agreeb (XS XSf : list var) : bool :=
  forallb (fun x => negb (v_global x) || inb x XSf) XS && forallb (fun x => negb (v_global x) || inb x XS) XSf.
Lemma agreeb_ok XS XSf : agreeb XS XSf = true -> forall x, v_global x = true -> (In x XS <-> In x XSf).
Proof.
  unfold agreeb. intro H. apply andb_true_iff in H as [A B]. rewrite forallb_forall in A, B. intros x Hg. split; intro Hx.
  - specialize (A x Hx). rewrite Hg in A. cbn in A. exact (inb_In _ _ A).
  - specialize (B x Hx). rewrite Hg in B. cbn in B. exact (inb_In _ _ B).
Qed.

Fixpoint jcall_at (defs : list fdef) (fuel d klo mlo : nat) (XS : list var) : jcall_t :=
  match d with
  | O => fun _ _ _ => None
  | S d' => fun f vals sg =>
      match find (fun F => beq (fd_name F) f) defs with
      | Some F =>
          if (fd_num F <? mlo)%nat && (b_for_counter (fd_sr F) <=? klo)%nat && agreeb XS (fd_vars F) && typed_all vals (fd_params F) then
            match jrun fuel (fd_vars F) (jcall_at defs fuel d' (b_for_counter (fd_sf F)) (fd_num F) (fd_vars F)) (Prog (fd_body F))
                       (bind (fd_params F) vals (globals_of sg)) with
            | Some (sgl, o, SR rvals) => Some (rvals, leave sg sgl, o)
            | Some (sgl, o, SN) => Some ([], leave sg sgl, o)
            | _ => None
            end
          else None
      | None => None
      end
  end.

(* the executable calls are source calls of Sem/CallPreserve.v *)
Theorem jcall_at_sound defs fuel : forall d klo mlo XS f vals sg rvals sg1 o,
  jcall_at defs fuel d klo mlo XS f vals sg = Some (rvals, sg1, o) -> env_ok sg ->
  scall_at defs d klo mlo XS f vals sg rvals sg1 o /\ env_ok sg1.
Proof.
  induction d as [|d IH]; intros klo mlo XS f vals sg rvals sg1 o H He; [discriminate|].
  cbn [jcall_at] in H. destruct (find (fun F => beq (fd_name F) f) defs) as [F|] eqn:EF; [|discriminate].
  destruct (find_some _ _ EF) as [HF Hn]. apply beq_eq in Hn.
  cnd H. ands E. apply Nat.ltb_lt in E. apply Nat.leb_le in A1.
  destruct (typed_all_ok (fd_params F) vals (globals_of sg) (env_ok_globals sg He) A) as [Henv0 Hlen]. rewrite <- bind_assign_all in Henv0.
  destruct (jrun fuel (fd_vars F) _ (Prog (fd_body F)) (bind (fd_params F) vals (globals_of sg))) as [[[sgl o0] g]|] eqn:ER; [|discriminate].
  pose proof (jrun_sound (scall_at defs d (b_for_counter (fd_sf F)) (fd_num F)) (fd_vars F) _
               (fun f0 vals0 sg0 rv0 sg10 o00 Hc0 He0 => IH _ _ _ f0 vals0 sg0 rv0 sg10 o00 Hc0 He0) fuel _ _ _ ER Henv0) as HJ.
  cbn [JJ] in HJ. pose proof (J_env _ _ _ _ _ _ _ HJ Henv0) as Hel.
  assert (forall rv, ret_of g rv -> Some (rv, leave sg sgl, o0) = Some (rvals, sg1, o) ->
                     scall_at defs (S d) klo mlo XS f vals sg rvals sg1 o /\ env_ok sg1) as Fin.
  { intros rv Hr Heq. inversion Heq; subst. split; [|exact (env_ok_leave sg sgl He Hel)].
    cbn [scall_at]. exists F, sgl, g. split; [exact HF|]. split; [reflexivity|]. split; [exact E|]. split; [exact A1|].
    split; [exact (agreeb_ok _ _ A0)|]. split; [exact Hlen|]. split; [exact Henv0|]. split; [exact HJ|]. split; [exact Hr|reflexivity]. }
  destruct g; try discriminate.
  - exact (Fin [] (or_intror (conj eq_refl eq_refl)) H).
  - exact (Fin rvals0 (or_introl eq_refl) H).
Qed.

Theorem jrun_program_sound defs fuel d klo mlo XS body sg sg' out :
  jrun fuel XS (jcall_at defs fuel d klo mlo XS) (Prog body) sg = Some (sg', out, SN) -> env_ok sg ->
  J (scall_at defs d klo mlo) XS (Prog body) sg sg' out SN.
Proof.
  intros H He.
  exact (jrun_sound (scall_at defs d klo mlo) XS _ (fun f vals sg0 rv sg1 o Hc He0 => jcall_at_sound defs fuel d klo mlo XS f vals sg0 rv sg1 o Hc He0)
           fuel (Prog body) sg (sg', out, SN) H He).
Qed.

(* ---- whole programs: definitions and top-level statements in order ---- *)
Fixpoint expr_vars (e : expr) : list var :=
  let all := fix all (l : list expr) : list var := match l with [] => [] | x :: r => expr_vars x ++ all r end in
  match e with
  | EBool _ | EInt _ | EStr _ => []
  | EVar v => [v]
  | EUnary x | EGroup x | ELen x | EItoa x | EExists x | ERead x => expr_vars x
  | EBinary l _ r | ECompare l _ r | ELogical l _ r => expr_vars l ++ expr_vars r
  | ECall _ _ args => all args
  | EApp calls => (fix ac (l : list (bytes * list expr)) : list var := match l with [] => [] | c :: r => all (snd c) ++ ac r end) calls
  | ESliceInst _ vals => all vals
  | ESliceEval v i _ => expr_vars v ++ expr_vars i
  | ESubscript v a b => expr_vars v ++ expr_vars a ++ match b with Some x => expr_vars x | None => [] end
  | EInput p => match p with Some x => expr_vars x | None => [] end
  | ECopy d s => d :: expr_vars s
  end.

Fixpoint stmt_vars (st : stmt) : list var :=
  let all := fix all (l : list stmt) : list var := match l with [] => [] | x :: r => stmt_vars x ++ all r end in
  let evs := fix evs (l : list expr) : list var := match l with [] => [] | x :: r => expr_vars x ++ evs r end in
  match st with
  | SVarDef xs es | SAssign xs es => xs ++ evs es
  | SVarDefCall xs c | SAssignCall xs c => xs ++ expr_vars c
  | SSliceAssign v i x => v :: expr_vars i ++ expr_vars x
  | SFunc _ _ params body _ => params ++ all body
  | SReturn es | SPrint es => evs es
  | SIf brs els => (fix ab (l : list (expr * list stmt)) : list var := match l with [] => [] | b :: r => expr_vars (fst b) ++ all (snd b) ++ ab r end) brs ++ all els
  | SFor i c n body => (match i with Some x => stmt_vars x | None => [] end) ++ expr_vars c ++ (match n with Some x => stmt_vars x | None => [] end) ++ all body
  | SBreak | SContinue => []
  | SPanic e | SExpr e => expr_vars e
  | SWrite p d a => expr_vars p ++ expr_vars d ++ expr_vars a
  end.
Fixpoint stmts_vars (l : list stmt) : list var := match l with [] => [] | x :: r => stmt_vars x ++ stmts_vars r end.

Definition st_of (r : tres bstate unit) : option bstate := match r with TOk _ s => Some s | _ => None end.

(* run the program item by item: a definition is translated and recorded, a statement is run by the interpreter with the
   definitions seen so far (the bounds klo, mlo are those of the converter state at the statement) *)
Fixpoint jtop (fuel : nat) (G : list var) (items : list stmt) (s : bstate) (defs : list fdef) (sg : senv) (out : bytes) : option bytes :=
  match items with
  | [] => Some out
  | SFunc f rets params body pub :: r =>
      let sf := cv_func_start bstate atom bash_conv f (map v_name params) rets s in
      match st_of (go_fix body sf), st_of (t_stmt bash_conv (SFunc f rets params body pub) s) with
      | Some sr, Some s' =>
          jtop fuel G r s' (defs ++ [mkFdef f params body (G ++ filter (fun x => negb (v_global x)) (params ++ stmts_vars body)) sf sr]) sg out
      | _, _ => None
      end
  | st :: r =>
      match st_of (t_stmt bash_conv st s) with
      | Some s' =>
          match jrun fuel G (jcall_at defs fuel 40 (b_for_counter s) (S (b_func_counter s)) G) (Prog [st]) sg with
          | Some (sg', o, SN) => jtop fuel G r s' defs sg' (out ++ o)
          | _ => None
          end
      | None => None
      end
  end.

(* every variable of the program that is global or used at top level *)
Definition prog_vars (body : list stmt) : list var :=
  stmts_vars (filter (fun st => match st with SFunc _ _ _ _ _ => false | _ => true end) body) ++ filter v_global (stmts_vars body).

(* the whole program from the converter's initial state *)
Definition jprogram (fuel : nat) (body : list stmt) : option bytes :=
  jtop fuel (prog_vars body) body (cv_program_start bstate atom bash_conv b_init) [] (fun _ => None) [].
