(* The flat shell model with loops: Sem/FlatSem.v extended by  while true; do ... done  with break / continue,
   the first-iteration flag of three-clause loops (flag= / flag=1 / if [ ! -z ${flag} ]; then ... fi) and the exit test
   if [ c -ne 1 ]; then break; fi -- the constructs the Bash converter emits for "for".  A loop is entered by pushing
   the list that follows "do"; "done" and "continue" go back to it, "break" goes behind the matching "done". *)
From Verif Require Import Base.Bytestr Front.Ast Back.BashLines Sem.BashSem Sem.Words Sem.StmtPreserve Sem.FlatSem.
From Coq Require Import ZArith Lia.
Open Scope N_scope.

(* behind the matching done (d: loops opened since) *)
Fixpoint skip_done (ls : list line) (d : nat) : option (list line) :=
  match ls with
  | [] => None
  | LWhile :: r => skip_done r (S d)
  | LDone :: r => match d with O => Some r | S d' => skip_done r d' end
  | _ :: r => skip_done r d
  end.

Definition flag_set (e : shenv) (f : bytes) : bool := match sh_get f e with [] => false | _ => true end.

(* behind the matching closing brace of a function definition (definitions are not nested) *)
Fixpoint skip_close (ls : list line) : option (list line) :=
  match ls with
  | [] => None
  | LClose :: r => Some r
  | _ :: r => skip_close r
  end.

Section Machine.
(* what calling a function does: name, argument texts, environment -> environment afterwards and what was printed
   (the function bodies are run by the machine itself, one level down: see call_of below); and the positional
   parameters of the function body that is being run *)
Variable call : bytes -> list bytes -> shenv -> option (shenv * bytes).
Variable pos : list bytes.

Fixpoint lrun (fuel : nat) (seek : bool) (e : shenv) (L : list (list line)) (ls : list line) : option (shenv * bytes) :=
  match fuel with
  | O => None
  | S f =>
      match ls with
      | [] => if seek then None else match L with [] => Some (e, []) | _ => None end
      | l :: r =>
          if seek then
            match l with
            | LIf w c =>
                match cond_true e c with
                | Some true => lrun f false e L r
                | Some false => match skip_branch r 0 with Some r' => lrun f true e L r' | None => None end
                | None => None
                end
            | LElse => lrun f false e L r
            | LFi => lrun f false e L r
            | _ => None
            end
          else
            match l with
            | LIf w c =>
                if is_if w then
                  match cond_true e c with
                  | Some true => lrun f false e L r
                  | Some false => match skip_branch r 0 with Some r' => lrun f true e L r' | None => None end
                  | None => None
                  end
                else match skip_fi r 0 with Some r' => lrun f false e L r' | None => None end
            | LElse => match skip_fi r 0 with Some r' => lrun f false e L r' | None => None end
            | LFi => lrun f false e L r
            | LNop => lrun f false e L r
            | LForInit fl => lrun f false (sh_set fl [] e) L r
            | LFlagSet fl => lrun f false (sh_set fl (bs "1") e) L r
            | LIncrGuard fl =>
                if flag_set e fl then lrun f false e L r
                else match skip_fi r 0 with Some r' => lrun f false e L r' | None => None end
            | LWhile => lrun f false e (r :: L) r
            | LDone => match L with top :: _ => lrun f false e L top | [] => None end
            | LContinue => match L with top :: _ => lrun f false e L top | [] => None end
            | LBreak => match L, skip_done r 0 with _ :: L', Some r' => lrun f false e L' r' | _, _ => None end
            | LBreakUnless c =>
                match cond_true e c with
                | Some true => lrun f false e L r
                | Some false => match L, skip_done r 0 with _ :: L', Some r' => lrun f false e L' r' | _, _ => None end
                | None => None
                end
            | LFuncOpen _ => match skip_close r with Some r' => lrun f false e L r' | None => None end
            | LLocalParam n i => lrun f false (sh_set n (nth (i - 1) pos []) e) L r
            | LReturn => Some (e, [])
            | LClose => Some (e, [])
            | LCall name args =>
                match call name (map (atom_text e) args) e with
                | Some (e1, o1) => match lrun f false e1 L r with Some (e2, o2) => Some (e2, o1 ++ o2) | None => None end
                | None => None
                end
            | _ => match exec_out e l with
                   | Some (e1, o1) => match lrun f false e1 L r with Some (e2, o2) => Some (e2, o1 ++ o2) | None => None end
                   | None => None
                   end
            end
      end
  end.

Lemma lrun_mono : forall f seek e L ls res, lrun f seek e L ls = Some res -> forall f', (f <= f')%nat -> lrun f' seek e L ls = Some res.
Proof.
  induction f as [|f IH]; intros seek e L ls res H f' Hle; [discriminate|].
  destruct f' as [|f']; [lia|]. assert (f <= f')%nat as Hle' by lia.
  cbn [lrun] in *. destruct ls as [|l r]; [exact H|].
  destruct seek.
  - destruct l; try discriminate; try (exact (IH _ _ _ _ _ H f' Hle')).
    destruct (cond_true e c) as [[|]|]; try discriminate; [exact (IH _ _ _ _ _ H f' Hle')|].
    destruct (skip_branch r 0); [exact (IH _ _ _ _ _ H f' Hle')|discriminate].
  - destruct l;
      try (destruct (exec_out e _) as [[e1 o1]|]; [|discriminate];
           destruct (lrun f false e1 L r) as [[e2 o2]|] eqn:E; [|discriminate]; rewrite (IH _ _ _ _ _ E f' Hle'); exact H);
      try (exact (IH _ _ _ _ _ H f' Hle')); try exact H.
    + destruct (skip_close r); [exact (IH _ _ _ _ _ H f' Hle')|discriminate].
    + destruct (is_if word).
      * destruct (cond_true e c) as [[|]|]; try discriminate; [exact (IH _ _ _ _ _ H f' Hle')|].
        destruct (skip_branch r 0); [exact (IH _ _ _ _ _ H f' Hle')|discriminate].
      * destruct (skip_fi r 0); [exact (IH _ _ _ _ _ H f' Hle')|discriminate].
    + destruct (skip_fi r 0); [exact (IH _ _ _ _ _ H f' Hle')|discriminate].
    + destruct (flag_set e flag); [exact (IH _ _ _ _ _ H f' Hle')|]. destruct (skip_fi r 0); [exact (IH _ _ _ _ _ H f' Hle')|discriminate].
    + destruct (cond_true e c) as [[|]|]; try discriminate; [exact (IH _ _ _ _ _ H f' Hle')|].
      destruct L as [|t L']; [discriminate|]. destruct (skip_done r 0); [exact (IH _ _ _ _ _ H f' Hle')|discriminate].
    + destruct L as [|t L']; [discriminate|]. exact (IH _ _ _ _ _ H f' Hle').
    + destruct L as [|t L']; [discriminate|]. destruct (skip_done r 0); [exact (IH _ _ _ _ _ H f' Hle')|discriminate].
    + destruct L as [|t L']; [discriminate|]. exact (IH _ _ _ _ _ H f' Hle').
    + destruct (call name (map (atom_text e) args) e) as [[e1 o1]|]; [|discriminate].
      destruct (lrun f false e1 L r) as [[e2 o2]|] eqn:E; [|discriminate]. rewrite (IH _ _ _ _ _ E f' Hle'). exact H.
Qed.
End Machine.
