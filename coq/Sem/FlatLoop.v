(* The flat shell model with loops: Sem/FlatSem.v extended by  while true; do ... done  with break / continue,
   the first-iteration flag of three-clause loops (flag= / flag=1 / if [ ! -z ${flag} ]; then ... fi) and the exit test
   if [ c -ne 1 ]; then break; fi -- the constructs the Bash converter emits for "for".  A loop is entered by pushing
   the list that follows "do"; "done" and "continue" go back to it, "break" goes behind the matching "done". *)
From Verif Require Import Base.Bytestr Front.Ast Back.BashLines Sem.BashSem Sem.Words Sem.StmtPreserve Sem.FlatSem.
From Coq Require Import ZArith Lia.
Open Scope N_scope.

(* behind the matching done (d: loops opened since) *)
Fixpoint skip_done (ls : list line) (d : nat) : option (list line) :=
  match ls with
  | [] => None
  | LWhile :: r => skip_done r (S d)
  | LDone :: r => match d with O => Some r | S d' => skip_done r d' end
  | _ :: r => skip_done r d
  end.

Definition flag_set (e : shenv) (f : bytes) : bool := match sh_get f e with [] => false | _ => true end.

(* behind the matching closing brace of a function definition (definitions are not nested) *)
Fixpoint skip_close (ls : list line) : option (list line) :=
  match ls with
  | [] => None
  | LClose :: r => Some r
  | _ :: r => skip_close r
  end.

Section Machine.
(* what calling a function does: fuel for the run of its body, name, argument texts, environment -> environment
   afterwards and what was printed (the function bodies are run by the machine itself, one level down: see call_of
   below; a call gets the fuel its caller has left, more fuel never changes a result); and the positional parameters of
   the function body that is being run *)
Variable call : nat -> bytes -> list bytes -> shenv -> option (shenv * bytes).
Variable pos : list bytes.
Definition fuel_mono : Prop := forall f f' n a e r, (f <= f')%nat -> call f n a e = Some r -> call f' n a e = Some r.

Fixpoint lrun (fuel : nat) (seek : bool) (e : shenv) (L : list (list line)) (ls : list line) : option (shenv * bytes) :=
  match fuel with
  | O => None
  | S f =>
      match ls with
      | [] => if seek then None else match L with [] => Some (e, []) | _ => None end
      | l :: r =>
          if seek then
            match l with
            | LIf w c =>
                match cond_true e c with
                | Some true => lrun f false e L r
                | Some false => match skip_branch r 0 with Some r' => lrun f true e L r' | None => None end
                | None => None
                end
            | LElse => lrun f false e L r
            | LFi => lrun f false e L r
            | _ => None
            end
          else
            match l with
            | LIf w c =>
                if is_if w then
                  match cond_true e c with
                  | Some true => lrun f false e L r
                  | Some false => match skip_branch r 0 with Some r' => lrun f true e L r' | None => None end
                  | None => None
                  end
                else match skip_fi r 0 with Some r' => lrun f false e L r' | None => None end
            | LElse => match skip_fi r 0 with Some r' => lrun f false e L r' | None => None end
            | LFi => lrun f false e L r
            | LNop => lrun f false e L r
            | LForInit fl => lrun f false (sh_set fl [] e) L r
            | LFlagSet fl => lrun f false (sh_set fl (bs "1") e) L r
            | LIncrGuard fl =>
                if flag_set e fl then lrun f false e L r
                else match skip_fi r 0 with Some r' => lrun f false e L r' | None => None end
            | LWhile => lrun f false e (r :: L) r
            | LDone => match L with top :: _ => lrun f false e L top | [] => None end
            | LContinue => match L with top :: _ => lrun f false e L top | [] => None end
            | LBreak => match L, skip_done r 0 with _ :: L', Some r' => lrun f false e L' r' | _, _ => None end
            | LBreakUnless c =>
                match cond_true e c with
                | Some true => lrun f false e L r
                | Some false => match L, skip_done r 0 with _ :: L', Some r' => lrun f false e L' r' | _, _ => None end
                | None => None
                end
            | LFuncOpen _ => match skip_close r with Some r' => lrun f false e L r' | None => None end
            | LLocalParam n i => lrun f false (sh_set n (nth (i - 1) pos []) e) L r
            | LReturn => Some (e, [])
            | LClose => Some (e, [])
            | LCall name args =>
                match call f name (map (atom_text e) args) e with
                | Some (e1, o1) => match lrun f false e1 L r with Some (e2, o2) => Some (e2, o1 ++ o2) | None => None end
                | None => None
                end
            | _ => match exec_out e l with
                   | Some (e1, o1) => match lrun f false e1 L r with Some (e2, o2) => Some (e2, o1 ++ o2) | None => None end
                   | None => None
                   end
            end
      end
  end.

Lemma lrun_mono : fuel_mono -> forall f seek e L ls res, lrun f seek e L ls = Some res -> forall f', (f <= f')%nat -> lrun f' seek e L ls = Some res.
Proof.
  intro Hcm. induction f as [|f IH]; intros seek e L ls res H f' Hle; [discriminate|].
  destruct f' as [|f']; [lia|]. assert (f <= f')%nat as Hle' by lia.
  cbn [lrun] in *. destruct ls as [|l r]; [exact H|].
  destruct seek.
  - destruct l; try discriminate; try (exact (IH _ _ _ _ _ H f' Hle')).
    destruct (cond_true e c) as [[|]|]; try discriminate; [exact (IH _ _ _ _ _ H f' Hle')|].
    destruct (skip_branch r 0); [exact (IH _ _ _ _ _ H f' Hle')|discriminate].
  - destruct l;
      try (destruct (exec_out e _) as [[e1 o1]|]; [|discriminate];
           destruct (lrun f false e1 L r) as [[e2 o2]|] eqn:E; [|discriminate]; rewrite (IH _ _ _ _ _ E f' Hle'); exact H);
      try (exact (IH _ _ _ _ _ H f' Hle')); try exact H.
    + destruct (skip_close r); [exact (IH _ _ _ _ _ H f' Hle')|discriminate].
    + destruct (is_if word).
      * destruct (cond_true e c) as [[|]|]; try discriminate; [exact (IH _ _ _ _ _ H f' Hle')|].
        destruct (skip_branch r 0); [exact (IH _ _ _ _ _ H f' Hle')|discriminate].
      * destruct (skip_fi r 0); [exact (IH _ _ _ _ _ H f' Hle')|discriminate].
    + destruct (skip_fi r 0); [exact (IH _ _ _ _ _ H f' Hle')|discriminate].
    + destruct (flag_set e flag); [exact (IH _ _ _ _ _ H f' Hle')|]. destruct (skip_fi r 0); [exact (IH _ _ _ _ _ H f' Hle')|discriminate].
    + destruct (cond_true e c) as [[|]|]; try discriminate; [exact (IH _ _ _ _ _ H f' Hle')|].
      destruct L as [|t L']; [discriminate|]. destruct (skip_done r 0); [exact (IH _ _ _ _ _ H f' Hle')|discriminate].
    + destruct L as [|t L']; [discriminate|]. exact (IH _ _ _ _ _ H f' Hle').
    + destruct L as [|t L']; [discriminate|]. destruct (skip_done r 0); [exact (IH _ _ _ _ _ H f' Hle')|discriminate].
    + destruct L as [|t L']; [discriminate|]. exact (IH _ _ _ _ _ H f' Hle').
    + destruct (call f name (map (atom_text e) args) e) as [[e1 o1]|] eqn:Ec; [|discriminate]. rewrite (Hcm _ _ _ _ _ _ Hle' Ec).
      destruct (lrun f false e1 L r) as [[e2 o2]|] eqn:E; [|discriminate]. rewrite (IH _ _ _ _ _ E f' Hle'). exact H.
Qed.
End Machine.

(* ---- the call oracle of a script ---- *)
(* the lines behind  name() {  in the script *)
Fixpoint find_def (name : bytes) (ls : list line) : option (list line) :=
  match ls with
  | [] => None
  | LFuncOpen n :: r => if beq n name then Some r else find_def name r
  | _ :: r => find_def name r
  end.

(* a call runs the lines of the definition with the arguments as positional parameters, up to its return or closing
   brace; the functions it calls are run one level down (TypeShell has no recursion: depth bounds the nesting of calls) *)
Fixpoint call_of (script : list line) (depth fuel : nat) (name : bytes) (args : list bytes) (e : shenv) : option (shenv * bytes) :=
  match depth with
  | O => None
  | S d => match find_def name script with
           | Some body => lrun (call_of script d) args fuel false e [] body
           | None => None
           end
  end.

Lemma call_of_mono script : forall d, fuel_mono (call_of script d).
Proof.
  induction d as [|d IH]; intros f f' name args e r Hf H; [discriminate|].
  cbn [call_of] in *. destruct (find_def name script) as [body|]; [|discriminate].
  exact (lrun_mono _ args IH f false e [] body r H f' Hf).
Qed.
