(* Straight-line statements of the Bash target: an assignment (or definition) of one variable from a call-free
   scalar expression, and print of such expressions, do in the shell what they do in the source -- the shell
   environment keeps representing the source environment, and what is printed is the source text of the values,
   whatever bytes the string VALUES contain (the printed line is read with the model of double-quoted text of
   Sem/Words.v).  Sequences of such statements follow by induction. *)
From Verif Require Import Base.Bytestr Base.DecFacts Front.Ast Front.FrontModel Back.BashLines Back.Transpile Back.BashConv
  Back.BashFacts Sem.Src Sem.SrcFacts Sem.BashSem Sem.ExprPreserve Sem.Words.
From Coq Require Import ZArith Lia.
Open Scope N_scope.

(* ---- the shell side with output ---- *)
Definition exec_out (e : shenv) (l : line) : option (shenv * bytes) :=
  match l with
  | LEcho t => match dq e t with Some w => Some (e, w ++ [10]) | None => None end
  | _ => match exec_line e l with Some e' => Some (e', []) | None => None end
  end.

Fixpoint exec_outs (e : shenv) (ls : list line) : option (shenv * bytes) :=
  match ls with
  | [] => Some (e, [])
  | l :: r => match exec_out e l with
              | Some (e1, o1) => match exec_outs e1 r with Some (e2, o2) => Some (e2, o1 ++ o2) | None => None end
              | None => None
              end
  end.

Lemma exec_outs_app e a b :
  exec_outs e (a ++ b) = match exec_outs e a with
                         | Some (e1, o1) => match exec_outs e1 b with Some (e2, o2) => Some (e2, o1 ++ o2) | None => None end
                         | None => None
                         end.
Proof.
  revert e. induction a as [|l a IH]; intro e; cbn [app exec_outs].
  - destruct (exec_outs e b) as [[e2 o2]|]; reflexivity.
  - destruct (exec_out e l) as [[e1 o1]|]; [|reflexivity]. rewrite IH.
    destruct (exec_outs e1 a) as [[e2 o2]|]; [|reflexivity]. destruct (exec_outs e2 b) as [[e3 o3]|]; [|reflexivity].
    rewrite app_assoc. reflexivity.
Qed.

Definition no_echo (l : line) : bool := match l with LEcho _ => false | _ => true end.

(* lines without print behave as in Sem/BashSem.v and print nothing *)
Lemma exec_outs_silent ls : forall e e', forallb no_echo ls = true -> exec_lines e ls = Some e' -> exec_outs e ls = Some (e', []).
Proof.
  induction ls as [|l r IH]; intros e e' Hn H; cbn [exec_lines exec_outs] in *; [inversion H; reflexivity|].
  simpl in Hn. apply andb_true_iff in Hn as [Hl Hr]. destruct (exec_line e l) as [e1|] eqn:E; [|discriminate].
  assert (exec_out e l = Some (e1, [])) as Eo by (destruct l; try discriminate; cbn [exec_out]; rewrite E; reflexivity).
  rewrite Eo, (IH e1 e' Hr H). reflexivity.
Qed.

(* exec_lines only succeeds on assignments, which are silent *)
Lemma exec_lines_no_echo ls : forall e e', exec_lines e ls = Some e' -> forallb no_echo ls = true.
Proof.
  induction ls as [|l r IH]; intros e e' H; [reflexivity|]. cbn [exec_lines] in H.
  destruct (exec_line e l) as [e1|] eqn:E; [|discriminate]. cbn [forallb]. rewrite (IH e1 e' H).
  destruct l; try discriminate; reflexivity.
Qed.

(* ---- the source side ---- *)
(* the variables of a program are its var records: name, scope and type (one name in one scope has one type) *)
Definition same_var (y x : var) : bool := beq (v_name y) (v_name x) && Bool.eqb (v_global y) (v_global x) && vtype_eqb (v_type y) (v_type x).
Definition supd (sg : senv) (x : var) (v : value) : senv := fun y => if same_var y x then Some v else sg y.

(* different variables of the program live in different shell variables *)
Definition names_inj (s : bstate) (xs : list var) : Prop :=
  forall y z, In y xs -> In z xs -> user_name s y = user_name s z -> same_var y z = true.

Lemma dtype_eqb_eq a b : dtype_eqb a b = true -> a = b.
Proof. destruct a, b; try discriminate; reflexivity. Qed.

(* an assignment of a value of the variable's type keeps the environment well typed *)
Lemma env_ok_supd sg x v : env_ok sg -> vkind v = dt (v_type x) -> is_slice (v_type x) = false -> in_range v -> env_ok (supd sg x v).
Proof.
  intros He Hk Hs Hr y w Hw. unfold supd in Hw. destruct (same_var y x) eqn:Sv; [|exact (He y w Hw)].
  inversion Hw; subst w. unfold same_var in Sv. apply andb_true_iff in Sv as [_ Ht]. unfold vtype_eqb in Ht.
  apply andb_true_iff in Ht as [Hd Hsl]. apply dtype_eqb_eq in Hd. apply Bool.eqb_prop in Hsl. rewrite Hd, Hsl. repeat split; assumption.
Qed.

Lemma same_var_name s y x : same_var y x = true -> user_name s y = user_name s x.
Proof.
  unfold same_var, user_name. intro H. apply andb_true_iff in H as [H _]. apply andb_true_iff in H as [H1 H2]. apply beq_eq in H1. apply Bool.eqb_prop in H2. rewrite H1, H2. reflexivity.
Qed.

(* ---- one assignment ---- *)
Theorem assign_preserved : forall sg x e s u s' b v XS,
  pure e = true ->
  t_stmt bash_conv (SAssign [x] [e]) s = TOk u s' ->
  peval sg e = Some v -> env_ok sg -> lits_ok e ->
  incl (vars_of e) XS -> In x XS ->
  represents sg b s XS -> hygienic s XS -> names_inj s XS ->
  exists ls b',
    b_code s' = b_code s ++ ls /\ exec_outs b ls = Some (b', []) /\
    represents (supd sg x v) b' s' XS /\ hygienic s' XS /\ names_inj s' XS /\ (forall y, user_name s' y = user_name s y).
Proof.
  intros sg x e s u s' b v XS Hp Ht Hv Henv Hl Hin Hx Hrep Hhy Hinj.
  cbn [t_stmt] in Ht. unfold assign_values in Ht. cbn [length Nat.ltb Nat.leb firstn eval_values] in Ht.
  mb Ht as vs s1 H1 H2.
  mb H1 as ve s2 H1 H3. mb H3 as v0 s3 H3 H4. mr H3. mb H4 as vr s4 H4 H5. mr H4. mr H5.
  cbn [store_values] in H2. mb H2 as u1 s5 H2 H6. mu H2. mr H6.
  pose proof (expr_preserve e Hp sg true s ve s1 b v H1 Hv Henv Hl (represents_incl _ _ _ _ _ Hrep Hin) (hygienic_incl _ _ _ Hhy Hin))
    as [l1 a1 b1 O1 E1 M1 R1 V1 F1 S1].
  subst ve. cbn [first_value] in *. rewrite bash_var_definition.
  set (n := var_name s1 (v_name x) (v_global x)).
  assert (n = user_name s x) as Hn by (unfold n; exact (user_name_ext _ _ _ x E1)).
  exists (l1 ++ [LAssign n (RAtom a1)]), (sh_set n (atom_text b1 a1) b1).
  assert (ext s (add_line (LAssign n (RAtom a1)) s1) (l1 ++ [LAssign n (RAtom a1)])) as E2
    by (eapply ext_trans; [exact E1|apply ext_add_line]).
  split; [exact (x_code _ _ _ E2)|].
  split.
  { apply exec_outs_silent.
    - rewrite forallb_app, (exec_lines_no_echo l1 b b1 R1). reflexivity.
    - rewrite exec_lines_app, R1. reflexivity. }
  split.
  { intros y w Hy Hw. rewrite (user_name_ext _ _ _ y E2). unfold supd in Hw. destruct (same_var y x) eqn:Sv.
    - inversion Hw; subst w. rewrite (same_var_name s y x Sv), <- Hn, sh_get_set_same. exact V1.
    - rewrite sh_get_set_other.
      + rewrite F1; [exact (Hrep y w Hy Hw)|]. intros k _ Heq. exact (Hhy y k Hy Heq).
      + rewrite Hn. intro Heq. rewrite (Hinj y x Hy Hx Heq) in Sv. discriminate. }
  split.
  { intros y k Hy. rewrite (user_name_ext _ _ _ y E2), (helper_name_ext _ _ _ k E2). exact (Hhy y k Hy). }
  split.
  { intros y z Hy Hz. rewrite (user_name_ext _ _ _ y E2), (user_name_ext _ _ _ z E2). exact (Hinj y z Hy Hz). }
  intro y. exact (user_name_ext _ _ _ y E2).
Qed.

(* ---- the atoms an expression hands on are well-formed words for a double-quoted context ---- *)
Fixpoint lits_neutral (e : expr) : bool :=
  match e with
  | EStr t => neutral t
  | EGroup x | EUnary x | EItoa x | ELen x => lits_neutral x
  | EBinary l _ r | ECompare l _ r | ELogical l _ r => lits_neutral l && lits_neutral r
  | _ => true
  end.

Definition var_fine (s : bstate) (x : var) : Prop := atom_ok (ARef (user_name s x)) = true.

Lemma digit_neutral c : is_digit c = true -> negb (dq_special c) = true.
Proof.
  unfold is_digit, dq_special. intro H. apply andb_true_iff in H as [H1 H2]. apply N.leb_le in H1. apply N.leb_le in H2.
  apply negb_true_iff. repeat (apply orb_false_iff; split); apply N.eqb_neq; lia.
Qed.

Lemma digits_neutral d : forallb is_digit d = true -> neutral d = true.
Proof.
  unfold neutral. induction d as [|c r IH]; intro H; [reflexivity|]. simpl in H. apply andb_true_iff in H as [Hc Hr].
  cbn [forallb]. rewrite (digit_neutral c Hc), (IH Hr). reflexivity.
Qed.

Lemma dec_Z_neutral z : neutral (dec_Z z) = true.
Proof.
  destruct z as [|p|p]; cbn [dec_Z]; [reflexivity|apply digits_neutral; apply dec_N_digits|].
  unfold neutral. cbn [forallb]. change (negb (dq_special 45)) with true. cbn [andb]. apply (digits_neutral _ (dec_N_digits _)).
Qed.

Lemma digit_word c : is_digit c = true -> is_word c = true.
Proof. intro H. unfold is_word. rewrite H. apply orb_true_r. Qed.

Lemma digits_word d : forallb is_digit d = true -> forallb is_word d = true.
Proof. induction d as [|c r IH]; intro H; [reflexivity|]. simpl in H. apply andb_true_iff in H as [Hc Hr]. cbn [forallb]. rewrite (digit_word c Hc), (IH Hr). reflexivity. Qed.

Lemma helper_fine s k : atom_ok (ARef (helper_name s k)) = true.
Proof.
  assert (forall n, forallb is_word (dec_nat n) = true) as W by (intro n; unfold dec_nat; apply digits_word, dec_N_digits).
  unfold helper_name, var_name, atom_ok. destruct ((0 <? b_funcs s)%nat && negb false).
  - apply andb_true_iff. split; [rewrite !forallb_app, !W; reflexivity|reflexivity].
  - apply andb_true_iff. split; [rewrite !forallb_app, !W; reflexivity|reflexivity].
Qed.

Lemma helper_assign_atom mk s a s' : helper_assign mk s = (a, s') -> atom_ok a = true.
Proof.
  intro H. destruct (helper_assign_spec _ _ _ _ H) as [Ha _]. subst a. apply helper_fine.
Qed.

Definition atoms_ok_expr (e : expr) : Prop :=
  pure e = true -> forall used s vs s',
  t_expr bash_conv e used s = TOk vs s' -> lits_neutral e = true -> (forall x, In x (vars_of e) -> var_fine s x) ->
  forallb atom_ok vs = true.

Theorem pure_atoms_ok : forall e, atoms_ok_expr e.
Proof.
  apply AstInd.expr_ind';
    [ intros b0 | intros z | intros str0 | intros x IHe | intros e1 op e2 IHe1 IHe2 | intros e1 op e2 IHe1 IHe2
    | intros e1 op e2 IHe1 IHe2 | intros v0 | intros x IHe | intros n rets args Hargs | intros calls Hcalls
    | intros d0 vals Hvals | intros e1 e2 d0 IHe1 IHe2 | intros e1 e2 eo IHe1 IHe2 IHeo | intros x IHe
    | intros p IHp | intros d0 x IHe | intros x IHe | intros x IHe | intros x IHe ];
    intros Hp used s vs s' Ht Hl Hv; cbn [pure] in Hp; try discriminate; cbn [t_expr] in Ht; cbn [lits_neutral vars_of] in *.
  - mr Ht. destruct b0; reflexivity.
  - mr Ht. cbn [forallb atom_ok]. unfold bash_conv. cbn [cv_int]. rewrite dec_Z_neutral. reflexivity.
  - mb Ht as a s1 H1 H2. mr H2. ml H1. unfold bash_conv in H1. cbn [cv_string] in H1. inversion H1; subst. cbn [forallb atom_ok]. rewrite Hl. reflexivity.
  - mb Ht as vx s1 H1 H2. mb H2 as a s2 H2 H3. mr H3. ml H2. unfold bash_conv in H2. cbn [cv_unary] in H2.
    cbn [forallb]. rewrite (helper_assign_atom _ _ _ _ H2). reflexivity.
  - mb Ht as vl s1 H1 H2. mb H2 as vr s2 H2 H3. mb H3 as a s3 H3 H4. mr H4. unfold bash_conv in H3. cbn [cv_binary] in H3.
    destruct (is_slice (type_of e1)); [discriminate|]. destruct (dt (type_of e1)); try discriminate.
    + destruct (helper_assign _ s2) as [h sx] eqn:Eh. inversion H3; subst. cbn [forallb]. rewrite (helper_assign_atom _ _ _ _ Eh). reflexivity.
    + destruct op; try discriminate. destruct (helper_assign _ s2) as [h sx] eqn:Eh. inversion H3; subst. cbn [forallb]. rewrite (helper_assign_atom _ _ _ _ Eh). reflexivity.
  - mb Ht as vl s1 H1 H2. mb H2 as vr s2 H2 H3. mb H3 as a s3 H3 H4. mr H4. unfold bash_conv in H3. cbn [cv_comparison] in H3.
    destruct (cmp_text (type_of e1) op); [|discriminate].
    destruct (helper_assign _ s2) as [h sx] eqn:Eh. inversion H3; subst. cbn [forallb]. rewrite (helper_assign_atom _ _ _ _ Eh). reflexivity.
  - mb Ht as vl s1 H1 H2. mb H2 as vr s2 H2 H3. mb H3 as a s3 H3 H4. mr H4. ml H3. unfold bash_conv in H3. cbn [cv_logical] in H3.
    cbn [forallb]. rewrite (helper_assign_atom _ _ _ _ H3). reflexivity.
  - inversion Ht; subst. cbn [forallb]. unfold bash_conv. cbn [cv_var_evaluation]. rewrite (Hv v0 (or_introl eq_refl)). reflexivity.
  - exact (IHe Hp used s vs s' Ht Hl Hv).
  - apply andb_true_iff in Hp as [Hp Hstr]. mb Ht as vx s1 H1 H2. rewrite Hstr in H2. mb H2 as a s2 H2 H3. mr H3. ml H2.
    unfold bash_conv in H2. cbn [cv_string_len] in H2. unfold next_helper in H2. cbn zeta in H2. inversion H2; subst.
    cbn [forallb]. rewrite andb_true_r. apply (helper_fine {| b_start := b_start s1; b_code := b_code s1; b_var_counter := S (b_var_counter s1);
      b_for_counter := b_for_counter s1; b_fors := b_fors s1; b_funcs := b_funcs s1; b_func_counter := b_func_counter s1;
      b_sah := b_sah s1; b_sch := b_sch s1; b_ssh := b_ssh s1 |} (b_var_counter s1)).
  - mb Ht as vx s1 H1 H2. mr H2. pose proof (IHe Hp true s vx s' H1 Hl Hv) as Hx.
    cbn [forallb]. destruct vx as [|a0 r0]; [reflexivity|]. cbn [first_value]. simpl in Hx. apply andb_true_iff in Hx as [Ha _]. rewrite Ha. reflexivity.
Qed.

(* ---- join with blanks under double quotes ---- *)
Fixpoint inter (l : list atom) : list atom :=
  match l with
  | [] => []
  | [a] => [a]
  | a :: r => a :: ALit [32] :: inter r
  end.

Lemma inter_render l : concat (map render_atom (inter l)) = join [32] (map render_atom l).
Proof.
  induction l as [|a r IH]; [reflexivity|]. destruct r as [|a2 r2]; [cbn; apply app_nil_r|].
  change (inter (a :: a2 :: r2)) with (a :: ALit [32] :: inter (a2 :: r2)). cbn [map concat render_atom]. rewrite IH. reflexivity.
Qed.

Lemma inter_text e l : concat (map (atom_text e) (inter l)) = join [32] (map (atom_text e) l).
Proof.
  induction l as [|a r IH]; [reflexivity|]. destruct r as [|a2 r2]; [cbn; apply app_nil_r|].
  change (inter (a :: a2 :: r2)) with (a :: ALit [32] :: inter (a2 :: r2)). cbn [map concat atom_text]. rewrite IH. reflexivity.
Qed.

Lemma inter_ok l : forallb atom_ok l = true -> forallb atom_ok (inter l) = true.
Proof.
  induction l as [|a r IH]; intro H; [reflexivity|]. simpl in H. apply andb_true_iff in H as [Ha Hr].
  destruct r as [|a2 r2]; [cbn [inter forallb]; rewrite Ha; reflexivity|].
  change (inter (a :: a2 :: r2)) with (a :: ALit [32] :: inter (a2 :: r2)). cbn [forallb]. rewrite Ha, (IH Hr). reflexivity.
Qed.

Lemma dq_join e l : forallb atom_ok l = true -> dq e (join [32] (map render_atom l)) = Some (join [32] (map (atom_text e) l)).
Proof. intro H. rewrite <- inter_render, <- inter_text. apply dq_word. apply inter_ok. exact H. Qed.

(* ---- print ---- *)
Fixpoint pevals (sg : senv) (es : list expr) : option (list value) :=
  match es with
  | [] => Some []
  | e :: r => match peval sg e, pevals sg r with Some v, Some vr => Some (v :: vr) | _, _ => None end
  end.

Definition pv_fix :=
  fix pv (l : list expr) : M (St:=bstate) (list atom) :=
    match l with
    | [] => mret []
    | e :: r => mbind (t_expr bash_conv e true) (fun ve => mbind (pv r) (fun vr => mret (ve ++ vr)))
    end.

Lemma var_fine_ext s s' ls x : ext s s' ls -> var_fine s x -> var_fine s' x.
Proof. intros E H. unfold var_fine. rewrite (user_name_ext _ _ _ x E). exact H. Qed.

Lemma print_values : forall es sg s vs s' b vals XS,
  forallb pure es = true -> pv_fix es s = TOk vs s' -> pevals sg es = Some vals -> env_ok sg ->
  (forall e, In e es -> lits_ok e /\ lits_neutral e = true /\ incl (vars_of e) XS) ->
  (forall x, In x XS -> var_fine s x) ->
  represents sg b s XS -> hygienic s XS ->
  exists ls b',
    ext s s' ls /\ (b_var_counter s <= b_var_counter s')%nat /\ exec_lines b ls = Some b' /\
    map (atom_text b') vs = map text vals /\
    (forall n, (forall k, (b_var_counter s <= k < b_var_counter s')%nat -> n <> helper_name s k) -> sh_get n b' = sh_get n b) /\
    Forall (atom_stable s XS (b_var_counter s')) vs /\ forallb atom_ok vs = true.
Proof.
  induction es as [|e r IH]; intros sg s vs s' b vals XS Hp Ht Hv Henv Hes Hfine Hrep Hhy.
  - cbn [pv_fix] in Ht. mr Ht. cbn [pevals] in Hv. inversion Hv; subst. exists [], b.
    split; [apply ext_refl|]. split; [apply le_n|]. split; [reflexivity|]. split; [reflexivity|].
    split; [intros n _; reflexivity|]. split; [constructor|reflexivity].
  - cbn [pv_fix] in Ht. mb Ht as ve s1 H1 H2. mb H2 as vr s2 H2 H3. mr H3.
    simpl in Hp. apply andb_true_iff in Hp as [Hpe Hpr]. cbn [pevals] in Hv.
    destruct (peval sg e) as [v|] eqn:Ev; [|discriminate]. destruct (pevals sg r) as [vr0|] eqn:Evr; [|discriminate]. inversion Hv; subst vals.
    destruct (Hes e (or_introl eq_refl)) as [Hl [Hn Hi]].
    pose proof (expr_preserve e Hpe sg true s ve s1 b v H1 Ev Henv Hl (represents_incl _ _ _ _ _ Hrep Hi) (hygienic_incl _ _ _ Hhy Hi))
      as [l1 a1 b1 O1 E1 M1 R1 V1 F1 S1].
    pose proof (pure_atoms_ok e Hpe true s ve s1 H1 Hn (fun x Hx => Hfine x (Hi x Hx))) as Hok1.
    subst ve.
    assert (represents sg b1 s1 XS) as Hrep1.
    { intros x w Hx Hw. rewrite (user_name_ext _ _ _ x E1). rewrite F1; [exact (Hrep x w Hx Hw)|]. intros k _ Heq. exact (Hhy x k Hx Heq). }
    assert (hygienic s1 XS) as Hhy1.
    { intros x k Hx. rewrite (user_name_ext _ _ _ x E1), (helper_name_ext _ _ _ k E1). exact (Hhy x k Hx). }
    destruct (IH sg s1 vr s' b1 vr0 XS Hpr H2 Evr Henv (fun e0 H0 => Hes e0 (or_intror H0)) (fun x Hx => var_fine_ext _ _ _ x E1 (Hfine x Hx)) Hrep1 Hhy1)
      as (l2 & b2 & E2 & M2 & R2 & V2 & F2 & S2 & Hok2).
    exists (l1 ++ l2), b2.
    split; [eapply ext_trans; eassumption|]. split; [lia|]. split; [rewrite exec_lines_app, R1; exact R2|].
    split.
    { cbn [app map]. f_equal; [|exact V2]. rewrite <- V1.
      eapply (stable_text s XS (b_var_counter s1)); [exact (stable_vars _ _ _ _ _ S1 Hi)|exact Hhy|].
      intros n Hn'. apply F2. intros k Hk. rewrite (helper_name_ext _ _ _ k E1). apply Hn'. lia. }
    split.
    { intros n Hn'. rewrite F2.
      - apply F1. intros k Hk. apply Hn'. lia.
      - intros k Hk. rewrite (helper_name_ext _ _ _ k E1). apply Hn'. lia. }
    split.
    { cbn [app]. constructor.
      - eapply stable_weaken; [exact (stable_vars _ _ _ _ _ S1 Hi)|lia].
      - eapply Forall_impl; [|exact S2]. intros a Ha. destruct a as [t|n]; [exact I|].
        destruct Ha as [(x & Hx & En)|(k & Hk & En)].
        + left. exists x. split; [exact Hx|]. rewrite En. apply (user_name_ext _ _ _ x E1).
        + right. exists k. split; [exact Hk|]. rewrite En. apply (helper_name_ext _ _ _ k E1). }
    cbn [app forallb]. simpl in Hok1. apply andb_true_iff in Hok1 as [Ha1 _]. rewrite Ha1, Hok2. reflexivity.
Qed.

Theorem print_preserved : forall es sg s u s' b vals XS,
  forallb pure es = true ->
  t_stmt bash_conv (SPrint es) s = TOk u s' ->
  pevals sg es = Some vals -> env_ok sg ->
  (forall e, In e es -> lits_ok e /\ lits_neutral e = true /\ incl (vars_of e) XS) ->
  (forall x, In x XS -> var_fine s x) ->
  represents sg b s XS -> hygienic s XS ->
  exists ls b',
    b_code s' = b_code s ++ ls /\ exec_outs b ls = Some (b', join [32] (map text vals) ++ [10]) /\
    represents sg b' s' XS /\ hygienic s' XS /\ (forall y, user_name s' y = user_name s y).
Proof.
  intros es sg s u s' b vals XS Hp Ht Hv Henv Hes Hfine Hrep Hhy.
  cbn [t_stmt] in Ht. mb Ht as vs s1 H1 H2. mu H2. subst s'.
  destruct (print_values es sg s vs s1 b vals XS Hp H1 Hv Henv Hes Hfine Hrep Hhy) as (l1 & b1 & E1 & M1 & R1 & V1 & F1 & S1 & Hok).
  rewrite bash_print.
  assert (ext s (add_line (LEcho (join [32] (map render_atom vs))) s1) (l1 ++ [LEcho (join [32] (map render_atom vs))])) as E2
    by (eapply ext_trans; [exact E1|apply ext_add_line]).
  exists (l1 ++ [LEcho (join [32] (map render_atom vs))]), b1.
  split; [exact (x_code _ _ _ E2)|].
  split.
  { rewrite exec_outs_app, (exec_outs_silent l1 b b1 (exec_lines_no_echo l1 b b1 R1) R1).
    cbn [exec_outs exec_out]. rewrite (dq_join b1 vs Hok), V1. cbn [app]. rewrite app_nil_r. reflexivity. }
  split.
  { intros x w Hx Hw. rewrite (user_name_ext _ _ _ x E2). rewrite F1; [exact (Hrep x w Hx Hw)|]. intros k _ Heq. exact (Hhy x k Hx Heq). }
  split.
  { intros x k Hx. rewrite (user_name_ext _ _ _ x E2), (helper_name_ext _ _ _ k E2). exact (Hhy x k Hx). }
  intro y. exact (user_name_ext _ _ _ y E2).
Qed.

(* ---- sequences of straight-line statements ---- *)
Definition side (XS : list var) (e : expr) : Prop := lits_ok e /\ lits_neutral e = true /\ incl (vars_of e) XS.

Inductive sl (XS : list var) : senv -> list stmt -> senv -> bytes -> Prop :=
| sl_nil sg : sl XS sg [] sg []
| sl_assign sg x e v r sg' out :
    pure e = true -> side XS e -> In x XS -> peval sg e = Some v -> env_ok (supd sg x v) ->
    sl XS (supd sg x v) r sg' out -> sl XS sg (SAssign [x] [e] :: r) sg' out
| sl_define sg x e v r sg' out :
    pure e = true -> side XS e -> In x XS -> peval sg e = Some v -> env_ok (supd sg x v) ->
    sl XS (supd sg x v) r sg' out -> sl XS sg (SVarDef [x] [e] :: r) sg' out
| sl_print sg es vals r sg' out :
    forallb pure es = true -> (forall e, In e es -> side XS e) -> pevals sg es = Some vals ->
    sl XS sg r sg' out -> sl XS sg (SPrint es :: r) sg' (join [32] (map text vals) ++ [10] ++ out).

Definition go_fix :=
  fix go (b : list stmt) : M (St:=bstate) unit :=
    match b with [] => mret tt | x :: r => mbind (t_stmt bash_conv x) (fun _ => go r) end.

Lemma fine_names s s' XS : (forall y, user_name s' y = user_name s y) -> (forall x, In x XS -> var_fine s x) -> forall x, In x XS -> var_fine s' x.
Proof. intros Hu H x Hx. unfold var_fine. rewrite Hu. exact (H x Hx). Qed.

Lemma inj_names s s' XS : (forall y, user_name s' y = user_name s y) -> names_inj s XS -> names_inj s' XS.
Proof. intros Hu H y z Hy Hz. rewrite !Hu. exact (H y z Hy Hz). Qed.

(* A straight-line program: the emitted lines, run by the shell model, print what the source prints and leave
   the shell environment representing the final source environment. *)
Theorem straight_line_preserved : forall XS sg body sg' out,
  sl XS sg body sg' out -> forall s u s' b,
  go_fix body s = TOk u s' -> env_ok sg ->
  (forall x, In x XS -> var_fine s x) -> represents sg b s XS -> hygienic s XS -> names_inj s XS ->
  exists ls b', b_code s' = b_code s ++ ls /\ exec_outs b ls = Some (b', out) /\ represents sg' b' s' XS.
Proof.
  intros XS sg body sg' out H.
  induction H as [sg|sg x e v r sg' out Hp Hs Hx Hv Henv' Hsl IH|sg x e v r sg' out Hp Hs Hx Hv Henv' Hsl IH|sg es vals r sg' out Hp Hs Hv Hsl IH];
    intros s u s' b Ht Henv Hfine Hrep Hhy Hinj.
  - cbn [go_fix] in Ht. mr Ht. exists [], b. split; [rewrite app_nil_r; reflexivity|]. split; [reflexivity|exact Hrep].
  - cbn [go_fix] in Ht. mb Ht as u1 s1 H1 H2. destruct Hs as [Hl [Hn Hi]].
    destruct (assign_preserved sg x e s u1 s1 b v XS Hp H1 Hv Henv Hl Hi Hx Hrep Hhy Hinj) as (l1 & b1 & C1 & R1 & Rep1 & Hy1 & Inj1 & U1).
    destruct (IH s1 u s' b1 H2 Henv' (fine_names s s1 XS U1 Hfine) Rep1 Hy1 Inj1) as (l2 & b2 & C2 & R2 & Rep2).
    exists (l1 ++ l2), b2. split; [rewrite C2, C1, app_assoc; reflexivity|]. split; [|exact Rep2].
    rewrite exec_outs_app, R1, R2. reflexivity.
  - cbn [go_fix] in Ht. mb Ht as u1 s1 H1 H2. destruct Hs as [Hl [Hn Hi]].
    change (t_stmt bash_conv (SVarDef [x] [e]) s) with (t_stmt bash_conv (SAssign [x] [e]) s) in H1.
    destruct (assign_preserved sg x e s u1 s1 b v XS Hp H1 Hv Henv Hl Hi Hx Hrep Hhy Hinj) as (l1 & b1 & C1 & R1 & Rep1 & Hy1 & Inj1 & U1).
    destruct (IH s1 u s' b1 H2 Henv' (fine_names s s1 XS U1 Hfine) Rep1 Hy1 Inj1) as (l2 & b2 & C2 & R2 & Rep2).
    exists (l1 ++ l2), b2. split; [rewrite C2, C1, app_assoc; reflexivity|]. split; [|exact Rep2].
    rewrite exec_outs_app, R1, R2. reflexivity.
  - cbn [go_fix] in Ht. mb Ht as u1 s1 H1 H2.
    destruct (print_preserved es sg s u1 s1 b vals XS Hp H1 Hv Henv Hs Hfine Hrep Hhy) as (l1 & b1 & C1 & R1 & Rep1 & Hy1 & U1).
    destruct (IH s1 u s' b1 H2 Henv (fine_names s s1 XS U1 Hfine) Rep1 Hy1 (inj_names s s1 XS U1 Hinj)) as (l2 & b2 & C2 & R2 & Rep2).
    exists (l1 ++ l2), b2. split; [rewrite C2, C1, app_assoc; reflexivity|]. split; [|exact Rep2].
    rewrite exec_outs_app, R1, R2. rewrite <- app_assoc. reflexivity.
Qed.
