(* Conditionals of the Bash target.  For programs built from assignments, prints and if / else-if / else with such
   bodies (at any nesting depth): the emitted lines, run by the flat shell model of Sem/FlatSem.v, print what the
   source prints and leave the shell environment representing the final source environment.  As in the source
   language's implementation, ALL conditions of an if / else-if chain are evaluated before the first test. *)
From Verif Require Import Base.Bytestr Base.DecFacts Front.Ast Front.FrontModel Back.BashLines Back.Transpile Back.BashConv
  Back.BashSyntax Back.BashFacts Sem.Src Sem.SrcFacts Sem.BashSem Sem.ExprPreserve Sem.Words Sem.StmtPreserve Sem.FlatSem.
From Coq Require Import ZArith Lia.
Open Scope N_scope.

(* ---- the shape of the translation of a conditional ---- *)
Definition tb (b : list stmt) : M (St:=bstate) unit :=
  match b with [] => upd (cv_nop bstate atom bash_conv) | _ => go_fix b end.

Definition conds_fix :=
  fix conds (l : list (expr * list stmt)) : M (St:=bstate) (list atom) :=
    match l with
    | [] => mret []
    | (c, _) :: r => mbind (t_expr bash_conv c true) (fun vc => mbind (conds r) (fun vr => mret (first_value bash_conv vc :: vr)))
    end.

Definition bodies_fix :=
  fix bodies (l : list (expr * list stmt)) (vs : list atom) {struct l} : M (St:=bstate) unit :=
    match l, vs with
    | [], _ => mret tt
    | (_, b) :: r, v :: vr => mbind (cv_elseif_start bstate atom bash_conv v) (fun _ => mbind (tb b) (fun _ => bodies r vr))
    | _ :: _, [] => fun _ => TPanic
    end.

Definition else_part (els : list stmt) : M (St:=bstate) unit :=
  match els with [] => mret tt | _ => mbind (cv_else_start bstate atom bash_conv) (fun _ => tb els) end.

Lemma if_decompose c0 b0 elifs els s u s' :
  t_stmt bash_conv (SIf ((c0, b0) :: elifs) els) s = TOk u s' ->
  exists v0 s0 cs sc sb0 sch sel,
    t_expr bash_conv c0 true s = TOk v0 s0 /\ conds_fix elifs s0 = TOk cs sc /\
    tb b0 (add_line (LIf (bs "if") (first_value bash_conv v0)) sc) = TOk tt sb0 /\
    bodies_fix elifs cs sb0 = TOk tt sch /\ else_part els sch = TOk tt sel /\ s' = add_line LFi sel.
Proof.
  intro H. cbn [t_stmt] in H.
  mb H as v0 s0 H0 H. mb H as cs sc Hc H. mb H as u1 s1 H1 H. mu H1. subst s1.
  mb H as u2 sb0 Hb0 H. mb H as u3 sch Hch H. mb H as u4 sel Hel H.
  rewrite bash_if_end in H. inversion H; subst; clear H. destruct u2, u3, u4.
  exists v0, s0, cs, sc, sb0, sch, sel. rewrite bash_if_start in Hb0.
  repeat split; assumption.
Qed.

Lemma bodies_step c b r v vr s u s' :
  bodies_fix ((c, b) :: r) (v :: vr) s = TOk u s' ->
  exists s1, tb b (add_line (LIf (bs "elif") v) s) = TOk tt s1 /\ bodies_fix r vr s1 = TOk u s'.
Proof.
  intro H. cbn [bodies_fix] in H. mb H as u1 s1 H1 H. unfold bash_conv in H1. cbn [cv_elseif_start] in H1. inversion H1; subst; clear H1.
  mb H as u2 s2 H2 H. destruct u2. exists s2. split; assumption.
Qed.

(* ---- the fragment, and: everything it emits is jumped over as a whole ---- *)
Fixpoint frag (st : stmt) : bool :=
  let all := fix all (l : list stmt) : bool := match l with [] => true | x :: r => frag x && all r end in
  match st with
  | SAssign [_] [e] => pure e
  | SVarDef [_] [e] => pure e
  | SPrint es => forallb pure es
  | SIf ((c0, b0) :: elifs) els =>
      pure c0 && all b0
      && (fix ab (l : list (expr * list stmt)) : bool := match l with [] => true | cb :: r => pure (fst cb) && all (snd cb) && ab r end) elifs
      && all els
  | _ => false
  end.
Fixpoint frag_all (l : list stmt) : bool := match l with [] => true | x :: r => frag x && frag_all r end.
Fixpoint frag_branches (l : list (expr * list stmt)) : bool :=
  match l with [] => true | cb :: r => pure (fst cb) && frag_all (snd cb) && frag_branches r end.

Lemma frag_all_eq l : (fix all (l : list stmt) : bool := match l with [] => true | x :: r => frag x && all r end) l = frag_all l.
Proof. induction l as [|x r IH]; [reflexivity|]. cbn [frag_all]. rewrite <- IH. reflexivity. Qed.

Lemma frag_branches_eq l :
  (fix ab (l : list (expr * list stmt)) : bool :=
     match l with [] => true | cb :: r => pure (fst cb) && (fix all (l : list stmt) : bool := match l with [] => true | x :: r => frag x && all r end) (snd cb) && ab r end) l
  = frag_branches l.
Proof. induction l as [|cb r IH]; [reflexivity|]. cbn [frag_branches]. rewrite <- IH, frag_all_eq. reflexivity. Qed.

Lemma frag_if c0 b0 elifs els :
  frag (SIf ((c0, b0) :: elifs) els) = pure c0 && frag_all b0 && frag_branches elifs && frag_all els.
Proof. cbn [frag]. rewrite !frag_all_eq, frag_branches_eq. reflexivity. Qed.

Lemma simple_plain ls : forallb is_simple ls = true -> forallb plain_line ls = true.
Proof.
  induction ls as [|l r IH]; intro H; [reflexivity|]. simpl in H. apply andb_true_iff in H as [Hl Hr]. cbn [forallb]. rewrite (IH Hr).
  destruct l; try discriminate; reflexivity.
Qed.

Lemma expr_closed e used s vs s' : t_expr bash_conv e used s = TOk vs s' -> exists ls, ext s s' ls /\ closed ls.
Proof.
  intro H. destruct (t_expr_ok e used s vs s' H) as (ls & E & Hs & _). exists ls. split; [exact E|]. apply closed_plain, simple_plain, Hs.
Qed.

Lemma closed_one l : plain_line l = true -> closed [l].
Proof. intro H. apply closed_plain. cbn [forallb]. rewrite H. reflexivity. Qed.

Definition emits_closed (s s' : bstate) : Prop := exists X, ext s s' X /\ closed X.

Lemma ec_refl s : emits_closed s s. Proof. exists []. split; [apply ext_refl|apply closed_nil]. Qed.
Lemma ec_trans a b c : emits_closed a b -> emits_closed b c -> emits_closed a c.
Proof. intros (X & E1 & C1) (Y & E2 & C2). exists (X ++ Y). split; [eapply ext_trans; eassumption|apply closed_app; assumption]. Qed.
Lemma ec_line l s : plain_line l = true -> emits_closed s (add_line l s).
Proof. intro H. exists [l]. split; [apply ext_add_line|apply closed_one; exact H]. Qed.
Lemma ec_expr e used s vs s' : t_expr bash_conv e used s = TOk vs s' -> emits_closed s s'.
Proof. apply expr_closed. Qed.

Lemma assign_closed x e s u s' : t_stmt bash_conv (SAssign [x] [e]) s = TOk u s' -> emits_closed s s'.
Proof.
  intro Ht. cbn [t_stmt] in Ht. unfold assign_values in Ht. cbn [length Nat.ltb Nat.leb firstn eval_values] in Ht.
  mb Ht as vs s1 H1 H2. mb H1 as ve s2 H1 H3. mb H3 as v0 s3 H3 H4. mr H3. mb H4 as vr s4 H4 H5. mr H4. mr H5.
  cbn [store_values] in H2. mb H2 as u1 s5 H2 H6. mu H2. mr H6. rewrite bash_var_definition.
  eapply ec_trans; [exact (ec_expr _ _ _ _ _ H1)|apply ec_line; reflexivity].
Qed.

Lemma print_closed es s u s' : t_stmt bash_conv (SPrint es) s = TOk u s' -> emits_closed s s'.
Proof.
  intro Ht. cbn [t_stmt] in Ht. mb Ht as vs s1 H1 H2. mu H2. subst s'. rewrite bash_print.
  eapply ec_trans; [|apply ec_line; reflexivity].
  clear -H1. revert s vs s1 H1. induction es as [|e r IH]; intros s vs s1 H1.
  - mr H1. apply ec_refl.
  - mb H1 as ve s2 H1 H2. mb H2 as vr s3 H2 H3. mr H3. eapply ec_trans; [exact (ec_expr _ _ _ _ _ H1)|exact (IH _ _ _ H2)].
Qed.

Lemma conds_closed elifs : forall s cs s', conds_fix elifs s = TOk cs s' -> emits_closed s s' /\ length cs = length elifs.
Proof.
  induction elifs as [|[c b] r IH]; intros s cs s' H.
  - mr H. split; [apply ec_refl|reflexivity].
  - cbn [conds_fix] in H. mb H as vc s1 H1 H2. mb H2 as vr s2 H2 H3. mr H3. destruct (IH _ _ _ H2) as [E L].
    split; [eapply ec_trans; [exact (ec_expr _ _ _ _ _ H1)|exact E]|cbn [length]; rewrite L; reflexivity].
Qed.

(* what follows the first body of a construct up to and including its fi *)
Definition tail_head (l : line) : Prop := l = LFi \/ l = LElse \/ exists c, l = LIf (bs "elif") c.

Record tail_ok (T : list line) : Prop := mkTail {
  t_branch : forall rest d, skip_branch (T ++ rest) (S d) = skip_branch rest d;
  t_fi : forall rest d, skip_fi (T ++ rest) (S d) = skip_fi rest d;
  t_fi0 : forall rest, skip_fi (T ++ rest) 0 = Some rest;
  t_here : forall rest, skip_branch (T ++ rest) 0 = Some (T ++ rest);
  t_shape : exists l r, T = l :: r /\ tail_head l
}.

Lemma tail_fi : tail_ok [LFi].
Proof. constructor; intros; try reflexivity. exists LFi, []. split; [reflexivity|left; reflexivity]. Qed.

Lemma tail_else B : closed B -> tail_ok ([LElse] ++ B ++ [LFi]).
Proof.
  intros [B1 B2]. constructor; intros; cbn [app skip_branch skip_fi]; rewrite <- ?app_assoc; rewrite ?B1, ?B2; try reflexivity.
  exists LElse, (B ++ [LFi]). split; [reflexivity|right; left; reflexivity].
Qed.

Lemma tail_elif c B T : closed B -> tail_ok T -> tail_ok ([LIf (bs "elif") c] ++ B ++ T).
Proof.
  intros [B1 B2] [T1 T2 T3 T4 T5]. constructor; intros; cbn [app skip_branch skip_fi]; change (is_if (bs "elif")) with false; cbn iota;
    rewrite <- ?app_assoc; rewrite ?B1, ?B2; try apply T1; try apply T2; try apply T3; try reflexivity.
  exists (LIf (bs "elif") c), (B ++ T). split; [reflexivity|right; right; exists c; reflexivity].
Qed.

Definition stmt_closed (st : stmt) : Prop := frag st = true -> forall s u s', t_stmt bash_conv st s = TOk u s' -> emits_closed s s'.

Lemma go_closed b : Forall stmt_closed b -> frag_all b = true -> forall s u s', go_fix b s = TOk u s' -> emits_closed s s'.
Proof.
  induction b as [|x r IH]; intros HF Hf s u s' H.
  - mr H. apply ec_refl.
  - inversion HF as [|y l Hx Hr]; subst. cbn [frag_all] in Hf. apply andb_true_iff in Hf as [Fx Fr].
    cbn [go_fix] in H. mb H as u1 s1 H1 H2. eapply ec_trans; [exact (Hx Fx _ _ _ H1)|exact (IH Hr Fr _ _ _ H2)].
Qed.

Lemma tb_closed b : Forall stmt_closed b -> frag_all b = true -> forall s u s', tb b s = TOk u s' -> emits_closed s s'.
Proof.
  intros HF Hf s u s' H. destruct b as [|x r].
  - unfold tb in H. mu H. subst s'. apply ec_line. reflexivity.
  - exact (go_closed (x :: r) HF Hf s u s' H).
Qed.

Definition emits_tail (s s' : bstate) : Prop := exists T, ext s s' T /\ tail_ok T.

Lemma else_tail els : Forall stmt_closed els -> frag_all els = true -> forall s s1,
  else_part els s = TOk tt s1 -> emits_tail s (add_line LFi s1).
Proof.
  intros HF Hf s s1 H. destruct els as [|x r].
  - mr H. exists [LFi]. split; [apply ext_add_line|apply tail_fi].
  - unfold else_part in H. mb H as u1 s2 H1 H2. rewrite bash_else_start in H1. inversion H1; subst; clear H1.
    destruct (tb_closed (x :: r) HF Hf _ _ _ H2) as (B & EB & CB).
    exists ([LElse] ++ B ++ [LFi]). split; [|apply tail_else; exact CB].
    eapply ext_trans; [apply ext_add_line|]. eapply ext_trans; [exact EB|apply ext_add_line].
Qed.

Lemma bodies_tail elifs : Forall (fun cb => Forall stmt_closed (snd cb)) elifs -> frag_branches elifs = true ->
  forall els, Forall stmt_closed els -> frag_all els = true ->
  forall cs s s1 s2, length cs = length elifs -> bodies_fix elifs cs s = TOk tt s1 -> else_part els s1 = TOk tt s2 ->
  emits_tail s (add_line LFi s2).
Proof.
  induction elifs as [|[c b] r IH]; intros HF Hf els HFe Hfe cs s s1 s2 Hlen Hb He.
  - mr Hb. exact (else_tail els HFe Hfe _ _ He).
  - destruct cs as [|v vr]; [discriminate|]. inversion HF as [|y l Hx Hr]; subst. cbn [snd] in Hx.
    cbn [frag_branches fst snd] in Hf. apply andb_true_iff in Hf as [Hf1 Hfr]. apply andb_true_iff in Hf1 as [_ Hfb].
    destruct (bodies_step c b r v vr s tt s1 Hb) as (sm & Hm & Hrest).
    destruct (tb_closed b Hx Hfb _ _ _ Hm) as (B & EB & CB).
    cbn [length] in Hlen. injection Hlen as Hlen.
    destruct (IH Hr Hfr els HFe Hfe vr sm s1 s2 Hlen Hrest He) as (T & ET & CT).
    exists ([LIf (bs "elif") v] ++ B ++ T). split; [|apply tail_elif; assumption].
    eapply ext_trans; [apply ext_add_line|]. eapply ext_trans; [exact EB|exact ET].
Qed.

Theorem frag_closed : forall st, stmt_closed st.
Proof.
  induction st using AstInd.stmt_ind'; intro Hf; try discriminate; intros s u s' Ht.
  - (* SVarDef *) destruct vs as [|x [|? ?]]; try discriminate. destruct es as [|e [|? ?]]; try discriminate.
    change (t_stmt bash_conv (SVarDef [x] [e]) s) with (t_stmt bash_conv (SAssign [x] [e]) s) in Ht. exact (assign_closed x e s u s' Ht).
  - (* SAssign *) destruct vs as [|x [|? ?]]; try discriminate. destruct es as [|e [|? ?]]; try discriminate. exact (assign_closed x e s u s' Ht).
  - (* SIf *)
    destruct brs as [|[c0 b0] elifs]; [discriminate|]. rewrite frag_if in Hf.
    apply andb_true_iff in Hf as [Hf Hfe]. apply andb_true_iff in Hf as [Hf Hfb]. apply andb_true_iff in Hf as [_ Hf0].
    inversion H as [|y l Hb0 Hel]; subst. cbn [snd] in Hb0.
    destruct (if_decompose c0 b0 elifs els s u s' Ht) as (v0 & s0 & cs & sc & sb0 & sch & sel & E0 & Ec & Eb0 & Ech & Eel & ->).
    destruct (conds_closed elifs _ _ _ Ec) as [Cc Lc].
    destruct (tb_closed b0 Hb0 Hf0 _ _ _ Eb0) as (B0 & EB0 & CB0).
    destruct (bodies_tail elifs Hel Hfb els H0 Hfe cs sb0 sch sel Lc Ech Eel) as (T & ET & CT).
    eapply ec_trans; [exact (ec_expr _ _ _ _ _ E0)|]. eapply ec_trans; [exact Cc|].
    exists ([LIf (bs "if") (first_value bash_conv v0)] ++ B0 ++ T). split.
    + eapply ext_trans; [apply ext_add_line|]. eapply ext_trans; [exact EB0|exact ET].
    + destruct CT as [T1 T2 _ _ _]. apply closed_if; assumption.
  - (* SPrint *) exact (print_closed es s u s' Ht).
Qed.

(* ---- a call-free scalar expression hands on exactly one atom ---- *)
Definition single_expr (e : expr) : Prop :=
  pure e = true -> forall used s vs s', t_expr bash_conv e used s = TOk vs s' -> exists a, vs = [a].

Lemma pure_single : forall e, single_expr e.
Proof.
  apply AstInd.expr_ind';
    [ intros b0 | intros z | intros str0 | intros x IHe | intros e1 op e2 IHe1 IHe2 | intros e1 op e2 IHe1 IHe2
    | intros e1 op e2 IHe1 IHe2 | intros v0 | intros x IHe | intros n rets args Hargs | intros calls Hcalls
    | intros d0 vals Hvals | intros e1 e2 d0 IHe1 IHe2 | intros e1 e2 eo IHe1 IHe2 IHeo | intros x IHe
    | intros p IHp | intros d0 x IHe | intros x IHe | intros x IHe | intros x IHe ];
    intros Hp used s vs s' Ht; cbn [pure] in Hp; try discriminate; cbn [t_expr] in Ht.
  - mr Ht. eauto.
  - mr Ht. eauto.
  - mb Ht as a s1 H1 H2. mr H2. eauto.
  - mb Ht as vx s1 H1 H2. mb H2 as a s2 H2 H3. mr H3. eauto.
  - mb Ht as vl s1 H1 H2. mb H2 as vr s2 H2 H3. mb H3 as a s3 H3 H4. mr H4. eauto.
  - mb Ht as vl s1 H1 H2. mb H2 as vr s2 H2 H3. mb H3 as a s3 H3 H4. mr H4. eauto.
  - mb Ht as vl s1 H1 H2. mb H2 as vr s2 H2 H3. mb H3 as a s3 H3 H4. mr H4. eauto.
  - inversion Ht; subst. eauto.
  - exact (IHe Hp used s vs s' Ht).
  - apply andb_true_iff in Hp as [Hp Hstr]. mb Ht as vx s1 H1 H2. rewrite Hstr in H2. mb H2 as a s2 H2 H3. mr H3. eauto.
  - mb Ht as vx s1 H1 H2. mr H2. eauto.
Qed.

Lemma conds_as_pv : forall l s cs sc, (forall cb, In cb l -> pure (fst cb) = true) ->
  conds_fix l s = TOk cs sc -> pv_fix (map fst l) s = TOk cs sc.
Proof.
  induction l as [|[c b] r IH]; intros s cs sc Hp H.
  - exact H.
  - cbn [conds_fix] in H. mb H as vc s1 H1 H2. mb H2 as vr s2 H2 H3. mr H3.
    destruct (pure_single c (Hp (c, b) (or_introl eq_refl)) true s vc s1 H1) as [a ->]. cbn [first_value].
    cbn [map fst pv_fix]. unfold mbind. rewrite H1. rewrite (IH s1 vr sc (fun cb Hc => Hp cb (or_intror Hc)) H2). reflexivity.
Qed.

(* ---- the source side with conditionals ---- *)
Fixpoint pick (bools : list bool) (bodies : list (list stmt)) (els : list stmt) : list stmt :=
  match bools, bodies with
  | true :: _, b :: _ => b
  | false :: bs, _ :: r => pick bs r els
  | _, _ => els
  end.

Inductive slx (XS : list var) : senv -> list stmt -> senv -> bytes -> Prop :=
| x_nil sg : slx XS sg [] sg []
| x_assign sg x e v r sg' out :
    pure e = true -> side XS e -> In x XS -> peval sg e = Some v -> env_ok (supd sg x v) ->
    slx XS (supd sg x v) r sg' out -> slx XS sg (SAssign [x] [e] :: r) sg' out
| x_define sg x e v r sg' out :
    pure e = true -> side XS e -> In x XS -> peval sg e = Some v -> env_ok (supd sg x v) ->
    slx XS (supd sg x v) r sg' out -> slx XS sg (SVarDef [x] [e] :: r) sg' out
| x_print sg es vals r sg' out :
    forallb pure es = true -> (forall e, In e es -> side XS e) -> pevals sg es = Some vals ->
    slx XS sg r sg' out -> slx XS sg (SPrint es :: r) sg' (join [32] (map text vals) ++ [10] ++ out)
| x_if sg c0 b0 elifs els bools sgm outm r sg' out :
    frag (SIf ((c0, b0) :: elifs) els) = true ->
    (forall cb, In cb ((c0, b0) :: elifs) -> side XS (fst cb)) ->
    pevals sg (c0 :: map fst elifs) = Some (map VBool bools) ->
    slx XS sg (pick bools (b0 :: map snd elifs) els) sgm outm ->
    slx XS sgm r sg' out ->
    slx XS sg (SIf ((c0, b0) :: elifs) els :: r) sg' (outm ++ out).

Lemma slx_env XS sg body sg' out : slx XS sg body sg' out -> env_ok sg -> env_ok sg'.
Proof. induction 1; intro He; auto. Qed.

(* ---- the context a translation state and a shell environment must keep ---- *)
Record ctx_ok (XS : list var) (sg : senv) (b : shenv) (s : bstate) : Prop := mkCtx {
  c_fine : forall x, In x XS -> var_fine s x;
  c_rep : represents sg b s XS;
  c_hy : hygienic s XS;
  c_inj : names_inj s XS
}.

Lemma ctx_ext XS sg b s s' ls : ext s s' ls -> ctx_ok XS sg b s -> ctx_ok XS sg b s'.
Proof.
  intros E [A B C D]. constructor.
  - intros x Hx. exact (var_fine_ext _ _ _ x E (A x Hx)).
  - intros x v Hx Hv. rewrite (user_name_ext _ _ _ x E). exact (B x v Hx Hv).
  - intros x k Hx. rewrite (user_name_ext _ _ _ x E), (helper_name_ext _ _ _ k E). exact (C x k Hx).
  - intros y z Hy Hz. rewrite (user_name_ext _ _ _ y E), (user_name_ext _ _ _ z E). exact (D y z Hy Hz).
Qed.

Definition sim (XS : list var) (sg : senv) (body : list stmt) (sg' : senv) (out : bytes) : Prop :=
  forall s u s' b, go_fix body s = TOk u s' -> env_ok sg -> ctx_ok XS sg b s ->
  exists X b', b_code s' = b_code s ++ X /\ ctx_ok XS sg' b' s' /\
               forall rest res, runs b' rest res -> runs b (X ++ rest) (prepend out res).

Lemma prepend_nil res : prepend [] res = res.
Proof. destruct res; reflexivity. Qed.
Lemma prepend_app a b res : prepend a (prepend b res) = prepend (a ++ b) res.
Proof. destruct res; unfold prepend; cbn [fst snd]. rewrite app_assoc. reflexivity. Qed.

Definition seeks (e : shenv) (ls : list line) (res : shenv * bytes) : Prop := exists f, run f true e ls = Some res.

(* leaving a construct after its taken branch *)
Lemma exit_tail T e rest res : tail_ok T -> runs e rest res -> runs e (T ++ rest) res.
Proof.
  intros [_ _ T3 _ (l & r & -> & Hl)] [f Hf]. specialize (T3 rest). exists (S f). cbn [app run].
  destruct Hl as [->|[->|[c ->]]].
  - cbn [app skip_fi] in T3. injection T3 as T3'. rewrite T3'. exact Hf.
  - cbn [app skip_fi] in T3. rewrite T3. exact Hf.
  - cbn [app skip_fi] in T3. change (is_if (bs "elif")) with false in *. cbn iota in *. rewrite T3. exact Hf.
Qed.

Lemma code_same_lines s s' X Y : b_code s' = b_code s ++ X -> ext s s' Y -> X = Y.
Proof. intros H E. rewrite (x_code _ _ _ E) in H. apply app_inv_head in H. symmetry. exact H. Qed.

(* the body of a branch: its lines are closed, and running them is running the source body *)
Lemma run_body XS sg body sgm outm s u s1 b :
  tb body s = TOk u s1 -> frag_all body = true -> sim XS sg body sgm outm -> env_ok sg -> ctx_ok XS sg b s ->
  exists B b', ext s s1 B /\ closed B /\ ctx_ok XS sgm b' s1 /\ forall rest res, runs b' rest res -> runs b (B ++ rest) (prepend outm res).
Proof.
  intros Ht Hf Hsim Henv Hc. destruct body as [|x r].
  - unfold tb in Ht. mu Ht. subst s1. destruct (Hsim s tt s b eq_refl Henv Hc) as (X & b' & Cx & Cc & Hk).
    assert (X = []) as -> by (rewrite <- (app_nil_r (b_code s)) in Cx at 1; apply app_inv_head in Cx; symmetry; exact Cx).
    exists [LNop], b'. split; [apply ext_add_line|]. split; [apply closed_one; reflexivity|].
    split; [exact (ctx_ext _ _ _ _ _ _ (ext_add_line LNop s) Cc)|].
    intros rest res Hr. destruct (Hk rest res Hr) as [f Hf']. exists (S f). exact Hf'.
  - assert (Forall stmt_closed (x :: r)) as HF by (apply Forall_forall; intros st _; apply frag_closed).
    destruct (go_closed (x :: r) HF Hf s u s1 Ht) as (B & EB & CB).
    destruct (Hsim s u s1 b Ht Henv Hc) as (X & b' & Cx & Cc & Hk).
    assert (X = B) as -> by exact (code_same_lines _ _ _ _ Cx EB).
    exists B, b'. split; [exact EB|]. split; [exact CB|]. split; [exact Cc|exact Hk].
Qed.

Lemma cond_of_text e a t : atom_text e a = bool_text t -> cond_true e a = Some t.
Proof. intro H. unfold cond_true. rewrite H, int_of_bool_text. destruct t; reflexivity. Qed.

Lemma sim_nil_ctx XS sg sgm outm s b : sim XS sg [] sgm outm -> env_ok sg -> ctx_ok XS sg b s ->
  exists b', ctx_ok XS sgm b' s /\ forall rest res, runs b' rest res -> runs b rest (prepend outm res).
Proof.
  intros Hsim Henv Hc. destruct (Hsim s tt s b eq_refl Henv Hc) as (X & b' & Cx & Cc & Hk).
  assert (X = []) as -> by (rewrite <- (app_nil_r (b_code s)) in Cx at 1; apply app_inv_head in Cx; symmetry; exact Cx).
  exists b'. split; [exact Cc|exact Hk].
Qed.

(* the else part, reached with every condition false *)
Lemma walk_else XS sg sgm outm els s s1 b :
  else_part els s = TOk tt s1 -> frag_all els = true -> sim XS sg els sgm outm -> env_ok sg -> ctx_ok XS sg b s ->
  exists T b', ext s (add_line LFi s1) T /\ tail_ok T /\ ctx_ok XS sgm b' (add_line LFi s1) /\
               forall rest res, runs b' rest res -> seeks b (T ++ rest) (prepend outm res).
Proof.
  intros He Hf Hsim Henv Hc. destruct els as [|x r].
  - mr He. destruct (sim_nil_ctx XS sg sgm outm s1 b Hsim Henv Hc) as (b' & Cc & Hk).
    exists [LFi], b'. split; [apply ext_add_line|]. split; [apply tail_fi|].
    split; [exact (ctx_ext _ _ _ _ _ _ (ext_add_line LFi s1) Cc)|].
    intros rest res Hr. destruct (Hk rest res Hr) as [f Hf']. exists (S f). exact Hf'.
  - unfold else_part in He. mb He as u1 s2 H1 H2. rewrite bash_else_start in H1. inversion H1; subst; clear H1.
    assert (ctx_ok XS sg b (add_line LElse s)) as Hc1 by exact (ctx_ext _ _ _ _ _ _ (ext_add_line LElse s) Hc).
    destruct (run_body XS sg (x :: r) sgm outm _ tt s1 b H2 Hf Hsim Henv Hc1) as (B & b' & EB & CB & Cc & Hk).
    exists ([LElse] ++ B ++ [LFi]), b'.
    split; [eapply ext_trans; [apply ext_add_line|]; eapply ext_trans; [exact EB|apply ext_add_line]|].
    split; [apply tail_else; exact CB|].
    split; [exact (ctx_ext _ _ _ _ _ _ (ext_add_line LFi s1) Cc)|].
    intros rest res Hr.
    assert (runs b' ([LFi] ++ rest) res) as Hr1 by (destruct Hr as [f Hf']; exists (S f); exact Hf').
    destruct (Hk ([LFi] ++ rest) res Hr1) as [f Hf']. exists (S f). cbn [app run]. rewrite <- app_assoc. exact Hf'.
Qed.

(* the chain of else-if parts, reached with every earlier condition false *)
Lemma walk XS sgm outm els : frag_all els = true ->
  forall elifs, frag_branches elifs = true ->
  forall cs bools s s1 s2 sg b,
  length cs = length elifs -> length bools = length elifs ->
  bodies_fix elifs cs s = TOk tt s1 -> else_part els s1 = TOk tt s2 ->
  map (atom_text b) cs = map bool_text bools ->
  env_ok sg -> ctx_ok XS sg b s ->
  sim XS sg (pick bools (map snd elifs) els) sgm outm ->
  exists T b', ext s (add_line LFi s2) T /\ tail_ok T /\ ctx_ok XS sgm b' (add_line LFi s2) /\
               forall rest res, runs b' rest res -> seeks b (T ++ rest) (prepend outm res).
Proof.
  intros Hfe. induction elifs as [|[c body] r IH]; intros Hf cs bools s s1 s2 sg b Lc Lb Hb He Ht Henv Hc Hsim.
  - mr Hb. destruct bools; [|discriminate]. cbn [pick map] in Hsim. exact (walk_else XS sg sgm outm els _ _ b He Hfe Hsim Henv Hc).
  - destruct cs as [|v vr]; [discriminate|]. destruct bools as [|t ts]; [discriminate|].
    cbn [frag_branches fst snd] in Hf. apply andb_true_iff in Hf as [Hf1 Hfr]. apply andb_true_iff in Hf1 as [_ Hfb].
    destruct (bodies_step c body r v vr s tt s1 Hb) as (sm & Hm & Hrest).
    cbn [map] in Ht. injection Ht as Hv Hvr. cbn [length] in Lc, Lb. injection Lc as Lc. injection Lb as Lb.
    assert (ctx_ok XS sg b (add_line (LIf (bs "elif") v) s)) as Hc1 by exact (ctx_ext _ _ _ _ _ _ (ext_add_line _ s) Hc).
    destruct t.
    + (* this branch is taken *)
      cbn [pick map snd] in Hsim.
      destruct (run_body XS sg body sgm outm _ tt sm b Hm Hfb Hsim Henv Hc1) as (B & b' & EB & CB & Cc & Hk).
      assert (Forall (fun cb => Forall stmt_closed (snd cb)) r) as HFr.
      { apply Forall_forall. intros cb _. apply Forall_forall. intros st _. apply frag_closed. }
      assert (Forall stmt_closed els) as HFe by (apply Forall_forall; intros st _; apply frag_closed).
      destruct (bodies_tail r HFr Hfr els HFe Hfe vr sm s1 s2 Lc Hrest He) as (T & ET & CT).
      exists ([LIf (bs "elif") v] ++ B ++ T), b'.
      split; [eapply ext_trans; [apply ext_add_line|]; eapply ext_trans; [exact EB|exact ET]|].
      split; [apply tail_elif; assumption|].
      split; [exact (ctx_ext _ _ _ _ _ _ ET Cc)|].
      intros rest res Hr. pose proof (exit_tail T b' rest res CT Hr) as Hr1.
      destruct (Hk (T ++ rest) res Hr1) as [f Hf']. exists (S f). cbn [app run].
      rewrite (cond_of_text b v true Hv). rewrite <- app_assoc. exact Hf'.
    + (* not taken: on to the next part *)
      cbn [pick map snd] in Hsim.
      assert (Forall stmt_closed body) as HFb by (apply Forall_forall; intros st _; apply frag_closed).
      destruct (tb_closed body HFb Hfb _ _ _ Hm) as (B & EB & CB).
      assert (ctx_ok XS sg b sm) as Hcm by exact (ctx_ext _ _ _ _ _ _ EB Hc1).
      destruct (IH Hfr vr ts sm s1 s2 sg b Lc Lb Hrest He Hvr Henv Hcm Hsim) as (T & b' & ET & CT & Cc & Hk).
      exists ([LIf (bs "elif") v] ++ B ++ T), b'.
      split; [eapply ext_trans; [apply ext_add_line|]; eapply ext_trans; [exact EB|exact ET]|].
      split; [apply tail_elif; assumption|]. split; [exact Cc|].
      intros rest res Hr. destruct (Hk rest res Hr) as [f Hf']. exists (S f). cbn [app run].
      rewrite (cond_of_text b v false Hv). rewrite <- app_assoc. destruct CB as [CB1 _]. rewrite CB1.
      rewrite (t_here T CT rest). exact Hf'.
Qed.

Lemma ctx_fine_names XS sg b s s' : (forall y, user_name s' y = user_name s y) ->
  represents sg b s' XS -> hygienic s' XS -> names_inj s' XS -> (forall x, In x XS -> var_fine s x) -> ctx_ok XS sg b s'.
Proof. intros U R H I F. constructor; [exact (fine_names s s' XS U F)|exact R|exact H|exact I]. Qed.

Lemma in_map_fst (l : list (expr * list stmt)) (e : expr) : In e (map (@fst expr (list stmt)) l) -> exists cb, In cb l /\ fst cb = e.
Proof. intro H. apply in_map_iff in H as (cb & E & I). exists cb. split; assumption. Qed.

Lemma frag_branches_pure l : frag_branches l = true -> forall cb, In cb l -> pure (fst cb) = true.
Proof.
  induction l as [|x r IH]; intros H cb Hin; [destruct Hin|]. cbn [frag_branches] in H. apply andb_true_iff in H as [H1 Hr]. apply andb_true_iff in H1 as [Hp _].
  destruct Hin as [->|Hin]; [exact Hp|exact (IH Hr cb Hin)].
Qed.

Lemma forallb_pure_map (l : list (expr * list stmt)) : (forall cb, In cb l -> pure (fst cb) = true) -> forallb pure (map fst l) = true.
Proof. intro H. apply forallb_forall. intros e He. destruct (in_map_fst l e He) as (cb & Hin & <-). exact (H cb Hin). Qed.

Theorem slx_sim : forall XS sg body sg' out, slx XS sg body sg' out -> sim XS sg body sg' out.
Proof.
  intros XS sg body sg' out H.
  induction H as [sg|sg x e v r sg' out Hp Hs Hx Hv Henv' Hsl IH|sg x e v r sg' out Hp Hs Hx Hv Henv' Hsl IH|sg es vals r sg' out Hp Hs Hv Hsl IH
                 |sg c0 b0 elifs els bools sgm outm r sg' out Hfrag Hside Hv Hch IHch Hsl IHr];
    intros s u s' b Ht Henv Hc.
  - (* nil *) mr Ht. exists [], b. split; [rewrite app_nil_r; reflexivity|]. split; [exact Hc|]. intros rest res Hr. rewrite prepend_nil. exact Hr.
  - (* assign *) cbn [go_fix] in Ht. mb Ht as u1 s1 H1 H2. destruct Hs as [Hl [Hn Hi]]. destruct Hc as [Cf Cr Ch Ci].
    destruct (assign_preserved sg x e s u1 s1 b v XS Hp H1 Hv Henv Hl Hi Hx Cr Ch Ci) as (l1 & b1 & C1 & R1 & Rep1 & Hy1 & Inj1 & U1).
    destruct (IH s1 u s' b1 H2 Henv' (ctx_fine_names XS _ b1 s s1 U1 Rep1 Hy1 Inj1 Cf)) as (X2 & b2 & C2 & Cc2 & Hk).
    exists (l1 ++ X2), b2. split; [rewrite C2, C1, app_assoc; reflexivity|]. split; [exact Cc2|].
    intros rest res Hr. rewrite <- app_assoc. rewrite <- (prepend_nil (prepend out res)). exact (runs_straight l1 b b1 [] _ _ R1 (Hk rest res Hr)).
  - (* define *) cbn [go_fix] in Ht. mb Ht as u1 s1 H1 H2. destruct Hs as [Hl [Hn Hi]]. destruct Hc as [Cf Cr Ch Ci].
    change (t_stmt bash_conv (SVarDef [x] [e]) s) with (t_stmt bash_conv (SAssign [x] [e]) s) in H1.
    destruct (assign_preserved sg x e s u1 s1 b v XS Hp H1 Hv Henv Hl Hi Hx Cr Ch Ci) as (l1 & b1 & C1 & R1 & Rep1 & Hy1 & Inj1 & U1).
    destruct (IH s1 u s' b1 H2 Henv' (ctx_fine_names XS _ b1 s s1 U1 Rep1 Hy1 Inj1 Cf)) as (X2 & b2 & C2 & Cc2 & Hk).
    exists (l1 ++ X2), b2. split; [rewrite C2, C1, app_assoc; reflexivity|]. split; [exact Cc2|].
    intros rest res Hr. rewrite <- app_assoc. rewrite <- (prepend_nil (prepend out res)). exact (runs_straight l1 b b1 [] _ _ R1 (Hk rest res Hr)).
  - (* print *) cbn [go_fix] in Ht. mb Ht as u1 s1 H1 H2. destruct Hc as [Cf Cr Ch Ci].
    destruct (print_preserved es sg s u1 s1 b vals XS Hp H1 Hv Henv Hs Cf Cr Ch) as (l1 & b1 & C1 & R1 & Rep1 & Hy1 & U1).
    destruct (IH s1 u s' b1 H2 Henv (ctx_fine_names XS _ b1 s s1 U1 Rep1 Hy1 (inj_names s s1 XS U1 Ci) Cf)) as (X2 & b2 & C2 & Cc2 & Hk).
    exists (l1 ++ X2), b2. split; [rewrite C2, C1, app_assoc; reflexivity|]. split; [exact Cc2|].
    intros rest res Hr. rewrite <- app_assoc.
    replace (prepend (join [32] (map text vals) ++ [10] ++ out) res) with (prepend (join [32] (map text vals) ++ [10]) (prepend out res))
      by (rewrite prepend_app, <- app_assoc; reflexivity).
    exact (runs_straight l1 b b1 _ _ _ R1 (Hk rest res Hr)).
  - (* if *)
    cbn [go_fix] in Ht. mb Ht as u1 s1 H1 H2.
    destruct (if_decompose c0 b0 elifs els s u1 s1 H1) as (v0 & s0 & cs & sc & sb0 & sch & sel & E0 & Ec & Eb0 & Ech & Eel & ->).
    rewrite frag_if in Hfrag. apply andb_true_iff in Hfrag as [Hf Hfe]. apply andb_true_iff in Hf as [Hf Hfb]. apply andb_true_iff in Hf as [Hp0 Hf0].
    (* all conditions, evaluated before the first test *)
    assert (conds_fix ((c0, b0) :: elifs) s = TOk (first_value bash_conv v0 :: cs) sc) as Econds
      by (cbn [conds_fix]; unfold mbind; rewrite E0, Ec; reflexivity).
    assert (forall cb, In cb ((c0, b0) :: elifs) -> pure (fst cb) = true) as Hpure
      by (intros cb [<-|Hin]; [exact Hp0|exact (frag_branches_pure elifs Hfb cb Hin)]).
    pose proof (conds_as_pv _ _ _ _ Hpure Econds) as Epv.
    destruct Hc as [Cf Cr Ch Ci].
    assert (forall e, In e (map fst ((c0, b0) :: elifs)) -> lits_ok e /\ lits_neutral e = true /\ incl (vars_of e) XS) as Hsides
      by (intros e He; destruct (in_map_fst _ e He) as (cb & Hin & <-); exact (Hside cb Hin)).
    destruct (print_values (map fst ((c0, b0) :: elifs)) sg s _ sc b (map VBool bools) XS (forallb_pure_map _ Hpure) Epv Hv Henv Hsides Cf Cr Ch)
      as (Lc & bc & ELc & Mc & Rc & Vc & Fc & _ & _).
    destruct (conds_closed elifs _ _ _ Ec) as [_ Lcs].
    destruct bools as [|t0 ts]; [discriminate|]. cbn [map] in Vc. injection Vc as V0 Vts.
    rewrite text_bool in V0.
    assert (map (atom_text bc) cs = map bool_text ts) as Vts'.
    { rewrite Vts. clear. induction ts as [|t r IH]; [reflexivity|]. cbn [map]. rewrite text_bool, IH. reflexivity. }
    assert (length ts = length elifs) as Lts.
    { rewrite <- Lcs. rewrite <- (map_length (atom_text bc) cs), Vts', map_length. reflexivity. }
    assert (ctx_ok XS sg bc sc) as Hcc.
    { apply (ctx_ext XS sg bc s sc Lc ELc). constructor; [exact Cf| |exact Ch|exact Ci].
      apply (represents_frame sg b bc s XS (b_var_counter s) Cr Ch). intros n Hn. apply Fc. intros k Hk. apply Hn. lia. }
    set (a0 := first_value bash_conv v0) in *.
    assert (ctx_ok XS sg bc (add_line (LIf (bs "if") a0) sc)) as HcI by exact (ctx_ext _ _ _ _ _ _ (ext_add_line _ sc) Hcc).
    pose proof (slx_env _ _ _ _ _ Hch Henv) as Henvm.
    assert (exec_outs b Lc = Some (bc, [])) as RLc by exact (exec_outs_silent Lc b bc (exec_lines_no_echo Lc b bc Rc) Rc).
    assert (Forall (fun cb => Forall stmt_closed (snd cb)) elifs) as HFr
      by (apply Forall_forall; intros cb _; apply Forall_forall; intros st _; apply frag_closed).
    assert (Forall stmt_closed els) as HFe by (apply Forall_forall; intros st _; apply frag_closed).
    (* the construct itself: lines XI from s to s1, final shell environment b1 *)
    assert (exists XI b1, ext s (add_line LFi sel) XI /\ ctx_ok XS sgm b1 (add_line LFi sel) /\
                          forall rest res, runs b1 rest res -> runs b (XI ++ rest) (prepend outm res)) as (XI & b1 & EXI & Cc1 & HkI).
    { destruct t0.
      - (* the first branch *)
        cbn [pick map snd] in IHch.
        destruct (run_body XS sg b0 sgm outm _ tt sb0 bc Eb0 Hf0 IHch Henv HcI) as (B0 & b1 & EB0 & CB0 & Cc1 & Hk0).
        destruct (bodies_tail elifs HFr Hfb els HFe Hfe cs sb0 sch sel Lcs Ech Eel) as (T & ET & CT).
        exists (Lc ++ [LIf (bs "if") a0] ++ B0 ++ T), b1.
        split; [eapply ext_trans; [exact ELc|]; eapply ext_trans; [apply ext_add_line|]; eapply ext_trans; [exact EB0|exact ET]|].
        split; [exact (ctx_ext _ _ _ _ _ _ ET Cc1)|].
        intros rest res Hr. pose proof (exit_tail T b1 rest res CT Hr) as Hr1.
        destruct (Hk0 (T ++ rest) res Hr1) as [f Hf'].
        assert (runs bc (([LIf (bs "if") a0] ++ B0 ++ T) ++ rest) (prepend outm res)) as HrI.
        { exists (S f). cbn [app run]. change (is_if (bs "if")) with true. cbn iota. rewrite (cond_of_text bc a0 true V0). rewrite <- app_assoc. exact Hf'. }
        rewrite <- app_assoc. rewrite <- (prepend_nil (prepend outm res)). exact (runs_straight Lc b bc [] _ _ RLc HrI).
      - (* a later branch or the else part *)
        cbn [pick map snd] in IHch.
        assert (Forall stmt_closed b0) as HFb by (apply Forall_forall; intros st _; apply frag_closed).
        destruct (tb_closed b0 HFb Hf0 _ _ _ Eb0) as (B0 & EB0 & CB0).
        assert (ctx_ok XS sg bc sb0) as Hcb by exact (ctx_ext _ _ _ _ _ _ EB0 HcI).
        destruct (walk XS sgm outm els Hfe elifs Hfb cs ts sb0 sch sel sg bc Lcs Lts Ech Eel Vts' Henv Hcb IHch) as (T & b1 & ET & CT & Cc1 & HkT).
        exists (Lc ++ [LIf (bs "if") a0] ++ B0 ++ T), b1.
        split; [eapply ext_trans; [exact ELc|]; eapply ext_trans; [apply ext_add_line|]; eapply ext_trans; [exact EB0|exact ET]|].
        split; [exact Cc1|].
        intros rest res Hr. destruct (HkT rest res Hr) as [f Hf'].
        assert (runs bc (([LIf (bs "if") a0] ++ B0 ++ T) ++ rest) (prepend outm res)) as HrI.
        { exists (S f). cbn [app run]. change (is_if (bs "if")) with true. cbn iota. rewrite (cond_of_text bc a0 false V0).
          rewrite <- app_assoc. destruct CB0 as [CB1 _]. rewrite CB1, (t_here T CT rest). exact Hf'. }
        rewrite <- app_assoc. rewrite <- (prepend_nil (prepend outm res)). exact (runs_straight Lc b bc [] _ _ RLc HrI). }
    (* and what follows it *)
    destruct (IHr (add_line LFi sel) u s' b1 H2 Henvm Cc1) as (X2 & b2 & C2 & Cc2 & Hk2).
    exists (XI ++ X2), b2. split; [rewrite C2, (x_code _ _ _ EXI), app_assoc; reflexivity|]. split; [exact Cc2|].
    intros rest res Hr. rewrite <- app_assoc. rewrite <- prepend_app. exact (HkI (X2 ++ rest) _ (Hk2 rest res Hr)).
Qed.

(* Programs of assignments, prints and conditionals: the emitted lines, run by the flat shell model, print what the
   source prints and leave the shell environment representing the final source environment. *)
Theorem conditionals_preserved : forall XS sg body sg' out s u s' b,
  slx XS sg body sg' out -> go_fix body s = TOk u s' -> env_ok sg -> ctx_ok XS sg b s ->
  exists X b', b_code s' = b_code s ++ X /\ runs b X (b', out) /\ represents sg' b' s' XS.
Proof.
  intros XS sg body sg' out s u s' b H Ht Henv Hc.
  destruct (slx_sim XS sg body sg' out H s u s' b Ht Henv Hc) as (X & b' & Cx & Cc & Hk).
  exists X, b'. split; [exact Cx|]. split; [|exact (c_rep _ _ _ _ Cc)].
  assert (runs b' [] (b', [])) as H0 by (exists 1%nat; reflexivity).
  pose proof (Hk [] (b', []) H0) as Hr. rewrite app_nil_r in Hr. unfold prepend in Hr. cbn [fst snd] in Hr. rewrite app_nil_r in Hr. exact Hr.
Qed.
