(* The reference semantics of slice element assignment and of substrings (specification sanity, C03). *)
From Verif Require Import Base.Bytestr Front.Ast Sem.Src.
From Coq Require Import ZArith Lia Arith PeanoNat.

Lemma replace_nth_length {A} n (x : A) l : length (replace_nth n x l) = length l.
Proof. revert n; induction l as [|y l IH]; intros [|n]; simpl; auto. Qed.

Lemma replace_nth_same {A} n (x : A) l : (n < length l)%nat -> nth_error (replace_nth n x l) n = Some x.
Proof. revert n; induction l as [|y l IH]; intros [|n] H; simpl in *; try lia; [reflexivity|apply IH; lia]. Qed.

Lemma replace_nth_other {A} n m (x : A) l : n <> m -> nth_error (replace_nth n x l) m = nth_error l m.
Proof. revert n m; induction l as [|y l IH]; intros [|n] [|m] H; simpl; try reflexivity; try congruence. apply IH. congruence. Qed.

Theorem store_length l n v z : length (slice_store l n v z) = Nat.max (length l) (S n).
Proof.
  unfold slice_store. destruct (n <? length l)%nat eqn:E.
  - apply Nat.ltb_lt in E. rewrite replace_nth_length. lia.
  - apply Nat.ltb_ge in E. rewrite !app_length, repeat_length. simpl. lia.
Qed.

Theorem store_written l n v z : nth_error (slice_store l n v z) n = Some v.
Proof.
  unfold slice_store. destruct (n <? length l)%nat eqn:E.
  - apply Nat.ltb_lt in E. apply replace_nth_same. exact E.
  - apply Nat.ltb_ge in E. rewrite nth_error_app2 by lia. rewrite nth_error_app2 by (rewrite repeat_length; lia).
    rewrite repeat_length. replace (n - length l - (n - length l))%nat with 0%nat by lia. reflexivity.
Qed.

Theorem store_keeps l n v z m : (m < length l)%nat -> m <> n -> nth_error (slice_store l n v z) m = nth_error l m.
Proof.
  intros Hm Hn. unfold slice_store. destruct (n <? length l)%nat eqn:E.
  - apply replace_nth_other. congruence.
  - apply nth_error_app1. exact Hm.
Qed.

Theorem store_zero_fills l n v z m : (length l <= m < n)%nat -> nth_error (slice_store l n v z) m = Some z.
Proof.
  intros Hm. unfold slice_store. destruct (n <? length l)%nat eqn:E; [apply Nat.ltb_lt in E; lia|].
  rewrite nth_error_app2 by lia. rewrite nth_error_app1 by (rewrite repeat_length; lia).
  apply nth_error_repeat. lia.
Qed.

(* substrings: s[a:b] of the surface language is the Core pair (a, b-1); its value is Go's s[a:b] *)
Theorem substring_is_go_slice (s : bytes) (a b : nat) : (a <= b <= length s)%nat ->
  sub_bytes s a (b - 1 - a + 1) = firstn (b - a) (skipn a s) \/ a = b.
Proof. intro H. destruct (Nat.eq_dec a b) as [->|Hn]; [right; reflexivity|left]. unfold sub_bytes. f_equal. lia. Qed.

Theorem substring_length (s : bytes) (a n : nat) : (a + n <= length s)%nat -> length (sub_bytes s a n) = n.
Proof. intro H. unfold sub_bytes. rewrite firstn_length, skipn_length. lia. Qed.
