(* The reference semantics of slice element assignment and of substrings (specification sanity, C03). *)
From Verif Require Import Base.Bytestr Front.Ast Sem.Src.
From Coq Require Import ZArith Lia Arith PeanoNat.

Lemma replace_nth_length {A} n (x : A) l : length (replace_nth n x l) = length l.
Proof. revert n; induction l as [|y l IH]; intros [|n]; simpl; auto. Qed.

Lemma replace_nth_same {A} n (x : A) l : (n < length l)%nat -> nth_error (replace_nth n x l) n = Some x.
Proof. revert n; induction l as [|y l IH]; intros [|n] H; simpl in *; try lia; [reflexivity|apply IH; lia]. Qed.

Lemma replace_nth_other {A} n m (x : A) l : n <> m -> nth_error (replace_nth n x l) m = nth_error l m.
Proof. revert n m; induction l as [|y l IH]; intros [|n] [|m] H; simpl; try reflexivity; try congruence. apply IH. congruence. Qed.

Theorem store_length l n v z : length (slice_store l n v z) = Nat.max (length l) (S n).
Proof.
  unfold slice_store. destruct (n <? length l)%nat eqn:E.
  - apply Nat.ltb_lt in E. rewrite replace_nth_length. lia.
  - apply Nat.ltb_ge in E. rewrite !app_length, repeat_length. simpl. lia.
Qed.

Theorem store_written l n v z : nth_error (slice_store l n v z) n = Some v.
Proof.
  unfold slice_store. destruct (n <? length l)%nat eqn:E.
  - apply Nat.ltb_lt in E. apply replace_nth_same. exact E.
  - apply Nat.ltb_ge in E. rewrite nth_error_app2 by lia. rewrite nth_error_app2 by (rewrite repeat_length; lia).
    rewrite repeat_length. replace (n - length l - (n - length l))%nat with 0%nat by lia. reflexivity.
Qed.

Theorem store_keeps l n v z m : (m < length l)%nat -> m <> n -> nth_error (slice_store l n v z) m = nth_error l m.
Proof.
  intros Hm Hn. unfold slice_store. destruct (n <? length l)%nat eqn:E.
  - apply replace_nth_other. congruence.
  - apply nth_error_app1. exact Hm.
Qed.

Theorem store_zero_fills l n v z m : (length l <= m < n)%nat -> nth_error (slice_store l n v z) m = Some z.
Proof.
  intros Hm. unfold slice_store. destruct (n <? length l)%nat eqn:E; [apply Nat.ltb_lt in E; lia|].
  rewrite nth_error_app2 by lia. rewrite nth_error_app1 by (rewrite repeat_length; lia).
  apply nth_error_repeat. lia.
Qed.

(* substrings: s[a:b] of the surface language is the Core pair (a, b-1); its value is Go's s[a:b] *)
Theorem substring_is_go_slice (s : bytes) (a b : nat) : (a <= b <= length s)%nat ->
  sub_bytes s a (b - 1 - a + 1) = firstn (b - a) (skipn a s) \/ a = b.
Proof. intro H. destruct (Nat.eq_dec a b) as [->|Hn]; [right; reflexivity|left]. unfold sub_bytes. f_equal. lia. Qed.

Theorem substring_length (s : bytes) (a n : nat) : (a + n <= length s)%nat -> length (sub_bytes s a n) = n.
Proof. intro H. unfold sub_bytes. rewrite firstn_length, skipn_length. lia. Qed.

(* copy(dst, src): dst[i] == src[i] for every i < len(src), the rest of a longer destination is kept, the length is the larger one *)
Theorem copy_length ls ld : length (copy_store ls ld) = Nat.max (length ls) (length ld).
Proof. unfold copy_store. rewrite app_length, skipn_length. lia. Qed.

Theorem copy_prefix ls ld i : (i < length ls)%nat -> nth_error (copy_store ls ld) i = nth_error ls i.
Proof. intro H. unfold copy_store. apply nth_error_app1. exact H. Qed.

Lemma nth_error_skipn {A} (l : list A) k i : nth_error (skipn k l) i = nth_error l (k + i).
Proof. revert l; induction k as [|k IH]; intros [|y l]; simpl; auto. destruct i; reflexivity. Qed.

Theorem copy_tail ls ld i : (length ls <= i)%nat -> nth_error (copy_store ls ld) i = nth_error ld i.
Proof.
  intro H. unfold copy_store. rewrite nth_error_app2 by exact H. rewrite nth_error_skipn. f_equal. lia.
Qed.

(* reference semantics: a slice value is an index into the heap.  Two variables holding the same VSlice id read the same list,
   a store through one id is what every later read of that id returns, no other id is affected, and a new slice gets an id that
   no existing value can hold. *)
Theorem set_then_get id l s : (id < length (s_heap s))%nat ->
  exists s', set_slice id l s = Done tt s' /\ get_slice id s' = Done l s' /\ length (s_heap s') = length (s_heap s).
Proof.
  intro H. eexists. split; [reflexivity|]. unfold get_slice; simpl. rewrite replace_nth_same by exact H.
  split; [reflexivity|apply replace_nth_length].
Qed.

Theorem set_keeps_others id id' l s s' : set_slice id l s = Done tt s' -> id <> id' ->
  nth_error (s_heap s') id' = nth_error (s_heap s) id'.
Proof. intros E Hn. inversion E; subst; simpl. apply replace_nth_other. exact Hn. Qed.

Theorem set_changes_heap_only id l s s' : set_slice id l s = Done tt s' ->
  s_globals s' = s_globals s /\ s_frame s' = s_frame s /\ s_out s' = s_out s /\ s_files s' = s_files s /\ s_stdin s' = s_stdin s.
Proof. intro E. inversion E; subst; simpl. repeat split. Qed.

Theorem new_slice_fresh l s v s' : new_slice l s = Done v s' ->
  exists id, v = VSlice id /\ nth_error (s_heap s) id = None /\ nth_error (s_heap s') id = Some l
    /\ forall id', (id' < length (s_heap s))%nat -> nth_error (s_heap s') id' = nth_error (s_heap s) id'.
Proof.
  intro E. inversion E; subst; simpl. exists (length (s_heap s)). split; [reflexivity|]. split.
  - apply nth_error_None. lia.
  - split.
    + rewrite nth_error_app2 by lia. rewrite Nat.sub_diag. reflexivity.
    + intros id' H. apply nth_error_app1. exact H.
Qed.

(* an element store through an id, read back through the same id *)
Theorem store_through_alias id n v z s l : get_slice id s = Done l s ->
  exists s', set_slice id (slice_store l n v z) s = Done tt s'
    /\ (exists l', get_slice id s' = Done l' s' /\ nth_error l' n = Some v /\ length l' = Nat.max (length l) (S n)).
Proof.
  intro G. unfold get_slice in G. destruct (nth_error (s_heap s) id) as [l0|] eqn:E; [|discriminate].
  inversion G; subst l0. assert (H : (id < length (s_heap s))%nat) by (apply nth_error_Some; congruence).
  destruct (set_then_get id (slice_store l n v z) s H) as [s' [E1 [E2 _]]].
  exists s'. split; [exact E1|]. eexists. split; [exact E2|]. split; [apply store_written|apply store_length].
Qed.

(* strings as immutable byte sequences: s[:] is s, s[a:a] is empty, s[i] is the i-th byte, and adjacent substrings concatenate
   to the substring over the union (so no byte is lost or duplicated at any cut) *)
Theorem sub_full (s : bytes) : sub_bytes s 0 (length s) = s.
Proof. unfold sub_bytes. simpl. apply firstn_all. Qed.

Theorem sub_empty (s : bytes) a : sub_bytes s a 0 = [].
Proof. reflexivity. Qed.

Theorem sub_single (s : bytes) i : (i < length s)%nat -> sub_bytes s i 1 = [nth i s 0%N].
Proof.
  revert i; induction s as [|c s IH]; intros [|i] H; simpl in *; try lia; [reflexivity|].
  apply (IH i). lia.
Qed.

Lemma firstn_add {A} (l : list A) n m : firstn (n + m) l = firstn n l ++ firstn m (skipn n l).
Proof. revert l; induction n as [|n IH]; intros [|y l]; simpl; auto. - destruct m; reflexivity. - f_equal. apply IH. Qed.

Lemma skipn_add {A} (l : list A) n m : skipn (n + m) l = skipn m (skipn n l).
Proof. revert l; induction n as [|n IH]; intros [|y l]; simpl; auto. destruct m; reflexivity. Qed.

Theorem sub_split (s : bytes) a b c : (a <= b <= c)%nat ->
  sub_bytes s a (b - a) ++ sub_bytes s b (c - b) = sub_bytes s a (c - a).
Proof.
  intros [H1 H2]. unfold sub_bytes.
  replace (c - a)%nat with ((b - a) + (c - b))%nat by lia. rewrite firstn_add. f_equal.
  rewrite <- skipn_add. do 2 f_equal. lia.
Qed.

Theorem sub_concat_left (s t : bytes) : sub_bytes (s ++ t) 0 (length s) = s /\ sub_bytes (s ++ t) (length s) (length t) = t.
Proof.
  unfold sub_bytes; simpl. split.
  - rewrite firstn_app, Nat.sub_diag, firstn_all. simpl. apply app_nil_r.
  - rewrite skipn_app, Nat.sub_diag, skipn_all. simpl. apply firstn_all.
Qed.
