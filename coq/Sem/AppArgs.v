(* The arguments of a command call: how Bash reads each rendered argument (AppCall quotes an argument
   when its text begins with a dollar or contains a blank, and splices it bare otherwise), and for which
   arguments the called program therefore receives exactly the given strings.  arg_words is a model of
   Bash (validated against /bin/bash through the probe program by the appcalls stream of the C18 check). *)
From Verif Require Import Base.Bytestr Front.Ast Back.BashLines Back.Transpile Back.BashConv Sem.BashSem Sem.Words.
Open Scope N_scope.

(* characters that are ordinary in an unquoted word: letters, digits, underscore and  % + , - . / : = @ ] ^ *)
Definition bare_safe (c : N) : bool :=
  is_word c || existsb (N.eqb c) [37; 43; 44; 45; 46; 47; 58; 61; 64; 93; 94].

(* the words one rendered argument contributes to the argument vector; None: outside the fragment
   (the shell would do something else with it: split, expand, or end the command) *)
Definition arg_words (e : shenv) (t : bytes) : option (list bytes) :=
  match t with
  | [] => Some []                                           (* nothing is passed *)
  | _ =>
      if hd_is 34 t then
        match rev (tl t) with
        | c :: ri => if c =? 34 then option_map (fun w => [w]) (dq e (rev ri)) else None
        | [] => None
        end
      else if forallb bare_safe t then Some [t] else None
  end.

Fixpoint argv_words (e : shenv) (args : list bytes) : option (list bytes) :=
  match args with
  | [] => Some []
  | a :: r => match arg_words e a, argv_words e r with
              | Some w, Some ws => Some (w ++ ws)
              | _, _ => None
              end
  end.

(* arguments for which the heuristic is exact *)
Definition arg_fine (a : atom) : bool :=
  match a with
  | ARef n => forallb is_word n && name_ok n
  | ALit t => match t with
              | [] => false
              | _ => (neutral t && existsb (fun c => c =? 32) t) || forallb bare_safe t
              end
  end.

Lemma bare_safe_props c : bare_safe c = true -> (c =? 36) = false /\ (c =? 32) = false /\ (c =? 34) = false.
Proof.
  intro H. repeat split.
  - destruct (c =? 36) eqn:E; [apply N.eqb_eq in E; subst; discriminate|reflexivity].
  - destruct (c =? 32) eqn:E; [apply N.eqb_eq in E; subst; discriminate|reflexivity].
  - destruct (c =? 34) eqn:E; [apply N.eqb_eq in E; subst; discriminate|reflexivity].
Qed.

Lemma bare_no_blank t : forallb bare_safe t = true -> existsb (fun c => c =? 32) t = false.
Proof.
  induction t as [|c t IH]; intro H; [reflexivity|]. simpl in H. apply andb_true_iff in H as [Hc Ht].
  simpl. destruct (bare_safe_props c Hc) as [_ [E _]]. rewrite E. apply IH. exact Ht.
Qed.

Lemma arg_words_quoted e t : arg_words e (q ++ t ++ q) = option_map (fun w => [w]) (dq e t).
Proof.
  unfold arg_words, q. cbn [app hd_is tl]. change (34 =? 34) with true. cbn iota.
  rewrite rev_app_distr. cbn [rev app]. change (34 =? 34) with true. cbn iota. rewrite rev_involutive. reflexivity.
Qed.

(* one argument: exactly one word, with exactly the value *)
Theorem arg_exact e a : arg_fine a = true -> arg_words e (app_arg a) = Some [atom_text e a].
Proof.
  destruct a as [t|n]; intro H.
  - cbn [arg_fine] in H. destruct t as [|c t]; [discriminate|]. apply orb_true_iff in H as [H|H].
    + apply andb_true_iff in H as [Hn Hb]. unfold app_arg. cbn [render_atom]. rewrite Hb, orb_true_r.
      rewrite arg_words_quoted. unfold dq. rewrite <- (app_nil_r (c :: t)). rewrite (dq_neutral e _ [] Hn). simpl. rewrite app_nil_r. reflexivity.
    + unfold app_arg. cbn [render_atom]. rewrite (bare_no_blank _ H). simpl in H. apply andb_true_iff in H as [Hc Ht].
      destruct (bare_safe_props c Hc) as [E1 [E2 E3]]. cbn [hd_is]. rewrite E1. cbn [orb].
      unfold arg_words. cbn [hd_is]. rewrite E3. simpl forallb. rewrite Hc, Ht. reflexivity.
  - cbn [arg_fine] in H. unfold app_arg. assert (hd_is 36 (render_atom (ARef n)) = true) as Hd by reflexivity. rewrite Hd. cbn [orb].
    rewrite arg_words_quoted. rewrite (eval_scans_once e (ARef n) H). reflexivity.
Qed.

(* the whole argument vector: as many words as arguments, each with its value *)
Theorem argv_exact e args : forallb arg_fine args = true ->
  argv_words e (map app_arg args) = Some (map (atom_text e) args).
Proof.
  induction args as [|a r IH]; intro H; [reflexivity|]. simpl in H. apply andb_true_iff in H as [Ha Hr].
  cbn [map argv_words]. rewrite (arg_exact e a Ha), (IH Hr). reflexivity.
Qed.

(* Outside that class the property fails; three witnesses (recorded findings of C18). *)
Theorem empty_argument_vanishes e : arg_words e (app_arg (ALit [])) = Some [].
Proof. reflexivity. Qed.

Theorem metacharacter_not_an_argument e : arg_words e (app_arg (ALit (bs "a;b"))) = None /\ arg_words e (app_arg (ALit (bs "*"))) = None.
Proof. split; reflexivity. Qed.

Example argv_sample :
  argv_words [(bs "sv", bs "a;b * ""q"" $x")] (map app_arg [ALit (bs "--exit=7"); ARef (bs "sv"); ALit (bs "two words"); ALit (bs "x1")])
  = Some [bs "--exit=7"; bs "a;b * ""q"" $x"; bs "two words"; bs "x1"].
Proof. vm_compute. reflexivity. Qed.

(* ---- locating the probe call in an emitted script (used by the correspondence check only) ---- *)
Fixpoint first_probe (e : shenv) (stdin : list bytes) (ls : list line) : option (list bytes) :=
  match ls with
  | [] => None
  | l :: r =>
      match l with
      | LRead _ h => first_probe (sh_set h (hd [] stdin) e) (tl stdin) r
      | LPipeline ((n, args) :: _) => if beq n (bs "probe") then argv_words e args else first_probe e stdin r
      | LAssign h (RCapture ((n, args) :: _)) => if beq n (bs "probe") then argv_words e args else first_probe e stdin r
      | LAssign _ _ => match exec_line e l with Some e' => first_probe e' stdin r | None => first_probe e stdin r end
      | LCall n _ => if beq n (bs "body0") then first_probe e stdin r else None     (* other calls are not followed *)
      | _ => first_probe e stdin r
      end
  end.
