(* write / read / exists at the level of the emitted Bash lines, over files as byte strings:
     write        printf '%s\n' "s" >  "p"      (the content, one newline)
     append       printf '%s\n' "s" >> "p"
     read         $(cat -- "p")                 (command substitution drops ALL trailing newlines)
     exists       [ -e "p" ]
   and the proof that this implements the line store of the reference semantics (Sem/Src.v: a file is a
   list of lines, read returns them joined by newlines) on every history of operations -- provided no
   written string is empty or ends in a newline (the refuted corner is stated below). *)
From Verif Require Import Base.Bytestr Sem.Src.
Open Scope N_scope.

Definition fsys := list (bytes * bytes).

Fixpoint fget (k : bytes) (f : fsys) : option bytes :=
  match f with [] => None | (k', v) :: r => if beq k k' then Some v else fget k r end.
Fixpoint fset (k v : bytes) (f : fsys) : fsys :=
  match f with [] => [(k, v)] | (k', v') :: r => if beq k k' then (k, v) :: r else (k', v') :: fset k v r end.

Fixpoint drop_nl (b : bytes) : bytes := match b with 10 :: r => drop_nl r | _ => b end.
Definition strip_nl (b : bytes) : bytes := rev (drop_nl (rev b)).

Inductive fsop := OWrite (p s : bytes) (app : bool) | ORead (p : bytes) | OExists (p : bytes).

Definition bool_line (b : bool) : bytes := if b then [49] else [48].

(* the emitted lines under Bash; the second component is the value handed back to the program *)
Definition sh_step (f : fsys) (o : fsop) : fsys * option bytes :=
  match o with
  | OWrite p s app =>
      let old := if app then match fget p f with Some c => c | None => [] end else [] in
      (fset p (old ++ s ++ [10]) f, None)
  | ORead p => (f, Some (match fget p f with Some c => strip_nl c | None => [] end))
  | OExists p => (f, Some (bool_line (match fget p f with Some _ => true | None => false end)))
  end.

(* the reference semantics (the same functions Sem/Src.v uses for SWrite / ERead / EExists) *)
Definition store := list (bytes * list bytes).
Definition spec_step (st : store) (o : fsop) : store * option bytes :=
  match o with
  | OWrite p s app =>
      let old := match eget_file p st with Some l => l | None => [] end in
      (eset_file p (if app then old ++ [s] else [s]) st, None)
  | ORead p => (st, Some (match eget_file p st with Some ls => lines_text ls | None => [] end))
  | OExists p => (st, Some (bool_line (match eget_file p st with Some _ => true | None => false end)))
  end.

Fixpoint run_sh (f : fsys) (ops : list fsop) : fsys * list (option bytes) :=
  match ops with
  | [] => (f, [])
  | o :: r => let '(f1, out) := sh_step f o in let '(f2, outs) := run_sh f1 r in (f2, out :: outs)
  end.
Fixpoint run_spec (st : store) (ops : list fsop) : store * list (option bytes) :=
  match ops with
  | [] => (st, [])
  | o :: r => let '(s1, out) := spec_step st o in let '(s2, outs) := run_spec s1 r in (s2, out :: outs)
  end.

(* the bytes of a file holding these lines *)
Definition content (ls : list bytes) : bytes := concat (map (fun l => l ++ [10]) ls).

(* a line that read can give back: not empty, no newline at its end *)
Definition good (s : bytes) : bool := match rev s with [] => false | c :: _ => negb (c =? 10) end.
Definition op_good (o : fsop) : bool := match o with OWrite _ s _ => good s | _ => true end.

Definition R (st : store) (f : fsys) : Prop := forall p, fget p f = option_map content (eget_file p st).
Definition Inv (st : store) : Prop := forall p ls, eget_file p st = Some ls -> ls <> [] /\ forallb good ls = true.

(* ---- association lists ---- *)
Lemma fget_fset_same k v f : fget k (fset k v f) = Some v.
Proof. induction f as [|[k' v'] r IH]; simpl; [rewrite beq_refl; reflexivity|]. destruct (beq k k') eqn:E; simpl; rewrite ?beq_refl, ?E; [reflexivity|exact IH]. Qed.
Lemma fget_fset_other k k2 v f : beq k2 k = false -> fget k2 (fset k v f) = fget k2 f.
Proof.
  intro H. induction f as [|[k' v'] r IH]; simpl; [rewrite H; reflexivity|].
  destruct (beq k k') eqn:E; simpl.
  - apply beq_eq in E. subst k'. rewrite H. reflexivity.
  - destruct (beq k2 k'); [reflexivity|exact IH].
Qed.
Lemma eget_eset_same k v e : eget_file k (eset_file k v e) = Some v.
Proof. induction e as [|[k' v'] r IH]; simpl; [rewrite beq_refl; reflexivity|]. destruct (beq k k') eqn:E; simpl; rewrite ?beq_refl, ?E; [reflexivity|exact IH]. Qed.
Lemma eget_eset_other k k2 v e : beq k2 k = false -> eget_file k2 (eset_file k v e) = eget_file k2 e.
Proof.
  intro H. induction e as [|[k' v'] r IH]; simpl; [rewrite H; reflexivity|].
  destruct (beq k k') eqn:E; simpl.
  - apply beq_eq in E. subst k'. rewrite H. reflexivity.
  - destruct (beq k2 k'); [reflexivity|exact IH].
Qed.

(* ---- newlines ---- *)
Lemma content_app a b : content (a ++ b) = content a ++ content b.
Proof. unfold content. rewrite map_app, concat_app. reflexivity. Qed.

Lemma content_join ls : ls <> [] -> content ls = lines_text ls ++ [10].
Proof.
  unfold content, lines_text. induction ls as [|l ls IH]; intro H; [congruence|].
  destruct ls as [|l2 ls]; [simpl; rewrite app_nil_r; reflexivity|].
  change (join [10] (l :: l2 :: ls)) with (l ++ [10] ++ join [10] (l2 :: ls)).
  change (concat (map (fun l0 : list N => l0 ++ [10]) (l :: l2 :: ls))) with ((l ++ [10]) ++ concat (map (fun l0 : list N => l0 ++ [10]) (l2 :: ls))).
  rewrite IH by discriminate. rewrite <- !app_assoc. reflexivity.
Qed.

Lemma last_join_good ls : ls <> [] -> forallb good ls = true -> good (lines_text ls) = true.
Proof.
  unfold lines_text. induction ls as [|l ls IH]; intros H G; [congruence|].
  simpl in G. apply andb_true_iff in G as [Gl Gls]. destruct ls as [|l2 ls]; [exact Gl|].
  specialize (IH ltac:(discriminate) Gls).
  change (join [10] (l :: l2 :: ls)) with (l ++ [10] ++ join [10] (l2 :: ls)).
  remember (join [10] (l2 :: ls)) as J eqn:EJ. clear EJ. unfold good in *. rewrite !rev_app_distr.
  destruct (rev J) as [|c r]; [discriminate|]. exact IH.
Qed.

Lemma strip_good t : good t = true -> strip_nl (t ++ [10]) = t.
Proof.
  unfold good, strip_nl. intro H. rewrite rev_app_distr. cbn [rev app drop_nl].
  destruct (rev t) as [|c r] eqn:E; [discriminate|].
  apply negb_true_iff in H. assert (drop_nl (c :: r) = c :: r) as D.
  { destruct c as [|p]; [reflexivity|]. destruct p as [p|p|]; try reflexivity; destruct p as [p|p|]; try reflexivity;
    destruct p as [p|p|]; try reflexivity; destruct p as [p|p|]; try reflexivity. discriminate. }
  rewrite D, <- E. apply rev_involutive.
Qed.

Lemma read_agrees ls : ls <> [] -> forallb good ls = true -> strip_nl (content ls) = lines_text ls.
Proof. intros H G. rewrite content_join by assumption. apply strip_good. apply last_join_good; assumption. Qed.

(* ---- one operation ---- *)
Theorem step_refines st f o :
  R st f -> Inv st -> op_good o = true ->
  R (fst (spec_step st o)) (fst (sh_step f o)) /\ Inv (fst (spec_step st o)) /\ snd (spec_step st o) = snd (sh_step f o).
Proof.
  intros HR HI Hg. destruct o as [p s app|p|p]; cbn [spec_step sh_step fst snd].
  - split; [|split; [|reflexivity]].
    + intro p2. destruct (beq p2 p) eqn:E.
      * apply beq_eq in E. subst p2. rewrite fget_fset_same, eget_eset_same. cbn [option_map]. f_equal.
        destruct app.
        -- rewrite (HR p). destruct (eget_file p st) as [ls|]; cbn [option_map].
           ++ rewrite content_app. f_equal. unfold content. cbn [map concat]. rewrite app_nil_r. reflexivity.
           ++ unfold content. cbn [app map concat]. rewrite app_nil_r. reflexivity.
        -- unfold content. cbn [app map concat]. rewrite app_nil_r. reflexivity.
      * rewrite (fget_fset_other _ _ _ _ E), (eget_eset_other _ _ _ _ E). apply HR.
    + intros p2 ls H. destruct (beq p2 p) eqn:E.
      * apply beq_eq in E. subst p2. rewrite eget_eset_same in H. inversion H; subst ls; clear H.
        cbn [op_good] in Hg. destruct app.
        -- destruct (eget_file p st) as [old|] eqn:G.
           ++ destruct (HI p old G) as [_ Go]. split; [destruct old; discriminate|]. rewrite forallb_app, Go. simpl. rewrite Hg. reflexivity.
           ++ split; [discriminate|]. simpl. rewrite Hg. reflexivity.
        -- split; [discriminate|]. simpl. rewrite Hg. reflexivity.
      * rewrite (eget_eset_other _ _ _ _ E) in H. exact (HI p2 ls H).
  - split; [exact HR|split; [exact HI|]]. f_equal. rewrite (HR p). destruct (eget_file p st) as [ls|] eqn:G; cbn [option_map]; [|reflexivity].
    destruct (HI p ls G) as [Hn Hgood]. symmetry. apply read_agrees; assumption.
  - split; [exact HR|split; [exact HI|]]. f_equal. rewrite (HR p). destruct (eget_file p st); reflexivity.
Qed.

(* ---- every history ---- *)
Theorem history_refines ops : forall st f,
  R st f -> Inv st -> forallb op_good ops = true ->
  snd (run_spec st ops) = snd (run_sh f ops) /\ R (fst (run_spec st ops)) (fst (run_sh f ops)).
Proof.
  induction ops as [|o ops IH]; intros st f HR HI Hg; [split; [reflexivity|exact HR]|].
  simpl in Hg. apply andb_true_iff in Hg as [Ho Hops].
  destruct (step_refines st f o HR HI Ho) as [HR' [HI' Hout]].
  cbn [run_spec run_sh]. destruct (spec_step st o) as [s1 out1]. destruct (sh_step f o) as [f1 out1'].
  cbn [fst snd] in *. specialize (IH s1 f1 HR' HI' Hops).
  destruct (run_spec s1 ops) as [s2 outs]. destruct (run_sh f1 ops) as [f2 outs']. cbn [fst snd] in *.
  destruct IH as [E1 E2]. split; [congruence|exact E2].
Qed.

(* ---- the individual clauses of the property, on the Bash level ---- *)
Theorem write_then_read f p s : good s = true ->
  snd (sh_step (fst (sh_step f (OWrite p s false))) (ORead p)) = Some s
  /\ fget p (fst (sh_step f (OWrite p s false))) = Some (s ++ [10]).
Proof.
  intro G. cbn [sh_step fst snd]. rewrite fget_fset_same. split; [|reflexivity]. f_equal. apply strip_good. exact G.
Qed.

Theorem append_then_read f p old s : good s = true -> good old = true -> fget p f = Some (old ++ [10]) ->
  snd (sh_step (fst (sh_step f (OWrite p s true))) (ORead p)) = Some (old ++ [10] ++ s).
Proof.
  intros G Go H. cbn [sh_step fst snd]. rewrite H, fget_fset_same. f_equal.
  replace ((old ++ [10]) ++ s ++ [10]) with ((old ++ [10] ++ s) ++ [10]) by (rewrite <- !app_assoc; reflexivity).
  apply strip_good. unfold good in *. rewrite !rev_app_distr. destruct (rev s); [discriminate|exact G].
Qed.

Theorem write_touches_one_path f p s app p2 : beq p2 p = false -> fget p2 (fst (sh_step f (OWrite p s app))) = fget p2 f.
Proof. intro H. cbn [sh_step fst]. apply fget_fset_other. exact H. Qed.

Theorem read_exists_touch_nothing f o : (match o with OWrite _ _ _ => False | _ => True end) -> fst (sh_step f o) = f.
Proof. destruct o; intro H; [contradiction|reflexivity|reflexivity]. Qed.

Theorem exists_iff f p : snd (sh_step f (OExists p)) = Some (bool_line (match fget p f with Some _ => true | None => false end)).
Proof. reflexivity. Qed.

(* The excluded corner is real: a string that ends in a newline does not come back. *)
Theorem trailing_newline_lost :
  exists s, snd (sh_step (fst (sh_step [] (OWrite (bs "p") s false))) (ORead (bs "p"))) <> Some s.
Proof. exists [97; 10]. vm_compute. discriminate. Qed.

Example history_sample :
  let ops := [OWrite (bs "a b") (bs "x") false; OWrite (bs "a b") (bs "y $z") true; ORead (bs "a b"); OExists (bs "q"); OWrite (bs "q") (bs "-n") false; ORead (bs "q")] in
  forallb op_good ops = true /\ snd (run_sh [] ops) = snd (run_spec [] ops)
  /\ snd (run_sh [] ops) = [None; None; Some (bs "x" ++ [10] ++ bs "y $z"); Some (bs "0"); None; Some (bs "-n")].
Proof. vm_compute. repeat split; reflexivity. Qed.
