(* Loops of the Bash target.  For programs built from assignments, prints, if / else-if / else, three-clause and
   condition-only for loops, break and continue (at any nesting depth, no functions): whenever the source program
   terminates, the emitted lines, run by the flat shell model with loops (Sem/FlatLoop.v), print what the source
   prints and leave the shell environment representing the final source environment. *)
From Verif Require Import Base.Bytestr Base.DecFacts Front.Ast Front.FrontModel Back.BashLines Back.Transpile Back.BashConv
  Back.BashSyntax Back.BashFacts Sem.Src Sem.SrcFacts Sem.BashSem Sem.ExprPreserve Sem.Words Sem.StmtPreserve Sem.FlatSem
  Sem.IfPreserve Sem.FlatLoop.
From Coq Require Import ZArith Lia.
Open Scope N_scope.

(* ---- translation states: what stays fixed while lines are appended ---- *)
Record cext (s s' : bstate) (ls : list line) : Prop := mkCext {
  cx_code : b_code s' = b_code s ++ ls;
  cx_funcs : b_funcs s' = b_funcs s;
  cx_fcnt : b_func_counter s' = b_func_counter s;
  cx_mono : (b_for_counter s <= b_for_counter s')%nat
}.

Lemma cext_refl s : cext s s [].
Proof. constructor; [rewrite app_nil_r; reflexivity|reflexivity|reflexivity|apply le_n]. Qed.
Lemma cext_trans a b c x y : cext a b x -> cext b c y -> cext a c (x ++ y).
Proof. intros [A1 A2 A3 A4] [B1 B2 B3 B4]. constructor; [rewrite B1, A1, app_assoc; reflexivity|congruence|congruence|lia]. Qed.
Lemma cext_of_ext s s' ls : ext s s' ls -> (b_for_counter s <= b_for_counter s')%nat -> cext s s' ls.
Proof. intros [A B C D E] M. constructor; assumption. Qed.
Lemma cext_line l s : cext s (add_line l s) [l].
Proof. apply cext_of_ext; [apply ext_add_line|apply le_n]. Qed.
Lemma cext_lines2 a b s : cext s (add_line b (add_line a s)) [a; b].
Proof. exact (cext_trans _ _ _ [a] [b] (cext_line a s) (cext_line b (add_line a s))). Qed.
Lemma cext_same s s' : b_code s' = b_code s -> b_funcs s' = b_funcs s -> b_func_counter s' = b_func_counter s ->
  (b_for_counter s <= b_for_counter s')%nat -> cext s s' [].
Proof. intros A B C D. constructor; [rewrite app_nil_r; exact A|exact B|exact C|exact D]. Qed.

Lemma user_name_cext s s' ls x : cext s s' ls -> user_name s' x = user_name s x.
Proof. intros E. unfold user_name, var_name. rewrite (cx_funcs _ _ _ E), (cx_fcnt _ _ _ E). reflexivity. Qed.
Lemma helper_name_cext s s' ls k : cext s s' ls -> helper_name s' k = helper_name s k.
Proof. intros E. unfold helper_name, var_name. rewrite (cx_funcs _ _ _ E), (cx_fcnt _ _ _ E). reflexivity. Qed.

Lemma ctx_cext XS sg b s s' ls : cext s s' ls -> ctx_ok XS sg b s -> ctx_ok XS sg b s'.
Proof.
  intros E [A B C D]. constructor.
  - intros x Hx. unfold var_fine. rewrite (user_name_cext _ _ _ x E). exact (A x Hx).
  - intros x v Hx Hv. rewrite (user_name_cext _ _ _ x E). exact (B x v Hx Hv).
  - intros x k Hx. rewrite (user_name_cext _ _ _ x E), (helper_name_cext _ _ _ k E). exact (C x k Hx).
  - intros y z Hy Hz. rewrite (user_name_cext _ _ _ y E), (user_name_cext _ _ _ z E). exact (D y z Hy Hz).
Qed.

Lemma code_same_cext s s' X Y : b_code s' = b_code s ++ X -> cext s s' Y -> X = Y.
Proof. intros H E. rewrite (cx_code _ _ _ E) in H. apply app_inv_head in H. symmetry. exact H. Qed.

(* ---- the loop counter never runs backwards (all statements, by the generic traversal theorem) ---- *)
From Verif Require Import Back.TraverseInv Back.BatchLabels Back.NameFacts.

Definition fc_ge (k : nat) (s : bstate) : Prop := (k <= b_for_counter s)%nat.

Lemma fc_helper k mk s : fc_ge k s -> fc_ge k (snd (helper_assign mk s)).
Proof. intro H. unfold helper_assign, next_helper. cbn [snd add_line b_for_counter]. exact H. Qed.

Lemma fc_fold_params k (ps : list bytes) : forall (acc : bstate * nat), fc_ge k (fst acc) ->
  fc_ge k (fst (fold_left (fun (acc : bstate * nat) p => let '(st, i) := acc in (add_line (LLocalParam (var_name st p false) i) st, S i)) ps acc)).
Proof. induction ps as [|p r IH]; intros [st i] H; [exact H|]. cbn [fold_left]. apply IH. exact H. Qed.

Lemma fc_fold_return k (vs : list atom) : forall (acc : bstate * nat), fc_ge k (fst acc) ->
  fc_ge k (fst (fold_left (fun (acc : bstate * nat) v => let '(st, i) := acc in (add_line (LAssign (var_name st (rv_name i) true) (RAtom v)) st, S i)) vs acc)).
Proof. induction vs as [|p r IH]; intros [st i] H; [exact H|]. cbn [fold_left]. apply IH. exact H. Qed.

Lemma fc_fold_rets k (rets : list vtype) : forall (acc : list atom * bstate * nat), fc_ge k (snd (fst acc)) ->
  fc_ge k (snd (fst (fold_left (fun (acc : list atom * bstate * nat) (_ : vtype) =>
                                  let '(vs, st, i) := acc in
                                  let '(h, st') := helper_assign (RAtom (ARef (rv_name i))) st in
                                  (vs ++ [h], st', S i)) rets acc))).
Proof.
  induction rets as [|t r IH]; intros [[vs st] i] H; [exact H|]. cbn [fold_left].
  destruct (helper_assign (RAtom (ARef (rv_name i))) st) as [h st'] eqn:E. apply IH. cbn [fst snd] in *.
  pose proof (fc_helper k (RAtom (ARef (rv_name i))) st H) as Hh. rewrite E in Hh. exact Hh.
Qed.

Lemma fc_stmt k st : forall s u s', fc_ge k s -> t_stmt bash_conv st s = TOk u s' -> fc_ge k s'.
Proof.
  intros s u s' I0 H.
  refine (t_stmt_preserves bash_conv (fc_ge k) (fun _ => true) _ _ _ _ _ _ _ _ _ _ _ _ _ _ _ _ _ _ _ _ _ _ _ _ _ _ _ _ _ _ _ _ _ _ _ _ st (names_ok_true st) s u s' I0 H);
    clear; unfold fc_ge; cbn [bash_conv cv_string cv_var_definition cv_slice_assignment cv_func_start cv_func_end cv_return cv_if_start cv_if_end
                cv_elseif_start cv_else_start cv_for_start cv_for_incr_start cv_for_incr_end cv_for_condition cv_for_end cv_break cv_continue
                cv_print cv_panic cv_write_file cv_nop cv_unary cv_binary cv_comparison cv_logical cv_slice_instantiation cv_slice_evaluation
                cv_slice_len cv_string_subscript cv_string_len cv_func_call cv_app_call cv_input cv_copy cv_exists cv_read_file].
  all: try (intros; cbn [snd add_line set_flags b_for_counter]; assumption).
  all: try (intros; match goal with H : _ = TOk _ _ |- _ => inversion H; subst; cbn [add_line b_for_counter]; assumption end).
  - (* func_start *) intros n ps rs s _ I. apply (fc_fold_params _ ps (_, 1%nat)). exact I.
  - (* func_end *) intros s u s' I H. destruct (b_funcs s); [discriminate|]. inversion H; subst. exact I.
  - (* return *) intros vs s u s' I H. inversion H; subst. cbn [add_line b_for_counter]. apply (fc_fold_return _ vs (s, 0%nat)). exact I.
  - (* for_start *) intros s I. cbn [add_line b_for_counter]. lia.
  - (* for_incr_start *) intros s u s' I H. destruct (current_flag s); [|discriminate]. inversion H; subst. exact I.
  - (* for_incr_end *) intros s u s' I H. destruct (current_flag s); [|discriminate]. inversion H; subst. exact I.
  - (* for_end *) intros s u s' I H. destruct (b_fors s); [discriminate|]. inversion H; subst. exact I.
  - (* binary *) intros l op r t s v s' I H. destruct (is_slice t); [discriminate|]. destruct (dt t); try discriminate.
    + destruct (helper_assign _ s) as [h s1] eqn:E. inversion H; subst. pose proof (fc_helper _ (RArith l op r) s I) as Hh. rewrite E in Hh. exact Hh.
    + destruct op; try discriminate. destruct (helper_assign _ s) as [h s1] eqn:E. inversion H; subst. pose proof (fc_helper _ (RConcat l r) s I) as Hh. rewrite E in Hh. exact Hh.
  - (* comparison *) intros l op r t s v s' I H. destruct (cmp_text t op) as [o|]; [|discriminate].
    destruct (helper_assign _ s) as [h s1] eqn:E. inversion H; subst. pose proof (fc_helper _ (RCompare l o r) s I) as Hh. rewrite E in Hh. exact Hh.
  - (* slice_instantiation *) intros vs s I. destruct (helper_assign RNewSlice (add_line LDvcIncr s)) as [h s1] eqn:E. cbn [snd].
    pose proof (fc_helper _ RNewSlice (add_line LDvcIncr s) I) as Hh. rewrite E in Hh. destruct vs; exact Hh.
  - (* func_call *) intros n vs rs u s I. destruct u; [|exact I].
    pose proof (fc_fold_rets _ rs ([], add_line (LCall n vs) s, 0%nat) I) as Hh.
    destruct (fold_left _ rs ([], add_line (LCall n vs) s, 0%nat)) as [[vals s2] k0]. exact Hh.
  - (* app_call *) intros cs u s I. destruct u; exact I.
Qed.

Theorem for_counter_mono st s u s' : t_stmt bash_conv st s = TOk u s' -> (b_for_counter s <= b_for_counter s')%nat.
Proof. intro H. exact (fc_stmt (b_for_counter s) st s u s' (le_n _) H). Qed.

Lemma expr_mono_any e used s vs s' : t_expr bash_conv e used s = TOk vs s' -> (b_for_counter s <= b_for_counter s')%nat.
Proof.
  intro H. destruct used.
  - assert (t_stmt bash_conv (SPanic e) s = TOk tt (cv_panic bstate atom bash_conv (first_value bash_conv vs) s')) as Hp
      by (cbn [t_stmt]; unfold mbind; rewrite H; reflexivity).
    pose proof (for_counter_mono _ _ _ _ Hp) as M. rewrite bash_panic in M. exact M.
  - assert (t_stmt bash_conv (SExpr e) s = TOk tt s') as Hp by (cbn [t_stmt]; unfold mbind; rewrite H; reflexivity).
    exact (for_counter_mono _ _ _ _ Hp).
Qed.

(* ---- blocks all three skipping functions jump over as a whole ---- *)
Definition dclosed (X : list line) : Prop := forall rest d, skip_done (X ++ rest) d = skip_done rest d.
Definition cl3 (X : list line) : Prop := closed X /\ dclosed X.

Lemma dclosed_nil : dclosed []. Proof. intros rest d. reflexivity. Qed.
Lemma dclosed_app X Y : dclosed X -> dclosed Y -> dclosed (X ++ Y).
Proof. intros A B rest d. rewrite <- app_assoc, A. apply B. Qed.
Lemma cl3_nil : cl3 []. Proof. split; [apply closed_nil|apply dclosed_nil]. Qed.
Lemma cl3_app X Y : cl3 X -> cl3 Y -> cl3 (X ++ Y).
Proof. intros [A1 A2] [B1 B2]. split; [apply closed_app|apply dclosed_app]; assumption. Qed.

Definition plain3 (l : line) : bool := plain_line l && match l with LWhile | LDone => false | _ => true end.

Lemma cl3_plain P : forallb plain3 P = true -> cl3 P.
Proof.
  intro H. split.
  - apply closed_plain. apply forallb_forall. intros l Hl. rewrite forallb_forall in H. specialize (H l Hl). unfold plain3 in H. apply andb_true_iff in H as [H _]. exact H.
  - induction P as [|l r IH]; [apply dclosed_nil|]. simpl in H. apply andb_true_iff in H as [Hl Hr]. intros rest d. cbn [app].
    unfold plain3 in Hl. apply andb_true_iff in Hl as [_ Hl]. destruct l; try discriminate; cbn [skip_done]; apply (IH Hr).
Qed.

Lemma simple_plain3 ls : forallb is_simple ls = true -> forallb plain3 ls = true.
Proof.
  induction ls as [|l r IH]; intro H; [reflexivity|]. simpl in H. apply andb_true_iff in H as [Hl Hr]. cbn [forallb]. rewrite (IH Hr).
  destruct l; try discriminate; reflexivity.
Qed.

Definition emits3 (s s' : bstate) : Prop := exists X, cext s s' X /\ cl3 X /\ b_fors s' = b_fors s.

Lemma e3_refl s : emits3 s s. Proof. exists []. split; [apply cext_refl|]. split; [apply cl3_nil|reflexivity]. Qed.
Lemma e3_trans a b c : emits3 a b -> emits3 b c -> emits3 a c.
Proof. intros (X & E1 & C1 & F1) (Y & E2 & C2 & F2). exists (X ++ Y). split; [eapply cext_trans; eassumption|]. split; [apply cl3_app; assumption|congruence]. Qed.
Lemma e3_line l s : plain3 l = true -> emits3 s (add_line l s).
Proof. intro H. exists [l]. split; [apply cext_line|]. split; [apply cl3_plain; cbn [forallb]; rewrite H; reflexivity|reflexivity]. Qed.
Lemma e3_expr e used s vs s' : t_expr bash_conv e used s = TOk vs s' -> emits3 s s'.
Proof.
  intro H. destruct (t_expr_ok e used s vs s' H) as (ls & E & Hs & _). exists ls. split; [apply cext_of_ext; [exact E|exact (expr_mono_any _ _ _ _ _ H)]|].
  split; [apply cl3_plain, simple_plain3, Hs|exact (x_fors _ _ _ E)].
Qed.

Lemma assign_e3 x e s u s' : t_stmt bash_conv (SAssign [x] [e]) s = TOk u s' -> emits3 s s'.
Proof.
  intro Ht. cbn [t_stmt] in Ht. unfold assign_values in Ht. cbn [length Nat.ltb Nat.leb firstn eval_values] in Ht.
  mb Ht as vs s1 H1 H2. mb H1 as ve s2 H1 H3. mb H3 as v0 s3 H3 H4. mr H3. mb H4 as vr s4 H4 H5. mr H4. mr H5.
  cbn [store_values] in H2. mb H2 as u1 s5 H2 H6. mu H2. mr H6. rewrite bash_var_definition.
  eapply e3_trans; [exact (e3_expr _ _ _ _ _ H1)|apply e3_line; reflexivity].
Qed.

Lemma print_e3 es s u s' : t_stmt bash_conv (SPrint es) s = TOk u s' -> emits3 s s'.
Proof.
  intro Ht. cbn [t_stmt] in Ht. mb Ht as vs s1 H1 H2. mu H2. subst s'. rewrite bash_print.
  eapply e3_trans; [|apply e3_line; reflexivity].
  clear -H1. revert s vs s1 H1. induction es as [|e r IH]; intros s vs s1 H1.
  - mr H1. apply e3_refl.
  - mb H1 as ve s2 H1 H2. mb H2 as vr s3 H2 H3. mr H3. eapply e3_trans; [exact (e3_expr _ _ _ _ _ H1)|exact (IH _ _ _ H2)].
Qed.

Lemma conds_e3 elifs : forall s cs s', conds_fix elifs s = TOk cs s' -> emits3 s s' /\ length cs = length elifs.
Proof.
  induction elifs as [|[c b] r IH]; intros s cs s' H.
  - mr H. split; [apply e3_refl|reflexivity].
  - cbn [conds_fix] in H. mb H as vc s1 H1 H2. mb H2 as vr s2 H2 H3. mr H3. destruct (IH _ _ _ H2) as [E L].
    split; [eapply e3_trans; [exact (e3_expr _ _ _ _ _ H1)|exact E]|cbn [length]; rewrite L; reflexivity].
Qed.

(* the tail of a conditional: as in Sem/IfPreserve.v, and transparent for the loop skip *)
Definition tail3 (T : list line) : Prop := tail_ok T /\ dclosed T.

Lemma tail3_fi : tail3 [LFi].
Proof. split; [apply tail_fi|intros rest d; reflexivity]. Qed.
Lemma tail3_else B : cl3 B -> tail3 ([LElse] ++ B ++ [LFi]).
Proof.
  intros [C D]. split; [apply tail_else; exact C|]. intros rest d. cbn [app skip_done]. rewrite <- app_assoc, D. reflexivity.
Qed.
Lemma tail3_elif c B T : cl3 B -> tail3 T -> tail3 ([LIf (bs "elif") c] ++ B ++ T).
Proof.
  intros [C D] [TO TD]. split; [apply tail_elif; assumption|]. intros rest d. cbn [app skip_done]. rewrite <- app_assoc, D. apply TD.
Qed.
Lemma cl3_if c B T : cl3 B -> tail3 T -> cl3 ([LIf (bs "if") c] ++ B ++ T).
Proof.
  intros [C D] [[T1 T2 _ _ _] TD]. split; [apply closed_if; assumption|]. intros rest d. cbn [app skip_done]. rewrite <- app_assoc, D. apply TD.
Qed.

(* a whole loop: flag=, while true; do, the body, done *)
Lemma cl3_loop f B : cl3 B -> cl3 ([LForInit f; LWhile] ++ B ++ [LDone]).
Proof.
  intros [[C1 C2] D]. split; [split|]; intros rest d; cbn [app skip_branch skip_fi skip_done]; rewrite <- app_assoc;
    rewrite ?C1, ?C2, ?D; reflexivity.
Qed.

(* the increment part of a three-clause loop *)
Lemma cl3_incr f f2 B : cl3 B -> cl3 ([LIncrGuard f] ++ B ++ [LFi; LFlagSet f2]).
Proof.
  intros [[C1 C2] D]. split; [split|]; intros rest d; cbn [app skip_branch skip_fi skip_done]; rewrite <- app_assoc;
    rewrite ?C1, ?C2, ?D; reflexivity.
Qed.

(* ---- the fragment with loops ---- *)
Definition simple_stmt (st : stmt) : bool :=
  match st with
  | SAssign [_] [e] => pure e
  | SVarDef [_] [e] => pure e
  | _ => false
  end.
Definition simple_opt (o : option stmt) : bool := match o with None => true | Some st => simple_stmt st end.

Fixpoint frag2 (st : stmt) : bool :=
  let all := fix all (l : list stmt) : bool := match l with [] => true | x :: r => frag2 x && all r end in
  match st with
  | SAssign [_] [e] => pure e
  | SVarDef [_] [e] => pure e
  | SPrint es => forallb pure es
  | SBreak => true
  | SContinue => true
  | SIf ((c0, b0) :: elifs) els =>
      pure c0 && all b0
      && (fix ab (l : list (expr * list stmt)) : bool := match l with [] => true | cb :: r => pure (fst cb) && all (snd cb) && ab r end) elifs
      && all els
  | SFor init cond incr body => simple_opt init && pure cond && simple_opt incr && all body
  | SAssign (_ :: _ :: xr) es => forallb pure es && Nat.eqb (length es) (S (S (length xr)))     (* x, y = e1, e2 *)
  | SVarDef (_ :: _ :: xr) es => forallb pure es && Nat.eqb (length es) (S (S (length xr)))    (* x, y := e1, e2 *)
  | SAssignCall _ (ECall _ _ args) => forallb pure args          (* x, y = f(args) *)
  | SVarDefCall _ (ECall _ _ args) => forallb pure args          (* x, y := f(args) *)
  | SExpr (ECall _ _ args) => forallb pure args                  (* f(args) *)
  | SReturn es => forallb pure es                                (* return e1, e2 *)
  | _ => false
  end.
Fixpoint frag2_all (l : list stmt) : bool := match l with [] => true | x :: r => frag2 x && frag2_all r end.
Fixpoint frag2_branches (l : list (expr * list stmt)) : bool :=
  match l with [] => true | cb :: r => pure (fst cb) && frag2_all (snd cb) && frag2_branches r end.

Lemma frag2_all_eq l : (fix all (l : list stmt) : bool := match l with [] => true | x :: r => frag2 x && all r end) l = frag2_all l.
Proof. induction l as [|x r IH]; [reflexivity|]. cbn [frag2_all]. rewrite <- IH. reflexivity. Qed.
Lemma frag2_branches_eq l :
  (fix ab (l : list (expr * list stmt)) : bool :=
     match l with [] => true | cb :: r => pure (fst cb) && (fix all (l : list stmt) : bool := match l with [] => true | x :: r => frag2 x && all r end) (snd cb) && ab r end) l
  = frag2_branches l.
Proof. induction l as [|cb r IH]; [reflexivity|]. cbn [frag2_branches]. rewrite <- IH, frag2_all_eq. reflexivity. Qed.
Lemma frag2_if c0 b0 elifs els :
  frag2 (SIf ((c0, b0) :: elifs) els) = pure c0 && frag2_all b0 && frag2_branches elifs && frag2_all els.
Proof. cbn [frag2]. rewrite !frag2_all_eq, frag2_branches_eq. reflexivity. Qed.
Lemma frag2_for init cond incr body :
  frag2 (SFor init cond incr body) = simple_opt init && pure cond && simple_opt incr && frag2_all body.
Proof. cbn [frag2]. rewrite frag2_all_eq. reflexivity. Qed.

(* ---- the shape of the translation of a loop ---- *)
Definition flag_of (s : bstate) : bytes := bs "_fv" ++ dec_nat (b_for_counter s).

Definition incr_part (incr : option stmt) : M (St:=bstate) unit :=
  match incr with
  | Some i => mbind (cv_for_incr_start bstate atom bash_conv) (fun _ => mbind (t_stmt bash_conv i) (fun _ => cv_for_incr_end bstate atom bash_conv))
  | None => mret tt
  end.

Lemma for_decompose init cond incr body s u s' :
  t_stmt bash_conv (SFor init cond incr body) s = TOk u s' ->
  exists si sn vc sc sd,
    (match init with Some i => t_stmt bash_conv i s | None => TOk tt s end) = TOk tt si /\
    incr_part incr (cv_for_start bstate atom bash_conv si) = TOk tt sn /\
    t_expr bash_conv cond true sn = TOk vc sc /\
    tb body (add_line (LBreakUnless (first_value bash_conv vc)) sc) = TOk tt sd /\
    cv_for_end bstate atom bash_conv sd = TOk tt s'.
Proof.
  intro H. cbn [t_stmt] in H.
  mb H as u0 si H0 H. mb H as u1 sf H1 H. mu H1. subst sf. mb H as u2 sn H2 H. mb H as vc sc H3 H. mb H as u4 sb H4 H. mu H4. subst sb.
  mb H as u5 sd H5 H. destruct u0, u2, u5, u. rewrite bash_for_condition in H5.
  exists si, sn, vc, sc, sd. split; [destruct init; exact H0|]. split; [destruct incr; exact H2|]. repeat split; assumption.
Qed.

Lemma simple_stmt_e3 st s u s' : simple_stmt st = true -> t_stmt bash_conv st s = TOk u s' -> emits3 s s'.
Proof.
  intros Hs Ht. destruct st; try discriminate; cbn [simple_stmt] in Hs.
  - destruct vars as [|x [|? ?]]; try discriminate. destruct vals as [|e [|? ?]]; try discriminate.
    change (t_stmt bash_conv (SVarDef [x] [e]) s) with (t_stmt bash_conv (SAssign [x] [e]) s) in Ht. exact (assign_e3 x e s u s' Ht).
  - destruct vars as [|x [|? ?]]; try discriminate. destruct vals as [|e [|? ?]]; try discriminate. exact (assign_e3 x e s u s' Ht).
Qed.

Definition stmt_e3 (st : stmt) : Prop := frag2 st = true -> forall s u s', t_stmt bash_conv st s = TOk u s' -> emits3 s s'.

Lemma go_e3 b : Forall stmt_e3 b -> frag2_all b = true -> forall s u s', go_fix b s = TOk u s' -> emits3 s s'.
Proof.
  induction b as [|x r IH]; intros HF Hf s u s' H.
  - mr H. apply e3_refl.
  - inversion HF as [|y l Hx Hr]; subst. cbn [frag2_all] in Hf. apply andb_true_iff in Hf as [Fx Fr].
    cbn [go_fix] in H. mb H as u1 s1 H1 H2. eapply e3_trans; [exact (Hx Fx _ _ _ H1)|exact (IH Hr Fr _ _ _ H2)].
Qed.

Lemma tb_e3 b : Forall stmt_e3 b -> frag2_all b = true -> forall s u s', tb b s = TOk u s' -> emits3 s s'.
Proof.
  intros HF Hf s u s' H. destruct b as [|x r].
  - unfold tb in H. mu H. subst s'. apply e3_line. reflexivity.
  - exact (go_e3 (x :: r) HF Hf s u s' H).
Qed.

Definition emits_tail3 (s s' : bstate) : Prop := exists T, cext s s' T /\ tail3 T /\ b_fors s' = b_fors s.

Lemma else_tail3 els : Forall stmt_e3 els -> frag2_all els = true -> forall s s1,
  else_part els s = TOk tt s1 -> emits_tail3 s (add_line LFi s1).
Proof.
  intros HF Hf s s1 H. destruct els as [|x r].
  - mr H. exists [LFi]. split; [apply cext_line|]. split; [apply tail3_fi|reflexivity].
  - unfold else_part in H. mb H as u1 s2 H1 H2. rewrite bash_else_start in H1. inversion H1; subst; clear H1.
    destruct (tb_e3 (x :: r) HF Hf _ _ _ H2) as (B & EB & CB & FB).
    exists ([LElse] ++ B ++ [LFi]). split; [|split; [apply tail3_else; exact CB|exact FB]].
    eapply cext_trans; [apply cext_line|]. eapply cext_trans; [exact EB|apply cext_line].
Qed.

Lemma bodies_tail3 elifs : Forall (fun cb => Forall stmt_e3 (snd cb)) elifs -> frag2_branches elifs = true ->
  forall els, Forall stmt_e3 els -> frag2_all els = true ->
  forall cs s s1 s2, length cs = length elifs -> bodies_fix elifs cs s = TOk tt s1 -> else_part els s1 = TOk tt s2 ->
  emits_tail3 s (add_line LFi s2).
Proof.
  induction elifs as [|[c b] r IH]; intros HF Hf els HFe Hfe cs s s1 s2 Hlen Hb He.
  - mr Hb. exact (else_tail3 els HFe Hfe _ _ He).
  - destruct cs as [|v vr]; [discriminate|]. inversion HF as [|y l Hx Hr]; subst. cbn [snd] in Hx.
    cbn [frag2_branches fst snd] in Hf. apply andb_true_iff in Hf as [Hf1 Hfr]. apply andb_true_iff in Hf1 as [_ Hfb].
    destruct (bodies_step c b r v vr s tt s1 Hb) as (sm & Hm & Hrest).
    destruct (tb_e3 b Hx Hfb _ _ _ Hm) as (B & EB & CB & FB).
    cbn [length] in Hlen. injection Hlen as Hlen.
    destruct (IH Hr Hfr els HFe Hfe vr sm s1 s2 Hlen Hrest He) as (T & ET & CT & FT).
    exists ([LIf (bs "elif") v] ++ B ++ T). split; [|split; [apply tail3_elif; assumption|]].
    + eapply cext_trans; [apply cext_line|]. eapply cext_trans; [exact EB|exact ET].
    + rewrite FT, FB. reflexivity.
Qed.

Lemma current_flag_after_start si : current_flag (cv_for_start bstate atom bash_conv si) = Some (flag_of si).
Proof. rewrite bash_for_start. unfold current_flag, flag_of. cbn [add_line b_fors]. rewrite rev_app_distr. reflexivity. Qed.

Lemma store_e3 vars : forall vals s u s', store_values bash_conv vars vals s = TOk u s' -> emits3 s s'.
Proof.
  induction vars as [|v r IH]; intros vals s u s' H; cbn [store_values] in H; [mr H; apply e3_refl|].
  destruct vals as [|x xr]; [discriminate|]. mb H as u1 s1 H1 H2. mu H1. subst s1. rewrite bash_var_definition in H2.
  eapply e3_trans; [|exact (IH _ _ _ _ H2)]. apply e3_line. reflexivity.
Qed.

Lemma assign_call_e3 vars call s u s' : t_stmt bash_conv (SAssignCall vars call) s = TOk u s' -> emits3 s s'.
Proof.
  intro Ht. cbn [t_stmt] in Ht. unfold assign_call in Ht. mb Ht as vs s1 H1 H2.
  destruct (Nat.eqb (length vs) (length vars)); [|discriminate].
  eapply e3_trans; [exact (e3_expr _ _ _ _ _ H1)|exact (store_e3 _ _ _ _ _ H2)].
Qed.

(* ---- call statements: arguments, the call line, the copy of the return register ---- *)
Definition args_fix :=
  fix args_of (es : list expr) : M (St:=bstate) (list atom) :=
    match es with
    | [] => mret []
    | a :: r => mbind (t_expr bash_conv a true) (fun va => mbind (args_of r) (fun vr => mret (first_value bash_conv va :: vr)))
    end.

Lemma args_as_pv : forall l s vs s', forallb pure l = true -> args_fix l s = TOk vs s' -> pv_fix l s = TOk vs s'.
Proof.
  induction l as [|e r IH]; intros s vs s' Hp H; [exact H|].
  cbn [forallb] in Hp. apply andb_true_iff in Hp as [Hpe Hpr].
  cbn [args_fix] in H. mb H as va s1 H1 H2. mb H2 as vr s2 H2 H3. mr H3.
  destruct (pure_single e Hpe true s va s1 H1) as [a ->]. cbn [first_value].
  cbn [pv_fix]. unfold mbind. rewrite H1. rewrite (IH s1 vr s' Hpr H2). reflexivity.
Qed.


(* ---- the return statement ---- *)
Fixpoint rv_lines (vs : list atom) (i : nat) : list line :=
  match vs with [] => [] | v :: r => LAssign (rv_name i) (RAtom v) :: rv_lines r (S i) end.

Lemma rv_name_inj i j : rv_name i = rv_name j -> i = j.
Proof. unfold rv_name. intro H. apply app_inv_head in H. unfold dec_nat in H. apply dec_N_inj in H. apply Nat2N.inj in H. exact H. Qed.

Lemma rv_fold_cext : forall vs s i,
  cext s (fst (fold_left (fun (acc : bstate * nat) v => let '(st, i) := acc in (add_line (LAssign (var_name st (rv_name i) true) (RAtom v)) st, S i)) vs (s, i)))
       (rv_lines vs i).
Proof.
  induction vs as [|v r IH]; intros s i; cbn [fold_left rv_lines fst]; [apply cext_refl|].
  rewrite var_name_global. change (LAssign (rv_name i) (RAtom v) :: rv_lines r (S i)) with ([LAssign (rv_name i) (RAtom v)] ++ rv_lines r (S i)).
  eapply cext_trans; [apply cext_line|apply IH].
Qed.

Lemma rv_exec : forall vs i b, (forall a j, In a vs -> a <> ARef (rv_name j)) ->
  exists b', exec_lines b (rv_lines vs i) = Some b' /\
             (forall j v, nth_error vs j = Some v -> sh_get (rv_name (i + j)) b' = atom_text b v) /\
             (forall n, (forall j, (i <= j)%nat -> n <> rv_name j) -> sh_get n b' = sh_get n b).
Proof.
  induction vs as [|v r IH]; intros i b Hno.
  - exists b. split; [reflexivity|]. split; [intros j w H; destruct j; discriminate|intros; reflexivity].
  - cbn [rv_lines exec_lines exec_line eval_rhs].
    set (b1 := sh_set (rv_name i) (atom_text b v) b).
    assert (forall a, In a r -> atom_text b1 a = atom_text b a) as Hsame.
    { intros a Ha. destruct a as [t|n]; [reflexivity|]. cbn [atom_text]. unfold b1. apply sh_get_set_other.
      intro Heq. apply (Hno (ARef n) i (or_intror Ha)). rewrite Heq. reflexivity. }
    destruct (IH (S i) b1 (fun a j Ha => Hno a j (or_intror Ha))) as (b' & Hx & Hv & Hf).
    exists b'. split; [exact Hx|]. split.
    + intros j w Hj. destruct j as [|j].
      * cbn [nth_error] in Hj. inversion Hj; subst w. rewrite Nat.add_0_r. rewrite Hf.
        -- unfold b1. apply sh_get_set_same.
        -- intros j Hj0 Heq. apply rv_name_inj in Heq. lia.
      * cbn [nth_error] in Hj. replace (i + S j)%nat with (S i + j)%nat by lia. rewrite (Hv j w Hj). apply Hsame. exact (nth_error_In _ _ Hj).
    + intros n Hn. rewrite (Hf n (fun j Hj => Hn j ltac:(lia))). unfold b1. apply sh_get_set_other. apply Hn. apply le_n.
Qed.

Lemma rv_lines_no_echo vs : forall i, forallb no_echo (rv_lines vs i) = true.
Proof. induction vs as [|v r IH]; intro i; [reflexivity|]. cbn [rv_lines forallb]. rewrite IH. reflexivity. Qed.

Lemma return_decompose es s u s' :
  t_stmt bash_conv (SReturn es) s = TOk u s' ->
  exists vs s1, args_fix es s = TOk vs s1 /\ cext s1 s' (rv_lines vs 0 ++ [LReturn]).
Proof.
  intro H. cbn [t_stmt] in H. mb H as vs s1 H1 H2. exists vs, s1. split; [exact H1|].
  assert (cv_return bstate atom bash_conv vs s1 =
          TOk tt (add_line LReturn (fst (fold_left (fun (acc : bstate * nat) v => let '(st, i) := acc in (add_line (LAssign (var_name st (rv_name i) true) (RAtom v)) st, S i)) vs (s1, 0%nat))))) as E by reflexivity.
  rewrite E in H2. inversion H2; subst. eapply cext_trans; [apply rv_fold_cext|apply cext_line].
Qed.


Lemma map_nth_agree {A B C} (f : A -> C) (g : B -> C) : forall (l : list A) (l' : list B) i v,
  map f l = map g l' -> nth_error l' i = Some v -> exists a, nth_error l i = Some a /\ f a = g v.
Proof.
  induction l as [|a r IH]; intros l' i v H Hn; destruct l' as [|w r']; try discriminate.
  - destruct i; discriminate.
  - cbn [map] in H. injection H as H0 Hr. destruct i as [|i].
    + cbn [nth_error] in *. inversion Hn; subst. exists a. split; [reflexivity|exact H0].
    + cbn [nth_error] in *. exact (IH r' i v Hr Hn).
Qed.


Lemma args_e3 : forall es s vs s', args_fix es s = TOk vs s' -> emits3 s s'.
Proof.
  induction es as [|e r IH]; intros s vs s' H; [mr H; apply e3_refl|].
  cbn [args_fix] in H. mb H as va s1 H1 H2. mb H2 as vr s2 H2 H3. mr H3.
  eapply e3_trans; [exact (e3_expr _ _ _ _ _ H1)|exact (IH _ _ _ H2)].
Qed.

Lemma rv_lines_plain3 vs : forall i, forallb plain3 (rv_lines vs i) = true.
Proof. induction vs as [|v r IH]; intro i; [reflexivity|]. cbn [rv_lines forallb]. rewrite IH. reflexivity. Qed.

Lemma rv_fold_e3 : forall vs s i,
  emits3 s (fst (fold_left (fun (acc : bstate * nat) v => let '(st, i) := acc in (add_line (LAssign (var_name st (rv_name i) true) (RAtom v)) st, S i)) vs (s, i))).
Proof.
  induction vs as [|v r IH]; intros s i; cbn [fold_left fst]; [apply e3_refl|].
  eapply e3_trans; [|apply IH]. apply e3_line. reflexivity.
Qed.

Lemma return_e3 es s u s' : t_stmt bash_conv (SReturn es) s = TOk u s' -> emits3 s s'.
Proof.
  intro H. cbn [t_stmt] in H. mb H as vs s1 H1 H2.
  assert (cv_return bstate atom bash_conv vs s1 =
          TOk tt (add_line LReturn (fst (fold_left (fun (acc : bstate * nat) v => let '(st, i) := acc in (add_line (LAssign (var_name st (rv_name i) true) (RAtom v)) st, S i)) vs (s1, 0%nat))))) as E by reflexivity.
  rewrite E in H2. inversion H2; subst.
  eapply e3_trans; [exact (args_e3 es s vs s1 H1)|]. eapply e3_trans; [apply rv_fold_e3|]. apply e3_line. reflexivity.
Qed.

Lemma evals_e3 many : forall es i s vs s', eval_values bash_conv many es i s = TOk vs s' -> emits3 s s'.
Proof.
  induction es as [|e r IH]; intros i s vs s' H; cbn [eval_values] in H; [mr H; apply e3_refl|].
  mb H as ve s1 H1 H2. mb H2 as v s2 H2 H3. mb H3 as vr s3 H3 H4. mr H4.
  eapply e3_trans; [exact (e3_expr _ _ _ _ _ H1)|]. eapply e3_trans; [|exact (IH _ _ _ _ H3)].
  destruct many.
  - mb H2 as u1 s4 H2 H5. mu H2. subst s4. inversion H5; subst. apply e3_line. reflexivity.
  - mr H2. apply e3_refl.
Qed.

Lemma assign_any_e3 vars es s u s' : t_stmt bash_conv (SAssign vars es) s = TOk u s' -> emits3 s s'.
Proof.
  intro Ht. cbn [t_stmt] in Ht. unfold assign_values in Ht. destruct (length es <? length vars)%nat; [discriminate|].
  mb Ht as vs s1 H1 H2. eapply e3_trans; [exact (evals_e3 _ _ _ _ _ _ H1)|exact (store_e3 _ _ _ _ _ H2)].
Qed.

Theorem frag2_e3 : forall st, stmt_e3 st.
Proof.
  induction st using AstInd.stmt_ind'; intro Hf; try discriminate; intros s u s' Ht.
  - (* SVarDef *) change (t_stmt bash_conv (SVarDef vs es) s) with (t_stmt bash_conv (SAssign vs es) s) in Ht. exact (assign_any_e3 vs es s u s' Ht).
  - (* SVarDefCall *) change (t_stmt bash_conv (SVarDefCall vs c) s) with (t_stmt bash_conv (SAssignCall vs c) s) in Ht. exact (assign_call_e3 vs c s u s' Ht).
  - (* SAssign *) exact (assign_any_e3 vs es s u s' Ht).
  - (* SAssignCall *) exact (assign_call_e3 vs c s u s' Ht).
  - (* SReturn *) exact (return_e3 es s u s' Ht).
  - (* SIf *)
    destruct brs as [|[c0 b0] elifs]; [discriminate|]. rewrite frag2_if in Hf.
    apply andb_true_iff in Hf as [Hf Hfe]. apply andb_true_iff in Hf as [Hf Hfb]. apply andb_true_iff in Hf as [_ Hf0].
    inversion H as [|y l Hb0 Hel]; subst. cbn [snd] in Hb0.
    destruct (if_decompose c0 b0 elifs els s u s' Ht) as (v0 & s0 & cs & sc & sb0 & sch & sel & E0 & Ec & Eb0 & Ech & Eel & ->).
    destruct (conds_e3 elifs _ _ _ Ec) as [Cc Lc].
    destruct (tb_e3 b0 Hb0 Hf0 _ _ _ Eb0) as (B0 & EB0 & CB0 & FB0).
    destruct (bodies_tail3 elifs Hel Hfb els H0 Hfe cs sb0 sch sel Lc Ech Eel) as (T & ET & CT & FT).
    eapply e3_trans; [exact (e3_expr _ _ _ _ _ E0)|]. eapply e3_trans; [exact Cc|].
    exists ([LIf (bs "if") (first_value bash_conv v0)] ++ B0 ++ T). split; [|split; [apply cl3_if; assumption|]].
    + eapply cext_trans; [apply cext_line|]. eapply cext_trans; [exact EB0|exact ET].
    + rewrite FT, FB0. reflexivity.
  - (* SFor *)
    rename H into IHi, H0 into IHn, H1 into IHb.
    rewrite frag2_for in Hf. apply andb_true_iff in Hf as [Hf Hfb]. apply andb_true_iff in Hf as [Hf Hfn]. apply andb_true_iff in Hf as [Hfi Hpc].
    destruct (for_decompose i c n body s u s' Ht) as (si & sn & vc & sc & sd & Ei & En & Ec & Eb & Ee).
    assert (emits3 s si) as E1.
    { destruct i as [st|]; [exact (simple_stmt_e3 st s tt si Hfi Ei)|inversion Ei; subst; apply e3_refl]. }
    set (f := flag_of si).
    (* the lines of one round *)
    assert (exists R, cext (cv_for_start bstate atom bash_conv si) sd R /\ cl3 R /\ b_fors sd = b_fors si ++ [b_for_counter si]) as (R & ER & CR & FR).
    { assert (exists Rn, cext (cv_for_start bstate atom bash_conv si) sn Rn /\ cl3 Rn /\ b_fors sn = b_fors si ++ [b_for_counter si]) as (Rn & ERn & CRn & FRn).
      { destruct n as [st|]; unfold incr_part in En.
        - mb En as u1 s1 H1 H2. rewrite bash_for_incr_start, current_flag_after_start in H1. inversion H1; subst; clear H1.
          mb H2 as u2 s2 H2 H3. destruct (simple_stmt_e3 st _ u2 s2 Hfn H2) as (Bi & EBi & CBi & FBi).
          rewrite bash_for_incr_end in H3. unfold current_flag in H3. rewrite FBi in H3. cbn [add_line b_fors] in H3.
          rewrite rev_app_distr in H3. cbn [rev app] in H3. inversion H3; subst; clear H3.
          exists ([LIncrGuard f] ++ Bi ++ [LFi; LFlagSet (bs "_fv" ++ dec_nat (b_for_counter si))]).
          split; [eapply cext_trans; [apply cext_line|]; eapply cext_trans; [exact EBi|apply cext_lines2]|].
          split; [apply cl3_incr; exact CBi|]. cbn [add_line b_fors]. rewrite FBi. reflexivity.
        - mr En. exists []. split; [apply cext_refl|]. split; [apply cl3_nil|reflexivity]. }
      destruct (e3_expr _ _ _ _ _ Ec) as (Lc & ELc & CLc & FLc).
      destruct (tb_e3 body IHb Hfb _ _ _ Eb) as (B & EB & CB & FB).
      exists (Rn ++ Lc ++ [LBreakUnless (first_value bash_conv vc)] ++ B).
      split; [eapply cext_trans; [exact ERn|]; eapply cext_trans; [exact ELc|]; eapply cext_trans; [apply cext_line|exact EB]|].
      split; [apply cl3_app; [exact CRn|]; apply cl3_app; [exact CLc|]; apply cl3_app; [apply cl3_plain; reflexivity|exact CB]|].
      rewrite FB. cbn [add_line b_fors]. rewrite FLc. exact FRn. }
    rewrite bash_for_end in Ee. rewrite FR in Ee. destruct (b_fors si ++ [b_for_counter si]) eqn:Efs; [destruct (b_fors si); discriminate|].
    inversion Ee; subst s'; clear Ee.
    eapply e3_trans; [exact E1|].
    exists ([LForInit f; LWhile] ++ R ++ [LDone]). split; [|split; [apply cl3_loop; exact CR|]].
    + constructor; cbn [add_line b_code b_funcs b_func_counter].
      * rewrite (cx_code _ _ _ ER). rewrite bash_for_start. cbn [add_line b_code]. rewrite <- !app_assoc. reflexivity.
      * rewrite (cx_funcs _ _ _ ER). rewrite bash_for_start. reflexivity.
      * rewrite (cx_fcnt _ _ _ ER). rewrite bash_for_start. reflexivity.
      * cbn [add_line b_for_counter]. pose proof (cx_mono _ _ _ ER) as M. rewrite bash_for_start in M. cbn [add_line b_for_counter] in M. lia.
    + cbn [add_line b_fors]. rewrite FR, <- Efs. apply removelast_last.
  - (* SBreak *) cbn [t_stmt] in Ht. rewrite bash_break in Ht. inversion Ht; subst. apply e3_line. reflexivity.
  - (* SContinue *) cbn [t_stmt] in Ht. rewrite bash_continue in Ht. inversion Ht; subst. apply e3_line. reflexivity.
  - (* SPrint *) exact (print_e3 es s u s' Ht).
  - (* SExpr *) cbn [t_stmt] in Ht. mb Ht as vs s1 H1 H2. mr H2. exact (e3_expr _ _ _ _ _ H1).
Qed.



(* ---- names of flags; what a block may write ---- *)
Definition fname (k : nat) : bytes := bs "_fv" ++ dec_nat k.

(* the parking variables of a simultaneous assignment *)
Definition ma_var (s : bstate) (i : nat) : bytes := var_name s (ma_name i) false.

Lemma ma_var_cext s s' ls i : cext s s' ls -> ma_var s' i = ma_var s i.
Proof. intros E. unfold ma_var, var_name. rewrite (cx_funcs _ _ _ E), (cx_fcnt _ _ _ E). reflexivity. Qed.

Lemma ma_var_ext s s' ls i : ext s s' ls -> ma_var s' i = ma_var s i.
Proof. intros E. unfold ma_var, var_name. rewrite (x_funcs _ _ _ E), (x_fcnt _ _ _ E). reflexivity. Qed.

Lemma ma_not_helper s i k : ma_var s i <> helper_name s k.
Proof. unfold ma_var, helper_name, var_name, ma_name. destruct ((0 <? b_funcs s)%nat && negb false); intro H; [apply app_inv_head in H; apply app_inv_head in H|]; cbn in H; inversion H. Qed.

Lemma ma_var_inj s i j : ma_var s i = ma_var s j -> i = j.
Proof.
  unfold ma_var, var_name, ma_name. destruct ((0 <? b_funcs s)%nat && negb false); intro H.
  - do 4 apply app_inv_head in H. apply dec_N_inj in H. apply Nat2N.inj in H. exact H.
  - apply app_inv_head in H. apply dec_N_inj in H. apply Nat2N.inj in H. exact H.
Qed.

(* ---- storing a list of parked values into a list of variables (multi-value calls, simultaneous assignment) ---- *)
Fixpoint assign_all (sg : senv) (xs : list var) (vals : list value) : senv :=
  match xs, vals with x :: xr, v :: vr => assign_all (supd sg x v) xr vr | _, _ => sg end.

Lemma stores_step XS : forall xs atoms vals sg s u s' b,
  store_values bash_conv xs atoms s = TOk u s' -> length atoms = length xs -> length vals = length xs ->
  (forall x, In x xs -> In x XS) -> map (atom_text b) atoms = map text vals ->
  (forall a x, In a atoms -> In x XS -> a <> ARef (user_name s x)) -> ctx_ok XS sg b s ->
  exists ls b', cext s s' ls /\ exec_lines b ls = Some b' /\ ctx_ok XS (assign_all sg xs vals) b' s' /\
     b_for_counter s' = b_for_counter s /\
     (forall n, (forall x, In x xs -> n <> user_name s x) -> sh_get n b' = sh_get n b).
Proof.
  induction xs as [|x xr IH]; intros atoms vals sg s u s' b H La Lv Hin Hmap Hat Hc.
  - cbn [store_values] in H. mr H. exists [], b. split; [apply cext_refl|]. split; [reflexivity|].
    destruct vals; [|discriminate]. split; [exact Hc|]. split; [reflexivity|]. intros; reflexivity.
  - destruct atoms as [|a ar]; [discriminate|]. destruct vals as [|v vr]; [discriminate|].
    cbn [store_values] in H. mb H as u1 s1 H1 H2. mu H1. subst s1. rewrite bash_var_definition in H2.
    change (var_name s (v_name x) (v_global x)) with (user_name s x) in H2.
    set (n := user_name s x) in *. set (s1 := add_line (LAssign n (RAtom a)) s) in *.
    cbn [map] in Hmap. injection Hmap as Ha Hmr.
    set (b1 := sh_set n (atom_text b a) b).
    assert (In x XS) as Hx by (apply Hin; left; reflexivity).
    assert (cext s s1 [LAssign n (RAtom a)]) as E1 by apply cext_line.
    destruct Hc as [Cf Hrep Hhy Hinj].
    assert (ctx_ok XS (supd sg x v) b1 s1) as Hc1.
    { apply (ctx_cext XS _ _ s _ _ E1). constructor; [exact Cf| |exact Hhy|exact Hinj].
      intros y w Hy Hw. unfold supd in Hw. destruct (same_var y x) eqn:Sv.
      - inversion Hw; subst w. unfold b1. rewrite (same_var_name s y x Sv). fold n. rewrite sh_get_set_same. exact Ha.
      - unfold b1. rewrite sh_get_set_other; [exact (Hrep y w Hy Hw)|]. unfold n. intro Heq. rewrite (Hinj y x Hy Hx Heq) in Sv. discriminate. }
    assert (map (atom_text b1) ar = map text vr) as Hmr1.
    { rewrite <- Hmr. apply map_ext_in. intros a' Ha'. destruct a' as [t|m]; [reflexivity|]. cbn [atom_text]. unfold b1.
      apply sh_get_set_other. intro Heq. apply (Hat (ARef m) x (or_intror Ha') Hx). rewrite Heq. reflexivity. }
    destruct (IH ar vr (supd sg x v) s1 u s' b1 H2 ltac:(cbn [length] in La; lia) ltac:(cbn [length] in Lv; lia)
                 (fun y Hy => Hin y (or_intror Hy)) Hmr1
                 (fun a' y Ha' Hy => eq_ind_r (fun t => a' <> ARef t) (Hat a' y (or_intror Ha') Hy) (user_name_cext _ _ _ y E1)) Hc1)
      as (ls & b' & E2 & R2 & C2 & M2 & F2).
    exists ([LAssign n (RAtom a)] ++ ls), b'. split; [eapply cext_trans; eassumption|].
    split; [cbn [app exec_lines exec_line eval_rhs]; exact R2|]. split; [exact C2|]. split; [rewrite M2; reflexivity|].
    intros m Hm. rewrite F2.
    + unfold b1. apply sh_get_set_other. apply Hm. left. reflexivity.
    + intros y Hy. rewrite (user_name_cext _ _ _ y E1). apply Hm. right. exact Hy.
Qed.

(* ---- the copies of the return registers behind a call line ---- *)
Fixpoint copy_lines (st : bstate) (k i n : nat) : list line :=
  match n with O => [] | S m => LAssign (helper_name st k) (RAtom (ARef (rv_name i))) :: copy_lines st (S k) (S i) m end.
Fixpoint copy_atoms (st : bstate) (k n : nat) : list atom :=
  match n with O => [] | S m => ARef (helper_name st k) :: copy_atoms st (S k) m end.

Lemma copy_atoms_length st : forall n k, length (copy_atoms st k n) = n.
Proof. induction n as [|n IH]; intro k; [reflexivity|]. cbn [copy_atoms length]. rewrite IH. reflexivity. Qed.

Lemma helper_assign_forc mk s a s' : helper_assign mk s = (a, s') -> b_for_counter s' = b_for_counter s.
Proof. unfold helper_assign, next_helper. intro H. inversion H; subst. reflexivity. Qed.

Lemma copies_fold {A} : forall (rets : list A) vs0 st i,
  exists s2 j,
    fold_left (fun (acc : list atom * bstate * nat) (_ : A) =>
                 let '(vs, st, i) := acc in let '(h, st') := helper_assign (RAtom (ARef (rv_name i))) st in (vs ++ [h], st', S i)) rets (vs0, st, i)
    = (vs0 ++ copy_atoms st (b_var_counter st) (length rets), s2, j) /\
    cext st s2 (copy_lines st (b_var_counter st) i (length rets)).
Proof.
  induction rets as [|r rr IH]; intros vs0 st i.
  - exists st, i. cbn [fold_left length copy_atoms copy_lines]. rewrite app_nil_r. split; [reflexivity|apply cext_refl].
  - cbn [fold_left]. destruct (helper_assign (RAtom (ARef (rv_name i))) st) as [h st'] eqn:EH.
    destruct (helper_assign_spec _ _ _ _ EH) as (-> & Ex & Hc).
    destruct (IH (vs0 ++ [ARef (helper_name st (b_var_counter st))]) st' (S i)) as (s2 & j & Hf & E2).
    exists s2, j. rewrite Hf. cbn [length copy_atoms copy_lines]. rewrite Hc, <- app_assoc. cbn [app].
    assert (forall n k, copy_atoms st' k n = copy_atoms st k n) as Ha
      by (induction n as [|n IHn]; intro k; [reflexivity|]; cbn [copy_atoms]; rewrite (helper_name_ext _ _ _ k Ex), IHn; reflexivity).
    assert (forall n k i0, copy_lines st' k i0 n = copy_lines st k i0 n) as Hl
      by (induction n as [|n IHn]; intros k i0; [reflexivity|]; cbn [copy_lines]; rewrite (helper_name_ext _ _ _ k Ex), IHn; reflexivity).
    rewrite Ha. split; [reflexivity|]. rewrite Hl, Hc in E2.
    change (LAssign (helper_name st (b_var_counter st)) (RAtom (ARef (rv_name i))) :: copy_lines st (S (b_var_counter st)) (S i) (length rr))
      with ([LAssign (helper_name st (b_var_counter st)) (RAtom (ARef (rv_name i)))] ++ copy_lines st (S (b_var_counter st)) (S i) (length rr)).
    eapply cext_trans; [|exact E2]. apply cext_of_ext; [exact Ex|rewrite (helper_assign_forc _ _ _ _ EH); apply le_n].
Qed.

Lemma rv_not_helper s i k : rv_name i <> helper_name s k.
Proof. unfold rv_name, helper_name, var_name. destruct ((0 <? b_funcs s)%nat && negb false); intro H; cbn in H; inversion H. Qed.

Lemma copies_exec st : forall n k i b,
  exists b', exec_lines b (copy_lines st k i n) = Some b' /\
             (forall j, (j < n)%nat -> sh_get (helper_name st (k + j)) b' = sh_get (rv_name (i + j)) b) /\
             (forall m, (forall j, (k <= j)%nat -> m <> helper_name st j) -> sh_get m b' = sh_get m b).
Proof.
  induction n as [|n IH]; intros k i b.
  - exists b. split; [reflexivity|]. split; [intros j Hj; lia|intros; reflexivity].
  - cbn [copy_lines exec_lines exec_line eval_rhs atom_text].
    set (b1 := sh_set (helper_name st k) (sh_get (rv_name i) b) b).
    destruct (IH (S k) (S i) b1) as (b' & Hx & Hv & Hf). exists b'. split; [exact Hx|]. split.
    + intros j Hj. destruct j as [|j].
      * rewrite Nat.add_0_r, Nat.add_0_r. rewrite Hf; [unfold b1; apply sh_get_set_same|].
        intros j Hj0 Heq. apply helper_name_inj in Heq. lia.
      * replace (k + S j)%nat with (S k + j)%nat by lia. replace (i + S j)%nat with (S i + j)%nat by lia.
        rewrite (Hv j ltac:(lia)). unfold b1. apply sh_get_set_other. apply rv_not_helper.
    + intros m Hm. rewrite (Hf m (fun j Hj => Hm j ltac:(lia))). unfold b1. apply sh_get_set_other. apply Hm. apply le_n.
Qed.

Lemma copies_values st : forall (rvals : list value) k b,
  (forall j v, nth_error rvals j = Some v -> sh_get (helper_name st (k + j)) b = text v) ->
  map (atom_text b) (copy_atoms st k (length rvals)) = map text rvals.
Proof.
  induction rvals as [|v vr IH]; intros k b H; [reflexivity|].
  cbn [length copy_atoms map atom_text]. rewrite <- (Nat.add_0_r k) at 1. rewrite (H 0%nat v eq_refl). f_equal.
  apply (IH (S k) b). intros j w Hj. replace (S k + j)%nat with (k + S j)%nat by lia. exact (H (S j) w Hj).
Qed.

Section WithCalls.
Lemma call_decompose f rets args used s vs s' :
  t_expr bash_conv (ECall f rets args) used s = TOk vs s' ->
  exists va s1, args_fix args s = TOk va s1 /\
    (if used && negb (Nat.eqb (length (fst (cv_func_call bstate atom bash_conv f va rets used s1))) (length rets)) then False
     else cv_func_call bstate atom bash_conv f va rets used s1 = (vs, s')).
Proof.
  intro H. cbn [t_expr] in H. mb H as va s1 H1 H2. exists va, s1. split; [exact H1|].
  mb H2 as res s2 H2 H3. unfold lift in H2. destruct (cv_func_call bstate atom bash_conv f va rets used s1) as [res0 s20] eqn:E.
  inversion H2; subst res0 s20. cbn [fst]. destruct (used && negb (Nat.eqb (length res) (length rets))); [discriminate|]. mr H3. reflexivity.
Qed.

Lemma bash_call_used f va t s :
  cv_func_call bstate atom bash_conv f va [t] true s =
  ([ARef (helper_name s (b_var_counter s))],
   snd (helper_assign (RAtom (ARef (rv_name 0))) (add_line (LCall f va) s))).
Proof. reflexivity. Qed.

Lemma call_used_decompose f t args s vs s' :
  t_expr bash_conv (ECall f [t] args) true s = TOk vs s' ->
  exists va s1, args_fix args s = TOk va s1 /\ vs = [ARef (helper_name s1 (b_var_counter s1))] /\
                s' = snd (helper_assign (RAtom (ARef (rv_name 0))) (add_line (LCall f va) s1)).
Proof.
  intro H. destruct (call_decompose _ _ _ _ _ _ _ H) as (va & s1 & Ha & Hcv). exists va, s1. split; [exact Ha|].
  rewrite bash_call_used in Hcv. cbn [fst length Nat.eqb negb andb] in Hcv. inversion Hcv. split; reflexivity.
Qed.

Lemma bash_call_unused f va rets s :
  cv_func_call bstate atom bash_conv f va rets false s = (map (fun _ => ALit []) rets, add_line (LCall f va) s).
Proof. reflexivity. Qed.

(* what a function call does (see Sem/FlatLoop.v), the positional parameters of the function body being run, and the loop
   counter at the start of the definition-free stretch of code we are in: functions called from it were translated
   before it, so their loops have flags with smaller numbers *)
Variable call : nat -> bytes -> list bytes -> shenv -> option (shenv * bytes).
Variable pos : list bytes.
Hypothesis call_mono : fuel_mono call.
Variable klo : nat.
(* functions with a number below mlo may run while this stretch of code runs (they were defined before it) *)
Variable mlo : nat.
(* the source side of a call: function, argument values, environment -> result values, environment afterwards, output *)
Variable scall : list var -> bytes -> list value -> senv -> list value -> senv -> bytes -> Prop.

Lemma fname_not_ma s k i : fname k <> ma_var s i.
Proof. unfold fname, ma_var, var_name, ma_name. destruct ((0 <? b_funcs s)%nat && negb false); intro H; cbn in H; inversion H. Qed.

Lemma fname_not_helper s k j : fname k <> helper_name s j.
Proof.
  unfold fname, helper_name, var_name. destruct ((0 <? b_funcs s)%nat && negb false); intro H; cbn in H; inversion H.
Qed.

Definition fresh_flags (XS : list var) (s : bstate) : Prop :=
  (forall x k, In x XS -> user_name s x <> fname k) /\ (forall x i, In x XS -> user_name s x <> rv_name i) /\ (klo <= b_for_counter s)%nat /\
  (forall x c y, In x XS -> (c < mlo)%nat -> user_name s x <> mangled c y) /\
  (forall x i, In x XS -> user_name s x <> ma_var s i).

(* a block may write: the program's variables, the helpers of the current context, loop flags outside the protected
   range [klo, loop counter), and -- through calls -- mangled names and return registers *)
Definition untouched (XS : list var) (s s' : bstate) (b b' : shenv) : Prop :=
  forall n, (forall x, In x XS -> n <> user_name s x) -> (forall k, n <> helper_name s k) ->
            (forall k, (k < klo \/ b_for_counter s <= k < b_for_counter s')%nat -> n <> fname k) ->
            (forall c x, (c < mlo)%nat -> n <> mangled c x) -> (forall i, n <> rv_name i) -> (forall i, n <> ma_var s i) ->
            sh_get n b' = sh_get n b.

(* the oracle refines the source side of calls: results arrive in the return registers, the caller's variables
   (XS: also the globals the function may write) stay represented, nothing protected is written *)
Definition call_refines : Prop :=
  forall XS f vals sg rvals sg1 o b s,
    scall XS f vals sg rvals sg1 o -> env_ok sg -> ctx_ok XS sg b s -> fresh_flags XS s ->
    exists b1, (exists f0, forall fu, (f0 <= fu)%nat -> call fu f (map text vals) b = Some (b1, o)) /\ ctx_ok XS sg1 b1 s /\ untouched XS s s b b1 /\
               (forall i v, nth_error rvals i = Some v -> sh_get (rv_name i) b1 = text v).
Hypothesis call_ok : call_refines.

Lemma untouched_refl XS s s' b : untouched XS s s' b b.
Proof. intros n _ _ _ _ _ _. reflexivity. Qed.

(* a block inside a longer stretch of code *)
Lemma untouched_gen XS s0 s s' s0' ls b b' :
  cext s0 s ls -> (b_for_counter s' <= b_for_counter s0')%nat -> untouched XS s s' b b' -> untouched XS s0 s0' b b'.
Proof.
  intros E M U n Hu Hh Hf Hm Hr Hma. pose proof (cx_mono _ _ _ E) as M0. apply U.
  - intros x Hx. rewrite (user_name_cext _ _ _ x E). apply Hu. exact Hx.
  - intro k. rewrite (helper_name_cext _ _ _ k E). apply Hh.
  - intros k Hk. apply Hf. lia.
  - exact Hm.
  - exact Hr.
  - intro i. rewrite (ma_var_cext _ _ _ i E). apply Hma.
Qed.

Lemma untouched_compose XS s s' b b1 b2 : untouched XS s s' b b1 -> untouched XS s s' b1 b2 -> untouched XS s s' b b2.
Proof. intros U1 U2 n Hu Hh Hf Hm Hr Hma. rewrite (U2 n Hu Hh Hf Hm Hr Hma). exact (U1 n Hu Hh Hf Hm Hr Hma). Qed.

Lemma untouched_trans XS s s1 s2 ls b b1 b2 :
  cext s s1 ls -> (b_for_counter s1 <= b_for_counter s2)%nat -> untouched XS s s1 b b1 -> untouched XS s1 s2 b1 b2 -> untouched XS s s2 b b2.
Proof.
  intros E M U1 U2. apply (untouched_compose XS s s2 b b1 b2).
  - exact (untouched_gen XS s s s1 s2 [] b b1 (cext_refl s) M U1).
  - exact (untouched_gen XS s s1 s2 s2 ls b1 b2 E (le_n _) U2).
Qed.

(* assignment and print once more, with what they leave untouched *)
Lemma assign_step XS sg x e s u s' b v :
  pure e = true -> t_stmt bash_conv (SAssign [x] [e]) s = TOk u s' -> peval sg e = Some v -> env_ok sg -> side XS e -> In x XS ->
  ctx_ok XS sg b s ->
  exists ls b', cext s s' ls /\ exec_outs b ls = Some (b', []) /\ ctx_ok XS (supd sg x v) b' s' /\ untouched XS s s' b b'.
Proof.
  intros Hp Ht Hv Henv [Hl [Hn Hin]] Hx [Cf Hrep Hhy Hinj].
  pose proof Ht as Ht0.
  cbn [t_stmt] in Ht. unfold assign_values in Ht. cbn [length Nat.ltb Nat.leb firstn eval_values] in Ht.
  mb Ht as vs s1 H1 H2. mb H1 as ve s2 H1 H3. mb H3 as v0 s3 H3 H4. mr H3. mb H4 as vr s4 H4 H5. mr H4. mr H5.
  cbn [store_values] in H2. mb H2 as u1 s5 H2 H6. mu H2. mr H6.
  pose proof (expr_preserve e Hp sg true s ve s1 b v H1 Hv Henv Hl (represents_incl _ _ _ _ _ Hrep Hin) (hygienic_incl _ _ _ Hhy Hin))
    as [l1 a1 b1 O1 E1 M1 R1 V1 F1 S1].
  subst ve. cbn [first_value] in *. rewrite bash_var_definition.
  set (n := var_name s1 (v_name x) (v_global x)).
  assert (n = user_name s x) as Hnn by (unfold n; exact (user_name_ext _ _ _ x E1)).
  assert (ext s (add_line (LAssign n (RAtom a1)) s1) (l1 ++ [LAssign n (RAtom a1)])) as E2
    by (eapply ext_trans; [exact E1|apply ext_add_line]).
  exists (l1 ++ [LAssign n (RAtom a1)]), (sh_set n (atom_text b1 a1) b1).
  split; [apply cext_of_ext; [exact E2|cbn [add_line b_for_counter]; exact (expr_mono_any _ _ _ _ _ H1)]|].
  split.
  { apply exec_outs_silent.
    - rewrite forallb_app, (exec_lines_no_echo l1 b b1 R1). reflexivity.
    - rewrite exec_lines_app, R1. reflexivity. }
  split.
  { apply (ctx_ext XS _ _ s _ _ E2). constructor; [exact Cf| |exact Hhy|exact Hinj].
    intros y w Hy Hw. unfold supd in Hw. destruct (same_var y x) eqn:Sv.
    - inversion Hw; subst w. rewrite (same_var_name s y x Sv), <- Hnn, sh_get_set_same. exact V1.
    - rewrite sh_get_set_other.
      + rewrite F1; [exact (Hrep y w Hy Hw)|]. intros k _ Heq. exact (Hhy y k Hy Heq).
      + rewrite Hnn. intro Heq. rewrite (Hinj y x Hy Hx Heq) in Sv. discriminate. }
  intros m Hu Hh _ _ _ _. rewrite sh_get_set_other; [|rewrite Hnn; apply Hu; exact Hx]. apply F1. intros k _. apply Hh.
Qed.

Lemma pv_mono es : forall s vs s', pv_fix es s = TOk vs s' -> (b_for_counter s <= b_for_counter s')%nat.
Proof.
  induction es as [|e r IH]; intros s vs s' H; [mr H; apply le_n|].
  cbn [pv_fix] in H. mb H as ve s1 H1 H2. mb H2 as vr s2 H2 H3. mr H3. pose proof (expr_mono_any _ _ _ _ _ H1). pose proof (IH _ _ _ H2). lia.
Qed.

Lemma print_step XS sg es s u s' b vals :
  forallb pure es = true -> t_stmt bash_conv (SPrint es) s = TOk u s' -> pevals sg es = Some vals -> env_ok sg ->
  (forall e, In e es -> side XS e) -> ctx_ok XS sg b s ->
  exists ls b', cext s s' ls /\ exec_outs b ls = Some (b', join [32] (map text vals) ++ [10]) /\ ctx_ok XS sg b' s' /\ untouched XS s s' b b'.
Proof.
  intros Hp Ht Hv Henv Hes [Cf Hrep Hhy Hinj].
  cbn [t_stmt] in Ht. mb Ht as vs s1 H1 H2. mu H2. subst s'.
  destruct (print_values es sg s vs s1 b vals XS Hp H1 Hv Henv Hes Cf Hrep Hhy) as (l1 & b1 & E1 & M1 & R1 & V1 & F1 & S1 & Hok).
  rewrite bash_print.
  assert (ext s (add_line (LEcho (join [32] (map render_atom vs))) s1) (l1 ++ [LEcho (join [32] (map render_atom vs))])) as E2
    by (eapply ext_trans; [exact E1|apply ext_add_line]).
  exists (l1 ++ [LEcho (join [32] (map render_atom vs))]), b1.
  split; [apply cext_of_ext; [exact E2|cbn [add_line b_for_counter]; exact (pv_mono _ _ _ _ H1)]|].
  split.
  { rewrite exec_outs_app, (exec_outs_silent l1 b b1 (exec_lines_no_echo l1 b b1 R1) R1).
    cbn [exec_outs exec_out]. rewrite (dq_join b1 vs Hok), V1. cbn [app]. rewrite app_nil_r. reflexivity. }
  split.
  { apply (ctx_ext XS _ _ s _ _ E2). constructor; [exact Cf| |exact Hhy|exact Hinj].
    intros x w Hx Hw. rewrite F1; [exact (Hrep x w Hx Hw)|]. intros k _ Heq. exact (Hhy x k Hx Heq). }
  intros m _ Hh _ _ _ _. apply F1. intros k _. apply Hh.
Qed.

(* ---- the source side: signals and loops ---- *)
Inductive sig := SN | SB | SC | SR (rvals : list value).
Inductive code := Prog (body : list stmt) | Loop (first : bool) (cond : expr) (incr : option stmt) (body : list stmt).
Definition opt_list (o : option stmt) : list stmt := match o with Some st => [st] | None => [] end.

Definition incr_of (first : bool) (incr : option stmt) : list stmt := if first then [] else opt_list incr.

Inductive J (XS : list var) : code -> senv -> senv -> bytes -> sig -> Prop :=
| j_nil sg : J XS (Prog []) sg sg [] SN
| j_assign sg x e v r sg' out g :
    pure e = true -> side XS e -> In x XS -> peval sg e = Some v -> env_ok (supd sg x v) ->
    J XS (Prog r) (supd sg x v) sg' out g -> J XS (Prog (SAssign [x] [e] :: r)) sg sg' out g
| j_define sg x e v r sg' out g :
    pure e = true -> side XS e -> In x XS -> peval sg e = Some v -> env_ok (supd sg x v) ->
    J XS (Prog r) (supd sg x v) sg' out g -> J XS (Prog (SVarDef [x] [e] :: r)) sg sg' out g
| j_assign_multi sg xs es vals r sg' out g :
    forallb pure es = true -> (forall e, In e es -> side XS e) -> (forall x, In x xs -> In x XS) -> (2 <= length xs)%nat ->
    length es = length xs -> pevals sg es = Some vals -> env_ok (assign_all sg xs vals) ->
    J XS (Prog r) (assign_all sg xs vals) sg' out g -> J XS (Prog (SAssign xs es :: r)) sg sg' out g
| j_define_multi sg xs es vals r sg' out g :
    forallb pure es = true -> (forall e, In e es -> side XS e) -> (forall x, In x xs -> In x XS) -> (2 <= length xs)%nat ->
    length es = length xs -> pevals sg es = Some vals -> env_ok (assign_all sg xs vals) ->
    J XS (Prog r) (assign_all sg xs vals) sg' out g -> J XS (Prog (SVarDef xs es :: r)) sg sg' out g
| j_print sg es vals r sg' out g :
    forallb pure es = true -> (forall e, In e es -> side XS e) -> pevals sg es = Some vals ->
    J XS (Prog r) sg sg' out g -> J XS (Prog (SPrint es :: r)) sg sg' (join [32] (map text vals) ++ [10] ++ out) g
| j_call_assign sg x f t args vals rv sg1 o r sg' out g :
    forallb pure args = true -> (forall e, In e args -> side XS e) -> In x XS -> pevals sg args = Some vals ->
    scall XS f vals sg [rv] sg1 o -> env_ok (supd sg1 x rv) ->
    J XS (Prog r) (supd sg1 x rv) sg' out g -> J XS (Prog (SAssignCall [x] (ECall f [t] args) :: r)) sg sg' (o ++ out) g
| j_call_define sg x f t args vals rv sg1 o r sg' out g :
    forallb pure args = true -> (forall e, In e args -> side XS e) -> In x XS -> pevals sg args = Some vals ->
    scall XS f vals sg [rv] sg1 o -> env_ok (supd sg1 x rv) ->
    J XS (Prog r) (supd sg1 x rv) sg' out g -> J XS (Prog (SVarDefCall [x] (ECall f [t] args) :: r)) sg sg' (o ++ out) g
| j_call_assign_multi sg xs f rets args vals rvals sg1 o r sg' out g :
    forallb pure args = true -> (forall e, In e args -> side XS e) -> (forall x, In x xs -> In x XS) -> pevals sg args = Some vals ->
    scall XS f vals sg rvals sg1 o -> length rets = length xs -> length rvals = length xs -> env_ok (assign_all sg1 xs rvals) ->
    J XS (Prog r) (assign_all sg1 xs rvals) sg' out g -> J XS (Prog (SAssignCall xs (ECall f rets args) :: r)) sg sg' (o ++ out) g
| j_call_define_multi sg xs f rets args vals rvals sg1 o r sg' out g :
    forallb pure args = true -> (forall e, In e args -> side XS e) -> (forall x, In x xs -> In x XS) -> pevals sg args = Some vals ->
    scall XS f vals sg rvals sg1 o -> length rets = length xs -> length rvals = length xs -> env_ok (assign_all sg1 xs rvals) ->
    J XS (Prog r) (assign_all sg1 xs rvals) sg' out g -> J XS (Prog (SVarDefCall xs (ECall f rets args) :: r)) sg sg' (o ++ out) g
| j_call_stmt sg f rets args vals rvals sg1 o r sg' out g :
    forallb pure args = true -> (forall e, In e args -> side XS e) -> pevals sg args = Some vals ->
    scall XS f vals sg rvals sg1 o -> env_ok sg1 ->
    J XS (Prog r) sg1 sg' out g -> J XS (Prog (SExpr (ECall f rets args) :: r)) sg sg' (o ++ out) g
| j_return sg es rvals r :
    forallb pure es = true -> (forall e, In e es -> side XS e) -> pevals sg es = Some rvals -> frag2_all r = true ->
    J XS (Prog (SReturn es :: r)) sg sg [] (SR rvals)
| j_break sg r : frag2_all r = true -> J XS (Prog (SBreak :: r)) sg sg [] SB
| j_continue sg r : frag2_all r = true -> J XS (Prog (SContinue :: r)) sg sg [] SC
| j_if_next sg c0 b0 elifs els bools sgm outm r sg' out g :
    frag2 (SIf ((c0, b0) :: elifs) els) = true -> (forall cb, In cb ((c0, b0) :: elifs) -> side XS (fst cb)) ->
    pevals sg (c0 :: map fst elifs) = Some (map VBool bools) ->
    J XS (Prog (pick bools (b0 :: map snd elifs) els)) sg sgm outm SN ->
    J XS (Prog r) sgm sg' out g ->
    J XS (Prog (SIf ((c0, b0) :: elifs) els :: r)) sg sg' (outm ++ out) g
| j_if_stop sg c0 b0 elifs els bools sgm outm r g :
    frag2 (SIf ((c0, b0) :: elifs) els) = true -> (forall cb, In cb ((c0, b0) :: elifs) -> side XS (fst cb)) ->
    pevals sg (c0 :: map fst elifs) = Some (map VBool bools) ->
    J XS (Prog (pick bools (b0 :: map snd elifs) els)) sg sgm outm g -> g <> SN -> frag2_all r = true ->
    J XS (Prog (SIf ((c0, b0) :: elifs) els :: r)) sg sgm outm g
| j_for sg init cond incr body sg1 o1 sg2 o2 r sg' out g :
    frag2 (SFor init cond incr body) = true -> side XS cond ->
    J XS (Prog (opt_list init)) sg sg1 o1 SN ->
    J XS (Loop true cond incr body) sg1 sg2 o2 SN ->
    J XS (Prog r) sg2 sg' out g ->
    J XS (Prog (SFor init cond incr body :: r)) sg sg' (o1 ++ o2 ++ out) g
| j_for_return sg init cond incr body sg1 o1 sg2 o2 rv r :
    frag2 (SFor init cond incr body) = true -> side XS cond -> frag2_all r = true ->
    J XS (Prog (opt_list init)) sg sg1 o1 SN ->
    J XS (Loop true cond incr body) sg1 sg2 o2 (SR rv) ->
    J XS (Prog (SFor init cond incr body :: r)) sg sg2 (o1 ++ o2) (SR rv)
| l_exit first cond incr body sg sg1 o1 :
    J XS (Prog (incr_of first incr)) sg sg1 o1 SN -> peval sg1 cond = Some (VBool false) ->
    J XS (Loop first cond incr body) sg sg1 o1 SN
| l_break first cond incr body sg sg1 o1 sg2 o2 :
    J XS (Prog (incr_of first incr)) sg sg1 o1 SN -> peval sg1 cond = Some (VBool true) ->
    J XS (Prog body) sg1 sg2 o2 SB ->
    J XS (Loop first cond incr body) sg sg2 (o1 ++ o2) SN
| l_next first cond incr body sg sg1 o1 sg2 o2 gb sg3 o3 g3 :
    J XS (Prog (incr_of first incr)) sg sg1 o1 SN -> peval sg1 cond = Some (VBool true) ->
    J XS (Prog body) sg1 sg2 o2 gb -> (gb = SN \/ gb = SC) ->
    J XS (Loop false cond incr body) sg2 sg3 o3 g3 ->
    J XS (Loop first cond incr body) sg sg3 (o1 ++ o2 ++ o3) g3
| l_return first cond incr body sg sg1 o1 sg2 o2 rv :
    J XS (Prog (incr_of first incr)) sg sg1 o1 SN -> peval sg1 cond = Some (VBool true) ->
    J XS (Prog body) sg1 sg2 o2 (SR rv) ->
    J XS (Loop first cond incr body) sg sg2 (o1 ++ o2) (SR rv).

Lemma J_env XS c sg sg' out g : J XS c sg sg' out g -> env_ok sg -> env_ok sg'.
Proof. induction 1; intro He; auto. Qed.

(* ---- the machine ---- *)
Definition lruns (e : shenv) (L : list (list line)) (ls : list line) (res : shenv * bytes) : Prop := exists f, lrun call pos f false e L ls = Some res.
Definition lseeks (e : shenv) (L : list (list line)) (ls : list line) (res : shenv * bytes) : Prop := exists f, lrun call pos f true e L ls = Some res.

Lemma lruns_straight P : forall e e1 o1 L rest res,
  exec_outs e P = Some (e1, o1) -> lruns e1 L rest res -> lruns e L (P ++ rest) (prepend o1 res).
Proof.
  induction P as [|l r IH]; intros e e1 o1 L rest res H Hr.
  - cbn [exec_outs] in H. inversion H; subst. destruct res as [e2 o2]. exact Hr.
  - cbn [exec_outs] in H. destruct (exec_out e l) as [[ea oa]|] eqn:El; [|discriminate].
    destruct (exec_outs ea r) as [[eb ob]|] eqn:Er; [|discriminate]. inversion H; subst; clear H.
    destruct (IH ea e1 ob L rest res Er Hr) as [f Hf]. exists (S f). cbn [app lrun].
    destruct l; try (cbn [exec_out exec_line] in El; discriminate);
      rewrite El, Hf; unfold prepend; cbn [fst snd]; rewrite app_assoc; reflexivity.
Qed.

(* what the machine must be able to do after a block that ends with a signal *)
Definition after (g : sig) (b' : shenv) (L : list (list line)) (rest : list line) (res : shenv * bytes) : Prop :=
  match g with
  | SN => lruns b' L rest res
  | SB => match L with _ :: L' => exists r', skip_done rest 0 = Some r' /\ lruns b' L' r' res | [] => False end
  | SC => match L with top :: _ => lruns b' L top res | [] => False end
  | SR _ => res = (b', [])                (* return ends the run of the function body, whatever follows *)
  end.

(* a block that ends with return leaves the returned values in the return registers *)
Definition regs (g : sig) (b' : shenv) : Prop :=
  match g with SR rvals => forall i v, nth_error rvals i = Some v -> sh_get (rv_name i) b' = text v | _ => True end.

Lemma after_skip g b' L Y rest res : g <> SN -> dclosed Y -> after g b' L rest res -> after g b' L (Y ++ rest) res.
Proof.
  intros Hg HY H. destruct g; [contradiction| |exact H|exact H]. cbn [after] in *. destruct L as [|t L']; [exact H|].
  destruct H as (r' & Hs & Hr). exists r'. split; [rewrite HY; exact Hs|exact Hr].
Qed.

Lemma lexit_tail T e L rest res : tail_ok T -> lruns e L rest res -> lruns e L (T ++ rest) res.
Proof.
  intros [_ _ T3 _ (l & r & -> & Hl)] [f Hf]. specialize (T3 rest). exists (S f). cbn [app lrun].
  destruct Hl as [->|[->|[c ->]]].
  - cbn [app skip_fi] in T3. injection T3 as T3'. rewrite T3'. exact Hf.
  - cbn [app skip_fi] in T3. rewrite T3. exact Hf.
  - cbn [app skip_fi] in T3. change (is_if (bs "elif")) with false in *. cbn iota in *. rewrite T3. exact Hf.
Qed.

Lemma after_tail g b' L T rest res : tail3 T -> after g b' L rest res -> after g b' L (T ++ rest) res.
Proof.
  intros [TO TD] H. destruct g; [exact (lexit_tail T b' L rest res TO H)|apply after_skip; [discriminate|exact TD|exact H]|exact H|exact H].
Qed.

Lemma fresh_cext XS s s' ls : cext s s' ls -> fresh_flags XS s -> fresh_flags XS s'.
Proof.
  intros E [H1 [H2 [H3 [H4 H5]]]]. split; [|split; [|split; [|split]]].
  - intros x k Hx. rewrite (user_name_cext _ _ _ x E). exact (H1 x k Hx).
  - intros x i Hx. rewrite (user_name_cext _ _ _ x E). exact (H2 x i Hx).
  - pose proof (cx_mono _ _ _ E). lia.
  - intros x c y Hx Hc. rewrite (user_name_cext _ _ _ x E). exact (H4 x c y Hx Hc).
  - intros x i Hx. rewrite (user_name_cext _ _ _ x E), (ma_var_cext _ _ _ i E). exact (H5 x i Hx).
Qed.

Definition simP (XS : list var) (sg : senv) (body : list stmt) (sg' : senv) (out : bytes) (g : sig) : Prop :=
  forall s u s' b, go_fix body s = TOk u s' -> frag2_all body = true -> env_ok sg -> ctx_ok XS sg b s -> fresh_flags XS s ->
  exists X b', cext s s' X /\ ctx_ok XS sg' b' s' /\ untouched XS s s' b b' /\
               regs g b' /\ forall L rest res, after g b' L rest res -> lruns b L (X ++ rest) (prepend out res).

Lemma all_e3 (l : list stmt) : Forall stmt_e3 l.
Proof. apply Forall_forall. intros st _. apply frag2_e3. Qed.

Lemma go_mono b : forall s u s', go_fix b s = TOk u s' -> (b_for_counter s <= b_for_counter s')%nat.
Proof.
  induction b as [|x r IH]; intros s u s' H; [mr H; apply le_n|].
  cbn [go_fix] in H. mb H as u1 s1 H1 H2. pose proof (for_counter_mono _ _ _ _ H1). pose proof (IH _ _ _ H2). lia.
Qed.

Lemma simP_nil XS sg : simP XS sg [] sg [] SN.
Proof.
  intros s u s' b Ht _ _ Hc _. mr Ht. exists [], b. split; [apply cext_refl|]. split; [exact Hc|]. split; [apply untouched_refl|].
  split; [exact I|].
  intros L rest res H. rewrite prepend_nil. exact H.
Qed.

Lemma simP_assign XS sg x e v r sg' out g :
  pure e = true -> side XS e -> In x XS -> peval sg e = Some v -> env_ok (supd sg x v) ->
  simP XS (supd sg x v) r sg' out g -> simP XS sg (SAssign [x] [e] :: r) sg' out g.
Proof.
  intros Hp Hs Hx Hv Henv' IH s u s' b Ht Hf Henv Hc Hfl.
  cbn [go_fix] in Ht. mb Ht as u1 s1 H1 H2. cbn [frag2_all] in Hf. apply andb_true_iff in Hf as [_ Hfr].
  destruct (assign_step XS sg x e s u1 s1 b v Hp H1 Hv Henv Hs Hx Hc) as (l1 & b1 & E1 & R1 & C1 & U1).
  destruct (IH s1 u s' b1 H2 Hfr Henv' C1 (fresh_cext _ _ _ _ E1 Hfl)) as (X2 & b2 & E2 & C2 & U2 & Rg & Hk).
  exists (l1 ++ X2), b2. split; [eapply cext_trans; eassumption|]. split; [exact C2|].
  split; [exact (untouched_trans XS s s1 s' l1 b b1 b2 E1 (cx_mono _ _ _ E2) U1 U2)|].
  split; [exact Rg|].
  intros L rest res H. rewrite <- app_assoc. rewrite <- (prepend_nil (prepend out res)). exact (lruns_straight l1 b b1 [] L _ _ R1 (Hk L rest res H)).
Qed.

Lemma simP_print XS sg es vals r sg' out g :
  forallb pure es = true -> (forall e, In e es -> side XS e) -> pevals sg es = Some vals ->
  simP XS sg r sg' out g -> simP XS sg (SPrint es :: r) sg' (join [32] (map text vals) ++ [10] ++ out) g.
Proof.
  intros Hp Hs Hv IH s u s' b Ht Hf Henv Hc Hfl.
  cbn [go_fix] in Ht. mb Ht as u1 s1 H1 H2. cbn [frag2_all] in Hf. apply andb_true_iff in Hf as [_ Hfr].
  destruct (print_step XS sg es s u1 s1 b vals Hp H1 Hv Henv Hs Hc) as (l1 & b1 & E1 & R1 & C1 & U1).
  destruct (IH s1 u s' b1 H2 Hfr Henv C1 (fresh_cext _ _ _ _ E1 Hfl)) as (X2 & b2 & E2 & C2 & U2 & Rg & Hk).
  exists (l1 ++ X2), b2. split; [eapply cext_trans; eassumption|]. split; [exact C2|].
  split; [exact (untouched_trans XS s s1 s' l1 b b1 b2 E1 (cx_mono _ _ _ E2) U1 U2)|].
  split; [exact Rg|].
  intros L rest res H. rewrite <- app_assoc.
  replace (prepend (join [32] (map text vals) ++ [10] ++ out) res) with (prepend (join [32] (map text vals) ++ [10]) (prepend out res))
    by (rewrite prepend_app, <- app_assoc; reflexivity).
  exact (lruns_straight l1 b b1 _ L _ _ R1 (Hk L rest res H)).
Qed.

(* ---- simultaneous assignment: every value is parked in _ma<i> before the first store ---- *)
Fixpoint ma_atoms (s : bstate) (i n : nat) : list atom :=
  match n with O => [] | S m => ARef (ma_var s i) :: ma_atoms s (S i) m end.

Lemma ma_atoms_length s : forall n i, length (ma_atoms s i n) = n.
Proof. induction n as [|n IH]; intro i; [reflexivity|]. cbn [ma_atoms length]. rewrite IH. reflexivity. Qed.

Lemma ma_atoms_in s : forall n i a, In a (ma_atoms s i n) -> exists j, a = ARef (ma_var s j).
Proof. induction n as [|n IH]; intros i a H; [destruct H|]. cbn [ma_atoms In] in H. destruct H as [<-|H]; [exists i; reflexivity|exact (IH (S i) a H)]. Qed.

Lemma ma_values s : forall (vals : list value) i b,
  (forall j v, nth_error vals j = Some v -> sh_get (ma_var s (i + j)) b = text v) ->
  map (atom_text b) (ma_atoms s i (length vals)) = map text vals.
Proof.
  induction vals as [|v vr IH]; intros i b H; [reflexivity|].
  cbn [length ma_atoms map atom_text]. rewrite <- (Nat.add_0_r i) at 1. rewrite (H 0%nat v eq_refl). f_equal.
  apply (IH (S i) b). intros j w Hj. replace (S i + j)%nat with (i + S j)%nat by lia. exact (H (S j) w Hj).
Qed.

Lemma pevals_length sg : forall es vals, pevals sg es = Some vals -> length vals = length es.
Proof.
  induction es as [|e r IH]; intros vals H; cbn [pevals] in H; [inversion H; reflexivity|].
  destruct (peval sg e); [|discriminate]. destruct (pevals sg r) as [vr|] eqn:E; [|discriminate]. inversion H; subst. cbn [length]. rewrite (IH vr eq_refl). reflexivity.
Qed.

Lemma evals_step XS : forall es i sg s vs s' b vals,
  forallb pure es = true -> eval_values bash_conv true es i s = TOk vs s' -> pevals sg es = Some vals -> env_ok sg ->
  (forall e, In e es -> side XS e) -> ctx_ok XS sg b s -> (forall x j, In x XS -> user_name s x <> ma_var s j) ->
  exists ls b', cext s s' ls /\ exec_lines b ls = Some b' /\ ctx_ok XS sg b' s' /\ vs = ma_atoms s i (length es) /\
     (forall j v, nth_error vals j = Some v -> sh_get (ma_var s (i + j)) b' = text v) /\
     (forall n, (forall k, n <> helper_name s k) -> (forall j, (i <= j)%nat -> n <> ma_var s j) -> sh_get n b' = sh_get n b).
Proof.
  induction es as [|e r IH]; intros i sg s vs s' b vals Hp H Hv Henv Hes Hc Hma.
  - cbn [eval_values] in H. mr H. cbn [pevals] in Hv. inversion Hv; subst vals. exists [], b.
    split; [apply cext_refl|]. split; [reflexivity|]. split; [exact Hc|]. split; [reflexivity|].
    split; [intros j v Hj; destruct j; discriminate|intros; reflexivity].
  - cbn [forallb] in Hp. apply andb_true_iff in Hp as [Hpe Hpr]. cbn [pevals] in Hv.
    destruct (peval sg e) as [v0|] eqn:Ev; [|discriminate]. destruct (pevals sg r) as [vr0|] eqn:Evr; [|discriminate]. inversion Hv; subst vals; clear Hv.
    cbn [eval_values] in H. mb H as ve s1 H1 H2. mb H2 as v s2 H2 H3. mb H3 as vr s3 H3 H4. mr H4.
    mb H2 as u1 s4 H2a H2b. mu H2a. subst s4. inversion H2b; subst v s2; clear H2b.
    destruct (Hes e (or_introl eq_refl)) as [Hl [Hn Hi]]. destruct Hc as [Cf Hrep Hhy Hinj].
    pose proof (expr_preserve e Hpe sg true s ve s1 b v0 H1 Ev Henv Hl (represents_incl _ _ _ _ _ Hrep Hi) (hygienic_incl _ _ _ Hhy Hi))
      as [l1 a1 b1 O1 E1 M1 R1 V1 F1 S1].
    subst ve. cbn [first_value] in *.
    change (ARef (var_name (add_line (LAssign (var_name s1 (ma_name i) false) (RAtom a1)) s1) (ma_name i) false)) with (ARef (ma_var s1 i)).
    change (var_name s1 (ma_name i) false) with (ma_var s1 i) in *.
    assert (ma_var s1 i = ma_var s i) as Hmi by exact (ma_var_ext _ _ _ i E1). rewrite Hmi in *.
    set (s2 := add_line (LAssign (ma_var s i) (RAtom a1)) s1) in *.
    set (b2 := sh_set (ma_var s i) (atom_text b1 a1) b1).
    assert (cext s s2 (l1 ++ [LAssign (ma_var s i) (RAtom a1)])) as C2
      by (eapply cext_trans; [apply cext_of_ext; [exact E1|exact (expr_mono_any _ _ _ _ _ H1)]|apply cext_line]).
    assert (ctx_ok XS sg b2 s2) as Hc2.
    { apply (ctx_cext XS _ _ s _ _ C2). constructor; [exact Cf| |exact Hhy|exact Hinj].
      intros x w Hx Hw. unfold b2. rewrite sh_get_set_other; [|exact (Hma x i Hx)].
      rewrite F1; [exact (Hrep x w Hx Hw)|]. intros k _ Heq. exact (Hhy x k Hx Heq). }
    destruct (IH (S i) sg s2 vr s' b2 vr0 Hpr H3 Evr Henv (fun e0 He0 => Hes e0 (or_intror He0)) Hc2) as (ls2 & b3 & E3 & R3 & C3 & Hvs & V3 & F3).
    { intros x j Hx. rewrite (user_name_cext _ _ _ x C2), (ma_var_cext _ _ _ j C2). exact (Hma x j Hx). }
    exists ((l1 ++ [LAssign (ma_var s i) (RAtom a1)]) ++ ls2), b3.
    split; [eapply cext_trans; eassumption|].
    split; [rewrite exec_lines_app, exec_lines_app, R1; cbn [exec_lines exec_line eval_rhs]; exact R3|].
    split; [exact C3|].
    assert (forall n k, ma_atoms s2 k n = ma_atoms s k n) as Hat
      by (induction n as [|n IHn]; intro k; [reflexivity|]; cbn [ma_atoms]; rewrite (ma_var_cext _ _ _ k C2), IHn; reflexivity).
    split; [cbn [length ma_atoms]; rewrite Hvs, Hat; reflexivity|].
    split.
    + intros j w Hj. destruct j as [|j].
      * cbn [nth_error] in Hj. inversion Hj; subst w. rewrite Nat.add_0_r. rewrite F3.
        -- unfold b2. rewrite sh_get_set_same. exact V1.
        -- intro k. rewrite (helper_name_cext _ _ _ k C2). apply ma_not_helper.
        -- intros j Hj0 Heq. rewrite (ma_var_cext _ _ _ j C2) in Heq. apply ma_var_inj in Heq. lia.
      * cbn [nth_error] in Hj. replace (i + S j)%nat with (S i + j)%nat by lia. rewrite <- (ma_var_cext _ _ _ (S i + j)%nat C2). exact (V3 j w Hj).
    + intros n Hh Hm. rewrite F3.
      * unfold b2. rewrite sh_get_set_other; [|apply Hm; apply le_n]. apply F1. intros k _. apply Hh.
      * intro k. rewrite (helper_name_cext _ _ _ k C2). apply Hh.
      * intros j Hj. rewrite (ma_var_cext _ _ _ j C2). apply Hm. lia.
Qed.

Lemma simP_assign_multi XS sg xs es vals r sg' out g :
  forallb pure es = true -> (forall e, In e es -> side XS e) -> (forall x, In x xs -> In x XS) -> (2 <= length xs)%nat ->
  length es = length xs -> pevals sg es = Some vals -> env_ok (assign_all sg xs vals) ->
  simP XS (assign_all sg xs vals) r sg' out g -> simP XS sg (SAssign xs es :: r) sg' out g.
Proof.
  intros Hp Hs Hxs H2x Le Hv Henv1 IH s u s' b Ht Hf Henv Hc Hfl.
  cbn [go_fix] in Ht. mb Ht as u1 sA H1 H2. cbn [frag2_all] in Hf. apply andb_true_iff in Hf as [_ Hfr].
  cbn [t_stmt] in H1. unfold assign_values in H1. rewrite Le, Nat.ltb_irrefl in H1.
  replace (firstn (length xs) es) with es in H1 by (rewrite <- Le; symmetry; apply firstn_all).
  assert ((1 <? length xs)%nat = true) as Hm by (apply Nat.ltb_lt; lia). rewrite Hm in H1.
  mb H1 as vs s1 H1 H3.
  destruct Hfl as [Fl1 [Fl2 [Fl3 [Fl4 Fl5]]]].
  destruct (evals_step XS es 0 sg s vs s1 b vals Hp H1 Hv Henv Hs Hc Fl5) as (ls1 & b1 & E1 & R1 & C1 & Hvs & V1 & F1).
  pose proof (pevals_length sg es vals Hv) as Lv. subst vs.
  assert (map (atom_text b1) (ma_atoms s 0 (length es)) = map text vals) as Hmap by (rewrite <- Lv; apply ma_values; exact V1).
  destruct (stores_step XS xs (ma_atoms s 0 (length es)) vals sg s1 u1 sA b1 H3 ltac:(rewrite ma_atoms_length; exact Le) ltac:(lia) Hxs Hmap) as (ls2 & b2 & E2 & R2 & C2 & M2 & F2).
  { intros a x Ha Hx Heq. destruct (ma_atoms_in s _ _ a Ha) as (j & ->). inversion Heq as [Hn].
    rewrite (user_name_cext _ _ _ x E1) in Hn. exact (Fl5 x j Hx (eq_sym Hn)). }
  { exact C1. }
  assert (cext s sA (ls1 ++ ls2)) as CA by (eapply cext_trans; eassumption).
  assert (fresh_flags XS s) as Hfl by (split; [exact Fl1|split; [exact Fl2|split; [exact Fl3|split; [exact Fl4|exact Fl5]]]]).
  destruct (IH sA u s' b2 H2 Hfr Henv1 C2 (fresh_cext _ _ _ _ CA Hfl)) as (X2 & b3 & E3 & C3 & U3 & Rg & Hk).
  exists ((ls1 ++ ls2) ++ X2), b3. split; [eapply cext_trans; eassumption|]. split; [exact C3|].
  split.
  { apply (untouched_trans XS s sA s' _ b b2 b3 CA (cx_mono _ _ _ E3)); [|exact U3].
    intros n Hu Hh _ _ _ Hma. rewrite F2; [|intros x Hx; rewrite (user_name_cext _ _ _ x E1); exact (Hu x (Hxs x Hx))].
    apply F1; [exact Hh|intros j _; apply Hma]. }
  split; [exact Rg|].
  intros L rest res H. rewrite <- app_assoc. rewrite <- (prepend_nil (prepend out res)).
  apply (lruns_straight (ls1 ++ ls2) b b2 [] L); [|exact (Hk L rest res H)].
  apply exec_outs_silent.
  - rewrite forallb_app, (exec_lines_no_echo ls1 b b1 R1), (exec_lines_no_echo ls2 b1 b2 R2). reflexivity.
  - rewrite exec_lines_app, R1. exact R2.
Qed.

(* ---- call statements ---- *)
Lemma lruns_call f args e e1 o1 L rest res :
  (exists f0, forall fu, (f0 <= fu)%nat -> call fu f (map (atom_text e) args) e = Some (e1, o1)) -> lruns e1 L rest res ->
  lruns e L (LCall f args :: rest) (prepend o1 res).
Proof.
  intros [f0 Hc] [n Hn]. exists (S (Nat.max n f0)). cbn [lrun]. rewrite (Hc (Nat.max n f0) (Nat.le_max_r _ _)).
  rewrite (lrun_mono call pos call_mono n false e1 L rest res Hn (Nat.max n f0) (Nat.le_max_l _ _)). destruct res; reflexivity.
Qed.

(* arguments, then the call line *)
Lemma call_args XS sg f args s va s1 b vals rvals sg1 o :
  forallb pure args = true -> args_fix args s = TOk va s1 -> pevals sg args = Some vals -> env_ok sg ->
  (forall e, In e args -> side XS e) -> ctx_ok XS sg b s -> fresh_flags XS s -> scall XS f vals sg rvals sg1 o ->
  exists l1 b2, cext s s1 l1 /\ ctx_ok XS sg1 b2 s1 /\ untouched XS s s1 b b2 /\
     (forall i v, nth_error rvals i = Some v -> sh_get (rv_name i) b2 = text v) /\
     forall L rest res, lruns b2 L rest res -> lruns b L (l1 ++ [LCall f va] ++ rest) (prepend o res).
Proof.
  intros Hp Ha Hv Henv Hes Hc Hfl Hs. pose proof (args_as_pv _ _ _ _ Hp Ha) as Ha'.
  destruct Hc as [Cf Hrep Hhy Hinj].
  destruct (print_values args sg s va s1 b vals XS Hp Ha' Hv Henv Hes Cf Hrep Hhy) as (l1 & b1 & E1 & M1 & R1 & V1 & F1 & S1 & Hok).
  assert (cext s s1 l1) as C1 by (apply cext_of_ext; [exact E1|exact (pv_mono _ _ _ _ Ha')]).
  assert (ctx_ok XS sg b1 s1) as Hc1.
  { apply (ctx_ext XS _ _ s _ _ E1). constructor; [exact Cf| |exact Hhy|exact Hinj].
    intros x w Hx Hw. rewrite F1; [exact (Hrep x w Hx Hw)|]. intros k _ Heq. exact (Hhy x k Hx Heq). }
  destruct (call_ok XS f vals sg rvals sg1 o b1 s1 Hs Henv Hc1 (fresh_cext _ _ _ _ C1 Hfl)) as (b2 & Hcall & Hc2 & U2 & Hrv).
  exists l1, b2. split; [exact C1|]. split; [exact Hc2|]. split.
  { intros n Hu Hh Hf Hm Hr Hma. rewrite U2.
    - apply F1. intros k _. apply Hh.
    - intros x Hx. rewrite (user_name_cext _ _ _ x C1). apply Hu. exact Hx.
    - intro k. rewrite (helper_name_cext _ _ _ k C1). apply Hh.
    - intros k Hk. apply Hf. pose proof (cx_mono _ _ _ C1). lia.
    - exact Hm.
    - exact Hr.
    - intro i. rewrite (ma_var_cext _ _ _ i C1). apply Hma. }
  split; [exact Hrv|].
  intros L rest res Hk. rewrite <- (prepend_nil (prepend o res)).
  apply (lruns_straight l1 b b1 [] L).
  - apply exec_outs_silent; [exact (exec_lines_no_echo l1 b b1 R1)|exact R1].
  - cbn [app]. apply (lruns_call f va b1 b2 o L rest res); [rewrite V1; exact Hcall|exact Hk].
Qed.

Lemma simP_call_stmt XS sg f rets args vals rvals sg1 o r sg' out g :
  forallb pure args = true -> (forall e, In e args -> side XS e) -> pevals sg args = Some vals ->
  scall XS f vals sg rvals sg1 o -> env_ok sg1 ->
  simP XS sg1 r sg' out g -> simP XS sg (SExpr (ECall f rets args) :: r) sg' (o ++ out) g.
Proof.
  intros Hp Hs Hv Hsc Henv1 IH s u s' b Ht Hf Henv Hc Hfl.
  cbn [go_fix] in Ht. mb Ht as u1 sA H1 H2. cbn [frag2_all] in Hf. apply andb_true_iff in Hf as [_ Hfr].
  cbn [t_stmt] in H1. mb H1 as vs0 sB H1 H3. mr H3.
  destruct (call_decompose _ _ _ _ _ _ _ H1) as (va & s1 & Ha & Hcv). cbn [andb] in Hcv. rewrite bash_call_unused in Hcv. inversion Hcv; subst vs0 sA; clear Hcv.
  destruct (call_args XS sg f args s va s1 b vals rvals sg1 o Hp Ha Hv Henv Hs Hc Hfl Hsc) as (l1 & b2 & C1 & Hc2 & U2 & _ & Hk1).
  set (sA := add_line (LCall f va) s1) in *.
  assert (cext s sA (l1 ++ [LCall f va])) as CA by (eapply cext_trans; [exact C1|apply cext_line]).
  destruct (IH sA u s' b2 H2 Hfr Henv1 (ctx_cext _ _ _ _ _ _ (cext_line _ s1) Hc2) (fresh_cext _ _ _ _ CA Hfl)) as (X2 & b3 & E2 & C3 & U3 & Rg & Hk).
  exists ((l1 ++ [LCall f va]) ++ X2), b3. split; [eapply cext_trans; eassumption|]. split; [exact C3|].
  split; [exact (untouched_trans XS s sA s' _ b b2 b3 CA (cx_mono _ _ _ E2) (untouched_gen XS s s s1 sA [] b b2 (cext_refl s) (le_n _) U2) U3)|].
  split; [exact Rg|].
  intros L rest res H. rewrite <- !app_assoc. rewrite <- prepend_app. apply Hk1. exact (Hk L rest res H).
Qed.

Lemma simP_call_assign XS sg x f t args vals rv sg1 o r sg' out g :
  forallb pure args = true -> (forall e, In e args -> side XS e) -> In x XS -> pevals sg args = Some vals ->
  scall XS f vals sg [rv] sg1 o -> env_ok (supd sg1 x rv) ->
  simP XS (supd sg1 x rv) r sg' out g -> simP XS sg (SAssignCall [x] (ECall f [t] args) :: r) sg' (o ++ out) g.
Proof.
  intros Hp Hs Hx Hv Hsc Henv1 IH s u s' b Ht Hf Henv Hc Hfl.
  cbn [go_fix] in Ht. mb Ht as u1 sA H1 H2. cbn [frag2_all] in Hf. apply andb_true_iff in Hf as [_ Hfr].
  cbn [t_stmt] in H1. unfold assign_call in H1. mb H1 as vs0 sB H1 H3.
  destruct (call_used_decompose _ _ _ _ _ _ H1) as (va & s1 & Ha & Hv0 & HsB). subst vs0.
  set (s1c := add_line (LCall f va) s1) in *.
  destruct (helper_assign (RAtom (ARef (rv_name 0))) s1c) as [ha sH] eqn:EH. cbn [snd] in HsB. subst sB.
  cbn [length Nat.eqb] in H3. cbn [store_values] in H3. mb H3 as u2 sC Hst1 Hst2. mu Hst1. mr Hst2.
  rewrite bash_var_definition in H2.
  destruct (call_args XS sg f args s va s1 b vals [rv] sg1 o Hp Ha Hv Henv Hs Hc Hfl Hsc) as (l1 & b2 & C1 & Hc2 & U2 & Hrv & Hk1).
  destruct (helper_assign_spec _ _ _ _ EH) as (_ & EHx & _).
  set (hn := helper_name s1 (b_var_counter s1)) in *.
  change (helper_name s1c (b_var_counter s1c)) with hn in EHx.
  set (xn := var_name sH (v_name x) (v_global x)).
  assert (cext s sH (l1 ++ [LCall f va] ++ [LAssign hn (RAtom (ARef (rv_name 0)))])) as CH.
  { eapply cext_trans; [exact C1|]. eapply cext_trans; [apply cext_line|]. apply cext_of_ext; [exact EHx|]. rewrite (helper_assign_forc _ _ _ _ EH). apply le_n. }
  assert (xn = user_name s x) as Hxn by (unfold xn; exact (user_name_cext _ _ _ x CH)).
  assert (hn = helper_name s (b_var_counter s1)) as Hhn by (unfold hn; exact (helper_name_cext _ _ _ _ C1)).
  set (sF := add_line (LAssign xn (RAtom (ARef hn))) sH) in *.
  assert (cext s sF ((l1 ++ [LCall f va] ++ [LAssign hn (RAtom (ARef (rv_name 0)))]) ++ [LAssign xn (RAtom (ARef hn))])) as CF
    by (eapply cext_trans; [exact CH|apply cext_line]).
  set (b3 := sh_set hn (text rv) b2).
  set (b4 := sh_set xn (text rv) b3).
  destruct Hc2 as [Cf2 Hrep2 Hhy2 Hinj2].
  assert (ctx_ok XS (supd sg1 x rv) b4 sF) as Hc4.
  { apply (ctx_cext XS (supd sg1 x rv) b4 s1 sF ([LCall f va] ++ [LAssign hn (RAtom (ARef (rv_name 0)))] ++ [LAssign xn (RAtom (ARef hn))])).
    - eapply cext_trans; [apply cext_line|]. eapply cext_trans; [apply cext_of_ext; [exact EHx|rewrite (helper_assign_forc _ _ _ _ EH); apply le_n]|apply cext_line].
    - constructor; [exact Cf2| |exact Hhy2|exact Hinj2].
      intros y w Hy Hw. unfold supd in Hw.
      assert (xn = user_name s1 x) as Hxn1 by (rewrite Hxn; symmetry; exact (user_name_cext _ _ _ x C1)).
      destruct (same_var y x) eqn:Sv.
      + inversion Hw; subst w. unfold b4. rewrite (same_var_name s1 y x Sv), <- Hxn1, sh_get_set_same. reflexivity.
      + unfold b4, b3. rewrite sh_get_set_other.
        * rewrite sh_get_set_other; [exact (Hrep2 y w Hy Hw)|]. intro Heq. exact (Hhy2 y _ Hy Heq).
        * rewrite Hxn1. intro Heq. rewrite (Hinj2 y x Hy Hx Heq) in Sv. discriminate. }
  destruct (IH sF u s' b4 H2 Hfr Henv1 Hc4 (fresh_cext _ _ _ _ CF Hfl)) as (X2 & b5 & E2 & C5 & U5 & Rg & Hk).
  exists (((l1 ++ [LCall f va] ++ [LAssign hn (RAtom (ARef (rv_name 0)))]) ++ [LAssign xn (RAtom (ARef hn))]) ++ X2), b5.
  split; [eapply cext_trans; eassumption|]. split; [exact C5|].
  split.
  { apply (untouched_trans XS s sF s' _ b b4 b5 CF (cx_mono _ _ _ E2)); [|exact U5].
    intros n Hu Hh Hf Hm Hr Hma. unfold b4, b3. rewrite sh_get_set_other; [|rewrite Hxn; intro Heq; exact (Hu x Hx Heq)].
    rewrite sh_get_set_other; [|rewrite Hhn; intro Heq; exact (Hh _ Heq)]. apply (untouched_gen XS s s s1 sF [] b b2 (cext_refl s)); [unfold sF; cbn [add_line b_for_counter]; rewrite (helper_assign_forc _ _ _ _ EH); apply le_n|exact U2| | | | | |]; assumption. }
  split; [exact Rg|].
  intros L rest res H. rewrite <- !app_assoc. rewrite <- prepend_app. apply Hk1.
  rewrite <- (prepend_nil (prepend out res)).
  apply (lruns_straight [LAssign hn (RAtom (ARef (rv_name 0))); LAssign xn (RAtom (ARef hn))] b2 b4 [] L); [|exact (Hk L rest res H)].
  cbn [exec_outs exec_out exec_line eval_rhs atom_text]. rewrite (Hrv 0%nat rv eq_refl). fold b3. unfold b4. replace (sh_get hn b3) with (text rv) by (unfold b3; rewrite sh_get_set_same; reflexivity). reflexivity.
Qed.

Lemma simP_call_define XS sg x f t args vals rv sg1 o r sg' out g :
  forallb pure args = true -> (forall e, In e args -> side XS e) -> In x XS -> pevals sg args = Some vals ->
  scall XS f vals sg [rv] sg1 o -> env_ok (supd sg1 x rv) ->
  simP XS (supd sg1 x rv) r sg' out g -> simP XS sg (SVarDefCall [x] (ECall f [t] args) :: r) sg' (o ++ out) g.
Proof.
  intros Hp Hs Hx Hv Hsc Henv1 IH s u s' b Ht Hf. 
  exact (simP_call_assign XS sg x f t args vals rv sg1 o r sg' out g Hp Hs Hx Hv Hsc Henv1 IH s u s' b Ht Hf).
Qed.

(* several results: x, y = f(args) *)
Lemma call_multi_decompose f rets args s vs s' :
  t_expr bash_conv (ECall f rets args) true s = TOk vs s' ->
  exists va s1, args_fix args s = TOk va s1 /\
     vs = copy_atoms (add_line (LCall f va) s1) (b_var_counter s1) (length rets) /\
     cext (add_line (LCall f va) s1) s' (copy_lines (add_line (LCall f va) s1) (b_var_counter s1) 0 (length rets)).
Proof.
  intro H. destruct (call_decompose _ _ _ _ _ _ _ H) as (va & s1 & Ha & Hcv). exists va, s1. split; [exact Ha|].
  assert (cv_func_call bstate atom bash_conv f va rets true s1 =
          (let '(vals, s2, _) := fold_left (fun (acc : list atom * bstate * nat) (_ : vtype) =>
                 let '(vs, st, i) := acc in let '(h, st') := helper_assign (RAtom (ARef (rv_name i))) st in (vs ++ [h], st', S i)) rets ([], add_line (LCall f va) s1, 0%nat) in (vals, s2))) as E by reflexivity.
  destruct (copies_fold rets [] (add_line (LCall f va) s1) 0%nat) as (s2 & j & Hf & E2).
  rewrite Hf in E. cbn [app] in E. rewrite E in Hcv. cbn [fst andb] in Hcv. rewrite copy_atoms_length, Nat.eqb_refl in Hcv. cbn [negb] in Hcv.
  inversion Hcv; subst vs s'. split; [reflexivity|exact E2].
Qed.

Lemma copy_atoms_in st : forall n k a, In a (copy_atoms st k n) -> exists j, a = ARef (helper_name st j).
Proof.
  induction n as [|n IH]; intros k a H; [destruct H|]. cbn [copy_atoms In] in H. destruct H as [<-|H]; [exists k; reflexivity|exact (IH (S k) a H)].
Qed.

Lemma copy_lines_no_echo st : forall n k i, forallb no_echo (copy_lines st k i n) = true.
Proof. induction n as [|n IH]; intros k i; [reflexivity|]. cbn [copy_lines forallb]. rewrite IH. reflexivity. Qed.

Lemma simP_call_assign_multi XS sg xs f rets args vals rvals sg1 o r sg' out g :
  forallb pure args = true -> (forall e, In e args -> side XS e) -> (forall x, In x xs -> In x XS) -> pevals sg args = Some vals ->
  scall XS f vals sg rvals sg1 o -> length rets = length xs -> length rvals = length xs -> env_ok (assign_all sg1 xs rvals) ->
  simP XS (assign_all sg1 xs rvals) r sg' out g -> simP XS sg (SAssignCall xs (ECall f rets args) :: r) sg' (o ++ out) g.
Proof.
  intros Hp Hs Hxs Hv Hsc Lr Lv Henv1 IH s u s' b Ht Hf Henv Hc Hfl.
  cbn [go_fix] in Ht. mb Ht as u1 sA H1 H2. cbn [frag2_all] in Hf. apply andb_true_iff in Hf as [_ Hfr].
  cbn [t_stmt] in H1. unfold assign_call in H1. mb H1 as vs0 sB H1 H3.
  destruct (call_multi_decompose _ _ _ _ _ _ H1) as (va & s1 & Ha & Hv0 & EB). subst vs0.
  set (sc := add_line (LCall f va) s1) in *. set (K := b_var_counter s1) in *.
  rewrite Lr in *. rewrite copy_atoms_length, Nat.eqb_refl in H3.
  destruct (call_args XS sg f args s va s1 b vals rvals sg1 o Hp Ha Hv Henv Hs Hc Hfl Hsc) as (l1 & b2 & C1 & Hc2 & U2 & Hrv & Hk1).
  destruct (copies_exec sc (length xs) K 0 b2) as (b3 & R3 & V3 & F3).
  assert (cext s1 sB ([LCall f va] ++ copy_lines sc K 0 (length xs))) as C1B by (eapply cext_trans; [apply cext_line|exact EB]).
  assert (forall k, helper_name sc k = helper_name s1 k) as Hhn by (intro k; reflexivity).
  destruct Hc2 as [Cf2 Hrep2 Hhy2 Hinj2].
  assert (ctx_ok XS sg1 b3 sB) as Hc3.
  { apply (ctx_cext XS _ _ s1 _ _ C1B). constructor; [exact Cf2| |exact Hhy2|exact Hinj2].
    intros y w Hy Hw. rewrite F3; [exact (Hrep2 y w Hy Hw)|]. intros j _. rewrite Hhn. exact (Hhy2 y j Hy). }
  assert (map (atom_text b3) (copy_atoms sc K (length xs)) = map text rvals) as Hmap.
  { rewrite <- Lv. apply copies_values. intros j v Hj. rewrite V3; [exact (Hrv j v Hj)|].
    rewrite <- Lv. apply nth_error_Some. rewrite Hj. discriminate. }
  destruct (stores_step XS xs (copy_atoms sc K (length xs)) rvals sg1 sB u1 sA b3 H3 ltac:(apply copy_atoms_length) Lv Hxs Hmap) as (ls & b4 & E4 & R4 & C4 & M4 & F4).
  { intros a x Ha0 Hx Heq. destruct (copy_atoms_in sc _ _ a Ha0) as (j & ->). inversion Heq as [Hn]. rewrite Hhn in Hn.
    rewrite (user_name_cext _ _ _ x C1B) in Hn. exact (Hhy2 x j Hx (eq_sym Hn)). }
  { exact Hc3. }
  assert (cext s sA (l1 ++ ([LCall f va] ++ copy_lines sc K 0 (length xs)) ++ ls)) as CA
    by (eapply cext_trans; [exact C1|]; eapply cext_trans; [exact C1B|exact E4]).
  destruct (IH sA u s' b4 H2 Hfr Henv1 C4 (fresh_cext _ _ _ _ CA Hfl)) as (X2 & b5 & E2 & C5 & U5 & Rg & Hk).
  exists ((l1 ++ ([LCall f va] ++ copy_lines sc K 0 (length xs)) ++ ls) ++ X2), b5.
  split; [eapply cext_trans; eassumption|]. split; [exact C5|].
  split.
  { apply (untouched_trans XS s sA s' _ b b4 b5 CA (cx_mono _ _ _ E2)); [|exact U5].
    intros n Hu Hh Hfn Hm Hr Hma. rewrite F4; [|intros x Hx; rewrite (user_name_cext _ _ _ x (cext_trans _ _ _ _ _ C1 C1B)); exact (Hu x (Hxs x Hx))].
    rewrite F3; [|intros j _; rewrite Hhn, (helper_name_cext _ _ _ j C1); apply Hh].
    apply (untouched_gen XS s s s1 sA [] b b2 (cext_refl s)); [exact (cx_mono _ _ _ (cext_trans _ _ _ _ _ C1B E4))|exact U2| | | | | |]; assumption. }
  split; [exact Rg|].
  intros L rest res H. rewrite <- !app_assoc. rewrite <- prepend_app. apply Hk1.
  rewrite <- (prepend_nil (prepend out res)). rewrite app_assoc.
  apply (lruns_straight (copy_lines sc K 0 (length xs) ++ ls) b2 b4 [] L); [|exact (Hk L rest res H)].
  apply exec_outs_silent.
  - rewrite forallb_app, copy_lines_no_echo, (exec_lines_no_echo ls b3 b4 R4). reflexivity.
  - rewrite exec_lines_app, R3. exact R4.
Qed.

Lemma simP_call_define_multi XS sg xs f rets args vals rvals sg1 o r sg' out g :
  forallb pure args = true -> (forall e, In e args -> side XS e) -> (forall x, In x xs -> In x XS) -> pevals sg args = Some vals ->
  scall XS f vals sg rvals sg1 o -> length rets = length xs -> length rvals = length xs -> env_ok (assign_all sg1 xs rvals) ->
  simP XS (assign_all sg1 xs rvals) r sg' out g -> simP XS sg (SVarDefCall xs (ECall f rets args) :: r) sg' (o ++ out) g.
Proof.
  intros Hp Hs Hxs Hv Hsc Lr Lv Henv1 IH s u s' b Ht Hf.
  exact (simP_call_assign_multi XS sg xs f rets args vals rvals sg1 o r sg' out g Hp Hs Hxs Hv Hsc Lr Lv Henv1 IH s u s' b Ht Hf).
Qed.

(* ---- return ---- *)
Lemma return_step XS sg es s u s' b rvals :
  forallb pure es = true -> t_stmt bash_conv (SReturn es) s = TOk u s' -> pevals sg es = Some rvals -> env_ok sg ->
  (forall e, In e es -> side XS e) -> ctx_ok XS sg b s -> fresh_flags XS s ->
  exists X b', cext s s' X /\ ctx_ok XS sg b' s' /\
     (forall n, (forall k, n <> helper_name s k) -> (forall i, n <> rv_name i) -> sh_get n b' = sh_get n b) /\
     (forall i v, nth_error rvals i = Some v -> sh_get (rv_name i) b' = text v) /\
     forall L rest, lruns b L (X ++ rest) (b', []).
Proof.
  intros Hp Ht Hv Henv Hes [Cf Hrep Hhy Hinj] Hfl.
  destruct (return_decompose es s u s' Ht) as (vs & s1 & Ha & E2).
  pose proof (args_as_pv _ _ _ _ Hp Ha) as Ha'.
  destruct (print_values es sg s vs s1 b rvals XS Hp Ha' Hv Henv Hes Cf Hrep Hhy) as (l1 & b1 & E1 & M1 & R1 & V1 & F1 & S1 & Hok).
  assert (cext s s1 l1) as C1 by (apply cext_of_ext; [exact E1|exact (pv_mono _ _ _ _ Ha')]).
  assert (forall a j, In a vs -> a <> ARef (rv_name j)) as Hno.
  { intros a j Ha0 Heq. rewrite Forall_forall in S1. specialize (S1 a Ha0). subst a. cbn [atom_stable] in S1.
    destruct S1 as [(x & Hx & Hn)|(k & _ & Hn)].
    - exact (proj1 (proj2 Hfl) x j Hx (eq_sym Hn)).
    - exact (rv_not_helper s j k Hn). }
  destruct (rv_exec vs 0 b1 Hno) as (b2 & R2 & V2 & F2).
  exists (l1 ++ rv_lines vs 0 ++ [LReturn]), b2.
  split; [eapply cext_trans; [exact C1|exact E2]|].
  split.
  { apply (ctx_cext XS sg b2 s s' _ (cext_trans _ _ _ _ _ C1 E2)). constructor; [exact Cf| |exact Hhy|exact Hinj].
    intros x w Hx Hw. rewrite F2; [|intros j _; exact (proj1 (proj2 Hfl) x j Hx)].
    rewrite F1; [exact (Hrep x w Hx Hw)|]. intros k _ Heq. exact (Hhy x k Hx Heq). }
  split.
  { intros n Hh Hr. rewrite F2; [|intros j _; apply Hr]. apply F1. intros k _. apply Hh. }
  split.
  { intros i v Hi. destruct (map_nth_agree (atom_text b1) text vs rvals i v V1 Hi) as (a & Hna & Hav).
    rewrite <- Hav. exact (V2 i a Hna). }
  intros L rest. rewrite app_assoc, <- app_assoc.
  assert (exec_outs b (l1 ++ rv_lines vs 0) = Some (b2, [])) as RX.
  { apply exec_outs_silent.
    - rewrite forallb_app, (exec_lines_no_echo l1 b b1 R1), rv_lines_no_echo. reflexivity.
    - rewrite exec_lines_app, R1. exact R2. }
  replace (b2, []) with (prepend [] (b2, ([] : bytes))) by reflexivity.
  apply (lruns_straight (l1 ++ rv_lines vs 0) b b2 [] L _ _ RX).
  exists 1%nat. reflexivity.
Qed.


Lemma simP_return XS sg es rvals r :
  forallb pure es = true -> (forall e, In e es -> side XS e) -> pevals sg es = Some rvals ->
  simP XS sg (SReturn es :: r) sg [] (SR rvals).
Proof.
  intros Hp Hs Hv s u s' b Ht Hf Henv Hc Hfl.
  cbn [go_fix] in Ht. mb Ht as u1 s1 H1 H2. cbn [frag2_all] in Hf. apply andb_true_iff in Hf as [_ Hfr].
  destruct (return_step XS sg es s u1 s1 b rvals Hp H1 Hv Henv Hs Hc Hfl) as (Xr & b' & Er & Cr & Fr & Vr & Hkr).
  destruct (go_e3 r (all_e3 r) Hfr _ _ _ H2) as (X2 & E2 & _ & _).
  exists (Xr ++ X2), b'. split; [eapply cext_trans; eassumption|]. split; [exact (ctx_cext _ _ _ _ _ _ E2 Cr)|].
  split; [intros n _ Hh _ _ Hrv _; apply Fr; assumption|].
  split; [exact Vr|].
  intros L rest res H. cbn [after] in H. subst res. rewrite <- app_assoc. rewrite prepend_nil. exact (Hkr L (X2 ++ rest)).
Qed.

Lemma simP_break XS sg r : simP XS sg (SBreak :: r) sg [] SB.
Proof.
  intros s u s' b Ht Hf _ Hc _. cbn [go_fix] in Ht. mb Ht as u1 s1 H1 H2. cbn [t_stmt] in H1. rewrite bash_break in H1. inversion H1; subst; clear H1.
  cbn [frag2_all] in Hf. apply andb_true_iff in Hf as [_ Hfr].
  destruct (go_e3 r (all_e3 r) Hfr _ _ _ H2) as (Xr & Er & [_ Dr] & _).
  assert (cext s s' ([LBreak] ++ Xr)) as E by (eapply cext_trans; [apply cext_line|exact Er]).
  exists ([LBreak] ++ Xr), b. split; [exact E|]. split; [exact (ctx_cext _ _ _ _ _ _ E Hc)|]. split; [apply untouched_refl|].
  split; [exact I|].
  intros L rest res H. cbn [after] in H. destruct L as [|t L']; [contradiction|]. destruct H as (r' & Hs & [f Hr]).
  rewrite prepend_nil. exists (S f). cbn [app lrun]. rewrite Dr, Hs. exact Hr.
Qed.

Lemma simP_continue XS sg r : simP XS sg (SContinue :: r) sg [] SC.
Proof.
  intros s u s' b Ht Hf _ Hc _. cbn [go_fix] in Ht. mb Ht as u1 s1 H1 H2. cbn [t_stmt] in H1. rewrite bash_continue in H1. inversion H1; subst; clear H1.
  cbn [frag2_all] in Hf. apply andb_true_iff in Hf as [_ Hfr].
  destruct (go_e3 r (all_e3 r) Hfr _ _ _ H2) as (Xr & Er & _ & _).
  assert (cext s s' ([LContinue] ++ Xr)) as E by (eapply cext_trans; [apply cext_line|exact Er]).
  exists ([LContinue] ++ Xr), b. split; [exact E|]. split; [exact (ctx_cext _ _ _ _ _ _ E Hc)|]. split; [apply untouched_refl|].
  split; [exact I|].
  intros L rest res H. cbn [after] in H. destruct L as [|t L']; [contradiction|]. destruct H as [f Hr].
  rewrite prepend_nil. exists (S f). cbn [app lrun]. exact Hr.
Qed.

(* ---- conditionals on the machine with loops ---- *)
Lemma expr_mono e s vs s' : t_expr bash_conv e true s = TOk vs s' -> (b_for_counter s <= b_for_counter s')%nat.
Proof.
  intro H. assert (t_stmt bash_conv (SPanic e) s = TOk tt (cv_panic bstate atom bash_conv (first_value bash_conv vs) s')) as Hp
    by (cbn [t_stmt]; unfold mbind; rewrite H; reflexivity).
  pose proof (for_counter_mono _ _ _ _ Hp) as M. rewrite bash_panic in M. exact M.
Qed.

Lemma conds_mono elifs : forall s cs s', conds_fix elifs s = TOk cs s' -> (b_for_counter s <= b_for_counter s')%nat.
Proof.
  induction elifs as [|[c b] r IH]; intros s cs s' H; [mr H; apply le_n|].
  cbn [conds_fix] in H. mb H as vc s1 H1 H2. mb H2 as vr s2 H2 H3. mr H3. pose proof (expr_mono _ _ _ _ H1). pose proof (IH _ _ _ H2). lia.
Qed.

Lemma tb_mono b s u s' : tb b s = TOk u s' -> (b_for_counter s <= b_for_counter s')%nat.
Proof. intro H. destruct b as [|x r]; [unfold tb in H; mu H; subst; apply le_n|exact (go_mono (x :: r) s u s' H)]. Qed.

Lemma lrun_body XS sg body sgm outm g s u s1 b :
  tb body s = TOk u s1 -> frag2_all body = true -> simP XS sg body sgm outm g -> env_ok sg -> ctx_ok XS sg b s -> fresh_flags XS s ->
  exists B b', cext s s1 B /\ cl3 B /\ ctx_ok XS sgm b' s1 /\ untouched XS s s1 b b' /\
               regs g b' /\ forall L rest res, after g b' L rest res -> lruns b L (B ++ rest) (prepend outm res).
Proof.
  intros Ht Hf Hsim Henv Hc Hfl. destruct body as [|x r].
  - unfold tb in Ht. mu Ht. subst s1. destruct (Hsim s tt s b eq_refl eq_refl Henv Hc Hfl) as (X & b' & Ex & Cc & U & Rg & Hk).
    assert (X = []) as -> by (pose proof (cx_code _ _ _ Ex) as Cx; rewrite <- (app_nil_r (b_code s)) in Cx at 1; apply app_inv_head in Cx; symmetry; exact Cx).
    exists [LNop], b'. split; [apply cext_line|]. split; [apply cl3_plain; reflexivity|].
    split; [exact (ctx_cext _ _ _ _ _ _ (cext_line LNop s) Cc)|]. split; [exact U|].
    split; [exact Rg|].
    intros L rest res Hr. destruct (Hk L rest res Hr) as [f Hf']. exists (S f). exact Hf'.
  - destruct (go_e3 (x :: r) (all_e3 _) Hf s u s1 Ht) as (B & EB & CB & _).
    destruct (Hsim s u s1 b Ht Hf Henv Hc Hfl) as (X & b' & Ex & Cc & U & Rg & Hk).
    assert (X = B) as -> by exact (code_same_cext _ _ _ _ (cx_code _ _ _ Ex) EB).
    exists B, b'. split; [exact EB|]. split; [exact CB|]. split; [exact Cc|]. split; [exact U|]. split; [exact Rg|exact Hk].
Qed.

Lemma lwalk_else XS sg sgm outm g els s s1 b :
  else_part els s = TOk tt s1 -> frag2_all els = true -> simP XS sg els sgm outm g -> env_ok sg -> ctx_ok XS sg b s -> fresh_flags XS s ->
  exists T b', cext s (add_line LFi s1) T /\ tail3 T /\ ctx_ok XS sgm b' (add_line LFi s1) /\ untouched XS s (add_line LFi s1) b b' /\
               regs g b' /\ forall L rest res, after g b' L rest res -> lseeks b L (T ++ rest) (prepend outm res).
Proof.
  intros He Hf Hsim Henv Hc Hfl. destruct els as [|x r].
  - mr He. destruct (Hsim s1 tt s1 b eq_refl eq_refl Henv Hc Hfl) as (X & b' & Ex & Cc & U & Rg & Hk).
    assert (X = []) as -> by (pose proof (cx_code _ _ _ Ex) as Cx; rewrite <- (app_nil_r (b_code s1)) in Cx at 1; apply app_inv_head in Cx; symmetry; exact Cx).
    exists [LFi], b'. split; [apply cext_line|]. split; [apply tail3_fi|].
    split; [exact (ctx_cext _ _ _ _ _ _ (cext_line LFi s1) Cc)|]. split; [exact U|].
    split; [exact Rg|].
    intros L rest res Hr. destruct (Hk L rest res Hr) as [f Hf']. exists (S f). exact Hf'.
  - unfold else_part in He. mb He as u1 s2 H1 H2. rewrite bash_else_start in H1. inversion H1; subst; clear H1.
    assert (ctx_ok XS sg b (add_line LElse s)) as Hc1 by exact (ctx_cext _ _ _ _ _ _ (cext_line LElse s) Hc).
    assert (fresh_flags XS (add_line LElse s)) as Hfl1 by exact (fresh_cext _ _ _ _ (cext_line LElse s) Hfl).
    destruct (lrun_body XS sg (x :: r) sgm outm g _ tt s1 b H2 Hf Hsim Henv Hc1 Hfl1) as (B & b' & EB & CB & Cc & U & Rg & Hk).
    exists ([LElse] ++ B ++ [LFi]), b'.
    split; [eapply cext_trans; [apply cext_line|]; eapply cext_trans; [exact EB|apply cext_line]|].
    split; [apply tail3_else; exact CB|].
    split; [exact (ctx_cext _ _ _ _ _ _ (cext_line LFi s1) Cc)|].
    split; [exact (untouched_gen XS s (add_line LElse s) s1 (add_line LFi s1) [LElse] b b' (cext_line LElse s) (le_n _) U)|].
    split; [exact Rg|].
    intros L rest res Hr.
    assert (after g b' L ([LFi] ++ rest) res) as Hr1 by exact (after_tail g b' L [LFi] rest res tail3_fi Hr).
    destruct (Hk L ([LFi] ++ rest) res Hr1) as [f Hf']. exists (S f). cbn [app lrun]. rewrite <- app_assoc. exact Hf'.
Qed.

Lemma lwalk XS sgm outm g els : frag2_all els = true ->
  forall elifs, frag2_branches elifs = true ->
  forall cs bools s s1 s2 sg b,
  length cs = length elifs -> length bools = length elifs ->
  bodies_fix elifs cs s = TOk tt s1 -> else_part els s1 = TOk tt s2 ->
  map (atom_text b) cs = map bool_text bools ->
  env_ok sg -> ctx_ok XS sg b s -> fresh_flags XS s ->
  simP XS sg (pick bools (map snd elifs) els) sgm outm g ->
  exists T b', cext s (add_line LFi s2) T /\ tail3 T /\ ctx_ok XS sgm b' (add_line LFi s2) /\ untouched XS s (add_line LFi s2) b b' /\
               regs g b' /\ forall L rest res, after g b' L rest res -> lseeks b L (T ++ rest) (prepend outm res).
Proof.
  intros Hfe. induction elifs as [|[c body] r IH]; intros Hf cs bools s s1 s2 sg b Lc Lb Hb He Ht Henv Hc Hfl Hsim.
  - mr Hb. destruct bools; [|discriminate]. cbn [pick map] in Hsim. exact (lwalk_else XS sg sgm outm g els _ _ b He Hfe Hsim Henv Hc Hfl).
  - destruct cs as [|v vr]; [discriminate|]. destruct bools as [|t ts]; [discriminate|].
    cbn [frag2_branches fst snd] in Hf. apply andb_true_iff in Hf as [Hf1 Hfr]. apply andb_true_iff in Hf1 as [_ Hfb].
    destruct (bodies_step c body r v vr s tt s1 Hb) as (sm & Hm & Hrest).
    cbn [map] in Ht. injection Ht as Hv Hvr. cbn [length] in Lc, Lb. injection Lc as Lc. injection Lb as Lb.
    set (se := add_line (LIf (bs "elif") v) s) in *.
    assert (cext s se [LIf (bs "elif") v]) as Ese by apply cext_line.
    assert (ctx_ok XS sg b se) as Hc1 by exact (ctx_cext _ _ _ _ _ _ Ese Hc).
    assert (fresh_flags XS se) as Hfl1 by exact (fresh_cext _ _ _ _ Ese Hfl).
    destruct t.
    + cbn [pick map snd] in Hsim.
      destruct (lrun_body XS sg body sgm outm g _ tt sm b Hm Hfb Hsim Henv Hc1 Hfl1) as (B & b' & EB & CB & Cc & U & Rg & Hk).
      assert (Forall (fun cb => Forall stmt_e3 (snd cb)) r) as HFr by (apply Forall_forall; intros cb _; apply all_e3).
      destruct (bodies_tail3 r HFr Hfr els (all_e3 els) Hfe vr sm s1 s2 Lc Hrest He) as (T & ET & CT & _).
      exists ([LIf (bs "elif") v] ++ B ++ T), b'.
      split; [eapply cext_trans; [exact Ese|]; eapply cext_trans; [exact EB|exact ET]|].
      split; [apply tail3_elif; assumption|].
      split; [exact (ctx_cext _ _ _ _ _ _ ET Cc)|].
      split; [exact (untouched_gen XS s se sm (add_line LFi s2) _ b b' Ese (cx_mono _ _ _ ET) U)|].
      split; [exact Rg|].
      intros L rest res Hr. pose proof (after_tail g b' L T rest res CT Hr) as Hr1.
      destruct (Hk L (T ++ rest) res Hr1) as [f Hf']. exists (S f). cbn [app lrun].
      rewrite (cond_of_text b v true Hv). rewrite <- app_assoc. exact Hf'.
    + cbn [pick map snd] in Hsim.
      destruct (tb_e3 body (all_e3 body) Hfb _ _ _ Hm) as (B & EB & CB & _).
      assert (ctx_ok XS sg b sm) as Hcm by exact (ctx_cext _ _ _ _ _ _ EB Hc1).
      assert (fresh_flags XS sm) as Hflm by exact (fresh_cext _ _ _ _ EB Hfl1).
      destruct (IH Hfr vr ts sm s1 s2 sg b Lc Lb Hrest He Hvr Henv Hcm Hflm Hsim) as (T & b' & ET & CT & Cc & U & Rg & Hk).
      exists ([LIf (bs "elif") v] ++ B ++ T), b'.
      split; [eapply cext_trans; [exact Ese|]; eapply cext_trans; [exact EB|exact ET]|].
      split; [apply tail3_elif; assumption|]. split; [exact Cc|].
      split.
      { assert (cext s sm ([LIf (bs "elif") v] ++ B)) as Esm by (eapply cext_trans; [exact Ese|exact EB]).
        exact (untouched_gen XS s sm (add_line LFi s2) (add_line LFi s2) _ b b' Esm (le_n _) U). }
      split; [exact Rg|].
      intros L rest res Hr. destruct (Hk L rest res Hr) as [f Hf']. exists (S f). cbn [app lrun].
      rewrite (cond_of_text b v false Hv). rewrite <- app_assoc. destruct CB as [[CB1 _] _]. rewrite CB1.
      destruct CT as [CTO _]. rewrite (t_here T CTO rest). exact Hf'.
Qed.

Lemma if_construct XS sg c0 b0 elifs els bools sgm outm g s u s1 b :
  t_stmt bash_conv (SIf ((c0, b0) :: elifs) els) s = TOk u s1 ->
  frag2 (SIf ((c0, b0) :: elifs) els) = true -> (forall cb, In cb ((c0, b0) :: elifs) -> side XS (fst cb)) ->
  pevals sg (c0 :: map fst elifs) = Some (map VBool bools) ->
  simP XS sg (pick bools (b0 :: map snd elifs) els) sgm outm g ->
  env_ok sg -> ctx_ok XS sg b s -> fresh_flags XS s ->
  exists XI b1, cext s s1 XI /\ ctx_ok XS sgm b1 s1 /\ untouched XS s s1 b b1 /\
                regs g b1 /\ forall L rest res, after g b1 L rest res -> lruns b L (XI ++ rest) (prepend outm res).
Proof.
  intros H1 Hfrag Hside Hv IHch Henv Hc Hfl.
  destruct (if_decompose c0 b0 elifs els s u s1 H1) as (v0 & s0 & cs & sc & sb0 & sch & sel & E0 & Ec & Eb0 & Ech & Eel & ->).
  rewrite frag2_if in Hfrag. apply andb_true_iff in Hfrag as [Hf Hfe]. apply andb_true_iff in Hf as [Hf Hfb]. apply andb_true_iff in Hf as [Hp0 Hf0].
  assert (conds_fix ((c0, b0) :: elifs) s = TOk (first_value bash_conv v0 :: cs) sc) as Econds
    by (cbn [conds_fix]; unfold mbind; rewrite E0, Ec; reflexivity).
  assert (forall cb, In cb elifs -> pure (fst cb) = true) as Hpr.
  { clear -Hfb. induction elifs as [|x r IH]; intros cb Hin; [destruct Hin|]. cbn [frag2_branches] in Hfb.
    apply andb_true_iff in Hfb as [H1 Hr]. apply andb_true_iff in H1 as [Hp _]. destruct Hin as [->|Hin]; [exact Hp|exact (IH Hr cb Hin)]. }
  assert (forall cb, In cb ((c0, b0) :: elifs) -> pure (fst cb) = true) as Hpure by (intros cb [<-|Hin]; [exact Hp0|exact (Hpr cb Hin)]).
  pose proof (conds_as_pv _ _ _ _ Hpure Econds) as Epv.
  destruct Hc as [Cf Cr Ch Ci].
  assert (forall e, In e (map fst ((c0, b0) :: elifs)) -> lits_ok e /\ lits_neutral e = true /\ incl (vars_of e) XS) as Hsides
    by (intros e He; destruct (in_map_fst _ e He) as (cb & Hin & <-); exact (Hside cb Hin)).
  destruct (print_values (map fst ((c0, b0) :: elifs)) sg s _ sc b (map VBool bools) XS (forallb_pure_map _ Hpure) Epv Hv Henv Hsides Cf Cr Ch)
    as (Lc & bc & ELc & Mc & Rc & Vc & Fc & _ & _).
  destruct (conds_e3 elifs _ _ _ Ec) as [_ Lcs].
  destruct bools as [|t0 ts]; [discriminate|]. cbn [map] in Vc. injection Vc as V0 Vts. rewrite text_bool in V0.
  assert (map (atom_text bc) cs = map bool_text ts) as Vts'.
  { rewrite Vts. clear. induction ts as [|t r IH]; [reflexivity|]. cbn [map]. rewrite text_bool, IH. reflexivity. }
  assert (length ts = length elifs) as Lts by (rewrite <- Lcs; rewrite <- (map_length (atom_text bc) cs), Vts', map_length; reflexivity).
  assert (cext s sc Lc) as CLc by (apply cext_of_ext; [exact ELc|pose proof (expr_mono _ _ _ _ E0); pose proof (conds_mono _ _ _ _ Ec); lia]).
  assert (forall sx, untouched XS s sx b bc) as Uc by (intros sx n _ Hh _ _ _ _; apply Fc; intros k _; apply Hh).
  assert (ctx_ok XS sg bc sc) as Hcc.
  { apply (ctx_ext XS sg bc s sc Lc ELc). constructor; [exact Cf| |exact Ch|exact Ci].
    apply (represents_frame sg b bc s XS (b_var_counter s) Cr Ch). intros n Hn. apply Fc. intros k Hk. apply Hn. lia. }
  set (a0 := first_value bash_conv v0) in *.
  set (sI := add_line (LIf (bs "if") a0) sc) in *.
  assert (cext s sI (Lc ++ [LIf (bs "if") a0])) as EsI by (eapply cext_trans; [exact CLc|apply cext_line]).
  assert (ctx_ok XS sg bc sI) as HcI by exact (ctx_cext _ _ _ _ _ _ (cext_line _ sc) Hcc).
  assert (fresh_flags XS sI) as HflI by exact (fresh_cext _ _ _ _ EsI Hfl).
  assert (b_for_counter s <= b_for_counter sI)%nat as MI by (pose proof (expr_mono _ _ _ _ E0); pose proof (conds_mono _ _ _ _ Ec); unfold sI; cbn [add_line b_for_counter]; lia).
  assert (exec_outs b Lc = Some (bc, [])) as RLc by exact (exec_outs_silent Lc b bc (exec_lines_no_echo Lc b bc Rc) Rc).
  assert (Forall (fun cb => Forall stmt_e3 (snd cb)) elifs) as HFr by (apply Forall_forall; intros cb _; apply all_e3).
  destruct t0.
  - cbn [pick map snd] in IHch.
    destruct (lrun_body XS sg b0 sgm outm g _ tt sb0 bc Eb0 Hf0 IHch Henv HcI HflI) as (B0 & b1 & EB0 & CB0 & Cc1 & U1 & Rg0 & Hk0).
    destruct (bodies_tail3 elifs HFr Hfb els (all_e3 els) Hfe cs sb0 sch sel Lcs Ech Eel) as (T & ET & CT & _).
    exists (Lc ++ [LIf (bs "if") a0] ++ B0 ++ T), b1.
    split; [eapply cext_trans; [exact CLc|]; eapply cext_trans; [apply cext_line|]; eapply cext_trans; [exact EB0|exact ET]|].
    split; [exact (ctx_cext _ _ _ _ _ _ ET Cc1)|].
    split; [exact (untouched_trans XS s sI _ _ b bc b1 EsI (Nat.le_trans _ _ _ (cx_mono _ _ _ EB0) (cx_mono _ _ _ ET)) (Uc sI) (untouched_gen XS sI sI sb0 _ [] bc b1 (cext_refl sI) (cx_mono _ _ _ ET) U1))|].
    split; [exact Rg0|].
    intros L rest res Hr. pose proof (after_tail g b1 L T rest res CT Hr) as Hr1.
    destruct (Hk0 L (T ++ rest) res Hr1) as [f Hf'].
    assert (lruns bc L (([LIf (bs "if") a0] ++ B0 ++ T) ++ rest) (prepend outm res)) as HrI.
    { exists (S f). cbn [app lrun]. change (is_if (bs "if")) with true. cbn iota. rewrite (cond_of_text bc a0 true V0). rewrite <- app_assoc. exact Hf'. }
    rewrite <- app_assoc. rewrite <- (prepend_nil (prepend outm res)). exact (lruns_straight Lc b bc [] L _ _ RLc HrI).
  - cbn [pick map snd] in IHch.
    destruct (tb_e3 b0 (all_e3 b0) Hf0 _ _ _ Eb0) as (B0 & EB0 & CB0 & _).
    assert (ctx_ok XS sg bc sb0) as Hcb by exact (ctx_cext _ _ _ _ _ _ EB0 HcI).
    assert (fresh_flags XS sb0) as Hflb by exact (fresh_cext _ _ _ _ EB0 HflI).
    destruct (lwalk XS sgm outm g els Hfe elifs Hfb cs ts sb0 sch sel sg bc Lcs Lts Ech Eel Vts' Henv Hcb Hflb IHch) as (T & b1 & ET & CT & Cc1 & U1 & RgT & HkT).
    exists (Lc ++ [LIf (bs "if") a0] ++ B0 ++ T), b1.
    split; [eapply cext_trans; [exact CLc|]; eapply cext_trans; [apply cext_line|]; eapply cext_trans; [exact EB0|exact ET]|].
    split; [exact Cc1|].
    split.
    { assert (cext s sb0 ((Lc ++ [LIf (bs "if") a0]) ++ B0)) as Esb by (eapply cext_trans; [exact EsI|exact EB0]).
      exact (untouched_trans XS s sb0 _ _ b bc b1 Esb (cx_mono _ _ _ ET) (Uc sb0) U1). }
    split; [exact RgT|].
    intros L rest res Hr. destruct (HkT L rest res Hr) as [f Hf'].
    assert (lruns bc L (([LIf (bs "if") a0] ++ B0 ++ T) ++ rest) (prepend outm res)) as HrI.
    { exists (S f). cbn [app lrun]. change (is_if (bs "if")) with true. cbn iota. rewrite (cond_of_text bc a0 false V0).
      rewrite <- app_assoc. destruct CB0 as [[CB1 _] _]. rewrite CB1. destruct CT as [CTO _]. rewrite (t_here T CTO rest). exact Hf'. }
    rewrite <- app_assoc. rewrite <- (prepend_nil (prepend outm res)). exact (lruns_straight Lc b bc [] L _ _ RLc HrI).
Qed.

(* ---- loops ---- *)
Lemma go_single st s s' : t_stmt bash_conv st s = TOk tt s' -> go_fix [st] s = TOk tt s'.
Proof. intro H. cbn [go_fix]. unfold mbind. rewrite H. reflexivity. Qed.

Lemma go_opt init s si :
  (match init with Some i => t_stmt bash_conv i s | None => TOk tt s end) = TOk tt si -> go_fix (opt_list init) s = TOk tt si.
Proof. destruct init as [i|]; intro H; [exact (go_single i s si H)|exact H]. Qed.

Lemma frag2_simple st : simple_stmt st = true -> frag2_all [st] = true.
Proof.
  intro H. cbn [frag2_all]. rewrite andb_true_r. destruct st; try discriminate; cbn [simple_stmt] in H; cbn [frag2];
    destruct vars as [|x [|? ?]]; try discriminate; destruct vals as [|e [|? ?]]; try discriminate; exact H.
Qed.

Lemma frag2_opt o : simple_opt o = true -> frag2_all (opt_list o) = true.
Proof. destruct o as [st|]; intro H; [exact (frag2_simple st H)|reflexivity]. Qed.

Lemma flag_set_set f v e : flag_set (sh_set f v e) f = match v with [] => false | _ => true end.
Proof. unfold flag_set. rewrite sh_get_set_same. reflexivity. Qed.

Lemma ctx_set_flag XS sg b s k v : fresh_flags XS s -> ctx_ok XS sg b s -> ctx_ok XS sg (sh_set (fname k) v b) s.
Proof.
  intros Hfl [A B C D]. constructor; [exact A| |exact C|exact D].
  intros x w Hx Hw. rewrite sh_get_set_other; [exact (B x w Hx Hw)|exact (proj1 Hfl x k Hx)].
Qed.

Lemma untouched_set_flag XS s s' k v b : (b_for_counter s <= k < b_for_counter s')%nat -> untouched XS s s' b (sh_set (fname k) v b).
Proof. intros Hk n _ _ Hf _ _ _. rewrite sh_get_set_other; [reflexivity|apply (Hf k); right; exact Hk]. Qed.

Lemma for_start_cext si : cext si (cv_for_start bstate atom bash_conv si) [LForInit (flag_of si); LWhile].
Proof. rewrite bash_for_start. constructor; cbn [add_line b_code b_funcs b_func_counter b_for_counter]; [rewrite <- app_assoc; reflexivity|reflexivity|reflexivity|lia]. Qed.

Lemma for_start_counter si : b_for_counter (cv_for_start bstate atom bash_conv si) = S (b_for_counter si).
Proof. rewrite bash_for_start. reflexivity. Qed.

(* the increment part at the top of a round *)
Lemma round_incr XS first incr sg sg1 o1 si sn b :
  incr_part incr (cv_for_start bstate atom bash_conv si) = TOk tt sn -> simple_opt incr = true ->
  simP XS sg (incr_of first incr) sg1 o1 SN -> env_ok sg ->
  ctx_ok XS sg b (cv_for_start bstate atom bash_conv si) -> fresh_flags XS si ->
  (incr <> None -> flag_set b (fname (b_for_counter si)) = negb first) ->
  exists Rn bF, cext (cv_for_start bstate atom bash_conv si) sn Rn /\ cl3 Rn /\ ctx_ok XS sg1 bF sn /\ untouched XS si sn b bF /\
                (b_for_counter si < b_for_counter sn)%nat /\
                (incr <> None -> flag_set bF (fname (b_for_counter si)) = true) /\
                forall L rest res, lruns bF L rest res -> lruns b L (Rn ++ rest) (prepend o1 res).
Proof.
  intros En Hs Hsim Henv Hc Hfl Hflag.
  set (sf := cv_for_start bstate atom bash_conv si) in *.
  assert (fresh_flags XS sf) as Hflf by exact (fresh_cext _ _ _ _ (for_start_cext si) Hfl).
  destruct incr as [st|]; unfold incr_part in En.
  - mb En as u1 s1 H1 H2. rewrite bash_for_incr_start in H1. unfold sf in H1. rewrite current_flag_after_start in H1. inversion H1; subst s1; clear H1.
    fold sf in H2. mb H2 as u2 s2 H2 H3. destruct u2.
    set (f := flag_of si) in *. set (sg0 := add_line (LIncrGuard f) sf) in *.
    destruct (simple_stmt_e3 st _ tt s2 Hs H2) as (Bi & EBi & CBi & FBi).
    rewrite bash_for_incr_end in H3. unfold current_flag in H3. rewrite FBi in H3. unfold sg0, sf in H3. cbn [add_line b_fors] in H3.
    rewrite rev_app_distr in H3. cbn [rev app] in H3. inversion H3; subst sn; clear H3.
    fold (fname (b_for_counter si)) in *. change (flag_of si) with (fname (b_for_counter si)) in f.
    assert (cext sf sg0 [LIncrGuard f]) as Eg by apply cext_line.
    assert (ctx_ok XS sg b sg0) as Hc0 by exact (ctx_cext _ _ _ _ _ _ Eg Hc).
    assert (fresh_flags XS sg0) as Hfl0 by exact (fresh_cext _ _ _ _ Eg Hflf).
    assert (b_for_counter si < b_for_counter s2)%nat as Mc.
    { pose proof (for_counter_mono _ _ _ _ H2) as M. simpl b_for_counter in M. lia. }
    specialize (Hflag ltac:(discriminate)).
    destruct first; cbn [incr_of opt_list negb] in *.
    + (* first round: the guard skips the increment *)
      destruct (Hsim sg0 tt sg0 b eq_refl eq_refl Henv Hc0 Hfl0) as (X & b1 & Ex & Cc & U & Rg & Hk).
      assert (X = []) as -> by (pose proof (cx_code _ _ _ Ex) as Cx; rewrite <- (app_nil_r (b_code sg0)) in Cx at 1; apply app_inv_head in Cx; symmetry; exact Cx).
      exists ([LIncrGuard f] ++ Bi ++ [LFi; LFlagSet f]), (sh_set f (bs "1") b1).
      assert (cext sg0 (add_line (LFlagSet f) (add_line LFi s2)) (Bi ++ [LFi; LFlagSet f])) as E2 by (eapply cext_trans; [exact EBi|apply cext_lines2]).
      split; [eapply cext_trans; [exact Eg|exact E2]|]. split; [apply cl3_incr; exact CBi|].
      split; [apply ctx_set_flag; [exact (fresh_cext _ _ _ _ E2 Hfl0)|exact (ctx_cext _ _ _ _ _ _ E2 Cc)]|].
      split.
      { apply (untouched_compose XS si _ b b1).
        - refine (untouched_gen XS si sg0 _ _ _ b b1 (cext_trans _ _ _ _ _ (for_start_cext si) Eg) _ U). cbn [add_line b_for_counter]. assert (b_for_counter sg0 = S (b_for_counter si)) as Es by reflexivity. lia.
        - apply untouched_set_flag. cbn [add_line b_for_counter]. lia. }
      split; [cbn [add_line b_for_counter]; exact Mc|]. split; [intros _; apply flag_set_set|].
      intros L rest res [fu Hr]. destruct (Hk L ([LFlagSet f] ++ rest) (prepend [] res)) as [f2 Hf2].
      { cbn [after]. rewrite prepend_nil. exists (S fu). cbn [app lrun]. exact Hr. }
      cbn [app] in Hf2. rewrite prepend_nil in Hf2.
      exists (S f2). cbn [app lrun].
      assert (flag_set b f = false) as Hfs by exact Hflag. rewrite Hfs.
      rewrite <- app_assoc. destruct CBi as [[_ CB2] _]. rewrite CB2. cbn [app skip_fi]. exact Hf2.
    + (* later rounds: the increment runs *)
      destruct (Hsim sg0 tt s2 b (go_single st sg0 s2 H2) (frag2_simple st Hs) Henv Hc0 Hfl0) as (X & b1 & Ex & Cc & U & Rg & Hk).
      assert (X = Bi) as -> by exact (code_same_cext _ _ _ _ (cx_code _ _ _ Ex) EBi).
      exists ([LIncrGuard f] ++ Bi ++ [LFi; LFlagSet f]), (sh_set f (bs "1") b1).
      assert (cext s2 (add_line (LFlagSet f) (add_line LFi s2)) [LFi; LFlagSet f]) as E3 by apply cext_lines2.
      split; [eapply cext_trans; [exact Eg|]; eapply cext_trans; [exact EBi|exact E3]|]. split; [apply cl3_incr; exact CBi|].
      split; [apply ctx_set_flag; [exact (fresh_cext _ _ _ _ E3 (fresh_cext _ _ _ _ EBi Hfl0))|exact (ctx_cext _ _ _ _ _ _ E3 Cc)]|].
      split.
      { apply (untouched_compose XS si _ b b1).
        - refine (untouched_gen XS si sg0 _ _ _ b b1 (cext_trans _ _ _ _ _ (for_start_cext si) Eg) _ U). cbn [add_line b_for_counter]. assert (b_for_counter sg0 = S (b_for_counter si)) as Es by reflexivity. lia.
        - apply untouched_set_flag. cbn [add_line b_for_counter]. lia. }
      split; [cbn [add_line b_for_counter]; exact Mc|]. split; [intros _; apply flag_set_set|].
      intros L rest res [fu Hr]. destruct (Hk L ([LFi; LFlagSet f] ++ rest) res) as [f2 Hf2].
      { cbn [after]. exists (S (S fu)). cbn [app lrun]. exact Hr. }
      exists (S f2). cbn [app lrun]. assert (flag_set b f = true) as Hfs by exact Hflag. rewrite Hfs. rewrite <- app_assoc. exact Hf2.
  - (* no increment clause *)
    mr En. assert (incr_of first None = []) as Ei by (destruct first; reflexivity). rewrite Ei in Hsim.
    destruct (Hsim sf tt sf b eq_refl eq_refl Henv Hc Hflf) as (X & b1 & Ex & Cc & U & Rg & Hk).
    assert (X = []) as -> by (pose proof (cx_code _ _ _ Ex) as Cx; rewrite <- (app_nil_r (b_code sf)) in Cx at 1; apply app_inv_head in Cx; symmetry; exact Cx).
    exists [], b1. split; [apply cext_refl|]. split; [apply cl3_nil|]. split; [exact Cc|].
    split; [exact (untouched_gen XS si sf sf sf _ b b1 (for_start_cext si) (le_n _) U)|].
    split; [unfold sf; rewrite for_start_counter; lia|]. split; [intro H; contradiction|].
    intros L rest res Hr. exact (Hk L rest res Hr).
Qed.

(* the translation of one loop, fixed while its rounds are executed *)
Record loopT (cond : expr) (incr : option stmt) (body : list stmt) (si sn sc sd : bstate) (vc : list atom) : Prop := mkLoopT {
  lt_incr : incr_part incr (cv_for_start bstate atom bash_conv si) = TOk tt sn;
  lt_cond : t_expr bash_conv cond true sn = TOk vc sc;
  lt_body : tb body (add_line (LBreakUnless (first_value bash_conv vc)) sc) = TOk tt sd;
  lt_fi : simple_opt incr = true;
  lt_fc : pure cond = true;
  lt_fb : frag2_all body = true
}.

(* a loop ends normally - the machine goes on behind its done - or with a return inside its body *)
Definition afterL (g : sig) (b' : shenv) (L' : list (list line)) (rest : list line) (res : shenv * bytes) : Prop :=
  match g with SN => lruns b' L' rest res | SR _ => res = (b', []) | _ => False end.

Definition simL (XS : list var) (first : bool) (cond : expr) (incr : option stmt) (body : list stmt) (sg sg' : senv) (out : bytes) (g : sig) : Prop :=
  forall si sn sc sd vc b, loopT cond incr body si sn sc sd vc -> side XS cond -> env_ok sg ->
  ctx_ok XS sg b (cv_for_start bstate atom bash_conv si) -> fresh_flags XS si ->
  (incr <> None -> flag_set b (fname (b_for_counter si)) = negb first) ->
  exists R b', cext (cv_for_start bstate atom bash_conv si) sd R /\ cl3 R /\ ctx_ok XS sg' b' sd /\ untouched XS si sd b b' /\ regs g b' /\
    forall L' rest res, afterL g b' L' rest res ->
                        lruns b ((R ++ [LDone] ++ rest) :: L') (R ++ [LDone] ++ rest) (prepend out res).

Definition simJ (XS : list var) (c : code) (sg sg' : senv) (out : bytes) (g : sig) : Prop :=
  match c with
  | Prog body => simP XS sg body sg' out g
  | Loop first cond incr body => simL XS first cond incr body sg sg' out g
  end.

(* one round up to the exit test: increment part, condition lines, the test *)
Lemma round_head XS first cond incr body sg sg1 o1 si sn sc sd vc b t :
  loopT cond incr body si sn sc sd vc -> side XS cond -> env_ok sg -> env_ok sg1 ->
  simP XS sg (incr_of first incr) sg1 o1 SN -> peval sg1 cond = Some (VBool t) ->
  ctx_ok XS sg b (cv_for_start bstate atom bash_conv si) -> fresh_flags XS si ->
  (incr <> None -> flag_set b (fname (b_for_counter si)) = negb first) ->
  exists H b2 a, cext (cv_for_start bstate atom bash_conv si) (add_line (LBreakUnless a) sc) (H ++ [LBreakUnless a]) /\ cl3 H /\
    a = first_value bash_conv vc /\ ctx_ok XS sg1 b2 (add_line (LBreakUnless a) sc) /\ untouched XS si sc b b2 /\
    cond_true b2 a = Some t /\ (b_for_counter si < b_for_counter sc)%nat /\
    (incr <> None -> flag_set b2 (fname (b_for_counter si)) = true) /\
    forall L rest res, lruns b2 L ([LBreakUnless a] ++ rest) res -> lruns b L (H ++ [LBreakUnless a] ++ rest) (prepend o1 res).
Proof.
  intros [En Ec Eb Hfi Hfc Hfb] [Hl [Hn Hi]] Henv Henv1 Hsim Hv Hc Hfl Hflag.
  destruct (round_incr XS first incr sg sg1 o1 si sn b En Hfi Hsim Henv Hc Hfl Hflag) as (Rn & bF & ERn & CRn & CcF & UF & McF & HfF & HkF).
  destruct CcF as [Cf Cr Ch Ci].
  pose proof (expr_preserve cond Hfc sg1 true sn vc sc bF (VBool t) Ec Hv Henv1 Hl (represents_incl _ _ _ _ _ Cr Hi) (hygienic_incl _ _ _ Ch Hi))
    as [lc a bc O1 E1 M1 R1 V1 F1 S1].
  exists (Rn ++ lc), bc, a. subst vc. cbn [first_value] in *.
  assert (cext sn sc lc) as CE1 by (apply cext_of_ext; [exact E1|exact (expr_mono _ _ _ _ Ec)]).
  split; [rewrite <- app_assoc; eapply cext_trans; [exact ERn|]; eapply cext_trans; [exact CE1|apply cext_line]|].
  split; [apply cl3_app; [exact CRn|]; destruct (t_expr_ok cond true sn [a] sc Ec) as (ls & E & Hs & _);
          rewrite (code_same_cext _ _ _ _ (x_code _ _ _ E1) (cext_of_ext _ _ _ E (expr_mono _ _ _ _ Ec))); apply cl3_plain, simple_plain3, Hs|].
  split; [reflexivity|].
  assert (ctx_ok XS sg1 bc sc) as Hcc.
  { apply (ctx_ext XS sg1 bc sn sc lc E1). constructor; [exact Cf| |exact Ch|exact Ci].
    apply (represents_frame sg1 bF bc sn XS (b_var_counter sn) Cr Ch). intros n Hn0. apply F1. intros k Hk. apply Hn0. lia. }
  split; [exact (ctx_cext _ _ _ _ _ _ (cext_line _ sc) Hcc)|].
  assert (forall n, (forall k, n <> helper_name sn k) -> sh_get n bc = sh_get n bF) as Fr by (intros n Hh; apply F1; intros k _; apply Hh).
  split.
  { apply (untouched_compose XS si sc b bF); [exact (untouched_gen XS si si sn sc [] b bF (cext_refl si) (expr_mono _ _ _ _ Ec) UF)|]. intros n _ Hh _ _ _ _. apply Fr. intro k.
    rewrite (helper_name_cext _ _ _ k (cext_trans _ _ _ _ _ (for_start_cext si) ERn)). apply Hh. }
  split; [rewrite text_bool in V1; exact (cond_of_text bc a t V1)|].
  split; [pose proof (expr_mono _ _ _ _ Ec); lia|].
  split.
  { intro Hi0. specialize (HfF Hi0). unfold flag_set in *. rewrite Fr; [exact HfF|]. intro k. apply fname_not_helper. }
  intros L rest res Hr. rewrite <- app_assoc.
  assert (exec_outs bF lc = Some (bc, [])) as RL by exact (exec_outs_silent lc bF bc (exec_lines_no_echo lc bF bc R1) R1).
  apply HkF. rewrite <- (prepend_nil res). exact (lruns_straight lc bF bc [] L _ _ RL Hr).
Qed.

Lemma ctx_cext_rev XS sg b s s' ls : cext s s' ls -> ctx_ok XS sg b s' -> ctx_ok XS sg b s.
Proof.
  intros E [A B C D]. constructor.
  - intros x Hx. specialize (A x Hx). unfold var_fine in *. rewrite (user_name_cext _ _ _ x E) in A. exact A.
  - intros x v Hx Hv. rewrite <- (user_name_cext _ _ _ x E). exact (B x v Hx Hv).
  - intros x k Hx. rewrite <- (user_name_cext _ _ _ x E), <- (helper_name_cext _ _ _ k E). exact (C x k Hx).
  - intros y z Hy Hz. rewrite <- (user_name_cext _ _ _ y E), <- (user_name_cext _ _ _ z E). exact (D y z Hy Hz).
Qed.

(* the lines of one round and of the body, from the fixed translation *)
Lemma loop_body_lines cond incr body si sn sc sd vc :
  loopT cond incr body si sn sc sd vc ->
  exists B, cext (add_line (LBreakUnless (first_value bash_conv vc)) sc) sd B /\ cl3 B.
Proof. intros [_ _ Eb _ _ Hfb]. destruct (tb_e3 body (all_e3 body) Hfb _ _ _ Eb) as (B & EB & CB & _). exists B. split; assumption. Qed.

Lemma simL_exit XS first cond incr body sg sg1 o1 :
  simP XS sg (incr_of first incr) sg1 o1 SN -> env_ok sg1 -> peval sg1 cond = Some (VBool false) ->
  simL XS first cond incr body sg sg1 o1 SN.
Proof.
  intros Hsim Henv1 Hv si sn sc sd vc b LT Hside Henv Hc Hfl Hflag.
  destruct (round_head XS first cond incr body sg sg1 o1 si sn sc sd vc b false LT Hside Henv Henv1 Hsim Hv Hc Hfl Hflag)
    as (H & b2 & a & EH & CH & -> & Cc & U & Ct & Mc & _ & Hk).
  destruct (loop_body_lines _ _ _ _ _ _ _ _ LT) as (B & EB & CB).
  exists (H ++ [LBreakUnless (first_value bash_conv vc)] ++ B), b2.
  split; [rewrite app_assoc; eapply cext_trans; [exact EH|exact EB]|].
  split; [apply cl3_app; [exact CH|]; apply cl3_app; [apply cl3_plain; reflexivity|exact CB]|].
  split; [exact (ctx_cext _ _ _ _ _ _ EB Cc)|]. split; [exact (untouched_gen XS si si sc sd [] b b2 (cext_refl si) (cx_mono _ _ _ EB) U)|].
  split; [exact I|].
  intros L' rest res [f Hr]. rewrite prepend_nil || idtac.
  set (top := (H ++ [LBreakUnless (first_value bash_conv vc)] ++ B) ++ [LDone] ++ rest).
  assert (top = H ++ [LBreakUnless (first_value bash_conv vc)] ++ (B ++ [LDone] ++ rest)) as Et by (unfold top; rewrite <- !app_assoc; reflexivity).
  rewrite Et at 2. apply Hk. exists (S f). cbn [app lrun]. rewrite Ct.
  destruct CB as [_ DB]. rewrite DB. cbn [app skip_done]. exact Hr.
Qed.

Lemma simL_break XS first cond incr body sg sg1 o1 sg2 o2 :
  simP XS sg (incr_of first incr) sg1 o1 SN -> env_ok sg1 -> peval sg1 cond = Some (VBool true) ->
  simP XS sg1 body sg2 o2 SB ->
  simL XS first cond incr body sg sg2 (o1 ++ o2) SN.
Proof.
  intros Hsim Henv1 Hv Hbody si sn sc sd vc b LT Hside Henv Hc Hfl Hflag.
  destruct (round_head XS first cond incr body sg sg1 o1 si sn sc sd vc b true LT Hside Henv Henv1 Hsim Hv Hc Hfl Hflag)
    as (H & b2 & a & EH & CH & -> & Cc & U & Ct & Mc & _ & Hk).
  set (a := first_value bash_conv vc) in *. set (sB := add_line (LBreakUnless a) sc) in *.
  assert (cext si sB ([LForInit (flag_of si); LWhile] ++ H ++ [LBreakUnless a])) as EsB by (eapply cext_trans; [apply for_start_cext|exact EH]).
  destruct (lrun_body XS sg1 body sg2 o2 SB sB tt sd b2 (lt_body _ _ _ _ _ _ _ _ LT) (lt_fb _ _ _ _ _ _ _ _ LT) Hbody Henv1 Cc (fresh_cext _ _ _ _ EsB Hfl))
    as (B & b3 & EB & CB & Cc3 & U3 & Rg3 & Hk3).
  exists (H ++ [LBreakUnless a] ++ B), b3.
  split; [rewrite app_assoc; eapply cext_trans; [exact EH|exact EB]|].
  split; [apply cl3_app; [exact CH|]; apply cl3_app; [apply cl3_plain; reflexivity|exact CB]|].
  split; [exact Cc3|].
  split; [apply (untouched_compose XS si sd b b2); [exact (untouched_gen XS si si sc sd [] b b2 (cext_refl si) (cx_mono _ _ _ EB) U)|exact (untouched_gen XS si sB sd sd _ b2 b3 EsB (le_n _) U3)]|].
  split; [exact I|].
  intros L' rest res Hr. cbn [afterL] in Hr.
  set (top := (H ++ [LBreakUnless a] ++ B) ++ [LDone] ++ rest).
  assert (top = H ++ [LBreakUnless a] ++ (B ++ [LDone] ++ rest)) as Et by (unfold top; rewrite <- !app_assoc; reflexivity).
  rewrite Et at 2. rewrite <- prepend_app. apply Hk.
  assert (after SB b3 (top :: L') ([LDone] ++ rest) res) as Ha by (cbn [after]; exists rest; split; [reflexivity|exact Hr]).
  destruct (Hk3 (top :: L') ([LDone] ++ rest) res Ha) as [f Hf]. exists (S f). cbn [app lrun]. rewrite Ct. exact Hf.
Qed.

Lemma simL_return XS first cond incr body sg sg1 o1 sg2 o2 rv :
  simP XS sg (incr_of first incr) sg1 o1 SN -> env_ok sg1 -> peval sg1 cond = Some (VBool true) ->
  simP XS sg1 body sg2 o2 (SR rv) ->
  simL XS first cond incr body sg sg2 (o1 ++ o2) (SR rv).
Proof.
  intros Hsim Henv1 Hv Hbody si sn sc sd vc b LT Hside Henv Hc Hfl Hflag.
  destruct (round_head XS first cond incr body sg sg1 o1 si sn sc sd vc b true LT Hside Henv Henv1 Hsim Hv Hc Hfl Hflag)
    as (H & b2 & a & EH & CH & -> & Cc & U & Ct & Mc & _ & Hk).
  set (a := first_value bash_conv vc) in *. set (sB := add_line (LBreakUnless a) sc) in *.
  assert (cext si sB ([LForInit (flag_of si); LWhile] ++ H ++ [LBreakUnless a])) as EsB by (eapply cext_trans; [apply for_start_cext|exact EH]).
  destruct (lrun_body XS sg1 body sg2 o2 (SR rv) sB tt sd b2 (lt_body _ _ _ _ _ _ _ _ LT) (lt_fb _ _ _ _ _ _ _ _ LT) Hbody Henv1 Cc (fresh_cext _ _ _ _ EsB Hfl))
    as (B & b3 & EB & CB & Cc3 & U3 & Rg3 & Hk3).
  exists (H ++ [LBreakUnless a] ++ B), b3.
  split; [rewrite app_assoc; eapply cext_trans; [exact EH|exact EB]|].
  split; [apply cl3_app; [exact CH|]; apply cl3_app; [apply cl3_plain; reflexivity|exact CB]|].
  split; [exact Cc3|].
  split; [apply (untouched_compose XS si sd b b2); [exact (untouched_gen XS si si sc sd [] b b2 (cext_refl si) (cx_mono _ _ _ EB) U)|exact (untouched_gen XS si sB sd sd _ b2 b3 EsB (le_n _) U3)]|].
  split; [exact Rg3|].
  intros L' rest res Hr. cbn [afterL] in Hr. subst res.
  set (top := (H ++ [LBreakUnless a] ++ B) ++ [LDone] ++ rest).
  assert (top = H ++ [LBreakUnless a] ++ (B ++ [LDone] ++ rest)) as Et by (unfold top; rewrite <- !app_assoc; reflexivity).
  rewrite Et at 2. rewrite <- prepend_app. apply Hk.
  destruct (Hk3 (top :: L') ([LDone] ++ rest) (b3, []) eq_refl) as [f Hf]. exists (S f). cbn [app lrun]. rewrite Ct. exact Hf.
Qed.

Lemma simL_next XS first cond incr body sg sg1 o1 sg2 o2 gb sg3 o3 g3 :
  simP XS sg (incr_of first incr) sg1 o1 SN -> env_ok sg1 -> env_ok sg2 -> peval sg1 cond = Some (VBool true) ->
  simP XS sg1 body sg2 o2 gb -> (gb = SN \/ gb = SC) ->
  simL XS false cond incr body sg2 sg3 o3 g3 ->
  simL XS first cond incr body sg sg3 (o1 ++ o2 ++ o3) g3.
Proof.
  intros Hsim Henv1 Henv2 Hv Hbody Hgb Hnext si sn sc sd vc b LT Hside Henv Hc Hfl Hflag.
  destruct (round_head XS first cond incr body sg sg1 o1 si sn sc sd vc b true LT Hside Henv Henv1 Hsim Hv Hc Hfl Hflag)
    as (H & b2 & a & EH & CH & -> & Cc & U & Ct & Mc & Hf2 & Hk).
  set (a := first_value bash_conv vc) in *. set (sB := add_line (LBreakUnless a) sc) in *.
  assert (cext si sB ([LForInit (flag_of si); LWhile] ++ H ++ [LBreakUnless a])) as EsB by (eapply cext_trans; [apply for_start_cext|exact EH]).
  assert (fresh_flags XS sB) as HflB by exact (fresh_cext _ _ _ _ EsB Hfl).
  destruct (lrun_body XS sg1 body sg2 o2 gb sB tt sd b2 (lt_body _ _ _ _ _ _ _ _ LT) (lt_fb _ _ _ _ _ _ _ _ LT) Hbody Henv1 Cc HflB)
    as (B & b3 & EB & CB & Cc3 & U3 & Rg3 & Hk3).
  assert (cext (cv_for_start bstate atom bash_conv si) sd (H ++ [LBreakUnless a] ++ B)) as ER
    by (rewrite app_assoc; eapply cext_trans; [exact EH|exact EB]).
  (* the next rounds start from the environment the body left *)
  assert (ctx_ok XS sg2 b3 (cv_for_start bstate atom bash_conv si)) as Hc3 by exact (ctx_cext_rev _ _ _ _ _ _ ER Cc3).
  assert (incr <> None -> flag_set b3 (fname (b_for_counter si)) = negb false) as Hflag3.
  { intro Hi. specialize (Hf2 Hi). cbn [negb]. unfold flag_set in *. rewrite U3; [exact Hf2| | | | | |].
    - intros x Hx. intro Heq. exact (proj1 HflB x (b_for_counter si) Hx (eq_sym Heq)).
    - intro k. apply fname_not_helper.
    - intros k Hk0 Heq. unfold fname in Heq. apply app_inv_head in Heq. unfold dec_nat in Heq. apply dec_N_inj in Heq. apply Nat2N.inj in Heq.
      destruct Hfl as [_ [_ [Hklo _]]]. unfold sB in Hk0. cbn [add_line b_for_counter] in Hk0. lia.
    - intros c x _ Heq. unfold fname, mangled in Heq. cbn in Heq. inversion Heq.
    - intros i Heq. unfold fname, rv_name in Heq. cbn in Heq. inversion Heq.
    - intros i Heq. exact (fname_not_ma _ _ _ Heq). }
  destruct (Hnext si sn sc sd vc b3 LT Hside Henv2 Hc3 Hfl Hflag3) as (R' & b' & ER' & CR' & Cc' & U' & Rg' & Hk').
  assert (R' = H ++ [LBreakUnless a] ++ B) as -> by exact (code_same_cext _ _ _ _ (cx_code _ _ _ ER') ER).
  exists (H ++ [LBreakUnless a] ++ B), b'.
  split; [exact ER|]. split; [exact CR'|]. split; [exact Cc'|].
  split.
  { apply (untouched_compose XS si sd b b2); [exact (untouched_gen XS si si sc sd [] b b2 (cext_refl si) (cx_mono _ _ _ EB) U)|].
    apply (untouched_compose XS si sd b2 b3); [|exact U']. exact (untouched_gen XS si sB sd sd _ b2 b3 EsB (le_n _) U3). }
  split; [exact Rg'|].
  intros L' rest res Hr.
  set (top := (H ++ [LBreakUnless a] ++ B) ++ [LDone] ++ rest).
  assert (top = H ++ [LBreakUnless a] ++ (B ++ [LDone] ++ rest)) as Et by (unfold top; rewrite <- !app_assoc; reflexivity).
  rewrite Et at 2. replace (prepend (o1 ++ o2 ++ o3) res) with (prepend o1 (prepend o2 (prepend o3 res))) by (rewrite !prepend_app, <- ?app_assoc; reflexivity).
  apply Hk.
  pose proof (Hk' L' rest res Hr) as Hloop. fold top in Hloop.
  assert (after gb b3 (top :: L') ([LDone] ++ rest) (prepend o3 res)) as Ha.
  { destruct Hgb as [->| ->]; [|exact Hloop]. cbn [after]. destruct Hloop as [f Hf]. exists (S f). cbn [app lrun]. exact Hf. }
  destruct (Hk3 (top :: L') ([LDone] ++ rest) (prepend o3 res) Ha) as [f Hf]. exists (S f). cbn [app lrun]. rewrite Ct. exact Hf.
Qed.

Lemma simP_if_next XS sg c0 b0 elifs els bools sgm outm r sg' out g :
  frag2 (SIf ((c0, b0) :: elifs) els) = true -> (forall cb, In cb ((c0, b0) :: elifs) -> side XS (fst cb)) ->
  pevals sg (c0 :: map fst elifs) = Some (map VBool bools) ->
  simP XS sg (pick bools (b0 :: map snd elifs) els) sgm outm SN -> env_ok sgm ->
  simP XS sgm r sg' out g ->
  simP XS sg (SIf ((c0, b0) :: elifs) els :: r) sg' (outm ++ out) g.
Proof.
  intros Hfrag Hside Hv IHch Henvm IHr s u s' b Ht Hf Henv Hc Hfl.
  cbn [go_fix] in Ht. mb Ht as u1 s1 H1 H2. cbn [frag2_all] in Hf. apply andb_true_iff in Hf as [_ Hfr].
  destruct (if_construct XS sg c0 b0 elifs els bools sgm outm SN s u1 s1 b H1 Hfrag Hside Hv IHch Henv Hc Hfl) as (XI & b1 & EI & C1 & U1 & RgI & HkI).
  destruct (IHr s1 u s' b1 H2 Hfr Henvm C1 (fresh_cext _ _ _ _ EI Hfl)) as (X2 & b2 & E2 & C2 & U2 & Rg2 & Hk2).
  exists (XI ++ X2), b2. split; [eapply cext_trans; eassumption|]. split; [exact C2|].
  split; [exact (untouched_trans XS s s1 s' XI b b1 b2 EI (cx_mono _ _ _ E2) U1 U2)|].
  split; [exact Rg2|].
  intros L rest res H. rewrite <- app_assoc. rewrite <- prepend_app. apply HkI. cbn [after]. exact (Hk2 L rest res H).
Qed.

Lemma simP_if_stop XS sg c0 b0 elifs els bools sgm outm r g :
  frag2 (SIf ((c0, b0) :: elifs) els) = true -> (forall cb, In cb ((c0, b0) :: elifs) -> side XS (fst cb)) ->
  pevals sg (c0 :: map fst elifs) = Some (map VBool bools) ->
  simP XS sg (pick bools (b0 :: map snd elifs) els) sgm outm g -> g <> SN ->
  simP XS sg (SIf ((c0, b0) :: elifs) els :: r) sgm outm g.
Proof.
  intros Hfrag Hside Hv IHch Hg s u s' b Ht Hf Henv Hc Hfl.
  cbn [go_fix] in Ht. mb Ht as u1 s1 H1 H2. cbn [frag2_all] in Hf. apply andb_true_iff in Hf as [_ Hfr].
  destruct (if_construct XS sg c0 b0 elifs els bools sgm outm g s u1 s1 b H1 Hfrag Hside Hv IHch Henv Hc Hfl) as (XI & b1 & EI & C1 & U1 & RgI & HkI).
  destruct (go_e3 r (all_e3 r) Hfr _ _ _ H2) as (Xr & Er & [_ Dr] & _).
  exists (XI ++ Xr), b1. split; [eapply cext_trans; eassumption|]. split; [exact (ctx_cext _ _ _ _ _ _ Er C1)|]. split; [exact (untouched_gen XS s s s1 s' [] b b1 (cext_refl s) (cx_mono _ _ _ Er) U1)|].
  split; [exact RgI|].
  intros L rest res H. rewrite <- app_assoc. apply HkI. apply after_skip; assumption.
Qed.

Lemma simP_for XS sg init cond incr body sg1 o1 sg2 o2 r sg' out g :
  frag2 (SFor init cond incr body) = true -> side XS cond ->
  simP XS sg (opt_list init) sg1 o1 SN -> env_ok sg1 -> env_ok sg2 ->
  simL XS true cond incr body sg1 sg2 o2 SN ->
  simP XS sg2 r sg' out g ->
  simP XS sg (SFor init cond incr body :: r) sg' (o1 ++ o2 ++ out) g.
Proof.
  intros Hfrag Hside IH1 Henv1 Henv2 IH2 IH3 s u s' b Ht Hf Henv Hc Hfl.
  cbn [go_fix] in Ht. mb Ht as u1 s1 H1 H2. cbn [frag2_all] in Hf. apply andb_true_iff in Hf as [_ Hfr].
  rewrite frag2_for in Hfrag. apply andb_true_iff in Hfrag as [Hf0 Hfb]. apply andb_true_iff in Hf0 as [Hf0 Hfn]. apply andb_true_iff in Hf0 as [Hfi Hpc].
  destruct (for_decompose init cond incr body s u1 s1 H1) as (si & sn & vc & sc & sd & Ei & En & Ec & Eb & Ee).
  pose proof (mkLoopT cond incr body si sn sc sd vc En Ec Eb Hfn Hpc Hfb) as LT.
  (* the init clause *)
  destruct (IH1 s tt si b (go_opt init s si Ei) (frag2_opt init Hfi) Henv Hc Hfl) as (X0 & b0 & E0 & C0 & U0 & Rg0 & Hk0).
  pose proof (go_mono _ _ _ _ (go_opt init s si Ei)) as M0.
  assert (fresh_flags XS si) as Hfli by exact (fresh_cext _ _ _ _ E0 Hfl).
  set (k0 := b_for_counter si). set (f := fname k0).
  set (sf := cv_for_start bstate atom bash_conv si) in *.
  assert (ctx_ok XS sg1 (sh_set f [] b0) sf) as Cf0 by (apply ctx_set_flag; [exact (fresh_cext _ _ _ _ (for_start_cext si) Hfli)|exact (ctx_cext _ _ _ _ _ _ (for_start_cext si) C0)]).
  destruct (IH2 si sn sc sd vc (sh_set f [] b0) LT Hside Henv1 Cf0 Hfli (fun _ => flag_set_set f [] b0)) as (R & b2 & ER & CR & C2 & U2 & _ & HkL).
  (* done: the loop's end *)
  rewrite bash_for_end in Ee. destruct (b_fors sd) eqn:Efs; [discriminate|]. inversion Ee; subst s1; clear Ee.
  set (sE := {| b_start := b_start (add_line LDone sd); b_code := b_code (add_line LDone sd); b_var_counter := b_var_counter (add_line LDone sd);
               b_for_counter := b_for_counter (add_line LDone sd); b_fors := removelast (b_fors (add_line LDone sd)); b_funcs := b_funcs (add_line LDone sd);
               b_func_counter := b_func_counter (add_line LDone sd); b_sah := b_sah (add_line LDone sd); b_sch := b_sch (add_line LDone sd);
               b_ssh := b_ssh (add_line LDone sd) |}) in *.
  assert (cext sd sE [LDone]) as EE by (constructor; try reflexivity; apply le_n).
  assert (cext s sE (X0 ++ [LForInit (flag_of si); LWhile] ++ R ++ [LDone])) as EsE
    by (eapply cext_trans; [exact E0|]; eapply cext_trans; [apply for_start_cext|]; eapply cext_trans; [exact ER|exact EE]).
  assert (b_for_counter s <= b_for_counter sE)%nat as ME by exact (for_counter_mono _ _ _ _ H1).
  destruct (IH3 sE u s' b2 H2 Hfr Henv2 (ctx_cext _ _ _ _ _ _ EE C2) (fresh_cext _ _ _ _ EsE Hfl)) as (X3 & b3 & E3 & C3 & U3 & Rg3 & Hk3).
  exists ((X0 ++ [LForInit (flag_of si); LWhile] ++ R ++ [LDone]) ++ X3), b3.
  split; [eapply cext_trans; eassumption|]. split; [exact C3|].
  split.
  { pose proof (cx_mono _ _ _ ER) as MR. unfold sf in MR. rewrite for_start_counter in MR.
    assert (b_for_counter sE = b_for_counter sd) as MsE by reflexivity.
    refine (untouched_trans XS s sE s' _ b b2 b3 EsE (cx_mono _ _ _ E3) _ U3).
    apply (untouched_compose XS s sE b b0); [refine (untouched_gen XS s s si sE [] b b0 (cext_refl s) _ U0); lia|].
    refine (untouched_gen XS s si sE sE _ b0 b2 E0 (le_n _) _).
    apply (untouched_compose XS si sE b0 (sh_set f [] b0)); [apply untouched_set_flag; unfold k0; lia|].
    refine (untouched_gen XS si si sd sE [] _ b2 (cext_refl si) _ U2). lia. }
  split; [exact Rg3|].
  intros L rest res H.
  pose proof (Hk3 L rest res H) as H3.
  pose proof (HkL L (X3 ++ rest) (prepend out res) H3) as HL.
  set (top := R ++ [LDone] ++ X3 ++ rest) in *.
  assert (lruns b0 L ([LForInit (flag_of si); LWhile] ++ top) (prepend o2 (prepend out res))) as HW.
  { destruct HL as [fu Hfu]. exists (S (S fu)). cbn [app lrun]. exact Hfu. }
  pose proof (Hk0 L ([LForInit (flag_of si); LWhile] ++ top) _ HW) as H0'.
  replace (((X0 ++ [LForInit (flag_of si); LWhile] ++ R ++ [LDone]) ++ X3) ++ rest) with (X0 ++ [LForInit (flag_of si); LWhile] ++ top)
    by (unfold top; rewrite <- !app_assoc; reflexivity).
  replace (prepend (o1 ++ o2 ++ out) res) with (prepend o1 (prepend o2 (prepend out res))) by (rewrite !prepend_app, <- ?app_assoc; reflexivity).
  exact H0'.
Qed.

Lemma simP_for_return XS sg init cond incr body sg1 o1 sg2 o2 rv r :
  frag2 (SFor init cond incr body) = true -> side XS cond ->
  simP XS sg (opt_list init) sg1 o1 SN -> env_ok sg1 ->
  simL XS true cond incr body sg1 sg2 o2 (SR rv) ->
  simP XS sg (SFor init cond incr body :: r) sg2 (o1 ++ o2) (SR rv).
Proof.
  intros Hfrag Hside IH1 Henv1 IH2 s u s' b Ht Hf Henv Hc Hfl.
  cbn [go_fix] in Ht. mb Ht as u1 s1 H1 H2. cbn [frag2_all] in Hf. apply andb_true_iff in Hf as [_ Hfr].
  rewrite frag2_for in Hfrag. apply andb_true_iff in Hfrag as [Hf0 Hfb]. apply andb_true_iff in Hf0 as [Hf0 Hfn]. apply andb_true_iff in Hf0 as [Hfi Hpc].
  destruct (for_decompose init cond incr body s u1 s1 H1) as (si & sn & vc & sc & sd & Ei & En & Ec & Eb & Ee).
  pose proof (mkLoopT cond incr body si sn sc sd vc En Ec Eb Hfn Hpc Hfb) as LT.
  destruct (IH1 s tt si b (go_opt init s si Ei) (frag2_opt init Hfi) Henv Hc Hfl) as (X0 & b0 & E0 & C0 & U0 & Rg0 & Hk0).
  assert (fresh_flags XS si) as Hfli by exact (fresh_cext _ _ _ _ E0 Hfl).
  set (k0 := b_for_counter si). set (f := fname k0).
  set (sf := cv_for_start bstate atom bash_conv si) in *.
  assert (ctx_ok XS sg1 (sh_set f [] b0) sf) as Cf0 by (apply ctx_set_flag; [exact (fresh_cext _ _ _ _ (for_start_cext si) Hfli)|exact (ctx_cext _ _ _ _ _ _ (for_start_cext si) C0)]).
  destruct (IH2 si sn sc sd vc (sh_set f [] b0) LT Hside Henv1 Cf0 Hfli (fun _ => flag_set_set f [] b0)) as (R & b2 & ER & CR & C2 & U2 & Rg2 & HkL).
  rewrite bash_for_end in Ee. destruct (b_fors sd) eqn:Efs; [discriminate|]. inversion Ee; subst s1; clear Ee.
  set (sE := {| b_start := b_start (add_line LDone sd); b_code := b_code (add_line LDone sd); b_var_counter := b_var_counter (add_line LDone sd);
               b_for_counter := b_for_counter (add_line LDone sd); b_fors := removelast (b_fors (add_line LDone sd)); b_funcs := b_funcs (add_line LDone sd);
               b_func_counter := b_func_counter (add_line LDone sd); b_sah := b_sah (add_line LDone sd); b_sch := b_sch (add_line LDone sd);
               b_ssh := b_ssh (add_line LDone sd) |}) in *.
  assert (cext sd sE [LDone]) as EE by (constructor; try reflexivity; apply le_n).
  assert (cext s sE (X0 ++ [LForInit (flag_of si); LWhile] ++ R ++ [LDone])) as EsE
    by (eapply cext_trans; [exact E0|]; eapply cext_trans; [apply for_start_cext|]; eapply cext_trans; [exact ER|exact EE]).
  destruct (go_e3 r (all_e3 r) Hfr _ _ _ H2) as (X3 & E3 & _ & _).
  exists ((X0 ++ [LForInit (flag_of si); LWhile] ++ R ++ [LDone]) ++ X3), b2.
  split; [eapply cext_trans; eassumption|]. split; [exact (ctx_cext _ _ _ _ _ _ (cext_trans _ _ _ _ _ EE E3) C2)|].
  split.
  { pose proof (cx_mono _ _ _ ER) as MR. unfold sf in MR. rewrite for_start_counter in MR.
    assert (b_for_counter sE = b_for_counter sd) as MsE by reflexivity.
    refine (untouched_gen XS s s sE s' [] b b2 (cext_refl s) (cx_mono _ _ _ E3) _).
    apply (untouched_compose XS s sE b b0); [refine (untouched_gen XS s s si sE [] b b0 (cext_refl s) _ U0); lia|].
    refine (untouched_gen XS s si sE sE _ b0 b2 E0 (le_n _) _).
    apply (untouched_compose XS si sE b0 (sh_set f [] b0)); [apply untouched_set_flag; unfold k0; lia|].
    refine (untouched_gen XS si si sd sE [] _ b2 (cext_refl si) _ U2). lia. }
  split; [exact Rg2|].
  intros L rest res H. cbn [after] in H. subst res.
  pose proof (HkL L (X3 ++ rest) (b2, []) eq_refl) as HL.
  set (top := R ++ [LDone] ++ X3 ++ rest) in *.
  assert (lruns b0 L ([LForInit (flag_of si); LWhile] ++ top) (prepend o2 (b2, []))) as HW.
  { destruct HL as [fu Hfu]. exists (S (S fu)). cbn [app lrun]. exact Hfu. }
  pose proof (Hk0 L ([LForInit (flag_of si); LWhile] ++ top) _ HW) as H0'.
  replace (((X0 ++ [LForInit (flag_of si); LWhile] ++ R ++ [LDone]) ++ X3) ++ rest) with (X0 ++ [LForInit (flag_of si); LWhile] ++ top)
    by (unfold top; rewrite <- !app_assoc; reflexivity).
  rewrite <- prepend_app. exact H0'.
Qed.

Theorem J_sim : forall XS c sg sg' out g, J XS c sg sg' out g -> env_ok sg -> simJ XS c sg sg' out g.
Proof.
  intros XS c sg sg' out g H.
  induction H as [sg|sg x e v r sg' out g Hp Hs Hx Hv Henv' Hr IH|sg x e v r sg' out g Hp Hs Hx Hv Henv' Hr IH
                 |sg xs es vals r sg' out g Hp Hs Hxs H2x Le Hv Henv' Hr IH
                 |sg xs es vals r sg' out g Hp Hs Hxs H2x Le Hv Henv' Hr IH
                 |sg es vals r sg' out g Hp Hs Hv Hr IH
                 |sg x f t args vals rv sg1 o r sg' out g Hp Hs Hx Hv Hsc Henv' Hr IH
                 |sg x f t args vals rv sg1 o r sg' out g Hp Hs Hx Hv Hsc Henv' Hr IH
                 |sg xs f rets args vals rvals sg1 o r sg' out g Hp Hs Hxs Hv Hsc Lr Lv Henv' Hr IH
                 |sg xs f rets args vals rvals sg1 o r sg' out g Hp Hs Hxs Hv Hsc Lr Lv Henv' Hr IH
                 |sg f rets args vals rvals sg1 o r sg' out g Hp Hs Hv Hsc Henv' Hr IH
                 |sg es rvals r Hp Hs Hv Hfr|sg r Hfr|sg r Hfr
                 |sg c0 b0 elifs els bools sgm outm r sg' out g Hfrag Hside Hv Hch IHch Hr IHr
                 |sg c0 b0 elifs els bools sgm outm r g Hfrag Hside Hv Hch IHch Hg Hfr
                 |sg init cond incr body sg1 o1 sg2 o2 r sg' out g Hfrag Hside Hi IHi Hl IHl Hr IHr
                 |sg init cond incr body sg1 o1 sg2 o2 rv r Hfrag Hside Hfr Hi IHi Hl IHl
                 |first cond incr body sg sg1 o1 Hi IHi Hv
                 |first cond incr body sg sg1 o1 sg2 o2 Hi IHi Hv Hb IHb
                 |first cond incr body sg sg1 o1 sg2 o2 gb sg3 o3 g3 Hi IHi Hv Hb IHb Hgb Hn IHn
                 |first cond incr body sg sg1 o1 sg2 o2 rv Hi IHi Hv Hb IHb];
    intro Henv; cbn [simJ] in *.
  - apply simP_nil.
  - exact (simP_assign XS sg x e v r sg' out g Hp Hs Hx Hv Henv' (IH Henv')).
  - intros s u s' b Ht. change (go_fix (SVarDef [x] [e] :: r) s) with (go_fix (SAssign [x] [e] :: r) s) in Ht.
    revert s u s' b Ht. exact (simP_assign XS sg x e v r sg' out g Hp Hs Hx Hv Henv' (IH Henv')).
  - exact (simP_assign_multi XS sg xs es vals r sg' out g Hp Hs Hxs H2x Le Hv Henv' (IH Henv')).
  - intros s u s' b Ht. change (go_fix (SVarDef xs es :: r) s) with (go_fix (SAssign xs es :: r) s) in Ht.
    revert s u s' b Ht. exact (simP_assign_multi XS sg xs es vals r sg' out g Hp Hs Hxs H2x Le Hv Henv' (IH Henv')).
  - exact (simP_print XS sg es vals r sg' out g Hp Hs Hv (IH Henv)).
  - exact (simP_call_assign XS sg x f t args vals rv sg1 o r sg' out g Hp Hs Hx Hv Hsc Henv' (IH Henv')).
  - exact (simP_call_define XS sg x f t args vals rv sg1 o r sg' out g Hp Hs Hx Hv Hsc Henv' (IH Henv')).
  - exact (simP_call_assign_multi XS sg xs f rets args vals rvals sg1 o r sg' out g Hp Hs Hxs Hv Hsc Lr Lv Henv' (IH Henv')).
  - exact (simP_call_define_multi XS sg xs f rets args vals rvals sg1 o r sg' out g Hp Hs Hxs Hv Hsc Lr Lv Henv' (IH Henv')).
  - exact (simP_call_stmt XS sg f rets args vals rvals sg1 o r sg' out g Hp Hs Hv Hsc Henv' (IH Henv')).
  - exact (simP_return XS sg es rvals r Hp Hs Hv).
  - apply simP_break.
  - apply simP_continue.
  - pose proof (J_env _ _ _ _ _ _ Hch Henv) as Henvm. exact (simP_if_next XS sg c0 b0 elifs els bools sgm outm r sg' out g Hfrag Hside Hv (IHch Henv) Henvm (IHr Henvm)).
  - exact (simP_if_stop XS sg c0 b0 elifs els bools sgm outm r g Hfrag Hside Hv (IHch Henv) Hg).
  - pose proof (J_env _ _ _ _ _ _ Hi Henv) as Henv1. pose proof (J_env _ _ _ _ _ _ Hl Henv1) as Henv2.
    exact (simP_for XS sg init cond incr body sg1 o1 sg2 o2 r sg' out g Hfrag Hside (IHi Henv) Henv1 Henv2 (IHl Henv1) (IHr Henv2)).
  - pose proof (J_env _ _ _ _ _ _ Hi Henv) as Henv1.
    exact (simP_for_return XS sg init cond incr body sg1 o1 sg2 o2 rv r Hfrag Hside (IHi Henv) Henv1 (IHl Henv1)).
  - pose proof (J_env _ _ _ _ _ _ Hi Henv) as Henv1. exact (simL_exit XS first cond incr body sg sg1 o1 (IHi Henv) Henv1 Hv).
  - pose proof (J_env _ _ _ _ _ _ Hi Henv) as Henv1. exact (simL_break XS first cond incr body sg sg1 o1 sg2 o2 (IHi Henv) Henv1 Hv (IHb Henv1)).
  - pose proof (J_env _ _ _ _ _ _ Hi Henv) as Henv1. pose proof (J_env _ _ _ _ _ _ Hb Henv1) as Henv2.
    exact (simL_next XS first cond incr body sg sg1 o1 sg2 o2 gb sg3 o3 g3 (IHi Henv) Henv1 Henv2 Hv (IHb Henv1) Hgb (IHn Henv2)).
  - pose proof (J_env _ _ _ _ _ _ Hi Henv) as Henv1. exact (simL_return XS first cond incr body sg sg1 o1 sg2 o2 rv (IHi Henv) Henv1 Hv (IHb Henv1)).
Qed.

(* Terminating programs with loops: the emitted lines, run by the flat shell model with loops, print what the source
   prints and leave the shell environment representing the final source environment. *)
Theorem loops_preserved : forall XS sg body sg' out s u s' b,
  J XS (Prog body) sg sg' out SN -> go_fix body s = TOk u s' -> frag2_all body = true -> env_ok sg -> ctx_ok XS sg b s -> fresh_flags XS s ->
  exists X b', b_code s' = b_code s ++ X /\ lruns b [] X (b', out) /\ represents sg' b' s' XS.
Proof.
  intros XS sg body sg' out s u s' b H Ht Hf Henv Hc Hfl.
  destruct (J_sim XS (Prog body) sg sg' out SN H Henv s u s' b Ht Hf Henv Hc Hfl) as (X & b' & Ex & Cc & _ & _ & Hk).
  exists X, b'. split; [exact (cx_code _ _ _ Ex)|]. split; [|exact (c_rep _ _ _ _ Cc)].
  assert (after SN b' [] [] (b', [])) as H0 by (cbn [after]; exists 1%nat; reflexivity).
  pose proof (Hk [] [] (b', []) H0) as Hr. rewrite app_nil_r in Hr. unfold prepend in Hr. cbn [fst snd] in Hr. rewrite app_nil_r in Hr. exact Hr.
Qed.
End WithCalls.
