(* Semantic preservation for scalar expressions (C01): the lines the Bash converter emits for a
   call-free scalar expression compute, in the shell, the value the expression has in the source. *)
From Verif Require Import Base.Bytestr Base.DecFacts Front.Ast Front.AstInd Front.FrontModel
  Back.BashLines Back.Transpile Back.BashConv Back.BashSyntax Back.BashFacts Sem.Src Sem.SrcFacts Sem.BashSem.
From Coq Require Import ZArith Lia.
Open Scope N_scope.

(* the fragment: literals, variables, groups, !, arithmetic, string +, comparisons, && ||, itoa *)
Fixpoint pure (e : expr) : bool :=
  match e with
  | EBool _ | EInt _ | EStr _ | EVar _ => true
  | EGroup x | EUnary x | EItoa x => pure x
  | EBinary l _ r | ECompare l _ r | ELogical l _ r => pure l && pure r
  | ELen x => pure x && is_string (type_of x)          (* len of a string *)
  | _ => false
  end.

Definition senv := var -> option value.

Definition vkind (v : value) : dtype :=
  match v with VInt _ => DInt | VBool _ => DBool | VStr _ => DString | VSlice _ => DUnknown end.

(* the value of a pure expression in a source environment *)
Fixpoint peval (sg : senv) (e : expr) : option value :=
  match e with
  | EBool b => Some (VBool b)
  | EInt z => Some (VInt z)
  | EStr s => Some (VStr s)
  | EVar x => sg x
  | EGroup x => peval sg x
  | EUnary x => match peval sg x with Some (VBool b) => Some (VBool (negb b)) | _ => None end
  | EBinary l op r =>
      match peval sg l, peval sg r with
      | Some (VInt a), Some (VInt b) => match arith op a b with Some z => Some (VInt z) | None => None end
      | Some (VStr a), Some (VStr b) => match op with OpAdd => Some (VStr (a ++ b)) | _ => None end
      | _, _ => None
      end
  | ECompare l op r =>
      match peval sg l, peval sg r with
      | Some a, Some b => match compare_vals op a b with Some t => Some (VBool t) | None => None end
      | _, _ => None
      end
  | ELogical l op r =>
      match peval sg l, peval sg r with
      | Some (VBool a), Some (VBool b) => Some (VBool (match op with LAnd => a && b | LOr => a || b end))
      | _, _ => None
      end
  | EItoa x => match peval sg x with Some (VInt z) => Some (VStr (dec_Z z)) | _ => None end
  | ELen x =>
      match peval sg x with
      | Some (VStr t) => if (Z.of_nat (length t) <=? int64_max)%Z then Some (VInt (Z.of_nat (length t))) else None
      | _ => None
      end
  | _ => None
  end.

Definition text (v : value) : bytes := match text_of v with Some t => t | None => [] end.

Definition in_range (v : value) : Prop :=
  match v with VInt z => (int64_min <= z <= int64_max)%Z | _ => True end.

(* static types agree with the values, integers are int64 *)
Definition env_ok (sg : senv) : Prop :=
  forall x v, sg x = Some v -> vkind v = dt (v_type x) /\ is_slice (v_type x) = false /\ in_range v.

Fixpoint lits_ok (e : expr) : Prop :=
  match e with
  | EInt z => (int64_min <= z <= int64_max)%Z
  | EGroup x | EUnary x | EItoa x | ELen x => lits_ok x
  | EBinary l _ r | ECompare l _ r | ELogical l _ r => lits_ok l /\ lits_ok r
  | _ => True
  end.

Fixpoint vars_of (e : expr) : list var :=
  match e with
  | EVar x => [x]
  | EGroup x | EUnary x | EItoa x | ELen x => vars_of x
  | EBinary l _ r | ECompare l _ r | ELogical l _ r => vars_of l ++ vars_of r
  | _ => []
  end.

Definition helper_name (s : bstate) (k : nat) : bytes := var_name s (bs "_h" ++ dec_nat k) false.
Definition user_name (s : bstate) (x : var) : bytes := var_name s (v_name x) (v_global x).

(* the shell environment represents the source environment on the variables of e *)
Definition represents (sg : senv) (b : shenv) (s : bstate) (xs : list var) : Prop :=
  forall x v, In x xs -> sg x = Some v -> sh_get (user_name s x) b = text v.

(* no user variable is spelled like a helper of the converter *)
Definition hygienic (s : bstate) (xs : list var) : Prop :=
  forall x k, In x xs -> user_name s x <> helper_name s k.

Lemma helper_name_inj s k1 k2 : helper_name s k1 = helper_name s k2 -> k1 = k2.
Proof.
  unfold helper_name, var_name. intro H.
  destruct ((0 <? b_funcs s)%nat && negb false).
  - apply (app_inv_head (bs "f")) in H. apply (app_inv_head (dec_nat (b_func_counter s))) in H.
    apply (app_inv_head (bs "_")) in H. apply (app_inv_head (bs "_h")) in H. unfold dec_nat in H.
    apply dec_N_inj in H. apply Nat2N.inj. exact H.
  - apply (app_inv_head (bs "_h")) in H. unfold dec_nat in H. apply dec_N_inj in H. apply Nat2N.inj. exact H.
Qed.

Lemma helper_name_ext s s' ls k : ext s s' ls -> helper_name s' k = helper_name s k.
Proof. intros E. unfold helper_name, var_name. rewrite (x_funcs _ _ _ E), (x_fcnt _ _ _ E). reflexivity. Qed.

Lemma user_name_ext s s' ls x : ext s s' ls -> user_name s' x = user_name s x.
Proof. intros E. unfold user_name, var_name. rewrite (x_funcs _ _ _ E), (x_fcnt _ _ _ E). reflexivity. Qed.

(* what may be read through an atom produced so far *)
Definition atom_stable (s : bstate) (xs : list var) (hi : nat) (a : atom) : Prop :=
  match a with
  | ALit _ => True
  | ARef n => (exists x, In x xs /\ n = user_name s x) \/ (exists k, (k < hi)%nat /\ n = helper_name s k)
  end.

(* the outcome of translating and running an expression *)
Record outcome (sg : senv) (s s' : bstate) (b : shenv) (xs : list var) (v : value) (vs : list atom) : Prop := mkOut {
  o_lines : list line;
  o_atom : atom;
  o_env : shenv;
  o_one : vs = [o_atom];
  o_ext : ext s s' o_lines;
  o_mono : (b_var_counter s <= b_var_counter s')%nat;
  o_run : exec_lines b o_lines = Some o_env;
  o_value : atom_text o_env o_atom = text v;
  o_frame : forall n, (forall k, (b_var_counter s <= k < b_var_counter s')%nat -> n <> helper_name s k) -> sh_get n o_env = sh_get n b;
  o_stable : atom_stable s xs (b_var_counter s') o_atom
}.

Lemma helper_assign_spec mk s a s' :
  helper_assign mk s = (a, s') ->
  a = ARef (helper_name s (b_var_counter s)) /\ ext s s' [LAssign (helper_name s (b_var_counter s)) mk]
  /\ b_var_counter s' = S (b_var_counter s).
Proof.
  unfold helper_assign, next_helper. intro H. inversion H; subst; clear H.
  split; [reflexivity|]. split; [|reflexivity]. constructor; reflexivity.
Qed.

(* an atom read later still has its text: later lines only write helpers with larger numbers *)
Lemma stable_text s xs hi a (b b' : shenv) :
  atom_stable s xs hi a -> hygienic s xs ->
  (forall n, (forall k, (hi <= k)%nat -> n <> helper_name s k) -> sh_get n b' = sh_get n b) ->
  atom_text b' a = atom_text b a.
Proof.
  intros Hs Hy Hf. destruct a as [t|n]; [reflexivity|]. simpl. apply Hf. intros k Hk Heq.
  destruct Hs as [(x & Hx & ->)|(k0 & Hk0 & ->)].
  - exact (Hy x k Hx Heq).
  - apply helper_name_inj in Heq. lia.
Qed.

Lemma stable_weaken s xs hi hi' a : atom_stable s xs hi a -> (hi <= hi')%nat -> atom_stable s xs hi' a.
Proof. destruct a; [auto|]. intros [H|(k & Hk & E)] Hle; [left; exact H|right; exists k; split; [lia|exact E]]. Qed.

Lemma stable_vars s xs ys hi a : atom_stable s xs hi a -> incl xs ys -> atom_stable s ys hi a.
Proof. destruct a; [auto|]. intros [(x & Hx & E)|H] Hi; [left; exists x; split; [apply Hi; exact Hx|exact E]|right; exact H]. Qed.

Lemma represents_frame sg b b' s xs lo :
  represents sg b s xs -> hygienic s xs ->
  (forall n, (forall k, (lo <= k)%nat -> n <> helper_name s k) -> sh_get n b' = sh_get n b) ->
  represents sg b' s xs.
Proof.
  intros Hr Hy Hf x v Hx Hv. rewrite Hf; [apply Hr; assumption|]. intros k _ E. exact (Hy x k Hx E).
Qed.

Lemma sh_get_set_same n v b : sh_get n (sh_set n v b) = v.
Proof. unfold sh_set. simpl. rewrite beq_refl. reflexivity. Qed.

Lemma sh_get_set_other n m v b : n <> m -> sh_get n (sh_set m v b) = sh_get n b.
Proof. intro H. unfold sh_set. simpl. destruct (beq n m) eqn:E; [apply beq_eq in E; contradiction|reflexivity]. Qed.

(* finishing an expression with one helper assignment *)
Lemma finish_with_helper sg s s1 s2 (b b1 : shenv) xs ls1 mk a t v :
  ext s s1 ls1 -> (b_var_counter s <= b_var_counter s1)%nat ->
  exec_lines b ls1 = Some b1 ->
  (forall n, (forall k, (b_var_counter s <= k < b_var_counter s1)%nat -> n <> helper_name s k) -> sh_get n b1 = sh_get n b) ->
  helper_assign mk s1 = (a, s2) -> eval_rhs b1 mk = Some t -> t = text v ->
  outcome sg s s2 b xs v [a].
Proof.
  intros E1 M1 R1 F1 Hh Hev Ht.
  destruct (helper_assign_spec _ _ _ _ Hh) as (Ha & E2 & C2).
  rewrite (helper_name_ext _ _ _ _ E1) in Ha, E2.
  set (n := helper_name s (b_var_counter s1)) in *.
  refine (mkOut sg s s2 b xs v [a] (ls1 ++ [LAssign n mk]) a (sh_set n t b1) eq_refl _ _ _ _ _ _).
  - eapply ext_trans; eassumption.
  - lia.
  - rewrite exec_lines_app, R1. cbn [exec_lines exec_line]. rewrite Hev. reflexivity.
  - subst a. cbn [atom_text]. rewrite sh_get_set_same. exact Ht.
  - intros m Hm. rewrite sh_get_set_other.
    + apply F1. intros k Hk. apply Hm. lia.
    + apply Hm. lia.
  - subst a. right. exists (b_var_counter s1). split; [lia|reflexivity].
Qed.

Lemma text_int z : text (VInt z) = dec_Z z. Proof. reflexivity. Qed.
Lemma text_bool t : text (VBool t) = bool_text t. Proof. destruct t; reflexivity. Qed.
Lemma text_str t : text (VStr t) = t. Proof. reflexivity. Qed.

Lemma int_of_bool_text t : int_of_text (bool_text t) = Some (if t then 1 else 0)%Z.
Proof. destruct t; reflexivity. Qed.

Lemma int_of_dec z : in_range (VInt z) -> int_of_text (dec_Z z) = Some z.
Proof. intro H. apply atoi_dec_Z. exact H. Qed.

Lemma peval_typed sg e : env_ok sg -> forall v, lits_ok e -> peval sg e = Some v ->
  vkind v = dt (type_of e) /\ is_slice (type_of e) = false /\ in_range v.
Proof.
  intro Henv. pattern e. apply expr_ind';
    [ intros b | intros z | intros str0 | intros x IHe | intros e1 op e2 IHe1 IHe2 | intros e1 op e2 IHe1 IHe2
    | intros e1 op e2 IHe1 IHe2 | intros v0 | intros x IHe | intros n rets args Hargs | intros calls Hcalls
    | intros d0 vals Hvals | intros e1 e2 d0 IHe1 IHe2 | intros e1 e2 eo IHe1 IHe2 IHeo | intros x IHe
    | intros p IHp | intros d0 x IHe | intros x IHe | intros x IHe | intros x IHe ];
    intros val Hl H; cbn [peval] in H; try discriminate.
  - inversion H; subst. simpl. auto.
  - inversion H; subst. simpl. auto.
  - inversion H; subst. simpl. auto.
  - destruct (peval sg x) as [[| t | |]|] eqn:E; try discriminate. inversion H; subst.
    destruct (IHe _ Hl eq_refl) as (A & B & C). cbn [type_of]. simpl in A. rewrite <- A, B. simpl. auto.
  - destruct Hl as [Hl1 Hl2].
    destruct (peval sg e1) as [[a| |a|]|] eqn:E1; try discriminate; destruct (peval sg e2) as [[b| |b|]|] eqn:E2; try discriminate.
    + destruct (arith op a b) as [z|] eqn:Ea; [|discriminate]. inversion H; subst.
      destruct (IHe1 _ Hl1 eq_refl) as (A & B & C). destruct (IHe2 _ Hl2 eq_refl) as (_ & _ & C2).
      cbn [type_of]. rewrite <- A, B. simpl. split; [reflexivity|]. split; [reflexivity|].
      apply (arith_in_range op a b z Ea C C2).
    + destruct op; try discriminate. inversion H; subst.
      destruct (IHe1 _ Hl1 eq_refl) as (A & B & C). cbn [type_of]. rewrite <- A, B. simpl. auto.
  - destruct (peval sg e1) as [a|]; [|discriminate]. destruct (peval sg e2) as [b|]; [|discriminate].
    destruct (compare_vals op a b); [|discriminate]. inversion H; subst. simpl. auto.
  - destruct (peval sg e1) as [[| a | |]|]; try discriminate. destruct (peval sg e2) as [[| b | |]|]; try discriminate.
    inversion H; subst. simpl. auto.
  - destruct (Henv _ _ H) as (A & B & C). cbn [type_of]. auto.
  - apply IHe; assumption.
  - destruct (peval sg x) as [[| |t|]|]; try discriminate. destruct (Z.of_nat (length t) <=? int64_max)%Z eqn:El; [|discriminate].
    inversion H; subst. apply Z.leb_le in El. simpl. split; [reflexivity|]. split; [reflexivity|]. unfold int64_min. lia.
  - destruct (peval sg x) as [[z| | |]|]; try discriminate. inversion H; subst. simpl. auto.
Qed.

Lemma incl_app_l {A} (a b : list A) : incl a (a ++ b). Proof. intros x H. apply in_or_app. left. exact H. Qed.
Lemma incl_app_r {A} (a b : list A) : incl b (a ++ b). Proof. intros x H. apply in_or_app. right. exact H. Qed.

Lemma represents_incl sg b s xs ys : represents sg b s ys -> incl xs ys -> represents sg b s xs.
Proof. intros H Hi x v Hx. apply H. apply Hi. exact Hx. Qed.
Lemma hygienic_incl s xs ys : hygienic s ys -> incl xs ys -> hygienic s xs.
Proof. intros H Hi x k Hx. apply H. apply Hi. exact Hx. Qed.

Lemma outcome_incl sg s s' b xs ys v vs : outcome sg s s' b xs v vs -> incl xs ys -> outcome sg s s' b ys v vs.
Proof.
  intros [ls a b' H1 H2 H3 H4 H5 H6 H7] Hi.
  exact (mkOut sg s s' b ys v vs ls a b' H1 H2 H3 H4 H5 H6 (stable_vars _ _ _ _ _ H7 Hi)).
Qed.

(* two operands in a row: the second runs in the environment the first left, the first atom keeps its text *)
Lemma two_operands sg s s1 s2 b xs1 xs2 v1 v2 vs1 vs2 :
  outcome sg s s1 b xs1 v1 vs1 ->
  (forall b1, represents sg b1 s1 xs2 -> hygienic s1 xs2 -> outcome sg s1 s2 b1 xs2 v2 vs2) ->
  represents sg b s (xs1 ++ xs2) -> hygienic s (xs1 ++ xs2) ->
  exists ls a1 a2 b2,
    vs1 = [a1] /\ vs2 = [a2] /\ ext s s2 ls /\ (b_var_counter s <= b_var_counter s2)%nat /\
    exec_lines b ls = Some b2 /\ atom_text b2 a1 = text v1 /\ atom_text b2 a2 = text v2 /\
    (forall n, (forall k, (b_var_counter s <= k < b_var_counter s2)%nat -> n <> helper_name s k) -> sh_get n b2 = sh_get n b).
Proof.
  intros [l1 a1 b1 O1 E1 M1 R1 V1 F1 S1] H2 Hrep Hhy.
  assert (hygienic s1 xs2) as Hy2.
  { intros x k Hx. rewrite (user_name_ext _ _ _ _ E1), (helper_name_ext _ _ _ _ E1). apply Hhy. apply in_or_app. right. exact Hx. }
  assert (represents sg b1 s1 xs2) as Hr2.
  { intros x v Hx Hv. rewrite (user_name_ext _ _ _ _ E1). rewrite F1.
    - apply Hrep; [apply in_or_app; right; exact Hx|exact Hv].
    - intros k _ Heq. apply (Hhy x k); [apply in_or_app; right; exact Hx|exact Heq]. }
  destruct (H2 b1 Hr2 Hy2) as [l2 a2 b2 O2 E2 M2 R2 V2 F2 S2].
  exists (l1 ++ l2), a1, a2, b2. split; [exact O1|]. split; [exact O2|]. split; [eapply ext_trans; eassumption|].
  split; [lia|]. split; [rewrite exec_lines_app, R1; exact R2|]. split; [|split; [exact V2|]].
  - rewrite <- V1. eapply (stable_text s xs1 (b_var_counter s1)); [exact S1|eapply hygienic_incl; [exact Hhy|apply incl_app_l]|].
    intros n Hn. apply F2. intros k Hk. rewrite (helper_name_ext _ _ _ _ E1). apply Hn. lia.
  - intros n Hn. rewrite F2.
    + apply F1. intros k Hk. apply Hn. lia.
    + intros k Hk. rewrite (helper_name_ext _ _ _ _ E1). apply Hn. lia.
Qed.

Definition preserved (e : expr) : Prop :=
  pure e = true -> forall sg used s vs s' b v,
  t_expr bash_conv e used s = TOk vs s' -> peval sg e = Some v -> env_ok sg -> lits_ok e ->
  represents sg b s (vars_of e) -> hygienic s (vars_of e) ->
  outcome sg s s' b (vars_of e) v vs.

Lemma literal_outcome sg s b xs v t : t = text v -> outcome sg s s b xs v [ALit t].
Proof.
  intro Ht. refine (mkOut sg s s b xs v [ALit t] [] (ALit t) b eq_refl (ext_refl s) (le_n _) eq_refl Ht _ I).
  intros n _. reflexivity.
Qed.

Theorem expr_preserve : forall e, preserved e.
Proof.
  apply expr_ind';
    [ intros b0 | intros z | intros str0 | intros x IHe | intros e1 op e2 IHe1 IHe2 | intros e1 op e2 IHe1 IHe2
    | intros e1 op e2 IHe1 IHe2 | intros v0 | intros x IHe | intros n rets args Hargs | intros calls Hcalls
    | intros d0 vals Hvals | intros e1 e2 d0 IHe1 IHe2 | intros e1 e2 eo IHe1 IHe2 IHeo | intros x IHe
    | intros p IHp | intros d0 x IHe | intros x IHe | intros x IHe | intros x IHe ];
    intros Hp sg used s vs s' b v Ht Hv Henv Hl Hrep Hhy; cbn [pure] in Hp; try discriminate;
    cbn [t_expr] in Ht; cbn [peval] in Hv; cbn [vars_of] in *.
  - (* bool *) mr Ht. inversion Hv; subst. apply literal_outcome. destruct b0; reflexivity.
  - (* int *) mr Ht. inversion Hv; subst. apply literal_outcome. reflexivity.
  - (* string *) mb Ht as a s1 H1 H2. mr H2. ml H1. unfold bash_conv in H1. cbn [cv_string] in H1. inversion H1; subst.
    inversion Hv; subst. apply literal_outcome. reflexivity.
  - (* unary *)
    mb Ht as vx s1 H1 H2. mb H2 as a s2 H2 H3. mr H3. ml H2. unfold bash_conv in H2. cbn [cv_unary] in H2.
    destruct (peval sg x) as [[| t | |]|] eqn:Ex; try discriminate. inversion Hv; subst.
    destruct (IHe Hp sg true s vx s1 b (VBool t) H1 Ex Henv Hl Hrep Hhy) as [l1 a1 b1 O1 E1 M1 R1 V1 F1 S1]. subst vx.
    cbn [first_value] in H2.
    eapply (finish_with_helper sg s s1 s' b b1 _ l1 _ a (bool_text (negb t))); try eassumption.
    + cbn [eval_rhs]. rewrite V1, text_bool, int_of_bool_text. destruct t; reflexivity.
    + rewrite text_bool. reflexivity.
  - (* binary *)
    apply andb_true_iff in Hp as [Hp1 Hp2]. destruct Hl as [Hl1 Hl2].
    mb Ht as vl s1 H1 H2. mb H2 as vr s2 H2 H3. mb H3 as a s3 H3 H4. mr H4.
    destruct (peval sg e1) as [v1|] eqn:E1; [|discriminate]. destruct (peval sg e2) as [v2|] eqn:E2; [|destruct v1; discriminate].
    destruct (peval_typed sg e1 Henv v1 Hl1 E1) as (T1 & Sl1 & Rg1). destruct (peval_typed sg e2 Henv v2 Hl2 E2) as (T2 & Sl2 & Rg2).
    pose proof (IHe1 Hp1 sg true s vl s1 b v1 H1 E1 Henv Hl1 (represents_incl _ _ _ _ _ Hrep (incl_app_l _ _)) (hygienic_incl _ _ _ Hhy (incl_app_l _ _))) as O1.
    destruct (two_operands sg s s1 s2 b (vars_of e1) (vars_of e2) v1 v2 vl vr O1) as (ls & a1 & a2 & b2 & -> & -> & E & M & R & V1 & V2 & F); [|exact Hrep|exact Hhy|].
    { intros b1 Hr1 Hy1. apply (IHe2 Hp2 sg true s1 _ s2 b1 v2 H2 E2 Henv Hl2 Hr1 Hy1). }
    cbn [first_value] in H3. unfold bash_conv in H3. cbn [cv_binary] in H3. rewrite Sl1 in H3. rewrite <- T1 in H3.
    destruct v1 as [x1| |x1|]; destruct v2 as [x2| |x2|]; try discriminate; cbn [vkind] in H3.
    + destruct (arith op x1 x2) as [z|] eqn:Ea; [|discriminate]. inversion Hv; subst v.
      destruct (helper_assign (RArith a1 op a2) s2) as [h s4] eqn:Eh. inversion H3; subst.
      eapply (finish_with_helper sg s s2 s' b b2 _ ls _ a (dec_Z z)); try eassumption; [|reflexivity].
      cbn [eval_rhs]. rewrite V1, V2, !text_int, !int_of_dec by assumption. rewrite Ea. reflexivity.
    + destruct op; try discriminate. inversion Hv; subst v.
      destruct (helper_assign (RConcat a1 a2) s2) as [h s4] eqn:Eh. inversion H3; subst.
      eapply (finish_with_helper sg s s2 s' b b2 _ ls _ a (x1 ++ x2)); try eassumption; [|reflexivity].
      cbn [eval_rhs]. rewrite V1, V2. reflexivity.
  - (* comparison *)
    apply andb_true_iff in Hp as [Hp1 Hp2]. destruct Hl as [Hl1 Hl2].
    mb Ht as vl s1 H1 H2. mb H2 as vr s2 H2 H3. mb H3 as a s3 H3 H4. mr H4.
    destruct (peval sg e1) as [v1|] eqn:E1; [|discriminate]. destruct (peval sg e2) as [v2|] eqn:E2; [|discriminate].
    destruct (compare_vals op v1 v2) as [t|] eqn:Ec; [|discriminate]. inversion Hv; subst v.
    destruct (peval_typed sg e1 Henv v1 Hl1 E1) as (T1 & Sl1 & Rg1). destruct (peval_typed sg e2 Henv v2 Hl2 E2) as (T2 & Sl2 & Rg2).
    pose proof (IHe1 Hp1 sg true s vl s1 b v1 H1 E1 Henv Hl1 (represents_incl _ _ _ _ _ Hrep (incl_app_l _ _)) (hygienic_incl _ _ _ Hhy (incl_app_l _ _))) as O1.
    destruct (two_operands sg s s1 s2 b (vars_of e1) (vars_of e2) v1 v2 vl vr O1) as (ls & a1 & a2 & b2 & -> & -> & E & M & R & V1 & V2 & F); [|exact Hrep|exact Hhy|].
    { intros b1 Hr1 Hy1. apply (IHe2 Hp2 sg true s1 _ s2 b1 v2 H2 E2 Henv Hl2 Hr1 Hy1). }
    cbn [first_value] in H3. unfold bash_conv in H3. cbn [cv_comparison] in H3.
    unfold cmp_text in H3. rewrite Sl1 in H3. rewrite <- T1 in H3.
    destruct (match vkind v1, op with
              | DBool, CEq | DInt, CEq => Some (bs "-eq") | DBool, CNe | DInt, CNe => Some (bs "-ne")
              | DInt, CGt => Some (bs "-gt") | DInt, CGe => Some (bs "-ge") | DInt, CLt => Some (bs "-lt") | DInt, CLe => Some (bs "-le")
              | DString, CEq => Some (bs "==") | DString, CNe => Some (bs "!=") | _, _ => None end) as [o|] eqn:Eo; [|discriminate].
    destruct (helper_assign (RCompare a1 o a2) s2) as [h s4] eqn:Eh. inversion H3; subst.
    eapply (finish_with_helper sg s s2 s' b b2 _ ls _ a (bool_text t)); try eassumption; [|rewrite text_bool; reflexivity].
    cbn [eval_rhs]. rewrite V1, V2.
    destruct v1 as [x1|x1|x1|]; destruct v2 as [x2|x2|x2|]; try discriminate; cbn [vkind] in Eo.
    + (* ints *) rewrite !text_int, !int_of_dec by assumption.
      destruct op; inversion Eo; subst o; cbn [compare_vals] in Ec; inversion Ec; subst t; reflexivity.
    + (* bools *) rewrite !text_bool, !int_of_bool_text.
      destruct op; inversion Eo; subst o; cbn [compare_vals] in Ec; inversion Ec; subst t; destruct x1, x2; reflexivity.
    + (* strings *) rewrite !text_str.
      destruct op; inversion Eo; subst o; cbn [compare_vals] in Ec; inversion Ec; subst t; reflexivity.
  - (* logical *)
    apply andb_true_iff in Hp as [Hp1 Hp2]. destruct Hl as [Hl1 Hl2].
    mb Ht as vl s1 H1 H2. mb H2 as vr s2 H2 H3. mb H3 as a s3 H3 H4. mr H4. ml H3.
    destruct (peval sg e1) as [[| t1 | |]|] eqn:E1; try discriminate. destruct (peval sg e2) as [[| t2 | |]|] eqn:E2; try discriminate.
    inversion Hv; subst v.
    pose proof (IHe1 Hp1 sg true s vl s1 b _ H1 E1 Henv Hl1 (represents_incl _ _ _ _ _ Hrep (incl_app_l _ _)) (hygienic_incl _ _ _ Hhy (incl_app_l _ _))) as O1.
    destruct (two_operands sg s s1 s2 b (vars_of e1) (vars_of e2) (VBool t1) (VBool t2) vl vr O1) as (ls & a1 & a2 & b2 & -> & -> & E & M & R & V1 & V2 & F); [|exact Hrep|exact Hhy|].
    { intros b1 Hr1 Hy1. apply (IHe2 Hp2 sg true s1 _ s2 b1 _ H2 E2 Henv Hl2 Hr1 Hy1). }
    cbn [first_value] in H3. unfold bash_conv in H3. cbn [cv_logical] in H3.
    eapply (finish_with_helper sg s s2 s' b b2 _ ls _ a (bool_text (match op with LAnd => t1 && t2 | LOr => t1 || t2 end))); try eassumption.
    + cbn [eval_rhs]. rewrite V1, V2, !text_bool, !int_of_bool_text. destruct op, t1, t2; reflexivity.
    + rewrite text_bool. reflexivity.
  - (* variable *)
    inversion Ht; subst.
    refine (mkOut sg s' s' b [v0] v _ [] (ARef (user_name s' v0)) b eq_refl (ext_refl s') (le_n _) eq_refl _ _ _).
    + cbn [atom_text]. apply Hrep; [left; reflexivity|exact Hv].
    + intros n _. reflexivity.
    + left. exists v0. split; [left; reflexivity|reflexivity].
  - (* group *) apply (IHe Hp sg used s vs s' b v Ht Hv Henv Hl Hrep Hhy).
  - (* len of a string *)
    apply andb_true_iff in Hp as [Hp Hstr]. mb Ht as vx s1 H1 H2. rewrite Hstr in H2. mb H2 as a s2 H2 H3. mr H3. ml H2.
    unfold bash_conv in H2. cbn [cv_string_len] in H2.
    destruct (peval sg x) as [[| |t|]|] eqn:Ex; try discriminate. destruct (Z.of_nat (length t) <=? int64_max)%Z eqn:El; [|discriminate]. inversion Hv; subst v.
    destruct (IHe Hp sg true s vx s1 b (VStr t) H1 Ex Henv Hl Hrep Hhy) as [l1 a1 b1 O1 E1 M1 R1 V1 F1 S1]. subst vx. cbn [first_value] in H2.
    unfold next_helper in H2. cbn zeta in H2. inversion H2; subst a s'; clear H2.
    set (n := helper_name s (b_var_counter s1)).
    assert (var_name {| b_start := b_start s1; b_code := b_code s1; b_var_counter := S (b_var_counter s1); b_for_counter := b_for_counter s1;
                        b_fors := b_fors s1; b_funcs := b_funcs s1; b_func_counter := b_func_counter s1; b_sah := b_sah s1; b_sch := b_sch s1; b_ssh := b_ssh s1 |}
                     (95 :: 104 :: dec_nat (b_var_counter s1)) false = n) as Hn
      by (unfold n; rewrite <- (helper_name_ext _ _ _ (b_var_counter s1) E1); reflexivity).
    rewrite Hn.
    refine (mkOut sg s _ b _ _ [ARef n] (l1 ++ [LAssign n (RAtom a1); LAssign n (RStrLen n)]) (ARef n)
              (sh_set n (dec_Z (Z.of_nat (length t))) (sh_set n (atom_text b1 a1) b1)) eq_refl _ _ _ _ _ _).
    + eapply ext_trans; [exact E1|]. constructor; try reflexivity. cbn [add_line b_code]. rewrite <- app_assoc. reflexivity.
    + cbn [add_line b_var_counter]. lia.
    + rewrite exec_lines_app, R1. cbn [exec_lines exec_line eval_rhs]. rewrite sh_get_set_same, V1, text_str. reflexivity.
    + cbn [atom_text]. rewrite sh_get_set_same. reflexivity.
    + intros m Hm. rewrite !sh_get_set_other; [apply F1; intros k Hk; apply Hm; cbn [add_line b_var_counter]; lia| |];
        apply Hm; cbn [add_line b_var_counter]; lia.
    + right. exists (b_var_counter s1). split; [cbn [add_line b_var_counter]; lia|reflexivity].
  - (* itoa *)
    mb Ht as vx s1 H1 H2. mr H2.
    destruct (peval sg x) as [[z| | |]|] eqn:Ex; try discriminate. inversion Hv; subst v.
    destruct (IHe Hp sg true s vx s' b (VInt z) H1 Ex Henv Hl Hrep Hhy) as [l1 a1 b1 O1 E1 M1 R1 V1 F1 S1]. subst vx.
    refine (mkOut sg s s' b _ _ _ l1 a1 b1 eq_refl E1 M1 R1 _ F1 S1). rewrite V1. reflexivity.
Qed.
