(* Semantics of the straight-line scalar lines of the Bash converter: variable assignments whose right-hand
   side is an atom, an arithmetic expansion, a test in a command substitution, or a concatenation.
   Text is interpreted as Bash does inside double quotes for text without $, backquote, backslash and
   double quote (shell-neutral text): it stands for itself.  Validated against /bin/bash by the sem-* streams. *)
From Verif Require Import Base.Bytestr Front.Ast Front.FrontModel Back.BashLines Sem.Src.
From Coq Require Import ZArith.
Open Scope N_scope.

Definition shenv := list (bytes * bytes).      (* variable -> value text; an unset variable expands to nothing *)

Fixpoint sh_get (n : bytes) (e : shenv) : bytes :=
  match e with [] => [] | (k, v) :: r => if beq n k then v else sh_get n r end.

Definition sh_set (n v : bytes) (e : shenv) : shenv := (n, v) :: e.

Definition atom_text (e : shenv) (a : atom) : bytes :=
  match a with ALit b => b | ARef n => sh_get n e end.

(* an operand of $(( )) or of an integer test: optional minus, digits, within int64 *)
Definition int_of_text (t : bytes) : option Z := atoi t.

Definition bool_text (b : bool) : bytes := if b then [49] else [48].

Definition int_test (op : bytes) (a b : Z) : option bool :=
  if beq op (bs "-eq") then Some (a =? b)%Z
  else if beq op (bs "-ne") then Some (negb (a =? b)%Z)
  else if beq op (bs "-gt") then Some (b <? a)%Z
  else if beq op (bs "-ge") then Some (b <=? a)%Z
  else if beq op (bs "-lt") then Some (a <? b)%Z
  else if beq op (bs "-le") then Some (a <=? b)%Z
  else None.

Definition eval_rhs (e : shenv) (r : rhs) : option bytes :=
  match r with
  | RAtom a => Some (atom_text e a)
  | RNot a =>
      match int_of_text (atom_text e a) with
      | Some z => Some (bool_text (negb (z =? 1)%Z))
      | None => None                                   (* [: integer expression expected *)
      end
  | RArith l op r =>
      match int_of_text (atom_text e l), int_of_text (atom_text e r) with
      | Some a, Some b => match arith op a b with Some z => Some (dec_Z z) | None => None end
      | _, _ => None
      end
  | RConcat l r => Some (atom_text e l ++ atom_text e r)
  | RCompare l op r =>
      if beq op (bs "==") then Some (bool_text (beq (atom_text e l) (atom_text e r)))
      else if beq op (bs "!=") then Some (bool_text (negb (beq (atom_text e l) (atom_text e r))))
      else match int_of_text (atom_text e l), int_of_text (atom_text e r) with
           | Some a, Some b => match int_test op a b with Some t => Some (bool_text t) | None => None end
           | _, _ => None
           end
  | RLogical l op r =>
      match int_of_text (atom_text e l), int_of_text (atom_text e r) with
      | Some a, Some b =>
          Some (bool_text (match op with LAnd => (a =? 1)%Z && (b =? 1)%Z | LOr => (a =? 1)%Z || (b =? 1)%Z end))
      | _, _ => None
      end
  | RStrLen n => Some (dec_Z (Z.of_nat (length (sh_get n e))))      (* ${#n}: bytes, the script sets LC_ALL=C *)
  | _ => None
  end.

(* one line; None: outside the fragment or an error on stderr *)
Definition exec_line (e : shenv) (l : line) : option shenv :=
  match l with
  | LAssign n r => match eval_rhs e r with Some v => Some (sh_set n v e) | None => None end
  | _ => None
  end.

Fixpoint exec_lines (e : shenv) (ls : list line) : option shenv :=
  match ls with
  | [] => Some e
  | l :: r => match exec_line e l with Some e' => exec_lines e' r | None => None end
  end.

Lemma exec_lines_app e a b : exec_lines e (a ++ b) = match exec_lines e a with Some e' => exec_lines e' b | None => None end.
Proof. revert e; induction a as [|l a IH]; intro e; simpl; [reflexivity|]. destruct (exec_line e l); [apply IH|reflexivity]. Qed.
