(* Reference semantics of TypeShell programs (the Go meaning of the shared syntax, with the README's
   eager conditions): a fuelled interpreter over the Core AST.  Specification, not a model of the code.
   64-bit wrapping integers, bools print as 1/0, strings are byte strings, slices are references into a
   heap and grow on assignment at or beyond their end; variable operands are read when the operation that
   consumes them is carried out (Go leaves the order of operand reads relative to calls unspecified).
   Behaviour the properties exclude yields Undef. *)
From Verif Require Import Base.Bytestr Front.Ast.
From Coq Require Import ZArith.
Open Scope Z_scope.

Inductive value := VInt (z : Z) | VBool (b : bool) | VStr (s : bytes) | VSlice (id : nat).

Definition wrap64 (z : Z) : Z := (z + 9223372036854775808) mod 18446744073709551616 - 9223372036854775808.

Definition envt := list (bytes * value).

Fixpoint eget (k : bytes) (e : envt) : option value :=
  match e with [] => None | (k', v) :: r => if beq k k' then Some v else eget k r end.
Fixpoint eset (k : bytes) (v : value) (e : envt) : envt :=
  match e with [] => [(k, v)] | (k', v') :: r => if beq k k' then (k, v) :: r else (k', v') :: eset k v r end.

Record fn := mkFn { fn_params : list var; fn_body : list stmt }.

Record sstate := mkS {
  s_globals : envt;
  s_frame : envt;                      (* variables of the running function (or of top-level blocks) *)
  s_heap : list (list value);          (* slices *)
  s_funcs : list (bytes * fn);
  s_files : list (bytes * list bytes); (* path -> lines (write/read/exists) *)
  s_out : bytes;                       (* standard output so far *)
  s_stdin : list bytes                 (* lines still to be read by input() *)
}.

Definition s_init : sstate := mkS [] [] [] [] [] [] [].

Inductive res (A : Type) :=
| Done (a : A) (s : sstate)
| Exited (code : Z) (s : sstate)      (* panic: the program ends here *)
| Undef
| NoFuel.
Arguments Done {A}. Arguments Exited {A}. Arguments Undef {A}. Arguments NoFuel {A}.

Definition R (A : Type) := sstate -> res A.
Definition rret {A} (a : A) : R A := fun s => Done a s.
Definition rbind {A B} (m : R A) (f : A -> R B) : R B :=
  fun s => match m s with Done a s' => f a s' | Exited c s' => Exited c s' | Undef => Undef | NoFuel => NoFuel end.
Definition undef {A} : R A := fun _ => Undef.
Notation "x <- m ;; k" := (rbind m (fun x => k)) (at level 61, m at next level, right associativity).
Notation "m ;;; k" := (rbind m (fun _ => k)) (at level 61, right associativity).

(* an operand: a value already computed, or a variable that is read when the operand is consumed *)
Inductive operand := Imm (v : value) | Ref (x : var) (as_text : bool).

Definition read_var (x : var) : R value :=
  fun s => match eget (v_name x) (if v_global x then s_globals s else s_frame s) with
           | Some v => Done v s
           | None => Undef
           end.

Definition write_var (x : var) (v : value) : R unit :=
  fun s => if v_global x
           then Done tt (mkS (eset (v_name x) v (s_globals s)) (s_frame s) (s_heap s) (s_funcs s) (s_files s) (s_out s) (s_stdin s))
           else Done tt (mkS (s_globals s) (eset (v_name x) v (s_frame s)) (s_heap s) (s_funcs s) (s_files s) (s_out s) (s_stdin s)).

Definition text_of (v : value) : option bytes :=
  match v with
  | VInt z => Some (dec_Z z)
  | VBool b => Some (if b then [49%N] else [48%N])
  | VStr s => Some s
  | VSlice _ => None
  end.

Definition force (o : operand) : R value :=
  match o with
  | Imm v => rret v
  | Ref x false => read_var x
  | Ref x true => v <- read_var x ;; match text_of v with Some t => rret (VStr t) | None => undef end
  end.

Definition first_op (l : list operand) : R operand := match l with o :: _ => rret o | [] => undef end.

Fixpoint force_all (l : list operand) : R (list value) :=
  match l with [] => rret [] | o :: r => v <- force o ;; vs <- force_all r ;; rret (v :: vs) end.

Definition zero_of (d : dtype) : value :=
  match d with DInt => VInt 0 | DBool => VBool false | _ => VStr [] end.

Definition get_slice (id : nat) : R (list value) :=
  fun s => match nth_error (s_heap s) id with Some l => Done l s | None => Undef end.

Fixpoint replace_nth {A} (n : nat) (x : A) (l : list A) : list A :=
  match l, n with
  | [], _ => []
  | _ :: r, O => x :: r
  | y :: r, S k => y :: replace_nth k x r
  end.

(* the list a slice holds after  s[n] = v : in place, or grown with the element type's zero value *)
Definition slice_store (l : list value) (n : nat) (v zero : value) : list value :=
  if (n <? length l)%nat then replace_nth n v l else l ++ repeat zero (n - length l) ++ [v].

(* the list the destination holds after  copy(dst, src) : every element of the source is stored, a longer destination keeps its tail *)
Definition copy_store (ls ld : list value) : list value := ls ++ skipn (length ls) ld.

Definition set_slice (id : nat) (l : list value) : R unit :=
  fun s => Done tt (mkS (s_globals s) (s_frame s) (replace_nth id l (s_heap s)) (s_funcs s) (s_files s) (s_out s) (s_stdin s)).

Definition new_slice (l : list value) : R value :=
  fun s => Done (VSlice (length (s_heap s))) (mkS (s_globals s) (s_frame s) (s_heap s ++ [l]) (s_funcs s) (s_files s) (s_out s) (s_stdin s)).

Definition emit_line (t : bytes) : R unit :=
  fun s => Done tt (mkS (s_globals s) (s_frame s) (s_heap s) (s_funcs s) (s_files s) (s_out s ++ t ++ [10%N]) (s_stdin s)).

Definition arith (op : binop) (a b : Z) : option Z :=
  match op with
  | OpAdd => Some (wrap64 (a + b))
  | OpSub => Some (wrap64 (a - b))
  | OpMul => Some (wrap64 (a * b))
  | OpDiv => if b =? 0 then None else Some (wrap64 (Z.quot a b))
  | OpMod => if b =? 0 then None else Some (Z.rem a b)
  end.

Definition compare_vals (op : cmpop) (a b : value) : option bool :=
  match a, b with
  | VInt x, VInt y =>
      Some (match op with CEq => x =? y | CNe => negb (x =? y) | CLt => x <? y | CLe => x <=? y | CGt => y <? x | CGe => y <=? x end)
  | VBool x, VBool y => match op with CEq => Some (Bool.eqb x y) | CNe => Some (negb (Bool.eqb x y)) | _ => None end
  | VStr x, VStr y => match op with CEq => Some (beq x y) | CNe => Some (negb (beq x y)) | _ => None end
  | _, _ => None
  end.

Definition sub_bytes (s : bytes) (a len : nat) : bytes := firstn len (skipn a s).

Inductive signal := SigNext | SigBreak | SigCont | SigRet (vs : list value).

Fixpoint eget_fn (k : bytes) (e : list (bytes * fn)) : option fn :=
  match e with [] => None | (k', v) :: r => if beq k k' then Some v else eget_fn k r end.
Fixpoint eget_file (k : bytes) (e : list (bytes * list bytes)) : option (list bytes) :=
  match e with [] => None | (k', v) :: r => if beq k k' then Some v else eget_file k r end.
Fixpoint eset_file (k : bytes) (v : list bytes) (e : list (bytes * list bytes)) : list (bytes * list bytes) :=
  match e with [] => [(k, v)] | (k', v') :: r => if beq k k' then (k, v) :: r else (k', v') :: eset_file k v r end.

Definition lines_text (ls : list bytes) : bytes := join [10%N] ls.

Section Run.
  (* expressions: the list of result operands (several for multi-value calls) *)
  Fixpoint eval (fuel : nat) (e : expr) {struct fuel} : R (list operand) :=
    match fuel with
    | O => fun _ => NoFuel
    | S f =>
        let ev1 := fun x => (l <- eval f x ;; first_op l) in
        let evs := fix evs (es : list expr) : R (list operand) :=
          match es with [] => rret [] | x :: r => o <- ev1 x ;; os <- evs r ;; rret (o :: os) end in
        match e with
        | EBool b => rret [Imm (VBool b)]
        | EInt z => rret [Imm (VInt z)]
        | EStr s => rret [Imm (VStr s)]
        | EUnary x =>
            o <- ev1 x ;; v <- force o ;;
            match v with VBool b => rret [Imm (VBool (negb b))] | _ => undef end
        | EBinary l op r =>
            ol <- ev1 l ;; or_ <- ev1 r ;; vl <- force ol ;; vr <- force or_ ;;
            match vl, vr with
            | VInt a, VInt b => match arith op a b with Some z => rret [Imm (VInt z)] | None => undef end
            | VStr a, VStr b => match op with OpAdd => rret [Imm (VStr (a ++ b))] | _ => undef end
            | _, _ => undef
            end
        | ECompare l op r =>
            ol <- ev1 l ;; or_ <- ev1 r ;; vl <- force ol ;; vr <- force or_ ;;
            match compare_vals op vl vr with Some b => rret [Imm (VBool b)] | None => undef end
        | ELogical l op r =>
            ol <- ev1 l ;; or_ <- ev1 r ;; vl <- force ol ;; vr <- force or_ ;;
            match vl, vr with
            | VBool a, VBool b => rret [Imm (VBool (match op with LAnd => a && b | LOr => a || b end))]
            | _, _ => undef
            end
        | EVar x => rret [Ref x false]
        | EGroup x => eval f x
        | ECall name rets args =>
            os <- evs args ;;
            vs <- force_all os ;;
            (fun s =>
               match eget_fn name (s_funcs s) with
               | None => Undef
               | Some fd =>
                   if negb (Nat.eqb (length (fn_params fd)) (length vs)) then Undef else
                   let caller := s_frame s in
                   let callee := fold_left (fun e pv => eset (v_name (fst pv)) (snd pv) e) (combine (fn_params fd) vs) [] in
                   match exec_block f (fn_body fd) (mkS (s_globals s) callee (s_heap s) (s_funcs s) (s_files s) (s_out s) (s_stdin s)) with
                   | Done sig s' =>
                       let back := mkS (s_globals s') caller (s_heap s') (s_funcs s') (s_files s') (s_out s') (s_stdin s') in
                       match sig with
                       | SigRet rv => if Nat.eqb (length rv) (length rets) then Done (map Imm rv) back else Undef
                       | SigNext => match rets with [] => Done [] back | _ => Undef end
                       | _ => Undef
                       end
                   | Exited c s' => Exited c s'
                   | Undef => Undef
                   | NoFuel => NoFuel
                   end
               end)
        | EApp _ => undef
        | ESliceInst _ vals => os <- evs vals ;; vs <- force_all os ;; v <- new_slice vs ;; rret [Imm v]
        | ESliceEval value idx _ =>
            ov <- ev1 value ;; oi <- ev1 idx ;; vv <- force ov ;; vi <- force oi ;;
            match vv, vi with
            | VSlice id, VInt i =>
                l <- get_slice id ;;
                if i <? 0 then undef else
                match nth_error l (Z.to_nat i) with Some x => rret [Imm x] | None => undef end
            | _, _ => undef
            end
        | ESubscript value start stop =>
            oa <- ev1 start ;;
            ob <- (match stop with Some b => ev1 b | None => rret oa end) ;;
            ov <- ev1 value ;;
            vv <- force ov ;; va <- force oa ;; vb <- force ob ;;
            match vv, va, vb with
            | VStr s, VInt a, VInt b =>
                (* characters a..b inclusive; in range: 0 <= a, b < len, a <= b + 1 *)
                if (a <? 0) || (Z.of_nat (length s) <=? b) || (b + 1 <? a) || (match stop with None => Z.of_nat (length s) <=? a | Some _ => false end)
                then undef
                else rret [Imm (VStr (sub_bytes s (Z.to_nat a) (Z.to_nat (b - a + 1))))]
            | _, _, _ => undef
            end
        | ELen x =>
            o <- ev1 x ;; v <- force o ;;
            match v with
            | VStr s => rret [Imm (VInt (Z.of_nat (length s)))]
            | VSlice id => l <- get_slice id ;; rret [Imm (VInt (Z.of_nat (length l)))]
            | _ => undef
            end
        | EInput p =>
            (* the prompt is evaluated first (it goes to the terminal only); then one line is consumed; end of input gives "" *)
            (match p with Some x => o <- ev1 x ;; force o ;;; rret tt | None => rret tt end) ;;;
            (fun s => match s_stdin s with
                      | [] => Done [Imm (VStr [])] s
                      | l :: r => Done [Imm (VStr l)] (mkS (s_globals s) (s_frame s) (s_heap s) (s_funcs s) (s_files s) (s_out s) r)
                      end)
        | ECopy dst src =>
            os <- ev1 src ;; vs <- force os ;; vd <- read_var dst ;;
            match vd, vs with
            | VSlice d, VSlice sid =>
                ld <- get_slice d ;; ls <- get_slice sid ;;
                (* every element of the source is stored, a longer destination keeps its tail; the count is the source's length *)
                set_slice d (copy_store ls ld) ;;; rret [Imm (VInt (Z.of_nat (length ls)))]
            | _, _ => undef
            end
        | EItoa x =>
            o <- ev1 x ;;
            match o with
            | Imm (VInt z) => rret [Imm (VStr (dec_Z z))]
            | Ref v _ => rret [Ref v true]
            | _ => undef
            end
        | EExists p =>
            o <- ev1 p ;; v <- force o ;;
            match v with
            | VStr path => fun s => Done [Imm (VBool (match eget_file path (s_files s) with Some _ => true | None => false end))] s
            | _ => undef
            end
        | ERead p =>
            o <- ev1 p ;; v <- force o ;;
            match v with
            | VStr path => fun s => match eget_file path (s_files s) with
                                    | Some ls => Done [Imm (VStr (lines_text ls))] s
                                    | None => Undef
                                    end
            | _ => undef
            end
        end
    end

  with exec (fuel : nat) (st : stmt) {struct fuel} : R signal :=
    match fuel with
    | O => fun _ => NoFuel
    | S f =>
        let ev1 := fun x => (l <- eval f x ;; first_op l) in
        let assign_many := fun (vars : list var) (es : list expr) =>
          (fix go (es : list expr) : R (list value) :=
             match es with [] => rret [] | x :: r => o <- ev1 x ;; v <- force o ;; vs <- go r ;; rret (v :: vs) end) es in
        let store := fix store (vars : list var) (vs : list value) : R unit :=
          match vars, vs with
          | [], _ => rret tt
          | x :: r, v :: vr => write_var x v ;;; store r vr
          | _ :: _, [] => undef
          end in
        match st with
        | SVarDef vars vals | SAssign vars vals =>
            vs <- assign_many vars (firstn (length vars) vals) ;; store vars vs ;;; rret SigNext
        | SVarDefCall vars call | SAssignCall vars call =>
            os <- eval f call ;; vs <- force_all os ;;
            if Nat.eqb (length vs) (length vars) then store vars vs ;;; rret SigNext else undef
        | SSliceAssign x idx val =>
            oi <- ev1 idx ;; ov <- ev1 val ;; vi <- force oi ;; vv <- force ov ;; vx <- read_var x ;;
            match vx, vi with
            | VSlice id, VInt i =>
                if i <? 0 then undef else
                l <- get_slice id ;;
                set_slice id (slice_store l (Z.to_nat i) vv (zero_of (dt (type_of val)))) ;;; rret SigNext
            | _, _ => undef
            end
        | SFunc name _ params body _ =>
            (fun s => Done SigNext (mkS (s_globals s) (s_frame s) (s_heap s) ((name, mkFn params body) :: s_funcs s) (s_files s) (s_out s) (s_stdin s)))
        | SReturn vals =>
            vs <- assign_many [] vals ;; rret (SigRet vs)
        | SIf branches els =>
            conds <- (fix cs (l : list (expr * list stmt)) : R (list bool) :=
                        match l with
                        | [] => rret []
                        | (c, _) :: r => o <- ev1 c ;; v <- force o ;;
                                         match v with VBool b => bs_ <- cs r ;; rret (b :: bs_) | _ => undef end
                        end) branches ;;
            (fix pick (l : list (expr * list stmt)) (bs_ : list bool) : R signal :=
               match l, bs_ with
               | (_, body) :: r, b :: br => if b then exec_block f body else pick r br
               | _, _ => exec_block f els
               end) branches conds
        | SFor init cond incr body =>
            (match init with Some i => exec f i | None => rret SigNext end) ;;;
            (fix loop (n : nat) (first : bool) : R signal :=
               match n with
               | O => fun _ => NoFuel
               | S n' =>
                   (if first then rret SigNext else match incr with Some i => exec f i | None => rret SigNext end) ;;;
                   o <- ev1 cond ;; v <- force o ;;
                   match v with
                   | VBool true =>
                       sg <- exec_block f body ;;
                       match sg with
                       | SigNext | SigCont => loop n' false
                       | SigBreak => rret SigNext
                       | other => rret other
                       end
                   | VBool false => rret SigNext
                   | _ => undef
                   end
               end) f true
        | SBreak => rret SigBreak
        | SContinue => rret SigCont
        | SPrint es =>
            os <- (fix pv (l : list expr) : R (list operand) :=
                     match l with [] => rret [] | x :: r => o <- eval f x ;; os <- pv r ;; rret (o ++ os) end) es ;;
            vs <- force_all os ;;
            match fold_right (fun v acc => match acc, text_of v with Some l, Some t => Some (t :: l) | _, _ => None end) (Some []) vs with
            | Some ts => emit_line (join [32%N] ts) ;;; rret SigNext
            | None => undef
            end
        | SPanic x =>
            o <- ev1 x ;; v <- force o ;;
            match text_of v with
            | Some t => emit_line (bs "panic: " ++ t) ;;; (fun s => Exited 1 s)
            | None => undef
            end
        | SWrite p d a =>
            op <- ev1 p ;; od <- ev1 d ;; oa <- ev1 a ;; vp <- force op ;; vd <- force od ;; va <- force oa ;;
            match vp, vd, va with
            | VStr path, VStr data, VBool app =>
                (fun s =>
                   let old := match eget_file path (s_files s) with Some l => l | None => [] end in
                   Done SigNext (mkS (s_globals s) (s_frame s) (s_heap s) (s_funcs s)
                                     (eset_file path (if app then old ++ [data] else [data]) (s_files s)) (s_out s) (s_stdin s)))
            | _, _, _ => undef
            end
        | SExpr x => eval f x ;;; rret SigNext
        end
    end

  with exec_block (fuel : nat) (b : list stmt) {struct fuel} : R signal :=
    match fuel with
    | O => fun _ => NoFuel
    | S f =>
        match b with
        | [] => rret SigNext
        | s :: r => sg <- exec f s ;; match sg with SigNext => exec_block f r | other => rret other end
        end
    end.
End Run.

(* a whole program: standard output and exit status; None = undefined behaviour or fuel exhausted *)
Inductive run_result := Ran (out : bytes) (status : Z) (files : list (bytes * list bytes)) | RunUndef | RunNoFuel.

Definition run (fuel : nat) (files : list (bytes * list bytes)) (stdin : list bytes) (body : list stmt) : run_result :=
  match exec_block fuel body (mkS [] [] [] [] files [] stdin) with
  | Done _ s => Ran (s_out s) 0 (s_files s)
  | Exited c s => Ran (s_out s) c (s_files s)
  | Undef => RunUndef
  | NoFuel => RunNoFuel
  end.
