(* Facts about the reference semantics (specification sanity). *)
From Verif Require Import Base.Bytestr Front.Ast Sem.Src.
From Coq Require Import ZArith Lia.
Open Scope Z_scope.

Definition int64_min : Z := -9223372036854775808.
Definition int64_max : Z := 9223372036854775807.

Lemma wrap64_range z : int64_min <= wrap64 z <= int64_max.
Proof.
  unfold wrap64, int64_min, int64_max.
  pose proof (Z.mod_pos_bound (z + 9223372036854775808) 18446744073709551616 ltac:(lia)). lia.
Qed.

Lemma wrap64_congruent z : (wrap64 z - z) mod 18446744073709551616 = 0.
Proof.
  unfold wrap64.
  replace ((z + 9223372036854775808) mod 18446744073709551616 - 9223372036854775808 - z)
    with ((z + 9223372036854775808) mod 18446744073709551616 - (z + 9223372036854775808)) by lia.
  rewrite Zminus_mod, Z.mod_mod by lia. rewrite Z.sub_diag. reflexivity.
Qed.

Lemma wrap64_id z : int64_min <= z <= int64_max -> wrap64 z = z.
Proof. unfold wrap64, int64_min, int64_max. intro H. rewrite Z.mod_small by lia. lia. Qed.

(* arithmetic of the reference semantics is Go's int64 arithmetic: results stay in range, equal the
   mathematical result whenever that is representable, division truncates toward zero *)
Theorem arith_in_range op a b z : arith op a b = Some z -> int64_min <= a <= int64_max -> int64_min <= b <= int64_max ->
  int64_min <= z <= int64_max.
Proof.
  intros H Ha Hb. destruct op; simpl in H; try (inversion H; apply wrap64_range).
  - destruct (b =? 0); [discriminate|]. inversion H. apply wrap64_range.
  - destruct (b =? 0) eqn:E; [discriminate|]. inversion H; subst.
    apply Z.eqb_neq in E. pose proof (Z.rem_bound_abs a b E). unfold int64_min, int64_max in *. lia.
Qed.

Theorem arith_exact_add a b : int64_min <= a + b <= int64_max -> arith OpAdd a b = Some (a + b).
Proof. intro H. simpl. rewrite wrap64_id by exact H. reflexivity. Qed.

Theorem arith_div_truncates a b : b <> 0 -> int64_min <= Z.quot a b <= int64_max -> arith OpDiv a b = Some (Z.quot a b).
Proof. intros Hb H. simpl. destruct (b =? 0) eqn:E; [apply Z.eqb_eq in E; contradiction|]. rewrite wrap64_id by exact H. reflexivity. Qed.
