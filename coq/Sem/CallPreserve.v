(* Function definitions refine source-level calls (C02): parameter binding, the frame of mangled locals, the return
   registers.  The body of a function is a program of Sem.LoopPreserve.v (assignments, prints, conditionals, loops, calls of
   earlier functions through the oracle); it ends with a return statement - at the end or inside if / else-if / else
   branches - or falls off its end when it returns nothing. *)
From Verif Require Import Base.Bytestr Base.DecFacts Front.Ast Front.AstInd Back.BashLines Back.Transpile Back.BashConv Back.BashFacts
  Back.NameFacts Sem.Src Sem.SrcFacts Sem.BashSem Sem.ExprPreserve Sem.Words Sem.StmtPreserve Sem.FlatSem Sem.IfPreserve Sem.FlatLoop Sem.LoopPreserve.
From Coq Require Import ZArith Lia.
Open Scope N_scope.

Section Body.
Variable call : nat -> bytes -> list bytes -> shenv -> option (shenv * bytes).
Variable pos : list bytes.
Hypothesis call_mono : fuel_mono call.
Variables klo mlo : nat.
Variable scall : list var -> bytes -> list value -> senv -> list value -> senv -> bytes -> Prop.
Hypothesis call_ok : call_refines call klo mlo scall.

(* how a function body ends: with return e1, .., en, or - a function without results - by reaching its end *)
Definition ret_of (g : sig) (rvals : list value) : Prop := g = SR rvals \/ (g = SN /\ rvals = []).

(* the body of a function up to its closing brace, from the environment the parameters were bound in *)
Lemma body_refines XS sg0 body sgl o g rvals sf u sr b0 :
  J scall XS (Prog body) sg0 sgl o g -> ret_of g rvals -> go_fix body sf = TOk u sr -> frag2_all body = true ->
  env_ok sg0 -> ctx_ok XS sg0 b0 sf -> fresh_flags klo mlo XS sf ->
  exists X bF, cext sf sr X /\ ctx_ok XS sgl bF sr /\ untouched klo mlo XS sf sr b0 bF /\
    (forall i v, nth_error rvals i = Some v -> sh_get (rv_name i) bF = text v) /\
    forall rest, lruns call pos b0 [] (X ++ [LClose] ++ rest) (bF, o).
Proof.
  intros HJ Hg Ht Hf Henv Hc Hfl.
  destruct (J_sim call pos call_mono klo mlo scall call_ok XS (Prog body) sg0 sgl o g HJ Henv sf u sr b0 Ht Hf Henv Hc Hfl) as (X & bF & Ex & Cc & U & Rg & Hk).
  exists X, bF. split; [exact Ex|]. split; [exact Cc|]. split; [exact U|].
  destruct Hg as [->|[-> ->]].
  - split; [exact Rg|]. intro rest. specialize (Hk [] ([LClose] ++ rest) (bF, []) eq_refl).
    unfold prepend in Hk. cbn [fst snd] in Hk. rewrite app_nil_r in Hk. exact Hk.
  - split; [intros i v Hi; destruct i; discriminate|]. intro rest.
    assert (after call pos SN bF [] ([LClose] ++ rest) (bF, [])) as Ha by (cbn [after]; exists 1%nat; reflexivity).
    specialize (Hk [] ([LClose] ++ rest) (bF, []) Ha). unfold prepend in Hk. cbn [fst snd] in Hk. rewrite app_nil_r in Hk. exact Hk.
Qed.
End Body.

(* ---- entering and leaving a frame ---- *)
Fixpoint bind (ps : list var) (vals : list value) (sg : senv) : senv :=
  match ps, vals with p :: pr, v :: vr => bind pr vr (supd sg p v) | _, _ => sg end.
Definition globals_of (sg : senv) : senv := fun x => if v_global x then sg x else None.
Definition leave (sg sgl : senv) : senv := fun x => if v_global x then sgl x else sg x.

Fixpoint param_lines (cf : nat) (names : list bytes) (i : nat) : list line :=
  match names with [] => [] | n :: r => LLocalParam (mangled cf n) i :: param_lines cf r (S i) end.
Fixpoint bindsh (cf : nat) (names : list bytes) (j : nat) (pos : list bytes) (e : shenv) : shenv :=
  match names with [] => e | n :: r => bindsh cf r (S j) pos (sh_set (mangled cf n) (nth j pos []) e) end.

Lemma skipn_cons_nth {A} (d : A) : forall j (l : list A) a r, skipn j l = a :: r -> nth j l d = a /\ skipn (S j) l = r.
Proof.
  induction j as [|j IH]; intros l a r H.
  - cbn [skipn] in H. subst l. split; reflexivity.
  - destruct l as [|x l]; [discriminate|]. cbn [skipn] in H. destruct (IH l a r H) as [H1 H2]. split; [exact H1|exact H2].
Qed.

Lemma params_run call pos cf : forall names j e L rest res,
  lruns call pos (bindsh cf names j pos e) L rest res -> lruns call pos e L (param_lines cf names (S j) ++ rest) res.
Proof.
  induction names as [|n r IH]; intros j e L rest res H; [exact H|].
  cbn [bindsh] in H. destruct (IH (S j) _ L rest res H) as [f Hf]. exists (S f). cbn [param_lines app lrun].
  replace (S j - 1)%nat with j by lia. exact Hf.
Qed.

Lemma bindsh_frame cf pos : forall names j e n, (forall p, n <> mangled cf p) -> sh_get n (bindsh cf names j pos e) = sh_get n e.
Proof.
  induction names as [|m r IH]; intros j e n Hn; [reflexivity|]. cbn [bindsh]. rewrite (IH (S j) _ n Hn). apply sh_get_set_other. apply Hn.
Qed.

Lemma bind_represents XSf sf : (0 < b_funcs sf)%nat -> names_inj sf XSf ->
  forall ps vals j sg e pos, length vals = length ps -> (forall p, In p ps -> v_global p = false /\ In p XSf) ->
  skipn j pos = map text vals -> represents sg e sf XSf ->
  represents (bind ps vals sg) (bindsh (b_func_counter sf) (map v_name ps) j pos e) sf XSf.
Proof.
  intros Hf Hinj. induction ps as [|p pr IH]; intros vals j sg e pos Hl Hps Hsk Hrep; [destruct vals; exact Hrep|].
  destruct vals as [|v vr]; [discriminate|]. cbn [bind map bindsh]. cbn [map] in Hsk.
  destruct (skipn_cons_nth [] j pos _ _ Hsk) as [Hn Hs].
  destruct (Hps p (or_introl eq_refl)) as [Hg Hin].
  assert (user_name sf p = mangled (b_func_counter sf) (v_name p)) as Hun by (unfold user_name; rewrite Hg; apply var_name_local; exact Hf).
  apply (IH vr (S j) _ _ pos); [cbn [length] in Hl; lia|intros q Hq; exact (Hps q (or_intror Hq))|exact Hs|].
  intros y w Hy Hw. unfold supd in Hw. destruct (same_var y p) eqn:Sv.
  - inversion Hw; subst w. rewrite (same_var_name sf y p Sv), Hun. rewrite sh_get_set_same. exact Hn.
  - rewrite sh_get_set_other; [exact (Hrep y w Hy Hw)|]. rewrite <- Hun. intro Heq. rewrite (Hinj y p Hy Hin Heq) in Sv. discriminate.
Qed.

Lemma helper_name_local sf k : (0 < b_funcs sf)%nat -> helper_name sf k = mangled (b_func_counter sf) (bs "_h" ++ dec_nat k).
Proof. intro H. unfold helper_name. apply var_name_local. exact H. Qed.

Lemma user_name_global_any s x : v_global x = true -> user_name s x = v_name x.
Proof. intro H. unfold user_name. rewrite H. apply var_name_global. Qed.

Section Func.
(* the callee: what it may call, its own loop and function numbers *)
Variable call : nat -> bytes -> list bytes -> shenv -> option (shenv * bytes).
Hypothesis call_mono : fuel_mono call.
Variables klo_f mlo_f : nat.
Variable scall : list var -> bytes -> list value -> senv -> list value -> senv -> bytes -> Prop.
Hypothesis call_ok : call_refines call klo_f mlo_f scall.
(* the caller *)
Variables klo_c mlo_c : nat.

Lemma func_refines XSf sf sr params body u XS s b sg vals sgl o g rvals :
  (0 < b_funcs sf)%nat -> (b_func_counter sf < mlo_c)%nat -> (mlo_f <= mlo_c)%nat -> (b_for_counter sr <= klo_c)%nat ->
  (forall x, In x XSf -> var_fine sf x) -> hygienic sf XSf -> names_inj sf XSf -> fresh_flags klo_f mlo_f XSf sf ->
  (forall p, In p params -> v_global p = false /\ In p XSf) ->
  (forall x, v_global x = true -> (In x XS <-> In x XSf)) ->
  go_fix body sf = TOk u sr -> frag2_all body = true ->
  length vals = length params -> env_ok (bind params vals (globals_of sg)) ->
  J scall XSf (Prog body) (bind params vals (globals_of sg)) sgl o g -> ret_of g rvals ->
  ctx_ok XS sg b s -> fresh_flags klo_c mlo_c XS s ->
  exists X bF, cext sf sr X /\
    (forall rest, lruns call (map text vals) b [] (param_lines (b_func_counter sf) (map v_name params) 1 ++ X ++ [LClose] ++ rest) (bF, o)) /\
    ctx_ok XS (leave sg sgl) bF s /\ untouched klo_c mlo_c XS s s b bF /\
    (forall i v, nth_error rvals i = Some v -> sh_get (rv_name i) bF = text v).
Proof.
  intros Hfun Hcf Hml Hkl Hfine Hhy Hinj Hflf Hps Hag Hbody Hfrag Hlen Henv0 HJ Hrv [Cf Crep Chy Cinj] Hflc.
  set (cf := b_func_counter sf) in *. set (pos := map text vals).
  set (b0 := bindsh cf (map v_name params) 0 pos b).
  (* the frame at entry *)
  assert (represents (globals_of sg) b sf XSf) as Hrep0.
  { intros x w Hx Hw. unfold globals_of in Hw. destruct (v_global x) eqn:Hg; [|discriminate].
    rewrite (user_name_global_any sf x Hg), <- (user_name_global_any s x Hg). exact (Crep x w (proj2 (Hag x Hg) Hx) Hw). }
  assert (ctx_ok XSf (bind params vals (globals_of sg)) b0 sf) as Hc0.
  { constructor; [exact Hfine| |exact Hhy|exact Hinj]. unfold b0, cf. apply (bind_represents XSf sf Hfun Hinj); [exact Hlen|exact Hps|reflexivity|exact Hrep0]. }
  destruct (body_refines call pos call_mono klo_f mlo_f scall call_ok XSf _ body sgl o g rvals sf u sr b0 HJ Hrv Hbody Hfrag Henv0 Hc0 Hflf)
    as (X & bF & Ex & CF & UF & VF & Hk).
  exists X, bF. split; [exact Ex|].
  split; [intro rest; apply params_run; exact (Hk rest)|].
  (* names of the caller are none of the callee's *)
  destruct Hflc as [Fc1 [Fc2 [Fc3 [Fc4 Fc5]]]]. destruct Hflf as [Ff1 [Ff2 [Ff3 [Ff4 Ff5]]]].
  assert (forall n, (forall x, In x XS -> v_global x = true -> n <> user_name s x) -> (forall c y, (c < mlo_c)%nat -> n <> mangled c y) ->
                    (forall k, (k < klo_c)%nat -> n <> fname k) -> (forall i, n <> rv_name i) -> sh_get n bF = sh_get n b) as Frame.
  { intros n Hg Hm Hk0 Hr. rewrite UF.
    - unfold b0. apply bindsh_frame. intro p. apply Hm. exact Hcf.
    - intros y Hy. destruct (v_global y) eqn:Gy.
      + rewrite (user_name_global_any sf y Gy), <- (user_name_global_any s y Gy). exact (Hg y (proj2 (Hag y Gy) Hy) Gy).
      + unfold user_name. rewrite Gy, (var_name_local sf _ Hfun). apply Hm. exact Hcf.
    - intro k. rewrite (helper_name_local sf k Hfun). apply Hm. exact Hcf.
    - intros k Hk1. apply Hk0. pose proof (cx_mono _ _ _ Ex). lia.
    - intros c y Hc. apply Hm. lia.
    - exact Hr.
    - intro i. unfold ma_var. rewrite (var_name_local sf _ Hfun). apply Hm. exact Hcf. }
  split.
  { constructor; [exact Cf| |exact Chy|exact Cinj].
    intros x w Hx Hw. unfold leave in Hw. destruct (v_global x) eqn:Gx.
    - rewrite (user_name_global_any s x Gx), <- (user_name_global_any sr x Gx). exact (c_rep _ _ _ _ CF x w (proj1 (Hag x Gx) Hx) Hw).
    - rewrite Frame; [exact (Crep x w Hx Hw)| | | |].
      + intros y Hy Gy Heq. pose proof (Cinj x y Hx Hy Heq) as Sv. unfold same_var in Sv. apply andb_true_iff in Sv as [Sv _]. apply andb_true_iff in Sv as [_ Sg].
        apply Bool.eqb_prop in Sg. rewrite Gx, Gy in Sg. discriminate.
      + intros c y Hc. exact (Fc4 x c y Hx Hc).
      + intros k _. exact (Fc1 x k Hx).
      + intro i. exact (Fc2 x i Hx). }
  split; [|exact VF].
  intros n Hu Hh Hf Hm Hr _. apply Frame.
  - intros x Hx _. exact (Hu x Hx).
  - exact Hm.
  - intros k Hk0. apply Hf. left. exact Hk0.
  - exact Hr.
Qed.
End Func.

(* ---- the functions of a script ---- *)
(* a definition  func name(params) { body }  with the variables it uses (globals, parameters, locals) and the converter
   states at which its body was translated: after the header and after the body *)
Record fdef := mkFdef {
  fd_name : bytes; fd_params : list var; fd_body : list stmt; fd_vars : list var;
  fd_sf : bstate; fd_sr : bstate
}.
Definition fd_num (F : fdef) : nat := b_func_counter (fd_sf F).

(* the source side of calls: a call of F binds the arguments to the parameters in a frame that sees the globals only,
   runs the body (whose calls go one level down, to functions defined before F) up to a return statement or its end;
   the caller gets its own locals back and the globals as the function left them *)
Fixpoint scall_at (defs : list fdef) (d : nat) (klo mlo : nat) (XS : list var) (f : bytes) (vals : list value) (sg : senv)
                  (rvals : list value) (sg1 : senv) (o : bytes) : Prop :=
  match d with
  | O => False
  | S d' => exists F sgl g,
      In F defs /\ fd_name F = f /\ (fd_num F < mlo)%nat /\ (b_for_counter (fd_sr F) <= klo)%nat /\
      (forall x, v_global x = true -> (In x XS <-> In x (fd_vars F))) /\ length vals = length (fd_params F) /\
      env_ok (bind (fd_params F) vals (globals_of sg)) /\
      J (scall_at defs d' (b_for_counter (fd_sf F)) (fd_num F)) (fd_vars F) (Prog (fd_body F)) (bind (fd_params F) vals (globals_of sg)) sgl o g /\
      ret_of g rvals /\ sg1 = leave sg sgl
  end.

(* the definition was translated as the converter does and stands in the script *)
Definition fun_ok (script : list line) (F : fdef) : Prop :=
  (0 < b_funcs (fd_sf F))%nat /\
  (forall x, In x (fd_vars F) -> var_fine (fd_sf F) x) /\ hygienic (fd_sf F) (fd_vars F) /\ names_inj (fd_sf F) (fd_vars F) /\
  fresh_flags (b_for_counter (fd_sf F)) (fd_num F) (fd_vars F) (fd_sf F) /\
  (forall p, In p (fd_params F) -> v_global p = false /\ In p (fd_vars F)) /\
  go_fix (fd_body F) (fd_sf F) = TOk tt (fd_sr F) /\ frag2_all (fd_body F) = true /\
  exists X tail, b_code (fd_sr F) = b_code (fd_sf F) ++ X /\
                 find_def (fd_name F) script = Some (param_lines (fd_num F) (map v_name (fd_params F)) 1 ++ X ++ [LClose] ++ tail).

(* The functions of the script refine the source calls, at every nesting depth of calls. *)
Theorem calls_refined defs script : (forall F, In F defs -> fun_ok script F) ->
  forall d klo mlo, call_refines (call_of script d) klo mlo (scall_at defs d klo mlo).
Proof.
  intro Hok. induction d as [|d IH]; intros klo mlo XS f vals sg rvals sg1 o b s Hs Henv Hc Hfl; [destruct Hs|].
  destruct Hs as (F & sgl & g & HF & Hname & Hnum & Hhi & Hag & Hlen & Henv0 & HJ & Hrv & ->).
  destruct (Hok F HF) as (Hfun & Hfine & Hhy & Hinj & Hflf & Hps & Hbody & Hfrag & X0 & tail & Hcode & Hfind).
  destruct (func_refines (call_of script d) (call_of_mono script d) (b_for_counter (fd_sf F)) (fd_num F)
              (scall_at defs d (b_for_counter (fd_sf F)) (fd_num F)) (IH _ _) klo mlo
              (fd_vars F) (fd_sf F) (fd_sr F) (fd_params F) (fd_body F) tt XS s b sg vals sgl o g rvals
              Hfun Hnum (Nat.lt_le_incl _ _ Hnum) Hhi Hfine Hhy Hinj Hflf Hps Hag Hbody Hfrag Hlen Henv0 HJ Hrv Hc Hfl)
    as (X & bF & Ex & Hrun & CF & UF & VF).
  assert (X0 = X) as -> by exact (code_same_cext _ _ _ _ Hcode Ex).
  exists bF. split; [|split; [exact CF|split; [exact UF|exact VF]]].
  destruct (Hrun tail) as [n Hn]. exists n. intros fu Hfu. cbn [call_of]. rewrite <- Hname, Hfind.
  exact (lrun_mono _ _ (call_of_mono script d) n false b [] _ _ Hn fu Hfu).
Qed.

(* Programs that call functions: the lines of a stretch of code (assignments, prints, conditionals, loops, calls), run by
   the flat shell model with the script's own functions as the call oracle, print what the source prints - the output of
   the called functions in its place - and leave the shell environment representing the final source environment. *)
Theorem calls_preserved defs script d klo mlo pos : (forall F, In F defs -> fun_ok script F) ->
  forall XS sg body sg' out s u s' b,
  J (scall_at defs d klo mlo) XS (Prog body) sg sg' out SN -> go_fix body s = TOk u s' -> frag2_all body = true ->
  env_ok sg -> ctx_ok XS sg b s -> fresh_flags klo mlo XS s ->
  exists X b', b_code s' = b_code s ++ X /\ lruns (call_of script d) pos b [] X (b', out) /\ represents sg' b' s' XS.
Proof.
  intros Hok. exact (loops_preserved (call_of script d) pos (call_of_mono script d) klo mlo (scall_at defs d klo mlo) (calls_refined defs script Hok d klo mlo)).
Qed.

(* ---- where the pieces of fun_ok come from: the translation of a definition ---- *)
Lemma params_fold_lines : forall names st i, (0 < b_funcs st)%nat ->
  let r := fst (fold_left (fun (acc : bstate * nat) p => let '(st, i) := acc in (add_line (LLocalParam (var_name st p false) i) st, S i)) names (st, i)) in
  b_code r = b_code st ++ param_lines (b_func_counter st) names i /\ b_funcs r = b_funcs st /\ b_func_counter r = b_func_counter st /\
  b_for_counter r = b_for_counter st.
Proof.
  induction names as [|n r IH]; intros st i Hf; cbn [fold_left fst param_lines].
  - rewrite app_nil_r. repeat split.
  - destruct (IH (add_line (LLocalParam (var_name st n false) i) st) (S i) Hf) as (A & B & C & D).
    cbn zeta in A, B, C, D. rewrite A, B, C, D. cbn [add_line b_code b_funcs b_func_counter b_for_counter].
    rewrite (var_name_local st n Hf), <- app_assoc. repeat split.
Qed.

Lemma func_start_lines f names rets s0 :
  let sf := cv_func_start bstate atom bash_conv f names rets s0 in
  b_code sf = b_code s0 ++ [LFuncOpen f] ++ param_lines (S (b_func_counter s0)) names 1 /\
  b_funcs sf = S (b_funcs s0) /\ b_func_counter sf = S (b_func_counter s0) /\ b_for_counter sf = b_for_counter s0.
Proof.
  cbv zeta. unfold bash_conv. cbn [cv_func_start].
  match goal with |- context [fold_left ?g names (?a0, 1%nat)] => destruct (params_fold_lines names a0 1%nat) as (A & B & C & D) end.
  { cbn [add_line b_funcs]. lia. }
  cbn zeta in A, B, C, D. rewrite A, B, C, D. cbn [add_line b_code b_funcs b_func_counter b_for_counter]. rewrite <- app_assoc. repeat split.
Qed.

Lemma go_fix_app : forall a b s u s', go_fix (a ++ b) s = TOk u s' -> exists sm, go_fix a s = TOk tt sm /\ go_fix b sm = TOk u s'.
Proof.
  induction a as [|x r IH]; intros b s u s' H; [exists s; split; [reflexivity|exact H]|].
  cbn [app go_fix] in H. mb H as u1 s1 H1 H2. destruct (IH b s1 u s' H2) as (sm & Ha & Hb).
  exists sm. split; [cbn [go_fix]; unfold mbind; rewrite H1; destruct u1; exact Ha|exact Hb].
Qed.

Lemma find_def_app f : forall pre r, (forall n, In (LFuncOpen n) pre -> n <> f) -> find_def f (pre ++ LFuncOpen f :: r) = Some r.
Proof.
  induction pre as [|l pre IH]; intros r Hn.
  - cbn [app find_def]. rewrite beq_refl. reflexivity.
  - cbn [app]. assert (find_def f (pre ++ LFuncOpen f :: r) = Some r) as E by (apply IH; intros n Hin; apply Hn; right; exact Hin).
    destruct l; cbn [find_def]; try exact E.
    destruct (beq name f) eqn:B; [|exact E]. apply beq_eq in B. exfalso. exact (Hn name (or_introl eq_refl) B).
Qed.

(* func f(params) rets { body }: the states of fun_ok, the function's number, and its lines in any script that contains the
   translated code and has no earlier definition of the same name *)
Theorem definition_in_script f rets params x body pub s0 s0' later :
  t_stmt bash_conv (SFunc f rets params (x :: body) pub) s0 = TOk tt s0' -> frag2_all (x :: body) = true ->
  (forall n, In (LFuncOpen n) (b_code s0) -> n <> f) ->
  let sf := cv_func_start bstate atom bash_conv f (map v_name params) rets s0 in
  exists sr X,
    go_fix (x :: body) sf = TOk tt sr /\ b_code sr = b_code sf ++ X /\
    b_funcs sf = S (b_funcs s0) /\ b_func_counter sf = S (b_func_counter s0) /\ b_for_counter sf = b_for_counter s0 /\
    b_for_counter s0' = b_for_counter sr /\
    find_def f (b_code s0' ++ later) = Some (param_lines (b_func_counter sf) (map v_name params) 1 ++ X ++ [LClose] ++ later).
Proof.
  intros H Hfrag Hno. cbv zeta. set (sf := cv_func_start bstate atom bash_conv f (map v_name params) rets s0).
  destruct (func_start_lines f (map v_name params) rets s0) as (A & B & C & D). fold sf in A, B, C, D.
  cbn [t_stmt] in H. mb H as u0 s1 H0 H1. mu H0. subst s1. fold sf in H1. mb H1 as u1 sr H1 H2. destruct u1.
  change (go_fix (x :: body) sf = TOk tt sr) in H1.
  destruct (go_e3 (x :: body) (all_e3 _) Hfrag sf tt sr H1) as (X & E & _ & _).
  rewrite bash_func_end in H2. pose proof (cx_funcs _ _ _ E) as Hfs. rewrite B in Hfs. rewrite Hfs in H2. cbv zeta in H2. inversion H2; subst s0'; clear H2.
  exists sr, X. split; [exact H1|]. split; [exact (cx_code _ _ _ E)|].
  split; [exact B|]. split; [exact C|]. split; [exact D|]. split; [reflexivity|].
  cbn [add_line b_code]. rewrite (cx_code _ _ _ E), A, C. rewrite <- !app_assoc. cbn [app].
  exact (find_def_app f (b_code s0) _ Hno).
Qed.
