(* The shell model for flat line lists with conditionals: assignments and print as in Sem/StmtPreserve.v, plus
   if / elif / else / fi as Bash executes them on the emitted one-construct-per-line scripts (the condition line is
   "[ c -eq 1 ]", a false condition moves on to the next elif / else / fi of the same construct, the end of a taken
   branch moves behind the matching fi).  Loops are not part of this model. *)
From Verif Require Import Base.Bytestr Front.Ast Back.BashLines Sem.BashSem Sem.Words Sem.StmtPreserve.
From Coq Require Import ZArith Lia.
Open Scope N_scope.

Definition cond_true (e : shenv) (c : atom) : option bool := option_map (Z.eqb 1) (int_of_text (atom_text e c)).

Definition is_if (w : bytes) : bool := beq w (bs "if").

(* behind the matching fi of the construct we are in (d: constructs opened since) *)
Fixpoint skip_fi (ls : list line) (d : nat) : option (list line) :=
  match ls with
  | [] => None
  | LIf w _ :: r => if is_if w then skip_fi r (S d) else skip_fi r d
  | LIncrGuard _ :: r => skip_fi r (S d)
  | LFi :: r => match d with O => Some r | S d' => skip_fi r d' end
  | _ :: r => skip_fi r d
  end.

(* at the next elif / else / fi of the construct we are in *)
Fixpoint skip_branch (ls : list line) (d : nat) : option (list line) :=
  match ls with
  | [] => None
  | LIf w c :: r => if is_if w then skip_branch r (S d) else match d with O => Some (LIf w c :: r) | S _ => skip_branch r d end
  | LIncrGuard _ :: r => skip_branch r (S d)
  | LElse :: r => match d with O => Some (LElse :: r) | S _ => skip_branch r d end
  | LFi :: r => match d with O => Some (LFi :: r) | S d' => skip_branch r d' end
  | _ :: r => skip_branch r d
  end.

(* seek = true: a condition was false and we stand at the next elif / else / fi of the construct *)
Fixpoint run (fuel : nat) (seek : bool) (e : shenv) (ls : list line) : option (shenv * bytes) :=
  match fuel with
  | O => None
  | S f =>
      match ls with
      | [] => if seek then None else Some (e, [])
      | l :: r =>
          if seek then
            match l with
            | LIf w c =>
                match cond_true e c with
                | Some true => run f false e r
                | Some false => match skip_branch r 0 with Some r' => run f true e r' | None => None end
                | None => None
                end
            | LElse => run f false e r
            | LFi => run f false e r
            | _ => None
            end
          else
            match l with
            | LIf w c =>
                if is_if w then
                  match cond_true e c with
                  | Some true => run f false e r
                  | Some false => match skip_branch r 0 with Some r' => run f true e r' | None => None end
                  | None => None
                  end
                else match skip_fi r 0 with Some r' => run f false e r' | None => None end
            | LElse => match skip_fi r 0 with Some r' => run f false e r' | None => None end
            | LFi => run f false e r
            | LNop => run f false e r
            | _ => match exec_out e l with
                   | Some (e1, o1) => match run f false e1 r with Some (e2, o2) => Some (e2, o1 ++ o2) | None => None end
                   | None => None
                   end
            end
      end
  end.

(* more fuel changes nothing *)
Lemma run_mono : forall f seek e ls res, run f seek e ls = Some res -> forall f', (f <= f')%nat -> run f' seek e ls = Some res.
Proof.
  induction f as [|f IH]; intros seek e ls res H f' Hle; [discriminate|].
  destruct f' as [|f']; [lia|]. assert (f <= f')%nat as Hle' by lia.
  cbn [run] in *. destruct ls as [|l r]; [exact H|].
  destruct seek.
  - destruct l; try discriminate; try (exact (IH _ _ _ _ H f' Hle')).
    destruct (cond_true e c) as [[|]|]; try discriminate; [exact (IH _ _ _ _ H f' Hle')|].
    destruct (skip_branch r 0); [exact (IH _ _ _ _ H f' Hle')|discriminate].
  - destruct l;
      try (destruct (exec_out e _) as [[e1 o1]|]; [|discriminate];
           destruct (run f false e1 r) as [[e2 o2]|] eqn:E; [|discriminate]; rewrite (IH _ _ _ _ E f' Hle'); exact H);
      try (exact (IH _ _ _ _ H f' Hle')).
    + destruct (is_if word).
      * destruct (cond_true e c) as [[|]|]; try discriminate; [exact (IH _ _ _ _ H f' Hle')|].
        destruct (skip_branch r 0); [exact (IH _ _ _ _ H f' Hle')|discriminate].
      * destruct (skip_fi r 0); [exact (IH _ _ _ _ H f' Hle')|discriminate].
    + destruct (skip_fi r 0); [exact (IH _ _ _ _ H f' Hle')|discriminate].
Qed.

(* the result of running the rest, in continuation-passing style *)
Definition runs (e : shenv) (ls : list line) (res : shenv * bytes) : Prop := exists f, run f false e ls = Some res.

Definition prepend (o : bytes) (res : shenv * bytes) : shenv * bytes := (fst res, o ++ snd res).

(* straight lines (assignments, print) in front of anything *)
Lemma runs_straight P : forall e e1 o1 rest res,
  exec_outs e P = Some (e1, o1) -> runs e1 rest res -> runs e (P ++ rest) (prepend o1 res).
Proof.
  induction P as [|l r IH]; intros e e1 o1 rest res H Hr.
  - cbn [exec_outs] in H. inversion H; subst. destruct res as [e2 o2]. exact Hr.
  - cbn [exec_outs] in H. destruct (exec_out e l) as [[ea oa]|] eqn:El; [|discriminate].
    destruct (exec_outs ea r) as [[eb ob]|] eqn:Er; [|discriminate]. inversion H; subst; clear H.
    destruct (IH ea e1 ob rest res Er Hr) as [f Hf]. exists (S f). cbn [app run].
    destruct l; try (cbn [exec_out exec_line] in El; discriminate);
      rewrite El, Hf; unfold prepend; cbn [fst snd]; rewrite app_assoc; reflexivity.
Qed.

(* blocks the skipping functions jump over as a whole *)
Definition closed (X : list line) : Prop :=
  (forall rest d, skip_branch (X ++ rest) d = skip_branch rest d) /\ (forall rest d, skip_fi (X ++ rest) d = skip_fi rest d).

Lemma closed_nil : closed [].
Proof. split; intros; reflexivity. Qed.

Lemma closed_app X Y : closed X -> closed Y -> closed (X ++ Y).
Proof. intros [A1 A2] [B1 B2]. split; intros rest d; rewrite <- app_assoc; [rewrite A1; apply B1|rewrite A2; apply B2]. Qed.

Definition plain_line (l : line) : bool := match l with LIf _ _ | LIncrGuard _ | LElse | LFi => false | _ => true end.

Lemma closed_plain P : forallb plain_line P = true -> closed P.
Proof.
  induction P as [|l r IH]; intro H; [apply closed_nil|]. simpl in H. apply andb_true_iff in H as [Hl Hr].
  destruct (IH Hr) as [A B]. split; intros rest d; cbn [app]; destruct l; try discriminate; cbn [skip_branch skip_fi]; first [apply A|apply B].
Qed.

(* a complete construct: if c, a closed body, a chain of elif parts, an optional else part, fi *)
Lemma closed_if c B T : closed B -> (forall rest d, skip_branch (T ++ rest) (S d) = skip_branch rest d) ->
  (forall rest d, skip_fi (T ++ rest) (S d) = skip_fi rest d) -> closed ([LIf (bs "if") c] ++ B ++ T).
Proof.
  intros [B1 B2] T1 T2. split; intros rest d; cbn [app skip_branch skip_fi]; change (is_if (bs "if")) with true; cbn iota;
    rewrite <- app_assoc; [rewrite B1; apply T1|rewrite B2; apply T2].
Qed.
