From Verif Require Import Base.Bytestr Cli.Tsh.
From Coq Require Import Lia.
Open Scope N_scope.

Lemma find_write p q c fs :
  fs_find p (fs_write q c fs) = if beq p q then Some (File c) else fs_find p fs.
Proof.
  induction fs as [|[r n] fs IH]; cbn [fs_write fs_find].
  - destruct (beq p q); reflexivity.
  - destruct (beq q r) eqn:Eqr; cbn [fs_find].
    + apply beq_eq in Eqr. subst r. destruct (beq p q); reflexivity.
    + destruct (beq p r) eqn:Epr.
      * apply beq_eq in Epr. subst r. destruct (beq p q) eqn:Epq; [|reflexivity].
        apply beq_eq in Epq. subst q. rewrite beq_refl in Eqr. discriminate.
      * exact IH.
Qed.

Lemma last_ext t : exists pre c, extension t = pre ++ [c] /\ c = match t with Batch => 116 | Bash => 104 end.
Proof. destruct t; [exists [98; 97], 116|exists [115], 104]; split; reflexivity. Qed.

Lemma last_app_snoc (a b : bytes) c : last (a ++ b ++ [c]) 0 = c.
Proof. rewrite app_assoc. apply last_last. Qed.

Lemma out_path_last o t : last (out_path o t) 0 = match t with Batch => 116 | Bash => 104 end.
Proof.
  unfold out_path, join_out. destruct (last_ext t) as (pre & c & E & Hc). rewrite E.
  destruct (beq (o_out o) [46]).
  - change (stem (base (o_in o)) ++ 46 :: pre ++ [c]) with (stem (base (o_in o)) ++ (46 :: pre) ++ [c]).
    rewrite last_app_snoc. exact Hc.
  - replace (o_out o ++ 47 :: stem (base (o_in o)) ++ 46 :: pre ++ [c])
      with (o_out o ++ (47 :: stem (base (o_in o)) ++ 46 :: pre) ++ [c]).
    + rewrite last_app_snoc. exact Hc.
    + cbn [app]. rewrite <- app_assoc. reflexivity.
Qed.

Lemma out_path_inj o t1 t2 : out_path o t1 = out_path o t2 -> t1 = t2.
Proof.
  intro H. pose proof (out_path_last o t1) as H1. pose proof (out_path_last o t2) as H2.
  rewrite H in H1. rewrite H1 in H2. destruct t1, t2; try reflexivity; discriminate.
Qed.

Section Lib.
  Variable lib : bytes -> target -> option bytes.

  (* all requested targets succeed: every path holds the library's output for its target, or what it held before *)
  Lemma emit_all_ok o ts : forall fs,
    (forall t, In t ts -> lib (o_in o) t <> None) ->
    snd (emit_all lib o ts fs) = Exit0 /\
    forall p, fs_find p (fst (emit_all lib o ts fs)) =
              match find (fun t => beq p (out_path o t)) ts with
              | Some t => match lib (o_in o) t with Some s => Some (File s) | None => None end
              | None => fs_find p fs
              end.
  Proof.
    induction ts as [|t ts IH]; intros fs Hall; cbn [emit_all].
    - split; [reflexivity|intro p; reflexivity].
    - destruct (lib (o_in o) t) as [s|] eqn:El; [|exfalso; apply (Hall t); [left; reflexivity|exact El]].
      destruct (IH (fs_write (out_path o t) s fs)) as [H1 H2]; [intros t' Ht'; apply Hall; right; exact Ht'|].
      split; [exact H1|]. intro p. rewrite H2. cbn [find].
      destruct (find (fun t0 => beq p (out_path o t0)) ts) as [t'|] eqn:Ef.
      + destruct (beq p (out_path o t)) eqn:Ep; [|reflexivity].
        apply find_some in Ef as [_ Ep']. apply beq_eq in Ep, Ep'. rewrite Ep in Ep'.
        apply out_path_inj in Ep'. subst t'. rewrite El. reflexivity.
      + rewrite find_write. destruct (beq p (out_path o t)); [rewrite El|]; reflexivity.
  Qed.

  (* a failing target: exit is non-zero and its output path is exactly as before *)
  Lemma emit_all_fail o ts : forall fs t,
    In t ts -> lib (o_in o) t = None ->
    snd (emit_all lib o ts fs) = ExitPanic /\
    fs_find (out_path o t) (fst (emit_all lib o ts fs)) = fs_find (out_path o t) fs.
  Proof.
    induction ts as [|t0 ts IH]; intros fs t Hin Hf; [contradiction|].
    cbn [emit_all]. destruct (lib (o_in o) t0) as [s|] eqn:El.
    - destruct Hin as [->|Hin]; [congruence|].
      destruct (IH (fs_write (out_path o t0) s fs) t Hin Hf) as [H1 H2]. split; [exact H1|].
      rewrite H2, find_write.
      destruct (beq (out_path o t) (out_path o t0)) eqn:E; [|reflexivity].
      apply beq_eq in E. apply out_path_inj in E. subst t0. congruence.
    - split; reflexivity.
  Qed.

  (* paths that are no output path of a requested target are never touched, whatever happens *)
  Lemma emit_all_other o ts : forall fs p,
    (forall t, In t ts -> p <> out_path o t) ->
    fs_find p (fst (emit_all lib o ts fs)) = fs_find p fs.
  Proof.
    induction ts as [|t ts IH]; intros fs p Hp; cbn [emit_all]; [reflexivity|].
    destruct (lib (o_in o) t) as [s|]; [|reflexivity].
    rewrite IH by (intros t' Ht'; apply Hp; right; exact Ht'). rewrite find_write.
    destruct (beq p (out_path o t)) eqn:E; [|reflexivity].
    apply beq_eq in E. exfalso. apply (Hp t); [left; reflexivity|exact E].
  Qed.

  Lemma find_set_equiv o p ts1 ts2 :
    (forall t, In t ts1 <-> In t ts2) ->
    find (fun t => beq p (out_path o t)) ts1 = find (fun t => beq p (out_path o t)) ts2.
  Proof.
    intro Heq.
    destruct (find (fun t => beq p (out_path o t)) ts1) as [t1|] eqn:E1;
    destruct (find (fun t => beq p (out_path o t)) ts2) as [t2|] eqn:E2; try reflexivity.
    - apply find_some in E1 as [_ A]. apply find_some in E2 as [_ B]. apply beq_eq in A, B.
      rewrite A in B. apply out_path_inj in B. congruence.
    - apply find_some in E1 as [I A]. apply Heq in I. eapply find_none in E2; [|exact I]. cbv beta in E2. congruence.
    - apply find_some in E2 as [I A]. apply Heq in I. eapply find_none in E1; [|exact I]. cbv beta in E1. congruence.
  Qed.
End Lib.
