(* Model of the tsh command (/repo/tsh.go): option parsing in pairs, one fresh converter per
   requested target, one output file per target, a panic (non-zero exit) on any error.
   The library (transpiler.Transpile with a fresh converter) is a section variable: the theorems
   hold for every library.  The file system is an association list from paths to nodes. *)
From Verif Require Import Base.Bytestr.
Open Scope N_scope.

Inductive target := Batch | Bash.
Inductive node := File (content : bytes) | Dir.
Definition fsys := list (bytes * node).

Fixpoint fs_find (p : bytes) (fs : fsys) : option node :=
  match fs with
  | [] => None
  | (q, n) :: r => if beq p q then Some n else fs_find p r
  end.

(* os.WriteFile: create or truncate *)
Fixpoint fs_write (p : bytes) (c : bytes) (fs : fsys) : fsys :=
  match fs with
  | [] => [(p, File c)]
  | (q, n) :: r => if beq p q then (q, File c) :: r else (q, n) :: fs_write p c r
  end.

Definition extension (t : target) : bytes := match t with Batch => bs "bat" | Bash => bs "sh" end.

Definition target_of (v : bytes) : option target :=
  if beq v (bs "batch") then Some Batch else if beq v (bs "bash") then Some Bash else None.

(* filepath.Base for paths without trailing separators: the text after the last slash *)
Fixpoint base_acc (s acc : bytes) : bytes :=
  match s with
  | [] => rev acc
  | c :: r => if c =? 47 then base_acc r [] else base_acc r (c :: acc)
  end.
Definition base (p : bytes) : bytes := base_acc p [].

(* the name without filepath.Ext: cut at the last dot (if any) *)
Fixpoint cut_ext (s : bytes) : option bytes :=   (* Some prefix-before-last-dot *)
  match s with
  | [] => None
  | c :: r =>
      match cut_ext r with
      | Some p => Some (c :: p)
      | None => if c =? 46 then Some [] else None
      end
  end.
Definition stem (name : bytes) : bytes := match cut_ext name with Some p => p | None => name end.

(* filepath.Join(out, file) for out = "." or a directory name without separator at the end *)
Definition join_out (out file : bytes) : bytes :=
  if beq out [46] then file else out ++ 47 :: file.

Record options := { o_in : bytes; o_out : bytes; o_targets : list target }.

Inductive outcome := Exit0 | ExitPanic.

Section WithLibrary.
  Variable lib : bytes -> target -> option bytes.   (* Transpile(in, fresh converter): Some script | None error *)

  (* parseOptions: pairs (switch, value) starting at args[1]; a trailing single argument is an error *)
  Fixpoint parse_pairs (fs : fsys) (args : list bytes) (o : options) : option options :=
    match args with
    | [] => Some o
    | [_] => None                                            (* option without a value *)
    | sw :: v :: r =>
        if beq sw (bs "-i") || beq sw (bs "--in") then
          match fs_find v fs with
          | Some (File _) => parse_pairs fs r {| o_in := v; o_out := o_out o; o_targets := o_targets o |}
          | _ => None
          end
        else if beq sw (bs "-o") || beq sw (bs "--out") then
          match fs_find v fs with
          | Some Dir => parse_pairs fs r {| o_in := o_in o; o_out := v; o_targets := o_targets o |}
          | _ => None
          end
        else if beq sw (bs "-t") || beq sw (bs "--type") then
          match target_of v with
          | Some t => parse_pairs fs r {| o_in := o_in o; o_out := o_out o; o_targets := o_targets o ++ [t] |}
          | None => None
          end
        else None
    end.

  Definition parse_options (fs : fsys) (args : list bytes) : option options :=
    match parse_pairs fs args {| o_in := []; o_out := []; o_targets := [] |} with
    | Some o =>
        match o_in o, o_out o, o_targets o with
        | [], _, _ => None
        | _, [], _ => None
        | _, _, [] => None
        | _, _, _ => Some o
        end
    | None => None
    end.

  Definition out_path (o : options) (t : target) : bytes :=
    join_out (o_out o) (stem (base (o_in o)) ++ 46 :: extension t).

  Fixpoint emit_all (o : options) (ts : list target) (fs : fsys) : fsys * outcome :=
    match ts with
    | [] => (fs, Exit0)
    | t :: r =>
        match lib (o_in o) t with
        | Some script => emit_all o r (fs_write (out_path o t) script fs)
        | None => (fs, ExitPanic)
        end
    end.

  (* args = os.Args[1:] *)
  Definition tsh (fs : fsys) (args : list bytes) : fsys * outcome :=
    match parse_options fs args with
    | Some o => emit_all o (o_targets o) fs
    | None => (fs, ExitPanic)
    end.
End WithLibrary.
