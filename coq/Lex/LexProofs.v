(* Proofs for the lexer model: every lexical item is recognised as the token the grammar
   prescribes (round trip), positions, termination, errors. *)
From Verif Require Import Base.Bytestr gen.Tables Lex.LexModel Lex.LexSpec.
From Coq Require Import Lia Arith PeanoNat.
Open Scope N_scope.

(* ---------- generic facts ---------- *)

Lemma consumed_app (a r : bytes) : consumed (a ++ r) r = a.
Proof.
  unfold consumed. rewrite app_length.
  replace (length a + length r - length r)%nat with (length a) by lia.
  rewrite firstn_app, Nat.sub_diag, firstn_all. simpl. apply app_nil_r.
Qed.

Lemma advance_app a b rc : advance (a ++ b) rc = advance b (advance a rc).
Proof. revert rc; induction a as [|c a IH]; intro rc; simpl; [reflexivity|apply IH]. Qed.

Lemma has_prefix_false_strip p s : has_prefix p s = false -> strip_prefix p s = None.
Proof. unfold has_prefix. destruct (strip_prefix p s); [discriminate|reflexivity]. Qed.

(* ---------- table facts, checked by computation on the generated tables ---------- *)

Definition punct_head_ok (e : bytes * toktype) : bool :=
  match fst e with
  | c :: _ => negb (is_alpha_ c) && negb (is_digit c) && negb (c =? 34) && negb (c =? 96)
  | [] => false
  end.

Lemma punct_heads : forallb punct_head_ok punct_table = true.
Proof. vm_compute. reflexivity. Qed.

(* longest match: no entry is a proper prefix of an earlier... stated the way it is used:
   every entry is found by first_match on its own text *)
Lemma punct_self_match :
  forallb (fun e => match first_match punct_table (fst e) with
                    | Some (t, k, r) => beq k (fst e) && toktype_beq t (snd e) && beq r []
                    | None => false end) punct_table = true.
Proof. vm_compute. reflexivity. Qed.

Lemma esc_table_agrees :
  forallb (fun k => match unescape1 k, assoc k esc_table with
                    | Some a, Some b => a =? b | None, None => true | _, _ => false end)
          (map N.of_nat (seq 0 256)) = true.
Proof. vm_compute. reflexivity. Qed.

Lemma unescape1_assoc k : k < 256 -> unescape1 k = assoc k esc_table.
Proof.
  intro Hk. pose proof esc_table_agrees as H. rewrite forallb_forall in H.
  specialize (H k). assert (In k (map N.of_nat (seq 0 256))) as Hin.
  { apply in_map_iff. exists (N.to_nat k). split; [apply N2Nat.id|]. apply in_seq. lia. }
  specialize (H Hin). destruct (unescape1 k), (assoc k esc_table); try discriminate; try reflexivity.
  apply N.eqb_eq in H. congruence.
Qed.

(* for k >= 256 both are None: unescape1 compares with constants below 256 *)
Lemma unescape1_assoc_all k : unescape1 k = assoc k esc_table.
Proof.
  destruct (N.lt_ge_cases k 256) as [H|H]; [apply unescape1_assoc; exact H|].
  unfold unescape1, esc_table, assoc.
  repeat match goal with |- context [k =? ?c] => replace (k =? c) with false by (symmetry; apply N.eqb_neq; lia) end.
  reflexivity.
Qed.

(* ---------- strings ---------- *)

Lemma scan_string_items raw cs rest acc :
  forallb (schar_wf raw) cs = true ->
  scan_string raw (concat (map schar_text cs) ++ quote raw :: rest) acc
  = StrOk (rev acc ++ map schar_value cs) rest.
Proof.
  revert acc; induction cs as [|c cs IH]; intros acc Hwf.
  - simpl. destruct raw; simpl; rewrite app_nil_r; reflexivity.
  - simpl in Hwf. apply andb_true_iff in Hwf as [Hc Hcs].
    destruct c as [b|k].
    + destruct raw.
      * simpl in Hc. destruct (b =? 96) eqn:E; [discriminate|].
        simpl. rewrite E. rewrite IH by assumption. simpl. rewrite <- app_assoc. reflexivity.
      * simpl in Hc. destruct (b =? 34) eqn:E2; [discriminate|]. destruct (b =? 92) eqn:E1; [discriminate|].
        simpl. rewrite E1, E2. rewrite IH by assumption. simpl. rewrite <- app_assoc. reflexivity.
    + destruct raw; [discriminate|]. unfold schar_wf in Hc. rewrite andb_true_l in Hc.
      destruct (assoc k esc_table) as [v|] eqn:Ea; [|discriminate].
      assert (k =? 10 = false) as Hk.
      { destruct (k =? 10) eqn:E; [|reflexivity]. apply N.eqb_eq in E. subst. vm_compute in Ea. discriminate. }
      cbn [map schar_text concat app scan_string]. rewrite N.eqb_refl. rewrite Hk. rewrite unescape1_assoc_all, Ea.
      rewrite IH by assumption. cbn [map schar_value rev]. rewrite Ea. rewrite <- app_assoc. reflexivity.
Qed.

(* ---------- comments ---------- *)

Lemma find_close_app x r n : find_close x = Some n -> find_close (x ++ r) = Some n.
Proof.
  revert n. induction x as [|c x IH]; intros n H; [discriminate|].
  simpl in H. simpl.
  destruct x as [|d x'].
  - simpl in H. rewrite andb_false_r in H. discriminate.
  - simpl hd_is in *. change ((d :: x') ++ r) with (d :: x' ++ r). simpl hd_is.
    destruct ((c =? 42) && (d =? 47)); [exact H|].
    destruct (find_close (d :: x')) as [m|] eqn:Ef; [|discriminate].
    specialize (IH m eq_refl). change ((d :: x') ++ r) with (d :: x' ++ r) in IH. rewrite IH. exact H.
Qed.

Lemma scan_block_comment_item body rest :
  item_wf (IBlock body) = true ->
  scan_block_comment (47 :: 42 :: body ++ [42; 47] ++ rest) = Some (body, rest).
Proof.
  unfold item_wf. intro H.
  destruct (find_close (body ++ [42; 47])) as [n|] eqn:Ef; [|discriminate].
  apply Nat.eqb_eq in H. subst n.
  unfold scan_block_comment. simpl strip_prefix.
  change (body ++ 42 :: 47 :: rest) with (body ++ [42; 47] ++ rest).
  rewrite app_assoc. rewrite (find_close_app _ rest _ Ef).
  rewrite <- app_assoc.
  rewrite firstn_app, Nat.sub_diag, firstn_all. simpl firstn. rewrite app_nil_r.
  f_equal. f_equal.
  rewrite skipn_app. rewrite skipn_all2 by lia. simpl app.
  replace (length body + 2 - length body)%nat with 2%nat by lia. reflexivity.
Qed.

Lemma scan_line_comment_item body rest :
  forallb not_nl body = true -> follow_ok (ILine body) rest = true ->
  scan_line_comment (47 :: 47 :: body ++ rest) = Some (body, rest).
Proof.
  intros Hb Hr. unfold scan_line_comment.
  change (strip_prefix [47; 47] (47 :: 47 :: body ++ rest)) with (Some (body ++ rest)).
  cbv beta iota.
  rewrite span_all; [reflexivity|exact Hb|].
  simpl in Hr. destruct rest as [|c r]; [reflexivity|]. unfold not_nl. rewrite Hr. reflexivity.
Qed.

(* ---------- character classes ---------- *)
From Coq Require Import ZifyBool ZifyN.

Lemma alpha_facts c : is_alpha_ c = true ->
  (c =? 96) = false /\ (c =? 34) = false /\ (c =? 47) = false /\ (c =? 45) = false /\ is_digit c = false /\ is_word c = true.
Proof. unfold is_alpha_, is_upper, is_lower, is_digit, is_word, is_alpha_, is_upper, is_lower. lia. Qed.

Lemma digit_facts c : is_digit c = true ->
  (c =? 96) = false /\ (c =? 34) = false /\ (c =? 47) = false /\ (c =? 45) = false /\ is_alpha_ c = false
  /\ (116 =? c) = false /\ (102 =? c) = false.
Proof. unfold is_alpha_, is_upper, is_lower, is_digit. lia. Qed.

Lemma nonalpha_facts c : is_alpha_ c = false -> (116 =? c) = false /\ (102 =? c) = false.
Proof. unfold is_alpha_, is_upper, is_lower. lia. Qed.

(* ---------- words ---------- *)

Lemma strip_word p : forallb is_word p = true ->
  forall s rest, forallb is_word s = true -> word_boundary rest = true ->
  match strip_prefix p (s ++ rest) with
  | Some r' => if word_boundary r' then s = p /\ r' = rest else s <> p
  | None => s <> p
  end.
Proof.
  induction p as [|x p IH]; intros Hp s rest Hs Hr.
  - simpl. destruct s as [|c s].
    + simpl. rewrite Hr. split; reflexivity.
    + simpl in Hs. apply andb_true_iff in Hs as [Hc _]. simpl. rewrite Hc. simpl. discriminate.
  - simpl in Hp. apply andb_true_iff in Hp as [Hx Hp].
    destruct s as [|c s].
    + simpl. destruct rest as [|y rest]; [discriminate|].
      destruct (x =? y) eqn:E.
      * apply N.eqb_eq in E. subst y. simpl in Hr. rewrite Hx in Hr. discriminate.
      * discriminate.
    + simpl in Hs. apply andb_true_iff in Hs as [Hc Hs]. simpl.
      destruct (x =? c) eqn:E.
      * apply N.eqb_eq in E. subst c. specialize (IH Hp s rest Hs Hr).
        destruct (strip_prefix p (s ++ rest)) as [r'|].
        -- destruct (word_boundary r'); [destruct IH; split; congruence|congruence].
        -- congruence.
      * apply N.eqb_neq in E. congruence.
Qed.

Lemma scan_bool_word s rest :
  forallb is_word s = true -> word_boundary rest = true ->
  scan_bool (s ++ rest) = if beq s (bs "true") || beq s (bs "false") then Some (s, rest) else None.
Proof.
  intros Hs Hr. unfold scan_bool.
  pose proof (strip_word (bs "true") eq_refl s rest Hs Hr) as Ht.
  pose proof (strip_word (bs "false") eq_refl s rest Hs Hr) as Hf.
  destruct (strip_prefix (bs "true") (s ++ rest)) as [r1|] eqn:E1.
  - destruct (word_boundary r1).
    + destruct Ht; subst. reflexivity.
    + assert (beq s (bs "true") = false) as B1.
      { destruct (beq s (bs "true")) eqn:B; [|reflexivity]. apply beq_eq in B. contradiction. }
      rewrite B1. apply strip_prefix_some in E1. rewrite E1 in Hf. simpl in Hf.
      destruct (beq s (bs "false")) eqn:B; [|reflexivity]. apply beq_eq in B. contradiction.
  - assert (beq s (bs "true") = false) as B1.
    { destruct (beq s (bs "true")) eqn:B; [|reflexivity]. apply beq_eq in B. contradiction. }
    rewrite B1. cbn [orb].
    destruct (strip_prefix (bs "false") (s ++ rest)) as [r2|] eqn:E2.
    + destruct (word_boundary r2).
      * destruct Hf; subst. reflexivity.
      * destruct (beq s (bs "false")) eqn:B; [|reflexivity]. apply beq_eq in B. contradiction.
    + destruct (beq s (bs "false")) eqn:B; [|reflexivity]. apply beq_eq in B. contradiction.
Qed.

Lemma sbc_none c r : (c =? 47) = false -> scan_block_comment (c :: r) = None.
Proof. intro H. unfold scan_block_comment. cbn [strip_prefix]. rewrite N.eqb_sym, H. reflexivity. Qed.

Lemma slc_none c r : (c =? 47) = false -> scan_line_comment (c :: r) = None.
Proof. intro H. unfold scan_line_comment. cbn [strip_prefix]. rewrite N.eqb_sym, H. reflexivity. Qed.

Lemma lex_step_cons c r :
  lex_step (c :: r) =
  if (c =? 96) || (c =? 34) then
    match scan_string (c =? 96) r [] with StrOk v rest => StepTok STRING_LITERAL v rest | _ => StepErr end
  else match scan_block_comment (c :: r) with Some (b, rest) => StepTok COMMENT b rest | None =>
       match scan_line_comment (c :: r) with Some (b, rest) => StepTok COMMENT b rest | None =>
       match scan_bool (c :: r) with Some (v, rest) => StepTok BOOL_LITERAL v rest | None =>
       match scan_number (c :: r) with Some (v, rest) => StepTok NUMBER_LITERAL v rest | None =>
       match scan_ident (c :: r) with Some (t, v, rest) => StepTok t v rest | None =>
       match first_match punct_table (c :: r) with Some (t, v, rest) => StepTok t v rest | None => StepErr
       end end end end end end.
Proof. reflexivity. Qed.

Lemma lex_step_word s rest :
  item_wf (IWord s) = true -> follow_ok (IWord s) rest = true ->
  lex_step (s ++ rest) = StepTok (word_type s) s rest.
Proof.
  intros Hwf Hf. simpl in Hwf, Hf.
  destruct s as [|c s']; [discriminate|].
  apply andb_true_iff in Hwf as [Hc Hs].
  destruct (alpha_facts c Hc) as (A1 & A2 & A3 & A4 & A5 & A6).
  pose proof (scan_bool_word (c :: s') rest Hs Hf) as Hb.
  pose proof (span_all is_word (c :: s') rest Hs) as Hsp.
  assert (match rest with [] => true | c0 :: _ => negb (is_word c0) end = true) as Hr' by exact Hf.
  specialize (Hsp Hr').
  unfold word_type.
  change ((c :: s') ++ rest) with (c :: s' ++ rest) in *.
  rewrite lex_step_cons. rewrite A1, A2. cbn [orb].
  rewrite (sbc_none _ _ A3), (slc_none _ _ A3).
  rewrite Hb.
  destruct (beq (c :: s') (bs "true") || beq (c :: s') (bs "false")); [reflexivity|].
  unfold scan_number, scan_unsigned. cbn [hd_is]. rewrite A4. cbn [span]. rewrite A5.
  unfold scan_ident. rewrite Hc. rewrite Hsp. reflexivity.
Qed.

(* ---------- numbers ---------- *)

Lemma digits_facts ds : digits ds = true -> ds <> [] /\ forallb is_digit ds = true.
Proof. destruct ds; simpl; intro H; [discriminate|]. split; [discriminate|exact H]. Qed.

Lemma scan_unsigned_item sign ds fs rest :
  digits ds = true -> match fs with Some f => digits f | None => true end = true ->
  follow_ok (INum false ds fs) rest = true ->
  scan_unsigned sign (ds ++ match fs with Some f => 46 :: f | None => [] end ++ rest)
  = Some (sign ++ ds ++ match fs with Some f => 46 :: f | None => [] end, rest).
Proof.
  intros Hds Hfs Hf. simpl in Hf. apply andb_true_iff in Hf as [Hr1 Hr2].
  destruct (digits_facts ds Hds) as [Hne Hd].
  assert (Hnd : match rest with [] => true | c :: _ => negb (is_digit c) end = true).
  { destruct rest; [reflexivity|exact Hr1]. }
  unfold scan_unsigned.
  destruct fs as [f|].
  - destruct (digits_facts f Hfs) as [Hfne Hfd].
    rewrite span_all; [|exact Hd|reflexivity].
    destruct ds as [|d ds']; [congruence|].
    cbn [app hd_is tl]. change (46 =? 46) with true. cbv iota.
    rewrite span_all; [|exact Hfd|exact Hnd].
    destruct f; [congruence|]. reflexivity.
  - cbn [app]. rewrite app_nil_r.
    rewrite span_all; [|exact Hd|exact Hnd].
    destruct ds as [|d ds']; [congruence|].
    destruct (hd_is 46 rest) eqn:H46; [|reflexivity].
    cbn [andb] in Hr2.
    destruct rest as [|c r]; [discriminate|]. cbn [tl] in *.
    destruct r as [|c2 r2]; [reflexivity|].
    cbn [span]. unfold starts_digit in Hr2. destruct (is_digit c2); [discriminate|]. reflexivity.
Qed.

Lemma scan_number_item neg ds fs rest :
  item_wf (INum neg ds fs) = true -> follow_ok (INum neg ds fs) rest = true ->
  scan_number (num_text neg ds fs ++ rest) = Some (num_text neg ds fs, rest).
Proof.
  intros Hwf Hf. simpl in Hwf. apply andb_true_iff in Hwf as [Hds Hfs].
  destruct (digits_facts ds Hds) as [Hne Hd].
  destruct ds as [|d ds']; [congruence|].
  assert (is_digit d = true) as Hd0 by (simpl in Hd; apply andb_true_iff in Hd; tauto).
  destruct (digit_facts d Hd0) as (D1 & D2 & D3 & D4 & D5 & D6 & D7).
  unfold scan_number, num_text. rewrite <- !app_assoc.
  destruct neg.
  - cbn [app hd_is tl]. change (45 =? 45) with true. cbv iota.
    change (d :: ds' ++ match fs with Some f => 46 :: f | None => [] end ++ rest)
      with ((d :: ds') ++ match fs with Some f => 46 :: f | None => [] end ++ rest).
    apply (scan_unsigned_item [45] (d :: ds') fs rest Hds Hfs Hf).
  - cbn [app hd_is]. rewrite D4.
    change (d :: ds' ++ match fs with Some f => 46 :: f | None => [] end ++ rest)
      with ((d :: ds') ++ match fs with Some f => 46 :: f | None => [] end ++ rest).
    apply (scan_unsigned_item [] (d :: ds') fs rest Hds Hfs Hf).
Qed.

(* ---------- punctuation ---------- *)

Lemma first_match_some t x ty k r : first_match t x = Some (ty, k, r) -> x = k ++ r.
Proof.
  induction t as [|[k' v] t IH]; simpl; [discriminate|].
  destruct (strip_prefix k' x) as [r'|] eqn:E.
  - intro H. inversion H; subst. apply strip_prefix_some. exact E.
  - exact IH.
Qed.

Lemma bs_true : bs "true" = [116; 114; 117; 101]. Proof. reflexivity. Qed.
Lemma bs_false : bs "false" = [102; 97; 108; 115; 101]. Proof. reflexivity. Qed.

Lemma scan_bool_other c r : (116 =? c) = false -> (102 =? c) = false -> scan_bool (c :: r) = None.
Proof.
  intros H1 H2. unfold scan_bool. rewrite bs_true, bs_false. cbn [strip_prefix]. rewrite H1, H2. reflexivity.
Qed.

Lemma scan_ident_other c r : is_alpha_ c = false -> scan_ident (c :: r) = None.
Proof. intro H. unfold scan_ident. rewrite H. reflexivity. Qed.

Lemma lex_step_punct k t rest :
  item_wf (IPunct k t) = true -> follow_ok (IPunct k t) rest = true ->
  lex_step (k ++ rest) = StepTok t k rest.
Proof.
  intros Hwf Hf. cbn [item_wf] in Hwf. apply existsb_exists in Hwf as [[k0 t0] [Hin Hk]].
  cbn [fst snd] in Hk. apply andb_true_iff in Hk as [Hk Ht]. apply beq_eq in Hk. subst k0.
  pose proof punct_heads as Hh. rewrite forallb_forall in Hh. specialize (Hh _ Hin).
  unfold punct_head_ok in Hh. cbn [fst] in Hh.
  destruct k as [|c k']; [discriminate|].
  apply andb_true_iff in Hh as [Hh Hq2]. apply andb_true_iff in Hh as [Hh Hq1]. apply andb_true_iff in Hh as [Ha Hd].
  apply negb_true_iff in Ha, Hd, Hq1, Hq2.
  destruct (nonalpha_facts c Ha) as [N1 N2].
  cbn [follow_ok] in Hf.
  change ((c :: k') ++ rest) with (c :: k' ++ rest) in *.
  apply andb_true_iff in Hf as [Hf Hfm]. apply andb_true_iff in Hf as [Hf Hmd]. apply andb_true_iff in Hf as [Hlc Hbc].
  rewrite lex_step_cons. rewrite Hq1, Hq2. cbn [orb].
  destruct (scan_block_comment (c :: k' ++ rest)); [discriminate|].
  apply negb_true_iff in Hlc. unfold scan_line_comment. rewrite (has_prefix_false_strip _ _ Hlc).
  rewrite (scan_bool_other _ _ N1 N2).
  assert (scan_number (c :: k' ++ rest) = None) as Hnum.
  { unfold scan_number, scan_unsigned. apply negb_true_iff in Hmd.
    destruct (hd_is 45 (c :: k' ++ rest)) eqn:E45.
    - cbn [andb] in Hmd. cbn [tl] in *. destruct (k' ++ rest) as [|c2 r2]; [reflexivity|].
      cbn [span]. unfold starts_digit in Hmd. rewrite Hmd. reflexivity.
    - cbn [span]. rewrite Hd. reflexivity. }
  rewrite Hnum. rewrite (scan_ident_other _ _ Ha).
  destruct (first_match punct_table (c :: k' ++ rest)) as [[[t' k2] r2]|] eqn:Efm; [|discriminate].
  apply andb_true_iff in Hfm as [Hk2 Ht2]. apply beq_eq in Hk2. subst k2.
  apply internal_toktype_dec_bl in Ht2. subst t'.
  apply first_match_some in Efm.
  change (c :: k' ++ rest) with ((c :: k') ++ rest) in Efm. apply app_inv_head in Efm. subst r2.
  apply internal_toktype_dec_bl in Ht. subst t0. reflexivity.
Qed.

(* ---------- strings and comments as steps ---------- *)

Lemma lex_step_str raw cs rest :
  item_wf (IStr raw cs) = true ->
  lex_step (item_text (IStr raw cs) ++ rest) = StepTok STRING_LITERAL (map schar_value cs) rest.
Proof.
  intro Hwf. cbn [item_wf] in Hwf. cbn [item_text].
  change ((quote raw :: concat (map schar_text cs) ++ [quote raw]) ++ rest)
    with (quote raw :: (concat (map schar_text cs) ++ [quote raw]) ++ rest).
  rewrite <- app_assoc. cbn [app].
  rewrite lex_step_cons.
  assert ((quote raw =? 96) || (quote raw =? 34) = true) as Hq by (destruct raw; reflexivity).
  rewrite Hq.
  assert ((quote raw =? 96) = raw) as Hr by (destruct raw; reflexivity).
  rewrite Hr. rewrite scan_string_items by exact Hwf. reflexivity.
Qed.

Lemma lex_step_line body rest :
  item_wf (ILine body) = true -> follow_ok (ILine body) rest = true ->
  lex_step (item_text (ILine body) ++ rest) = StepTok COMMENT body rest.
Proof.
  intros Hwf Hf. cbn [item_wf] in Hwf. cbn [item_text].
  change ((47 :: 47 :: body) ++ rest) with (47 :: 47 :: body ++ rest).
  rewrite lex_step_cons. change ((47 =? 96) || (47 =? 34)) with false. cbv iota.
  assert (scan_block_comment (47 :: 47 :: body ++ rest) = None) as Hb by reflexivity.
  rewrite Hb. rewrite scan_line_comment_item by assumption. reflexivity.
Qed.

Lemma lex_step_block body rest :
  item_wf (IBlock body) = true ->
  lex_step (item_text (IBlock body) ++ rest) = StepTok COMMENT body rest.
Proof.
  intro Hwf. cbn [item_text].
  change ((47 :: 42 :: body ++ [42; 47]) ++ rest) with (47 :: 42 :: (body ++ [42; 47]) ++ rest).
  rewrite <- app_assoc.
  rewrite lex_step_cons. change ((47 =? 96) || (47 =? 34)) with false. cbv iota.
  rewrite scan_block_comment_item by exact Hwf. reflexivity.
Qed.

(* ---------- one step per item ---------- *)

Definition step_type (it : item) : toktype :=
  match it with
  | IWord s => word_type s
  | INum _ _ _ => NUMBER_LITERAL
  | IStr _ _ => STRING_LITERAL
  | IPunct _ t => t
  | ILine _ | IBlock _ => COMMENT
  end.

Definition step_value (it : item) : bytes :=
  match it with
  | IWord s => s
  | INum n d f => num_text n d f
  | IStr _ cs => map schar_value cs
  | IPunct k _ => k
  | ILine b | IBlock b => b
  end.

Lemma lex_step_item it rest :
  item_wf it = true -> follow_ok it rest = true ->
  lex_step (item_text it ++ rest) = StepTok (step_type it) (step_value it) rest.
Proof.
  intros Hwf Hf. destruct it as [s|n d f|raw cs|k t|b|b].
  - apply lex_step_word; assumption.
  - cbn [item_text step_type step_value].
    pose proof (scan_number_item n d f rest Hwf Hf) as Hn.
    cbn [item_wf] in Hwf. apply andb_true_iff in Hwf as [Hds _].
    destruct (digits_facts d Hds) as [Hne Hd].
    destruct d as [|d0 d']; [congruence|].
    assert (is_digit d0 = true) as Hd0 by (simpl in Hd; apply andb_true_iff in Hd; tauto).
    destruct (digit_facts d0 Hd0) as (D1 & D2 & D3 & D4 & D5 & D6 & D7).
    remember (num_text n (d0 :: d') f) as txt eqn:Etxt.
    assert (exists c r, txt ++ rest = c :: r /\ (c =? 96) = false /\ (c =? 34) = false /\ (c =? 47) = false
                         /\ (116 =? c) = false /\ (102 =? c) = false) as (c & r & Ecr & C1 & C2 & C3 & C4 & C5).
    { subst txt. unfold num_text. destruct n; cbn [app].
      - eexists _, _. split; [reflexivity|]. repeat split; reflexivity.
      - eexists _, _. split; [reflexivity|]. repeat split; assumption. }
    rewrite Ecr in *. rewrite lex_step_cons. rewrite C1, C2. cbn [orb].
    rewrite (sbc_none _ _ C3), (slc_none _ _ C3), (scan_bool_other _ _ C4 C5), Hn. reflexivity.
  - apply lex_step_str; assumption.
  - apply lex_step_punct; assumption.
  - apply lex_step_line; assumption.
  - apply lex_step_block; assumption.
Qed.

Lemma item_tok_step it :
  item_wf it = true ->
  item_tok it = if dropped (step_type it) then None else Some (step_type it, step_value it).
Proof.
  intro Hwf.
  destruct it as [s|n d f|raw cs|k t|b|b]; cbn [item_tok step_type step_value dropped]; try reflexivity.
  unfold word_type. destruct (beq s (bs "true") || beq s (bs "false")); [reflexivity|].
  assert (forallb (fun e => negb (dropped (snd e))) keyword_table = true) as Hk by (vm_compute; reflexivity).
  destruct (lookup s keyword_table) as [t|] eqn:El; [|reflexivity].
  assert (forall tb, lookup s tb = Some t -> forallb (fun e => negb (dropped (snd e))) tb = true -> dropped t = false) as Hl.
  { induction tb as [|[k' v] tb IH]; simpl; [discriminate|].
    intros H1 H2. apply andb_true_iff in H2 as [H2 H3].
    destruct (beq s k'); [inversion H1; subst; apply negb_true_iff; exact H2|apply IH; assumption]. }
  rewrite (Hl _ El Hk). reflexivity.
Qed.

Lemma item_text_nonempty it : item_wf it = true -> item_text it <> [].
Proof.
  destruct it as [s|n d f|raw cs|k t|b|b]; cbn [item_wf item_text]; intro H; try discriminate.
  - destruct s; [discriminate|discriminate].
  - apply andb_true_iff in H as [H _]. destruct d; [discriminate|]. unfold num_text. destruct n; discriminate.
  - apply existsb_exists in H as [[k0 t0] [Hin Hk]]. cbn [fst snd] in Hk.
    apply andb_true_iff in Hk as [Hk _]. apply beq_eq in Hk. subst k0.
    pose proof punct_heads as Hh. rewrite forallb_forall in Hh. specialize (Hh _ Hin).
    unfold punct_head_ok in Hh. cbn [fst] in Hh. destruct k; [discriminate|discriminate].
Qed.

Lemma lex_loop_step f s rc acc :
  s <> [] ->
  lex_loop (S f) s rc acc =
  match lex_step s with
  | StepErr => LexErr
  | StepTok t v rest =>
      lex_loop f rest (advance (consumed s rest) rc) (if dropped t then acc else mkTok t v (fst rc) (snd rc) :: acc)
  end.
Proof. destruct s; [congruence|reflexivity]. Qed.

Lemma lex_loop_items items : forall tail rc acc fuel,
  items_ok items tail = true ->
  lex_loop (length items + fuel) (render items ++ tail) rc acc
  = lex_loop fuel tail (advance (render items) rc) (rev (expected items rc) ++ acc).
Proof.
  induction items as [|it items IH]; intros tail rc acc fuel Hok.
  - reflexivity.
  - cbn [items_ok] in Hok. apply andb_true_iff in Hok as [Hok Hrest]. apply andb_true_iff in Hok as [Hwf Hf].
    cbn [length plus render map concat]. fold (render items). rewrite <- app_assoc.
    rewrite lex_loop_step.
    2:{ intro E. apply app_eq_nil in E as [E _]. exact (item_text_nonempty it Hwf E). }
    rewrite (lex_step_item it (render items ++ tail) Hwf Hf).
    rewrite consumed_app. rewrite IH by exact Hrest.
    rewrite advance_app. cbn [expected]. rewrite (item_tok_step it Hwf).
    destruct (dropped (step_type it)); [reflexivity|].
    cbn [rev]. rewrite <- app_assoc. reflexivity.
Qed.

Lemma items_length items tail : items_ok items tail = true -> (length items <= length (render items))%nat.
Proof.
  induction items as [|it items IH]; intro H; [simpl; lia|].
  cbn [items_ok] in H. apply andb_true_iff in H as [H Hr]. apply andb_true_iff in H as [Hwf _].
  cbn [render map concat length]. fold (render items). rewrite app_length.
  specialize (IH Hr). pose proof (item_text_nonempty it Hwf) as Hne.
  destruct (item_text it); [congruence|]. simpl. lia.
Qed.

(* round trip on text free of CR LF pairs *)
Lemma tokenize_items items :
  items_ok items [] = true -> replace_crlf (render items) = render items ->
  tokenize (render items) = LexOk (expected items (1, 1) ++ [eof_at (advance (render items) (1, 1))]).
Proof.
  intros Hok Hcr. unfold tokenize. rewrite Hcr.
  pose proof (items_length items [] Hok) as Hlen.
  replace (S (length (render items))) with (length items + (S (length (render items)) - length items))%nat by lia.
  rewrite <- (app_nil_r (render items)) at 2.
  rewrite lex_loop_items by exact Hok.
  rewrite app_nil_r.
  destruct (S (length (render items)) - length items)%nat; cbn [lex_loop rev]; rewrite rev_involutive; reflexivity.
Qed.

(* a tail on which no probe fires makes the whole text an error *)
Lemma tokenize_items_err items tail :
  items_ok items tail = true -> replace_crlf (render items ++ tail) = render items ++ tail ->
  tail <> [] -> lex_step tail = StepErr ->
  tokenize (render items ++ tail) = LexErr.
Proof.
  intros Hok Hcr Hne Herr. unfold tokenize. rewrite Hcr.
  pose proof (items_length items tail Hok) as Hlen.
  rewrite app_length.
  replace (S (length (render items) + length tail)) with (length items + S (length (render items) + length tail - length items))%nat by lia.
  rewrite lex_loop_items by exact Hok.
  rewrite lex_loop_step by exact Hne. rewrite Herr. reflexivity.
Qed.

(* ---------- errors ---------- *)

Lemma scan_string_open raw cs acc :
  forallb (schar_wf raw) cs = true ->
  scan_string raw (concat (map schar_text cs)) acc = StrUnterminated.
Proof.
  revert acc; induction cs as [|c cs IH]; intros acc Hwf; [reflexivity|].
  simpl in Hwf. apply andb_true_iff in Hwf as [Hc Hcs].
  destruct c as [b|k].
  - destruct raw.
    + simpl in Hc. destruct (b =? 96) eqn:E; [discriminate|]. simpl. rewrite E. apply IH. exact Hcs.
    + simpl in Hc. destruct (b =? 34) eqn:E2; [discriminate|]. destruct (b =? 92) eqn:E1; [discriminate|].
      simpl. rewrite E1, E2. apply IH. exact Hcs.
  - destruct raw; [discriminate|]. unfold schar_wf in Hc. rewrite andb_true_l in Hc.
    destruct (assoc k esc_table) as [v|] eqn:Ea; [|discriminate].
    assert (k =? 10 = false) as Hk.
    { destruct (k =? 10) eqn:E; [|reflexivity]. apply N.eqb_eq in E. subst. vm_compute in Ea. discriminate. }
    cbn [map schar_text concat app scan_string]. rewrite N.eqb_refl. rewrite Hk. rewrite unescape1_assoc_all, Ea.
    apply IH. exact Hcs.
Qed.

Lemma lex_step_unterminated raw cs :
  forallb (schar_wf raw) cs = true ->
  lex_step (quote raw :: concat (map schar_text cs)) = StepErr.
Proof.
  intro Hwf. rewrite lex_step_cons.
  assert ((quote raw =? 96) || (quote raw =? 34) = true) as Hq by (destruct raw; reflexivity).
  assert ((quote raw =? 96) = raw) as Hr by (destruct raw; reflexivity).
  rewrite Hq, Hr, scan_string_open by exact Hwf. reflexivity.
Qed.

(* a byte with which no token of the grammar starts *)
Definition unknown_byte (c : N) : bool :=
  negb (is_alpha_ c) && negb (is_digit c) && negb (c =? 34) && negb (c =? 96)
  && negb (existsb (fun e => hd_is c (fst e)) punct_table).

Lemma first_match_none t c r :
  existsb (fun e => hd_is c (fst e)) t = false ->
  forallb (fun e => match fst e with [] => false | _ => true end) t = true ->
  first_match t (c :: r) = None.
Proof.
  induction t as [|[k v] t IH]; intros H1 H2; [reflexivity|].
  cbn [existsb fst] in H1. apply orb_false_iff in H1 as [Hk Ht].
  cbn [forallb fst] in H2. apply andb_true_iff in H2 as [Hk2 Ht2].
  cbn [first_match]. destruct k as [|c0 k']; [discriminate|].
  cbn [hd_is] in Hk. cbn [strip_prefix]. rewrite Hk. apply IH; assumption.
Qed.

Lemma lex_step_unknown c r : unknown_byte c = true -> lex_step (c :: r) = StepErr.
Proof.
  unfold unknown_byte. intro H.
  apply andb_true_iff in H as [H Hp]. apply andb_true_iff in H as [H Hq1]. apply andb_true_iff in H as [H Hq2].
  apply andb_true_iff in H as [Ha Hd]. apply negb_true_iff in Ha, Hd, Hq1, Hq2, Hp.
  destruct (nonalpha_facts c Ha) as [N1 N2].
  assert ((c =? 47) = false) as C47.
  { destruct (c =? 47) eqn:E; [|reflexivity]. apply N.eqb_eq in E. subst c. vm_compute in Hp. discriminate. }
  assert ((c =? 45) = false) as C45.
  { destruct (c =? 45) eqn:E; [|reflexivity]. apply N.eqb_eq in E. subst c. vm_compute in Hp. discriminate. }
  rewrite lex_step_cons, Hq1, Hq2. cbn [orb].
  rewrite (sbc_none _ _ C47), (slc_none _ _ C47), (scan_bool_other _ _ N1 N2).
  unfold scan_number, scan_unsigned. cbn [hd_is]. rewrite C45. cbn [span]. rewrite Hd.
  rewrite (scan_ident_other _ _ Ha).
  rewrite first_match_none; [reflexivity|exact Hp|vm_compute; reflexivity].
Qed.

(* ---------- termination: the fuel tokenize supplies is always enough ---------- *)

Lemma first_match_shorter t x ty k r :
  forallb (fun e => match fst e with [] => false | _ => true end) t = true ->
  first_match t x = Some (ty, k, r) -> (length r < length x)%nat.
Proof.
  intros Hne H. pose proof (first_match_some _ _ _ _ _ H) as E. subst x.
  assert (k <> []) as Hk.
  { revert Hne H. induction t as [|[k' v] t IH]; simpl; [discriminate|].
    intros Hne H. apply andb_true_iff in Hne as [H1 H2].
    destruct (strip_prefix k' (k ++ r)); [inversion H; subst; destruct k; [discriminate|discriminate]|apply IH; assumption]. }
  rewrite app_length. destruct k; [congruence|simpl; lia].
Qed.
