(* Totality of the lexer model: every successful probe consumes at least one byte, so the
   fuel tokenize supplies (length + 1) is never exhausted. *)
From Verif Require Import Base.Bytestr gen.Tables Lex.LexModel Lex.LexSpec Lex.LexProofs.
From Coq Require Import Lia Arith.
Open Scope N_scope.

Lemma span_snd_le p s : (length (snd (span p s)) <= length s)%nat.
Proof.
  induction s as [|c r IH]; [simpl; lia|]. simpl. destruct (p c); [|simpl; lia].
  destruct (span p r) as [a b]. simpl in *. lia.
Qed.

Lemma span_fst_nonempty_lt p s a b : span p s = (a, b) -> a <> [] -> (length b < length s)%nat.
Proof.
  intros H Ha. pose proof (span_app p s) as E. rewrite H in E. simpl in E. subst s.
  rewrite app_length. destruct a; [congruence|simpl; lia].
Qed.

Lemma strip_prefix_len p s r : strip_prefix p s = Some r -> length s = (length p + length r)%nat.
Proof. intro H. apply strip_prefix_some in H. subst. apply app_length. Qed.

Lemma scan_string_shorter_n raw n : forall s acc v rest,
  (length s <= n)%nat -> scan_string raw s acc = StrOk v rest -> (length rest < length s)%nat.
Proof.
  induction n as [|n IH]; intros s acc v rest Hn; destruct s as [|c r]; try discriminate; [simpl in Hn; lia|].
  simpl in Hn. cbn [scan_string]. destruct raw.
  - destruct (c =? 96).
    + intro E. inversion E; subst. simpl. lia.
    + intro E. apply IH in E; [simpl; lia|lia].
  - destruct (c =? 92).
    + destruct r as [|d r'].
      * intro E. apply IH in E; simpl in *; lia.
      * destruct (d =? 10).
        -- intro E. apply IH in E; simpl in *; lia.
        -- destruct (unescape1 d); [|discriminate]. intro E. apply IH in E; simpl in *; lia.
    + destruct (c =? 34).
      * intro E. inversion E; subst. simpl. lia.
      * intro E. apply IH in E; simpl in *; lia.
Qed.

Lemma scan_string_shorter raw s acc v rest :
  scan_string raw s acc = StrOk v rest -> (length rest < length s)%nat.
Proof. apply (scan_string_shorter_n raw (length s)). lia. Qed.

Lemma lex_step_shorter s t v rest : lex_step s = StepTok t v rest -> (length rest < length s)%nat.
Proof.
  destruct s as [|c r]; [discriminate|]. rewrite lex_step_cons.
  destruct ((c =? 96) || (c =? 34)).
  { destruct (scan_string (c =? 96) r []) as [v' rest'| |] eqn:E; try discriminate.
    intro H. inversion H; subst. apply scan_string_shorter in E. simpl. lia. }
  destruct (scan_block_comment (c :: r)) as [[b rest']|] eqn:Eb.
  { intro H. inversion H; subst. unfold scan_block_comment in Eb.
    destruct (strip_prefix [47; 42] (c :: r)) as [r0|] eqn:Es; [|discriminate].
    apply strip_prefix_len in Es. destruct (find_close r0); [|discriminate]. inversion Eb; subst.
    rewrite skipn_length. simpl in *. lia. }
  destruct (scan_line_comment (c :: r)) as [[b rest']|] eqn:El.
  { intro H. inversion H; subst. unfold scan_line_comment in El.
    destruct (strip_prefix [47; 47] (c :: r)) as [r0|] eqn:Es; [|discriminate].
    apply strip_prefix_len in Es. inversion El as [E2]. pose proof (span_snd_le not_nl r0) as Hl.
    rewrite E2 in Hl. simpl in *. lia. }
  destruct (scan_bool (c :: r)) as [[v' rest']|] eqn:Ebo.
  { intro H. inversion H; subst. unfold scan_bool in Ebo.
    destruct (strip_prefix (bs "true") (c :: r)) as [r0|] eqn:E1.
    - apply strip_prefix_len in E1. destruct (word_boundary r0); [|discriminate]. inversion Ebo; subst. simpl in *. lia.
    - destruct (strip_prefix (bs "false") (c :: r)) as [r0|] eqn:E2; [|discriminate].
      apply strip_prefix_len in E2. destruct (word_boundary r0); [|discriminate]. inversion Ebo; subst. simpl in *. lia. }
  destruct (scan_number (c :: r)) as [[v' rest']|] eqn:En.
  { intro H. inversion H; subst. unfold scan_number in En.
    assert (forall sign s1, scan_unsigned sign s1 = Some (v, rest) -> (length rest < length s1)%nat) as Hu.
    { intros sign s1. unfold scan_unsigned.
      destruct (span is_digit s1) as [ds s2] eqn:E1. destruct ds as [|d ds]; [discriminate|].
      assert (length s2 < length s1)%nat as L1 by (eapply span_fst_nonempty_lt; [exact E1|discriminate]).
      destruct (hd_is 46 s2).
      - destruct (span is_digit (tl s2)) as [fs s4] eqn:E2.
        pose proof (span_snd_le is_digit (tl s2)) as L2. rewrite E2 in L2. simpl in L2.
        assert (length (tl s2) <= length s2)%nat by (destruct s2; simpl; lia).
        destruct fs; intro E; inversion E; subst; lia.
      - intro E; inversion E; subst; lia. }
    destruct (hd_is 45 (c :: r)); apply Hu in En; simpl in *; lia. }
  destruct (scan_ident (c :: r)) as [[[t' v'] rest']|] eqn:Ei.
  { intro H. inversion H; subst. unfold scan_ident in Ei. destruct (is_alpha_ c) eqn:Ea; [|discriminate].
    destruct (span is_word (c :: r)) as [id r0] eqn:Es. inversion Ei; subst.
    eapply span_fst_nonempty_lt; [exact Es|].
    cbn [span] in Es. destruct (alpha_facts c Ea) as (_ & _ & _ & _ & _ & Hw). rewrite Hw in Es.
    destruct (span is_word r). inversion Es. discriminate. }
  destruct (first_match punct_table (c :: r)) as [[[t' v'] rest']|] eqn:Ef; [|discriminate].
  intro H. inversion H; subst. eapply first_match_shorter; [|exact Ef]. vm_compute. reflexivity.
Qed.

Lemma lex_loop_fuel fuel : forall s rc acc, (length s < fuel)%nat -> lex_loop fuel s rc acc <> LexFuel.
Proof.
  induction fuel as [|f IH]; intros s rc acc Hl; [lia|].
  destruct s as [|c r]; [cbn [lex_loop]; discriminate|].
  rewrite lex_loop_step by discriminate.
  destruct (lex_step (c :: r)) as [t v rest|] eqn:E; [|discriminate].
  apply lex_step_shorter in E. apply IH. lia.
Qed.

Theorem tokenize_total src : tokenize src <> LexFuel.
Proof. unfold tokenize. apply lex_loop_fuel. lia. Qed.
