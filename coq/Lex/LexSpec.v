(* Specification side of tokenisation (property C11): the token grammar as lexical items,
   their rendering to source text, the value and position each token must report, and the
   adjacency side condition.  Nothing here mentions the lexer's probes or their order. *)
From Verif Require Import Base.Bytestr gen.Tables Lex.LexModel.
Open Scope N_scope.

(* one character of a string literal as written in the source *)
Inductive schar :=
| SRaw (b : N)       (* the byte itself *)
| SEsc (k : N).      (* backslash followed by byte k *)

(* Go's one-character escapes of interpreted string literals (Go spec, "Rune literals") *)
Definition esc_table : list (N * N) :=
  [ (97, 7); (98, 8); (102, 12); (110, 10); (114, 13); (116, 9); (118, 11); (92, 92); (34, 34) ].

Fixpoint assoc (k : N) (t : list (N * N)) : option N :=
  match t with
  | [] => None
  | (a, b) :: r => if k =? a then Some b else assoc k r
  end.

Definition schar_text (c : schar) : bytes :=
  match c with SRaw b => [b] | SEsc k => [92; k] end.

(* the Go-unquoted value of the literal, byte for byte *)
Definition schar_value (c : schar) : N :=
  match c with
  | SRaw b => b
  | SEsc k => match assoc k esc_table with Some v => v | None => 0 end
  end.

Definition schar_wf (raw : bool) (c : schar) : bool :=
  match c with
  | SRaw b => if raw then negb (b =? 96) else negb (b =? 34) && negb (b =? 92)
  | SEsc k => negb raw && match assoc k esc_table with Some _ => true | None => false end
  end.

Inductive item :=
| IWord (s : bytes)                   (* identifier, keyword or true/false *)
| INum (neg : bool) (ds : bytes) (fs : option bytes)   (* optional minus, digits, optional fraction *)
| IStr (raw : bool) (cs : list schar)
| IPunct (k : bytes) (t : toktype)    (* operator, bracket, separator, blank, newline *)
| ILine (body : bytes)                (* // body *)
| IBlock (body : bytes).              (* /* body */ *)

Definition quote (raw : bool) : N := if raw then 96 else 34.

Definition num_text (neg : bool) (ds : bytes) (fs : option bytes) : bytes :=
  (if neg then [45] else []) ++ ds ++ match fs with Some f => 46 :: f | None => [] end.

Definition item_text (it : item) : bytes :=
  match it with
  | IWord s => s
  | INum neg ds fs => num_text neg ds fs
  | IStr raw cs => quote raw :: concat (map schar_text cs) ++ [quote raw]
  | IPunct k _ => k
  | ILine body => 47 :: 47 :: body
  | IBlock body => 47 :: 42 :: body ++ [42; 47]
  end.

Definition word_type (s : bytes) : toktype :=
  if beq s (bs "true") || beq s (bs "false") then BOOL_LITERAL
  else match lookup s keyword_table with Some t => t | None => IDENTIFIER end.

(* the token an item stands for (None: blanks and comments leave no token) *)
Definition item_tok (it : item) : option (toktype * bytes) :=
  match it with
  | IWord s => Some (word_type s, s)
  | INum neg ds fs => Some (NUMBER_LITERAL, num_text neg ds fs)
  | IStr _ cs => Some (STRING_LITERAL, map schar_value cs)
  | IPunct k t => if dropped t then None else Some (t, k)
  | ILine _ | IBlock _ => None
  end.

Definition digits (ds : bytes) : bool :=
  match ds with [] => false | _ => forallb is_digit ds end.

Definition item_wf (it : item) : bool :=
  match it with
  | IWord s => match s with c :: _ => is_alpha_ c && forallb is_word s | [] => false end
  | INum _ ds fs => digits ds && match fs with Some f => digits f | None => true end
  | IStr raw cs => forallb (schar_wf raw) cs
  | IPunct k t => existsb (fun e => beq (fst e) k && toktype_beq (snd e) t) punct_table
  | ILine body => forallb not_nl body
  | IBlock body => match find_close (body ++ [42; 47]) with Some n => Nat.eqb n (length body) | None => false end
  end.

Definition starts_digit (r : bytes) : bool := match r with c :: _ => is_digit c | [] => false end.

(* what may follow an item directly (everything else needs a blank, a comment or a line break) *)
Definition follow_ok (it : item) (rest : bytes) : bool :=
  match it with
  | IWord _ => word_boundary rest
  | INum _ _ fs =>
      negb (starts_digit rest) &&
      (match fs with Some _ => true | None => negb (hd_is 46 rest && starts_digit (tl rest)) end)
  | IStr _ _ => true
  | IPunct k t =>
      let x := k ++ rest in
      negb (has_prefix [47; 47] x)
      && match scan_block_comment x with Some _ => false | None => true end
      && negb (hd_is 45 x && starts_digit (tl x))
      && match first_match punct_table x with
         | Some (t', k', _) => beq k' k && toktype_beq t' t
         | None => false
         end
  | ILine _ => match rest with [] => true | c :: _ => c =? 10 end
  | IBlock _ => true
  end.

Definition render (items : list item) : bytes := concat (map item_text items).

Fixpoint items_ok (items : list item) (tail : bytes) : bool :=
  match items with
  | [] => true
  | it :: r => item_wf it && follow_ok it (render r ++ tail) && items_ok r tail
  end.

(* the tokens the grammar prescribes, each with the position of its first character:
   row = 1 + line breaks before it, column = 1 + bytes since the last line break *)
Fixpoint expected (items : list item) (rc : N * N) : list token :=
  match items with
  | [] => []
  | it :: r =>
      let rc' := advance (item_text it) rc in
      match item_tok it with
      | Some (t, v) => mkTok t v (fst rc) (snd rc) :: expected r rc'
      | None => expected r rc'
      end
  end.

Definition eof_at (rc : N * N) : token := mkTok EOF [] (fst rc) (snd rc).

(* layout-insensitive view used by C12: types and values only *)
Definition strip (t : token) : toktype * bytes := (ty t, val t).
