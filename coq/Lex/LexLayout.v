(* Layout independence at the token level (the lexical half of C12), and CRLF. *)
From Verif Require Import Base.Bytestr gen.Tables Lex.LexModel Lex.LexSpec Lex.LexProofs Front.Squeeze.
From Coq Require Import Lia.
Open Scope N_scope.

(* the significant tokens of an item list: types and values, no positions *)
Fixpoint sig (items : list item) : list ptoken :=
  match items with
  | [] => []
  | it :: r => match item_tok it with Some tv => tv :: sig r | None => sig r end
  end.

Lemma strip_expected items rc : map strip_tok (expected items rc) = sig items.
Proof.
  revert rc; induction items as [|it items IH]; intro rc; [reflexivity|].
  cbn [expected sig]. destruct (item_tok it) as [[t v]|]; [cbn [map strip_tok ty val]; f_equal; apply IH|apply IH].
Qed.

Lemma parser_input_items items :
  items_ok items [] = true -> replace_crlf (render items) = render items ->
  parser_input (tokenize (render items)) = Some (squeeze (sig items ++ [(EOF, [])])).
Proof.
  intros Hok Hcr. rewrite tokenize_items by assumption.
  cbn [parser_input]. rewrite map_app, strip_expected. reflexivity.
Qed.

(* two renderings of the same token sequence, differing in blanks, comments, blank or
   comment-only lines at line breaks and a final newline, feed the parser the same tokens *)
Theorem layout_independent l1 l2 :
  items_ok l1 [] = true -> items_ok l2 [] = true ->
  replace_crlf (render l1) = render l1 -> replace_crlf (render l2) = render l2 ->
  squeeze (sig l1 ++ [(EOF, [])]) = squeeze (sig l2 ++ [(EOF, [])]) ->
  parser_input (tokenize (render l1)) = parser_input (tokenize (render l2)).
Proof. intros. rewrite !parser_input_items by assumption. congruence. Qed.

(* what the hypothesis on [sig] means: blanks and comments never show *)
Definition is_layout (it : item) : bool :=
  match it with
  | IPunct _ t => dropped t
  | ILine _ | IBlock _ => true
  | _ => false
  end.

Lemma sig_filter items : sig (filter (fun it => negb (is_layout it)) items) = sig items.
Proof.
  induction items as [|it items IH]; [reflexivity|].
  cbn [filter]. destruct (is_layout it) eqn:E; cbn [negb].
  - cbn [sig]. destruct it; try discriminate; cbn [item_tok]; cbn [is_layout] in E; try rewrite E; exact IH.
  - cbn [sig]. rewrite IH. reflexivity.
Qed.

(* ... and a line break may be repeated *)
Lemma compact_nl_nl a b : compact (a ++ (NEWLINE, [10]) :: (NEWLINE, [10]) :: b) = compact (a ++ (NEWLINE, [10]) :: b).
Proof.
  induction a as [|x a IH].
  - cbn [app compact]. reflexivity.
  - cbn [app]. cbn [compact].
    destruct (a ++ (NEWLINE, [10]) :: (NEWLINE, [10]) :: b) as [|y r] eqn:E1; [destruct a; discriminate|].
    destruct (a ++ (NEWLINE, [10]) :: b) as [|y' r'] eqn:E2; [destruct a; discriminate|].
    assert (y = y') as Hy by (destruct a; cbn [app] in E1, E2; congruence). subst y'.
    rewrite <- E1, <- E2 in *. destruct (is_nl x && is_nl y); [exact IH|f_equal; exact IH].
Qed.

Theorem blank_line_irrelevant a b :
  squeeze (a ++ (NEWLINE, [10]) :: (NEWLINE, [10]) :: b) = squeeze (a ++ (NEWLINE, [10]) :: b).
Proof. unfold squeeze. rewrite compact_nl_nl. reflexivity. Qed.

(* ---------- CRLF line ends ---------- *)

Fixpoint to_crlf (s : bytes) : bytes :=
  match s with
  | [] => []
  | c :: r => if c =? 10 then 13 :: 10 :: to_crlf r else c :: to_crlf r
  end.

Definition no_cr (s : bytes) : bool := forallb (fun c => negb (c =? 13)) s.

Lemma replace_crlf_id s : no_cr s = true -> replace_crlf s = s.
Proof.
  induction s as [|c r IH]; [reflexivity|]. cbn [no_cr forallb]. intro H.
  apply andb_true_iff in H as [Hc Hr]. apply negb_true_iff in Hc.
  cbn [replace_crlf]. rewrite Hc. cbn [andb]. f_equal. apply IH. exact Hr.
Qed.

Lemma replace_to_crlf s : no_cr s = true -> replace_crlf (to_crlf s) = s.
Proof.
  induction s as [|c r IH]; [reflexivity|]. cbn [no_cr forallb]. intro H.
  apply andb_true_iff in H as [Hc Hr]. apply negb_true_iff in Hc.
  cbn [to_crlf]. destruct (c =? 10) eqn:E.
  - apply N.eqb_eq in E. subst c. cbn [replace_crlf hd_is]. change (13 =? 13) with true. change (10 =? 10) with true.
    cbn [andb]. cbn [replace_crlf]. change (10 =? 13) with false. cbn [andb]. f_equal. apply IH. exact Hr.
  - cbn [replace_crlf]. rewrite Hc. cbn [andb]. f_equal. apply IH. exact Hr.
Qed.

Theorem crlf_irrelevant s : no_cr s = true -> tokenize (to_crlf s) = tokenize s.
Proof. intro H. unfold tokenize. rewrite replace_to_crlf, replace_crlf_id by exact H. reflexivity. Qed.
