(* Model of lexer.Tokenize (/repo/lexer/lexer.go), probe by probe, in Go's order.
   The regular expressions of the Go code are replaced by hand-written scanners for the same
   languages: scan_string/unescape1 (backslash + one rune through strconv.Unquote),
   scan_block_comment (first terminator), scan_line_comment, scan_bool (word boundary),
   scan_number (optional minus, digits, optional fraction), scan_ident + keyword table.
   The punctuation and keyword tables are generated from the Go source (gen/Tables.v). *)
From Verif Require Import Base.Bytestr gen.Tables.
Open Scope N_scope.

Record token := mkTok { ty : toktype; val : bytes; row : N; col : N }.

Inductive lexres :=
| LexOk (ts : list token)
| LexErr               (* Go returns (nil | partial, err); callers only look at err *)
| LexFuel.             (* model artefact: fuel exhausted (excluded by tokenize_fuel) *)

(* strings.ReplaceAll(source, CRLF, LF) *)
Fixpoint replace_crlf (s : bytes) : bytes :=
  match s with
  | [] => []
  | c :: r => if (c =? 13) && hd_is 10 r then replace_crlf r else c :: replace_crlf r
  end.

(* position after consuming [s] starting at (row, col): rows are advanced by newlines,
   the column restarts after each *)
Fixpoint advance (s : bytes) (rc : N * N) : N * N :=
  match s with
  | [] => rc
  | c :: r => advance r (if c =? 10 then (fst rc + 1, 1) else (fst rc, snd rc + 1))
  end.

(* strconv.Unquote of a quoted backslash + byte c: the nine escapes Go accepts inside double quotes
   with a one-character body; everything else is an invalid escape sequence *)
Definition unescape1 (c : N) : option N :=
  if c =? 97 then Some 7          (* \a *)
  else if c =? 98 then Some 8     (* \b *)
  else if c =? 102 then Some 12   (* \f *)
  else if c =? 110 then Some 10   (* \n *)
  else if c =? 114 then Some 13   (* \r *)
  else if c =? 116 then Some 9    (* \t *)
  else if c =? 118 then Some 11   (* \v *)
  else if c =? 92 then Some 92    (* \\ *)
  else if c =? 34 then Some 34    (* backslash quote *)
  else None.

Inductive strres :=
| StrOk (value : bytes) (rest : bytes)   (* rest = input after the closing quote *)
| StrUnterminated
| StrBadEscape.

(* body of a string literal after the opening quote; [raw] = backquoted *)
Fixpoint scan_string (raw : bool) (s : bytes) (acc : bytes) : strres :=
  match s with
  | [] => StrUnterminated
  | c :: r =>
      if raw then
        if c =? 96 then StrOk (rev acc) r else scan_string raw r (c :: acc)
      else if c =? 92 then
        match r with
        | [] => scan_string raw r (c :: acc)             (* the escape regexp needs a following character *)
        | d :: r' =>
            if d =? 10 then scan_string raw r (c :: acc) (* a dot does not match a newline *)
            else match unescape1 d with
                 | Some v => scan_string raw r' (v :: acc)
                 | None => StrBadEscape
                 end
        end
      else if c =? 34 then StrOk (rev acc) r
      else scan_string raw r (c :: acc)
  end.

(* index of the first star-slash in s *)
Fixpoint find_close (s : bytes) : option nat :=
  match s with
  | [] => None
  | c :: r =>
      if (c =? 42) && hd_is 47 r then Some O
      else match find_close r with Some n => Some (S n) | None => None end
  end.

(* slash-star body star-slash: returns body and rest *)
Definition scan_block_comment (s : bytes) : option (bytes * bytes) :=
  match strip_prefix [47; 42] s with
  | Some r =>
      match find_close r with
      | Some n => Some (firstn n r, skipn (n + 2) r)
      | None => None
      end
  | None => None
  end.

Definition not_nl (c : N) : bool := negb (c =? 10).

Definition scan_line_comment (s : bytes) : option (bytes * bytes) :=
  match strip_prefix [47; 47] s with
  | Some r => Some (span not_nl r)
  | None => None
  end.

Definition word_boundary (r : bytes) : bool :=
  match r with [] => true | c :: _ => negb (is_word c) end.

Definition scan_bool (s : bytes) : option (bytes * bytes) :=
  match strip_prefix (bs "true") s with
  | Some r => if word_boundary r then Some (bs "true", r) else None
  | None =>
      match strip_prefix (bs "false") s with
      | Some r => if word_boundary r then Some (bs "false", r) else None
      | None => None
      end
  end.

(* optional minus, digits, optional fraction *)
Definition scan_unsigned (sign s1 : bytes) : option (bytes * bytes) :=
  let '(ds, s2) := span is_digit s1 in
  match ds with
  | [] => None
  | _ =>
      if hd_is 46 s2 then
        let '(fs, s4) := span is_digit (tl s2) in
        match fs with
        | [] => Some (sign ++ ds, s2)
        | _ => Some (sign ++ ds ++ 46 :: fs, s4)
        end
      else Some (sign ++ ds, s2)
  end.

Definition scan_number (s : bytes) : option (bytes * bytes) :=
  if hd_is 45 s then scan_unsigned [45] (tl s) else scan_unsigned [] s.

Fixpoint lookup (k : bytes) (t : list (bytes * toktype)) : option toktype :=
  match t with
  | [] => None
  | (k', v) :: r => if beq k k' then Some v else lookup k r
  end.

Definition scan_ident (s : bytes) : option (toktype * bytes * bytes) :=
  match s with
  | c :: _ =>
      if is_alpha_ c then
        let '(id, r) := span is_word s in
        Some (match lookup id keyword_table with Some t => t | None => IDENTIFIER end, id, r)
      else None
  | [] => None
  end.

Fixpoint first_match (t : list (bytes * toktype)) (s : bytes) : option (toktype * bytes * bytes) :=
  match t with
  | [] => None
  | (k, v) :: t' =>
      match strip_prefix k s with
      | Some r => Some (v, k, r)
      | None => first_match t' s
      end
  end.

Inductive stepres :=
| StepTok (t : toktype) (v : bytes) (rest : bytes)   (* token of type t with value v; rest of input *)
| StepErr.

(* one iteration of the main loop at a non-empty input *)
Definition lex_step (s : bytes) : stepres :=
  match s with
  | [] => StepErr
  | c :: r =>
      if (c =? 96) || (c =? 34) then
        match scan_string (c =? 96) r [] with
        | StrOk v rest => StepTok STRING_LITERAL v rest
        | _ => StepErr
        end
      else
        match scan_block_comment s with
        | Some (b, rest) => StepTok COMMENT b rest
        | None =>
        match scan_line_comment s with
        | Some (b, rest) => StepTok COMMENT b rest
        | None =>
        match scan_bool s with
        | Some (v, rest) => StepTok BOOL_LITERAL v rest
        | None =>
        match scan_number s with
        | Some (v, rest) => StepTok NUMBER_LITERAL v rest
        | None =>
        match scan_ident s with
        | Some (t, v, rest) => StepTok t v rest
        | None =>
        match first_match punct_table s with
        | Some (t, v, rest) => StepTok t v rest
        | None => StepErr
        end end end end end end
  end.

Definition dropped (t : toktype) : bool :=
  match t with SPACE | COMMENT => true | _ => false end.

(* consumed text = the prefix of s that [rest] leaves *)
Definition consumed (s rest : bytes) : bytes := firstn (length s - length rest) s.

Fixpoint lex_loop (fuel : nat) (s : bytes) (rc : N * N) (acc : list token) : lexres :=
  match s with
  | [] => LexOk (rev (mkTok EOF [] (fst rc) (snd rc) :: acc))
  | _ =>
      match fuel with
      | O => LexFuel
      | S f =>
          match lex_step s with
          | StepErr => LexErr
          | StepTok t v rest =>
              let rc' := advance (consumed s rest) rc in
              lex_loop f rest rc' (if dropped t then acc else mkTok t v (fst rc) (snd rc) :: acc)
          end
      end
  end.

Definition tokenize (src : bytes) : lexres :=
  let s := replace_crlf src in
  lex_loop (S (length s)) s (1, 1) [].
