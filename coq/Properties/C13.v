(* C13  Transpilation is total: a script or an error, never a crash or a hang.  PARTIAL on the model side:
   termination of the lexer and of the used-function closure are proved; for the parser the fuel supplied
   (tok_fuel) is checked by the correspondence run, not proved (C13_parser_fuel_statement). *)
From Verif Require Import Base.Bytestr gen.Tables Lex.LexModel Lex.LexTotal Front.Squeeze Front.Ast Front.FrontModel
  Front.FrontFacts Back.Transpile Back.Pipeline.
Open Scope N_scope.

(* The lexer terminates on every byte string with an answer (tokens or an error). *)
From Verif Require Import Facts.C13Facts.

Theorem C13_lexer_total : forall src, tokenize src <> LexFuel.
Proof. exact tokenize_total. Qed.
Print Assumptions C13_lexer_total.

(* The result of the pipeline is a script or a failure, never both: a script comes with no error. *)
Theorem C13_script_xor_error : forall E path t,
  (exists s, transpile E path t = Script s) \/ transpile E path t = Failed
  \/ transpile E path t = Crashed \/ transpile E path t = OutOfFuel.
Proof. exact C13_script_xor_error_proof. Qed.
Print Assumptions C13_script_xor_error.

(* A missing main file is an error. *)
Theorem C13_missing_file : forall E path t, aget path (e_fs E) = None -> transpile E path t = Failed.
Proof. exact C13_missing_file_proof. Qed.
Print Assumptions C13_missing_file.

(* A lexical error in the main file is an error of the whole transpilation. *)
Theorem C13_lex_error_fails : forall E path fe t,
  tokenize (fe_content fe) = LexErr -> transpile_entry E path fe t = Failed.
Proof. exact C13_lex_error_fails_proof. Qed.
Print Assumptions C13_lex_error_fails.

(* what is not proved: the fuel the model supplies is always enough, and no converter method is called
   with an empty stack (no Crashed) *)
Definition C13_full_statement : Prop :=
  forall E path t, transpile E path t <> OutOfFuel /\ transpile E path t <> Crashed.
