(* C16  Every emitted script is well-formed for its interpreter.  Bash half proved for all programs;
   Batch half: checker validated per run (C16_batch_statement is not proved). *)
From Verif Require Import Base.Bytestr Front.Ast Back.BashLines Back.Transpile Back.BashConv Back.BashSyntax Back.BashFacts Back.BatchConv Back.BatchSyntax Back.TraverseInv Back.BatchLabels.
Open Scope N_scope.

(* For every program all of whose statements emit a command (the parser only builds such programs:
   non-empty variable lists, only calls as expression statements), the emitted Bash script
   - is the rendering of shebang + helper definitions + code,
   - and passes the syntax check: if/elif/else/fi, while/done and function braces are properly nested and
     every then-part, else-part, loop body and function body contains at least one command. *)
From Verif Require Import Facts.C16Facts.

Theorem C16_bash_well_formed : forall body script st,
  emit_bash body = TOk script st -> emits_all body = true ->
  well_formed (b_start st ++ b_code st) = true /\ script = render_script (b_start st ++ b_code st)
  /\ call_lines (b_code st) = calls_block body.
Proof. exact emit_bash_well_formed. Qed.
Print Assumptions C16_bash_well_formed.

(* The two building blocks, for every expression and every statement, at any nesting depth. *)
Theorem C16_expression_lines : forall e used s vs s',
  t_expr bash_conv e used s = TOk vs s' ->
  exists ls, ext s s' ls /\ forallb is_simple ls = true /\ call_lines ls = calls_expr e.
Proof. exact C16_expression_lines_proof. Qed.
Print Assumptions C16_expression_lines.

Theorem C16_statement_block : forall st s s',
  t_stmt bash_conv st s = TOk tt s' -> emits st = true ->
  exists ls, sext s s' ls /\ ls <> [] /\ (forall stk, stk <> [] -> check ls stk = Some (mark stk)) /\ call_lines ls = calls_stmt st.
Proof. exact C16_statement_block_proof. Qed.
Print Assumptions C16_statement_block.

(* Batch half, the part that is proved for every program: the labels of loops and conditionals are defined once. *)
Theorem C16_batch_labels_unique : forall body script st,
  emit_batch body = TOk script st -> names_ok_all plain_name body = true ->
  forall c k, fam c -> (cnt (lab c k) (batch_lines st) <= 1)%nat.
Proof. exact batch_script_family_labels_unique. Qed.
Print Assumptions C16_batch_labels_unique.

(* Non-vacuity and the role of the hypothesis: an if whose body is an unused expression (which the parser
   now rejects) would leave the then-part empty -- the checker sees it. *)
Example C16_empty_then_rejected :
  well_formed [LShebang; LIf (bs "if") (ALit (bs "1")); LFi] = false
  /\ well_formed [LShebang; LIf (bs "if") (ALit (bs "1")); LNop; LFi] = true.
Proof. vm_compute. split; reflexivity. Qed.
