(* C05  Batch target preserves the same program semantics under cmd.exe's rules.  PARTIAL.
   There is no cmd.exe in the sandbox.  Cmd/CmdModel.v is an executable model of cmd.exe for the subset of Batch
   the converter emits (statement-at-a-time reading, parse-time percent expansion, run-time delayed expansion,
   forward-then-wrap label search, call frames, numeric-versus-string IF, signed 32-bit set /A); it cannot be
   compared with the real interpreter (trusted base).  Proved about its building blocks, for all operands:
   - set /A on 32-bit operands returns what the reference arithmetic (Sem/Src.v) returns whenever that result is
     itself a 32-bit number (C05_arithmetic_agrees);
   - IF on the printed forms of two integers compares the integers (C05_if_numeric) -- but on quoted operands it
     compares strings, so 10 LSS 9 holds (C05_if_quoted_refuted: the defect of the slice helpers repaired in /repo);
   - a label that is defined once is found from every position (C05_label_found);
   - what the converter prints for an integer is read back by IF and set /A as that integer (C05_number_roundtrip).
   The statement over whole programs (C05_full_statement: the script's output under the model equals the reference
   semantics and the Bash run) is decided on generated programs by every run of the check, not proved. *)
From Verif Require Import Base.Bytestr Base.DecFacts Front.Ast Back.Transpile Back.BatchConv Back.BatchSyntax Back.TraverseInv Back.BatchLabels Sem.Src Cmd.CmdModel Cmd.CmdFacts Cmd.CmdWitness.
From Coq Require Import ZArith.
Open Scope N_scope.

Theorem C05_arithmetic_agrees : forall op a b r,
  in32 a -> in32 b -> Src.arith op a b = Some r -> in32 r -> arith_op (op_char op) a b = Some r.
Proof. exact arith_op_src. Qed.
Print Assumptions C05_arithmetic_agrees.

Theorem C05_number_roundtrip : forall z, as_int (dec_Z z) = Some z.
Proof. exact as_int_dec_Z. Qed.
Print Assumptions C05_number_roundtrip.

Theorem C05_if_numeric : forall op f a b,
  In (op, f) cmp_table -> in32 a -> in32 b -> compare_texts op (dec_Z a) (dec_Z b) = Some (f a b).
Proof. exact if_compares_integers. Qed.
Print Assumptions C05_if_numeric.

Theorem C05_if_quoted_refuted :
  compare_texts kw_lss (quoted (dec_Z 10)) (quoted (dec_Z 9)) = Some true
  /\ compare_texts kw_lss (dec_Z 10) (dec_Z 9) = Some false.
Proof. exact if_quoted_10_lss_9. Qed.
Print Assumptions C05_if_quoted_refuted.

Theorem C05_label_found : forall sc label i start,
  let want := lower (drop_while (fun c => c =? 58) label) in
  beq want kw_eof = false -> occurs_once (sc_info sc) want i -> find_label sc label start = Some i.
Proof. exact find_label_once. Qed.
Print Assumptions C05_label_found.

(* Label allocation (the state this property is anchored in: ifCounter, forCounter, endLabels, ifs): for EVERY program
   whose function names do not start with an underscore, each label of the allocated families _i<n>, _f<n>, _e<n> is
   defined at most once in the whole emitted script (start lines, helper routines, functions, top level, end lines) -- any nesting and sequencing of loops and conditionals, any
   number of functions -- and the labels the counters would hand out next are unused. *)
Theorem C05_labels_unique : forall body script st,
  emit_batch body = TOk script st -> names_ok_all plain_name body = true ->
  forall c k, fam c -> (cnt (lab c k) (batch_lines st) <= 1)%nat.
Proof. exact batch_script_family_labels_unique. Qed.
Print Assumptions C05_labels_unique.

Theorem C05_next_labels_fresh : forall body script st,
  emit_batch body = TOk script st -> names_ok_all plain_name body = true ->
  forall k, (w_if_counter st <= k)%nat -> cnt (lab 105 k) (concat (rev (w_funcs_code st)) ++ w_global st) = 0%nat.
Proof. exact batch_next_labels_fresh. Qed.
Print Assumptions C05_next_labels_fresh.

(* non-vacuity: two sequential loops and a nested one get three different label pairs *)
Example C05_labels_sample :
  let loop b := SFor None (EBool true) None b in
  match emit_batch [loop [SBreak]; loop [loop [SContinue]; SBreak]] with
  | TOk _ st => map (fun k => cnt (lab 102 k) (concat (rev (w_funcs_code st)) ++ w_global st)) [0; 1; 2; 3]%nat = [1; 1; 1; 0]%nat
                /\ map (fun k => cnt (lab 101 k) (concat (rev (w_funcs_code st)) ++ w_global st)) [0; 1; 2; 3]%nat = [1; 1; 1; 0]%nat
  | _ => False
  end.
Proof. vm_compute. split; reflexivity. Qed.

(* The recorded finding, computed on the models of parser, converter, cmd.exe and the reference semantics: after a
   panic inside a function the Batch script goes on (prints after), the program itself ends. *)
Theorem C05_panic_in_function_refuted :
  panic_runs = Some (CmdRan (lines3 (bs "before") (bs "panic: boom") (bs "after")) 1%Z,
                     Ran (bs "before" ++ [10] ++ bs "panic: boom" ++ [10]) 1%Z []).
Proof. exact panic_in_function_continues. Qed.
Print Assumptions C05_panic_in_function_refuted.

(* non-vacuity: a small script runs under the model *)
Example C05_sample : cmd_run 100 demo_script = CmdRan (bs "f a 2" ++ [10] ++ bs "42 lss 5" ++ [10]) 3.
Proof. exact demo_run. Qed.
