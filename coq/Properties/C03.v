(* C03  Bash target preserves slice and string operation semantics.  PARTIAL.
   Proved: the reference semantics of element assignment is "grow and zero-fill" exactly as the property words it,
   substrings are Go's s[a:b] through the desugared inclusive pair, and the emitted script structure/call order
   (C16/C04).  The simulation of slices in the shell (arrays named through _dv<n>, eval) is decided by executing
   generated programs (aliasing, growth, copy, range, all subscript forms) against Sem/Src.v. *)
From Verif Require Import Base.Bytestr Front.Ast Sem.Src Sem.SliceFacts.
From Coq Require Import ZArith List.

Theorem C03_store_length : forall l n v z, length (slice_store l n v z) = Nat.max (length l) (S n).
Proof. exact store_length. Qed.
Print Assumptions C03_store_length.

Theorem C03_store_written : forall l n v z, nth_error (slice_store l n v z) n = Some v.
Proof. exact store_written. Qed.
Print Assumptions C03_store_written.

Theorem C03_store_keeps_others : forall l n v z m, (m < length l)%nat -> m <> n -> nth_error (slice_store l n v z) m = nth_error l m.
Proof. exact store_keeps. Qed.
Print Assumptions C03_store_keeps_others.

Theorem C03_store_zero_fills_gap : forall l n v z m, (length l <= m < n)%nat -> nth_error (slice_store l n v z) m = Some z.
Proof. exact store_zero_fills. Qed.
Print Assumptions C03_store_zero_fills_gap.

Theorem C03_substring_length : forall (s : bytes) a n, (a + n <= length s)%nat -> length (sub_bytes s a n) = n.
Proof. exact substring_length. Qed.
Print Assumptions C03_substring_length.

(* copy(dst, src): the interpreter stores exactly copy_store (Src.v, ECopy) and reports length src *)
Theorem C03_copy_prefix : forall ls ld i, (i < length ls)%nat -> nth_error (copy_store ls ld) i = nth_error ls i.
Proof. exact copy_prefix. Qed.
Print Assumptions C03_copy_prefix.

Theorem C03_copy_keeps_tail : forall ls ld i, (length ls <= i)%nat -> nth_error (copy_store ls ld) i = nth_error ld i.
Proof. exact copy_tail. Qed.
Print Assumptions C03_copy_keeps_tail.

Theorem C03_copy_length : forall ls ld, length (copy_store ls ld) = Nat.max (length ls) (length ld).
Proof. exact copy_length. Qed.
Print Assumptions C03_copy_length.

(* reference semantics of the heap: a store through an id is what every holder of that id reads, no other slice changes,
   nothing but the heap changes, and a new slice never reuses an id (the _dvc counter of the script) *)
Theorem C03_write_visible_through_alias : forall id l s, (id < length (s_heap s))%nat ->
  exists s', set_slice id l s = Done tt s' /\ get_slice id s' = Done l s' /\ length (s_heap s') = length (s_heap s).
Proof. exact set_then_get. Qed.
Print Assumptions C03_write_visible_through_alias.

Theorem C03_write_keeps_other_slices : forall id id' l s s', set_slice id l s = Done tt s' -> id <> id' ->
  nth_error (s_heap s') id' = nth_error (s_heap s) id'.
Proof. exact set_keeps_others. Qed.
Print Assumptions C03_write_keeps_other_slices.

Theorem C03_write_changes_heap_only : forall id l s s', set_slice id l s = Done tt s' ->
  s_globals s' = s_globals s /\ s_frame s' = s_frame s /\ s_out s' = s_out s /\ s_files s' = s_files s /\ s_stdin s' = s_stdin s.
Proof. exact set_changes_heap_only. Qed.
Print Assumptions C03_write_changes_heap_only.

Theorem C03_new_slice_is_fresh : forall l s v s', new_slice l s = Done v s' ->
  exists id, v = VSlice id /\ nth_error (s_heap s) id = None /\ nth_error (s_heap s') id = Some l
    /\ forall id', (id' < length (s_heap s))%nat -> nth_error (s_heap s') id' = nth_error (s_heap s) id'.
Proof. exact new_slice_fresh. Qed.
Print Assumptions C03_new_slice_is_fresh.

Theorem C03_element_store_through_alias : forall id n v z s l, get_slice id s = Done l s ->
  exists s', set_slice id (slice_store l n v z) s = Done tt s'
    /\ (exists l', get_slice id s' = Done l' s' /\ nth_error l' n = Some v /\ length l' = Nat.max (length l) (S n)).
Proof. exact store_through_alias. Qed.
Print Assumptions C03_element_store_through_alias.

Example C03_copy_sample :
  copy_store [VInt 7; VInt 8] [VInt 1; VInt 2; VInt 3] = [VInt 7; VInt 8; VInt 3]
  /\ copy_store [VInt 7; VInt 8] [] = [VInt 7; VInt 8]
  /\ get_slice 0 (mkS [] [] [[VInt 1]] [] [] [] []) = Done [VInt 1] (mkS [] [] [[VInt 1]] [] [] [] []).
Proof. vm_compute. repeat split; reflexivity. Qed.

(* strings: the interpreter computes s[a:b], s[:b], s[a:], s[:], s[i] through the inclusive pair as sub_bytes s a (b - a) (Src.v, ESubscript) *)
Theorem C03_whole_string : forall s : bytes, sub_bytes s 0 (length s) = s.
Proof. exact sub_full. Qed.
Print Assumptions C03_whole_string.

Theorem C03_single_byte : forall (s : bytes) i, (i < length s)%nat -> sub_bytes s i 1 = [nth i s 0%N].
Proof. exact sub_single. Qed.
Print Assumptions C03_single_byte.

Theorem C03_adjacent_substrings : forall (s : bytes) a b c, (a <= b <= c)%nat ->
  sub_bytes s a (b - a) ++ sub_bytes s b (c - b) = sub_bytes s a (c - a).
Proof. exact sub_split. Qed.
Print Assumptions C03_adjacent_substrings.

Theorem C03_concat_then_cut : forall s t : bytes,
  sub_bytes (s ++ t) 0 (length s) = s /\ sub_bytes (s ++ t) (length s) (length t) = t.
Proof. exact sub_concat_left. Qed.
Print Assumptions C03_concat_then_cut.

(* the interpreter uses exactly slice_store *)
Example C03_store_sample :
  slice_store [VInt 1] 3 (VInt 9) (VInt 0) = [VInt 1; VInt 0; VInt 0; VInt 9]
  /\ sub_bytes (bs "hello") 1 3 = bs "ell".
Proof. vm_compute. split; reflexivity. Qed.
