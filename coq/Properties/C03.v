(* C03  Bash target preserves slice and string operation semantics.  PARTIAL.
   Proved: the reference semantics of element assignment is "grow and zero-fill" exactly as the property words it,
   substrings are Go's s[a:b] through the desugared inclusive pair, and the emitted script structure/call order
   (C16/C04).  The simulation of slices in the shell (arrays named through _dv<n>, eval) is decided by executing
   generated programs (aliasing, growth, copy, range, all subscript forms) against Sem/Src.v. *)
From Verif Require Import Base.Bytestr Front.Ast Sem.Src Sem.SliceFacts.
From Coq Require Import ZArith.

Theorem C03_store_length : forall l n v z, length (slice_store l n v z) = Nat.max (length l) (S n).
Proof. exact store_length. Qed.
Print Assumptions C03_store_length.

Theorem C03_store_written : forall l n v z, nth_error (slice_store l n v z) n = Some v.
Proof. exact store_written. Qed.
Print Assumptions C03_store_written.

Theorem C03_store_keeps_others : forall l n v z m, (m < length l)%nat -> m <> n -> nth_error (slice_store l n v z) m = nth_error l m.
Proof. exact store_keeps. Qed.
Print Assumptions C03_store_keeps_others.

Theorem C03_store_zero_fills_gap : forall l n v z m, (length l <= m < n)%nat -> nth_error (slice_store l n v z) m = Some z.
Proof. exact store_zero_fills. Qed.
Print Assumptions C03_store_zero_fills_gap.

Theorem C03_substring_length : forall (s : bytes) a n, (a + n <= length s)%nat -> length (sub_bytes s a n) = n.
Proof. exact substring_length. Qed.
Print Assumptions C03_substring_length.

(* the interpreter uses exactly slice_store *)
Example C03_store_sample :
  slice_store [VInt 1] 3 (VInt 9) (VInt 0) = [VInt 1; VInt 0; VInt 0; VInt 9]
  /\ sub_bytes (bs "hello") 1 3 = bs "ell".
Proof. vm_compute. split; reflexivity. Qed.
