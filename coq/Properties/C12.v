(* C12  Program meaning is independent of layout. *)
From Verif Require Import Base.Bytestr gen.Tables Lex.LexModel Lex.LexSpec Lex.LexLayout Front.Squeeze Front.Ast
  Front.FrontModel Front.FrontFacts Back.Pipeline.
Open Scope N_scope.

(* Two renderings of one token sequence that differ only in blanks, tabs, line and block comments,
   blank or comment-only lines at line breaks and the final newline hand the parser the same tokens. *)
From Verif Require Import Facts.C12Facts.

Theorem C12_tokens_layout_independent : forall l1 l2,
  items_ok l1 [] = true -> items_ok l2 [] = true ->
  replace_crlf (render l1) = render l1 -> replace_crlf (render l2) = render l2 ->
  squeeze (sig l1 ++ [(EOF, [])]) = squeeze (sig l2 ++ [(EOF, [])]) ->
  parser_input (tokenize (render l1)) = parser_input (tokenize (render l2)).
Proof. exact layout_independent. Qed.
Print Assumptions C12_tokens_layout_independent.

(* Blanks and comments never reach the parser ... *)
Theorem C12_layout_items_invisible : forall items, sig (filter (fun it => negb (is_layout it)) items) = sig items.
Proof. exact sig_filter. Qed.
Print Assumptions C12_layout_items_invisible.

(* ... and a line break may be repeated (blank or comment-only lines). *)
Theorem C12_blank_lines : forall a b,
  squeeze (a ++ (NEWLINE, [10]) :: (NEWLINE, [10]) :: b) = squeeze (a ++ (NEWLINE, [10]) :: b).
Proof. exact blank_line_irrelevant. Qed.
Print Assumptions C12_blank_lines.

(* CRLF versus LF. *)
Theorem C12_crlf : forall s, no_cr s = true -> tokenize (to_crlf s) = tokenize s.
Proof. exact crlf_irrelevant. Qed.
Print Assumptions C12_crlf.

(* The whole pipeline sees the main file only through those tokens: same tokens, same verdict and
   byte-identical script, for either target. *)
Theorem C12_script_depends_on_tokens_only : forall E path fe1 fe2 t,
  parser_input (tokenize (fe_content fe1)) = parser_input (tokenize (fe_content fe2)) ->
  transpile_entry E path fe1 t = transpile_entry E path fe2 t.
Proof. exact C12_script_depends_on_tokens_only_proof. Qed.
Print Assumptions C12_script_depends_on_tokens_only.

(* Non-vacuity: two layouts of one program. *)
Definition layout_a : list item :=
  [ IWord (bs "x"); IPunct (bs ":=") SHORT_INIT_OPERATOR; INum false (bs "1") None; IPunct [10] NEWLINE;
    IWord (bs "print"); IPunct (bs "(") OPENING_ROUND_BRACKET; IWord (bs "x"); IPunct (bs ")") CLOSING_ROUND_BRACKET; IPunct [10] NEWLINE ].
Definition layout_b : list item :=
  [ IPunct [10] NEWLINE; ILine (bs " head"); IPunct [10] NEWLINE; IPunct [9] SPACE; IWord (bs "x"); IPunct [32] SPACE;
    IPunct (bs ":=") SHORT_INIT_OPERATOR; IBlock (bs "c"); INum false (bs "1") None; IPunct [32] SPACE; IPunct [10] NEWLINE;
    IPunct [10] NEWLINE; IPunct [32] SPACE; ILine (bs "only a comment"); IPunct [10] NEWLINE;
    IWord (bs "print"); IPunct [32] SPACE; IPunct (bs "(") OPENING_ROUND_BRACKET; IPunct [32] SPACE; IWord (bs "x");
    IPunct (bs ")") CLOSING_ROUND_BRACKET ].
Example C12_sample :
  items_ok layout_a [] = true /\ items_ok layout_b [] = true /\
  squeeze (sig layout_a ++ [(EOF, [])]) = squeeze (sig layout_b ++ [(EOF, [])]) /\
  render layout_a <> render layout_b.
Proof. vm_compute. repeat split; try reflexivity. discriminate. Qed.
