(* C15  std/strings agrees with Go's strings package.
   For ALL arguments (no bound on lengths): the transliteration of std/strings.tsh (Lib/StrLib.v, function by
   function, loop by loop, with the substring semantics of the Bash back-end) returns what the specification of
   the Go function of the same name (Lib/GoStrings.v) returns; Some on the left also says that no loop runs out
   of fuel and no substring expression leaves Bash's defined range.  Repeat: for non-negative counts (Go panics
   on negative ones).  The check ties both sides to reality on every run: lib_f against the compiled library
   executed under /bin/bash, go_f against Go's own strings functions, on the same argument tuples; and the
   source lines of std/strings.tsh must still be the ones quoted in Lib/StrLib.v. *)
From Verif Require Import Base.Bytestr Lib.GoStrings Lib.StrLib Lib.StrLibFacts.
From Coq Require Import ZArith.
Open Scope N_scope.

Theorem C15_has_prefix : forall s prefix,
  lib_has_prefix s prefix = Some (go_has_prefix s prefix).
Proof. exact lib_has_prefix_correct. Qed.
Print Assumptions C15_has_prefix.

Theorem C15_has_suffix : forall s suffix,
  lib_has_suffix s suffix = Some (go_has_suffix s suffix).
Proof. exact lib_has_suffix_correct. Qed.
Print Assumptions C15_has_suffix.

Theorem C15_cut_prefix : forall s prefix,
  lib_cut_prefix s prefix = Some (go_cut_prefix s prefix).
Proof. exact lib_cut_prefix_correct. Qed.
Print Assumptions C15_cut_prefix.

Theorem C15_cut_suffix : forall s suffix,
  lib_cut_suffix s suffix = Some (go_cut_suffix s suffix).
Proof. exact lib_cut_suffix_correct. Qed.
Print Assumptions C15_cut_suffix.

Theorem C15_trim_prefix : forall s prefix,
  lib_trim_prefix s prefix = Some (go_trim_prefix s prefix).
Proof. exact lib_trim_prefix_correct. Qed.
Print Assumptions C15_trim_prefix.

Theorem C15_trim_suffix : forall s suffix,
  lib_trim_suffix s suffix = Some (go_trim_suffix s suffix).
Proof. exact lib_trim_suffix_correct. Qed.
Print Assumptions C15_trim_suffix.

Theorem C15_repeat : forall s count,
  (0 <= count)%Z -> lib_repeat s count = Some (go_repeat s count).
Proof. exact lib_repeat_correct. Qed.
Print Assumptions C15_repeat.

Theorem C15_join : forall elems sep,
  lib_join elems sep = Some (go_join elems sep).
Proof. exact lib_join_correct. Qed.
Print Assumptions C15_join.

Theorem C15_index : forall s substr,
  lib_index s substr = Some (go_index s substr).
Proof. exact lib_index_correct. Qed.
Print Assumptions C15_index.

Theorem C15_contains : forall s substr,
  lib_contains s substr = Some (go_contains s substr).
Proof. exact lib_contains_correct. Qed.
Print Assumptions C15_contains.

Theorem C15_cut : forall s sep,
  lib_cut s sep = Some (go_cut s sep).
Proof. exact lib_cut_correct. Qed.
Print Assumptions C15_cut.

Theorem C15_count : forall s substr,
  lib_count s substr = Some (go_count s substr).
Proof. exact lib_count_correct. Qed.
Print Assumptions C15_count.

Theorem C15_trim_left : forall s cutset,
  lib_trim_left s cutset = Some (go_trim_left s cutset).
Proof. exact lib_trim_left_correct. Qed.
Print Assumptions C15_trim_left.

Theorem C15_trim_right : forall s cutset,
  lib_trim_right s cutset = Some (go_trim_right s cutset).
Proof. exact lib_trim_right_correct. Qed.
Print Assumptions C15_trim_right.

Theorem C15_trim : forall s cutset,
  lib_trim s cutset = Some (go_trim s cutset).
Proof. exact lib_trim_correct. Qed.
Print Assumptions C15_trim.

Theorem C15_trim_space : forall s,
  lib_trim_space s = Some (go_trim_space s).
Proof. exact lib_trim_space_correct. Qed.
Print Assumptions C15_trim_space.

Theorem C15_replace : forall s old new n,
  lib_replace s old new n = Some (go_replace s old new n).
Proof. exact lib_replace_correct. Qed.
Print Assumptions C15_replace.

Theorem C15_replace_all : forall s old new,
  lib_replace_all s old new = Some (go_replace_all s old new).
Proof. exact lib_replace_all_correct. Qed.
Print Assumptions C15_replace_all.

Theorem C15_split : forall s sep,
  lib_split s sep = Some (go_split s sep).
Proof. exact lib_split_correct. Qed.
Print Assumptions C15_split.

(* non-vacuity: concrete evaluations of both sides *)
Example C15_sample :
  lib_split (bs "a,b,,c,") (bs ",") = Some [bs "a"; bs "b"; []; bs "c"; []]
  /\ lib_replace (bs "banana") (bs "an") (bs "AN") 1 = Some (bs "bANana")
  /\ lib_trim_space (bs "  x y  ") = Some (bs "x y")
  /\ lib_index (bs "chicken") (bs "ken") = Some 4%Z.
Proof. vm_compute. repeat split; reflexivity. Qed.
