(* C19  The tsh command writes exactly the library's output, or nothing.
   [tsh lib fs args] is the model of tsh.go (Cli/Tsh.v); [lib] is an arbitrary library. *)
From Verif Require Import Base.Bytestr Cli.Tsh Cli.TshProofs.
Open Scope N_scope.

(* Success: exit 0; every requested target's file holds exactly what the library returns for that
   target; every other path (the input included, when it is no output path) is as before. *)
From Verif Require Import Facts.C19Facts.

Theorem C19_writes_exactly : forall lib fs args o,
  parse_options fs args = Some o ->
  (forall t, In t (o_targets o) -> lib (o_in o) t <> None) ->
  snd (tsh lib fs args) = Exit0 /\
  forall p, fs_find p (fst (tsh lib fs args)) =
            match find (fun t => beq p (out_path o t)) (o_targets o) with
            | Some t => match lib (o_in o) t with Some s => Some (File s) | None => None end
            | None => fs_find p fs
            end.
Proof. exact C19_writes_exactly_proof. Qed.
Print Assumptions C19_writes_exactly.

(* Bad options (unknown switch, missing value, missing or wrong input/output, unknown target, nothing requested):
   non-zero exit and an unchanged file system. *)
Theorem C19_bad_options : forall lib fs args,
  parse_options fs args = None -> tsh lib fs args = (fs, ExitPanic).
Proof. exact C19_bad_options_proof. Qed.
Print Assumptions C19_bad_options.

(* A target for which the library reports an error: non-zero exit, and that target's output file is
   neither created nor changed. *)
Theorem C19_failing_target_clean : forall lib fs args o t,
  parse_options fs args = Some o -> In t (o_targets o) -> lib (o_in o) t = None ->
  snd (tsh lib fs args) = ExitPanic /\
  fs_find (out_path o t) (fst (tsh lib fs args)) = fs_find (out_path o t) fs.
Proof. exact C19_failing_target_clean_proof. Qed.
Print Assumptions C19_failing_target_clean.

(* Whatever happens, a path that is no output path of a requested target is untouched
   (in particular the input file, unless it is itself named like an output). *)
Theorem C19_nothing_else_touched : forall lib fs args p,
  (forall o t, parse_options fs args = Some o -> In t (o_targets o) -> p <> out_path o t) ->
  fs_find p (fst (tsh lib fs args)) = fs_find p fs.
Proof. exact C19_nothing_else_touched_proof. Qed.
Print Assumptions C19_nothing_else_touched.

(* The order in which targets are requested and naming a target twice do not matter. *)
Theorem C19_target_order_and_repetition : forall lib fs o ts1 ts2,
  (forall t, In t ts1 <-> In t ts2) ->
  (forall t, In t ts1 -> lib (o_in o) t <> None) ->
  forall p, fs_find p (fst (emit_all lib o ts1 fs)) = fs_find p (fst (emit_all lib o ts2 fs)).
Proof. exact C19_target_order_and_repetition_proof. Qed.
Print Assumptions C19_target_order_and_repetition.

(* Non-vacuity: a concrete run.  "-t bash -i a.b.tsh -o out -t batch -t bash" writes out/a.b.sh and out/a.b.bat. *)
Definition lib0 (p : bytes) (t : target) : option bytes :=
  Some (match t with Bash => bs "#!/bin/bash" | Batch => bs "@echo off" end).
Definition fs0 : fsys := [ (bs "a.b.tsh", File (bs "print(1)")); (bs "out", Dir) ].
Definition args0 := [ bs "-t"; bs "bash"; bs "-i"; bs "a.b.tsh"; bs "-o"; bs "out"; bs "-t"; bs "batch"; bs "-t"; bs "bash" ].

Example C19_sample :
  tsh lib0 fs0 args0 =
  ([ (bs "a.b.tsh", File (bs "print(1)")); (bs "out", Dir);
     (bs "out/a.b.sh", File (bs "#!/bin/bash")); (bs "out/a.b.bat", File (bs "@echo off")) ], Exit0)
  /\ tsh lib0 fs0 [bs "-i"; bs "a.b.tsh"; bs "-o"; bs "out"; bs "-t"] = (fs0, ExitPanic)
  /\ tsh (fun _ _ => None) fs0 args0 = (fs0, ExitPanic).
Proof. vm_compute. repeat split; reflexivity. Qed.
