(* C10  Program behaviour is independent of how identifiers are spelled.
   Proved (Bash back-end): every name the converter creates for itself -- helper variables, return registers,
   loop flags, dynamic slice names, helper routines and their scratch variables, mangled locals -- lies in a
   decidable class (leading underscore, or f<digits>_...), mangling is injective, helper names are pairwise
   distinct; hence an identifier OUTSIDE the class is never captured (C10_unreserved_never_captured).
   The front end does not reject identifiers inside the class, and a captured name changes behaviour
   (C10_reserved_refuted, computed on the models of parser, converter and shell): known findings by class.
   Names of shell builtins, keywords and environment variables are outside the model (they need the shell's
   own name space); the check renames generated programs into all these classes and runs both versions. *)
From Verif Require Import Base.Bytestr Front.Ast Back.BashLines Back.Transpile Back.BashConv Back.NameFacts Back.BatchConv Back.Reserved Sem.ExprPreserve.
Open Scope N_scope.

Theorem C10_converter_names_reserved :
  (forall s, reserved_bash (fst (next_helper s)) = true)
  /\ (forall i, reserved_bash (rv_name i) = true)
  /\ (forall k, reserved_bash (bs "_fv" ++ dec_nat k) = true)
  /\ (forall k x, reserved_bash (mangled k x) = true)
  /\ forallb reserved_bash [bs "_dvc"; bs "_ret"; bs "_ls"; bs "_ll"; bs "_i"; bs "_l"; bs "_c"; bs "_n"; bs "_v"; bs "_sah"; bs "_sch"; bs "_ssh"] = true.
Proof. exact converter_names_reserved. Qed.
Print Assumptions C10_converter_names_reserved.

Theorem C10_unreserved_never_captured : forall u,
  reserved_bash u = false ->
  (forall s, u <> fst (next_helper s)) /\ (forall i, u <> rv_name i) /\ (forall k, u <> bs "_fv" ++ dec_nat k) /\ (forall k x, u <> mangled k x)
  /\ ~ In u [bs "_dvc"; bs "_ret"; bs "_ls"; bs "_ll"; bs "_i"; bs "_l"; bs "_c"; bs "_n"; bs "_v"; bs "_sah"; bs "_sch"; bs "_ssh"].
Proof. exact unreserved_never_captured. Qed.
Print Assumptions C10_unreserved_never_captured.

Theorem C10_locals_never_meet : forall k1 k2 n1 n2, mangled k1 n1 = mangled k2 n2 -> k1 = k2 /\ n1 = n2.
Proof. exact mangled_inj. Qed.
Print Assumptions C10_locals_never_meet.

Theorem C10_helpers_distinct : forall s k1 k2, helper_name s k1 = helper_name s k2 -> k1 = k2.
Proof. exact helper_name_inj. Qed.
Print Assumptions C10_helpers_distinct.

(* The Batch back-end: the same class plus the newline variable LF under cmd.exe's case folding. *)
Theorem C10_batch_names_reserved :
  (forall s, reserved_batch (fst (w_next_helper s)) = true)
  /\ (forall i, reserved_batch (fa_name i) = true)
  /\ (forall i, reserved_batch (rv_name_w i) = true)
  /\ (forall k, reserved_batch (bs "_fv" ++ dec_nat k) = true)
  /\ (forall s x, w_funcs s <> [] -> reserved_batch (w_var_name s x false) = true)
  /\ forallb reserved_batch [bs "_e"; bs "_dvc"; bs "_len"; bs "_i"; bs "_v"; bs "_sub"; bs "_sh"; bs "_l"; bs "_te"; bs "_h"; bs "_a"; bs "LF"] = true.
Proof. exact batch_converter_names_reserved. Qed.
Print Assumptions C10_batch_names_reserved.

Theorem C10_batch_unreserved_never_captured : forall u,
  reserved_batch u = false ->
  (forall s, u <> fst (w_next_helper s)) /\ (forall i, u <> fa_name i) /\ (forall i, u <> rv_name_w i) /\ (forall k, u <> bs "_fv" ++ dec_nat k)
  /\ (forall s x, w_funcs s <> [] -> u <> w_var_name s x false)
  /\ ~ In u [bs "_e"; bs "_dvc"; bs "_len"; bs "_i"; bs "_v"; bs "_sub"; bs "_sh"; bs "_l"; bs "_te"; bs "_h"; bs "_a"; bs "LF"].
Proof. exact batch_unreserved_never_captured. Qed.
Print Assumptions C10_batch_unreserved_never_captured.

Theorem C10_reserved_refuted : capture_result = Some (bs "6", bs "12").
Proof. exact reserved_name_captured. Qed.
Print Assumptions C10_reserved_refuted.

(* non-vacuity: ordinary identifiers are outside the class, the converter's own are inside *)
Example C10_sample :
  map reserved_bash [bs "total"; bs "f"; bs "f1"; bs "fx_1"; bs "x_h0"; bs "_h0"; bs "f1_a"; bs "f12__h3"; bs "_"]
  = [false; false; false; false; false; true; true; true; true].
Proof. reflexivity. Qed.
