(* C01  Bash target preserves scalar expression and control-flow semantics.  PARTIAL.
   Proved: (1) expressions - for every call-free scalar expression the emitted lines compute the source value in the shell
   (any nesting depth, any operator mix, all int64 values, strings as data, len of strings); (2) integer literals keep their value through
   printing and re-reading; (3) the reference arithmetic is Go's int64 arithmetic; (4) straight-line programs
   (C01_straight_line_preserved); (5) conditionals at any nesting depth (C01_conditionals_preserved); (6) terminating
   programs with loops, break, continue, simultaneous assignments and call statements (C01_loops_preserved); (7) the source
   semantics of these theorems is executable (C01_source_semantics_executable); (8) whole programs end to end
   (C01_program_preserved): interpreter answer + decidable name check => the emitted script prints it; (9) the statement
   structure of the script (C16/C04 theorems).  NOT covered by a theorem: slices, subscripts of strings,
   calls as operands or arguments, panic, non-terminating runs; these are decided on generated programs by running the
   implementation's script under /bin/bash against Sem/Src.v. *)
From Verif Require Import Base.Bytestr Base.DecFacts Front.Ast Front.FrontModel Back.BashLines Back.Transpile Back.BashConv
  Back.BashFacts Sem.Src Sem.SrcFacts Sem.BashSem Sem.ExprPreserve Sem.Words Sem.StmtPreserve Sem.FlatSem Sem.IfPreserve Sem.FlatLoop Sem.LoopPreserve.
From Coq Require Import ZArith.
Open Scope N_scope.

(* For every call-free scalar expression e (literals, variables, groups, !, + - * / %, string +, == != < <= > >=,
   && ||, itoa), every source environment sg (well-typed, int64 values), every shell environment b that
   represents sg on the variables of e, with no user variable spelled like a converter helper:
   if e has the value v (peval) then the lines the converter appends run without error and leave the value's
   text in the returned atom; no variable other than fresh helpers changes. *)
From Verif Require Import Facts.C01Facts Sem.CallPreserve Sem.JRun Sem.ProgramPreserve Facts.SimSamples.

Theorem C01_expression_preserved : forall e sg used s vs s' b v,
  pure e = true ->
  t_expr bash_conv e used s = TOk vs s' -> peval sg e = Some v -> env_ok sg -> lits_ok e ->
  represents sg b s (vars_of e) -> hygienic s (vars_of e) ->
  exists ls a b',
    vs = [a] /\ b_code s' = b_code s ++ ls /\ exec_lines b ls = Some b' /\ atom_text b' a = text v /\
    (forall n, (forall k, (b_var_counter s <= k < b_var_counter s')%nat -> n <> helper_name s k) -> sh_get n b' = sh_get n b).
Proof. exact C01_expression_preserved_proof. Qed.
Print Assumptions C01_expression_preserved.

(* Straight-line programs (assignments and definitions of one variable from call-free scalar expressions, print of such
   expressions, in any number and order): run by the shell model -- assignments as in Sem/BashSem.v, the printed line
   through the model of double-quoted text of Sem/Words.v -- the emitted lines print exactly what the source prints
   and leave the shell environment representing the final source environment.  String VALUES may hold any bytes;
   string LITERALS must be neutral (C08), variable names must be identifiers no other variable or helper shares. *)
Theorem C01_straight_line_preserved : forall XS sg body sg' out,
  sl XS sg body sg' out -> forall s u s' b,
  go_fix body s = TOk u s' -> env_ok sg ->
  (forall x, In x XS -> var_fine s x) -> represents sg b s XS -> hygienic s XS -> names_inj s XS ->
  exists ls b', b_code s' = b_code s ++ ls /\ exec_outs b ls = Some (b', out) /\ represents sg' b' s' XS.
Proof. exact straight_line_preserved. Qed.
Print Assumptions C01_straight_line_preserved.

(* Conditionals.  Programs of assignments, prints and if / else-if / else whose branches are again such programs, at any
   nesting depth (slx is their source semantics: all conditions of a chain are evaluated first, then the first true branch
   or the else part runs): the emitted lines, run by the flat shell model of Sem/FlatSem.v (condition lines [ c -eq 1 ],
   a false condition moves to the next elif / else / fi of the construct, the end of a taken branch moves behind the
   matching fi), print what the source prints and leave the environment representing the final source environment. *)
Theorem C01_conditionals_preserved : forall XS sg body sg' out s u s' b,
  slx XS sg body sg' out -> go_fix body s = TOk u s' -> env_ok sg -> ctx_ok XS sg b s ->
  exists X b', b_code s' = b_code s ++ X /\ runs b X (b', out) /\ represents sg' b' s' XS.
Proof. exact conditionals_preserved. Qed.
Print Assumptions C01_conditionals_preserved.

(* Loops.  Programs of assignments, prints, conditionals, three-clause and condition-only for loops, break and continue, at
   any nesting depth (J is their source semantics with termination built in: a derivation exists exactly for terminating
   runs; the increment clause runs at the start of every round but the first): the emitted lines, run by the flat shell
   model with loops of Sem/FlatLoop.v (a loop is entered by pushing the list behind do; done and continue go back to it,
   break and a failing exit test go behind the matching done; the first-iteration flag guards the increment), print what
   the source prints and leave the environment representing the final source environment.  fresh_flags: no variable of
   the program is spelled like a loop flag _fv<n>, a return register _rv<n> or a mangled local f<n>_x of a function that may
   run (C10); loops opened before this code have numbers below klo.  Simultaneous assignments x, y = e1, e2 and the calls x = f(..), x, y = f(..), x := f(..) and f(..) with call-free
   arguments are statements of these programs too: scall is what a call does in the source, call what the script's
   function does (with pos its positional parameters), and call_refines says the latter refines the former - results in
   the return registers, the caller's variables still represented, protected flags and the names of later functions
   unwritten.  more fuel never changes what a call does (fuel_mono).  Sem/CallPreserve.v discharges call_refines for the functions of a
   script (C02_calls_refined). *)
Theorem C01_loops_preserved : forall call pos, fuel_mono call -> forall klo mlo scall, call_refines call klo mlo scall ->
  forall XS sg body sg' out s u s' b,
  J scall XS (Prog body) sg sg' out SN -> go_fix body s = TOk u s' -> frag2_all body = true -> env_ok sg -> ctx_ok XS sg b s ->
  fresh_flags klo mlo XS s ->
  exists X b', b_code s' = b_code s ++ X /\ lruns call pos b [] X (b', out) /\ represents sg' b' s' XS.
Proof. exact loops_preserved. Qed.
Print Assumptions C01_loops_preserved.

(* Integer literals: what the converters print is read back as the same int64. *)
Theorem C01_literal_roundtrip : forall z, (-9223372036854775808 <= z <= 9223372036854775807)%Z -> atoi (dec_Z z) = Some z.
Proof. exact atoi_dec_Z. Qed.
Print Assumptions C01_literal_roundtrip.

(* The reference arithmetic stays within int64 and truncates like Go. *)
Theorem C01_reference_arithmetic : forall op a b z,
  arith op a b = Some z -> (int64_min <= a <= int64_max)%Z -> (int64_min <= b <= int64_max)%Z -> (int64_min <= z <= int64_max)%Z.
Proof. exact arith_in_range. Qed.
Print Assumptions C01_reference_arithmetic.

(* Helper variables of one expression are pairwise distinct. *)
Theorem C01_helpers_distinct : forall s k1 k2, helper_name s k1 = helper_name s k2 -> k1 = k2.
Proof. exact helper_name_inj. Qed.
Print Assumptions C01_helpers_distinct.

(* Non-vacuity: (x + 2) * 3 < 20 && !false with x = 4 *)
Definition vx : var := mkVar (bs "x") (T DInt) true false.
Definition e0 : expr :=
  ELogical (ECompare (EBinary (EGroup (EBinary (EVar vx) OpAdd (EInt 2))) OpMul (EInt 3)) CLt (EInt 20)) LAnd (EUnary (EBool false)).
Definition sg0 : senv := fun y => if beq (v_name y) (bs "x") then Some (VInt 4) else None.
Example C01_sample :
  pure e0 = true /\ peval sg0 e0 = Some (VBool true) /\
  match t_expr bash_conv e0 true b_init with
  | TOk [a] s' => match exec_lines [(bs "x", bs "4")] (b_code s') with Some b' => atom_text b' a = bs "1" | None => False end
  | _ => False
  end.
Proof. vm_compute. repeat split; reflexivity. Qed.

(* Non-vacuity of the straight-line theorem: y := x + 1; print(t, y) with a string value full of shell syntax *)
Definition vy : var := mkVar (bs "y") (T DInt) true false.
Definition vt : var := mkVar (bs "t") (T DString) true false.
Definition prog1 : list stmt := [SAssign [vy] [EBinary (EVar vx) OpAdd (EInt 1)]; SPrint [EVar vt; EVar vy]].
Example C01_straight_sample :
  match go_fix prog1 b_init with
  | TOk _ s' => exec_outs [(bs "x", bs "4"); (bs "t", bs "a""b $(touch X) `c` \ *")] (b_code s')
                = Some ([(bs "y", bs "5"); (bs "_h0", bs "5"); (bs "x", bs "4"); (bs "t", bs "a""b $(touch X) `c` \ *")],
                        bs "a""b $(touch X) `c` \ * 5" ++ [10])
  | _ => False
  end.
Proof. vm_compute. reflexivity. Qed.

(* Non-vacuity of the conditional theorem: if x > 5 { print("big") } else if x > 3 { y = x * 2; print(t, y) } else { print("small") }; print("end") *)
Definition cgt (n : Z) : expr := ECompare (EVar vx) CGt (EInt n).
Definition prog2 : list stmt :=
  [SIf [(cgt 5, [SPrint [EStr (bs "big")]]); (cgt 3, [SAssign [vy] [EBinary (EVar vx) OpMul (EInt 2)]; SPrint [EVar vt; EVar vy]])] [SPrint [EStr (bs "small")]];
   SPrint [EStr (bs "end")]].
Example C01_conditional_sample :
  match go_fix prog2 b_init with
  | TOk _ s' => option_map snd (run 200 false [(bs "x", bs "4"); (bs "t", bs "a""b $(touch X)")] (b_code s')) = Some (bs "a""b $(touch X) 8" ++ [10] ++ bs "end" ++ [10])
                /\ option_map snd (run 200 false [(bs "x", bs "9"); (bs "t", bs "-")] (b_code s')) = Some (bs "big" ++ [10] ++ bs "end" ++ [10])
                /\ option_map snd (run 200 false [(bs "x", bs "1"); (bs "t", bs "-")] (b_code s')) = Some (bs "small" ++ [10] ++ bs "end" ++ [10])
  | _ => False
  end.
Proof. vm_compute. repeat split; reflexivity. Qed.

(* Non-vacuity of the loop theorem: s = 0; for i = 0; i < 10; i++ { if i == 2 { continue }; if i > 4 { break }; s = s + i; print(i, s) }; print("end", s) *)
Definition vi : var := mkVar (bs "i") (T DInt) true false.
Definition vs0 : var := mkVar (bs "s") (T DInt) true false.
Definition prog3 : list stmt :=
  [SVarDef [vs0] [EInt 0];
   SFor (Some (SVarDef [vi] [EInt 0])) (ECompare (EVar vi) CLt (EInt 10)) (Some (SAssign [vi] [EBinary (EVar vi) OpAdd (EInt 1)]))
     [SIf [(ECompare (EVar vi) CEq (EInt 2), [SContinue])] [];
      SIf [(ECompare (EVar vi) CGt (EInt 4), [SBreak])] [];
      SAssign [vs0] [EBinary (EVar vs0) OpAdd (EVar vi)];
      SPrint [EVar vi; EVar vs0]];
   SPrint [EStr (bs "end"); EVar vs0]].
Example C01_loop_sample :
  frag2_all prog3 = true /\
  match go_fix prog3 b_init with
  | TOk _ s' => option_map snd (lrun (fun _ _ _ _ => None) [] 2000 false [] [] (b_code s'))
                = Some (bs "0 0" ++ [10] ++ bs "1 1" ++ [10] ++ bs "3 4" ++ [10] ++ bs "4 8" ++ [10] ++ bs "end 8" ++ [10])
  | _ => False
  end.
Proof. vm_compute. split; reflexivity. Qed.

(* The hypotheses of the loop theorem are satisfiable and its conclusion is the expected run: a complete source derivation
   (J), context and name conditions for the program above, and the theorem applied to them (Facts/SimSamples.v). *)
Example C01_loop_hypotheses_hold :
  (exists sgF out, J SimSamples.no_calls SimSamples.XS3 (Prog SimSamples.prog3) SimSamples.sg_empty sgF out SN /\
                   out = bs "0 0" ++ [10] ++ bs "1 1" ++ [10] ++ bs "3 4" ++ [10] ++ bs "4 8" ++ [10] ++ bs "end 8" ++ [10]) /\
  ctx_ok SimSamples.XS3 SimSamples.sg_empty [] b_init /\ fresh_flags 0 0 SimSamples.XS3 b_init.
Proof. exact (conj SimSamples.loop_sample_derivation (conj SimSamples.ctx3 SimSamples.fresh3)). Qed.

(* The source semantics J of the theorems above is executable: whatever the interpreter jrun computes (its side conditions
   decided by boolean checks) has a J derivation - so J's hypotheses are satisfiable exactly where the interpreter answers.
   The interpreter is extracted and, on every generated program of the fragment, its output must equal the reference
   semantics Sem/Src.v, which in turn must equal the /bin/bash run of the implementation's script. *)
Theorem C01_source_semantics_executable : forall scall XS jc,
  (forall f vals sg rvals sg1 o, jc f vals sg = Some (rvals, sg1, o) -> env_ok sg -> scall XS f vals sg rvals sg1 o /\ env_ok sg1) ->
  forall fuel c sg sg' out g, jrun fuel XS jc c sg = Some (sg', out, g) -> env_ok sg -> J scall XS c sg sg' out g.
Proof. exact (fun scall XS jc Hjc fuel c sg sg' out g H He => jrun_sound scall XS jc Hjc fuel c sg (sg', out, g) H He). Qed.
Print Assumptions C01_source_semantics_executable.

(* WHOLE PROGRAMS.  Function definitions and top-level statements in any order; statements and function bodies from the
   fragment of the theorems above (assignments, simultaneous assignments, prints, conditionals, loops, break, continue,
   call statements with one or several results, return anywhere).  Every hypothesis is a computation: jprogram is the
   interpreter of the source semantics (sound for J, C01_source_semantics_executable / C02_calls_executable),
   program_static decides that no variable of the program is spelled like a name of the converter (C10) and that the
   items are in the fragment, emit_bash is the model of the transpiler with the Bash converter (its script bytes are
   compared with the implementation's on every run).  Conclusion: the emitted lines, run by the flat shell machine with the
   script's own functions as the call oracle, terminate and print what the source prints. *)
Theorem C01_program_preserved : forall fuel body out script st,
  jprogram fuel body = Some out -> program_static body = true -> emit_bash body = TOk script st ->
  exists b', lruns (call_of (b_code st) 40) [] [] [] (b_code st) (b', out).
Proof. exact program_preserved. Qed.
Print Assumptions C01_program_preserved.

(* the hypotheses hold, by computation, for the sample programs: loop with break and continue; function called twice;
   swap and two results; early return and a function without results; return inside a loop; len of strings *)
Example C01_program_samples :
  (jprogram 2000 SimSamples.prog3 <> None /\ program_static SimSamples.prog3 = true) /\
  (jprogram 2000 (SimSamples.add_def :: SimSamples.main_add) = Some (bs "in 42" ++ [10] ++ bs "42 1" ++ [10] ++ bs "in 84" ++ [10]) /\
   program_static (SimSamples.add_def :: SimSamples.main_add) = true) /\
  (jprogram 2000 (SimSamples.dm_def :: SimSamples.main_dm) = Some (bs "5 17 0 5" ++ [10]) /\ program_static (SimSamples.dm_def :: SimSamples.main_dm) = true) /\
  (jprogram 2000 (SimSamples.abs_def :: SimSamples.show_def :: SimSamples.main_abs) = Some (bs "v 8" ++ [10]) /\
   program_static (SimSamples.abs_def :: SimSamples.show_def :: SimSamples.main_abs) = true) /\
  (jprogram 2000 (SimSamples.find_def :: SimSamples.main_find) = Some (bs "4" ++ [10]) /\ program_static (SimSamples.find_def :: SimSamples.main_find) = true) /\
  (jprogram 2000 SimSamples.prog_len = Some (bs "6 12" ++ [10]) /\ program_static SimSamples.prog_len = true).
Proof. vm_compute. repeat split; try reflexivity. intro H; discriminate H. Qed.
