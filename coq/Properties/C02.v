(* C02  Bash target preserves function-call semantics and variable isolation.  PARTIAL.
   Proved for all programs: the name mangling that keeps frames apart is injective - two different functions
   never share a shell variable for their parameters and locals, a function gets a number no earlier function
   had; globals keep their own name wherever they are used; the call lines of the script are the calls of the
   program in evaluation order (C04 theorems).
   Proved for functions whose body is a program of Sem/LoopPreserve.v (assignments, prints, conditionals, loops, calls of
   earlier functions, simultaneous assignments, return anywhere - at the end, inside if / else-if / else branches, inside
   loops - or no return for a function without results), and for the call statements
   x = f(..), x := f(..), x, y = f(..), x, y := f(..), f(..) with call-free arguments: the simulation itself
   (C02_function_refines, C02_calls_refined, C02_calls_preserved) - arguments are bound to the parameters in order, the
   body sees the globals in place and its own frame, the caller's locals are unchanged whatever the names, all returned
   values reach the return registers and the variables of the call site in order, at any nesting depth of calls; a
   simultaneous assignment x, y = e1, e2 evaluates every right-hand side in the old environment (J rule j_assign_multi:
   the values are parked in _ma<i> before the first store).  NOT covered by a theorem: slices as arguments, calls as
   arguments or operands; these are decided on generated programs against Sem/Src.v, and the flat shell model
   with the script's functions as its call oracle is compared with /bin/bash on every such program it is defined on. *)
From Verif Require Import Base.Bytestr Front.Ast Back.BashLines Back.Transpile Back.BashConv Back.NameFacts Back.BashFacts
  Sem.Src Sem.BashSem Sem.ExprPreserve Sem.StmtPreserve Sem.IfPreserve Sem.FlatLoop Sem.LoopPreserve Sem.CallPreserve Sem.JRun.
From Coq Require Import ZArith.
Open Scope N_scope.

From Verif Require Import Facts.C02Facts Facts.SimSamples.

Theorem C02_frames_disjoint : forall k1 k2 n1 n2, mangled k1 n1 = mangled k2 n2 -> k1 = k2 /\ n1 = n2.
Proof. exact mangled_inj. Qed.
Print Assumptions C02_frames_disjoint.

Theorem C02_locals_are_mangled : forall s name, (0 < b_funcs s)%nat -> var_name s name false = mangled (b_func_counter s) name.
Proof. exact var_name_local. Qed.
Print Assumptions C02_locals_are_mangled.

Theorem C02_globals_in_place : forall s name, var_name s name true = name.
Proof. exact var_name_global. Qed.
Print Assumptions C02_globals_in_place.

Theorem C02_fresh_function_number : forall name ps rets s,
  b_func_counter (cv_func_start bstate atom bash_conv name ps rets s) = S (b_func_counter s).
Proof. exact func_start_counter. Qed.
Print Assumptions C02_fresh_function_number.

Theorem C02_call_lines_of_statement : forall st s s',
  t_stmt bash_conv st s = TOk tt s' -> emits st = true ->
  exists ls, b_code s' = b_code s ++ ls /\ call_lines ls = calls_stmt st.
Proof. exact C02_call_lines_of_statement_proof. Qed.
Print Assumptions C02_call_lines_of_statement.

(* One call of a function.  The callee: its body translated from sf (after its header) to sr, variables XSf, function
   number b_func_counter sf, loop flags from klo_f on; it may call functions with numbers below mlo_f through the oracle
   call, which refines scall.  The caller: any code at state s with variables XS whose globals are the callee's globals,
   whose environment sg is represented by the shell environment b, which protects the flags from klo_c on and the mangled
   names from function number mlo_c on.  If the source runs the body from the frame  bind params vals (globals_of sg)  to
   sgl printing o and ends it with  return e1, .., en  of values rvals - at the end of the body, inside if / else-if /
   else branches or inside loops - or, for a function without results, by reaching its end (ret_of), then the definition's lines - the local
   lines of the parameters, the body, the closing brace - run with the argument texts as positional parameters from b
   terminate printing o in an environment bF that represents  leave sg sgl  for the caller (globals as the function left
   them, the caller's own locals as they were), differs from b on nothing the caller protects, and holds the text of the
   i-th returned value in the i-th return register. *)
Theorem C02_function_refines : forall call, fuel_mono call -> forall klo_f mlo_f scall, call_refines call klo_f mlo_f scall ->
  forall klo_c mlo_c XSf sf sr params body u XS s b sg vals sgl o g rvals,
  (0 < b_funcs sf)%nat -> (b_func_counter sf < mlo_c)%nat -> (mlo_f <= mlo_c)%nat -> (b_for_counter sr <= klo_c)%nat ->
  (forall x, In x XSf -> var_fine sf x) -> hygienic sf XSf -> names_inj sf XSf -> fresh_flags klo_f mlo_f XSf sf ->
  (forall p, In p params -> v_global p = false /\ In p XSf) ->
  (forall x, v_global x = true -> (In x XS <-> In x XSf)) ->
  go_fix body sf = TOk u sr -> frag2_all body = true ->
  length vals = length params -> env_ok (bind params vals (globals_of sg)) ->
  J scall XSf (Prog body) (bind params vals (globals_of sg)) sgl o g -> ret_of g rvals ->
  ctx_ok XS sg b s -> fresh_flags klo_c mlo_c XS s ->
  exists X bF, cext sf sr X /\
    (forall rest, lruns call (map text vals) b [] (param_lines (b_func_counter sf) (map v_name params) 1 ++ X ++ [LClose] ++ rest) (bF, o)) /\
    ctx_ok XS (leave sg sgl) bF s /\ untouched klo_c mlo_c XS s s b bF /\
    (forall i v, nth_error rvals i = Some v -> sh_get (rv_name i) bF = text v).
Proof. exact func_refines. Qed.
Print Assumptions C02_function_refines.

(* All functions of a script, at every nesting depth of calls: the script's own functions (call_of: look the definition
   up, run its lines with the arguments as positional parameters, calls inside it one level down) refine the source
   semantics of calls (scall_at: bind, run the body, evaluate the returned expressions, give the caller its locals back). *)
Theorem C02_calls_refined : forall defs script, (forall F, In F defs -> fun_ok script F) ->
  forall d klo mlo, call_refines (call_of script d) klo mlo (scall_at defs d klo mlo).
Proof. exact calls_refined. Qed.
Print Assumptions C02_calls_refined.

(* Code that calls functions: what it prints - the output of the called functions in its place - and the final values of
   its variables are those of the source. *)
Theorem C02_calls_preserved : forall defs script d klo mlo pos, (forall F, In F defs -> fun_ok script F) ->
  forall XS sg body sg' out s u s' b,
  J (scall_at defs d klo mlo) XS (Prog body) sg sg' out SN -> go_fix body s = TOk u s' -> frag2_all body = true ->
  env_ok sg -> ctx_ok XS sg b s -> fresh_flags klo mlo XS s ->
  exists X b', b_code s' = b_code s ++ X /\ lruns (call_of script d) pos b [] X (b', out) /\ represents sg' b' s' XS.
Proof. exact calls_preserved. Qed.
Print Assumptions C02_calls_preserved.

(* A sample run: func add(a int, b int) int { c := a + b; print("in", c); return c }
   g := 1; y := add(g, 41); print(y, g); add(y, y) - the emitted lines, run by the flat shell model with the script's
   own functions as the call oracle. *)
Definition pa : var := mkVar (bs "a") (T DInt) false false.
Definition pb : var := mkVar (bs "b") (T DInt) false false.
Definition lc : var := mkVar (bs "c") (T DInt) false false.
Definition gg : var := mkVar (bs "g") (T DInt) true false.
Definition gy : var := mkVar (bs "y") (T DInt) true false.
Definition prog_add : list stmt :=
  [SFunc (bs "add") [T DInt] [pa; pb]
     [SVarDef [lc] [EBinary (EVar pa) OpAdd (EVar pb)]; SPrint [EStr (bs "in"); EVar lc]; SReturn [EVar lc]] false;
   SVarDef [gg] [EInt 1%Z];
   SVarDefCall [gy] (ECall (bs "add") [T DInt] [EVar gg; EInt 41%Z]);
   SPrint [EVar gy; EVar gg];
   SExpr (ECall (bs "add") [T DInt] [EVar gy; EVar gy])].
Example C02_call_sample :
  match go_fix prog_add b_init with
  | TOk _ s' => option_map snd (lrun (call_of (b_code s') 3) [] 2000 false [] [] (b_code s'))
                = Some (bs "in 42" ++ [10] ++ bs "42 1" ++ [10] ++ bs "in 84" ++ [10])
  | _ => False
  end.
Proof. vm_compute. reflexivity. Qed.

(* The hypotheses of C02_calls_preserved are satisfiable and its conclusion is the expected run: for the program above,
   fun_ok of its function, a complete source derivation with two calls, the caller's context, and the theorem applied. *)
Example C02_call_hypotheses_hold :
  fun_ok SimSamples.script_add SimSamples.F_add /\
  (exists sgF out, J (scall_at [SimSamples.F_add] 1 0 2) SimSamples.XS_main (Prog SimSamples.main_add) SimSamples.sg_empty sgF out SN /\
                   out = bs "in 42" ++ [10] ++ bs "42 1" ++ [10] ++ bs "in 84" ++ [10]) /\
  (exists X b', b_code SimSamples.s_end = b_code SimSamples.s_main ++ X /\
     lruns (call_of SimSamples.script_add 1) [] [] [] X (b', bs "in 42" ++ [10] ++ bs "42 1" ++ [10] ++ bs "in 84" ++ [10])).
Proof. exact (conj SimSamples.add_fun_ok (conj SimSamples.call_sample_derivation SimSamples.call_sample_applies)). Qed.

(* func divmod(a int, b int) (int, int) { return a / b, a % b }   x := 17; y := 5; x, y = y, x; q, r := divmod(x, y);
   print(x, y, q, r): the swap uses the old values, both results arrive in order - the hypotheses hold and the theorem gives
   the run. *)
Example C02_swap_and_two_results :
  fun_ok SimSamples.script_dm SimSamples.F_dm /\
  (exists sgF out, J (scall_at [SimSamples.F_dm] 1 0 2) SimSamples.XS_dm (Prog SimSamples.main_dm) SimSamples.sg_empty sgF out SN /\
                   out = bs "5 17 0 5" ++ [10]) /\
  (exists X b', b_code SimSamples.s_dm_end = b_code SimSamples.s_dm_main ++ X /\
     lruns (call_of SimSamples.script_dm 1) [] [] [] X (b', bs "5 17 0 5" ++ [10])).
Proof. exact (conj SimSamples.dm_fun_ok (conj SimSamples.swap_sample_derivation SimSamples.swap_sample_applies)). Qed.

(* func abs(a int) int { if a < 0 { return 0 - a }; return a }   func show(a int) { print("v", a) }
   x := abs(0 - 5); y := abs(3); show(x + y): a return inside a branch, a function without results, two definitions. *)
Example C02_early_return_and_no_result :
  fun_ok SimSamples.script_abs SimSamples.F_abs /\ fun_ok SimSamples.script_abs SimSamples.F_show /\
  (exists sgF out, J (scall_at [SimSamples.F_abs; SimSamples.F_show] 1 0 3) SimSamples.XS_abs (Prog SimSamples.main_abs) SimSamples.sg_empty sgF out SN /\
                   out = bs "v 8" ++ [10]) /\
  (exists X b', b_code SimSamples.s_abs_end = b_code SimSamples.s_abs_main ++ X /\
     lruns (call_of SimSamples.script_abs 1) [] [] [] X (b', bs "v 8" ++ [10])).
Proof. exact (conj SimSamples.abs_fun_ok (conj SimSamples.show_fun_ok (conj SimSamples.abs_sample_derivation SimSamples.abs_sample_applies))). Qed.

(* func find(n int) int { for i := 0; i < 10; i++ { if i * i >= n { return i } }; return 0 - 1 }   r := find(10); print(r):
   a return inside a loop ends the loop and the function. *)
Example C02_return_inside_loop :
  fun_ok SimSamples.script_find SimSamples.F_find /\
  (exists sgF out, J (scall_at [SimSamples.F_find] 1 1 2) SimSamples.XS_find (Prog SimSamples.main_find) SimSamples.sg_empty sgF out SN /\
                   out = bs "4" ++ [10]) /\
  (exists X b', b_code SimSamples.s_find_end = b_code SimSamples.s_find_main ++ X /\
     lruns (call_of SimSamples.script_find 1) [] [] [] X (b', bs "4" ++ [10])).
Proof. exact (conj SimSamples.find_fun_ok (conj SimSamples.find_sample_derivation SimSamples.find_sample_applies)). Qed.

(* The source semantics of calls is executable too: the interpreter's calls (look the definition up, check that it may be
   called here, bind, run the body with calls one level down, take the returned values) are source calls scall_at, so an
   answer of the interpreter for code with calls is a J derivation over scall_at - the hypothesis of C02_calls_preserved. *)
Theorem C02_calls_executable : forall defs fuel d klo mlo XS body sg sg' out,
  jrun fuel XS (jcall_at defs fuel d klo mlo XS) (Prog body) sg = Some (sg', out, SN) -> env_ok sg ->
  J (scall_at defs d klo mlo) XS (Prog body) sg sg' out SN.
Proof. exact jrun_program_sound. Qed.
Print Assumptions C02_calls_executable.

Example C02_sample : mangled 1 (bs "x") = bs "f1_x" /\ mangled 12 (bs "_h3") = bs "f12__h3".
Proof. vm_compute. split; reflexivity. Qed.
