(* C02  Bash target preserves function-call semantics and variable isolation.  PARTIAL.
   Proved for all programs: the name mangling that keeps frames apart is injective - two different functions
   never share a shell variable for their parameters and locals, a function gets a number no earlier function
   had; globals keep their own name wherever they are used; the call lines of the script are the calls of the
   program in evaluation order (C04 theorems).  The simulation of calls (argument binding, return registers,
   multi-value results; C02_full_statement) is decided by executing generated programs against Sem/Src.v. *)
From Verif Require Import Base.Bytestr Front.Ast Back.BashLines Back.Transpile Back.BashConv Back.NameFacts Back.BashFacts.
Open Scope N_scope.

From Verif Require Import Facts.C02Facts.

Theorem C02_frames_disjoint : forall k1 k2 n1 n2, mangled k1 n1 = mangled k2 n2 -> k1 = k2 /\ n1 = n2.
Proof. exact mangled_inj. Qed.
Print Assumptions C02_frames_disjoint.

Theorem C02_locals_are_mangled : forall s name, (0 < b_funcs s)%nat -> var_name s name false = mangled (b_func_counter s) name.
Proof. exact var_name_local. Qed.
Print Assumptions C02_locals_are_mangled.

Theorem C02_globals_in_place : forall s name, var_name s name true = name.
Proof. exact var_name_global. Qed.
Print Assumptions C02_globals_in_place.

Theorem C02_fresh_function_number : forall name ps rets s,
  b_func_counter (cv_func_start bstate atom bash_conv name ps rets s) = S (b_func_counter s).
Proof. exact func_start_counter. Qed.
Print Assumptions C02_fresh_function_number.

Theorem C02_call_lines_of_statement : forall st s s',
  t_stmt bash_conv st s = TOk tt s' -> emits st = true ->
  exists ls, b_code s' = b_code s ++ ls /\ call_lines ls = calls_stmt st.
Proof. exact C02_call_lines_of_statement_proof. Qed.
Print Assumptions C02_call_lines_of_statement.

Example C02_sample : mangled 1 (bs "x") = bs "f1_x" /\ mangled 12 (bs "_h3") = bs "f12__h3".
Proof. vm_compute. split; reflexivity. Qed.
