(* C17  write, read and exists behave as a line store over the file system.
   Proved for every history of operations, every path and every content that is not empty and does not end in
   a newline: the emitted lines (printf with > or >>, cat in a command substitution, the -e test) implement the
   line store of the reference semantics -- same values handed back, same files (C17_history); plus the
   individual clauses.  The excluded corner is a real failure (C17_trailing_newline_refuted, known finding).
   Paths and contents reach these lines through double-quoted words (C08 theorems); that the implementation's
   scripts behave like sh_step on real files is decided by the fsops stream (every run). *)
From Verif Require Import Base.Bytestr Sem.Src Sem.FsSem.
Open Scope N_scope.

Theorem C17_history : forall ops st f,
  R st f -> Inv st -> forallb op_good ops = true ->
  snd (run_spec st ops) = snd (run_sh f ops) /\ R (fst (run_spec st ops)) (fst (run_sh f ops)).
Proof. exact history_refines. Qed.
Print Assumptions C17_history.

Theorem C17_write_then_read : forall f p s, good s = true ->
  snd (sh_step (fst (sh_step f (OWrite p s false))) (ORead p)) = Some s
  /\ fget p (fst (sh_step f (OWrite p s false))) = Some (s ++ [10]).
Proof. exact write_then_read. Qed.
Print Assumptions C17_write_then_read.

Theorem C17_append : forall f p old s, good s = true -> good old = true -> fget p f = Some (old ++ [10]) ->
  snd (sh_step (fst (sh_step f (OWrite p s true))) (ORead p)) = Some (old ++ [10] ++ s).
Proof. exact append_then_read. Qed.
Print Assumptions C17_append.

Theorem C17_other_paths_untouched : forall f p s app p2, beq p2 p = false -> fget p2 (fst (sh_step f (OWrite p s app))) = fget p2 f.
Proof. exact write_touches_one_path. Qed.
Print Assumptions C17_other_paths_untouched.

Theorem C17_exists : forall f p, snd (sh_step f (OExists p)) = Some (bool_line (match fget p f with Some _ => true | None => false end)).
Proof. exact exists_iff. Qed.
Print Assumptions C17_exists.

Theorem C17_trailing_newline_refuted :
  exists s, snd (sh_step (fst (sh_step [] (OWrite (bs "p") s false))) (ORead (bs "p"))) <> Some s.
Proof. exact trailing_newline_lost. Qed.
Print Assumptions C17_trailing_newline_refuted.

(* non-vacuity: the empty store and the empty file system are related and satisfy the invariant *)
Example C17_initial : R [] [] /\ Inv [].
Proof. split; [intro p; reflexivity|intros p ls H; discriminate]. Qed.
