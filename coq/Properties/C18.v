(* C18  Command calls get exactly the given arguments.
   Proved: for every argument list whose members are computed values (variable references: ANY content) or
   literals that are either neutral text containing a blank or made of ordinary word characters, the called
   program receives as many words as arguments, each byte for byte (C18_argv_exact).  Outside that class the
   heuristic of AppCall (quote only what starts with a dollar or contains a blank) fails: an empty literal
   vanishes, metacharacters and glob characters are interpreted (C18_refuted; known findings by class).
   Pipes, capture and exit status are not modelled; they are decided against the probe programs on every run. *)
From Verif Require Import Base.Bytestr Back.BashLines Back.BashConv Sem.BashSem Sem.Words Sem.AppArgs.
Open Scope N_scope.

From Verif Require Import Facts.C18Facts.

Theorem C18_argv_exact : forall e args,
  forallb arg_fine args = true -> argv_words e (map app_arg args) = Some (map (atom_text e) args).
Proof. exact argv_exact. Qed.
Print Assumptions C18_argv_exact.

Theorem C18_refuted : forall e,
  arg_words e (app_arg (ALit [])) = Some []
  /\ arg_words e (app_arg (ALit (bs "a;b"))) = None /\ arg_words e (app_arg (ALit (bs "*"))) = None.
Proof. exact C18_refuted_proof. Qed.
Print Assumptions C18_refuted.

Example C18_sample :
  forallb arg_fine [ALit (bs "--exit=7"); ARef (bs "sv"); ALit (bs "two words"); ALit (bs "x1")] = true.
Proof. reflexivity. Qed.
