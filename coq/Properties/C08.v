(* C08  String values are opaque data on every path: never expanded or executed.
   What is proved (for every content of the variables, every environment, every length):
   - a value held in a variable arrives unchanged wherever a reference to it stands inside a double-quoted
     word -- this is how print, assignment, concatenation, comparison operands, call arguments, return
     values, slice stores, subscripts and file writes receive run-time values (C08_value_in_word);
   - text embedded in an eval string (slice literal, slice store helper, write) is handed to eval with its
     references intact, and eval expands them once: a value is never scanned again, hence never
     executed (C08_eval_once);
   - a string literal is emitted as it stands (C08_literal_spliced), so it is opaque exactly when it avoids
     dollar, backquote, double quote and backslash (C08_neutral_literal); for the other literals the property
     FAILS (C08_literal_refuted): this is how the pinned tree works (its own std/os.tsh relies on it), it is
     recorded as a known finding.
   The statement over whole programs (C08_full_statement: every path of every program) is not proved; the
   check runs the full (character x position x path x origin) sweep through the implementation and /bin/bash. *)
From Verif Require Import Base.Bytestr Front.Ast Back.BashLines Back.Transpile Back.BashConv Sem.BashSem Sem.Words.
Open Scope N_scope.

From Verif Require Import Facts.C08Facts.

Theorem C08_value_in_word : forall e l,
  forallb atom_ok l = true -> dq e (concat (map render_atom l)) = Some (concat (map (atom_text e) l)).
Proof. exact dq_word. Qed.
Print Assumptions C08_value_in_word.

Theorem C08_eval_once : forall e a r,
  atom_ok a = true ->
  dq_go e (bq ++ defer_exp (render_atom a) ++ bq ++ r) DPlain = option_map (app (q ++ render_atom a ++ q)) (dq_go e r DPlain)
  /\ dq e (render_atom a) = Some (atom_text e a).
Proof. exact C08_eval_once_proof. Qed.
Print Assumptions C08_eval_once.

Theorem C08_literal_spliced : forall t used s, t_expr bash_conv (EStr t) used s = TOk [ALit t] s.
Proof. exact C08_literal_spliced_proof. Qed.
Print Assumptions C08_literal_spliced.

Theorem C08_neutral_literal : forall e t, neutral t = true -> dq e t = Some t.
Proof. exact C08_neutral_literal_proof. Qed.
Print Assumptions C08_neutral_literal.

Theorem C08_literal_refuted :
  exists t, dq [] t <> Some t /\ (exists t2, dq [(bs "HOME", bs "/root")] t2 = Some (bs "/root") /\ t2 = bs "${HOME}").
Proof. exact literal_not_opaque. Qed.
Print Assumptions C08_literal_refuted.

(* non-vacuity *)
Example C08_sample :
  forallb atom_ok [ALit (bs "<"); ARef (bs "f1_v"); ALit (bs "> * -n")] = true
  /\ dq [(bs "f1_v", bs "q""d$HOME`x`\n*  -e $(touch X)")] (concat (map render_atom [ALit (bs "<"); ARef (bs "f1_v"); ALit (bs "> * -n")]))
     = Some (bs "<q""d$HOME`x`\n*  -e $(touch X)> * -n").
Proof. vm_compute. split; reflexivity. Qed.
