(* C14  Transpilation is a pure, repeatable function of source content and target.
   In the model the library is a function of the environment (file contents, their prefixes, the std
   directory), the path and the target; a transpiler object carries nothing from call to call.
   PARTIAL on the runtime side: Go's map iteration seeds and process state are observed by the check
   (fresh processes, relocated trees), not modelled. *)
From Verif Require Import Base.Bytestr gen.Tables Lex.LexModel Front.Squeeze Front.Ast Front.FrontModel Back.Pipeline.
Open Scope N_scope.

(* Any history of calls on one transpiler object yields, call by call, what a fresh object yields. *)
From Verif Require Import Facts.C14Facts.

Theorem C14_history : forall st cs,
  run_history st cs = map (fun c => transpile (c_env c) (c_path c) (c_target c)) cs.
Proof. exact C14_history_proof. Qed.
Print Assumptions C14_history.

(* In particular the two targets never influence each other and repetition changes nothing. *)
Theorem C14_interleaving : forall st c1 c2 cs,
  nth 0 (run_history st (c1 :: c2 :: c1 :: cs)) Failed = nth 2 (run_history st (c1 :: c2 :: c1 :: cs)) Failed.
Proof. exact C14_interleaving_proof. Qed.
Print Assumptions C14_interleaving.
