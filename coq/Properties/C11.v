(* C11  Tokenisation is faithful.  Statements only; proofs are in Lex/LexProofs.v, Lex/LexTotal.v,
   Lex/LexLayout.v.  [tokenize] is the model of lexer.Tokenize (Lex/LexModel.v), tied to the Go code by
   the correspondence check; [item], [render], [expected], [items_ok] are the specification (Lex/LexSpec.v). *)
From Verif Require Import Base.Bytestr gen.Tables Lex.LexModel Lex.LexSpec Lex.LexProofs Lex.LexTotal Lex.LexLayout.
Open Scope N_scope.

(* Every sequence of grammar tokens, rendered with any legal separators and comments between them,
   is split exactly along the grammar: types, Go-unquoted string values, and the row and column of
   each token's first character; an EOF token at the final position closes the list. *)
From Verif Require Import Facts.C11Facts.

Theorem C11_roundtrip : forall items,
  items_ok items [] = true -> replace_crlf (render items) = render items ->
  tokenize (render items) = LexOk (expected items (1, 1) ++ [eof_at (advance (render items) (1, 1))]).
Proof. exact tokenize_items. Qed.
Print Assumptions C11_roundtrip.

(* The value of a string token is the unquoted content of its literal, byte for byte. *)
Theorem C11_string_value : forall raw cs rest,
  item_wf (IStr raw cs) = true ->
  lex_step (item_text (IStr raw cs) ++ rest) = StepTok STRING_LITERAL (map schar_value cs) rest.
Proof. exact lex_step_str. Qed.
Print Assumptions C11_string_value.

(* CRLF line ends are the same as LF line ends. *)
Theorem C11_crlf : forall s, no_cr s = true -> tokenize (to_crlf s) = tokenize s.
Proof. exact crlf_irrelevant. Qed.
Print Assumptions C11_crlf.

(* An unterminated string is an error, wherever it stands. *)
Theorem C11_unterminated : forall items raw cs,
  let tail := quote raw :: concat (map schar_text cs) in
  items_ok items tail = true -> forallb (schar_wf raw) cs = true ->
  replace_crlf (render items ++ tail) = render items ++ tail ->
  tokenize (render items ++ tail) = LexErr.
Proof. exact C11_unterminated_proof. Qed.
Print Assumptions C11_unterminated.

(* A character with which no token starts is an error. *)
Theorem C11_unknown_character : forall items c r,
  unknown_byte c = true -> items_ok items (c :: r) = true ->
  replace_crlf (render items ++ c :: r) = render items ++ c :: r ->
  tokenize (render items ++ c :: r) = LexErr.
Proof. exact C11_unknown_character_proof. Qed.
Print Assumptions C11_unknown_character.

(* The lexer terminates on every input (the model's fuel is never exhausted). *)
Theorem C11_total : forall src, tokenize src <> LexFuel.
Proof. exact tokenize_total. Qed.
Print Assumptions C11_total.

(* Non-vacuity: a non-trivial item list meeting the hypotheses (trueish and nilx are identifiers,
   a block comment containing a star, an escaped string spanning two lines, a negative number,
   a line comment, operators written without blanks). *)
Definition sample_items : list item :=
  [ IWord (bs "trueish"); IPunct (bs ":=") SHORT_INIT_OPERATOR; IWord (bs "nilx"); IPunct (bs "+") BINARY_OPERATOR;
    IWord (bs "true"); IPunct [32] SPACE; IBlock (bs "a*b"); IPunct [32] SPACE;
    IStr false [SRaw 97; SEsc 110; SRaw 10; SEsc 34; SRaw 195; SRaw 169]; IPunct (bs "==") COMPARE_OPERATOR;
    INum true (bs "12") (Some (bs "5")); IPunct [32] SPACE; ILine (bs " c /* x"); IPunct [10] NEWLINE;
    IStr true [SRaw 92; SRaw 34]; IPunct (bs "<=") COMPARE_OPERATOR; IPunct (bs "<") COMPARE_OPERATOR; IWord (bs "for") ].

Example C11_sample_ok :
  items_ok sample_items [] = true /\ replace_crlf (render sample_items) = render sample_items.
Proof. vm_compute. split; reflexivity. Qed.

Example C11_sample_tokens :
  map (fun t => (toktype_index (ty t), row t, col t)) (expected sample_items (1, 1))
  = [ (28,1,1); (14,1,8); (28,1,10); (11,1,14); (17,1,15); (19,1,28); (12,2,6); (18,2,8); (27,2,23);
      (19,3,1); (12,3,5); (12,3,7); (38,3,8) ].
Proof. vm_compute. reflexivity. Qed.

Example C11_unknown_sample : unknown_byte 35 = true /\ unknown_byte 36 = true /\ unknown_byte 128 = true.
Proof. vm_compute. repeat split; reflexivity. Qed.
