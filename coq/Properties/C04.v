(* C04  Operands are evaluated exactly once, in source order, conditions eagerly.
   Syntactic half, for ALL programs: the function-call lines of the emitted Bash script are exactly the
   calls of the program, each once, in the order the property prescribes:
     - operands, arguments, indices, slice elements, printed and returned values left to right,
       the arguments of a call before the call;
     - both operands of && and || unconditionally;
     - all conditions of an if / else-if chain before the first branch body;
     - for a loop: initialisation, then (inside the loop) increment, condition, body.
   The semantic half (the trace of side effects) is decided by executing generated programs with
   effectful functions at every operand position against the reference semantics. *)
From Verif Require Import Base.Bytestr Front.Ast Back.BashLines Back.Transpile Back.BashConv Back.BashSyntax Back.BashFacts.
Open Scope N_scope.

From Verif Require Import Facts.C04Facts.

Theorem C04_calls_in_order_expression : forall e used s vs s',
  t_expr bash_conv e used s = TOk vs s' ->
  exists ls, b_code s' = b_code s ++ ls /\ call_lines ls = calls_expr e.
Proof. exact C04_calls_in_order_expression_proof. Qed.
Print Assumptions C04_calls_in_order_expression.

Theorem C04_calls_in_order_statement : forall st s s',
  t_stmt bash_conv st s = TOk tt s' -> emits st = true ->
  exists ls, b_code s' = b_code s ++ ls /\ call_lines ls = calls_stmt st.
Proof. exact C04_calls_in_order_statement_proof. Qed.
Print Assumptions C04_calls_in_order_statement.

Theorem C04_calls_in_order_program : forall body script st,
  emit_bash body = TOk script st -> emits_all body = true -> call_lines (b_code st) = calls_block body.
Proof. exact C04_calls_in_order_program_proof. Qed.
Print Assumptions C04_calls_in_order_program.

(* what the order is, on an example: if f() && g() { h(k()) } else if m() { } -- f g m before the branch, k before h *)
Definition call0 (n : bytes) : expr := ECall n [T DBool] [].
Example C04_order_example :
  calls_stmt (SIf [ (ELogical (call0 (bs "f")) LAnd (call0 (bs "g")), [SExpr (ECall (bs "h") [] [call0 (bs "k")])]); (call0 (bs "m"), []) ] [])
  = [bs "f"; bs "g"; bs "m"; bs "k"; bs "h"].
Proof. reflexivity. Qed.
