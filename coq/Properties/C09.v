(* C09  Multi-file programs link correctly; unused-function removal is safe.  (First part: the removal.) *)
From Verif Require Import Base.Bytestr gen.Tables Front.Ast Front.FrontModel Front.FrontFacts.
Open Scope N_scope.

(* getUsedFuncs(""): the kept set contains every function reachable in the recorded call graph from
   top-level code. *)
Theorem C09_used_contains_reachable : forall u keep, used_funcs u = Some keep -> forall f, reachable u f -> In f keep.
Proof. exact used_funcs_complete. Qed.
Print Assumptions C09_used_contains_reachable.

(* cleanProgram never removes the definition of a reachable function ... *)
Theorem C09_clean_keeps_reachable : forall u body body' name rets params fb pub,
  clean_program u body = Some body' ->
  In (SFunc name rets params fb pub) body -> reachable u name -> In (SFunc name rets params fb pub) body'.
Proof. exact clean_keeps_reachable. Qed.
Print Assumptions C09_clean_keeps_reachable.

(* ... nor any other statement. *)
Theorem C09_clean_keeps_statements : forall u body body' s,
  clean_program u body = Some body' -> In s body ->
  (match s with SFunc _ _ _ _ _ => False | _ => True end) -> In s body'.
Proof. exact clean_keeps_statements. Qed.
Print Assumptions C09_clean_keeps_statements.

(* merging the call graph of an imported file loses no edge (the defect fixed in /repo: the merge
   iterated the wrong list) *)
Theorem C09_merge_keeps_edges : forall mine theirs k l x,
  aget k theirs = Some l -> In x l -> NoDup (map fst theirs) ->
  exists l', aget k (merge_used mine theirs) = Some l' /\ In x l'.
Proof. exact merge_used_keeps. Qed.
Print Assumptions C09_merge_keeps_edges.
