(* Extraction of the executable models for the correspondence driver.
   ExtrOcamlBasic only: bool, option, unit, list, prod, sumbool, sumor map to OCaml's own
   types; N, Z, positive, nat stay the extracted Coq datatypes.  No Extract Constant. *)
From Coq Require Extraction ExtrOcamlBasic.
From Verif Require Import Base.Bytestr gen.Tables Lex.LexModel Cli.Tsh Front.Ast Front.FrontModel Back.BashLines Back.Transpile Back.BashConv Back.BatchConv Back.Pipeline Back.BashSyntax Back.BashFacts Back.BatchSyntax Sem.Src Sem.Words Sem.FsSem Sem.AppArgs.
Extraction Language OCaml.
Separate Extraction
  Lex.LexModel.tokenize Tables.toktype_index Cli.Tsh.tsh Front.FrontModel.parse_main Base.Bytestr.dec_Z Back.BashConv.emit_bash Back.BatchConv.emit_batch Sem.Src.run Back.Pipeline.run_history Back.BashSyntax.well_formed Back.BashFacts.emits_all Back.BatchSyntax.batch_wf Back.BatchSyntax.batch_lines Sem.Words.dq Sem.FsSem.run_sh Sem.AppArgs.first_probe.
