(* What the Bash traversal appends: every expression appends a run of simple commands, every
   statement a well-nested block; call lines appear in evaluation order. *)
From Verif Require Import Base.Bytestr Front.Ast Front.AstInd Back.BashLines Back.Transpile Back.BashConv Back.BashSyntax.
From Coq Require Import ZArith Lia.
Open Scope N_scope.

(* the function-call lines of a piece of script, in order *)
Fixpoint call_lines (ls : list line) : list bytes :=
  match ls with
  | [] => []
  | LCall n _ :: r => n :: call_lines r
  | _ :: r => call_lines r
  end.

Lemma call_lines_app a b : call_lines (a ++ b) = call_lines a ++ call_lines b.
Proof. induction a as [|l a IH]; [reflexivity|]. destruct l; simpl; rewrite ?IH; reflexivity. Qed.

(* s' extends s by the lines ls and differs otherwise only in counters and helper flags *)
Record ext (s s' : bstate) (ls : list line) : Prop := mkExt {
  x_code : b_code s' = b_code s ++ ls;
  x_start : b_start s' = b_start s;
  x_funcs : b_funcs s' = b_funcs s;
  x_fors : b_fors s' = b_fors s;
  x_fcnt : b_func_counter s' = b_func_counter s
}.

Lemma ext_refl s : ext s s [].
Proof. constructor; try reflexivity. rewrite app_nil_r. reflexivity. Qed.

Lemma ext_trans s1 s2 s3 a b : ext s1 s2 a -> ext s2 s3 b -> ext s1 s3 (a ++ b).
Proof.
  intros [c1 t1 f1 o1 n1] [c2 t2 f2 o2 n2]. constructor; try congruence.
  rewrite c2, c1, app_assoc. reflexivity.
Qed.

Lemma ext_add_line l s : ext s (add_line l s) [l].
Proof. constructor; reflexivity. Qed.

Lemma ext_set_flags a b c s : ext s (set_flags a b c s) [].
Proof. constructor; try reflexivity. simpl. rewrite app_nil_r. reflexivity. Qed.

Lemma ext_next_helper s : ext s (snd (next_helper s)) [].
Proof. constructor; try reflexivity. simpl. rewrite app_nil_r. reflexivity. Qed.

Lemma ext_helper_assign mk s :
  exists n, fst (helper_assign mk s) = ARef n /\ ext s (snd (helper_assign mk s)) [LAssign n mk].
Proof.
  unfold helper_assign. destruct (next_helper s) as [h s1] eqn:E.
  exists (var_name s1 h false). split; [reflexivity|].
  change [LAssign (var_name s1 h false) mk] with ([] ++ [LAssign (var_name s1 h false) mk]).
  eapply ext_trans; [|apply ext_add_line].
  pose proof (ext_next_helper s) as H. rewrite E in H. exact H.
Qed.

(* lines that are simple commands and no function call *)
Definition plain (l : line) : bool := is_simple l && match l with LCall _ _ => false | _ => true end.

Definition plains (ls : list line) : Prop := forallb plain ls = true.

Lemma plains_simple ls : plains ls -> forallb is_simple ls = true.
Proof.
  unfold plains. induction ls as [|l ls IH]; [reflexivity|]. simpl. intro H.
  apply andb_true_iff in H as [H1 H2]. unfold plain in H1. apply andb_true_iff in H1 as [H1 _]. rewrite H1, IH by exact H2. reflexivity.
Qed.

Lemma plains_calls ls : plains ls -> call_lines ls = [].
Proof.
  unfold plains. induction ls as [|l ls IH]; [reflexivity|]. simpl. intro H.
  apply andb_true_iff in H as [H1 H2]. destruct l; try (apply IH; exact H2). unfold plain in H1. simpl in H1. discriminate.
Qed.

Lemma plains_app a b : plains a -> plains b -> plains (a ++ b).
Proof. unfold plains. intros. rewrite forallb_app. apply andb_true_iff. tauto. Qed.

(* ---------- expressions ---------- *)

(* the function calls of an expression in evaluation order: arguments first, left to right *)
Fixpoint calls_expr (e : expr) : list bytes :=
  let many := fix many (es : list expr) : list bytes :=
    match es with [] => [] | x :: r => calls_expr x ++ many r end in
  match e with
  | EBool _ | EInt _ | EStr _ | EVar _ => []
  | EUnary x | EGroup x | ELen x | EItoa x | EExists x | ERead x => calls_expr x
  | EBinary l _ r | ECompare l _ r | ELogical l _ r => calls_expr l ++ calls_expr r
  | ECall n _ args => many args ++ [n]
  | EApp calls => (fix cs (l : list (bytes * list expr)) : list bytes :=
                     match l with [] => [] | c :: r => many (snd c) ++ cs r end) calls
  | ESliceInst _ vals => many vals
  | ESliceEval v i _ => calls_expr v ++ calls_expr i
  | ESubscript v a b => calls_expr a ++ (match b with Some x => calls_expr x | None => [] end) ++ calls_expr v
  | EInput p => match p with Some x => calls_expr x | None => [] end
  | ECopy _ s => calls_expr s
  end.

Fixpoint calls_many (es : list expr) : list bytes :=
  match es with [] => [] | x :: r => calls_expr x ++ calls_many r end.

(* what an expression's translation appends: simple commands only, calls in evaluation order *)
Definition expr_ok (e : expr) : Prop :=
  forall used s vs s', t_expr bash_conv e used s = TOk vs s' ->
  exists ls, ext s s' ls /\ forallb is_simple ls = true /\ call_lines ls = calls_expr e.

Ltac inv H := inversion H; subst; clear H.

(* stepping through the monad *)
Lemma mbind_ok {A B} (m : M (St:=bstate) A) (f : A -> M (St:=bstate) B) s b s' :
  mbind m f s = TOk b s' -> exists a s1, m s = TOk a s1 /\ f a s1 = TOk b s'.
Proof. unfold mbind. destruct (m s) as [a s1| |]; [eauto|discriminate|discriminate]. Qed.

Lemma lift_ok {A} (f : bstate -> A * bstate) s a s' : lift f s = TOk a s' -> f s = (a, s').
Proof. unfold lift. destruct (f s). intro H. inv H. reflexivity. Qed.

Lemma upd_ok (f : bstate -> bstate) s u s' : upd f s = TOk u s' -> s' = f s.
Proof. unfold upd. intro H. inv H. reflexivity. Qed.

(* a helper assignment as a monadic step *)
Lemma helper_step mk s v s' :
  helper_assign mk s = (v, s') -> exists n, v = ARef n /\ ext s s' [LAssign n mk].
Proof.
  intro H. destruct (ext_helper_assign mk s) as (n & H1 & H2). rewrite H in *. simpl in *. eauto.
Qed.

Lemma simple_assign n mk : forallb is_simple [LAssign n mk] = true. Proof. reflexivity. Qed.

Tactic Notation "mb" hyp(H) "as" ident(a) ident(s1) ident(H1) ident(H2) :=
  apply mbind_ok in H as (a & s1 & H1 & H2).
Ltac mr H := inv H.
Ltac ml H := apply lift_ok in H.
Ltac mu H := apply upd_ok in H.

(* an expression result followed by one helper assignment *)
Lemma after_helper ls0 s s1 mk v s2 :
  ext s s1 ls0 -> forallb is_simple ls0 = true ->
  helper_assign mk s1 = (v, s2) ->
  exists ls, ext s s2 ls /\ forallb is_simple ls = true /\ call_lines ls = call_lines ls0.
Proof.
  intros E1 S1 Hh. destruct (helper_step _ _ _ _ Hh) as (n & _ & E2).
  exists (ls0 ++ [LAssign n mk]). split; [eapply ext_trans; eassumption|]. split.
  - rewrite forallb_app, S1. reflexivity.
  - rewrite call_lines_app. simpl. apply app_nil_r.
Qed.

Definition simple_run (s s' : bstate) (calls : list bytes) : Prop :=
  exists ls, ext s s' ls /\ forallb is_simple ls = true /\ call_lines ls = calls.

Lemma run_refl s : simple_run s s [].
Proof. exists []. split; [apply ext_refl|split; reflexivity]. Qed.

Lemma run_trans s1 s2 s3 c1 c2 : simple_run s1 s2 c1 -> simple_run s2 s3 c2 -> simple_run s1 s3 (c1 ++ c2).
Proof.
  intros (l1 & E1 & S1 & C1) (l2 & E2 & S2 & C2). exists (l1 ++ l2).
  split; [eapply ext_trans; eassumption|]. split; [rewrite forallb_app, S1, S2; reflexivity|].
  rewrite call_lines_app, C1, C2. reflexivity.
Qed.

Lemma run_helper s s1 c mk v s2 : simple_run s s1 c -> helper_assign mk s1 = (v, s2) -> simple_run s s2 c.
Proof.
  intros (l1 & E1 & S1 & C1) Hh. destruct (after_helper _ _ _ _ _ _ E1 S1 Hh) as (ls & A & B & C).
  exists ls. rewrite C, C1. auto.
Qed.

Lemma run_line s l : is_simple l = true -> simple_run s (add_line l s) (call_lines [l]).
Proof. intro H. exists [l]. split; [apply ext_add_line|]. split; [simpl; rewrite H; reflexivity|reflexivity]. Qed.

Lemma run_ext0 s s' : ext s s' [] -> simple_run s s' [].
Proof. intro E. exists []. split; [exact E|split; reflexivity]. Qed.

Lemma run_add_plain s0 s c l : simple_run s0 s c -> plain l = true -> simple_run s0 (add_line l s) c.
Proof.
  intros R Hp. rewrite <- (app_nil_r c). eapply run_trans; [exact R|].
  unfold plain in Hp. apply andb_true_iff in Hp as [Hs Hc].
  exists [l]. split; [apply ext_add_line|]. split; [simpl; rewrite Hs; reflexivity|]. destruct l; try reflexivity; discriminate.
Qed.

Lemma run_flags s0 s c a b d : simple_run s0 s c -> simple_run s0 (set_flags a b d s) c.
Proof. intro R. rewrite <- (app_nil_r c). eapply run_trans; [exact R|apply run_ext0; apply ext_set_flags]. Qed.

Lemma run_next s0 s c h sa : next_helper s = (h, sa) -> simple_run s0 s c -> simple_run s0 sa c.
Proof.
  intros En R. rewrite <- (app_nil_r c). eapply run_trans; [exact R|].
  apply run_ext0. pose proof (ext_next_helper s) as X. rewrite En in X. exact X.
Qed.

Definition expr_ok' (e : expr) : Prop :=
  forall used s vs s', t_expr bash_conv e used s = TOk vs s' -> simple_run s s' (calls_expr e).

Lemma args_ok (args : list expr) :
  Forall expr_ok' args ->
  forall s vs s',
  (fix args_of (es : list expr) : M (list atom) :=
     match es with
     | [] => mret []
     | a :: r => mbind (t_expr bash_conv a true) (fun va => mbind (args_of r) (fun vr => mret (first_value bash_conv va :: vr)))
     end) args s = TOk vs s' ->
  simple_run s s' (calls_many args).
Proof.
  induction 1 as [|a r Ha Hr IH]; intros s vs s' H.
  - mr H. apply run_refl.
  - mb H as va s1 H1 H2. mb H2 as vr s2 H2 H3. mr H3.
    cbn [calls_many]. eapply run_trans; [apply (Ha _ _ _ _ H1)|apply (IH _ _ _ H2)].
Qed.

Lemma calls_many_eq args :
  (fix many (es : list expr) : list bytes := match es with [] => [] | x :: r => calls_expr x ++ many r end) args = calls_many args.
Proof. induction args as [|a r IH]; [reflexivity|]. simpl. rewrite IH. reflexivity. Qed.

(* the helpers copying return values after a call *)
Lemma rv_fold rets : forall (acc : list atom * bstate * nat) vals s2 k,
  fold_left (fun (acc : list atom * bstate * nat) (_ : vtype) =>
               let '(vs, st, i) := acc in
               let '(h, st') := helper_assign (RAtom (ARef (rv_name i))) st in (vs ++ [h], st', S i)) rets acc = (vals, s2, k) ->
  simple_run (snd (fst acc)) s2 [].
Proof.
  induction rets as [|r0 rets IH]; intros acc vals s2 k Hf.
  - simpl in Hf. subst acc. apply run_refl.
  - cbn [fold_left] in Hf. destruct acc as [[vs0 st0] i0].
    destruct (helper_assign (RAtom (ARef (rv_name i0))) st0) as [h st1] eqn:Eh.
    specialize (IH _ _ _ _ Hf). cbn [fst snd] in *.
    change (@nil bytes) with (@nil bytes ++ []). eapply run_trans; [|exact IH].
    eapply run_helper; [apply run_refl|exact Eh].
Qed.

Theorem t_expr_ok : forall e, expr_ok' e.
Proof.
  apply expr_ind';
    [ intros b | intros z | intros str0 | intros e IHe | intros e1 op e2 IHe1 IHe2 | intros e1 op e2 IHe1 IHe2
    | intros e1 op e2 IHe1 IHe2 | intros v0 | intros e IHe | intros n rets args Hargs | intros calls Hcalls
    | intros d0 vals Hvals | intros e1 e2 d0 IHe1 IHe2 | intros e1 e2 eo IHe1 IHe2 IHeo | intros e IHe
    | intros p IHp | intros d0 e IHe | intros e IHe | intros e IHe | intros e IHe ];
    intros used s vs s' Ht; cbn [t_expr] in Ht.
  - mr Ht. apply run_refl.
  - mr Ht. apply run_refl.
  - mb Ht as v s1 H1 H2. mr H2. ml H1. unfold bash_conv in H1. cbn [cv_string] in H1. inv H1. apply run_refl.
  - (* unary *) mb Ht as vx s1 H1 H2. mb H2 as v s2 H2 H3. mr H3. ml H2. unfold bash_conv in H2. cbn [cv_unary] in H2.
    cbn [calls_expr]. eapply run_helper; [apply (IHe _ _ _ _ H1)|exact H2].
  - (* binary *) mb Ht as vl s1 H1 H2. mb H2 as vr s2 H2 H3. mb H3 as v s3 H3 H4. mr H4.
    unfold bash_conv in H3. cbn [cv_binary] in H3. cbn [calls_expr].
    assert (simple_run s s2 (calls_expr e1 ++ calls_expr e2)) as R by (eapply run_trans; [apply (IHe1 _ _ _ _ H1)|apply (IHe2 _ _ _ _ H2)]).
    destruct (is_slice (type_of e1)); [discriminate|]. destruct (dt (type_of e1)); try discriminate.
    + destruct (helper_assign (RArith _ op _) s2) eqn:Eh. inv H3. eapply run_helper; eassumption.
    + destruct op; try discriminate. destruct (helper_assign (RConcat _ _) s2) eqn:Eh. inv H3. eapply run_helper; eassumption.
  - (* compare *) mb Ht as vl s1 H1 H2. mb H2 as vr s2 H2 H3. mb H3 as v s3 H3 H4. mr H4.
    unfold bash_conv in H3. cbn [cv_comparison] in H3. cbn [calls_expr].
    assert (simple_run s s2 (calls_expr e1 ++ calls_expr e2)) as R by (eapply run_trans; [apply (IHe1 _ _ _ _ H1)|apply (IHe2 _ _ _ _ H2)]).
    destruct (cmp_text (type_of e1) op); [|discriminate].
    destruct (helper_assign (RCompare _ _ _) s2) eqn:Eh. inv H3. eapply run_helper; eassumption.
  - (* logical *) mb Ht as vl s1 H1 H2. mb H2 as vr s2 H2 H3. mb H3 as v s3 H3 H4. mr H4. ml H3.
    unfold bash_conv in H3. cbn [cv_logical] in H3. cbn [calls_expr].
    eapply run_helper; [eapply run_trans; [apply (IHe1 _ _ _ _ H1)|apply (IHe2 _ _ _ _ H2)]|exact H3].
  - (* var *) inv Ht. apply run_refl.
  - (* group *) apply (IHe _ _ _ _ Ht).
  - (* call *) mb Ht as va s1 H1 H2. mb H2 as res s2 H2 H3. ml H2.
    assert (s' = s2) as -> by (destruct (used && negb (Nat.eqb (length res) (length rets))); [discriminate|inv H3; reflexivity]).
    cbn [calls_expr]. rewrite calls_many_eq.
    eapply run_trans; [apply (args_ok args Hargs _ _ _ H1)|].
    unfold bash_conv in H2. cbn [cv_func_call] in H2.
    destruct used.
    + destruct (fold_left _ rets ([], add_line (LCall n va) s1, 0%nat)) as [[vals s3] k] eqn:Ef. inv H2.
      change [n] with ([n] ++ []). eapply run_trans; [apply (run_line s1 (LCall n va)); reflexivity|].
      apply (rv_fold _ _ _ _ _ Ef).
    + inv H2. apply (run_line s1 (LCall n va)). reflexivity.
  - (* app *)
    mb Ht as cs s1 H1 H2. ml H2.
    assert (simple_run s s1 (calls_expr (EApp calls))) as R.
    { clear H2. revert s cs s1 H1. induction Hcalls as [|c r Hc Hr IH]; intros s cs s1 H1.
      - mr H1. apply run_refl.
      - destruct c as [nm cargs]. mb H1 as va s2 H1 H2. mb H2 as cr s3 H2 H3. mr H3.
        cbn [calls_expr snd]. rewrite calls_many_eq.
        eapply run_trans; [apply (args_ok cargs Hc _ _ _ H1)|].
        specialize (IH _ _ _ H2). cbn [calls_expr] in IH. exact IH. }
    unfold bash_conv in H2. cbn [cv_app_call] in H2.
    destruct used.
    + destruct (next_helper s1) as [h1 sa] eqn:E1. destruct (next_helper sa) as [h2 sb] eqn:E2. inv H2.
      apply run_add_plain; [|reflexivity]. apply run_add_plain; [|reflexivity].
      eapply run_next; [exact E2|]. eapply run_next; [exact E1|exact R].
    + inv H2. apply run_add_plain; [exact R|reflexivity].
  - (* slice instantiation *)
    mb Ht as va s1 H1 H2. mb H2 as v s2 H2 H3. mr H3. ml H2.
    cbn [calls_expr]. rewrite calls_many_eq.
    unfold bash_conv in H2. cbn [cv_slice_instantiation] in H2.
    destruct (helper_assign RNewSlice (add_line LDvcIncr s1)) as [h sa] eqn:Eh.
    assert (simple_run s sa (calls_many vals)) as R1.
    { eapply run_helper; [|exact Eh]. apply run_add_plain; [apply (args_ok vals Hvals _ _ _ H1)|reflexivity]. }
    destruct va; inv H2; [exact R1|]. apply run_add_plain; [exact R1|reflexivity].
  - (* slice evaluation *)
    mb Ht as vv s1 H1 H2. mb H2 as vi s2 H2 H3. mb H3 as v s3 H3 H4. mr H4. ml H3.
    unfold bash_conv in H3. cbn [cv_slice_evaluation] in H3. cbn [calls_expr].
    eapply run_helper; [eapply run_trans; [apply (IHe1 _ _ _ _ H1)|apply (IHe2 _ _ _ _ H2)]|exact H3].
  - (* subscript *)
    mb Ht as va s1 H1 H2. mb H2 as vb s2 H2 H3. mb H3 as vv s3 H3 H4. mb H4 as v s4 H4 H5. mr H5. ml H4.
    unfold bash_conv in H4. cbn [cv_string_subscript] in H4. cbn [calls_expr].
    assert (simple_run s1 s2 (match eo with Some x => calls_expr x | None => [] end)) as Rb.
    { destruct eo as [x|]; [apply (IHeo _ _ _ _ H2)|]. mr H2. apply run_refl. }
    assert (simple_run s s3 (calls_expr e2 ++ match eo with Some x => calls_expr x | None => [] end ++ calls_expr e1)) as R.
    { eapply run_trans; [apply (IHe2 _ _ _ _ H1)|]. eapply run_trans; [exact Rb|apply (IHe1 _ _ _ _ H3)]. }
    destruct (next_helper s3) as [h sa] eqn:En. inv H4.
    apply run_flags. apply run_add_plain; [|reflexivity]. apply run_add_plain; [|reflexivity].
    eapply run_next; [exact En|exact R].
  - (* len *)
    mb Ht as vx s1 H1 H2. cbn [calls_expr].
    destruct (is_string (type_of e)).
    + mb H2 as v s2 H2 H3. mr H3. ml H2. unfold bash_conv in H2. cbn [cv_string_len] in H2.
      destruct (next_helper s1) as [h sa] eqn:En. inv H2.
      apply run_add_plain; [|reflexivity]. apply run_add_plain; [|reflexivity].
      eapply run_next; [exact En|apply (IHe _ _ _ _ H1)].
    + mb H2 as v s2 H2 H3. mr H3. ml H2. unfold bash_conv in H2. cbn [cv_slice_len] in H2.
      eapply run_helper; [apply (IHe _ _ _ _ H1)|exact H2].
  - (* input *)
    cbn [calls_expr]. destruct p as [x|].
    + mb Ht as vp s1 H1 H2. mb H2 as v s2 H2 H3. mr H3. ml H2. unfold bash_conv in H2. cbn [cv_input] in H2.
      destruct (next_helper s1) as [h sa] eqn:En. inv H2.
      apply run_add_plain; [|reflexivity]. eapply run_next; [exact En|apply (IHp _ _ _ _ H1)].
    + mb Ht as v s2 H2 H3. mr H3. ml H2. unfold bash_conv in H2. cbn [cv_input] in H2.
      destruct (next_helper s) as [h sa] eqn:En. inv H2.
      apply run_add_plain; [|reflexivity]. eapply run_next; [exact En|apply run_refl].
  - (* copy *)
    mb Ht as vs0 s1 H1 H2. mb H2 as v s2 H2 H3. mr H3. ml H2. unfold bash_conv in H2. cbn [cv_copy] in H2. cbn [calls_expr].
    eapply run_helper; [|exact H2]. apply run_flags. apply run_add_plain; [apply (IHe _ _ _ _ H1)|reflexivity].
  - (* itoa *) mb Ht as vx s1 H1 H2. mr H2. apply (IHe _ _ _ _ H1).
  - (* exists *)
    mb Ht as vp s1 H1 H2. mb H2 as v s2 H2 H3. mr H3. ml H2. unfold bash_conv in H2. cbn [cv_exists] in H2.
    eapply run_helper; [apply (IHe _ _ _ _ H1)|exact H2].
  - (* read *)
    destruct (is_string (type_of e)); [|discriminate].
    mb Ht as vp s1 H1 H2. mb H2 as v s2 H2 H3. mr H3. ml H2. unfold bash_conv in H2. cbn [cv_read_file] in H2.
    eapply run_helper; [apply (IHe _ _ _ _ H1)|exact H2].
Qed.

(* ---------- statements ---------- *)

Record sext (s s' : bstate) (ls : list line) : Prop := mkSext {
  sx_code : b_code s' = b_code s ++ ls;
  sx_start : b_start s' = b_start s;
  sx_funcs : b_funcs s' = b_funcs s;
  sx_fors : b_fors s' = b_fors s
}.

Lemma ext_sext s s' ls : ext s s' ls -> sext s s' ls.
Proof. intros [a b c d e]. constructor; assumption. Qed.

Lemma sext_refl s : sext s s [].
Proof. apply ext_sext, ext_refl. Qed.

Lemma sext_trans s1 s2 s3 a b : sext s1 s2 a -> sext s2 s3 b -> sext s1 s3 (a ++ b).
Proof.
  intros [c1 t1 f1 o1] [c2 t2 f2 o2]. constructor; try congruence. rewrite c2, c1, app_assoc. reflexivity.
Qed.

(* a block of complete commands: appended lines ls, checked from any non-empty stack, leave it marked *)
Definition block_run (s s' : bstate) (calls : list bytes) : Prop :=
  exists ls, sext s s' ls /\ ls <> [] /\ (forall stk, stk <> [] -> check ls stk = Some (mark stk)) /\ call_lines ls = calls.

(* zero or more complete simple commands *)
Definition pre_run (s s' : bstate) (calls : list bytes) : Prop :=
  exists ls, sext s s' ls /\ forallb is_simple ls = true /\ call_lines ls = calls.

Lemma simple_pre s s' c : simple_run s s' c -> pre_run s s' c.
Proof. intros (ls & E & S & C). exists ls. split; [apply ext_sext; exact E|auto]. Qed.

Lemma pre_refl s : pre_run s s []. Proof. apply simple_pre, run_refl. Qed.

Lemma pre_trans s1 s2 s3 c1 c2 : pre_run s1 s2 c1 -> pre_run s2 s3 c2 -> pre_run s1 s3 (c1 ++ c2).
Proof.
  intros (l1 & E1 & S1 & C1) (l2 & E2 & S2 & C2). exists (l1 ++ l2).
  split; [eapply sext_trans; eassumption|]. split; [rewrite forallb_app, S1, S2; reflexivity|].
  rewrite call_lines_app, C1, C2. reflexivity.
Qed.

Lemma pre_add s0 s c l : pre_run s0 s c -> plain l = true -> pre_run s0 (add_line l s) c.
Proof.
  intros R Hp. rewrite <- (app_nil_r c). eapply pre_trans; [exact R|]. apply simple_pre. apply run_add_plain; [apply run_refl|exact Hp].
Qed.

(* a non-empty prefix of simple commands followed by a block is a block; so is a block followed by simple commands *)
Lemma pre_block s1 s2 s3 c1 c2 : pre_run s1 s2 c1 -> block_run s2 s3 c2 -> block_run s1 s3 (c1 ++ c2).
Proof.
  intros (l1 & E1 & S1 & C1) (l2 & E2 & N2 & K2 & C2). exists (l1 ++ l2).
  split; [eapply sext_trans; eassumption|]. split; [destruct l1; simpl; [exact N2|discriminate]|]. split.
  - intros stk Hn. rewrite check_app, check_simples by assumption.
    destruct l1; [apply K2; exact Hn|]. rewrite K2 by (apply mark_nonnil; exact Hn). rewrite mark_idem. reflexivity.
  - rewrite call_lines_app, C1, C2. reflexivity.
Qed.

Lemma block_pre s1 s2 s3 c1 c2 : block_run s1 s2 c1 -> pre_run s2 s3 c2 -> block_run s1 s3 (c1 ++ c2).
Proof.
  intros (l1 & E1 & N1 & K1 & C1) (l2 & E2 & S2 & C2). exists (l1 ++ l2).
  split; [eapply sext_trans; eassumption|]. split; [destruct l1; [congruence|discriminate]|]. split.
  - intros stk Hn. rewrite check_app, K1 by exact Hn. rewrite check_simples by (try assumption; apply mark_nonnil; exact Hn).
    destruct l2; [reflexivity|rewrite mark_idem; reflexivity].
  - rewrite call_lines_app, C1, C2. reflexivity.
Qed.

Lemma block_block s1 s2 s3 c1 c2 : block_run s1 s2 c1 -> block_run s2 s3 c2 -> block_run s1 s3 (c1 ++ c2).
Proof.
  intros (l1 & E1 & N1 & K1 & C1) (l2 & E2 & N2 & K2 & C2). exists (l1 ++ l2).
  split; [eapply sext_trans; eassumption|]. split; [destruct l1; [congruence|discriminate]|]. split.
  - intros stk Hn. rewrite check_app, K1 by exact Hn. rewrite K2 by (apply mark_nonnil; exact Hn). rewrite mark_idem. reflexivity.
  - rewrite call_lines_app, C1, C2. reflexivity.
Qed.

(* a non-empty run of simple commands is a block *)
Lemma pre_nonempty_block s s' c : pre_run s s' c -> b_code s' <> b_code s -> block_run s s' c.
Proof.
  intros (ls & E & S & C) Hne. exists ls. split; [exact E|]. split.
  - intro Hl. subst ls. apply Hne. rewrite (sx_code _ _ _ E). apply app_nil_r.
  - split; [|exact C]. intros stk Hn. rewrite check_simples by assumption.
    destruct ls; [exfalso; apply Hne; rewrite (sx_code _ _ _ E); apply app_nil_r|reflexivity].
Qed.

Lemma line_block s l : plain l = true -> block_run s (add_line l s) [].
Proof.
  intro Hp. apply pre_nonempty_block; [apply pre_add; [apply pre_refl|exact Hp]|].
  simpl. intro H. apply (f_equal (@length line)) in H. rewrite app_length in H. simpl in H. lia.
Qed.

(* does this statement emit at least one command?  (what the parser guarantees: variables on the left of a
   definition/assignment, only calls as expression statements) *)
Fixpoint emits (st : stmt) : bool :=
  let all := fix all (l : list stmt) : bool := match l with [] => true | x :: r => emits x && all r end in
  match st with
  | SVarDef vars vals | SAssign vars vals => negb (Nat.eqb (length vars) 0) && (length vars <=? length vals)%nat
  | SVarDefCall vars _ | SAssignCall vars _ => negb (Nat.eqb (length vars) 0)
  | SFunc _ _ _ body _ => all body
  | SIf brs els =>
      negb (Nat.eqb (length brs) 0)
      && (fix ab (l : list (expr * list stmt)) : bool := match l with [] => true | b :: r => all (snd b) && ab r end) brs
      && all els
  | SFor i _ n body =>
      (match i with Some x => emits x | None => true end) && (match n with Some x => emits x | None => true end) && all body
  | SExpr e => match e with ECall _ _ _ | EApp _ | ECopy _ _ | EInput _ | ERead _ => true | _ => false end
  | _ => true
  end.

Fixpoint emits_all (l : list stmt) : bool := match l with [] => true | x :: r => emits x && emits_all r end.

Fixpoint calls_stmt (st : stmt) : list bytes :=
  let all := fix all (l : list stmt) : list bytes := match l with [] => [] | x :: r => calls_stmt x ++ all r end in
  match st with
  | SVarDef vars vals | SAssign vars vals => calls_many (firstn (length vars) vals)
  | SVarDefCall _ c | SAssignCall _ c => calls_expr c
  | SSliceAssign _ i x => calls_expr i ++ calls_expr x
  | SFunc _ _ _ body _ => all body
  | SReturn es => calls_many es
  | SIf brs els =>
      calls_many (map fst brs)
      ++ (fix ab (l : list (expr * list stmt)) : list bytes := match l with [] => [] | b :: r => all (snd b) ++ ab r end) brs
      ++ all els
  | SFor i c n body =>
      (match i with Some x => calls_stmt x | None => [] end) ++ (match n with Some x => calls_stmt x | None => [] end)
      ++ calls_expr c ++ all body
  | SBreak | SContinue => []
  | SPrint es => calls_many es
  | SPanic e => calls_expr e
  | SWrite p d a => calls_expr p ++ calls_expr d ++ calls_expr a
  | SExpr e => calls_expr e
  end.

Fixpoint calls_block (l : list stmt) : list bytes := match l with [] => [] | x :: r => calls_stmt x ++ calls_block r end.

Lemma expr_pre e used s vs s' : t_expr bash_conv e used s = TOk vs s' -> pre_run s s' (calls_expr e).
Proof. intro H. apply simple_pre. apply (t_expr_ok e _ _ _ _ H). Qed.

Lemma bash_var_definition name v g s :
  cv_var_definition bstate atom bash_conv name v g s = add_line (LAssign (var_name s name g) (RAtom v)) s.
Proof. reflexivity. Qed.

Lemma eval_values_pre many es : forall i s vs s',
  eval_values bash_conv many es i s = TOk vs s' -> pre_run s s' (calls_many es) /\ length vs = length es.
Proof.
  induction es as [|e es IH]; intros i s vs s' H; cbn [eval_values] in H.
  - mr H. split; [apply pre_refl|reflexivity].
  - mb H as ve s1 H1 H2. mb H2 as v s2 H2 H3. mb H3 as vr s3 H3 H4. mr H4.
    destruct (IH _ _ _ _ H3) as [R3 L3]. split; [|simpl; rewrite L3; reflexivity].
    cbn [calls_many]. eapply pre_trans; [apply (expr_pre _ _ _ _ _ H1)|].
    rewrite <- (app_nil_l (calls_many es)). eapply pre_trans; [|exact R3].
    destruct many.
    + mb H2 as u s4 H2 H5. mu H2. inv H5. rewrite bash_var_definition. apply pre_add; [apply pre_refl|reflexivity].
    + mr H2. apply pre_refl.
Qed.

Lemma store_values_run vars : forall vals s s',
  store_values bash_conv vars vals s = TOk tt s' ->
  match vars with [] => pre_run s s' [] | _ => block_run s s' [] end.
Proof.
  induction vars as [|v vars IH]; intros vals s s' H; cbn [store_values] in H.
  - mr H. apply pre_refl.
  - destruct vals as [|x xr]; [discriminate|].
    mb H as u s1 H1 H2. mu H1. subst s1. rewrite bash_var_definition in H2.
    specialize (IH _ _ _ H2). destruct vars.
    + change (@nil bytes) with (@nil bytes ++ []). eapply block_pre; [|exact IH]. apply line_block. reflexivity.
    + change (@nil bytes) with (@nil bytes ++ []). eapply block_block; [|exact IH]. apply line_block. reflexivity.
Qed.

Lemma assign_values_run vars es s s' :
  assign_values bash_conv vars es s = TOk tt s' -> vars <> [] ->
  block_run s s' (calls_many (firstn (length vars) es)).
Proof.
  unfold assign_values. intros H Hn. destruct (length es <? length vars)%nat; [discriminate|].
  mb H as vs s1 H1 H2. destruct (eval_values_pre _ _ _ _ _ _ H1) as [R1 _].
  rewrite <- (app_nil_r (calls_many _)). eapply pre_block; [exact R1|].
  pose proof (store_values_run vars _ _ _ H2) as R2. destruct vars; [congruence|exact R2].
Qed.

Lemma assign_call_run vars call s s' :
  assign_call bash_conv vars call s = TOk tt s' -> vars <> [] -> block_run s s' (calls_expr call).
Proof.
  unfold assign_call. intros H Hn. mb H as vs s1 H1 H2.
  destruct (Nat.eqb (length vs) (length vars)); [|discriminate].
  rewrite <- (app_nil_r (calls_expr call)). eapply pre_block; [apply (expr_pre _ _ _ _ _ H1)|].
  pose proof (store_values_run vars _ _ _ H2) as R2. destruct vars; [congruence|exact R2].
Qed.

Lemma length_nonzero {A} (l : list A) : negb (Nat.eqb (length l) 0) = true -> l <> [].
Proof. destruct l; simpl; [discriminate|discriminate]. Qed.

Definition stmt_ok (st : stmt) : Prop :=
  forall s s', t_stmt bash_conv st s = TOk tt s' -> emits st = true -> block_run s s' (calls_stmt st).

Definition t_body (b : list stmt) : M (St:=bstate) unit :=
  (fix block (b : list stmt) : M unit := match b with [] => mret tt | s :: r => mbind (t_stmt bash_conv s) (fun _ => block r) end) b.

Lemma emits_all_eq l :
  (fix all (l : list stmt) : bool := match l with [] => true | x :: r => emits x && all r end) l = emits_all l.
Proof. induction l as [|x r IH]; [reflexivity|]. simpl. rewrite IH. reflexivity. Qed.

Lemma calls_block_eq l :
  (fix all (l : list stmt) : list bytes := match l with [] => [] | x :: r => calls_stmt x ++ all r end) l = calls_block l.
Proof. induction l as [|x r IH]; [reflexivity|]. simpl. rewrite IH. reflexivity. Qed.

Lemma body_run (b : list stmt) : Forall stmt_ok b -> forall s s',
  t_body b s = TOk tt s' -> emits_all b = true ->
  match b with [] => s' = s | _ => block_run s s' (calls_block b) end.
Proof.
  induction 1 as [|st r Hst Hr IH]; intros s s' H He.
  - unfold t_body in H. mr H. reflexivity.
  - unfold t_body in H. mb H as u s1 H1 H2. destruct u. fold (t_body r) in H2.
    cbn [emits_all] in He. apply andb_true_iff in He as [He1 He2].
    specialize (IH _ _ H2 He2). cbn [calls_block].
    destruct r.
    + subst s'. rewrite app_nil_r. apply (Hst _ _ H1 He1).
    + eapply block_block; [apply (Hst _ _ H1 He1)|exact IH].
Qed.

(* evaluateBlock: an empty body becomes a no-op command *)
Lemma t_block_run (b : list stmt) : Forall stmt_ok b -> forall s s',
  (match b with [] => upd (cv_nop bstate atom bash_conv) | _ => t_body b end) s = TOk tt s' -> emits_all b = true ->
  block_run s s' (calls_block b).
Proof.
  intros Hb s s' H He. destruct b as [|st r].
  - mu H. subst s'. apply (line_block s LNop). reflexivity.
  - apply (body_run (st :: r) Hb _ _ H He).
Qed.

(* ---------- list-level shapes ---------- *)

Definition is_block (ls : list line) : Prop := ls <> [] /\ forall stk, stk <> [] -> check ls stk = Some (mark stk).
Definition is_pre (ls : list line) : Prop := forallb is_simple ls = true.
(* zero or more "elif c; then block" parts *)
Definition is_chain (ls : list line) : Prop := forall r, check ls (FIf true false :: r) = Some (FIf true false :: r).
(* nothing, or "else block" *)
Definition is_else (ls : list line) : Prop := forall r, exists e, check ls (FIf true false :: r) = Some (FIf true e :: r).

Lemma pre_check ls stk : is_pre ls -> stk <> [] -> exists stk', check ls stk = Some stk' /\ stk' <> [] /\ mark stk' = mark stk.
Proof.
  intros Hp Hn. rewrite check_simples by assumption. destruct ls.
  - exists stk. auto.
  - exists (mark stk). split; [reflexivity|]. split; [apply mark_nonnil; exact Hn|apply mark_idem].
Qed.

Lemma if_shape conds c b0 chain els :
  is_pre conds -> is_block b0 -> is_chain chain -> is_else els ->
  is_block (conds ++ [LIf (bs "if") c] ++ b0 ++ chain ++ els ++ [LFi]).
Proof.
  intros Hc [_ Hb] Hch Hel. split; [destruct conds; discriminate|].
  intros stk Hn. rewrite check_app. destruct (pre_check conds stk Hc Hn) as (stk1 & E1 & N1 & M1). rewrite E1.
  cbn [app check]. unfold check_line at 1. rewrite beq_refl.
  rewrite check_app, Hb by discriminate. cbn [mark mark1].
  rewrite check_app, Hch. rewrite check_app. destruct (Hel stk1) as (e & Ee). rewrite Ee.
  cbn [check check_line]. rewrite M1. reflexivity.
Qed.

Lemma chain_nil : is_chain []. Proof. intro r. reflexivity. Qed.

Lemma chain_cons c b rest : is_block b -> is_chain rest -> is_chain ([LIf (bs "elif") c] ++ b ++ rest).
Proof.
  intros [_ Hb] Hr r. cbn [app check]. unfold check_line at 1.
  assert (beq (bs "elif") (bs "if") = false) as -> by reflexivity.
  rewrite check_app, Hb by discriminate. cbn [mark mark1]. apply Hr.
Qed.

Lemma else_nil : is_else []. Proof. intro r. exists false. reflexivity. Qed.

Lemma else_some b : is_block b -> is_else ([LElse] ++ b).
Proof. intros [_ Hb] r. exists true. cbn [app check check_line]. rewrite Hb by discriminate. reflexivity. Qed.

Lemma for_shape init flag incr cond c body :
  (init = [] \/ is_block init) -> (incr = [] \/ exists b f2, is_block b /\ incr = [LIncrGuard flag] ++ b ++ [LFi; LFlagSet f2]) ->
  is_pre cond -> is_block body ->
  is_block (init ++ [LForInit flag; LWhile] ++ incr ++ cond ++ [LBreakUnless c] ++ body ++ [LDone]).
Proof.
  intros Hi Hinc Hc [_ Hb]. split; [destruct init; discriminate|].
  intros stk Hn. rewrite check_app.
  assert (exists stk0, check init stk = Some stk0 /\ stk0 <> [] /\ mark stk0 = mark stk) as (stk0 & E0 & N0 & M0).
  { destruct Hi as [->|[_ Hi]]; [exists stk; auto|]. exists (mark stk). rewrite Hi by exact Hn.
    split; [reflexivity|]. split; [apply mark_nonnil; exact Hn|apply mark_idem]. }
  rewrite E0. cbn [app check]. rewrite (check_simple (LForInit flag)) by (try reflexivity; exact N0).
  cbn [check_line]. rewrite check_app.
  assert (exists w, check incr (FWhile false :: mark stk0) = Some (FWhile w :: mark stk0)) as (w & Ew).
  { destruct Hinc as [->|(b & f2 & [_ Hbk] & ->)]; [exists false; reflexivity|]. exists true.
    cbn [app check check_line]. rewrite check_app, Hbk by discriminate. cbn [mark mark1 check check_line]. reflexivity. }
  rewrite Ew. rewrite check_app.
  destruct (pre_check cond (FWhile w :: mark stk0) Hc) as (stk2 & E2 & N2 & M2); [discriminate|]. rewrite E2.
  cbn [app check]. rewrite (check_simple (LBreakUnless c)) by (try reflexivity; exact N2).
  rewrite M2. cbn [mark mark1]. rewrite check_app, Hb by discriminate. cbn [mark mark1 check check_line].
  rewrite mark_idem, M0. reflexivity.
Qed.

Lemma func_shape name params body :
  is_pre params -> is_block body -> is_block ([LFuncOpen name] ++ params ++ body ++ [LClose]).
Proof.
  intros Hp [_ Hb]. split; [discriminate|]. intros stk Hn. cbn [app check check_line]. rewrite check_app.
  destruct (pre_check params (FFunc false :: stk) Hp) as (stk1 & E1 & N1 & M1); [discriminate|]. rewrite E1.
  rewrite check_app, Hb by exact N1. rewrite M1. cbn [mark mark1 check check_line]. reflexivity.
Qed.

(* ---------- every statement appends a block ---------- *)

Lemma block_run_intro s s' ls c : sext s s' ls -> is_block ls -> call_lines ls = c -> block_run s s' c.
Proof. intros E [N K] C. exists ls. auto. Qed.

Lemma block_run_elim s s' c : block_run s s' c -> exists ls, sext s s' ls /\ is_block ls /\ call_lines ls = c.
Proof. intros (ls & E & N & K & C). exists ls. split; [exact E|]. split; [split; assumption|exact C]. Qed.

Lemma pre_run_elim s s' c : pre_run s s' c -> exists ls, sext s s' ls /\ is_pre ls /\ call_lines ls = c.
Proof. intros (ls & E & S & C). exists ls. auto. Qed.

Lemma sext_line s l : sext s (add_line l s) [l].
Proof. apply ext_sext, ext_add_line. Qed.

Lemma conds_pre (l : list (expr * list stmt)) : forall s cs s',
  (fix conds (l : list (expr * list stmt)) : M (list atom) :=
     match l with
     | [] => mret []
     | (c, _) :: r => mbind (t_expr bash_conv c true) (fun vc => mbind (conds r) (fun vr => mret (first_value bash_conv vc :: vr)))
     end) l s = TOk cs s' ->
  pre_run s s' (calls_many (map fst l)) /\ length cs = length l.
Proof.
  induction l as [|[c b] r IH]; intros s cs s' H.
  - mr H. split; [apply pre_refl|reflexivity].
  - mb H as vc s1 H1 H2. mb H2 as vr s2 H2 H3. mr H3. destruct (IH _ _ _ H2) as [R L].
    split; [|simpl; rewrite L; reflexivity]. cbn [map fst calls_many]. eapply pre_trans; [apply (expr_pre _ _ _ _ _ H1)|exact R].
Qed.

Fixpoint emits_branches (l : list (expr * list stmt)) : bool :=
  match l with [] => true | b :: r => emits_all (snd b) && emits_branches r end.
Fixpoint calls_branches (l : list (expr * list stmt)) : list bytes :=
  match l with [] => [] | b :: r => calls_block (snd b) ++ calls_branches r end.

Lemma bodies_chain (l : list (expr * list stmt)) :
  Forall (fun b => Forall stmt_ok (snd b)) l -> forall vs s s',
  (fix bodies (l : list (expr * list stmt)) (vs : list atom) {struct l} : M unit :=
     match l with
     | [] => mret tt
     | (_, b) :: r =>
         match vs with
         | [] => fun _ : bstate => TPanic
         | v :: vr =>
             mbind (cv_elseif_start bstate atom bash_conv v)
               (fun _ => mbind (match b with [] => upd (cv_nop bstate atom bash_conv) | _ :: _ => t_body b end)
                               (fun _ => bodies r vr))
         end
     end) l vs s = TOk tt s' ->
  emits_branches l = true ->
  exists ls, sext s s' ls /\ is_chain ls /\ call_lines ls = calls_branches l.
Proof.
  induction 1 as [|[c b] r Hb Hr IH]; intros vs s s' H He.
  - mr H. exists []. split; [apply sext_refl|]. split; [apply chain_nil|reflexivity].
  - destruct vs as [|v vr]; [discriminate|].
    mb H as u1 s1 H1 H2. mb H2 as u2 s2 H2 H3. destruct u2.
    cbn [emits_branches snd] in He. apply andb_true_iff in He as [He1 He2].
    unfold bash_conv in H1. cbn [cv_elseif_start] in H1. inv H1.
    pose proof (t_block_run b Hb _ _ H2 He1) as Rb. apply block_run_elim in Rb as (lb & Eb & Bb & Cb).
    destruct (IH _ _ _ H3 He2) as (lr & Er & Chr & Cr).
    exists ([LIf (bs "elif") v] ++ lb ++ lr). split.
    + eapply sext_trans; [apply sext_line|]. eapply sext_trans; eassumption.
    + split; [apply chain_cons; assumption|].
      cbn [calls_branches snd]. rewrite !call_lines_app, Cb, Cr. reflexivity.
Qed.

Lemma params_fold (ps0 : list bytes) : forall (acc : bstate * nat),
  let r := fst (fold_left (fun (acc : bstate * nat) p => let '(st, i) := acc in (add_line (LLocalParam (var_name st p false) i) st, S i)) ps0 acc) in
  exists lp, b_code r = b_code (fst acc) ++ lp /\ is_pre lp /\ call_lines lp = []
             /\ b_start r = b_start (fst acc) /\ b_funcs r = b_funcs (fst acc) /\ b_fors r = b_fors (fst acc).
Proof.
  induction ps0 as [|p0 ps0 IHp]; intros [st0 i0]; cbn [fold_left fst].
  - exists []. rewrite app_nil_r. repeat split.
  - destruct (IHp (add_line (LLocalParam (var_name st0 p0 false) i0) st0, S i0)) as (lp & A & B & C & D & E & F).
    cbn [fst] in *. exists (LLocalParam (var_name st0 p0 false) i0 :: lp). rewrite A. simpl. rewrite <- app_assoc.
    repeat split; assumption.
Qed.

Lemma func_start_shape name ps rets s :
  let r := cv_func_start bstate atom bash_conv name ps rets s in
  exists lp, b_code r = b_code s ++ [LFuncOpen name] ++ lp /\ is_pre lp /\ call_lines lp = []
             /\ b_start r = b_start s /\ b_funcs r = S (b_funcs s) /\ b_fors r = b_fors s.
Proof.
  cbv zeta. unfold bash_conv. cbn [cv_func_start].
  match goal with |- context [fold_left ?f ps (?a0, 1%nat)] => destruct (params_fold ps (a0, 1%nat)) as (lp & A & B & C & D & E & F) end.
  cbn [fst] in *. exists lp. rewrite A, D, E, F. simpl. rewrite <- app_assoc. repeat split; assumption.
Qed.

Lemma bash_func_end s : cv_func_end bstate atom bash_conv s =
  match b_funcs s with
  | O => TPanic
  | S k => let s1 := add_line LClose s in
           TOk tt (mkB (b_start s1) (b_code s1) (b_var_counter s1) (b_for_counter s1) (b_fors s1) k (b_func_counter s1) (b_sah s1) (b_sch s1) (b_ssh s1))
  end.
Proof. reflexivity. Qed.

Lemma return_shape vals s :
  exists s1 lp, cv_return bstate atom bash_conv vals s = TOk tt (add_line LReturn s1) /\ sext s s1 lp /\ forallb plain lp = true.
Proof.
  unfold bash_conv. cbn [cv_return].
  assert (forall (vs : list atom) (acc : bstate * nat),
            exists lp, sext (fst acc) (fst (fold_left (fun (acc : bstate * nat) v => let '(st, i) := acc in
                         (add_line (LAssign (var_name st (rv_name i) true) (RAtom v)) st, S i)) vs acc)) lp /\ forallb plain lp = true) as Hf.
  { induction vs as [|v vs IH]; intros [st i]; cbn [fold_left fst].
    - exists []. split; [apply sext_refl|reflexivity].
    - destruct (IH (add_line (LAssign (var_name st (rv_name i) true) (RAtom v)) st, S i)) as (lp & E & P). cbn [fst] in E.
      exists ([LAssign (var_name st (rv_name i) true) (RAtom v)] ++ lp). split; [eapply sext_trans; [apply sext_line|exact E]|exact P]. }
  destruct (Hf vals (s, 0%nat)) as (lp & E & P). cbn [fst] in E. eexists _, lp. split; [reflexivity|]. split; assumption.
Qed.

Lemma plain_pre s s' lp : sext s s' lp -> forallb plain lp = true -> pre_run s s' [].
Proof. intros E P. exists lp. split; [exact E|]. split; [apply plains_simple; exact P|apply plains_calls; exact P]. Qed.

Lemma removelast_snoc {A} (l : list A) x : removelast (l ++ [x]) = l.
Proof. apply removelast_last. Qed.

Lemma rev_snoc_hd {A} (l : list A) x : rev (l ++ [x]) = x :: rev l.
Proof. rewrite rev_app_distr. reflexivity. Qed.

Lemma bash_if_start c s : cv_if_start bstate atom bash_conv c s = add_line (LIf (bs "if") c) s. Proof. reflexivity. Qed.
Lemma bash_else_start s : cv_else_start bstate atom bash_conv s = TOk tt (add_line LElse s). Proof. reflexivity. Qed.
Lemma bash_if_end s : cv_if_end bstate atom bash_conv s = TOk tt (add_line LFi s). Proof. reflexivity. Qed.
Lemma bash_break s : cv_break bstate atom bash_conv s = TOk tt (add_line LBreak s). Proof. reflexivity. Qed.
Lemma bash_continue s : cv_continue bstate atom bash_conv s = TOk tt (add_line LContinue s). Proof. reflexivity. Qed.
Lemma bash_print vals s : cv_print bstate atom bash_conv vals s = add_line (LEcho (join [32] (map render_atom vals))) s. Proof. reflexivity. Qed.
Lemma bash_panic v s : cv_panic bstate atom bash_conv v s = add_line LExit1 (add_line (LEcho (bs "panic: " ++ render_atom v)) s). Proof. reflexivity. Qed.
Lemma bash_for_condition c s : cv_for_condition bstate atom bash_conv c s = add_line (LBreakUnless c) s. Proof. reflexivity. Qed.
Lemma bash_for_start s :
  cv_for_start bstate atom bash_conv s =
  let k := b_for_counter s in
  add_line LWhile (add_line (LForInit (bs "_fv" ++ dec_nat k))
    (mkB (b_start s) (b_code s) (b_var_counter s) (S k) (b_fors s ++ [k]) (b_funcs s) (b_func_counter s) (b_sah s) (b_sch s) (b_ssh s))).
Proof. reflexivity. Qed.
Lemma bash_for_incr_start s : cv_for_incr_start bstate atom bash_conv s =
  match current_flag s with Some f => TOk tt (add_line (LIncrGuard f) s) | None => TPanic end. Proof. reflexivity. Qed.
Lemma bash_for_incr_end s : cv_for_incr_end bstate atom bash_conv s =
  match current_flag s with Some f => TOk tt (add_line (LFlagSet f) (add_line LFi s)) | None => TPanic end. Proof. reflexivity. Qed.
Lemma bash_for_end s : cv_for_end bstate atom bash_conv s =
  match b_fors s with
  | [] => TPanic
  | _ => let s1 := add_line LDone s in
         TOk tt (mkB (b_start s1) (b_code s1) (b_var_counter s1) (b_for_counter s1) (removelast (b_fors s1)) (b_funcs s1)
                     (b_func_counter s1) (b_sah s1) (b_sch s1) (b_ssh s1))
  end. Proof. reflexivity. Qed.
Lemma bash_write_file p c a s : cv_write_file bstate atom bash_conv p c a s =
  let '(h, s1) := helper_assign (RRedir a) s in add_line (LEvalWrite c h p) s1. Proof. reflexivity. Qed.

Lemma run_len s s' c : simple_run s s' c -> (length (b_code s) <= length (b_code s'))%nat.
Proof. intros (ls & E & _). rewrite (x_code _ _ _ E), app_length. lia. Qed.

Lemma helper_len mk s v s' : helper_assign mk s = (v, s') -> (length (b_code s) < length (b_code s'))%nat.
Proof. intro H. destruct (helper_step _ _ _ _ H) as (n & _ & E). rewrite (x_code _ _ _ E), app_length. simpl. lia. Qed.

Lemma next_len s h s' : next_helper s = (h, s') -> b_code s' = b_code s.
Proof. unfold next_helper. intro H. inv H. reflexivity. Qed.

(* calls, commands, copy, input and read always emit at least one line *)
Lemma call_like_emits e used s vs s' :
  match e with ECall _ _ _ | EApp _ | ECopy _ _ | EInput _ | ERead _ => True | _ => False end ->
  t_expr bash_conv e used s = TOk vs s' -> (length (b_code s) < length (b_code s'))%nat.
Proof.
  intros Hk H.
  destruct e as [| | | | | | | | |name rets args|calls| | | | |prompt|dst src| | |e]; try contradiction; cbn [t_expr] in H.
  - (* call *) mb H as va s1 H1 H2. mb H2 as res s2 H2 H3. ml H2.
    assert (s' = s2) as -> by (destruct (used && negb (Nat.eqb (length res) (length rets))); [discriminate|inv H3; reflexivity]).
    assert (length (b_code s) <= length (b_code s1))%nat as L1.
    { clear - H1. revert s va s1 H1. induction args as [|a r IH]; intros s va s1 H1.
      - mr H1. lia.
      - mb H1 as v0 s2 H1 H2. mb H2 as vr s3 H2 H3. mr H3. pose proof (run_len _ _ _ (t_expr_ok a _ _ _ _ H1)). specialize (IH _ _ _ H2). lia. }
    unfold bash_conv in H2. cbn [cv_func_call] in H2. destruct used.
    + destruct (fold_left _ rets ([], add_line (LCall name va) s1, 0%nat)) as [[vals s3] k] eqn:Ef. inv H2.
      pose proof (run_len _ _ _ (rv_fold _ _ _ _ _ Ef)) as L2. cbn [fst snd b_code add_line] in L2. rewrite app_length in L2. simpl in L2. lia.
    + inv H2. cbn [b_code add_line]. rewrite app_length. simpl. lia.
  - (* app *) mb H as cs s1 H1 H2. ml H2.
    assert (length (b_code s) <= length (b_code s1))%nat as L1.
    { assert (simple_run s s1 (calls_expr (EApp calls))) as R.
      { assert (Forall (fun c => Forall expr_ok' (snd c)) calls) as Hc.
        { clear. induction calls as [|c r IH]; constructor; [|exact IH]. induction (snd c); constructor; [apply t_expr_ok|assumption]. }
        clear H2. revert s cs s1 H1. induction Hc as [|c r Hc Hr IH]; intros s cs s1 H1.
        - mr H1. apply run_refl.
        - destruct c as [nm cargs]. mb H1 as va s2 H1 H2. mb H2 as cr s3 H2 H3. mr H3.
          cbn [calls_expr snd]. rewrite calls_many_eq.
          eapply run_trans; [apply (args_ok cargs Hc _ _ _ H1)|]. specialize (IH _ _ _ H2). cbn [calls_expr] in IH. exact IH. }
      apply (run_len _ _ _ R). }
    unfold bash_conv in H2. cbn [cv_app_call] in H2. destruct used.
    + destruct (next_helper s1) as [h1 sa] eqn:E1. destruct (next_helper sa) as [h2 sb] eqn:E2. inv H2.
      cbn [b_code add_line]. rewrite !app_length, (next_len _ _ _ E2), (next_len _ _ _ E1). simpl. lia.
    + inv H2. cbn [b_code add_line]. rewrite app_length. simpl. lia.
  - (* input *) destruct prompt as [x|].
    + mb H as vp s1 H1 H2. mb H2 as v s2 H2 H3. mr H3. ml H2. unfold bash_conv in H2. cbn [cv_input] in H2.
      destruct (next_helper s1) as [h sa] eqn:En. inv H2. pose proof (run_len _ _ _ (t_expr_ok x _ _ _ _ H1)).
      cbn [b_code add_line]. rewrite app_length, (next_len _ _ _ En). simpl. lia.
    + mb H as v s2 H2 H3. mr H3. ml H2. unfold bash_conv in H2. cbn [cv_input] in H2.
      destruct (next_helper s) as [h sa] eqn:En. inv H2. cbn [b_code add_line]. rewrite app_length, (next_len _ _ _ En). simpl. lia.
  - (* copy *) mb H as vs0 s1 H1 H2. mb H2 as v s2 H2 H3. mr H3. ml H2. unfold bash_conv in H2. cbn [cv_copy] in H2.
    pose proof (run_len _ _ _ (t_expr_ok src _ _ _ _ H1)). apply helper_len in H2. cbn [b_code set_flags add_line] in H2. rewrite app_length in H2. simpl in H2. lia.
  - (* read *) destruct (is_string (type_of e)); [|discriminate].
    mb H as vp s1 H1 H2. mb H2 as v s2 H2 H3. mr H3. ml H2. unfold bash_conv in H2. cbn [cv_read_file] in H2.
    pose proof (run_len _ _ _ (t_expr_ok e _ _ _ _ H1)). apply helper_len in H2. lia.
Qed.

Theorem t_stmt_ok : forall st, stmt_ok st.
Proof.
  apply stmt_ind';
    [ intros vars es | intros vars c | intros vars es | intros vars c | intros v i x
    | intros n rets ps body pub Hbody | intros es | intros brs els Hbrs Hels | intros i c n body Hi Hn Hbody
    | | | intros es | intros e | intros p d a | intros e ];
    intros s s' H He; cbn [t_stmt] in H; cbn [emits] in He.
  - (* var definition *)
    apply andb_true_iff in He as [He _]. apply (assign_values_run _ _ _ _ H (length_nonzero _ He)).
  - apply (assign_call_run _ _ _ _ H (length_nonzero _ He)).
  - apply andb_true_iff in He as [He _]. apply (assign_values_run _ _ _ _ H (length_nonzero _ He)).
  - apply (assign_call_run _ _ _ _ H (length_nonzero _ He)).
  - (* slice assignment *)
    mb H as vi s1 H1 H2. mb H2 as vv s2 H2 H3. mb H3 as dv s3 H3 H4. mu H4. subst s'.
    cbn [calls_stmt]. rewrite <- (app_nil_r (calls_expr i ++ calls_expr x)).
    eapply pre_block; [eapply pre_trans; [apply (expr_pre _ _ _ _ _ H1)|apply (expr_pre _ _ _ _ _ H2)]|].
    assert (pre_run s2 s3 []) as Rd.
    { unfold default_of in H3. destruct (dt (type_of x)); try discriminate;
        first [ mr H3; apply pre_refl | ml H3; unfold bash_conv in H3; cbn [cv_string] in H3; inv H3; apply pre_refl ]. }
    change (@nil bytes) with (@nil bytes ++ []). eapply pre_block; [exact Rd|].
    unfold bash_conv. cbn [cv_slice_assignment].
    apply pre_nonempty_block.
    + apply pre_add; [|reflexivity]. apply simple_pre. apply run_flags. apply run_refl.
    + simpl. intro E. apply (f_equal (@length line)) in E. rewrite app_length in E. simpl in E. lia.
  - (* function definition *)
    mb H as u1 s1 H1 H2. mb H2 as u2 s2 H2 H3. mu H1. subst s1. destruct u2.
    rewrite emits_all_eq in He. cbn [calls_stmt]. rewrite calls_block_eq.
    rewrite bash_func_end in H3.
    destruct (b_funcs s2) as [|k] eqn:Ek; [discriminate|]. cbv zeta in H3. inv H3.
    pose proof (t_block_run body Hbody _ _ H2 He) as Rb. apply block_run_elim in Rb as (lb & Eb & Bb & Cb).
    destruct (func_start_shape n (map v_name ps) rets s) as (lp & A & B & C & D & E & F).
    destruct Eb as [Ec Es Ef Eo].
    eapply (block_run_intro _ _ ([LFuncOpen n] ++ lp ++ lb ++ [LClose])).
    + constructor; cbn [b_code b_start b_funcs b_fors add_line].
      * rewrite Ec, A. rewrite <- !app_assoc. reflexivity.
      * rewrite Es, D. reflexivity.
      * rewrite Ef, E in Ek. inv Ek. reflexivity.
      * rewrite Eo, F. reflexivity.
    + apply func_shape; assumption.
    + rewrite !call_lines_app, C, Cb. simpl. rewrite app_nil_r. reflexivity.
  - (* return *)
    mb H as vs s1 H1 H2.
    assert (pre_run s s1 (calls_many es)) as R1.
    { clear H2 He. revert s vs s1 H1. induction es as [|e es IH]; intros s vs s1 H1.
      - mr H1. apply pre_refl.
      - mb H1 as ve s2 H1 H2. mb H2 as vr s3 H2 H3. mr H3. cbn [calls_many].
        eapply pre_trans; [apply (expr_pre _ _ _ _ _ H1)|apply (IH _ _ _ H2)]. }
    destruct (return_shape vs s1) as (s2 & lp & Er & Ex & Pl). rewrite Er in H2. inv H2.
    cbn [calls_stmt]. rewrite <- (app_nil_r (calls_many es)). eapply pre_block; [exact R1|].
    change (@nil bytes) with (@nil bytes ++ []). eapply pre_block; [apply (plain_pre _ _ _ Ex Pl)|].
    apply line_block. reflexivity.
  - (* if *)
    destruct brs as [|[c0 b0] elifs]; [discriminate|].
    mb H as v0 s1 H1 H2. mb H2 as cs s2 H2 H3. mb H3 as u3 s3 H3 H4. mu H3. subst s3.
    mb H4 as u4 s4 H4 H5. destruct u4. mb H5 as u5 s5 H5 H6. destruct u5. mb H6 as u6 s6 H6 H7. destruct u6.
    cbn [length Nat.eqb negb andb] in He. apply andb_true_iff in He as [He Hee]. rewrite emits_all_eq in Hee.
    assert (emits_all b0 = true /\ emits_branches elifs = true) as [Heb0 Heel].
    { cbn [snd] in He. rewrite emits_all_eq in He. apply andb_true_iff in He as [A B]. split; [exact A|].
      clear - B. induction elifs as [|b r IH]; [reflexivity|]. cbn [emits_branches]. rewrite emits_all_eq in B.
      apply andb_true_iff in B as [B1 B2]. rewrite B1. apply IH. exact B2. }
    inversion Hbrs as [|? ? Hb0 Helifs]; subst.
    destruct (conds_pre elifs _ _ _ H2) as [Rc _].
    pose proof (expr_pre _ _ _ _ _ H1) as R0.
    apply pre_run_elim in R0 as (l0 & E0 & P0 & C0). apply pre_run_elim in Rc as (lc & Ec & Pc & Cc).
    rewrite bash_if_start in H4.
    pose proof (t_block_run b0 Hb0 _ _ H4 Heb0) as Rb. apply block_run_elim in Rb as (lb & Eb & Bb & Cb).
    fold t_body in H5.
    destruct (bodies_chain elifs Helifs _ _ _ H5 Heel) as (lch & Ech & Chn & Cch).
    assert (exists le, sext s5 s6 le /\ is_else le /\ call_lines le = calls_block els) as (le & Ee & Pe & Ce).
    { destruct els as [|e0 er].
      - mr H6. exists []. split; [apply sext_refl|]. split; [apply else_nil|reflexivity].
      - mb H6 as u7 s7 H6 H8. rewrite bash_else_start in H6. inv H6.
        pose proof (t_block_run (e0 :: er) Hels _ _ H8 Hee) as Re. apply block_run_elim in Re as (lb2 & Eb2 & Bb2 & Cb2).
        exists ([LElse] ++ lb2). split; [eapply sext_trans; [apply sext_line|exact Eb2]|].
        split; [apply else_some; exact Bb2|]. rewrite call_lines_app, Cb2. reflexivity. }
    rewrite bash_if_end in H7. inv H7.
    eapply (block_run_intro _ _ ((l0 ++ lc) ++ [LIf (bs "if") (first_value bash_conv v0)] ++ lb ++ lch ++ le ++ [LFi])).
    + eapply sext_trans; [eapply sext_trans; eassumption|].
      eapply sext_trans; [apply sext_line|]. eapply sext_trans; [exact Eb|]. eapply sext_trans; [exact Ech|].
      eapply sext_trans; [exact Ee|apply sext_line].
    + apply if_shape; try assumption. unfold is_pre. rewrite forallb_app. unfold is_pre in P0, Pc. rewrite P0, Pc. reflexivity.
    + cbn [calls_stmt map fst snd calls_many]. rewrite !call_lines_app, C0, Cc, Cb, Cch, Ce. simpl.
      repeat rewrite app_nil_r. repeat rewrite <- app_assoc. reflexivity.
  - (* for *)
    mb H as u1 s1 H1 H2. mb H2 as u2 s2 H2 H3. mu H2. subst s2. mb H3 as u3 s3 H3 H4. mb H4 as vc s4 H4 H5.
    mb H5 as u5 s5 H5 H6. mu H5. subst s5. mb H6 as u6 s6 H6 H7. destruct u6.
    apply andb_true_iff in He as [He Heb]. apply andb_true_iff in He as [Hei Hen]. rewrite emits_all_eq in Heb.
    (* init *)
    assert (exists li, sext s s1 li /\ (li = [] \/ is_block li) /\ call_lines li = match i with Some x => calls_stmt x | None => [] end) as (li & Ei & Bi & Ci).
    { destruct i as [x|].
      - destruct u1. apply (Hi _ _ H1) in Hei. apply block_run_elim in Hei as (l & E & B & C). exists l. auto.
      - mr H1. exists []. split; [apply sext_refl|]. auto. }
    rewrite bash_for_start in H3. cbv zeta in H3.
    set (k := b_for_counter s1) in *.
    set (flag := bs "_fv" ++ dec_nat k) in *.
    set (s2 := add_line LWhile (add_line (LForInit flag) (mkB (b_start s1) (b_code s1) (b_var_counter s1) (S k) (b_fors s1 ++ [k]) (b_funcs s1) (b_func_counter s1) (b_sah s1) (b_sch s1) (b_ssh s1)))) in *.
    assert (current_flag s2 = Some flag) as Hflag by (unfold current_flag, s2; cbn [b_fors add_line]; rewrite rev_snoc_hd; reflexivity).
    (* increment *)
    assert (exists ln, sext s2 s3 ln /\ (ln = [] \/ exists b f2, is_block b /\ ln = [LIncrGuard flag] ++ b ++ [LFi; LFlagSet f2])
                       /\ call_lines ln = match n with Some x => calls_stmt x | None => [] end) as (ln & En & Bn & Cn).
    { destruct n as [x|].
      - mb H3 as u7 s7 H3 H8. mb H8 as u8 s8 H8 H9. destruct u8.
        rewrite bash_for_incr_start, Hflag in H3. inv H3.
        apply (Hn _ _ H8) in Hen. apply block_run_elim in Hen as (l & E & B & C).
        rewrite bash_for_incr_end in H9.
        assert (current_flag s8 = Some flag) as Hf8.
        { unfold current_flag in *. rewrite (sx_fors _ _ _ E). cbn [b_fors add_line]. exact Hflag. }
        rewrite Hf8 in H9. inv H9.
        exists ([LIncrGuard flag] ++ l ++ [LFi; LFlagSet flag]). split.
        + eapply sext_trans; [apply sext_line|]. eapply sext_trans; [exact E|].
          change [LFi; LFlagSet flag] with ([LFi] ++ [LFlagSet flag]). eapply sext_trans; apply sext_line.
        + split; [right; exists l, flag; auto|]. rewrite !call_lines_app, C. simpl. rewrite app_nil_r. reflexivity.
      - mr H3. exists []. split; [apply sext_refl|]. auto. }
    pose proof (expr_pre _ _ _ _ _ H4) as Rc. apply pre_run_elim in Rc as (lc & Ec & Pc & Cc).
    rewrite bash_for_condition in H6.
    pose proof (t_block_run body Hbody _ _ H6 Heb) as Rb. apply block_run_elim in Rb as (lb & Eb & Bb & Cb).
    rewrite bash_for_end in H7.
    assert (b_fors s6 = b_fors s1 ++ [k]) as Hfors.
    { rewrite (sx_fors _ _ _ Eb). cbn [b_fors add_line]. rewrite (sx_fors _ _ _ Ec), (sx_fors _ _ _ En). reflexivity. }
    destruct (b_fors s6) eqn:Ef; [destruct (b_fors s1); discriminate|]. cbv zeta in H7. inv H7.
    eapply (block_run_intro _ _ (li ++ [LForInit flag; LWhile] ++ ln ++ lc ++ [LBreakUnless (first_value bash_conv vc)] ++ lb ++ [LDone])).
    + destruct Ei as [ic is_ if_ io]. destruct En as [nc ns nf no]. destruct Ec as [cc cs cf co]. destruct Eb as [bc bs_ bf bo].
      constructor; cbn [b_code b_start b_funcs b_fors add_line] in *.
      * rewrite bc. cbn [b_code add_line]. rewrite cc, nc. unfold s2. cbn [b_code add_line]. rewrite ic.
        repeat rewrite <- app_assoc. reflexivity.
      * rewrite bs_. cbn [b_start add_line]. rewrite cs, ns. unfold s2. cbn [b_start add_line]. exact is_.
      * rewrite bf. cbn [b_funcs add_line]. rewrite cf, nf. unfold s2. cbn [b_funcs add_line]. exact if_.
      * rewrite bo. cbn [b_fors add_line]. rewrite co, no. unfold s2. cbn [b_fors add_line]. rewrite removelast_snoc. exact io.
    + apply for_shape; assumption.
    + cbn [calls_stmt]. rewrite !call_lines_app, Ci, Cn, Cc, Cb. simpl. repeat rewrite app_nil_r. reflexivity.
  - (* break *) rewrite bash_break in H. inv H. apply line_block. reflexivity.
  - (* continue *) rewrite bash_continue in H. inv H. apply line_block. reflexivity.
  - (* print *)
    mb H as vs s1 H1 H2. mu H2. subst s'. rewrite bash_print.
    assert (pre_run s s1 (calls_many es)) as R1.
    { clear He. revert s vs s1 H1. induction es as [|e es IH]; intros s vs s1 H1.
      - mr H1. apply pre_refl.
      - mb H1 as ve s2 H1 H2. mb H2 as vr s3 H2 H3. mr H3. cbn [calls_many].
        eapply pre_trans; [apply (expr_pre _ _ _ _ _ H1)|apply (IH _ _ _ H2)]. }
    cbn [calls_stmt]. rewrite <- (app_nil_r (calls_many es)). eapply pre_block; [exact R1|]. apply line_block. reflexivity.
  - (* panic *)
    mb H as ve s1 H1 H2. mu H2. subst s'. rewrite bash_panic.
    cbn [calls_stmt]. rewrite <- (app_nil_r (calls_expr e)). eapply pre_block; [apply (expr_pre _ _ _ _ _ H1)|].
    change (@nil bytes) with (@nil bytes ++ []). eapply block_block; apply line_block; reflexivity.
  - (* write *)
    destruct (negb (is_string (type_of p))); [discriminate|]. mb H as vp s1 H1 H2.
    destruct (negb (is_string (type_of d))); [discriminate|]. mb H2 as vd s2 H2 H3.
    destruct (negb (is_bool (type_of a))); [discriminate|]. mb H3 as va s3 H3 H4. mu H4. subst s'.
    rewrite bash_write_file. destruct (helper_assign (RRedir (first_value bash_conv va)) s3) as [h s4] eqn:Eh.
    cbn [calls_stmt]. rewrite <- (app_nil_r (calls_expr p ++ calls_expr d ++ calls_expr a)).
    eapply pre_block.
    + eapply pre_trans; [apply (expr_pre _ _ _ _ _ H1)|]. eapply pre_trans; [apply (expr_pre _ _ _ _ _ H2)|apply (expr_pre _ _ _ _ _ H3)].
    + change (@nil bytes) with (@nil bytes ++ []). eapply pre_block; [|apply line_block; reflexivity].
      apply simple_pre. eapply run_helper; [apply run_refl|exact Eh].
  - (* expression statement *)
    mb H as vs s1 H1 H2. mr H2. cbn [calls_stmt].
    pose proof (expr_pre _ _ _ _ _ H1) as R. apply pre_nonempty_block; [exact R|].
    intro Heq. assert (length (b_code s) < length (b_code s'))%nat as L.
    { eapply call_like_emits; [|exact H1]. destruct e; try discriminate; exact I. }
    rewrite Heq in L. lia.
Qed.

(* ---------- the whole script ---------- *)

(* Every accepted program whose statements all emit (what the parser guarantees) is translated to a
   script whose code part is a well-nested sequence of complete commands, with the function calls in
   evaluation order. *)
Theorem program_code_ok (body : list stmt) s s' :
  (fix go (b : list stmt) : M unit := match b with [] => mret tt | st :: r => mbind (t_stmt bash_conv st) (fun _ => go r) end) body s = TOk tt s' ->
  emits_all body = true ->
  exists ls, sext s s' ls /\ (forall stk, stk <> [] -> exists stk', check ls stk = Some stk' /\ mark stk' = mark stk /\ stk' <> [])
             /\ call_lines ls = calls_block body.
Proof.
  intros H He. fold (t_body body) in H.
  assert (Forall stmt_ok body) as Hall by (clear; induction body; constructor; [apply t_stmt_ok|assumption]).
  pose proof (body_run body Hall _ _ H He) as R. destruct body as [|st r].
  - subst s'. exists []. split; [apply sext_refl|]. split; [|reflexivity]. intros stk Hn. exists stk. auto.
  - apply block_run_elim in R as (ls & E & [N K] & C). exists ls. split; [exact E|]. split; [|exact C].
    intros stk Hn. exists (mark stk). rewrite K by exact Hn. split; [reflexivity|]. split; [apply mark_idem|apply mark_nonnil; exact Hn].
Qed.

(* the complete script: shebang, helper definitions, then the code *)
Lemma helpers_wf :
  forall a b c : bool, exists stk', check ([LShebang; locale_line] ++ (if a then sah_helper else []) ++ (if b then sch_helper else []) ++ (if c then ssh_helper else [])) [FTop false] = Some stk'
                             /\ stk' <> [] /\ (stk' = [FTop false] \/ stk' = [FTop true]).
Proof. intros [] [] []; eexists; (split; [vm_compute; reflexivity|split; [discriminate|auto]]). Qed.

Theorem emit_bash_well_formed body script st :
  emit_bash body = TOk script st -> emits_all body = true ->
  well_formed (b_start st ++ b_code st) = true /\ script = render_script (b_start st ++ b_code st)
  /\ call_lines (b_code st) = calls_block body.
Proof.
  unfold emit_bash, transpile_program. intros H He.
  match type of H with context [match ?X with TOk _ _ => _ | TErr => _ | TPanic => _ end] => destruct X as [u s1| |] eqn:E end; try discriminate.
  destruct u. inv H.
  destruct (program_code_ok body _ _ E He) as (ls & Ex & K & C).
  destruct Ex as [Ec Es _ _].
  change (cv_dump bstate atom bash_conv (cv_program_end bstate atom bash_conv s1))
    with (render_script (b_start (cv_program_end bstate atom bash_conv s1) ++ b_code (cv_program_end bstate atom bash_conv s1))).
  change (b_code (cv_program_end bstate atom bash_conv s1)) with (b_code s1).
  change (b_start (cv_program_end bstate atom bash_conv s1))
    with (b_start s1 ++ (if b_sah s1 then sah_helper else []) ++ (if b_sch s1 then sch_helper else []) ++ (if b_ssh s1 then ssh_helper else [])).
  change (b_code (cv_program_start bstate atom bash_conv b_init)) with (@nil line) in Ec.
  change (b_start (cv_program_start bstate atom bash_conv b_init)) with [LShebang; locale_line] in Es. simpl app in Ec.
  split; [|split; [reflexivity|rewrite Ec; exact C]].
  unfold well_formed. rewrite Es, Ec. cbn [b_start b_code]. cbn [app].
  change (LShebang :: locale_line :: ((if b_sah s1 then sah_helper else []) ++ (if b_sch s1 then sch_helper else []) ++ (if b_ssh s1 then ssh_helper else [])) ++ ls)
    with (([LShebang; locale_line] ++ (if b_sah s1 then sah_helper else []) ++ (if b_sch s1 then sch_helper else []) ++ (if b_ssh s1 then ssh_helper else [])) ++ ls).
  rewrite check_app.
  destruct (helpers_wf (b_sah s1) (b_sch s1) (b_ssh s1)) as (stk' & E1 & N1 & T1). rewrite E1.
  destruct (K stk' N1) as (stk2 & E2 & M2 & N2). rewrite E2.
  destruct T1 as [->| ->]; destruct stk2 as [|[] [|? ?]]; try reflexivity; simpl in M2; try discriminate; congruence.
Qed.
