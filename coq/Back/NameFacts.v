(* Name mangling of the Bash converter: locals of different functions never share a shell variable. *)
From Verif Require Import Base.Bytestr Base.DecFacts Front.Ast Back.BashLines Back.Transpile Back.BashConv.
From Coq Require Import Lia Arith PeanoNat.
Open Scope N_scope.

Definition mangled (k : nat) (name : bytes) : bytes := bs "f" ++ dec_nat k ++ bs "_" ++ name.

Lemma var_name_local s name : (0 < b_funcs s)%nat -> var_name s name false = mangled (b_func_counter s) name.
Proof. intro H. unfold var_name, mangled. apply Nat.ltb_lt in H. rewrite H. reflexivity. Qed.

Lemma var_name_global s name : var_name s name true = name.
Proof. unfold var_name. rewrite andb_false_r. reflexivity. Qed.

Lemma var_name_toplevel s name g : b_funcs s = 0%nat -> var_name s name g = name.
Proof. intro H. unfold var_name. rewrite H. reflexivity. Qed.

Theorem mangled_inj k1 k2 n1 n2 : mangled k1 n1 = mangled k2 n2 -> k1 = k2 /\ n1 = n2.
Proof.
  unfold mangled. intro H. apply (app_inv_head (bs "f")) in H.
  assert (span is_digit (dec_nat k1 ++ bs "_" ++ n1) = (dec_nat k1, bs "_" ++ n1)) as S1 by (apply span_all; [apply dec_N_digits|reflexivity]).
  assert (span is_digit (dec_nat k2 ++ bs "_" ++ n2) = (dec_nat k2, bs "_" ++ n2)) as S2 by (apply span_all; [apply dec_N_digits|reflexivity]).
  rewrite H in S1. rewrite S1 in S2. inversion S2 as [[A B]].
  split; [unfold dec_nat in A; apply dec_N_inj in A; apply Nat2N.inj; exact A|].
  reflexivity.
Qed.

(* every function definition gets a number no earlier definition had *)
Lemma func_start_counter name ps rets s :
  b_func_counter (cv_func_start bstate atom bash_conv name ps rets s) = S (b_func_counter s).
Proof.
  unfold bash_conv. cbn [cv_func_start].
  assert (forall (l : list bytes) (acc : bstate * nat),
            b_func_counter (fst (fold_left (fun (acc : bstate * nat) p => let '(st, i) := acc in (add_line (LLocalParam (var_name st p false) i) st, S i)) l acc))
            = b_func_counter (fst acc)) as Hf.
  { induction l as [|p l IH]; intros [st i]; cbn [fold_left fst]; [reflexivity|]. rewrite IH. reflexivity. }
  rewrite Hf. reflexivity.
Qed.
