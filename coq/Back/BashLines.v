(* The lines the Bash converter (/repo/converters/bash/converter.go) can emit, one constructor per
   Sprintf template, and their rendering to bytes.  Values handed around by the transpiler are
   atoms: spliced literal text or a reference ${name}. *)
From Verif Require Import Base.Bytestr Front.Ast.
From Coq Require Import ZArith.
Open Scope N_scope.

Inductive atom :=
| ALit (b : bytes)        (* text spliced as is: numbers, 1/0, string literal contents, "" *)
| ARef (n : bytes).       (* ${n} *)

Definition render_atom (a : atom) : bytes :=
  match a with
  | ALit b => b
  | ARef n => bs "${" ++ n ++ bs "}"
  end.

(* right-hand sides given to varAssignmentString *)
Inductive rhs :=
| RAtom (a : atom)
| RNot (a : atom)                               (* $(if [ "a" -eq "1" ]; then echo 0; else echo 1; fi) *)
| RArith (l : atom) (op : binop) (r : atom)      (* $((lopr)) *)
| RConcat (l r : atom)                           (* "lr" *)
| RCompare (l : atom) (op : bytes) (r : atom)    (* $(if [ "l" op "r" ]; then echo 1; else echo 0; fi) *)
| RLogical (l : atom) (op : logop) (r : atom)    (* $(if [ "l" -eq "1" ] && [ "r" -eq "1" ]; then echo 1; else echo 0; fi) *)
| RNewSlice                                      (* _dv${_dvc} *)
| RSliceEval (name idx : atom)                   (* $(eval "printf '%s' \"\${name[idx]}\"") *)
| RSliceLen (name : atom)                        (* $(eval "echo \${#name[@]}") *)
| RStrLen (h : bytes)                            (* ${#h} *)
| RCapture (calls : list (bytes * list bytes))   (* $(p a b | q c) : names and already quoted arguments *)
| RStatus                                        (* $? *)
| RExists (a : atom)                             (* $(if [ -e "a" ]; then echo 1; else echo 0; fi) *)
| RCat (a : atom)                                (* $(cat -- "a") *)
| RRedir (a : atom).                             (* $(if [ "a" -eq "1" ]; then echo ">>"; else echo ">"; fi) *)

Definition binop_text (op : binop) : bytes :=
  match op with OpMul => [42] | OpDiv => [47] | OpMod => [37] | OpAdd => [43] | OpSub => [45] end.

Definition logop_text (op : logop) : bytes := match op with LAnd => bs "&&" | LOr => bs "||" end.

Definition q := [34].   (* the double quote *)

(* deferExpansion: a backslash before every dollar, for text embedded in a string handed to eval *)
Fixpoint defer_exp (b : bytes) : bytes :=
  match b with
  | [] => []
  | c :: r => if c =? 36 then 92 :: 36 :: defer_exp r else c :: defer_exp r
  end.

Definition printf_n := bs "printf '%s\n' ".     (* printf '%s\n'<blank> *)

Definition render_calls (calls : list (bytes * list bytes)) : bytes :=
  join (bs " | ") (map (fun c => fst c ++ (match snd c with [] => [] | _ => [32] end) ++ join [32] (snd c)) calls).

Definition render_rhs (r : rhs) : bytes :=
  match r with
  | RAtom a => render_atom a
  | RNot a => bs "$(if [ " ++ q ++ render_atom a ++ q ++ bs " -eq " ++ q ++ bs "1" ++ q ++ bs " ]; then echo 0; else echo 1; fi)"
  | RArith l op r => bs "$((" ++ render_atom l ++ binop_text op ++ render_atom r ++ bs "))"
  | RConcat l r => q ++ render_atom l ++ render_atom r ++ q
  | RCompare l op r =>
      bs "$(if [ " ++ q ++ render_atom l ++ q ++ [32] ++ op ++ [32] ++ q ++ render_atom r ++ q ++ bs " ]; then echo 1; else echo 0; fi)"
  | RLogical l op r =>
      bs "$(if [ " ++ q ++ render_atom l ++ q ++ bs " -eq " ++ q ++ bs "1" ++ q ++ bs " ] " ++ logop_text op ++ bs " [ "
      ++ q ++ render_atom r ++ q ++ bs " -eq " ++ q ++ bs "1" ++ q ++ bs " ]; then echo 1; else echo 0; fi)"
  | RNewSlice => bs "_dv${_dvc}"
  | RSliceEval n i => bs "$(eval " ++ q ++ bs "printf '%s' " ++ [92; 34] ++ bs "\${" ++ render_atom n ++ bs "[" ++ render_atom i ++ bs "]}" ++ [92; 34] ++ q ++ bs ")"
  | RSliceLen n => bs "$(eval " ++ q ++ bs "echo \${#" ++ render_atom n ++ bs "[@]}" ++ q ++ bs ")"
  | RStrLen h => bs "${#" ++ h ++ bs "}"
  | RCapture calls => bs "$(" ++ render_calls calls ++ bs ")"
  | RStatus => bs "$?"
  | RExists a => bs "$(if [ -e " ++ q ++ render_atom a ++ q ++ bs " ]; then echo 1; else echo 0; fi)"
  | RCat a => bs "$(cat -- " ++ q ++ render_atom a ++ q ++ bs ")"
  | RRedir a => bs "$(if [ " ++ q ++ render_atom a ++ q ++ bs " -eq " ++ q ++ bs "1" ++ q ++ bs " ]; then echo " ++ q ++ bs ">>" ++ q
                ++ bs "; else echo " ++ q ++ bs ">" ++ q ++ bs "; fi)"
  end.

(* varAssignmentString: add a quote at either end unless the text already has one there *)
Definition quote_value (v : bytes) : bytes :=
  match v with
  | [] => []
  | _ =>
      let v1 := if (last v 0 =? 34) then v else v ++ q in
      if (hd 0 v1 =? 34) then v1 else q ++ v1
  end.

Inductive line :=
| LShebang
| LHelperComment (kind : bytes)                 (* # global <kind> helper *)
| LFuncOpen (name : bytes)                      (* name() { *)
| LClose                                        (* } *)
| LText (t : bytes)                             (* fixed helper body line *)
| LAssign (name : bytes) (r : rhs)              (* name=<quoted rhs> *)
| LLocalParam (name : bytes) (i : nat)          (* local name="$i" *)
| LSah (name : atom) (idx val def : atom)       (* _sah name idx "val" "def" *)
| LReturn
| LIf (word : bytes) (c : atom)                 (* if|elif [ c -eq 1 ]; then *)
| LElse
| LFi
| LForInit (flag : bytes)                       (* flag= *)
| LWhile
| LIncrGuard (flag : bytes)                     (* if [ ! -z ${flag} ]; then *)
| LFlagSet (flag : bytes)                       (* flag=1 *)
| LBreakUnless (c : atom)                       (* if [ c -ne 1 ]; then break; fi *)
| LDone
| LBreak
| LContinue
| LEcho (text : bytes)                          (* printf '%s\n' "text" *)
| LExit1
| LNop
| LDvcIncr                                      (* _dvc=$((${_dvc}+1)) *)
| LEvalArray (name : atom) (vals : list atom)   (* eval "name=(\"v\" \"w\")" *)
| LSsh (v a b : atom)                           (* _ssh "v" a b *)
| LCall (name : bytes) (args : list atom)       (* name "a" "b" *)
| LPipeline (calls : list (bytes * list bytes))
| LRead (prompt : atom) (h : bytes)             (* IFS= read -r[ -p "prompt"] h *)
| LSch (dst : bytes) (src : atom)               (* _sch dst src *)
| LEvalWrite (content : atom) (redir : atom) (path : atom).   (* eval "printf .. \"content\" redir \"path\"", dollars deferred *)

Definition dec_nat (n : nat) : bytes := dec_N (N.of_nat n).

Definition bq := bs "\" ++ q.   (* backslash quote *)

Definition render_line (l : line) : bytes :=
  match l with
  | LShebang => bs "#!/bin/bash"
  | LHelperComment k => bs "# global " ++ k ++ bs " helper"
  | LFuncOpen n => n ++ bs "() {"
  | LClose => bs "}"
  | LText t => t
  | LAssign n r => n ++ bs "=" ++ quote_value (render_rhs r)
  | LLocalParam n i => bs "local " ++ n ++ bs "=" ++ q ++ bs "$" ++ dec_nat i ++ q
  | LSah n i v d => bs "_sah " ++ render_atom n ++ [32] ++ render_atom i ++ [32] ++ q ++ render_atom v ++ q ++ [32] ++ q ++ render_atom d ++ q
  | LReturn => bs "return"
  | LIf w c => w ++ bs " [ " ++ render_atom c ++ bs " -eq 1 ]; then"
  | LElse => bs "else"
  | LFi => bs "fi"
  | LForInit f => f ++ bs "="
  | LWhile => bs "while true; do"
  | LIncrGuard f => bs "if [ ! -z ${" ++ f ++ bs "} ]; then"
  | LFlagSet f => f ++ bs "=1"
  | LBreakUnless c => bs "if [ " ++ render_atom c ++ bs " -ne 1 ]; then break; fi"
  | LDone => bs "done"
  | LBreak => bs "break"
  | LContinue => bs "continue"
  | LEcho t => printf_n ++ q ++ t ++ q
  | LExit1 => bs "exit 1"
  | LNop => bs ": # No operation"
  | LDvcIncr => bs "_dvc=$((${_dvc}+1))"
  | LEvalArray n vals =>
      bs "eval " ++ q ++ render_atom n ++ bs "=(" ++ join [32] (map (fun v => bq ++ defer_exp (render_atom v) ++ bq) vals) ++ bs ")" ++ q
  | LSsh v a b => bs "_ssh " ++ q ++ render_atom v ++ q ++ [32] ++ render_atom a ++ [32] ++ render_atom b
  | LCall n args => n ++ [32] ++ join [32] (map (fun a => q ++ render_atom a ++ q) args)
  | LPipeline calls => render_calls calls
  | LRead p h => bs "IFS= read -r" ++ (match render_atom p with [] => [] | t => bs " -p " ++ q ++ t ++ q end) ++ [32] ++ h
  | LSch d s => bs "_sch " ++ d ++ [32] ++ render_atom s
  | LEvalWrite c r p => bs "eval " ++ q ++ bs "printf '%s\\n' " ++ bq ++ defer_exp (render_atom c) ++ bq ++ [32] ++ render_atom r ++ [32] ++ bq ++ defer_exp (render_atom p) ++ bq ++ q
  end.

(* Dump(): lines joined by newlines, with a terminating newline *)
Definition render_script (ls : list line) : bytes :=
  concat (map (fun l => render_line l ++ [10]) ls).
