(* A syntax checker for the line language of the Bash converter: compound commands must be closed by
   their own terminator and every compound list (then/else part, loop body, function body) must
   contain at least one command.  It is the model of what `bash -n` demands of these scripts
   (validated against the real `bash -n` by the correspondence runs). *)
From Verif Require Import Base.Bytestr Front.Ast Back.BashLines.
Open Scope N_scope.

Inductive frame :=
| FTop (nonempty : bool)
| FIf (nonempty : bool) (in_else : bool)
| FWhile (nonempty : bool)
| FFunc (nonempty : bool).

Definition mark1 (f : frame) : frame :=
  match f with
  | FTop _ => FTop true
  | FIf _ e => FIf true e
  | FWhile _ => FWhile true
  | FFunc _ => FFunc true
  end.

(* a complete command has been seen in the innermost open list *)
Definition mark (st : list frame) : list frame :=
  match st with f :: r => mark1 f :: r | [] => [] end.

Definition check_line (l : line) (st : list frame) : option (list frame) :=
  match l with
  | LIf w _ =>
      if beq w (bs "if") then Some (FIf false false :: st)
      else match st with
           | FIf true false :: r => Some (FIf false false :: r)    (* elif: the part before it is non-empty, no else yet *)
           | _ => None
           end
  | LIncrGuard _ => Some (FIf false false :: st)
  | LElse => match st with FIf true false :: r => Some (FIf false true :: r) | _ => None end
  | LFi => match st with FIf true _ :: r => Some (mark r) | _ => None end
  | LWhile => Some (FWhile false :: st)
  | LDone => match st with FWhile true :: r => Some (mark r) | _ => None end
  | LFuncOpen _ => Some (FFunc false :: st)
  | LClose => match st with FFunc true :: r => Some (mark r) | _ => None end
  | LShebang | LHelperComment _ => Some st                      (* comments *)
  | _ => match st with [] => None | _ => Some (mark st) end      (* simple commands *)
  end.

Fixpoint check (ls : list line) (st : list frame) : option (list frame) :=
  match ls with
  | [] => Some st
  | l :: r => match check_line l st with Some st' => check r st' | None => None end
  end.

Lemma check_app a b st : check (a ++ b) st = match check a st with Some st' => check b st' | None => None end.
Proof. revert st; induction a as [|l a IH]; intro st; simpl; [reflexivity|]. destruct (check_line l st); [apply IH|reflexivity]. Qed.

Definition is_simple (l : line) : bool :=
  match l with
  | LIf _ _ | LIncrGuard _ | LElse | LFi | LWhile | LDone | LFuncOpen _ | LClose | LShebang | LHelperComment _ => false
  | _ => true
  end.

Lemma mark_idem st : mark (mark st) = mark st.
Proof. destruct st as [|[] r]; reflexivity. Qed.

Lemma check_simple l st : is_simple l = true -> st <> [] -> check_line l st = Some (mark st).
Proof. intros H Hn. destruct l; try discriminate; simpl; destruct st; congruence. Qed.

Lemma mark_nonnil st : st <> [] -> mark st <> [].
Proof. destruct st as [|[] r]; simpl; congruence. Qed.

(* a non-empty run of simple commands marks the current list non-empty; an empty one leaves it alone *)
Lemma check_simples ls st :
  forallb is_simple ls = true -> st <> [] ->
  check ls st = Some (match ls with [] => st | _ => mark st end).
Proof.
  revert st. induction ls as [|l ls IH]; intros st H Hn; [reflexivity|].
  simpl in H. apply andb_true_iff in H as [Hl Hls]. cbn [check]. rewrite check_simple by assumption.
  rewrite IH by (try assumption; apply mark_nonnil; assumption). destruct ls; [reflexivity|rewrite mark_idem; reflexivity].
Qed.

(* the whole script: start code (shebang, helper definitions) then the program's code *)
Definition well_formed (ls : list line) : bool :=
  match check ls [FTop false] with Some [FTop _] => true | _ => false end.
