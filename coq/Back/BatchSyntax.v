(* Well-formedness checks for the lines of the Batch converter (C16): balanced parenthesised blocks,
   labels defined once, every goto / call target defined, helper routines present exactly when called,
   loop jumps inside their loop. *)
From Verif Require Import Base.Bytestr Front.Ast Back.BashLines Back.BatchConv.
Open Scope N_scope.

Fixpoint paren_depth (ls : list bline) (d : nat) : option nat :=
  match ls with
  | [] => Some d
  | BOpen _ :: r => paren_depth r (S d)
  | BElse _ :: r => match d with O => None | S _ => paren_depth r d end
  | BClose :: r => match d with O => None | S k => paren_depth r k end
  | _ :: r => paren_depth r d
  end.

Definition parens_balanced (ls : list bline) : bool :=
  match paren_depth ls 0 with Some O => true | _ => false end.

Fixpoint labels_of (ls : list bline) : list bytes :=
  match ls with [] => [] | BLabel l :: r => l :: labels_of r | _ :: r => labels_of r end.
Fixpoint gotos_of (ls : list bline) : list bytes :=
  match ls with [] => [] | BGoto l :: r => l :: gotos_of r | _ :: r => gotos_of r end.
Fixpoint calls_of (ls : list bline) : list bytes :=
  match ls with [] => [] | BCall l _ :: r => l :: calls_of r | _ :: r => calls_of r end.

Fixpoint memb (k : bytes) (l : list bytes) : bool :=
  match l with [] => false | x :: r => beq k x || memb k r end.

Fixpoint nodup (l : list bytes) : bool :=
  match l with [] => true | x :: r => negb (memb x r) && nodup r end.

Definition helper_names : list bytes :=
  [bs "_ach"; bs "_frh"; bs "_fwh"; bs "_sls"; bs "_slg"; bs "_sah"; bs "_sch"; bs "_stsh"; bs "_stlh"; bs "_ech"].

(* a loop jump (goto :_f<n> / :_e<n>) must lie between the loop's start label and its end label *)
Fixpoint index_of (k : bytes) (l : list bytes) (i : nat) : option nat :=
  match l with [] => None | x :: r => if beq k x then Some i else index_of k r (S i) end.

Definition loop_number (l : bytes) : option bytes :=
  match l with
  | 95 :: 102 :: n => Some n     (* _f<n> *)
  | 95 :: 101 :: n => if forallb is_digit n then Some n else None     (* _e<n> *)
  | _ => None
  end.

Fixpoint label_pos (ls : list bline) (k : bytes) (i : nat) : option nat :=
  match ls with
  | [] => None
  | BLabel l :: r => if beq l k then Some i else label_pos r k (S i)
  | _ :: r => label_pos r k (S i)
  end.

Fixpoint jumps_inside (all : list bline) (ls : list bline) (i : nat) : bool :=
  match ls with
  | [] => true
  | BGoto l :: r =>
      (match loop_number l with
       | Some n =>
           if forallb is_digit n then
             match label_pos all (95 :: 102 :: n) 0, label_pos all (95 :: 101 :: n) 0 with
             | Some a, Some b => Nat.ltb a i && Nat.ltb i b
             | _, _ => false
             end
           else true
       | None => true
       end) && jumps_inside all r (S i)
  | _ :: r => jumps_inside all r (S i)
  end.

Definition batch_lines (s : wstate) : list bline :=
  w_start s ++ w_helper s ++ concat (rev (w_funcs_code s)) ++ w_global s ++ w_end s.

Definition batch_wf (ls : list bline) : bool :=
  let labels := labels_of ls in
  parens_balanced ls
  && nodup labels
  && forallb (fun g => memb g labels) (gotos_of ls)
  && forallb (fun c => memb c labels) (calls_of ls)
  && forallb (fun h => Bool.eqb (memb h labels) (memb h (calls_of ls))) helper_names
  && jumps_inside ls ls 0.
