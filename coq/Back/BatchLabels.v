(* Label allocation of the Batch converter (the state named by property C05: ifCounter, forCounter, endLabels,
   ifs): for every program, every label of the three allocated families  _i<n>  _f<n>  _e<n>  is defined at most
   once in the emitted script, so two constructs never share one.  Proved as an invariant that every converter
   method preserves, lifted to all programs by the generic traversal theorem (Back/TraverseInv.v). *)
From Verif Require Import Base.Bytestr Base.DecFacts Front.Ast Back.BashLines Back.Transpile Back.BatchConv Back.BatchSyntax Back.TraverseInv.
From Coq Require Import ZArith Lia Arith.
Open Scope N_scope.

(* ---- counting the definitions of a label ---- *)
Fixpoint cnt (l : bytes) (ls : list bline) : nat :=
  match ls with
  | [] => 0
  | BLabel x :: r => ((if beq l x then 1 else 0) + cnt l r)%nat
  | _ :: r => cnt l r
  end.

Lemma cnt_app l a b : cnt l (a ++ b) = (cnt l a + cnt l b)%nat.
Proof. induction a as [|x a IH]; [reflexivity|]. destruct x; cbn [app cnt]; rewrite IH; lia. Qed.

Lemma cnt_concat_snoc l (fc : list (list bline)) b :
  cnt l (concat (removelast fc ++ [last fc [] ++ [b]])) = (cnt l (concat fc) + cnt l [b])%nat.
Proof.
  destruct fc as [|x r] using rev_ind; [cbn; lia|].
  rewrite removelast_last, last_last, !concat_app. cbn [concat]. rewrite !app_nil_r, !cnt_app. lia.
Qed.

Definition code (s : wstate) : list bline := concat (w_funcs_code s) ++ w_global s.
Definition cntS (l : bytes) (s : wstate) : nat := cnt l (code s).

(* the label state of the converter *)
Definition view (s : wstate) := (w_if_counter s, w_for_counter s, w_ifs s, w_end_labels s).

Lemma w_add_view b s : view (w_add b s) = view s.
Proof. unfold w_add, view. destruct (rev (w_funcs s)); reflexivity. Qed.

Lemma w_add_funcs b s : w_funcs (w_add b s) = w_funcs s.
Proof. unfold w_add. destruct (rev (w_funcs s)); reflexivity. Qed.

Lemma cnt_w_add l b s : cntS l (w_add b s) = (cntS l s + cnt l [b])%nat.
Proof.
  unfold cntS, code, w_add. destruct (rev (w_funcs s)) as [|cur r]; cbn [w_with_code w_funcs_code w_global].
  - rewrite !cnt_app. lia.
  - destruct (beq cur (w_prev_func s)).
    + rewrite !cnt_app, cnt_concat_snoc. lia.
    + rewrite !cnt_app, cnt_concat_snoc, concat_app. cbn [concat]. rewrite !app_nil_r. lia.
Qed.

(* ---- the three families ---- *)
Definition lab (c : N) (k : nat) : bytes := 95 :: c :: dec_nat k.
Definition fam (c : N) : Prop := c = 105 \/ c = 102 \/ c = 101.        (* i f e *)

Definition is_fam (l : bytes) : bool :=
  hd_is 95 l && (let c := hd 0 (tl l) in (c =? 105) || (c =? 102) || (c =? 101))
  && (match tl (tl l) with [] => false | d => forallb is_digit d end).

Lemma lab_is_fam c k : fam c -> is_fam (lab c k) = true.
Proof.
  intro H. unfold is_fam, lab. cbn [hd_is tl hd]. rewrite N.eqb_refl. cbn [andb].
  assert (((c =? 105) || (c =? 102) || (c =? 101)) = true) as E by (destruct H as [H|[H|H]]; subst; reflexivity).
  rewrite E. cbn [andb]. destruct (dec_nat k) eqn:D; [exfalso; exact (dec_N_nonempty _ D)|]. rewrite <- D. apply dec_N_digits.
Qed.

Lemma lab_inj c k1 k2 : lab c k1 = lab c k2 -> k1 = k2.
Proof. unfold lab, dec_nat. intro H. inversion H as [E]. apply dec_N_inj in E. apply Nat2N.inj. exact E. Qed.

Lemma beq_false a b : a <> b -> beq a b = false.
Proof. intro H. destruct (beq a b) eqn:E; [apply beq_eq in E; contradiction|reflexivity]. Qed.

(* a line that defines no family label changes no family count *)
Definition no_fam_label (b : bline) : bool := match b with BLabel x => negb (is_fam x) | _ => true end.

Lemma cnt_no_fam c k b : fam c -> no_fam_label b = true -> cnt (lab c k) [b] = 0%nat.
Proof.
  intros Hc H. destruct b; try reflexivity. cbn [no_fam_label] in H. cbn [cnt].
  rewrite beq_false; [reflexivity|]. intro E. subst l. rewrite (lab_is_fam c k Hc) in H. discriminate.
Qed.

(* ---- quiet steps: the label state and every family count stay as they are ---- *)
Definition quiet (s s' : wstate) : Prop :=
  view s' = view s /\ forall c k, fam c -> cntS (lab c k) s' = cntS (lab c k) s.

Lemma quiet_refl s : quiet s s.
Proof. split; [reflexivity|]. intros. reflexivity. Qed.

Lemma quiet_trans a b c : quiet a b -> quiet b c -> quiet a c.
Proof. intros [V1 C1] [V2 C2]. split; [congruence|]. intros x k Hx. rewrite (C2 x k Hx). apply C1. exact Hx. Qed.

Lemma quiet_add b s : no_fam_label b = true -> quiet s (w_add b s).
Proof. intro H. split; [apply w_add_view|]. intros c k Hc. rewrite cnt_w_add, (cnt_no_fam c k b Hc H). lia. Qed.

Lemma quiet_adds ls : forall s, forallb no_fam_label ls = true -> quiet s (w_adds ls s).
Proof.
  unfold w_adds. induction ls as [|b r IH]; intros s H; [apply quiet_refl|].
  simpl in H. apply andb_true_iff in H as [Hb Hr]. cbn [fold_left].
  eapply quiet_trans; [apply quiet_add; exact Hb|]. apply IH. exact Hr.
Qed.

Lemma quiet_same_code s s' : view s' = view s -> w_funcs_code s' = w_funcs_code s -> w_global s' = w_global s -> quiet s s'.
Proof. intros V F G. split; [exact V|]. intros c k _. unfold cntS, code. rewrite F, G. reflexivity. Qed.

Lemma quiet_set f s : quiet s (w_set f s).
Proof. apply quiet_same_code; reflexivity. Qed.

Lemma quiet_lf s : quiet s (w_add_lf s).
Proof. unfold w_add_lf. destruct (w_lf s); [apply quiet_refl|]. apply quiet_same_code; reflexivity. Qed.

Lemma quiet_next s : quiet s (snd (w_next_helper s)).
Proof. apply quiet_same_code; reflexivity. Qed.

Lemma next_helper_eq s h s1 : w_next_helper s = (h, s1) -> s1 = snd (w_next_helper s).
Proof. intro H. rewrite H. reflexivity. Qed.

Lemma quiet_set_line_fold (mk : wstate -> nat -> bytes -> bline) :
  (forall st i a, no_fam_label (mk st i a) = true) ->
  forall (args : list bytes) (s : wstate) (i : nat),
  quiet s (fst (fold_left (fun (acc : wstate * nat) a => let '(st, j) := acc in (w_add (mk st j a) st, S j)) args (s, i))).
Proof.
  intros Hmk. induction args as [|a r IH]; intros s i; [apply quiet_refl|].
  cbn [fold_left]. eapply quiet_trans; [apply quiet_add; apply Hmk|]. apply IH.
Qed.

Lemma quiet_call name gargs args s : quiet s (w_call name gargs args s).
Proof.
  unfold w_call. eapply quiet_trans; [|apply quiet_add; reflexivity].
  apply (quiet_set_line_fold (fun st i a => w_assign st (fa_name i) a true)). intros; reflexivity.
Qed.

Lemma quiet_echo t s : quiet s (w_echo t s).
Proof. unfold w_echo. eapply quiet_trans; [apply quiet_set|apply quiet_call]. Qed.

(* ---- the invariant ---- *)
Record Inv (s : wstate) : Prop := mkInv {
  inv_once : forall c k, fam c -> (cntS (lab c k) s <= 1)%nat;
  inv_if_fresh : forall k, (w_if_counter s <= k)%nat -> cntS (lab 105 k) s = 0%nat;
  inv_for_fresh : forall k, (w_for_counter s <= k)%nat -> cntS (lab 102 k) s = 0%nat /\ cntS (lab 101 k) s = 0%nat;
  inv_ifs_nodup : NoDup (w_ifs s);
  inv_ifs : forall l, In l (w_ifs s) -> exists k, l = lab 105 k /\ (k < w_if_counter s)%nat /\ cntS l s = 0%nat;
  inv_els_nodup : NoDup (w_end_labels s);
  inv_els : forall l, In l (w_end_labels s) -> exists k, l = lab 101 k /\ (k < w_for_counter s)%nat /\ cntS l s = 0%nat
}.

Lemma view_fields s s' : view s' = view s ->
  w_if_counter s' = w_if_counter s /\ w_for_counter s' = w_for_counter s /\ w_ifs s' = w_ifs s /\ w_end_labels s' = w_end_labels s.
Proof. unfold view. intro H. inversion H. repeat split; assumption. Qed.

Lemma fam_i : fam 105. Proof. left; reflexivity. Qed.
Lemma fam_f : fam 102. Proof. right; left; reflexivity. Qed.
Lemma fam_e : fam 101. Proof. right; right; reflexivity. Qed.

Lemma Inv_quiet s s' : quiet s s' -> Inv s -> Inv s'.
Proof.
  intros [Vw Cn] I. destruct (view_fields s s' Vw) as [E1 [E2 [E3 E4]]]. destruct I as [A B Cc D E F G].
  constructor.
  - intros c k Hc. rewrite (Cn c k Hc). apply A. exact Hc.
  - intros k Hk. rewrite (Cn 105 k fam_i). apply B. lia.
  - intros k Hk. rewrite (Cn 102 k fam_f), (Cn 101 k fam_e). apply Cc. lia.
  - rewrite E3. exact D.
  - intros l Hl. rewrite E3 in Hl. destruct (E l Hl) as [k [L [Hk Z]]]. exists k. subst l. rewrite (Cn 105 k fam_i). repeat split; [lia|exact Z].
  - rewrite E4. exact F.
  - intros l Hl. rewrite E4 in Hl. destruct (G l Hl) as [k [L [Hk Z]]]. exists k. subst l. rewrite (Cn 101 k fam_e). repeat split; [lia|exact Z].
Qed.

Lemma Inv_init : Inv w_init.
Proof. constructor; try (intros; reflexivity); try (intros; split; reflexivity); try constructor; try (intros l H; destruct H); intros; cbn; lia. Qed.

(* ---- the allocating methods ---- *)
Lemma lab_eq c1 k1 c2 k2 : lab c1 k1 = lab c2 k2 -> c1 = c2 /\ k1 = k2.
Proof. unfold lab. intro H. inversion H as [[E1 E2]]. split; [reflexivity|]. subst c2. apply (lab_inj c1). unfold lab. congruence. Qed.

Lemma cnt_label l x : cnt l [BLabel x] = if beq l x then 1%nat else 0%nat.
Proof. cbn [cnt]. destruct (beq l x); reflexivity. Qed.

Lemma removelast_snoc {A} (l : list A) x : removelast (l ++ [x]) = l.
Proof. apply removelast_last. Qed.

Lemma rev_hd_snoc {A} (l : list A) x r : rev l = x :: r -> l = rev r ++ [x].
Proof. intro H. rewrite <- (rev_involutive l), H. reflexivity. Qed.

Lemma NoDup_snoc {A} (l : list A) x : NoDup (l ++ [x]) -> NoDup l /\ ~ In x l.
Proof.
  intro H. apply NoDup_remove in H. rewrite app_nil_r in H. exact H.
Qed.

Lemma NoDup_snoc_intro {A} (l : list A) x : NoDup l -> ~ In x l -> NoDup (l ++ [x]).
Proof.
  intros H N. apply NoDup_rev in H. rewrite <- (rev_involutive (l ++ [x])). apply NoDup_rev. rewrite rev_app_distr. cbn [rev app].
  constructor; [rewrite <- in_rev; exact N|exact H].
Qed.

Lemma Inv_if_start c s : Inv s -> Inv (cv_if_start wstate bytes batch_conv c s).
Proof.
  intro I. cbn [batch_conv cv_if_start].
  set (n := w_if_counter s).
  set (s1 := w_with_counters s (w_var_counter s) (S n) (w_for_counter s)).
  set (s2 := w_with_stacks s1 (w_end_labels s1) (w_funcs s1) (w_func_counter s1) (w_fors s1) (w_ifs s1 ++ [bs "_i" ++ dec_nat n])).
  change (bs "_i" ++ dec_nat n) with (lab 105 n) in s2.
  assert (forall l, cntS l s2 = cntS l s) as Cs by reflexivity.
  apply (Inv_quiet s2); [apply quiet_add; reflexivity|].
  destruct I as [A B Cc D E F G]. constructor.
  - intros c0 k Hc. rewrite Cs. apply A. exact Hc.
  - intros k Hk. rewrite Cs. apply B. change (w_if_counter s2) with (S n) in Hk. fold n. lia.
  - intros k Hk. rewrite !Cs. apply Cc. exact Hk.
  - change (w_ifs s2) with (w_ifs s ++ [lab 105 n]). apply NoDup_snoc_intro; [exact D|].
    intro Hin. destruct (E _ Hin) as [k [L [Hk _]]]. apply lab_eq in L as [_ L]. fold n in Hk. lia.
  - change (w_ifs s2) with (w_ifs s ++ [lab 105 n]). intros l Hl. apply in_app_or in Hl as [Hl|Hl].
    + destruct (E l Hl) as [k [L [Hk Z]]]. exists k. rewrite Cs. change (w_if_counter s2) with (S n). fold n in Hk. repeat split; [exact L|lia|exact Z].
    + destruct Hl as [Hl|[]]. subst l. exists n. rewrite Cs. change (w_if_counter s2) with (S n). repeat split; [lia|apply B; fold n; lia].
  - exact F.
  - intros l Hl. destruct (G l Hl) as [k [L [Hk Z]]]. exists k. rewrite Cs. repeat split; assumption.
Qed.

(* adding the definition of a label after lines that define no family label *)
Lemma cnt_adds_label pre x s c k : fam c -> forallb no_fam_label pre = true ->
  cntS (lab c k) (w_add (BLabel x) (w_adds pre s)) = (cntS (lab c k) s + (if beq (lab c k) x then 1 else 0))%nat.
Proof.
  intros Hc Hp. rewrite cnt_w_add, cnt_label. destruct (quiet_adds pre s Hp) as [_ Cn]. rewrite (Cn c k Hc). reflexivity.
Qed.

Lemma beq_lab c k c2 k2 : beq (lab c k) (lab c2 k2) = true -> c = c2 /\ k = k2.
Proof. intro H. apply beq_eq in H. apply lab_eq. exact H. Qed.

Lemma Inv_if_end s u s' : Inv s -> cv_if_end wstate bytes batch_conv s = TOk u s' -> Inv s'.
Proof.
  intros I H. cbn [batch_conv cv_if_end] in H. destruct (rev (w_ifs s)) as [|label rest] eqn:R; [discriminate|].
  inversion H; subst s'; clear H. apply rev_hd_snoc in R.
  set (s1 := w_adds [BGoto label; BClose; BLabel label] s).
  assert (view s1 = view s) as V1 by (apply (quiet_adds [BGoto label; BClose] (w_add (BLabel label) s) eq_refl) || (unfold s1, w_adds; cbn [fold_left]; rewrite !w_add_view; reflexivity)).
  destruct (view_fields s s1 V1) as [E1 [E2 [E3 E4]]].
  destruct I as [A B Cc D E F G].
  assert (In label (w_ifs s)) as Hin by (rewrite R; apply in_or_app; right; left; reflexivity).
  destruct (E label Hin) as [k0 [L0 [Hk0 Z0]]].
  assert (forall c k, fam c -> cntS (lab c k) s1 = (cntS (lab c k) s + (if beq (lab c k) label then 1 else 0))%nat) as Cs.
  { intros c k Hc. unfold s1, w_adds. cbn [fold_left]. exact (cnt_adds_label [BGoto label; BClose] label s c k Hc eq_refl). }
  set (s2 := w_with_stacks s1 (w_end_labels s1) (w_funcs s1) (w_func_counter s1) (w_fors s1) (pop (w_ifs s1))).
  change (Inv s2).
  assert (forall l, cntS l s2 = cntS l s1) as C2 by reflexivity.
  assert (w_if_counter s2 = w_if_counter s) as F1 by exact E1.
  assert (w_for_counter s2 = w_for_counter s) as F2 by exact E2.
  assert (w_ifs s2 = rev rest) as F3 by (change (w_ifs s2) with (pop (w_ifs s1)); rewrite E3, R; unfold pop; apply removelast_snoc).
  assert (w_end_labels s2 = w_end_labels s) as F4 by exact E4.
  rewrite R in D. apply NoDup_snoc in D as [Drest Dnot].
  constructor.
  - intros c k Hc. rewrite C2, (Cs c k Hc). destruct (beq (lab c k) label) eqn:Eb.
    + apply beq_eq in Eb. rewrite Eb, Z0. lia.
    + specialize (A c k Hc). lia.
  - intros k Hk. rewrite F1 in Hk. rewrite C2, (Cs 105 k fam_i).
    rewrite beq_false; [rewrite (B k Hk); lia|]. intro Eq. rewrite L0 in Eq. apply lab_eq in Eq as [_ Eq]. lia.
  - intros k Hk. rewrite F2 in Hk. rewrite !C2, (Cs 102 k fam_f), (Cs 101 k fam_e).
    rewrite !beq_false; [destruct (Cc k Hk) as [X Y]; rewrite X, Y; split; lia| |]; intro Eq; rewrite L0 in Eq; apply lab_eq in Eq as [Eq _]; discriminate.
  - rewrite F3. exact Drest.
  - rewrite F3. intros l Hl.
    assert (In l (w_ifs s)) as Hl' by (rewrite R; apply in_or_app; left; exact Hl).
    destruct (E l Hl') as [k [L [Hk Z]]]. exists k. rewrite F1. repeat split; [exact L|exact Hk|].
    rewrite C2. subst l. rewrite (Cs 105 k fam_i), Z. rewrite beq_false; [lia|]. intro Eq. apply Dnot. rewrite <- Eq. exact Hl.
  - rewrite F4. exact F.
  - rewrite F4. intros l Hl. destruct (G l Hl) as [k [L [Hk Z]]]. exists k. rewrite F2. repeat split; [exact L|exact Hk|].
    rewrite C2. subst l. rewrite (Cs 101 k fam_e), Z. rewrite beq_false; [lia|]. intro Eq. rewrite L0 in Eq. apply lab_eq in Eq as [Eq _]. discriminate.
Qed.

Lemma Inv_for_start s : Inv s -> Inv (cv_for_start wstate bytes batch_conv s).
Proof.
  intro I. cbn [batch_conv cv_for_start].
  set (k0 := w_for_counter s).
  set (s1 := w_with_counters s (w_var_counter s) (w_if_counter s) (S k0)).
  set (s2 := w_with_stacks s1 (w_end_labels s1 ++ [bs "_e" ++ dec_nat k0]) (w_funcs s1) (w_func_counter s1) (w_fors s1 ++ [bs "_f" ++ dec_nat k0]) (w_ifs s1)).
  change (Inv (w_add (BLabel (lab 102 k0)) (w_adds [set_line (bs "_fv" ++ dec_nat k0) []] s2))).
  assert (forall l, cntS l s2 = cntS l s) as C2 by reflexivity.
  assert (forall c k, fam c -> cntS (lab c k) (w_add (BLabel (lab 102 k0)) (w_adds [set_line (bs "_fv" ++ dec_nat k0) []] s2))
                              = (cntS (lab c k) s + (if beq (lab c k) (lab 102 k0) then 1 else 0))%nat) as Cs.
  { intros c k Hc. rewrite (cnt_adds_label [set_line (bs "_fv" ++ dec_nat k0) []] (lab 102 k0) s2 c k Hc eq_refl), C2. reflexivity. }
  set (s3 := w_add (BLabel (lab 102 k0)) (w_adds [set_line (bs "_fv" ++ dec_nat k0) []] s2)) in *.
  assert (view s3 = view s2) as V3 by (unfold s3, w_adds; cbn [fold_left]; rewrite !w_add_view; reflexivity).
  destruct (view_fields s2 s3 V3) as [E1 [E2 [E3 E4]]].
  change (w_if_counter s2) with (w_if_counter s) in E1. change (w_for_counter s2) with (S k0) in E2.
  change (w_ifs s2) with (w_ifs s) in E3. change (w_end_labels s2) with (w_end_labels s ++ [lab 101 k0]) in E4.
  destruct I as [A B Cc D E F G]. constructor.
  - intros c k Hc. rewrite (Cs c k Hc). destruct (beq (lab c k) (lab 102 k0)) eqn:Eb.
    + apply beq_lab in Eb as [Ec Ek]. subst c k. destruct (Cc k0 (le_n _)) as [X _]. fold k0 in X. rewrite X. lia.
    + specialize (A c k Hc). lia.
  - intros k Hk. rewrite E1 in Hk. rewrite (Cs 105 k fam_i), (B k Hk). rewrite beq_false; [lia|]. intro Eq. apply lab_eq in Eq as [Eq _]. discriminate.
  - intros k Hk. rewrite E2 in Hk. rewrite (Cs 102 k fam_f), (Cs 101 k fam_e).
    destruct (Cc k ltac:(fold k0; lia)) as [X Y]. rewrite X, Y.
    rewrite !beq_false; [split; lia| |]; intro Eq; apply lab_eq in Eq as [Eq1 Eq2]; try discriminate; lia.
  - rewrite E3. exact D.
  - rewrite E3. intros l Hl. destruct (E l Hl) as [k [L [Hk Z]]]. exists k. rewrite E1. repeat split; [exact L|exact Hk|].
    subst l. rewrite (Cs 105 k fam_i), Z. rewrite beq_false; [lia|]. intro Eq. apply lab_eq in Eq as [Eq _]. discriminate.
  - rewrite E4. apply NoDup_snoc_intro; [exact F|]. intro Hin. destruct (G _ Hin) as [k [L [Hk _]]]. apply lab_eq in L as [_ L]. fold k0 in Hk. lia.
  - rewrite E4. intros l Hl. apply in_app_or in Hl as [Hl|Hl].
    + destruct (G l Hl) as [k [L [Hk Z]]]. exists k. rewrite E2. fold k0 in Hk. repeat split; [exact L|lia|].
      subst l. rewrite (Cs 101 k fam_e), Z. rewrite beq_false; [lia|]. intro Eq. apply lab_eq in Eq as [Eq _]. discriminate.
    + destruct Hl as [Hl|[]]. subst l. exists k0. rewrite E2. repeat split; [lia|].
      rewrite (Cs 101 k0 fam_e). destruct (Cc k0 (le_n _)) as [_ Y]. fold k0 in Y. rewrite Y. rewrite beq_false; [lia|]. intro Eq. apply lab_eq in Eq as [Eq _]. discriminate.
Qed.

Lemma Inv_for_end s u s' : Inv s -> cv_for_end wstate bytes batch_conv s = TOk u s' -> Inv s'.
Proof.
  intros I H. cbn [batch_conv cv_for_end] in H.
  destruct (rev (w_fors s)) as [|label frest] eqn:RF; [discriminate|].
  destruct (rev (w_end_labels s)) as [|el rest] eqn:R; [discriminate|].
  inversion H; subst s'; clear H. apply rev_hd_snoc in R.
  set (s1 := w_adds [BGoto label; BClose] s).
  set (s2 := w_with_stacks s1 (pop (w_end_labels s1)) (w_funcs s1) (w_func_counter s1) (pop (w_fors s1)) (w_ifs s1)).
  change (Inv (w_add (BLabel el) s2)).
  destruct (quiet_adds [BGoto label; BClose] s eq_refl) as [V1 C1]. fold s1 in V1, C1.
  destruct (view_fields s s1 V1) as [E1 [E2 [E3 E4]]].
  assert (forall l, cntS l s2 = cntS l s1) as C2 by reflexivity.
  set (s3 := w_add (BLabel el) s2).
  assert (forall c k, fam c -> cntS (lab c k) s3 = (cntS (lab c k) s + (if beq (lab c k) el then 1 else 0))%nat) as Cs.
  { intros c k Hc. unfold s3. rewrite cnt_w_add, cnt_label, C2, (C1 c k Hc). reflexivity. }
  assert (view s3 = view s2) as V3 by apply w_add_view.
  destruct (view_fields s2 s3 V3) as [G1 [G2 [G3 G4]]].
  change (w_if_counter s2) with (w_if_counter s1) in G1. rewrite E1 in G1.
  change (w_for_counter s2) with (w_for_counter s1) in G2. rewrite E2 in G2.
  change (w_ifs s2) with (w_ifs s1) in G3. rewrite E3 in G3.
  change (w_end_labels s2) with (pop (w_end_labels s1)) in G4. rewrite E4, R in G4. unfold pop in G4. rewrite removelast_snoc in G4.
  destruct I as [A B Cc D E F G].
  assert (In el (w_end_labels s)) as Hin by (rewrite R; apply in_or_app; right; left; reflexivity).
  destruct (G el Hin) as [k0 [L0 [Hk0 Z0]]].
  rewrite R in F. apply NoDup_snoc in F as [Frest Fnot].
  constructor.
  - intros c k Hc. rewrite (Cs c k Hc). destruct (beq (lab c k) el) eqn:Eb.
    + apply beq_eq in Eb. rewrite Eb, Z0. lia.
    + specialize (A c k Hc). lia.
  - intros k Hk. rewrite G1 in Hk. rewrite (Cs 105 k fam_i), (B k Hk). rewrite beq_false; [lia|]. intro Eq. rewrite L0 in Eq. apply lab_eq in Eq as [Eq _]. discriminate.
  - intros k Hk. rewrite G2 in Hk. rewrite (Cs 102 k fam_f), (Cs 101 k fam_e). destruct (Cc k Hk) as [X Y]. rewrite X, Y.
    rewrite !beq_false; [split; lia| |]; intro Eq; rewrite L0 in Eq; apply lab_eq in Eq as [Eq1 Eq2]; try discriminate; lia.
  - rewrite G3. exact D.
  - rewrite G3. intros l Hl. destruct (E l Hl) as [k [L [Hk Z]]]. exists k. rewrite G1. repeat split; [exact L|exact Hk|].
    subst l. rewrite (Cs 105 k fam_i), Z. rewrite beq_false; [lia|]. intro Eq. rewrite L0 in Eq. apply lab_eq in Eq as [Eq _]. discriminate.
  - rewrite G4. exact Frest.
  - rewrite G4. intros l Hl.
    assert (In l (w_end_labels s)) as Hl' by (rewrite R; apply in_or_app; left; exact Hl).
    destruct (G l Hl') as [k [L [Hk Z]]]. exists k. rewrite G2. repeat split; [exact L|exact Hk|].
    subst l. rewrite (Cs 101 k fam_e), Z. rewrite beq_false; [lia|]. intro Eq. apply Fnot. rewrite <- Eq. exact Hl.
Qed.

(* ---- every other method is quiet ---- *)
Lemma q_add s0 b s : quiet s0 s -> no_fam_label b = true -> quiet s0 (w_add b s).
Proof. intros H Hb. eapply quiet_trans; [exact H|apply quiet_add; exact Hb]. Qed.
Lemma q_call s0 n g a s : quiet s0 s -> quiet s0 (w_call n g a s).
Proof. intro H. eapply quiet_trans; [exact H|apply quiet_call]. Qed.
Lemma q_echo s0 t s : quiet s0 s -> quiet s0 (w_echo t s).
Proof. intro H. eapply quiet_trans; [exact H|apply quiet_echo]. Qed.
Lemma q_set s0 f s : quiet s0 s -> quiet s0 (w_set f s).
Proof. intro H. eapply quiet_trans; [exact H|apply quiet_set]. Qed.
Lemma q_lf s0 s : quiet s0 s -> quiet s0 (w_add_lf s).
Proof. intro H. eapply quiet_trans; [exact H|apply quiet_lf]. Qed.
Lemma q_counters s0 s vc : quiet s0 s -> quiet s0 (w_with_counters s vc (w_if_counter s) (w_for_counter s)).
Proof. intro H. eapply quiet_trans; [exact H|apply quiet_same_code; reflexivity]. Qed.
Lemma q_adds s0 ls s : quiet s0 s -> forallb no_fam_label ls = true -> quiet s0 (w_adds ls s).
Proof. intros H Hl. eapply quiet_trans; [exact H|apply quiet_adds; exact Hl]. Qed.

Lemma q_stacks s0 s fu fcn fo : quiet s0 s -> quiet s0 (w_with_stacks s (w_end_labels s) fu fcn fo (w_ifs s)).
Proof. intro H. eapply quiet_trans; [exact H|apply quiet_same_code; reflexivity]. Qed.

Ltac quiet_tac :=
  repeat first [ apply quiet_refl
               | apply q_add; [|reflexivity]
               | apply q_adds; [|reflexivity]
               | apply q_call | apply q_echo | apply q_set | apply q_lf | apply q_counters | apply q_stacks ].

Lemma quiet_rets_fold (rets : list vtype) : forall (vs : list bytes) (s : wstate) (i : nat),
  quiet s (snd (fst (fold_left (fun (acc : list bytes * wstate * nat) (_ : vtype) =>
                                  let '(vs, st, i) := acc in
                                  let '(h, st1) := w_next_helper st in
                                  (vs ++ [w_eval st1 h false], w_add (w_assign st1 h (bang (rv_name_w i)) false) st1, S i)) rets (vs, s, i)))).
Proof.
  induction rets as [|r rs IH]; intros vs s i; [apply quiet_refl|].
  cbn [fold_left]. cbn [w_next_helper]. eapply quiet_trans; [|apply IH]. quiet_tac.
Qed.

Definition plain_name (n : bytes) : bool := negb (hd_is 95 n).

Lemma plain_not_fam n : plain_name n = true -> is_fam n = false.
Proof. unfold plain_name, is_fam. intro H. apply negb_true_iff in H. rewrite H. reflexivity. Qed.

Theorem batch_labels_stmt : forall st s u s',
  names_ok plain_name st = true -> Inv s -> t_stmt batch_conv st s = TOk u s' -> Inv s'.
Proof.
  intros st s u s' Hn I H.
  refine (t_stmt_preserves batch_conv Inv plain_name _ _ _ _ _ _ _ _ _ _ _ _ _ _ _ _ _ _ _ _ _ _ _ _ _ _ _ _ _ _ _ _ _ _ _ _ st Hn s u s' I H);
    clear; cbn [batch_conv cv_string cv_var_definition cv_slice_assignment cv_func_start cv_func_end cv_return cv_if_start cv_if_end
                cv_elseif_start cv_else_start cv_for_start cv_for_incr_start cv_for_incr_end cv_for_condition cv_for_end cv_break cv_continue
                cv_print cv_panic cv_write_file cv_nop cv_unary cv_binary cv_comparison cv_logical cv_slice_instantiation cv_slice_evaluation
                cv_slice_len cv_string_subscript cv_string_len cv_func_call cv_app_call cv_input cv_copy cv_exists cv_read_file].
  - (* string *) intros b s I. cbn [snd]. apply (Inv_quiet s); [apply quiet_lf|exact I].
  - (* var_definition *) intros n v g s I. apply (Inv_quiet s); [quiet_tac|exact I].
  - (* slice_assignment *) intros n i v d g s I. apply (Inv_quiet s); [quiet_tac|exact I].
  - (* func_start *) intros n ps rs s Hp I.
    apply (Inv_quiet s); [|exact I].
    eapply quiet_trans; [|apply (quiet_set_line_fold (fun st i p => w_assign st p (bang (fa_name i)) false)); intros; reflexivity].
    assert (no_fam_label (BLabel n) = true) as Hl by (cbn [no_fam_label]; rewrite (plain_not_fam n Hp); reflexivity).
    repeat first [ apply q_add; [|first [exact Hl|reflexivity]] | apply q_adds; [|cbn [forallb]; rewrite Hl; reflexivity] | apply q_stacks | apply quiet_refl ].
  - (* func_end *) intros s u s' I H. destruct (rev (w_funcs s)) as [|name r]; [discriminate|]. inversion H; subst s'; clear H.
    apply (Inv_quiet s); [quiet_tac|exact I].
  - (* return *) intros vs s u s' I H. destruct (rev (w_funcs s)) as [|name r]; [discriminate|]. inversion H; subst s'; clear H.
    apply (Inv_quiet s); [|exact I]. apply q_add; [|reflexivity].
    apply (quiet_set_line_fold (fun st i v => w_assign st (rv_name_w i) v true)). intros; reflexivity.
  - (* if_start *) intros c s I. exact (Inv_if_start c s I).
  - (* if_end *) intros s u s' I H. exact (Inv_if_end s u s' I H).
  - (* elseif_start *) intros c s u s' I H. destruct (rev (w_ifs s)) as [|label r]; [discriminate|]. inversion H; subst s'; clear H.
    apply (Inv_quiet s); [quiet_tac|exact I].
  - (* else_start *) intros s u s' I H. destruct (rev (w_ifs s)) as [|label r]; [discriminate|]. inversion H; subst s'; clear H.
    apply (Inv_quiet s); [quiet_tac|exact I].
  - (* for_start *) intros s I. exact (Inv_for_start s I).
  - (* for_incr_start *) intros s u s' I H. inversion H; subst s'; clear H. apply (Inv_quiet s); [quiet_tac|exact I].
  - (* for_incr_end *) intros s u s' I H. inversion H; subst s'; clear H. apply (Inv_quiet s); [quiet_tac|exact I].
  - (* for_condition *) intros c s I. apply (Inv_quiet s); [quiet_tac|exact I].
  - (* for_end *) intros s u s' I H. exact (Inv_for_end s u s' I H).
  - (* break *) intros s u s' I H. destruct (rev (w_end_labels s)) as [|el r]; [discriminate|]. inversion H; subst s'; clear H.
    apply (Inv_quiet s); [quiet_tac|exact I].
  - (* continue *) intros s u s' I H. destruct (rev (w_fors s)) as [|l r]; [discriminate|]. inversion H; subst s'; clear H.
    apply (Inv_quiet s); [quiet_tac|exact I].
  - (* print *) intros vs s I. apply (Inv_quiet s); [quiet_tac|exact I].
  - (* panic *) intros v s I. apply (Inv_quiet s); [quiet_tac|exact I].
  - (* write_file *) intros p d a s I. apply (Inv_quiet s); [quiet_tac|exact I].
  - (* nop *) intros s I. apply (Inv_quiet s); [quiet_tac|exact I].
  - (* unary *) intros v s I. cbn [w_next_helper snd]. apply (Inv_quiet s); [quiet_tac|exact I].
  - (* binary *) intros l op r t s v s' I H. cbn [w_next_helper] in H. destruct (is_slice t); [discriminate|].
    destruct (dt t); try discriminate.
    + inversion H; subst s'; clear H. apply (Inv_quiet s); [quiet_tac|exact I].
    + destruct op; try discriminate. inversion H; subst s'; clear H. apply (Inv_quiet s); [quiet_tac|exact I].
  - (* comparison *) intros l op r t s v s' I H. destruct (wcmp_text t op) as [[o qd]|]; [|discriminate].
    cbn [w_next_helper] in H. inversion H; subst s'; clear H. apply (Inv_quiet s); [quiet_tac|exact I].
  - (* logical *) intros l op r s I. cbn [w_next_helper snd]. apply (Inv_quiet s); [quiet_tac|exact I].
  - (* slice_instantiation *) intros vs s I. cbn [w_next_helper snd]. apply (Inv_quiet s); [|exact I].
    eapply quiet_trans; [|apply (quiet_set_line_fold (fun st i v => set_line (w_eval _ _ false ++ bs "_" ++ dec_nat i) v)); intros; reflexivity].
    quiet_tac.
  - (* slice_evaluation *) intros a b s I. cbn [w_next_helper snd]. apply (Inv_quiet s); [quiet_tac|exact I].
  - (* slice_len *) intros a s I. cbn [w_next_helper snd]. apply (Inv_quiet s); [quiet_tac|exact I].
  - (* string_subscript *) intros a b c s I. cbn [w_next_helper snd]. apply (Inv_quiet s); [quiet_tac|exact I].
  - (* string_len *) intros a s I. cbn [w_next_helper snd]. apply (Inv_quiet s); [quiet_tac|exact I].
  - (* func_call *) intros n vs rs u s I. apply (Inv_quiet s); [|exact I]. destruct u; cbn [snd]; [|apply quiet_call].
    pose proof (quiet_rets_fold rs [] (w_call n vs [] s) 0%nat) as Q.
    destruct (fold_left _ rs ([], w_call n vs [] s, 0%nat)) as [[vals s2] k] eqn:Ef. cbn [fst snd] in *.
    eapply quiet_trans; [apply quiet_call|exact Q].
  - (* app_call *) intros cs u s I. destruct u; cbn [w_next_helper snd]; apply (Inv_quiet s); try exact I; quiet_tac.
  - (* input *) intros p b s I. cbn [w_next_helper snd]. apply (Inv_quiet s); [quiet_tac|exact I].
  - (* copy *) intros n v g s I. cbn [snd]. apply (Inv_quiet s); [quiet_tac|exact I].
  - (* exists *) intros p s I. cbn [w_next_helper snd]. apply (Inv_quiet s); [quiet_tac|exact I].
  - (* read_file *) intros p s I. cbn [w_next_helper snd]. apply (Inv_quiet s); [quiet_tac|exact I].
Qed.

(* ---- whole programs ---- *)
Lemma cnt_concat_rev l (fc : list (list bline)) : cnt l (concat (rev fc)) = cnt l (concat fc).
Proof.
  induction fc as [|x r IH]; [reflexivity|]. cbn [rev concat]. rewrite concat_app, !cnt_app. cbn [concat]. rewrite app_nil_r, IH. lia.
Qed.

Lemma batch_labels_body : forall body s u s',
  names_ok_all plain_name body = true -> Inv s ->
  (fix go (b : list stmt) : M (St:=wstate) unit :=
     match b with [] => mret tt | x :: r => mbind (t_stmt batch_conv x) (fun _ => go r) end) body s = TOk u s' -> Inv s'.
Proof.
  induction body as [|x r IH]; intros s u s' Hn I H.
  - inversion H; subst. exact I.
  - cbn [names_ok_all] in Hn. apply andb_true_iff in Hn as [Hx Hr]. unfold mbind in H.
    destruct (t_stmt batch_conv x s) as [u1 s1| |] eqn:E; try discriminate.
    exact (IH s1 u s' Hr (batch_labels_stmt x s u1 s1 Hx I E) H).
Qed.

(* In the code of every emitted script (functions and top level), each label _i<n>, _f<n>, _e<n> is defined at most once. *)
Theorem batch_family_labels_unique body script st :
  emit_batch body = TOk script st -> names_ok_all plain_name body = true ->
  forall c k, fam c -> (cnt (lab c k) (concat (rev (w_funcs_code st)) ++ w_global st) <= 1)%nat.
Proof.
  unfold emit_batch, transpile_program. intros H Hn c k Hc.
  destruct ((fix go (b : list stmt) : M (St:=wstate) unit :=
               match b with [] => mret tt | s :: r => mbind (t_stmt batch_conv s) (fun _ => go r) end) body
            (cv_program_start wstate bytes batch_conv w_init)) as [u s| |] eqn:E; try discriminate.
  inversion H; subst st script; clear H.
  assert (Inv (cv_program_start wstate bytes batch_conv w_init)) as I0.
  { apply (Inv_quiet w_init); [apply quiet_same_code; reflexivity|exact Inv_init]. }
  pose proof (batch_labels_body body _ u s Hn I0 E) as Is.
  change (w_funcs_code (cv_program_end wstate bytes batch_conv s)) with (w_funcs_code s).
  change (w_global (cv_program_end wstate bytes batch_conv s)) with (w_global s).
  rewrite cnt_app, cnt_concat_rev, <- cnt_app. exact (inv_once s Is c k Hc).
Qed.

(* the counters never run backwards and name exactly the labels handed out: the next labels are unused *)
Theorem batch_next_labels_fresh body script st :
  emit_batch body = TOk script st -> names_ok_all plain_name body = true ->
  forall k, (w_if_counter st <= k)%nat -> cnt (lab 105 k) (concat (rev (w_funcs_code st)) ++ w_global st) = 0%nat.
Proof.
  unfold emit_batch, transpile_program. intros H Hn k Hk.
  destruct ((fix go (b : list stmt) : M (St:=wstate) unit :=
               match b with [] => mret tt | s :: r => mbind (t_stmt batch_conv s) (fun _ => go r) end) body
            (cv_program_start wstate bytes batch_conv w_init)) as [u s| |] eqn:E; try discriminate.
  inversion H; subst st script; clear H.
  assert (Inv (cv_program_start wstate bytes batch_conv w_init)) as I0.
  { apply (Inv_quiet w_init); [apply quiet_same_code; reflexivity|exact Inv_init]. }
  pose proof (batch_labels_body body _ u s Hn I0 E) as Is.
  change (w_funcs_code (cv_program_end wstate bytes batch_conv s)) with (w_funcs_code s).
  change (w_global (cv_program_end wstate bytes batch_conv s)) with (w_global s).
  change (w_if_counter (cv_program_end wstate bytes batch_conv s)) with (w_if_counter s) in Hk.
  rewrite cnt_app, cnt_concat_rev, <- cnt_app. exact (inv_if_fresh s Is k Hk).
Qed.

(* ---- the rest of the script (start lines, helper routines, end lines) defines no family label ---- *)
Definition frame (s s' : wstate) : Prop :=
  w_helper s' = w_helper s /\ w_end s' = w_end s /\ (forallb no_fam_label (w_start s) = true -> forallb no_fam_label (w_start s') = true).

Lemma frame_refl s : frame s s. Proof. repeat split; auto. Qed.
Lemma frame_trans a b c : frame a b -> frame b c -> frame a c.
Proof. intros [A1 [A2 A3]] [B1 [B2 B3]]. repeat split; [congruence|congruence|auto]. Qed.
Lemma frame_same s s' : w_start s' = w_start s -> w_helper s' = w_helper s -> w_end s' = w_end s -> frame s s'.
Proof. intros A B C. repeat split; [exact B|exact C|rewrite A; auto]. Qed.
Lemma f_add s0 b s : frame s0 s -> frame s0 (w_add b s).
Proof. intro H. eapply frame_trans; [exact H|]. unfold w_add. destruct (rev (w_funcs s)); apply frame_same; reflexivity. Qed.
Lemma f_adds s0 ls : forall s, frame s0 s -> frame s0 (w_adds ls s).
Proof. unfold w_adds. induction ls as [|b r IH]; intros s H; [exact H|]. cbn [fold_left]. apply IH. apply f_add. exact H. Qed.
Lemma f_set s0 f s : frame s0 s -> frame s0 (w_set f s).
Proof. intro H. eapply frame_trans; [exact H|apply frame_same; reflexivity]. Qed.
Lemma f_counters s0 s a b c : frame s0 s -> frame s0 (w_with_counters s a b c).
Proof. intro H. eapply frame_trans; [exact H|apply frame_same; reflexivity]. Qed.
Lemma f_stacks s0 s a b c d e : frame s0 s -> frame s0 (w_with_stacks s a b c d e).
Proof. intro H. eapply frame_trans; [exact H|apply frame_same; reflexivity]. Qed.
Lemma f_lf s0 s : frame s0 s -> frame s0 (w_add_lf s).
Proof.
  intro H. eapply frame_trans; [exact H|]. unfold w_add_lf. destruct (w_lf s); [apply frame_refl|].
  repeat split. cbn [w_start]. intro Hs. rewrite forallb_app, Hs. reflexivity.
Qed.
Lemma f_fold {X} (mk : wstate -> nat -> X -> bline) (args : list X) : forall s0 s i, frame s0 s ->
  frame s0 (fst (fold_left (fun (acc : wstate * nat) a => let '(st, j) := acc in (w_add (mk st j a) st, S j)) args (s, i))).
Proof. induction args as [|a r IH]; intros s0 s i H; [exact H|]. cbn [fold_left]. apply IH. apply f_add. exact H. Qed.
Lemma f_call s0 n g a s : frame s0 s -> frame s0 (w_call n g a s).
Proof. intro H. unfold w_call. apply f_add. apply (f_fold (fun st i x => w_assign st (fa_name i) x true)). exact H. Qed.
Lemma f_echo s0 t s : frame s0 s -> frame s0 (w_echo t s).
Proof. intro H. unfold w_echo. apply f_call. apply f_set. exact H. Qed.

Ltac frame_tac :=
  repeat first [ apply frame_refl | apply f_add | apply f_adds | apply f_call | apply f_echo | apply f_set | apply f_lf | apply f_counters | apply f_stacks
               | apply (f_fold (X:=bytes)) ].

Lemma f_rets_fold (rets : list vtype) : forall s0 (vs : list bytes) (s : wstate) (i : nat), frame s0 s ->
  frame s0 (snd (fst (fold_left (fun (acc : list bytes * wstate * nat) (_ : vtype) =>
                                   let '(vs, st, i) := acc in
                                   let '(h, st1) := w_next_helper st in
                                   (vs ++ [w_eval st1 h false], w_add (w_assign st1 h (bang (rv_name_w i)) false) st1, S i)) rets (vs, s, i)))).
Proof.
  induction rets as [|r rs IH]; intros s0 vs s i H; [exact H|].
  cbn [fold_left]. cbn [w_next_helper]. apply IH. frame_tac. exact H.
Qed.

Definition Clean (s : wstate) : Prop := forallb no_fam_label (w_start s) = true /\ w_helper s = [] /\ w_end s = [].

Lemma Clean_frame s s' : frame s s' -> Clean s -> Clean s'.
Proof. intros [A [B C]] [X [Y Z]]. repeat split; [auto|congruence|congruence]. Qed.

Lemma names_all_true l : Forall (fun st => names_ok (fun _ => true) st = true) l -> names_ok_all (fun _ => true) l = true.
Proof. induction l as [|x r IH]; intro H; [reflexivity|]. inversion H as [|y l2 Hx Hr]; subst. cbn [names_ok_all]. rewrite Hx. exact (IH Hr). Qed.

Lemma names_ok_true : forall st, names_ok (fun _ => true) st = true.
Proof.
  induction st using AstInd.stmt_ind'; try reflexivity.
  - cbn [names_ok]. rewrite names_all_eq. cbn [andb]. apply names_all_true. exact H.
  - cbn [names_ok]. rewrite names_all_eq. apply andb_true_iff. split; [|apply names_all_true; exact H0].
    induction brs as [|[c b] r IHr]; [reflexivity|]. inversion H as [|y l Hx Hr]; subst. cbn [snd] in *.
    rewrite names_all_eq. apply andb_true_iff. split; [apply names_all_true; exact Hx|exact (IHr Hr)].
  - cbn [names_ok]. rewrite names_all_eq. apply andb_true_iff. split; [apply andb_true_iff; split|apply names_all_true; exact H1].
    + destruct i; [exact H|reflexivity].
    + destruct n; [exact H0|reflexivity].
Qed.

Theorem batch_clean_stmt : forall st s u s', Clean s -> t_stmt batch_conv st s = TOk u s' -> Clean s'.
Proof.
  intros st s u s' I H.
  pose proof (names_ok_true st) as Hn.
  refine (t_stmt_preserves batch_conv Clean (fun _ => true) _ _ _ _ _ _ _ _ _ _ _ _ _ _ _ _ _ _ _ _ _ _ _ _ _ _ _ _ _ _ _ _ _ _ _ _ st Hn s u s' I H);
    clear; cbn [batch_conv cv_string cv_var_definition cv_slice_assignment cv_func_start cv_func_end cv_return cv_if_start cv_if_end
                cv_elseif_start cv_else_start cv_for_start cv_for_incr_start cv_for_incr_end cv_for_condition cv_for_end cv_break cv_continue
                cv_print cv_panic cv_write_file cv_nop cv_unary cv_binary cv_comparison cv_logical cv_slice_instantiation cv_slice_evaluation
                cv_slice_len cv_string_subscript cv_string_len cv_func_call cv_app_call cv_input cv_copy cv_exists cv_read_file].
  - intros b s I. cbn [snd]. apply (Clean_frame s); [frame_tac|exact I].
  - intros n v g s I. apply (Clean_frame s); [frame_tac|exact I].
  - intros n i v d g s I. apply (Clean_frame s); [frame_tac|exact I].
  - intros n ps rs s _ I. apply (Clean_frame s); [frame_tac|exact I].
  - intros s u s' I H. destruct (rev (w_funcs s)) as [|name r]; [discriminate|]. inversion H; subst s'; clear H. apply (Clean_frame s); [frame_tac|exact I].
  - intros vs s u s' I H. destruct (rev (w_funcs s)) as [|name r]; [discriminate|]. inversion H; subst s'; clear H. apply (Clean_frame s); [frame_tac|exact I].
  - intros c s I. apply (Clean_frame s); [frame_tac|exact I].
  - intros s u s' I H. destruct (rev (w_ifs s)) as [|label r]; [discriminate|]. inversion H; subst s'; clear H. apply (Clean_frame s); [frame_tac|exact I].
  - intros c s u s' I H. destruct (rev (w_ifs s)) as [|label r]; [discriminate|]. inversion H; subst s'; clear H. apply (Clean_frame s); [frame_tac|exact I].
  - intros s u s' I H. destruct (rev (w_ifs s)) as [|label r]; [discriminate|]. inversion H; subst s'; clear H. apply (Clean_frame s); [frame_tac|exact I].
  - intros s I. apply (Clean_frame s); [frame_tac|exact I].
  - intros s u s' I H. inversion H; subst s'; clear H. apply (Clean_frame s); [frame_tac|exact I].
  - intros s u s' I H. inversion H; subst s'; clear H. apply (Clean_frame s); [frame_tac|exact I].
  - intros c s I. apply (Clean_frame s); [frame_tac|exact I].
  - intros s u s' I H. destruct (rev (w_fors s)) as [|label fr]; [discriminate|]. destruct (rev (w_end_labels s)) as [|el r]; [discriminate|].
    inversion H; subst s'; clear H. apply (Clean_frame s); [frame_tac|exact I].
  - intros s u s' I H. destruct (rev (w_end_labels s)) as [|el r]; [discriminate|]. inversion H; subst s'; clear H. apply (Clean_frame s); [frame_tac|exact I].
  - intros s u s' I H. destruct (rev (w_fors s)) as [|l r]; [discriminate|]. inversion H; subst s'; clear H. apply (Clean_frame s); [frame_tac|exact I].
  - intros vs s I. apply (Clean_frame s); [frame_tac|exact I].
  - intros v s I. apply (Clean_frame s); [frame_tac|exact I].
  - intros p d a s I. apply (Clean_frame s); [frame_tac|exact I].
  - intros s I. apply (Clean_frame s); [frame_tac|exact I].
  - intros v s I. cbn [w_next_helper snd]. apply (Clean_frame s); [frame_tac|exact I].
  - intros l op r t s v s' I H. cbn [w_next_helper] in H. destruct (is_slice t); [discriminate|].
    destruct (dt t); try discriminate.
    + inversion H; subst s'; clear H. apply (Clean_frame s); [frame_tac|exact I].
    + destruct op; try discriminate. inversion H; subst s'; clear H. apply (Clean_frame s); [frame_tac|exact I].
  - intros l op r t s v s' I H. destruct (wcmp_text t op) as [[o qd]|]; [|discriminate].
    cbn [w_next_helper] in H. inversion H; subst s'; clear H. apply (Clean_frame s); [frame_tac|exact I].
  - intros l op r s I. cbn [w_next_helper snd]. apply (Clean_frame s); [frame_tac|exact I].
  - intros vs s I. cbn [w_next_helper snd]. apply (Clean_frame s); [frame_tac|exact I].
  - intros a b s I. cbn [w_next_helper snd]. apply (Clean_frame s); [frame_tac|exact I].
  - intros a s I. cbn [w_next_helper snd]. apply (Clean_frame s); [frame_tac|exact I].
  - intros a b c s I. cbn [w_next_helper snd]. apply (Clean_frame s); [frame_tac|exact I].
  - intros a s I. cbn [w_next_helper snd]. apply (Clean_frame s); [frame_tac|exact I].
  - intros n vs rs u s I. apply (Clean_frame s); [|exact I]. destruct u; cbn [snd]; [|frame_tac].
    pose proof (f_rets_fold rs s [] (w_call n vs [] s) 0%nat ltac:(frame_tac)) as Q.
    destruct (fold_left _ rs ([], w_call n vs [] s, 0%nat)) as [[vals s2] k] eqn:Ef. cbn [fst snd] in *. exact Q.
  - intros cs u s I. destruct u; cbn [w_next_helper snd]; apply (Clean_frame s); try exact I; frame_tac.
  - intros p b s I. cbn [w_next_helper snd]. apply (Clean_frame s); [frame_tac|exact I].
  - intros n v g s I. cbn [snd]. apply (Clean_frame s); [frame_tac|exact I].
  - intros p s I. cbn [w_next_helper snd]. apply (Clean_frame s); [frame_tac|exact I].
  - intros p s I. cbn [w_next_helper snd]. apply (Clean_frame s); [frame_tac|exact I].
Qed.

Lemma cnt_no_fam_list c k ls : fam c -> forallb no_fam_label ls = true -> cnt (lab c k) ls = 0%nat.
Proof.
  intros Hc. induction ls as [|b r IH]; intro H; [reflexivity|]. simpl in H. apply andb_true_iff in H as [Hb Hr].
  change (b :: r) with ([b] ++ r). rewrite cnt_app, (cnt_no_fam c k b Hc Hb), (IH Hr). reflexivity.
Qed.

Lemma helpers_no_fam s : forallb no_fam_label (helpers_of s) = true.
Proof.
  unfold helpers_of. cbv zeta. repeat rewrite forallb_app.
  repeat (apply andb_true_iff; split);
    match goal with |- forallb _ (if ?c then _ else _) = true => destruct c; reflexivity end.
Qed.

Lemma batch_clean_body : forall body s u s', Clean s ->
  (fix go (b : list stmt) : M (St:=wstate) unit :=
     match b with [] => mret tt | x :: r => mbind (t_stmt batch_conv x) (fun _ => go r) end) body s = TOk u s' -> Clean s'.
Proof.
  induction body as [|x r IH]; intros s u s' I H.
  - inversion H; subst. exact I.
  - unfold mbind in H. destruct (t_stmt batch_conv x s) as [u1 s1| |] eqn:E; try discriminate.
    exact (IH s1 u s' (batch_clean_stmt x s u1 s1 I E) H).
Qed.

(* The whole emitted script: every label of the three families is defined at most once. *)
Theorem batch_script_family_labels_unique body script st :
  emit_batch body = TOk script st -> names_ok_all plain_name body = true ->
  forall c k, fam c -> (cnt (lab c k) (batch_lines st) <= 1)%nat.
Proof.
  intros H Hn c k Hc. pose proof (batch_family_labels_unique body script st H Hn c k Hc) as Hcode.
  unfold emit_batch, transpile_program in H.
  destruct ((fix go (b : list stmt) : M (St:=wstate) unit :=
               match b with [] => mret tt | s :: r => mbind (t_stmt batch_conv s) (fun _ => go r) end) body
            (cv_program_start wstate bytes batch_conv w_init)) as [u s| |] eqn:E; try discriminate.
  inversion H; subst st script; clear H.
  assert (Clean (cv_program_start wstate bytes batch_conv w_init)) as C0 by (repeat split; reflexivity).
  destruct (batch_clean_body body _ u s C0 E) as [Cs [Ch Ce]].
  unfold batch_lines. cbn [batch_conv cv_program_end w_start w_helper w_funcs_code w_global w_end] in *.
  rewrite Ch, Ce. cbn [app]. rewrite !cnt_app.
  rewrite (cnt_no_fam_list c k (w_start s) Hc Cs), (cnt_no_fam_list c k (helpers_of s) Hc (helpers_no_fam s)).
  match goal with |- context [cnt (lab c k) (BLabel ?e :: ?r)] => rewrite (cnt_no_fam_list c k (BLabel e :: r) Hc eq_refl) end.
  rewrite cnt_app in Hcode. lia.
Qed.
