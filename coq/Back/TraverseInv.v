(* A generic invariant theorem for the traversal of transpiler.go: a predicate on converter states that
   every converter method preserves is preserved by the translation of every expression, statement and
   program, at any nesting depth.  (The method for function definitions may rely on a condition on the
   function's name, which the program must then satisfy throughout.) *)
From Verif Require Import Base.Bytestr Front.Ast Front.AstInd Back.Transpile.
From Coq Require Import ZArith.
Open Scope N_scope.

Section Inv.
  Context {St V : Type}.
  Variable C : converter St V.
  Variable P : St -> Prop.
  Variable pname : bytes -> bool.

  (* every function defined in a statement (at any depth) has an acceptable name *)
  Fixpoint names_ok (st : stmt) : bool :=
    let all := fix all (l : list stmt) : bool := match l with [] => true | x :: r => names_ok x && all r end in
    match st with
    | SFunc n _ _ body _ => pname n && all body
    | SIf brs els =>
        (fix ab (l : list (expr * list stmt)) : bool := match l with [] => true | b :: r => all (snd b) && ab r end) brs && all els
    | SFor i _ n body =>
        (match i with Some x => names_ok x | None => true end) && (match n with Some x => names_ok x | None => true end) && all body
    | _ => true
    end.
  Fixpoint names_ok_all (l : list stmt) : bool := match l with [] => true | x :: r => names_ok x && names_ok_all r end.

  Hypothesis H_string : forall b s, P s -> P (snd (cv_string St V C b s)).
  Hypothesis H_var_definition : forall n v g s, P s -> P (cv_var_definition St V C n v g s).
  Hypothesis H_slice_assignment : forall n i v d g s, P s -> P (cv_slice_assignment St V C n i v d g s).
  Hypothesis H_func_start : forall n ps rs s, pname n = true -> P s -> P (cv_func_start St V C n ps rs s).
  Hypothesis H_func_end : forall s u s', P s -> cv_func_end St V C s = TOk u s' -> P s'.
  Hypothesis H_return : forall vs s u s', P s -> cv_return St V C vs s = TOk u s' -> P s'.
  Hypothesis H_if_start : forall c s, P s -> P (cv_if_start St V C c s).
  Hypothesis H_if_end : forall s u s', P s -> cv_if_end St V C s = TOk u s' -> P s'.
  Hypothesis H_elseif_start : forall c s u s', P s -> cv_elseif_start St V C c s = TOk u s' -> P s'.
  Hypothesis H_else_start : forall s u s', P s -> cv_else_start St V C s = TOk u s' -> P s'.
  Hypothesis H_for_start : forall s, P s -> P (cv_for_start St V C s).
  Hypothesis H_for_incr_start : forall s u s', P s -> cv_for_incr_start St V C s = TOk u s' -> P s'.
  Hypothesis H_for_incr_end : forall s u s', P s -> cv_for_incr_end St V C s = TOk u s' -> P s'.
  Hypothesis H_for_condition : forall c s, P s -> P (cv_for_condition St V C c s).
  Hypothesis H_for_end : forall s u s', P s -> cv_for_end St V C s = TOk u s' -> P s'.
  Hypothesis H_break : forall s u s', P s -> cv_break St V C s = TOk u s' -> P s'.
  Hypothesis H_continue : forall s u s', P s -> cv_continue St V C s = TOk u s' -> P s'.
  Hypothesis H_print : forall vs s, P s -> P (cv_print St V C vs s).
  Hypothesis H_panic : forall v s, P s -> P (cv_panic St V C v s).
  Hypothesis H_write_file : forall p d a s, P s -> P (cv_write_file St V C p d a s).
  Hypothesis H_nop : forall s, P s -> P (cv_nop St V C s).
  Hypothesis H_unary : forall v s, P s -> P (snd (cv_unary St V C v s)).
  Hypothesis H_binary : forall l op r t s v s', P s -> cv_binary St V C l op r t s = TOk v s' -> P s'.
  Hypothesis H_comparison : forall l op r t s v s', P s -> cv_comparison St V C l op r t s = TOk v s' -> P s'.
  Hypothesis H_logical : forall l op r s, P s -> P (snd (cv_logical St V C l op r s)).
  Hypothesis H_slice_instantiation : forall vs s, P s -> P (snd (cv_slice_instantiation St V C vs s)).
  Hypothesis H_slice_evaluation : forall a b s, P s -> P (snd (cv_slice_evaluation St V C a b s)).
  Hypothesis H_slice_len : forall a s, P s -> P (snd (cv_slice_len St V C a s)).
  Hypothesis H_string_subscript : forall a b c s, P s -> P (snd (cv_string_subscript St V C a b c s)).
  Hypothesis H_string_len : forall a s, P s -> P (snd (cv_string_len St V C a s)).
  Hypothesis H_func_call : forall n vs rs u s, P s -> P (snd (cv_func_call St V C n vs rs u s)).
  Hypothesis H_app_call : forall cs u s, P s -> P (snd (cv_app_call St V C cs u s)).
  Hypothesis H_input : forall p b s, P s -> P (snd (cv_input St V C p b s)).
  Hypothesis H_copy : forall n v g s, P s -> P (snd (cv_copy St V C n v g s)).
  Hypothesis H_exists : forall p s, P s -> P (snd (cv_exists St V C p s)).
  Hypothesis H_read_file : forall p s, P s -> P (snd (cv_read_file St V C p s)).

  Definition pres {A} (m : M (St:=St) A) : Prop := forall s a s', P s -> m s = TOk a s' -> P s'.

  Lemma pres_ret {A} (a : A) : pres (mret a).
  Proof. intros s a0 s' H E. inversion E; subst. exact H. Qed.

  Lemma pres_err {A} : pres (@merr St A).
  Proof. intros s a s' _ E. discriminate. Qed.

  Lemma pres_bind {A B} (m : M A) (f : A -> M B) : pres m -> (forall a, pres (f a)) -> pres (mbind m f).
  Proof.
    intros Hm Hf s b s' H E. unfold mbind in E. destruct (m s) as [a s1| |] eqn:Em; try discriminate.
    exact (Hf a s1 b s' (Hm s a s1 H Em) E).
  Qed.

  Lemma pres_lift {A} (f : St -> A * St) : (forall s, P s -> P (snd (f s))) -> pres (lift f).
  Proof. intros Hf s a s' H E. unfold lift in E. specialize (Hf s H). destruct (f s) as [x y]. inversion E; subst. exact Hf. Qed.

  Lemma pres_upd (f : St -> St) : (forall s, P s -> P (f s)) -> pres (upd f).
  Proof. intros Hf s a s' H E. unfold upd in E. inversion E; subst. apply Hf. exact H. Qed.

  Lemma pres_tres {A} (m : M A) : (forall s a s', P s -> m s = TOk a s' -> P s') -> pres m.
  Proof. intro H. exact H. Qed.

  Lemma pres_one (m : M V) : pres m -> pres (mbind m (fun v => mret [v])).
  Proof. intro H. apply pres_bind; [exact H|]. intro a. apply pres_ret. Qed.

  Definition args_of_fix :=
    fix args_of (es : list expr) : M (St:=St) (list V) :=
      match es with
      | [] => mret []
      | a :: r => mbind (t_expr C a true) (fun va => mbind (args_of r) (fun vr => mret (first_value C va :: vr)))
      end.

  Lemma pres_args (es : list expr) : Forall (fun e => forall used, pres (t_expr C e used)) es -> pres (args_of_fix es).
  Proof.
    induction es as [|a r IH]; intro H; cbn [args_of_fix]; [apply pres_ret|].
    inversion H as [|x l Ha Hr]; subst. apply pres_bind; [apply Ha|]. intro va.
    apply pres_bind; [exact (IH Hr)|]. intro vr. apply pres_ret.
  Qed.

  Theorem t_expr_preserves : forall e used, pres (t_expr C e used).
  Proof.
    induction e using expr_ind'; intro used; cbn [t_expr].
    - apply pres_ret.
    - apply pres_ret.
    - apply pres_one. apply pres_lift. intros s0 H0. apply H_string. exact H0.
    - apply pres_bind; [apply IHe|]. intro vx. apply pres_one. apply pres_lift. intros s0 H0. apply H_unary. exact H0.
    - apply pres_bind; [apply IHe1|]. intro vl. apply pres_bind; [apply IHe2|]. intro vr. apply pres_one.
      intros s0 a s' H0 E. exact (H_binary _ _ _ _ _ _ _ H0 E).
    - apply pres_bind; [apply IHe1|]. intro vl. apply pres_bind; [apply IHe2|]. intro vr. apply pres_one.
      intros s0 a s' H0 E. exact (H_comparison _ _ _ _ _ _ _ H0 E).
    - apply pres_bind; [apply IHe1|]. intro vl. apply pres_bind; [apply IHe2|]. intro vr. apply pres_one.
      apply pres_lift. intros s0 H0. apply H_logical. exact H0.
    - intros s0 a s' H0 E. inversion E; subst. exact H0.
    - apply IHe.
    - (* ECall *)
      apply pres_bind; [exact (pres_args args H)|]. intro vs.
      apply pres_bind; [apply pres_lift; intros s0 H0; apply H_func_call; exact H0|]. intro res.
      destruct (used && negb (Nat.eqb (length res) (length rets))); [apply pres_err|apply pres_ret].
    - (* EApp *)
      apply pres_bind.
      + induction calls as [|[n args] r IHc]; [apply pres_ret|].
        inversion H as [|x l Ha Hr]; subst. cbn [snd] in Ha.
        apply pres_bind; [exact (pres_args args Ha)|]. intro vs.
        apply pres_bind; [exact (IHc Hr)|]. intro cr. apply pres_ret.
      + intro cs. apply pres_lift. intros s0 H0. apply H_app_call. exact H0.
    - (* ESliceInst *)
      apply pres_bind; [exact (pres_args vals H)|]. intro vs. apply pres_one. apply pres_lift. intros s0 H0. apply H_slice_instantiation. exact H0.
    - apply pres_bind; [apply IHe1|]. intro vv. apply pres_bind; [apply IHe2|]. intro vi. apply pres_one.
      apply pres_lift. intros s0 H0. apply H_slice_evaluation. exact H0.
    - (* ESubscript *)
      apply pres_bind; [apply IHe2|]. intro va. apply pres_bind.
      + destruct b as [x|]; [apply H|apply pres_ret].
      + intro vb. apply pres_bind; [apply IHe1|]. intro vv. apply pres_one. apply pres_lift. intros s0 H0. apply H_string_subscript. exact H0.
    - apply pres_bind; [apply IHe|]. intro vx. destruct (is_string (type_of e)); apply pres_one; apply pres_lift; intros s0 H0;
        [apply H_string_len|apply H_slice_len]; exact H0.
    - destruct p as [x|].
      + apply pres_bind; [apply H|]. intro vp. apply pres_one. apply pres_lift. intros s0 H0. apply H_input. exact H0.
      + apply pres_one. apply pres_lift. intros s0 H0. apply H_input. exact H0.
    - apply pres_bind; [apply IHe|]. intro vs. apply pres_one. apply pres_lift. intros s0 H0. apply H_copy. exact H0.
    - apply pres_bind; [apply IHe|]. intro vx. apply pres_ret.
    - apply pres_bind; [apply IHe|]. intro vp. apply pres_one. apply pres_lift. intros s0 H0. apply H_exists. exact H0.
    - destruct (is_string (type_of e)); [|apply pres_err].
      apply pres_bind; [apply IHe|]. intro vp. apply pres_one. apply pres_lift. intros s0 H0. apply H_read_file. exact H0.
  Qed.

  Lemma pres_eval_values many : forall es i, pres (eval_values C many es i).
  Proof.
    induction es as [|e r IH]; intro i; cbn [eval_values]; [apply pres_ret|].
    apply pres_bind; [apply t_expr_preserves|]. intro ve. apply pres_bind.
    - destruct many; [|apply pres_ret].
      apply pres_bind; [apply pres_upd; intros s0 H0; apply H_var_definition; exact H0|]. intros _.
      intros s0 a s' H0 E. inversion E; subst. exact H0.
    - intro v. apply pres_bind; [apply IH|]. intro vr. apply pres_ret.
  Qed.

  Lemma pres_store_values : forall vars vals, pres (store_values C vars vals).
  Proof.
    induction vars as [|v r IH]; intro vals; cbn [store_values]; [apply pres_ret|].
    destruct vals as [|x xr]; [intros s0 a s' _ E; discriminate|].
    apply pres_bind; [apply pres_upd; intros s0 H0; apply H_var_definition; exact H0|]. intros _. apply IH.
  Qed.

  Lemma pres_assign_values vars es : pres (assign_values C vars es).
  Proof.
    unfold assign_values. destruct (length es <? length vars)%nat; [intros s0 a s' _ E; discriminate|].
    apply pres_bind; [apply pres_eval_values|]. intro vs. apply pres_store_values.
  Qed.

  Lemma pres_assign_call vars call : pres (assign_call C vars call).
  Proof.
    unfold assign_call. apply pres_bind; [apply t_expr_preserves|]. intro vs.
    destruct (Nat.eqb (length vs) (length vars)); [apply pres_store_values|apply pres_err].
  Qed.

  Definition block_fix (tst : stmt -> M (St:=St) unit) :=
    fix block (b : list stmt) : M (St:=St) unit :=
      match b with [] => mret tt | s :: r => mbind (tst s) (fun _ => block r) end.

  Lemma pres_block_fix (b : list stmt) :
    Forall (fun st => names_ok st = true -> pres (t_stmt C st)) b -> names_ok_all b = true -> pres (block_fix (t_stmt C) b).
  Proof.
    induction b as [|x r IH]; intros HF Hn; cbn [block_fix]; [apply pres_ret|].
    inversion HF as [|y l Hx Hr]; subst. cbn [names_ok_all] in Hn. apply andb_true_iff in Hn as [Hnx Hnr].
    apply pres_bind; [exact (Hx Hnx)|]. intros _. exact (IH Hr Hnr).
  Qed.

  Lemma pres_t_block (b : list stmt) :
    Forall (fun st => names_ok st = true -> pres (t_stmt C st)) b -> names_ok_all b = true ->
    pres (match b with [] => upd (cv_nop St V C) | _ => block_fix (t_stmt C) b end).
  Proof.
    intros HF Hn. destruct b as [|x r]; [apply pres_upd; intros s0 H0; apply H_nop; exact H0|]. apply pres_block_fix; assumption.
  Qed.

  Lemma names_all_eq (l : list stmt) :
    (fix all (l : list stmt) : bool := match l with [] => true | x :: r => names_ok x && all r end) l = names_ok_all l.
  Proof. induction l as [|x r IH]; [reflexivity|]. cbn [names_ok_all]. rewrite <- IH. reflexivity. Qed.

  Theorem t_stmt_preserves : forall st, names_ok st = true -> pres (t_stmt C st).
  Proof.
    induction st using stmt_ind'; intro Hn; cbn [t_stmt].
    - apply pres_assign_values.
    - apply pres_assign_call.
    - apply pres_assign_values.
    - apply pres_assign_call.
    - apply pres_bind; [apply t_expr_preserves|]. intro vi. apply pres_bind; [apply t_expr_preserves|]. intro vv.
      apply pres_bind.
      + unfold default_of. destruct (dt (type_of x)); try apply pres_err; try apply pres_ret.
        apply pres_lift. intros s0 H0. apply H_string. exact H0.
      + intro d. apply pres_upd. intros s0 H0. apply H_slice_assignment. exact H0.
    - (* SFunc *)
      cbn [names_ok] in Hn. apply andb_true_iff in Hn as [Hp Hb]. rewrite names_all_eq in Hb.
      apply pres_bind; [apply pres_upd; intros s0 H0; apply H_func_start; assumption|]. intros _.
      apply pres_bind; [exact (pres_t_block body H Hb)|]. intros _.
      intros s0 a s' H0 E. exact (H_func_end _ _ _ H0 E).
    - (* SReturn *)
      apply pres_bind.
      + clear Hn. induction es as [|e r IH]; [apply pres_ret|].
        apply pres_bind; [apply t_expr_preserves|]. intro ve. apply pres_bind; [exact IH|]. intro vr. apply pres_ret.
      + intro vs. intros s0 a s' H0 E. exact (H_return _ _ _ _ H0 E).
    - (* SIf *)
      destruct brs as [|[c0 b0] elifs]; [intros s0 a s' _ E; discriminate|].
      cbn [names_ok] in Hn. apply andb_true_iff in Hn as [Hbr Hel]. rewrite names_all_eq in Hel.
      apply andb_true_iff in Hbr as [Hb0 Helifs]. cbn [snd] in Hb0. rewrite names_all_eq in Hb0.
      inversion H as [|x l Hx Hl]; subst. cbn [snd] in Hx.
      apply pres_bind; [apply t_expr_preserves|]. intro v0.
      apply pres_bind.
      { clear - H_string H_unary H_binary H_comparison H_logical H_slice_instantiation H_slice_evaluation H_slice_len H_string_subscript
                H_string_len H_func_call H_app_call H_input H_copy H_exists H_read_file.
        induction elifs as [|[c b] r IH]; [apply pres_ret|].
        apply pres_bind; [apply t_expr_preserves|]. intro vc. apply pres_bind; [exact IH|]. intro vr. apply pres_ret. }
      intro cs.
      apply pres_bind; [apply pres_upd; intros s0 Hs; apply H_if_start; exact Hs|]. intros _.
      apply pres_bind; [exact (pres_t_block b0 Hx Hb0)|]. intros _.
      apply pres_bind.
      { clear H. revert cs Hl Helifs. induction elifs as [|[c b] r IH]; intros cs Hl Helifs; [apply pres_ret|].
        destruct cs as [|v vr]; [intros s0 a s' _ E; discriminate|].
        inversion Hl as [|y l2 Hy Hl2]; subst. cbn [snd] in Hy.
        apply andb_true_iff in Helifs as [Hb Hr]. cbn [snd] in Hb. rewrite names_all_eq in Hb.
        apply pres_bind; [intros s0 a s' Hs E; exact (H_elseif_start _ _ _ _ Hs E)|]. intros _.
        apply pres_bind; [exact (pres_t_block b Hy Hb)|]. intros _. exact (IH vr Hl2 Hr). }
      intros _.
      apply pres_bind.
      { destruct els as [|e0 er]; [apply pres_ret|].
        apply pres_bind; [intros s0 a s' H1 E; exact (H_else_start _ _ _ H1 E)|]. intros _.
        exact (pres_t_block (e0 :: er) H0 Hel). }
      intros _. intros s0 a s' H1 E. exact (H_if_end _ _ _ H1 E).
    - (* SFor *)
      cbn [names_ok] in Hn. apply andb_true_iff in Hn as [Hn1 Hbody]. apply andb_true_iff in Hn1 as [Hi Hinc].
      rewrite names_all_eq in Hbody.
      apply pres_bind; [destruct i as [x|]; [apply H; exact Hi|apply pres_ret]|]. intros _.
      apply pres_bind; [apply pres_upd; intros s0 H2; apply H_for_start; exact H2|]. intros _.
      apply pres_bind.
      { destruct n as [x|]; [|apply pres_ret].
        apply pres_bind; [intros s0 a s' H2 E; exact (H_for_incr_start _ _ _ H2 E)|]. intros _.
        apply pres_bind; [apply H0; exact Hinc|]. intros _.
        intros s0 a s' H2 E. exact (H_for_incr_end _ _ _ H2 E). }
      intros _.
      apply pres_bind; [apply t_expr_preserves|]. intro vc.
      apply pres_bind; [apply pres_upd; intros s0 H2; apply H_for_condition; exact H2|]. intros _.
      apply pres_bind; [exact (pres_t_block body H1 Hbody)|]. intros _.
      intros s0 a s' H2 E. exact (H_for_end _ _ _ H2 E).
    - intros s0 a s' H0 E. exact (H_break _ _ _ H0 E).
    - intros s0 a s' H0 E. exact (H_continue _ _ _ H0 E).
    - (* SPrint *)
      apply pres_bind.
      + clear Hn. induction es as [|e r IH]; [apply pres_ret|].
        apply pres_bind; [apply t_expr_preserves|]. intro ve. apply pres_bind; [exact IH|]. intro vr. apply pres_ret.
      + intro vs. apply pres_upd. intros s0 H0. apply H_print. exact H0.
    - apply pres_bind; [apply t_expr_preserves|]. intro ve. apply pres_upd. intros s0 H0. apply H_panic. exact H0.
    - (* SWrite *)
      destruct (negb (is_string (type_of p))); [apply pres_err|].
      apply pres_bind; [apply t_expr_preserves|]. intro vp.
      destruct (negb (is_string (type_of d))); [apply pres_err|].
      apply pres_bind; [apply t_expr_preserves|]. intro vd.
      destruct (negb (is_bool (type_of a))); [apply pres_err|].
      apply pres_bind; [apply t_expr_preserves|]. intro va.
      apply pres_upd. intros s0 H0. apply H_write_file. exact H0.
    - apply pres_bind; [apply t_expr_preserves|]. intros _. apply pres_ret.
  Qed.

  (* the statements of a whole program, from any state that satisfies the predicate *)
  Theorem program_body_preserves (body : list stmt) : names_ok_all body = true ->
    pres ((fix go (b : list stmt) : M (St:=St) unit := match b with [] => mret tt | s :: r => mbind (t_stmt C s) (fun _ => go r) end) body).
  Proof.
    induction body as [|x r IH]; intro Hn; [apply pres_ret|].
    cbn [names_ok_all] in Hn. apply andb_true_iff in Hn as [Hx Hr].
    apply pres_bind; [apply t_stmt_preserves; exact Hx|]. intros _. exact (IH Hr).
  Qed.
End Inv.
