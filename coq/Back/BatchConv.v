(* Model of /repo/converters/batch/converter.go as an instance of the abstract converter.
   Lines are lightly structured so that labels, jumps, calls and parenthesised blocks can be
   talked about (C16); values are plain text (literals or !name!). *)
From Verif Require Import Base.Bytestr Front.Ast Back.BashLines Back.Transpile.
From Coq Require Import ZArith.
Open Scope N_scope.

Inductive bline :=
| BT (t : bytes)                    (* any other line, parentheses balanced within the line *)
| BLabel (l : bytes)                (* :l *)
| BGoto (l : bytes)                 (* goto :l *)
| BCall (l : bytes) (args : bytes)  (* call :l args *)
| BOpen (t : bytes)                 (* t ( *)
| BElse (t : bytes)                 (* ) else t( *)
| BClose.                           (* ) *)

Definition render_bline (l : bline) : bytes :=
  match l with
  | BT t => t
  | BLabel n => bs ":" ++ n
  | BGoto n => bs "goto :" ++ n
  | BCall n a => bs "call :" ++ n ++ [32] ++ a
  | BOpen t => t ++ bs "("
  | BElse t => bs ") else " ++ t ++ bs "("
  | BClose => bs ")"
  end.

Record wstate := mkW {
  w_start : list bline;
  w_helper : list bline;
  w_global : list bline;
  w_prev_func : bytes;
  w_funcs_code : list (list bline);
  w_end : list bline;
  w_var_counter : nat;
  w_if_counter : nat;
  w_for_counter : nat;
  w_end_labels : list bytes;
  w_funcs : list bytes;             (* names of the functions being defined, innermost last *)
  w_func_counter : nat;
  w_fors : list bytes;              (* start labels of the open loops *)
  w_ifs : list bytes;
  w_lf : bool;
  w_ach : bool; w_frh : bool; w_sah : bool; w_sch : bool; w_sls : bool; w_slg : bool;
  w_stsh : bool; w_stlh : bool; w_fwh : bool; w_ech : bool
}.

Definition w_init : wstate :=
  mkW [] [] [] [] [] [] 0 0 0 [] [] 0 [] [] false false false false false false false false false false false.

(* field updates *)
Definition w_with_code (s : wstate) (g : list bline) (pf : bytes) (fc : list (list bline)) : wstate :=
  mkW (w_start s) (w_helper s) g pf fc (w_end s) (w_var_counter s) (w_if_counter s) (w_for_counter s) (w_end_labels s)
      (w_funcs s) (w_func_counter s) (w_fors s) (w_ifs s) (w_lf s)
      (w_ach s) (w_frh s) (w_sah s) (w_sch s) (w_sls s) (w_slg s) (w_stsh s) (w_stlh s) (w_fwh s) (w_ech s).

Definition w_with_counters (s : wstate) (vc ic fc : nat) : wstate :=
  mkW (w_start s) (w_helper s) (w_global s) (w_prev_func s) (w_funcs_code s) (w_end s) vc ic fc (w_end_labels s)
      (w_funcs s) (w_func_counter s) (w_fors s) (w_ifs s) (w_lf s)
      (w_ach s) (w_frh s) (w_sah s) (w_sch s) (w_sls s) (w_slg s) (w_stsh s) (w_stlh s) (w_fwh s) (w_ech s).

Definition w_with_stacks (s : wstate) (el : list bytes) (fu : list bytes) (fcn : nat) (fo : list bytes) (ifs : list bytes) : wstate :=
  mkW (w_start s) (w_helper s) (w_global s) (w_prev_func s) (w_funcs_code s) (w_end s) (w_var_counter s) (w_if_counter s)
      (w_for_counter s) el fu fcn fo ifs (w_lf s)
      (w_ach s) (w_frh s) (w_sah s) (w_sch s) (w_sls s) (w_slg s) (w_stsh s) (w_stlh s) (w_fwh s) (w_ech s).

Inductive wflag := Fach | Ffrh | Fsah | Fsch | Fsls | Fslg | Fstsh | Fstlh | Ffwh | Fech.

Definition w_set (f : wflag) (s : wstate) : wstate :=
  let b x := match f, x with
             | Fach, Fach | Ffrh, Ffrh | Fsah, Fsah | Fsch, Fsch | Fsls, Fsls | Fslg, Fslg
             | Fstsh, Fstsh | Fstlh, Fstlh | Ffwh, Ffwh | Fech, Fech => true
             | _, _ => false end in
  mkW (w_start s) (w_helper s) (w_global s) (w_prev_func s) (w_funcs_code s) (w_end s) (w_var_counter s) (w_if_counter s)
      (w_for_counter s) (w_end_labels s) (w_funcs s) (w_func_counter s) (w_fors s) (w_ifs s) (w_lf s)
      (w_ach s || b Fach) (w_frh s || b Ffrh) (w_sah s || b Fsah) (w_sch s || b Fsch) (w_sls s || b Fsls) (w_slg s || b Fslg)
      (w_stsh s || b Fstsh) (w_stlh s || b Fstlh) (w_fwh s || b Ffwh) (w_ech s || b Fech).

(* addLf *)
Definition w_add_lf (s : wstate) : wstate :=
  if w_lf s then s else
  mkW (w_start s ++ [BT (bs "(set LF=^"); BT []; BT (bs ")")]) (w_helper s) (w_global s) (w_prev_func s) (w_funcs_code s) (w_end s)
      (w_var_counter s) (w_if_counter s) (w_for_counter s) (w_end_labels s) (w_funcs s) (w_func_counter s) (w_fors s) (w_ifs s) true
      (w_ach s) (w_frh s) (w_sah s) (w_sch s) (w_sls s) (w_slg s) (w_stsh s) (w_stlh s) (w_fwh s) (w_ech s).

(* addLine *)
Definition w_add (l : bline) (s : wstate) : wstate :=
  match rev (w_funcs s) with
  | cur :: _ =>
      let fc := if beq cur (w_prev_func s) then w_funcs_code s else w_funcs_code s ++ [[]] in
      w_with_code s (w_global s) cur (removelast fc ++ [last fc [] ++ [l]])
  | [] => w_with_code s (w_global s ++ [l]) (w_prev_func s) (w_funcs_code s)
  end.

Definition w_adds (ls : list bline) (s : wstate) : wstate := fold_left (fun s l => w_add l s) ls s.

Definition w_var_name (s : wstate) (name : bytes) (global : bool) : bytes :=
  match w_funcs s with
  | [] => name
  | _ => if global then name else bs "f" ++ dec_nat (w_func_counter s) ++ bs "_" ++ name
  end.

Definition set_line (name value : bytes) : bline := BT (bs "set " ++ q ++ name ++ bs "=" ++ value ++ q).
Definition w_assign (s : wstate) (name value : bytes) (global : bool) : bline := set_line (w_var_name s name global) value.
Definition bang (n : bytes) : bytes := bs "!" ++ n ++ bs "!".
Definition w_eval (s : wstate) (name : bytes) (global : bool) : bytes := bang (w_var_name s name global).

Definition w_next_helper (s : wstate) : bytes * wstate :=
  (bs "_h" ++ dec_nat (w_var_counter s), w_with_counters s (S (w_var_counter s)) (w_if_counter s) (w_for_counter s)).

Definition fa_name (i : nat) : bytes := bs "_fa" ++ dec_nat i.
Definition rv_name_w (i : nat) : bytes := bs "_rv" ++ dec_nat i.

(* callFunc(name, globalArgs, args...): set _fa<i> for every global argument, then call :name args *)
Definition w_call (name : bytes) (gargs : list bytes) (args : list bytes) (s : wstate) : wstate :=
  let s1 := fst (fold_left (fun (acc : wstate * nat) a =>
                              let '(st, i) := acc in (w_add (w_assign st (fa_name i) a true) st, S i)) gargs (s, 0%nat)) in
  w_add (BCall name (join [32] args)) s1.

Definition w_echo (text : bytes) (s : wstate) : wstate := w_call (bs "_ech") [text] [] (w_set Fech s).

(* strings.ReplaceAll for the two replacements of StringToString *)
Fixpoint escape_batch (v : bytes) : bytes :=
  match v with
  | [] => []
  | c :: r => if c =? 33 then 94 :: 33 :: escape_batch r
              else if c =? 10 then bs "!LF!" ++ escape_batch r
              else c :: escape_batch r
  end.

Definition add_helper (kind label : bytes) (code : list bline) : list bline :=
  [BT (bs ":: global " ++ kind ++ bs " helper begin"); BGoto (bs "_eo_" ++ label); BLabel label]
  ++ code ++
  [BT (bs "exit /B"); BLabel (bs "_eo_" ++ label); BT (bs ":: global " ++ kind ++ bs " helper end")].

Definition helpers_of (s : wstate) : list bline :=
  let sch := w_sch s in
  let sah := w_sah s in
  let sls := w_sls s || sch || sah in
  let slg := w_slg s || sch || sah in
  (if w_fwh s then add_helper (bs "file write") (bs "_fwh")
     [ BT (bs "set " ++ q ++ bs "_a=>" ++ q);
       BT (bs "if " ++ q ++ bs "%2" ++ q ++ bs " equ " ++ q ++ bs "1" ++ q ++ bs " set " ++ q ++ bs "_a=>>" ++ q);
       BOpen (bs "for /f " ++ q ++ bs "delims=" ++ q ++ bs " %%i in (" ++ q ++ bs "!_fa0!" ++ q ++ bs ") do ");
       BOpen (bs "for /f " ++ q ++ bs "delims=" ++ q ++ bs " %%j in ('echo %%i!_a! %~1') do ");
       BT (bs "rem"); BClose;
       BT (bs "set " ++ q ++ bs "_a=>>" ++ q); BClose ] else [])
  ++ (if w_ach s then add_helper (bs "app call") (bs "_ach")
     [ BT (bs "set " ++ q ++ bs "_h=" ++ q); BT (bs "set " ++ q ++ bs "_te=" ++ q);
       BOpen (bs "for /f " ++ q ++ bs "delims=" ++ q ++ bs " %%i in ('cmd /V:ON /C " ++ q ++ bs "!_fa0! & echo ^!errorlevel^!" ++ q ++ bs "') do ");
       BT (bs "if defined _h set " ++ q ++ bs "_h=!_h!!LF!" ++ q);
       BT (bs "set " ++ q ++ bs "_h=!_h!!_te!" ++ q);
       BT (bs "set _te=%%i"); BClose ] else [])
  ++ (if w_frh s then add_helper (bs "read") (bs "_frh")
     [ BT (bs "set " ++ q ++ bs "_h=" ++ q);
       BOpen (bs "for /f " ++ q ++ bs "delims=" ++ q ++ bs " %%i in (%~1) do ");
       BT (bs "if defined _h set " ++ q ++ bs "_h=!_h!!LF!" ++ q);
       BT (bs "set " ++ q ++ bs "_h=!_h!%%i" ++ q); BClose ] else [])
  ++ (if sch then add_helper (bs "slice copy") (bs "_sch")
     [ BT (bs "set " ++ q ++ bs "_i=0" ++ q);
       BCall (bs "_slg") (bs "%2");
       BLabel (bs "_sch_loop");
       BOpen (bs "if !_i! lss !_len! ");
       BT (bs "for /f " ++ q ++ bs "delims=" ++ q ++ bs " %%i in (" ++ q ++ bs "%2_!_i!" ++ q ++ bs ") do set " ++ q ++ bs "_v=!%%i!" ++ q);
       BT (bs "set " ++ q ++ bs "!%1!_!_i!=!_v!" ++ q);
       BT (bs "set /A " ++ q ++ bs "_i=!_i!+1" ++ q);
       BGoto (bs "_sch_loop"); BClose;
       BCall (bs "_slg") (bs "!%1!");
       BT (bs "if !_i! gtr !_len! call :_sls !%1! !_i!") ] else [])
  ++ (if sah then add_helper (bs "slice assignment") (bs "_sah")
     [ BCall (bs "_slg") (bs "!%1!");
       BT (bs "set " ++ q ++ bs "_i=!_len!" ++ q);
       BLabel (bs "_sah_loop");
       BOpen (bs "if !_i! lss %2 ");
       BT (bs "set " ++ q ++ bs "!%1!_!_i!=%3" ++ q);
       BT (bs "set /A " ++ q ++ bs "_i=!_i!+1" ++ q);
       BGoto (bs "_sah_loop");
       BElse [];
       BOpen (bs "if !_len! leq %2 ");
       BT (bs "set /A " ++ q ++ bs "_len=%2+1" ++ q);
       BCall (bs "_sls") (bs "!%1! !_len!");
       BClose;
       BClose;
       BT (bs "set " ++ q ++ bs "!%1!_%2=!_fa0!" ++ q) ] else [])
  ++ (if sls then add_helper (bs "slice length set") (bs "_sls") [ BT (bs "set " ++ q ++ bs "%1_len=%2" ++ q) ] else [])
  ++ (if slg then add_helper (bs "slice length get") (bs "_slg") [ BT (bs "set " ++ q ++ bs "_len=!%1_len!" ++ q) ] else [])
  ++ (if w_stsh s then add_helper (bs "string subscript") (bs "_stsh")
     [ BT (bs "set /A " ++ q ++ bs "_sh=(%2-%1)+1" ++ q);
       BT (bs "set " ++ q ++ bs "_sub=!_fa0:~%1,%_sh%!" ++ q) ] else [])
  ++ (if w_stlh s then add_helper (bs "string length") (bs "_stlh")
     [ BT (bs "set _l=0"); BLabel (bs "_stlhl");
       BT (bs "if " ++ q ++ bs "!_fa0!" ++ q ++ bs " equ " ++ q ++ q ++ bs " (goto :_stlhle) else if " ++ q ++ bs "!_fa0:~%_l%!" ++ q ++ bs " equ " ++ q ++ q ++ bs " goto :_stlhle");
       BT (bs "set /A " ++ q ++ bs "_l=%_l%+1" ++ q);
       BGoto (bs "_stlhl"); BLabel (bs "_stlhle") ] else [])
  ++ (if w_ech s then add_helper (bs "echo") (bs "_ech")
     [ BT (bs "echo.!_fa0!") ] else []).

Definition wcmp_text (vt : vtype) (op : cmpop) : option (bytes * bool) :=   (* operator, quote operands *)
  if is_slice vt then None else
  match dt vt, op with
  | DBool, CEq | DInt, CEq => Some (bs "equ", false)
  | DBool, CNe | DInt, CNe => Some (bs "neq", false)
  | DInt, CGt => Some (bs "gtr", false)
  | DInt, CGe => Some (bs "geq", false)
  | DInt, CLt => Some (bs "lss", false)
  | DInt, CLe => Some (bs "leq", false)
  | DString, CEq => Some (bs "equ", true)
  | DString, CNe => Some (bs "neq", true)
  | _, _ => None
  end.

Definition wapp_arg (t : bytes) : bytes :=
  if hd_is 37 t || existsb (fun c => c =? 32) t then q ++ t ++ q else t.

Definition wcalls_text (calls : list (bytes * list bytes)) : bytes :=
  join (bs " | ") (map (fun c => fst c ++ (match snd c with [] => [] | _ => [32] end) ++ join [32] (map wapp_arg (snd c))) calls).

Definition if_line (c : bytes) : bytes := bs "if " ++ q ++ c ++ q ++ bs " equ " ++ q ++ bs "1" ++ q ++ bs " ".

Definition pop {A} (l : list A) : list A := removelast l.

Definition batch_conv : converter wstate bytes :=
  mkConv wstate bytes
    (* cv_bool *) (fun b => if b then bs "1" else bs "0")
    (* cv_int *) (fun z => dec_Z z)
    (* cv_string *) (fun v s => (escape_batch v, w_add_lf s))
    (* cv_empty *) []
    (* program_start *) (fun s =>
       mkW (w_start s ++ [BT (bs "@echo off"); BT (bs "setlocal EnableDelayedExpansion"); BT (bs "setlocal"); set_line (bs "_e") (bs "0")])
           (w_helper s) (w_global s) (w_prev_func s) (w_funcs_code s) (w_end s) (w_var_counter s) (w_if_counter s) (w_for_counter s)
           (w_end_labels s) (w_funcs s) (w_func_counter s) (w_fors s) (w_ifs s) (w_lf s)
           (w_ach s) (w_frh s) (w_sah s) (w_sch s) (w_sls s) (w_slg s) (w_stsh s) (w_stlh s) (w_fwh s) (w_ech s))
    (* program_end *) (fun s =>
       mkW (w_start s) (w_helper s ++ helpers_of s) (w_global s) (w_prev_func s) (w_funcs_code s)
           (w_end s ++ [BLabel (bs "end"); BT (bs "endlocal & exit /B %_e%")]) (w_var_counter s) (w_if_counter s) (w_for_counter s)
           (w_end_labels s) (w_funcs s) (w_func_counter s) (w_fors s) (w_ifs s) (w_lf s)
           (w_ach s) (w_frh s) (w_sah s) (w_sch s) (w_sls s) (w_slg s) (w_stsh s) (w_stlh s) (w_fwh s) (w_ech s))
    (* var_definition *) (fun name v global s => w_add (w_assign s name v global) s)
    (* slice_assignment *) (fun name idx val def global s =>
       w_call (bs "_sah") [val] [w_var_name s name global; idx; def] (w_set Fsah s))
    (* func_start *) (fun name params rets s =>
       let s1 := w_with_stacks s (w_end_labels s) (w_funcs s ++ [name]) (S (w_func_counter s)) (w_fors s) (w_ifs s) in
       let s2 := w_adds [BT (bs ":: " ++ name ++ bs " function begin"); BGoto (bs "_eo_" ++ name); BLabel name] s1 in
       fst (fold_left (fun (acc : wstate * nat) p =>
                         let '(st, i) := acc in (w_add (w_assign st p (bang (fa_name i)) false) st, S i)) params (s2, 0%nat)))
    (* func_end *) (fun s =>
       match rev (w_funcs s) with
       | [] => TPanic
       | name :: _ =>
           let s1 := w_adds [BLabel (bs "_ret_" ++ name); BT (bs "exit /B"); BLabel (bs "_eo_" ++ name);
                             BT (bs ":: " ++ name ++ bs " function end")] s in
           TOk tt (w_with_stacks s1 (w_end_labels s1) (pop (w_funcs s1)) (w_func_counter s1) (w_fors s1) (w_ifs s1))
       end)
    (* return *) (fun vals s =>
       match rev (w_funcs s) with
       | [] => TPanic
       | name :: _ =>
           let s1 := fst (fold_left (fun (acc : wstate * nat) v =>
                                       let '(st, i) := acc in (w_add (w_assign st (rv_name_w i) v true) st, S i)) vals (s, 0%nat)) in
           TOk tt (w_add (BGoto (bs "_ret_" ++ name)) s1)
       end)
    (* if_start *) (fun c s =>
       let label := bs "_i" ++ dec_nat (w_if_counter s) in
       let s1 := w_with_counters s (w_var_counter s) (S (w_if_counter s)) (w_for_counter s) in
       let s2 := w_with_stacks s1 (w_end_labels s1) (w_funcs s1) (w_func_counter s1) (w_fors s1) (w_ifs s1 ++ [label]) in
       w_add (BOpen (if_line c)) s2)
    (* if_end *) (fun s =>
       match rev (w_ifs s) with
       | [] => TPanic
       | label :: _ =>
           let s1 := w_adds [BGoto label; BClose; BLabel label] s in
           TOk tt (w_with_stacks s1 (w_end_labels s1) (w_funcs s1) (w_func_counter s1) (w_fors s1) (pop (w_ifs s1)))
       end)
    (* elseif_start *) (fun c s =>
       match rev (w_ifs s) with
       | [] => TPanic
       | label :: _ => TOk tt (w_adds [BGoto label; BElse (if_line c)] s)
       end)
    (* else_start *) (fun s =>
       match rev (w_ifs s) with
       | [] => TPanic
       | label :: _ => TOk tt (w_adds [BGoto label; BElse []] s)
       end)
    (* for_start *) (fun s =>
       let k := w_for_counter s in
       let label := bs "_f" ++ dec_nat k in
       let s1 := w_with_counters s (w_var_counter s) (w_if_counter s) (S k) in
       let s2 := w_with_stacks s1 (w_end_labels s1 ++ [bs "_e" ++ dec_nat k]) (w_funcs s1) (w_func_counter s1) (w_fors s1 ++ [label]) (w_ifs s1) in
       w_adds [set_line (bs "_fv" ++ dec_nat k) []; BLabel label] s2)
    (* for_incr_start *) (fun s => TOk tt (w_add (BOpen (bs "if defined _fv" ++ dec_nat (w_for_counter s - 1) ++ bs " ")) s))
    (* for_incr_end *) (fun s => TOk tt (w_adds [BClose; set_line (bs "_fv" ++ dec_nat (w_for_counter s - 1)) (bs "1")] s))
    (* for_condition *) (fun c s => w_add (BOpen (if_line c)) s)
    (* for_end *) (fun s =>
       match rev (w_fors s), rev (w_end_labels s) with
       | label :: _, el :: _ =>
           let s1 := w_adds [BGoto label; BClose] s in
           let s2 := w_with_stacks s1 (pop (w_end_labels s1)) (w_funcs s1) (w_func_counter s1) (pop (w_fors s1)) (w_ifs s1) in
           TOk tt (w_add (BLabel el) s2)
       | _, _ => TPanic
       end)
    (* break *) (fun s => match rev (w_end_labels s) with el :: _ => TOk tt (w_add (BGoto el) s) | [] => TPanic end)
    (* continue *) (fun s => match rev (w_fors s) with l :: _ => TOk tt (w_add (BGoto l) s) | [] => TPanic end)
    (* print *) (fun vals s => w_echo (join [32] vals) s)
    (* panic *) (fun v s => w_adds [set_line (bs "_e") (bs "1"); BGoto (bs "end")] (w_echo (bs "panic: " ++ v) s))
    (* write_file *) (fun path content app s => w_call (bs "_fwh") [content] [path; app] (w_set Ffwh s))
    (* nop *) (fun s => w_add (BT (bs "rem No operation")) s)
    (* unary *) (fun e s =>
       let '(h, s1) := w_next_helper s in
       (w_eval s1 h false,
        w_add (BT (bs "if " ++ e ++ bs " equ 1 (" ++ render_bline (w_assign s1 h (bs "0") false) ++ bs ") else "
                   ++ render_bline (w_assign s1 h (bs "1") false))) s1))
    (* binary *) (fun l op r vt s =>
       let '(h, s1) := w_next_helper s in
       if is_slice vt then TErr else
       match dt vt with
       | DInt =>
           let o := match op with OpMod => bs "%%" | _ => binop_text op end in
           TOk (w_eval s1 h false)
               (w_add (BT (bs "set /A " ++ q ++ w_var_name s1 h false ++ bs "=" ++ l ++ o ++ r ++ q)) s1)
       | DString =>
           match op with
           | OpAdd => TOk (w_eval s1 h false) (w_add (w_assign s1 h (l ++ r) false) s1)
           | _ => TErr
           end
       | _ => TErr
       end)
    (* comparison *) (fun l op r vt s =>
       match wcmp_text vt op with
       | None => TErr
       | Some (o, quoted) =>
           let '(h, s1) := w_next_helper s in
           let qq := if quoted then q else [] in
           TOk (w_eval s1 h false)
               (w_add (BT (bs "if " ++ qq ++ l ++ qq ++ [32] ++ o ++ [32] ++ qq ++ r ++ qq ++ bs " ("
                           ++ render_bline (w_assign s1 h (bs "1") false) ++ bs ") else "
                           ++ render_bline (w_assign s1 h (bs "0") false))) s1)
       end)
    (* logical *) (fun l op r s =>
       let '(h, s1) := w_next_helper s in
       let t := render_bline (w_assign s1 h (bs "1") false) in
       let f := render_bline (w_assign s1 h (bs "0") false) in
       (w_eval s1 h false,
        w_add (BT (match op with
                   | LAnd => bs "if " ++ l ++ bs " equ 1 (if " ++ r ++ bs " equ 1 (" ++ t ++ bs ") else " ++ f ++ bs ") else " ++ f
                   | LOr => bs "if " ++ l ++ bs " equ 1 (" ++ t ++ bs ") else if " ++ r ++ bs " equ 1 (" ++ t ++ bs ") else " ++ f
                   end)) s1))
    (* var_evaluation *) (fun name global s => w_eval s name global)
    (* slice_instantiation *) (fun vals s =>
       let s0 := w_add (BT (bs "set /A " ++ q ++ bs "_dvc=!_dvc!+1" ++ q)) s in
       let '(h, s1) := w_next_helper s0 in
       let hv := w_eval s1 h false in
       let s2 := w_add (w_assign s1 h (bs "_dv!_dvc!") false) s1 in
       let s3 := w_call (bs "_sls") [] [hv; dec_nat (length vals)] (w_set Fsls s2) in
       (hv, fst (fold_left (fun (acc : wstate * nat) v =>
                              let '(st, i) := acc in (w_add (set_line (hv ++ bs "_" ++ dec_nat i) v) st, S i)) vals (s3, 0%nat))))
    (* slice_evaluation *) (fun name idx s =>
       let '(h, s1) := w_next_helper s in
       (w_eval s1 h false,
        w_add (BT (bs "for /f " ++ q ++ bs "delims=" ++ q ++ bs " %%i in (" ++ q ++ name ++ bs "_" ++ idx ++ q ++ bs ") do set " ++ q
                   ++ w_var_name s1 h false ++ bs "=!%%i!" ++ q)) s1))
    (* slice_len *) (fun name s =>
       let '(h, s1) := w_next_helper s in
       let s2 := w_call (bs "_slg") [] [name] (w_set Fslg s1) in
       (w_eval s2 h false, w_add (w_assign s2 h (bs "!_len!") false) s2))
    (* string_subscript *) (fun v a b s =>
       let '(h, s1) := w_next_helper s in
       let s2 := w_call (bs "_stsh") [v] [a; b] (w_set Fstsh s1) in
       (w_eval s2 h false, w_add (w_assign s2 h (bs "!_sub!") false) s2))
    (* string_len *) (fun v s =>
       let '(h, s1) := w_next_helper s in
       let s2 := w_call (bs "_stlh") [v] [] (w_set Fstlh s1) in
       (w_eval s2 h false, w_add (w_assign s2 h (bs "!_l!") false) s2))
    (* func_call *) (fun name args rets used s =>
       let s1 := w_call name args [] s in
       if used then
         let '(vals, s2, _) :=
           fold_left (fun (acc : list bytes * wstate * nat) _ =>
                        let '(vs, st, i) := acc in
                        let '(h, st1) := w_next_helper st in
                        (vs ++ [w_eval st1 h false], w_add (w_assign st1 h (bang (rv_name_w i)) false) st1, S i)) rets ([], s1, 0%nat) in
         (vals, s2)
       else (map (fun _ => []) rets, s1))
    (* app_call *) (fun calls used s =>
       let text := wcalls_text calls in
       if used then
         let '(h1, s1) := w_next_helper s in
         let '(h2, s2) := w_next_helper s1 in
         let s3 := w_call (bs "_ach") [text] [] (w_add_lf (w_set Fach s2)) in
         let s4 := w_add (w_assign s3 h1 (bs "!_h!") false) s3 in
         ([w_eval s4 h1 false; []; w_eval s4 h2 false], w_add (w_assign s4 h2 (bs "!_te!") false) s4)
       else ([[]; []; bs "0"], w_add (BT (bs "call " ++ text)) s))
    (* input *) (fun prompt _ s =>
       let '(h, s1) := w_next_helper s in
       (w_eval s1 h false, w_add (BT (bs "set /p " ++ q ++ h ++ bs "=" ++ prompt ++ q)) s1))
    (* copy *) (fun dst src global s =>
       let '(h, s0) := w_next_helper s in
       let s1 := w_call (bs "_sch") [] [w_var_name s0 dst global; src] (w_set Fsch s0) in
       let s2 := w_call (bs "_slg") [] [src] s1 in
       (w_eval s2 h false, w_add (w_assign s2 h (bs "!_len!") false) s2))
    (* exists *) (fun p s =>
       let '(h, s1) := w_next_helper s in
       (w_eval s1 h false,
        w_add (BT (bs "if exist " ++ q ++ p ++ q ++ bs " (" ++ render_bline (w_assign s1 h (bs "1") false) ++ bs ") else "
                   ++ render_bline (w_assign s1 h (bs "0") false))) s1))
    (* read_file *) (fun p s =>
       let '(h, s1) := w_next_helper s in
       let s2 := w_call (bs "_frh") [] [p] (w_add_lf (w_set Ffrh s1)) in
       (w_eval s2 h false, w_add (w_assign s2 h (bs "!_h!") false) s2))
    (* dump *) (fun s =>
       concat (map (fun l => render_bline l ++ [13; 10])
                   (w_start s ++ w_helper s ++ concat (rev (w_funcs_code s)) ++ w_global s ++ w_end s))).

Definition emit_batch (body : list stmt) : tres wstate bytes := transpile_program batch_conv w_init body.
