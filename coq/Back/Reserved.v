(* The names the Bash back-end creates for itself, the decidable class they live in, and the fact that a
   user identifier outside that class can never be one of them.  The front end does NOT reject identifiers
   inside the class; the capture witness at the end is computed on the models of parser, converter and shell. *)
From Verif Require Import Base.Bytestr Base.DecFacts Front.Ast Front.FrontModel Back.BashLines Back.Transpile Back.BashConv
  Back.NameFacts Front.TableCheck Sem.Src Sem.BashSem.
From Coq Require Import Lia Arith.
Open Scope N_scope.

(* f<digits>_<anything>: the shape of a mangled local *)
Definition is_mangled (n : bytes) : bool :=
  hd_is 102 n && (let '(d, rest) := span is_digit (tl n) in (match d with [] => false | _ => true end) && hd_is 95 rest).

(* the class: every name that starts with an underscore, and every name shaped like a mangled local *)
Definition reserved_bash (n : bytes) : bool := hd_is 95 n || is_mangled n.

Lemma mangled_is_mangled k x : is_mangled (mangled k x) = true.
Proof.
  unfold is_mangled, mangled. change (bs "f") with [102]. cbn [app hd_is tl]. change (102 =? 102) with true. cbn [andb].
  change (bs "_") with [95].
  rewrite (span_all is_digit (dec_nat k) ([95] ++ x)); [|apply dec_N_digits|reflexivity].
  destruct (dec_nat k) eqn:E; [exfalso; exact (dec_N_nonempty _ E)|]. reflexivity.
Qed.

(* everything the converter names itself is in the class *)
Theorem converter_names_reserved :
  (forall s, reserved_bash (fst (next_helper s)) = true)
  /\ (forall i, reserved_bash (rv_name i) = true)
  /\ (forall k, reserved_bash (bs "_fv" ++ dec_nat k) = true)
  /\ (forall k x, reserved_bash (mangled k x) = true)
  /\ forallb reserved_bash [bs "_dvc"; bs "_ret"; bs "_ls"; bs "_ll"; bs "_i"; bs "_l"; bs "_c"; bs "_n"; bs "_v"; bs "_sah"; bs "_sch"; bs "_ssh"] = true.
Proof.
  repeat split; try reflexivity.
  intros k x. unfold reserved_bash. rewrite mangled_is_mangled. apply orb_true_r.
Qed.

(* hence a user identifier outside the class is never captured, in any function, at any helper count *)
Theorem unreserved_never_captured u :
  reserved_bash u = false ->
  (forall s, u <> fst (next_helper s)) /\ (forall i, u <> rv_name i) /\ (forall k, u <> bs "_fv" ++ dec_nat k) /\ (forall k x, u <> mangled k x)
  /\ ~ In u [bs "_dvc"; bs "_ret"; bs "_ls"; bs "_ll"; bs "_i"; bs "_l"; bs "_c"; bs "_n"; bs "_v"; bs "_sah"; bs "_sch"; bs "_ssh"].
Proof.
  intro H. destruct converter_names_reserved as [A [B [C [D E]]]].
  repeat split.
  - intros s Eq. rewrite Eq, A in H. discriminate.
  - intros i Eq. rewrite Eq, B in H. discriminate.
  - intros k Eq. rewrite Eq, C in H. discriminate.
  - intros k x Eq. rewrite Eq, D in H. discriminate.
  - intro I. rewrite forallb_forall in E. rewrite (E u I) in H. discriminate.
Qed.

(* ---- the front end accepts names of the class: a capture witness ---- *)
Definition capture_src : bytes := bs "_h0 := 5
x := (_h0 + 1) * 2
".

Definition capture_result : option (bytes * bytes) :=
  match parse_main (table_env capture_src) (bs "/V/main.tsh") with
  | POk body _ _ _ =>
      match emit_bash body with
      | TOk _ st => match exec_lines [] (b_code st) with
                    | Some e => Some (sh_get (bs "_h0") e, sh_get (bs "x") e)
                    | None => None
                    end
      | _ => None
      end
  | _ => None
  end.

(* the program is accepted; in the source _h0 stays 5 and x becomes 12; the script leaves 6 in _h0 *)
Theorem reserved_name_captured : capture_result = Some (bs "6", bs "12").
Proof. vm_compute. reflexivity. Qed.

(* ---- the Batch back-end ---- *)
From Verif Require Import Back.BatchConv.

(* its own names: everything with a leading underscore, mangled locals, and the newline variable LF
   (cmd.exe folds case: lf, Lf and lF are the same variable) *)
Definition lower_byte (c : N) : N := if (65 <=? c) && (c <=? 90) then c + 32 else c.
Definition reserved_batch (n : bytes) : bool := reserved_bash n || beq (map lower_byte n) (bs "lf").

Theorem batch_converter_names_reserved :
  (forall s, reserved_batch (fst (w_next_helper s)) = true)
  /\ (forall i, reserved_batch (fa_name i) = true)
  /\ (forall i, reserved_batch (rv_name_w i) = true)
  /\ (forall k, reserved_batch (bs "_fv" ++ dec_nat k) = true)
  /\ (forall s x, w_funcs s <> [] -> reserved_batch (w_var_name s x false) = true)
  /\ forallb reserved_batch [bs "_e"; bs "_dvc"; bs "_len"; bs "_i"; bs "_v"; bs "_sub"; bs "_sh"; bs "_l"; bs "_te"; bs "_h"; bs "_a"; bs "LF"] = true.
Proof.
  repeat split; try reflexivity.
  intros s x H. unfold w_var_name. destruct (w_funcs s) as [|f r]; [contradiction|].
  unfold reserved_batch. change (bs "f" ++ dec_nat (w_func_counter s) ++ bs "_" ++ x) with (mangled (w_func_counter s) x).
  destruct converter_names_reserved as [_ [_ [_ [D _]]]]. rewrite (D (w_func_counter s) x). reflexivity.
Qed.

Theorem batch_unreserved_never_captured u :
  reserved_batch u = false ->
  (forall s, u <> fst (w_next_helper s)) /\ (forall i, u <> fa_name i) /\ (forall i, u <> rv_name_w i) /\ (forall k, u <> bs "_fv" ++ dec_nat k)
  /\ (forall s x, w_funcs s <> [] -> u <> w_var_name s x false)
  /\ ~ In u [bs "_e"; bs "_dvc"; bs "_len"; bs "_i"; bs "_v"; bs "_sub"; bs "_sh"; bs "_l"; bs "_te"; bs "_h"; bs "_a"; bs "LF"].
Proof.
  intro H. destruct batch_converter_names_reserved as [A [B [C [D [E F]]]]].
  repeat split.
  - intros s Eq. rewrite Eq, A in H. discriminate.
  - intros i Eq. rewrite Eq, B in H. discriminate.
  - intros i Eq. rewrite Eq, C in H. discriminate.
  - intros k Eq. rewrite Eq, D in H. discriminate.
  - intros s x Hf Eq. rewrite Eq, (E s x Hf) in H. discriminate.
  - intro I. rewrite forallb_forall in F. rewrite (F u I) in H. discriminate.
Qed.

(* case folding: a user variable spelled lf is the converter's LF for cmd.exe *)
Example batch_case_folding : reserved_batch (bs "lf") = true /\ reserved_batch (bs "Lf") = true /\ reserved_batch (bs "total") = false.
Proof. repeat split; reflexivity. Qed.
