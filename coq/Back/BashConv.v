(* Model of /repo/converters/bash/converter.go as an instance of the abstract converter. *)
From Verif Require Import Base.Bytestr Front.Ast Back.BashLines Back.Transpile.
From Coq Require Import ZArith.
Open Scope N_scope.

Record bstate := mkB {
  b_start : list line;          (* startCode *)
  b_code : list line;           (* code *)
  b_var_counter : nat;
  b_for_counter : nat;
  b_fors : list nat;            (* open loops, innermost last *)
  b_funcs : nat;                (* len(c.funcs) *)
  b_func_counter : nat;
  b_sah : bool; b_sch : bool; b_ssh : bool
}.

Definition b_init : bstate := mkB [] [] 0 0 [] 0 0 false false false.

Definition add_line (l : line) (s : bstate) : bstate :=
  mkB (b_start s) (b_code s ++ [l]) (b_var_counter s) (b_for_counter s) (b_fors s) (b_funcs s) (b_func_counter s)
      (b_sah s) (b_sch s) (b_ssh s).

Definition add_lines (ls : list line) (s : bstate) : bstate := fold_left (fun s l => add_line l s) ls s.

Definition var_name (s : bstate) (name : bytes) (global : bool) : bytes :=
  if (0 <? b_funcs s)%nat && negb global then bs "f" ++ dec_nat (b_func_counter s) ++ bs "_" ++ name else name.

Definition next_helper (s : bstate) : bytes * bstate :=
  (bs "_h" ++ dec_nat (b_var_counter s),
   mkB (b_start s) (b_code s) (S (b_var_counter s)) (b_for_counter s) (b_fors s) (b_funcs s) (b_func_counter s)
       (b_sah s) (b_sch s) (b_ssh s)).

Definition set_flags (sah sch ssh : bool) (s : bstate) : bstate :=
  mkB (b_start s) (b_code s) (b_var_counter s) (b_for_counter s) (b_fors s) (b_funcs s) (b_func_counter s)
      (b_sah s || sah) (b_sch s || sch) (b_ssh s || ssh).

(* allocate a helper, assign rhs to it, return the reference *)
Definition helper_assign (mk : rhs) (s : bstate) : atom * bstate :=
  let '(h, s1) := next_helper s in
  let n := var_name s1 h false in
  (ARef n, add_line (LAssign n mk) s1).

Definition rv_name (i : nat) : bytes := bs "_rv" ++ dec_nat i.

Definition current_flag (s : bstate) : option bytes :=
  match rev (b_fors s) with k :: _ => Some (bs "_fv" ++ dec_nat k) | [] => None end.

Definition cmp_text (vt : vtype) (op : cmpop) : option bytes :=
  if is_slice vt then None else
  match dt vt, op with
  | DBool, CEq | DInt, CEq => Some (bs "-eq")
  | DBool, CNe | DInt, CNe => Some (bs "-ne")
  | DInt, CGt => Some (bs "-gt")
  | DInt, CGe => Some (bs "-ge")
  | DInt, CLt => Some (bs "-lt")
  | DInt, CLe => Some (bs "-le")
  | DString, CEq => Some (bs "==")
  | DString, CNe => Some (bs "!=")
  | _, _ => None
  end.

(* AppCall's quoting heuristic on the rendered argument *)
Definition app_arg (a : atom) : bytes :=
  let t := render_atom a in
  if hd_is 36 t || existsb (fun c => c =? 32) t then q ++ t ++ q else t.

Definition sah_helper : list line :=
  [ LHelperComment (bs "slice assignment"); LFuncOpen (bs "_sah");
    LText (bs "local _i=${2}");
    LText (bs "local _l=$(eval " ++ q ++ bs "echo \${#${1}[@]}" ++ q ++ bs ")");
    LText (bs "for ((_c=${_l};_c<${_i};_c++)); do");
    LText (bs "eval " ++ q ++ bs "${1}[${_c}]=" ++ bq ++ bs "\${4}" ++ bq ++ q);
    LText (bs "done");
    LText (bs "eval " ++ q ++ bs "${1}[${_i}]=" ++ bq ++ bs "\${3}" ++ bq ++ q);
    LClose ].

Definition sch_helper : list line :=
  [ LHelperComment (bs "slice copy"); LFuncOpen (bs "_sch");
    LText (bs "local _i=0");
    LText (bs "local _l=$(eval " ++ q ++ bs "echo \${#${2}[@]}" ++ q ++ bs ")");
    LText (bs "local _n=$(eval " ++ q ++ bs "echo \${${1}}" ++ q ++ bs ")");
    LText (bs "while [ ${_i} -lt ${_l} ]; do");
    LText (bs "local _v=$(eval " ++ q ++ bs "printf '%s' " ++ [92; 34] ++ bs "\${${2}[${_i}]}" ++ [92; 34] ++ q ++ bs ")");
    LText (bs "eval " ++ q ++ bs "${_n}[${_i}]=" ++ bq ++ bs "\${_v}" ++ bq ++ q);
    LText (bs "_i=$((${_i}+1))");
    LText (bs "done");
    LClose ].

Definition ssh_helper : list line :=
  [ LHelperComment (bs "substring"); LFuncOpen (bs "_ssh");
    LText (bs "_ls=$((${2}))");
    LText (bs "_ll=$(((${3}-${2})+1))");
    LText (bs "_ret=" ++ q ++ bs "${1:${_ls}:${_ll}}" ++ q);
    LClose ].

(* LC_ALL="C": the script's own locale, so that ${#s} and ${s:a:n} count bytes as Go does *)
Definition locale_line : line := LAssign (bs "LC_ALL") (RAtom (ALit (bs "C"))).

Definition bash_conv : converter bstate atom :=
  mkConv bstate atom
    (* cv_bool *) (fun b => ALit (if b then bs "1" else bs "0"))
    (* cv_int *) (fun z => ALit (dec_Z z))
    (* cv_string *) (fun v s => (ALit v, s))
    (* cv_empty *) (ALit [])
    (* program_start *) (fun s => mkB (b_start s ++ [LShebang; locale_line]) (b_code s) (b_var_counter s) (b_for_counter s) (b_fors s)
                                      (b_funcs s) (b_func_counter s) (b_sah s) (b_sch s) (b_ssh s))
    (* program_end *) (fun s =>
       let extra := (if b_sah s then sah_helper else []) ++ (if b_sch s then sch_helper else []) ++ (if b_ssh s then ssh_helper else []) in
       mkB (b_start s ++ extra) (b_code s) (b_var_counter s) (b_for_counter s) (b_fors s) (b_funcs s) (b_func_counter s)
           (b_sah s) (b_sch s) (b_ssh s))
    (* var_definition *) (fun name v global s => add_line (LAssign (var_name s name global) (RAtom v)) s)
    (* slice_assignment *) (fun name idx val def global s =>
       add_line (LSah (ARef (var_name s name global)) idx val def) (set_flags true false false s))
    (* func_start *) (fun name params rets s =>
       let s1 := mkB (b_start s) (b_code s) (b_var_counter s) (b_for_counter s) (b_fors s) (S (b_funcs s)) (S (b_func_counter s))
                     (b_sah s) (b_sch s) (b_ssh s) in
       let s2 := add_line (LFuncOpen name) s1 in
       fst (fold_left (fun (acc : bstate * nat) p =>
                         let '(st, i) := acc in (add_line (LLocalParam (var_name st p false) i) st, S i)) params (s2, 1%nat)))
    (* func_end *) (fun s =>
       match b_funcs s with
       | O => TPanic
       | S k => let s1 := add_line LClose s in
                TOk tt (mkB (b_start s1) (b_code s1) (b_var_counter s1) (b_for_counter s1) (b_fors s1) k (b_func_counter s1)
                            (b_sah s1) (b_sch s1) (b_ssh s1))
       end)
    (* return *) (fun vals s =>
       let s1 := fst (fold_left (fun (acc : bstate * nat) v =>
                                   let '(st, i) := acc in (add_line (LAssign (var_name st (rv_name i) true) (RAtom v)) st, S i)) vals (s, 0%nat)) in
       TOk tt (add_line LReturn s1))
    (* if_start *) (fun c s => add_line (LIf (bs "if") c) s)
    (* if_end *) (fun s => TOk tt (add_line LFi s))
    (* elseif_start *) (fun c s => TOk tt (add_line (LIf (bs "elif") c) s))
    (* else_start *) (fun s => TOk tt (add_line LElse s))
    (* for_start *) (fun s =>
       let k := b_for_counter s in
       let s1 := mkB (b_start s) (b_code s) (b_var_counter s) (S k) (b_fors s ++ [k]) (b_funcs s) (b_func_counter s)
                     (b_sah s) (b_sch s) (b_ssh s) in
       add_line LWhile (add_line (LForInit (bs "_fv" ++ dec_nat k)) s1))
    (* for_incr_start *) (fun s => match current_flag s with Some f => TOk tt (add_line (LIncrGuard f) s) | None => TPanic end)
    (* for_incr_end *) (fun s => match current_flag s with Some f => TOk tt (add_line (LFlagSet f) (add_line LFi s)) | None => TPanic end)
    (* for_condition *) (fun c s => add_line (LBreakUnless c) s)
    (* for_end *) (fun s =>
       match b_fors s with
       | [] => TPanic
       | _ => let s1 := add_line LDone s in
              TOk tt (mkB (b_start s1) (b_code s1) (b_var_counter s1) (b_for_counter s1) (removelast (b_fors s1)) (b_funcs s1)
                          (b_func_counter s1) (b_sah s1) (b_sch s1) (b_ssh s1))
       end)
    (* break *) (fun s => TOk tt (add_line LBreak s))
    (* continue *) (fun s => TOk tt (add_line LContinue s))
    (* print *) (fun vals s => add_line (LEcho (join [32] (map render_atom vals))) s)
    (* panic *) (fun v s => add_line LExit1 (add_line (LEcho (bs "panic: " ++ render_atom v)) s))
    (* write_file *) (fun path content app s =>
       let '(h, s1) := helper_assign (RRedir app) s in
       add_line (LEvalWrite content h path) s1)
    (* nop *) (fun s => add_line LNop s)
    (* unary *) (fun e s => helper_assign (RNot e) s)
    (* binary *) (fun l op r vt s =>
       if is_slice vt then TErr else
       match dt vt with
       | DInt => let '(h, s1) := helper_assign (RArith l op r) s in TOk h s1
       | DString => match op with
                    | OpAdd => let '(h, s1) := helper_assign (RConcat l r) s in TOk h s1
                    | _ => TErr
                    end
       | _ => TErr
       end)
    (* comparison *) (fun l op r vt s =>
       match cmp_text vt op with
       | Some o => let '(h, s1) := helper_assign (RCompare l o r) s in TOk h s1
       | None => TErr
       end)
    (* logical *) (fun l op r s => helper_assign (RLogical l op r) s)
    (* var_evaluation *) (fun name global s => ARef (var_name s name global))
    (* slice_instantiation *) (fun vals s =>
       let '(h, s1) := helper_assign RNewSlice (add_line LDvcIncr s) in
       (h, match vals with [] => s1 | _ => add_line (LEvalArray h vals) s1 end))
    (* slice_evaluation *) (fun name idx s => helper_assign (RSliceEval name idx) s)
    (* slice_len *) (fun name s => helper_assign (RSliceLen name) s)
    (* string_subscript *) (fun v a b s =>
       let '(h, s1) := next_helper s in
       let n := var_name s1 h false in
       (ARef n, set_flags false false true (add_line (LAssign n (RAtom (ARef (bs "_ret")))) (add_line (LSsh v a b) s1))))
    (* string_len *) (fun v s =>
       let '(h, s1) := next_helper s in
       let n := var_name s1 h false in
       (ARef n, add_line (LAssign n (RStrLen n)) (add_line (LAssign n (RAtom v)) s1)))
    (* func_call *) (fun name args rets used s =>
       let s1 := add_line (LCall name args) s in
       if used then
         let '(vals, s2, _) :=
           fold_left (fun (acc : list atom * bstate * nat) _ =>
                        let '(vs, st, i) := acc in
                        let '(h, st') := helper_assign (RAtom (ARef (rv_name i))) st in
                        (vs ++ [h], st', S i)) rets ([], s1, 0%nat) in
         (vals, s2)
       else (map (fun _ => ALit []) rets, s1))
    (* app_call *) (fun calls used s =>
       let cs := map (fun c => (fst c, map app_arg (snd c))) calls in
       if used then
         let '(h1, s1) := next_helper s in
         let '(h2, s2) := next_helper s1 in
         let n1 := var_name s2 h1 false in
         let n2 := var_name s2 h2 false in
         ([ARef n1; ALit []; ARef n2], add_line (LAssign n2 RStatus) (add_line (LAssign n1 (RCapture cs)) s2))
       else ([ALit []; ALit []; ALit (bs "0")], add_line (LPipeline cs) s))
    (* input *) (fun prompt _ s =>
       let '(h, s1) := next_helper s in
       (ARef (var_name s1 h false), add_line (LRead prompt (var_name s1 h false)) s1))
    (* copy *) (fun dst src global s =>
       let d := var_name s dst global in
       let s1 := set_flags true true false (add_line (LSch d src) s) in
       helper_assign (RSliceLen src) s1)
    (* exists *) (fun p s => helper_assign (RExists p) s)
    (* read_file *) (fun p s => helper_assign (RCat p) s)
    (* dump *) (fun s => render_script (b_start s ++ b_code s)).

(* transpiler.Transpile(path, bash.New()) after parsing *)
Definition emit_bash (body : list stmt) : tres bstate bytes := transpile_program bash_conv b_init body.
